(* Proofs about Model/State.v (heap model of ClusterParameters / ModelState). *)
From Coq Require Import List Arith Lia Bool Permutation.
Import ListNotations.
From Ticc Require Import Model.Repop Proofs.RepopP Model.State.

Notation Inv := Ticc.Model.State.Inv.

(* ------------------------------------------------------------------ *)
(* heap library                                                        *)
(* ------------------------------------------------------------------ *)

Lemma get_lt h l o : get h l = Some o -> l < length h.
Proof. unfold get. intros H. apply nth_error_Some. congruence. Qed.

Lemma get_ge h l : length h <= l -> get h l = None.
Proof. unfold get. apply nth_error_None. Qed.

Lemma get_app_old h t l : l < length h -> get (h ++ t) l = get h l.
Proof. unfold get. intros. apply nth_error_app1; auto. Qed.

Lemma get_app_new h o t : get (h ++ o :: t) (length h) = Some o.
Proof. unfold get. rewrite nth_error_app2, Nat.sub_diag; auto. Qed.

Lemma get_app_new2 h o1 o2 t : get (h ++ o1 :: o2 :: t) (S (length h)) = Some o2.
Proof.
  unfold get. rewrite nth_error_app2 by lia.
  replace (S (length h) - length h) with 1 by lia. reflexivity.
Qed.

Lemma length_upd h : forall l o, length (upd h l o) = length h.
Proof. induction h as [|x h IH]; intros [|l] o; cbn; auto. Qed.

Lemma get_upd_same h : forall l o, l < length h -> get (upd h l o) l = Some o.
Proof.
  unfold get. induction h as [|x h IH]; intros [|l] o H; cbn in *; try lia; auto.
  apply IH; lia.
Qed.

Lemma get_upd_other h : forall l l' o, l' <> l -> get (upd h l o) l' = get h l'.
Proof.
  unfold get. induction h as [|x h IH]; intros [|l] [|l'] o H; cbn; auto; try congruence.
Qed.

Definition unchanged (h h' : heap) : Prop := forall l, l < length h -> get h' l = get h l.

Definition ext (h h' : heap) : Prop :=
  length h <= length h' /\ forall l, l < length h -> get h' l = get h l.

Lemma ext_unchanged h h' : ext h h' -> unchanged h h'.
Proof. intros [_ H]; exact H. Qed.

Lemma ext_refl h : ext h h.
Proof. split; auto. Qed.

Lemma ext_trans h1 h2 h3 : ext h1 h2 -> ext h2 h3 -> ext h1 h3.
Proof.
  intros [L1 G1] [L2 G2]. split; [lia|]. intros l Hl. rewrite G2 by lia. auto.
Qed.

Lemma ext_app h t : ext h (h ++ t).
Proof. split; [rewrite app_length; lia|]. intros; apply get_app_old; auto. Qed.

Lemma ext_get h h' l o : ext h h' -> get h l = Some o -> get h' l = Some o.
Proof. intros [_ G] H. rewrite G; auto. eapply get_lt; eauto. Qed.

Lemma ext_len h h' : ext h h' -> length h <= length h'.
Proof. intros [L _]; auto. Qed.

Lemma ext_upd_fresh h h' c o : ext h h' -> length h <= c -> ext h (upd h' c o).
Proof.
  intros [L G] Hc. split; [rewrite length_upd; auto|].
  intros l Hl. rewrite get_upd_other by lia. auto.
Qed.

(* only the locations in S (and fresh ones) may differ *)
Definition modonly (S : list loc) (h h' : heap) : Prop :=
  length h <= length h' /\ forall l, l < length h -> ~ In l S -> get h' l = get h l.

Lemma modonly_refl S h : modonly S h h.
Proof. split; auto. Qed.

Lemma modonly_trans S h1 h2 h3 : modonly S h1 h2 -> modonly S h2 h3 -> modonly S h1 h3.
Proof.
  intros [L1 G1] [L2 G2]. split; [lia|]. intros l Hl Hn. rewrite G2 by (auto; lia). auto.
Qed.

Lemma modonly_incl S S' h h' : incl S S' -> modonly S h h' -> modonly S' h h'.
Proof. intros HI [L G]. split; auto. Qed.

Lemma ext_modonly S h h' : ext h h' -> modonly S h h'.
Proof. intros [L G]. split; auto. Qed.

Lemma modonly_nil h h' : modonly [] h h' -> ext h h'.
Proof. intros [L G]. split; auto. Qed.

Lemma modonly_upd h c o : modonly [c] h (upd h c o).
Proof.
  split; [rewrite length_upd; auto|]. intros l Hl Hn.
  apply get_upd_other. intros ->. apply Hn. left; auto.
Qed.

(* tags: objects with tag >= 4 (clusters, states) are the only ones that are ever overwritten
   by the operations on an existing state *)
Definition tag (o : obj) : nat :=
  match o with
  | OList _ => 0 | OArr _ => 1 | ORefs _ => 2 | OArgs _ _ _ _ => 3
  | OCluster _ _ _ _ _ _ _ => 4 | OState _ _ _ _ _ => 5
  end.

Definition mut (h : heap) (S : list loc) : Prop :=
  forall x, In x S -> exists o, get h x = Some o /\ 4 <= tag o.

Lemma modonly_imm S h h' l o :
  modonly S h h' -> mut h S -> get h l = Some o -> tag o < 4 -> get h' l = Some o.
Proof.
  intros [L G] HM Hl Ht. rewrite G; auto.
  - eapply get_lt; eauto.
  - intros Hin. destruct (HM l Hin) as [o' [Ho' Ht']]. rewrite Hl in Ho'.
    inversion Ho'; subst. lia.
Qed.

Lemma modonly_keep S h h' l o :
  modonly S h h' -> ~ In l S -> get h l = Some o -> get h' l = Some o.
Proof. intros [L G] Hn Hl. rewrite G; auto. eapply get_lt; eauto. Qed.

Lemma mut_app h S1 S2 : mut h S1 -> mut h S2 -> mut h (S1 ++ S2).
Proof. intros H1 H2 x Hx. apply in_app_or in Hx. destruct Hx; auto. Qed.

(* ------------------------------------------------------------------ *)
(* clusters                                                            *)
(* ------------------------------------------------------------------ *)

Definition clus (h : heap) (c : loc) (ms : list nat) : Prop :=
  exists mem ec mean ti cc ic ld,
    get h c = Some (OCluster mem ec mean ti cc ic ld) /\ get h mem = Some (OList ms).

Definition isclus (h : heap) (c : loc) : Prop := exists ms, clus h c ms.

Lemma clus_members h c ms : clus h c ms -> cluster_members h c = ms.
Proof.
  intros (mem & ec & mean & ti & cc & ic & ld & Hc & Hm).
  unfold cluster_members, get_list. rewrite Hc, Hm. reflexivity.
Qed.

Lemma clus_fun h c ms ms' : clus h c ms -> clus h c ms' -> ms = ms'.
Proof. intros H1 H2. apply clus_members in H1, H2. congruence. Qed.

Lemma clus_ext h h' c ms : ext h h' -> clus h c ms -> clus h' c ms.
Proof.
  intros HE (mem & ec & mean & ti & cc & ic & ld & Hc & Hm).
  exists mem, ec, mean, ti, cc, ic, ld. split; eapply ext_get; eauto.
Qed.

Lemma clus_mut h c ms : clus h c ms -> mut h [c].
Proof.
  intros (mem & ec & mean & ti & cc & ic & ld & Hc & Hm) x [<-|[]].
  eexists; split; [exact Hc|cbn; lia].
Qed.

Lemma isclus_mut h cs : (forall c, In c cs -> isclus h c) -> mut h cs.
Proof.
  intros H x Hx. destruct (H x Hx) as [ms Hc].
  apply (clus_mut _ _ _ Hc). left; auto.
Qed.

Lemma clus_modonly S h h' c ms :
  modonly S h h' -> mut h S -> ~ In c S -> clus h c ms -> clus h' c ms.
Proof.
  intros HM HS Hn (mem & ec & mean & ti & cc & ic & ld & Hc & Hm).
  exists mem, ec, mean, ti, cc, ic, ld. split.
  - eapply modonly_keep; eauto.
  - eapply modonly_imm; eauto.
Qed.

(* rewriting a cluster slot without changing its member-list pointer *)
Lemma upd_cluster_clus h c ml e1 e2 e3 e4 e5 e6 f1 f2 f3 f4 f5 f6 x ms :
  get h c = Some (OCluster ml e1 e2 e3 e4 e5 e6) -> clus h x ms ->
  clus (upd h c (OCluster ml f1 f2 f3 f4 f5 f6)) x ms.
Proof.
  intros Hc (mem & ec & mean & ti & cc & ic & ld & Hx & Hm).
  assert (Hmc : mem <> c) by (intros ->; rewrite Hc in Hm; discriminate).
  destruct (Nat.eq_dec x c) as [->|Hxc].
  - rewrite Hc in Hx. inversion Hx; subst.
    exists mem, f1, f2, f3, f4, f5, f6. split.
    + apply get_upd_same. eapply get_lt; eauto.
    + rewrite get_upd_other; auto.
  - exists mem, ec, mean, ti, cc, ic, ld. split; rewrite get_upd_other; auto.
Qed.

Lemma list_eqb_eq a : forall b, list_eqb a b = true <-> a = b.
Proof.
  induction a as [|x a IH]; intros [|y b]; cbn; split; intros H; try discriminate; auto.
  - apply andb_true_iff in H. destruct H as [H1 H2]. apply Nat.eqb_eq in H1.
    apply IH in H2. congruence.
  - inversion H; subst. rewrite Nat.eqb_refl. cbn. apply IH. reflexivity.
Qed.

Lemma positions_nil k : positions [] k = [].
Proof. reflexivity. Qed.

Lemma alloc_upd h c o o' : c < length h ->
  modonly [c] h (upd (h ++ [o]) c o') /\
  get (upd (h ++ [o]) c o') c = Some o' /\
  get (upd (h ++ [o]) c o') (length h) = Some o.
Proof.
  intros Hc. split; [|split].
  - split; [rewrite length_upd, app_length; lia|].
    intros l Hl Hn. rewrite get_upd_other, get_app_old; auto.
    intros ->. apply Hn; left; auto.
  - apply get_upd_same. rewrite app_length; lia.
  - rewrite get_upd_other by lia. apply get_app_new.
Qed.

Lemma set_members_spec h c new mem ec mean ti cc ic ld ms :
  get h c = Some (OCluster mem ec mean ti cc ic ld) -> get h mem = Some (OList ms) ->
  modonly [c] h (set_members h c new) /\
  exists mem', get (set_members h c new) c = Some (OCluster mem' ec mean ti cc ic ld) /\
               get (set_members h c new) mem' = Some (OList new).
Proof.
  intros Hc Hm. unfold set_members. rewrite Hc.
  pose proof (get_lt _ _ _ Hc) as Hlt.
  destruct (length new =? 0) eqn:E0.
  - apply Nat.eqb_eq in E0. destruct new; [|discriminate].
    unfold alloc. cbv beta iota.
    destruct (alloc_upd h c (OList []) (OCluster (length h) ec mean ti cc ic ld) Hlt) as (A & B & C).
    split; auto. eauto.
  - destruct (list_eqb new (get_list h mem)) eqn:E1.
    + apply list_eqb_eq in E1. unfold get_list in E1. rewrite Hm in E1. subst new.
      split; [apply modonly_refl|]. eauto.
    + unfold alloc. cbv beta iota.
      destruct (alloc_upd h c (OList new) (OCluster (length h) ec mean ti cc ic ld) Hlt) as (A & B & C).
      split; auto. eauto.
Qed.

Lemma set_members_clus h c new : isclus h c ->
  modonly [c] h (set_members h c new) /\ clus (set_members h c new) c new.
Proof.
  intros [ms (mem & ec & mean & ti & cc & ic & ld & Hc & Hm)].
  destruct (set_members_spec h c new _ _ _ _ _ _ _ _ Hc Hm) as [A (mem' & B & C)].
  split; auto. exists mem', ec, mean, ti, cc, ic, ld. auto.
Qed.

Lemma isclus_modonly S h h' c :
  modonly S h h' -> mut h S -> ~ In c S -> isclus h c -> isclus h' c.
Proof. intros A B C [ms D]. exists ms. eapply clus_modonly; eauto. Qed.

Lemma update_membership_spec labels : forall cs h k,
  NoDup cs -> (forall c, In c cs -> isclus h c) ->
  modonly cs h (update_membership h cs labels k) /\
  forall i c, nth_error cs i = Some c ->
              clus (update_membership h cs labels k) c (positions labels (k + i)).
Proof.
  induction cs as [|c r IH]; intros h k Hnd Hcl; cbn [update_membership].
  - split; [apply modonly_refl|]. intros [|i] c H; discriminate.
  - inversion Hnd as [|? ? Hnin Hnd']; subst.
    destruct (set_members_clus h c (positions labels k) (Hcl c (in_eq _ _))) as [HM HC].
    set (h1 := set_members h c (positions labels k)) in *.
    assert (Hmc : mut h [c]).
    { destruct (Hcl c (in_eq _ _)) as [ms Hx]. eapply clus_mut; eauto. }
    assert (Hcl1 : forall x, In x r -> isclus h1 x).
    { intros x Hx. eapply isclus_modonly; eauto.
      - intros [->|[]]. contradiction.
      - apply Hcl. right; auto. }
    destruct (IH h1 (S k) Hnd' Hcl1) as [HM' HC'].
    split.
    + eapply modonly_trans.
      * eapply modonly_incl; [|exact HM]. intros x [<-|[]]. left; auto.
      * eapply modonly_incl; [|exact HM']. intros x Hx. right; auto.
    + intros [|i] x Hx; cbn in Hx.
      * inversion Hx; subst x. rewrite Nat.add_0_r.
        eapply clus_modonly; eauto. apply isclus_mut; auto.
      * replace (k + S i) with (S k + i) by lia. auto.
Qed.

Lemma clear_membership_spec : forall cs h,
  NoDup cs -> (forall c, In c cs -> isclus h c) ->
  modonly cs h (clear_membership h cs) /\
  forall c, In c cs -> clus (clear_membership h cs) c [].
Proof.
  induction cs as [|c r IH]; intros h Hnd Hcl; cbn [clear_membership].
  - split; [apply modonly_refl|]. intros c [].
  - inversion Hnd as [|? ? Hnin Hnd']; subst.
    destruct (set_members_clus h c [] (Hcl c (in_eq _ _))) as [HM HC].
    set (h1 := set_members h c []) in *.
    assert (Hmc : mut h [c]).
    { destruct (Hcl c (in_eq _ _)) as [ms Hx]. eapply clus_mut; eauto. }
    assert (Hcl1 : forall x, In x r -> isclus h1 x).
    { intros x Hx. eapply isclus_modonly; eauto.
      - intros [->|[]]. contradiction.
      - apply Hcl. right; auto. }
    destruct (IH h1 Hnd' Hcl1) as [HM' HC'].
    split.
    + eapply modonly_trans.
      * eapply modonly_incl; [|exact HM]. intros x [<-|[]]. left; auto.
      * eapply modonly_incl; [|exact HM']. intros x Hx. right; auto.
    + intros x [<-|Hx]; auto.
      eapply clus_modonly; eauto. apply isclus_mut; auto.
Qed.

(* ------------------------------------------------------------------ *)
(* state descriptions                                                  *)
(* ------------------------------------------------------------------ *)

Definition SD (h : heap) (s a cl : loc) (lab : option loc) (cost : option (list nat)) (data : loc)
           (K m : nat) (lam beta : option loc) (cs : list loc) : Prop :=
  get h s = Some (OState a cl lab cost data) /\
  get h a = Some (OArgs K m lam beta) /\
  get h cl = Some (ORefs cs) /\ length cs = K /\ NoDup cs /\
  (forall c, In c cs -> isclus h c) /\
  (forall l, lab = Some l -> exists ls, get h l = Some (OList ls)).

Lemma WF_SD h s : WF h s <->
  exists a cl lab cost data K m lam beta cs, SD h s a cl lab cost data K m lam beta cs.
Proof.
  split.
  - intros (a & cl & lab & cost & data & K & m & lam & beta & cs & H1 & H2 & H3 & H4 & H5 & H6 & H7).
    exists a, cl, lab, cost, data, K, m, lam, beta, cs. repeat split; auto.
    intros c Hc. destruct (H6 c Hc) as (mem & ec & mean & ti & cc & ic & ld & ms & A & B).
    exists ms, mem, ec, mean, ti, cc, ic, ld. auto.
  - intros (a & cl & lab & cost & data & K & m & lam & beta & cs & H1 & H2 & H3 & H4 & H5 & H6 & H7).
    exists a, cl, lab, cost, data, K, m, lam, beta, cs. repeat split; auto.
    intros c Hc. destruct (H6 c Hc) as (ms & mem & ec & mean & ti & cc & ic & ld & A & B).
    exists mem, ec, mean, ti, cc, ic, ld, ms. auto.
Qed.

Section SDfacts.
Variables (h : heap) (s a cl : loc) (lab : option loc) (cost : option (list nat)) (data : loc)
          (K m : nat) (lam beta : option loc) (cs : list loc).
Hypothesis HSD : SD h s a cl lab cost data K m lam beta cs.

Lemma SD_clusters : state_clusters h s = cs.
Proof.
  destruct HSD as (H1 & H2 & H3 & _). unfold state_clusters, get_refs. rewrite H1, H3. reflexivity.
Qed.

Lemma SD_refs : get_refs h cl = cs.
Proof. destruct HSD as (H1 & H2 & H3 & _). unfold get_refs. rewrite H3. reflexivity. Qed.

Lemma SD_K : state_K h s = K.
Proof. destruct HSD as (H1 & H2 & _). unfold state_K. rewrite H1, H2. reflexivity. Qed.

Lemma SD_m : state_m h s = m.
Proof. destruct HSD as (H1 & H2 & _). unfold state_m. rewrite H1, H2. reflexivity. Qed.

Lemma SD_labels : state_labels h s = match lab with Some l => Some (get_list h l) | None => None end.
Proof. destruct HSD as (H1 & _). unfold state_labels. rewrite H1. destruct lab; reflexivity. Qed.

Lemma SD_firstn : firstn K cs = cs.
Proof. destruct HSD as (_ & _ & _ & H4 & _). apply firstn_all2. lia. Qed.

Lemma SD_skipn : skipn K cs = [].
Proof. destruct HSD as (_ & _ & _ & H4 & _). apply skipn_all2. lia. Qed.

Lemma SD_mut : mut h (s :: cs).
Proof.
  destruct HSD as (H1 & _ & _ & _ & _ & H6 & _).
  intros x [<-|Hx].
  - eexists; split; [exact H1|cbn; lia].
  - apply (isclus_mut _ _ H6); auto.
Qed.

Lemma SD_s_notin : ~ In s cs.
Proof.
  destruct HSD as (H1 & _ & _ & _ & _ & H6 & _). intros Hin.
  destruct (H6 s Hin) as (ms & mem & ec & mean & ti & cc & ic & ld & A & B). congruence.
Qed.

(* transport along a modification of s and the clusters only *)
Lemma SD_modonly S h' lab' cost' :
  modonly S h h' -> mut h S ->
  get h' s = Some (OState a cl lab' cost' data) ->
  (forall c, In c cs -> isclus h' c) ->
  (forall l, lab' = Some l -> exists ls, get h' l = Some (OList ls)) ->
  SD h' s a cl lab' cost' data K m lam beta cs.
Proof.
  intros HM HS Hs Hc Hl.
  destruct HSD as (H1 & H2 & H3 & H4 & H5 & H6 & H7).
  repeat split; auto.
  - eapply modonly_imm; eauto; cbn; lia.
  - eapply modonly_imm; eauto; cbn; lia.
Qed.
End SDfacts.

(* the invariant in terms of a description *)
Definition InvD (h : heap) (lab : option loc) (cs : list loc) : Prop :=
  match lab with
  | Some l => forall k c, nth_error cs k = Some c -> clus h c (positions (get_list h l) k)
  | None => forall c, In c cs -> clus h c []
  end.

Lemma Inv_InvD h s a cl lab cost data K m lam beta cs :
  SD h s a cl lab cost data K m lam beta cs -> (Inv h s <-> InvD h lab cs).
Proof.
  intros HSD. unfold Inv, InvD.
  rewrite (SD_clusters _ _ _ _ _ _ _ _ _ _ _ _ HSD), (SD_K _ _ _ _ _ _ _ _ _ _ _ _ HSD),
          (SD_labels _ _ _ _ _ _ _ _ _ _ _ _ HSD).
  destruct HSD as (H1 & H2 & H3 & H4 & H5 & H6 & H7).
  destruct lab as [l|]; split.
  - intros [_ H] k c Hk. destruct (H6 c (nth_error_In _ _ Hk)) as [ms Hc].
    rewrite <- (H k c Hk), (clus_members _ _ _ Hc). auto.
  - intros H. split; auto. intros k c Hk. apply clus_members. auto.
  - intros [_ H] c Hc. destruct (H6 c Hc) as [ms Hx].
    rewrite <- (H c Hc), (clus_members _ _ _ Hx). auto.
  - intros H. split; auto. intros c Hc. apply clus_members. auto.
Qed.

Lemma get_list_eq h l ls : get h l = Some (OList ls) -> get_list h l = ls.
Proof. unfold get_list. intros ->. reflexivity. Qed.

(* ------------------------------------------------------------------ *)
(* set_labels                                                          *)
(* ------------------------------------------------------------------ *)

Lemma set_labels_spec h s a cl lab cost data K m lam beta cs l ls :
  SD h s a cl lab cost data K m lam beta cs -> get h l = Some (OList ls) ->
  (set_labels h s l = h /\ exists o, lab = Some o /\ get h o = Some (OList ls)) \/
  (modonly (s :: cs) h (set_labels h s l) /\
   get (set_labels h s l) s = Some (OState a cl (Some l) cost data) /\
   forall k c, nth_error cs k = Some c -> clus (set_labels h s l) c (positions ls k)).
Proof.
  intros HSD Hl.
  pose proof (SD_refs _ _ _ _ _ _ _ _ _ _ _ _ HSD) as Hrefs.
  pose proof (SD_K _ _ _ _ _ _ _ _ _ _ _ _ HSD) as HK.
  pose proof (SD_firstn _ _ _ _ _ _ _ _ _ _ _ _ HSD) as Hfn.
  pose proof (SD_s_notin _ _ _ _ _ _ _ _ _ _ _ _ HSD) as Hsn.
  destruct HSD as (H1 & H2 & H3 & H4 & H5 & H6 & H7).
  unfold set_labels. rewrite H1. rewrite (get_list_eq _ _ _ Hl), Hrefs, HK, Hfn.
  assert (Hcase : (exists o, lab = Some o /\ get h o = Some (OList ls)) \/
                  match lab with Some o => list_eqb ls (get_list h o) | None => false end = false).
  { destruct lab as [o|]; auto.
    destruct (list_eqb ls (get_list h o)) eqn:E; auto.
    left. exists o. split; auto. destruct (H7 o eq_refl) as [ls' Ho].
    rewrite (get_list_eq _ _ _ Ho) in E. apply list_eqb_eq in E. subst; auto. }
  destruct Hcase as [(o & -> & Ho)|Hf].
  - left. rewrite (get_list_eq _ _ _ Ho).
    replace (list_eqb ls ls) with true by (symmetry; apply list_eqb_eq; auto).
    split; auto. eauto.
  - right. rewrite Hf.
    set (h1 := upd h s (OState a cl (Some l) cost data)).
    assert (HM1 : modonly [s] h h1) by apply modonly_upd.
    assert (Hms : mut h [s]).
    { intros x [<-|[]]. eexists; split; [exact H1|cbn; lia]. }
    assert (Hs1 : get h1 s = Some (OState a cl (Some l) cost data)).
    { apply get_upd_same. eapply get_lt; eauto. }
    assert (Hcl1 : forall c, In c cs -> isclus h1 c).
    { intros c Hc. eapply isclus_modonly; eauto. intros [->|[]]. contradiction. }
    assert (Hfin : forall h', modonly cs h1 h' ->
              modonly (s :: cs) h h' /\ get h' s = Some (OState a cl (Some l) cost data)).
    { intros h' HM'. split.
      - eapply modonly_trans.
        + eapply modonly_incl; [|exact HM1]. intros x [<-|[]]; left; auto.
        + eapply modonly_incl; [|exact HM']. intros x Hx; right; auto.
      - eapply modonly_keep; eauto. }
    destruct (length ls =? 0) eqn:E0.
    + apply Nat.eqb_eq in E0. destruct ls; [|discriminate].
      destruct (clear_membership_spec cs h1 H5 Hcl1) as [HM' HC'].
      destruct (Hfin _ HM') as [A B]. split; [|split]; auto.
      intros k c Hk. rewrite positions_nil. apply HC'. eapply nth_error_In; eauto.
    + destruct (update_membership_spec ls cs h1 0 H5 Hcl1) as [HM' HC'].
      destruct (Hfin _ HM') as [A B]. split; [|split]; auto.
Qed.

(* consequences: description and invariant after set_labels *)
Lemma set_labels_SD h s a cl lab cost data K m lam beta cs l ls :
  SD h s a cl lab cost data K m lam beta cs -> get h l = Some (OList ls) ->
  exists lab', SD (set_labels h s l) s a cl lab' cost data K m lam beta cs /\
    modonly (s :: cs) h (set_labels h s l) /\
    (exists l', lab' = Some l' /\ get (set_labels h s l) l' = Some (OList ls)) /\
    (InvD h lab cs -> InvD (set_labels h s l) lab' cs).
Proof.
  intros HSD Hl.
  pose proof (SD_mut _ _ _ _ _ _ _ _ _ _ _ _ HSD) as Hmut.
  destruct (set_labels_spec _ _ _ _ _ _ _ _ _ _ _ _ _ _ HSD Hl) as [[E (o & -> & Ho)]|(HM & Hs & HC)].
  - rewrite E. exists (Some o). split; auto. split; [apply modonly_refl|]. split; eauto.
  - assert (Hl' : get (set_labels h s l) l = Some (OList ls)).
    { eapply modonly_imm; eauto; cbn; lia. }
    exists (Some l). split; [|split; [|split]]; auto.
    + eapply SD_modonly; eauto.
      * intros c Hc. apply In_nth_error in Hc. destruct Hc as [k Hk]. eexists. eauto.
      * intros l0 E. inversion E; subst. eauto.
    + eauto.
    + intros _. unfold InvD. rewrite (get_list_eq _ _ _ Hl'). auto.
Qed.

(* ------------------------------------------------------------------ *)
(* allocation-only functions                                           *)
(* ------------------------------------------------------------------ *)

Lemma F2_imp {A B} (R S : A -> B -> Prop) l l' :
  (forall x y, R x y -> S x y) -> Forall2 R l l' -> Forall2 S l l'.
Proof. intros H; induction 1; constructor; auto. Qed.

Lemma F2_nth_r {A B} (R : A -> B -> Prop) l l' :
  Forall2 R l l' -> forall k y, nth_error l' k = Some y -> exists x, nth_error l k = Some x /\ R x y.
Proof.
  induction 1 as [|x y l l' Hxy HF IH]; intros [|k] z Hk; cbn in *; try discriminate.
  - inversion Hk; subst. eauto.
  - eauto.
Qed.

Lemma F2_in_r {A B} (R : A -> B -> Prop) l l' :
  Forall2 R l l' -> forall y, In y l' -> exists x, In x l /\ R x y.
Proof.
  intros HF y Hy. apply In_nth_error in Hy. destruct Hy as [k Hk].
  destruct (F2_nth_r _ _ _ HF k y Hk) as [x [Hx HR]]. exists x. split; auto.
  eapply nth_error_In; eauto.
Qed.

Lemma new_cluster_eq h ms ec mean ti cc ic ld :
  new_cluster h ms ec mean ti cc ic ld =
  (h ++ [OList ms; OCluster (length h) ec mean ti cc ic ld], S (length h)).
Proof.
  unfold new_cluster, alloc. rewrite <- app_assoc, app_length. cbn [app length].
  rewrite Nat.add_1_r. reflexivity.
Qed.

Lemma new_cluster_spec h ms ec mean ti cc ic ld h' c' :
  new_cluster h ms ec mean ti cc ic ld = (h', c') ->
  ext h h' /\ length h <= c' < length h' /\
  get h' c' = Some (OCluster (length h) ec mean ti cc ic ld) /\
  get h' (length h) = Some (OList ms) /\ length h < length h'.
Proof.
  rewrite new_cluster_eq. intros E. inversion E; subst.
  split; [apply ext_app|]. rewrite app_length. cbn [length].
  split; [lia|]. split; [apply get_app_new2|]. split; [apply get_app_new|lia].
Qed.

Definition oarr (h : heap) (x : option loc) : Prop :=
  forall l, x = Some l -> exists c, get h l = Some (OArr c).

Lemma oarr_ext h h' x : ext h h' -> oarr h x -> oarr h' x.
Proof. intros HE H l Hl. destruct (H l Hl) as [c Hc]. exists c. eapply ext_get; eauto. Qed.

Lemma copy_arr_spec h a h' a' :
  copy_arr h a = (h', a') ->
  ext h h' /\ (oarr h a -> exists l c, a' = Some l /\ length h <= l /\ get h' l = Some (OArr c)).
Proof.
  unfold copy_arr, alloc. destruct a as [l|].
  - destruct (get h l) as [[| c | | | |]|] eqn:E; intros Eq; inversion Eq; subst;
      (split; [try apply ext_refl; try apply ext_app|]); intros Ha;
      destruct (Ha l eq_refl) as [c' Hc']; try congruence.
    exists (length h), c. split; auto. split; auto. apply get_app_new.
  - intros Eq; inversion Eq; subst. split; [apply ext_app|]. intros _.
    exists (length h), []. split; auto. split; auto. apply get_app_new.
Qed.

(* freshness of a copied optional array field *)
Definition fr (h h' : heap) (x x' : option loc) : Prop :=
  oarr h x -> exists l c, x' = Some l /\ length h <= l /\ get h' l = Some (OArr c).

Lemma fr_mono h0 h h1 h' x x' : ext h0 h -> ext h1 h' -> fr h h1 x x' -> fr h0 h' x x'.
Proof.
  intros E0 E1 H Hx. destruct (H (oarr_ext _ _ _ E0 Hx)) as (l & c & A & B & C).
  exists l, c. split; auto. split; [destruct E0; lia|]. eapply ext_get; eauto.
Qed.

Lemma cluster_deep_copy_spec h c mem ec mean ti cc ic ld ms h' c' :
  get h c = Some (OCluster mem ec mean ti cc ic ld) -> get h mem = Some (OList ms) ->
  cluster_deep_copy h c = (h', c') ->
  ext h h' /\ length h <= c' < length h' /\
  exists mem' ec' mean' ti' cc' ic',
    get h' c' = Some (OCluster mem' ec' mean' ti' cc' ic' ld) /\
    get h' mem' = Some (OList ms) /\ length h <= mem' /\
    fr h h' ec ec' /\ fr h h' mean mean' /\ fr h h' ti ti' /\ fr h h' cc cc' /\ fr h h' ic ic'.
Proof.
  intros Hc Hm. unfold cluster_deep_copy. rewrite Hc. rewrite (get_list_eq _ _ _ Hm).
  destruct (copy_arr h cc) as [h1 cc'] eqn:E1.
  destruct (copy_arr h1 ec) as [h2 ec'] eqn:E2.
  destruct (copy_arr h2 ic) as [h3 ic'] eqn:E3.
  destruct (copy_arr h3 mean) as [h4 mean'] eqn:E4.
  destruct (copy_arr h4 ti) as [h5 ti'] eqn:E5.
  intros E6.
  apply copy_arr_spec in E1, E2, E3, E4, E5.
  destruct E1 as [X1 F1], E2 as [X2 F2], E3 as [X3 F3], E4 as [X4 F4], E5 as [X5 F5].
  apply new_cluster_spec in E6. destruct E6 as (X6 & Hc' & G1 & G2 & G3).
  assert (Y2 : ext h h2) by (eapply ext_trans; eauto).
  assert (Y3 : ext h h3) by (eapply ext_trans; eauto).
  assert (Y4 : ext h h4) by (eapply ext_trans; eauto).
  assert (Y5 : ext h h5) by (eapply ext_trans; eauto).
  assert (Y6 : ext h h') by (eapply ext_trans; eauto).
  assert (Z5 : ext h5 h') by auto.
  assert (Z4 : ext h4 h') by (eapply ext_trans; eauto).
  assert (Z3 : ext h3 h') by (eapply ext_trans; eauto).
  assert (Z2 : ext h2 h') by (eapply ext_trans; eauto).
  assert (Z1 : ext h1 h') by (eapply ext_trans; eauto).
  pose proof (ext_len _ _ Y5) as L5.
  split; auto. split; [lia|].
  exists (length h5), ec', mean', ti', cc', ic'.
  split; auto. split; auto. split; auto.
  split; [|split; [|split; [|split]]].
  - eapply (fr_mono h h1 h2 h'); eauto.
  - eapply (fr_mono h h3 h4 h'); eauto.
  - eapply (fr_mono h h4 h5 h'); eauto.
  - eapply (fr_mono h h h1 h'); eauto. apply ext_refl.
  - eapply (fr_mono h h2 h3 h'); eauto.
Qed.

Lemma cluster_deep_copy_clus h c h' c' ms :
  clus h c ms -> cluster_deep_copy h c = (h', c') ->
  ext h h' /\ length h <= c' < length h' /\ clus h' c' ms.
Proof.
  intros (mem & ec & mean & ti & cc & ic & ld & Hc & Hm) E.
  destruct (cluster_deep_copy_spec _ _ _ _ _ _ _ _ _ _ _ _ Hc Hm E)
    as (A & B & mem' & ec' & mean' & ti' & cc' & ic' & C & D & _).
  split; auto. split; auto. exists mem', ec', mean', ti', cc', ic', ld. auto.
Qed.

Lemma cluster_shallow_copy_spec h c mem ec mean ti cc ic ld ms h' c' :
  get h c = Some (OCluster mem ec mean ti cc ic ld) -> get h mem = Some (OList ms) ->
  cluster_shallow_copy h c = (h', c') ->
  ext h h' /\ length h <= c' < length h' /\
  get h' c' = Some (OCluster (length h) ec mean ti cc ic ld) /\
  get h' (length h) = Some (OList ms) /\ length h < length h'.
Proof.
  intros Hc Hm. unfold cluster_shallow_copy. rewrite Hc, (get_list_eq _ _ _ Hm).
  apply new_cluster_spec.
Qed.

Lemma stat_cluster_clus b h c h' c' ms :
  clus h c ms -> stat_cluster b h c = (h', c') ->
  ext h h' /\ length h <= c' < length h' /\ clus h' c' ms.
Proof.
  intros (mem & ec & mean & ti & cc & ic & ld & Hc & Hm). unfold stat_cluster.
  destruct (cluster_shallow_copy h c) as [h1 c1] eqn:E1.
  destruct (cluster_shallow_copy_spec _ _ _ _ _ _ _ _ _ _ _ _ Hc Hm E1) as (X1 & B1 & G1 & G2 & L1).
  rewrite G1. unfold alloc. cbv beta iota. intros E. inversion E; subst. clear E.
  set (h3 := (h1 ++ _) ++ _).
  assert (X3 : ext h1 h3).
  { unfold h3. eapply ext_trans; apply ext_app. }
  split; [|split].
  - apply ext_upd_fresh; [eapply ext_trans; eauto|lia].
  - rewrite length_upd. destruct X3; lia.
  - eapply upd_cluster_clus.
    + eapply ext_get; eauto.
    + exists (length h), ec, mean, ti, cc, ic, ld. split; eapply ext_get; eauto.
Qed.

Lemma opt_cluster_clus mrf h k c h' c' ms :
  clus h c ms -> opt_cluster mrf h (k, c) = (h', c') ->
  ext h h' /\ length h <= c' < length h' /\ clus h' c' ms.
Proof.
  intros (mem & ec & mean & ti & cc & ic & ld & Hc & Hm). unfold opt_cluster.
  destruct (cluster_shallow_copy h c) as [h1 c1] eqn:E1.
  destruct (cluster_shallow_copy_spec _ _ _ _ _ _ _ _ _ _ _ _ Hc Hm E1) as (X1 & B1 & G1 & G2 & L1).
  rewrite G1. unfold alloc. cbv beta iota. intros E. inversion E; subst. clear E.
  set (h3 := (h1 ++ _) ++ _).
  assert (X3 : ext h1 h3).
  { unfold h3. eapply ext_trans; apply ext_app. }
  split; [|split].
  - apply ext_upd_fresh; [eapply ext_trans; eauto|lia].
  - rewrite length_upd. destruct X3; lia.
  - eapply upd_cluster_clus.
    + eapply ext_get; eauto.
    + exists (length h), ec, mean, ti, cc, ic, ld. split; eapply ext_get; eauto.
Qed.

Lemma isclus_ext h h' c : ext h h' -> isclus h c -> isclus h' c.
Proof. intros E [ms H]. exists ms. eapply clus_ext; eauto. Qed.

(* generic map over the heap *)
Section MapHeap.
Variable f : heap -> nat * loc -> heap * loc.
Hypothesis Hf : forall h kc h' c', isclus h (snd kc) -> f h kc = (h', c') ->
                                   ext h h' /\ length h <= c' < length h'.

Lemma map_heap_idx_spec : forall cs h k h' cs',
  map_heap_idx f h k cs = (h', cs') -> (forall c, In c cs -> isclus h c) ->
  ext h h' /\ Forall (fun c' => length h <= c' < length h') cs' /\ NoDup cs' /\
  Forall2 (fun c c' => exists ha hb k', ext h ha /\ ext hb h' /\ f ha (k', c) = (hb, c')) cs cs'.
Proof.
  induction cs as [|c r IH]; intros h k h' cs' E Hcl; cbn [map_heap_idx] in E.
  - inversion E; subst. split; [apply ext_refl|]. repeat constructor.
  - destruct (f h (k, c)) as [h1 c1] eqn:E1.
    destruct (map_heap_idx f h1 (S k) r) as [h2 r2] eqn:E2.
    inversion E; subst. clear E.
    destruct (Hf h (k, c) h1 c1 (Hcl c (in_eq _ _)) E1) as [X1 B1].
    assert (Hcl1 : forall x, In x r -> isclus h1 x).
    { intros x Hx. eapply isclus_ext; eauto. apply Hcl; right; auto. }
    destruct (IH h1 (S k) h' r2 E2 Hcl1) as (X2 & FA & ND & F2).
    pose proof (ext_len _ _ X1) as L1. pose proof (ext_len _ _ X2) as L2.
    split; [eapply ext_trans; eauto|]. split; [|split].
    + constructor; [lia|]. eapply Forall_impl; [|exact FA]. cbn beta. intros; lia.
    + constructor; auto. intros Hin. rewrite Forall_forall in FA.
      specialize (FA c1 Hin). lia.
    + constructor.
      * exists h, h1, k. split; [apply ext_refl|]. auto.
      * eapply F2_imp; [|exact F2]. cbn beta.
        intros x y (ha & hb & k' & A & B & C). exists ha, hb, k'.
        split; auto. eapply ext_trans; eauto.
Qed.

Hypothesis Hf2 : forall h kc h' c' ms, clus h (snd kc) ms -> f h kc = (h', c') -> clus h' c' ms.

Lemma map_heap_idx_clus cs h k h' cs' :
  map_heap_idx f h k cs = (h', cs') -> (forall c, In c cs -> isclus h c) ->
  ext h h' /\ Forall (fun c' => length h <= c' < length h') cs' /\ NoDup cs' /\
  length cs' = length cs /\
  Forall2 (fun c c' => forall ms, clus h c ms -> clus h' c' ms) cs cs'.
Proof.
  intros E Hcl. destruct (map_heap_idx_spec cs h k h' cs' E Hcl) as (X & FA & ND & F2).
  split; auto. split; auto. split; auto. split; [eapply F2_len; eauto|].
  eapply F2_imp; [|exact F2]. cbn beta.
  intros x y (ha & hb & k' & A & B & C) ms Hms.
  eapply clus_ext; [exact B|]. eapply (Hf2 ha (k', x)); eauto. cbn. eapply clus_ext; eauto.
Qed.
End MapHeap.

Lemma map_heap_idx_eq f : forall ls h k,
  map_heap f h ls = map_heap_idx (fun h kc => f h (snd kc)) h k ls.
Proof.
  induction ls as [|l r IH]; intros h k; cbn; auto.
  destruct (f h l) as [h1 l1]. rewrite (IH h1 (S k)). reflexivity.
Qed.

Lemma map_heap_clus f
  (Hf : forall h c h' c' ms, clus h c ms -> f h c = (h', c') ->
                             ext h h' /\ length h <= c' < length h' /\ clus h' c' ms)
  cs h h' cs' :
  map_heap f h cs = (h', cs') -> (forall c, In c cs -> isclus h c) ->
  ext h h' /\ Forall (fun c' => length h <= c' < length h') cs' /\ NoDup cs' /\
  length cs' = length cs /\
  Forall2 (fun c c' => forall ms, clus h c ms -> clus h' c' ms) cs cs'.
Proof.
  rewrite (map_heap_idx_eq f cs h 0). apply map_heap_idx_clus.
  - intros h0 [k c] h1 c1 [ms Hc] E. cbn in *. destruct (Hf _ _ _ _ _ Hc E) as (A & B & _). auto.
  - intros h0 [k c] h1 c1 ms Hc E. cbn in *. destruct (Hf _ _ _ _ _ Hc E) as (A & B & C). auto.
Qed.

Lemma InvD_copy h h' lab cs cs' :
  Forall2 (fun c c' => forall ms, clus h c ms -> clus h' c' ms) cs cs' ->
  (forall l, lab = Some l -> get_list h' l = get_list h l) ->
  InvD h lab cs -> InvD h' lab cs'.
Proof.
  intros F2 Hl. unfold InvD. destruct lab as [l|].
  - intros H k c' Hk. destruct (F2_nth_r _ _ _ F2 k c' Hk) as [c [Hc HR]].
    rewrite (Hl l eq_refl). auto.
  - intros H c' Hc'. destruct (F2_in_r _ _ _ F2 c' Hc') as [c [Hc HR]]. auto.
Qed.

Lemma isclus_copy h h' cs cs' :
  Forall2 (fun c c' => forall ms, clus h c ms -> clus h' c' ms) cs cs' ->
  (forall c, In c cs -> isclus h c) -> forall c', In c' cs' -> isclus h' c'.
Proof.
  intros F2 Hcl c' Hc'. destruct (F2_in_r _ _ _ F2 c' Hc') as [c [Hc HR]].
  destruct (Hcl c Hc) as [ms Hms]. exists ms; auto.
Qed.

(* ------------------------------------------------------------------ *)
(* transport of descriptions / invariant                               *)
(* ------------------------------------------------------------------ *)

Lemma SD_good h s a cl lab cost data K m lam beta cs :
  SD h s a cl lab cost data K m lam beta cs -> InvD h lab cs -> WF h s /\ Inv h s.
Proof.
  intros HSD HI. split.
  - apply WF_SD. exists a, cl, lab, cost, data, K, m, lam, beta, cs. auto.
  - apply (Inv_InvD _ _ _ _ _ _ _ _ _ _ _ _ HSD). auto.
Qed.

Lemma SD_ext h h' s a cl lab cost data K m lam beta cs :
  ext h h' -> SD h s a cl lab cost data K m lam beta cs ->
  SD h' s a cl lab cost data K m lam beta cs.
Proof.
  intros HE HSD. pose proof HSD as (H1 & H2 & H3 & H4 & H5 & H6 & H7).
  eapply (SD_modonly _ _ _ _ _ _ _ _ _ _ _ _ HSD []).
  - apply ext_modonly; eauto.
  - intros x [].
  - eapply ext_get; eauto.
  - intros c Hc. eapply isclus_ext; eauto.
  - intros l Hl. destruct (H7 l Hl) as [ls Hls]. exists ls. eapply ext_get; eauto.
Qed.

Lemma InvD_modonly S h h' lab cs :
  modonly S h h' -> mut h S -> (forall c, In c cs -> ~ In c S) ->
  (forall l, lab = Some l -> exists ls, get h l = Some (OList ls)) ->
  InvD h lab cs -> InvD h' lab cs.
Proof.
  intros HM HS Hn Hl. unfold InvD. destruct lab as [l|].
  - destruct (Hl l eq_refl) as [ls Hls].
    assert (Hls' : get h' l = Some (OList ls)) by (eapply modonly_imm; eauto; cbn; lia).
    rewrite (get_list_eq _ _ _ Hls), (get_list_eq _ _ _ Hls').
    intros H k c Hk. eapply clus_modonly; eauto. apply Hn. eapply nth_error_In; eauto.
  - intros H c Hc. eapply clus_modonly; eauto.
Qed.

Lemma InvD_ext h h' lab cs :
  ext h h' -> (forall l, lab = Some l -> exists ls, get h l = Some (OList ls)) ->
  InvD h lab cs -> InvD h' lab cs.
Proof.
  intros HE Hl. apply (InvD_modonly [] h h'); auto.
  - apply ext_modonly; auto.
  - intros x [].
Qed.

Lemma SD_lab h s a cl lab cost data K m lam beta cs :
  SD h s a cl lab cost data K m lam beta cs ->
  forall l, lab = Some l -> exists ls, get h l = Some (OList ls).
Proof. intros (_ & _ & _ & _ & _ & _ & H7). exact H7. Qed.

Lemma SD_isclus h s a cl lab cost data K m lam beta cs :
  SD h s a cl lab cost data K m lam beta cs -> forall c, In c cs -> isclus h c.
Proof. intros (_ & _ & _ & _ & _ & H6 & _). exact H6. Qed.

(* ------------------------------------------------------------------ *)
(* state-level helpers                                                 *)
(* ------------------------------------------------------------------ *)

Lemma state_shallow_copy_eq h s a cl lab cost data K m lam beta cs :
  SD h s a cl lab cost data K m lam beta cs ->
  state_shallow_copy h s = (h ++ [ORefs cs; OState a (length h) lab cost data], S (length h)).
Proof.
  intros HSD. pose proof (SD_refs _ _ _ _ _ _ _ _ _ _ _ _ HSD) as Hr.
  destruct HSD as (H1 & _). unfold state_shallow_copy. rewrite H1, Hr.
  unfold alloc. rewrite <- app_assoc, app_length. cbn [app length].
  rewrite Nat.add_1_r. reflexivity.
Qed.

Lemma shallow_SD h s a cl lab cost data K m lam beta cs h' s' :
  SD h s a cl lab cost data K m lam beta cs -> state_shallow_copy h s = (h', s') ->
  ext h h' /\ s' = S (length h) /\ length h' = length h + 2 /\
  SD h' s' a (length h) lab cost data K m lam beta cs /\
  (InvD h lab cs -> InvD h' lab cs).
Proof.
  intros HSD E. rewrite (state_shallow_copy_eq _ _ _ _ _ _ _ _ _ _ _ _ HSD) in E.
  inversion E; subst. clear E.
  assert (HE : ext h (h ++ [ORefs cs; OState a (length h) lab cost data])) by apply ext_app.
  pose proof (SD_lab _ _ _ _ _ _ _ _ _ _ _ _ HSD) as Hlab.
  destruct HSD as (H1 & H2 & H3 & H4 & H5 & H6 & H7).
  split; auto. split; auto. split; [rewrite app_length; cbn; lia|]. split.
  - repeat split; auto.
    + apply get_app_new2.
    + eapply ext_get; eauto.
    + apply get_app_new.
    + intros c Hc. eapply isclus_ext; eauto.
    + intros l Hl. destruct (H7 l Hl) as [ls Hls]. exists ls. eapply ext_get; eauto.
  - apply InvD_ext; auto.
Qed.

Lemma set_clusters_SD h s a cl lab cost data K m lam beta cs' :
  get h s = Some (OState a cl lab cost data) -> get h a = Some (OArgs K m lam beta) ->
  length cs' = K -> NoDup cs' -> (forall c, In c cs' -> isclus h c) ->
  (forall l, lab = Some l -> exists ls, get h l = Some (OList ls)) ->
  modonly [s] h (set_clusters h s cs') /\ mut h [s] /\
  SD (set_clusters h s cs') s a (length h) lab cost data K m lam beta cs'.
Proof.
  intros Hs Ha HK Hnd Hcl Hl. unfold set_clusters. rewrite Hs. unfold alloc. cbv beta iota.
  destruct (alloc_upd h s (ORefs cs') (OState a (length h) lab cost data) (get_lt _ _ _ Hs))
    as (A & B & C).
  assert (Hmut : mut h [s]).
  { intros x [<-|[]]. eexists; split; [exact Hs|cbn; lia]. }
  split; auto. split; auto.
  repeat split; auto.
  - eapply modonly_imm; eauto; cbn; lia.
  - intros c Hc. eapply isclus_modonly; eauto.
    intros [<-|[]]. destruct (Hcl s Hc) as (ms & mem & ec & mean & ti & cc & ic & ld & X & _).
    congruence.
  - intros l E. destruct (Hl l E) as [ls Hls]. exists ls. eapply modonly_imm; eauto; cbn; lia.
Qed.

Lemma state_not_clus h s a cl lab cost data cs :
  get h s = Some (OState a cl lab cost data) -> (forall c, In c cs -> isclus h c) ->
  forall c, In c cs -> ~ In c [s].
Proof.
  intros Hs Hcl c Hc [<-|[]].
  destruct (Hcl s Hc) as (ms & mem & ec & mean & ti & cc & ic & ld & X & _). congruence.
Qed.

Lemma set_cost_SD h s a cl lab cost data K m lam beta cs c :
  SD h s a cl lab cost data K m lam beta cs ->
  SD (set_cost h s c) s a cl lab (Some c) data K m lam beta cs /\
  modonly [s] h (set_cost h s c) /\
  (InvD h lab cs -> InvD (set_cost h s c) lab cs).
Proof.
  intros HSD. pose proof HSD as (H1 & H2 & H3 & H4 & H5 & H6 & H7).
  unfold set_cost. rewrite H1.
  assert (HM : modonly [s] h (upd h s (OState a cl lab (Some c) data))) by apply modonly_upd.
  assert (Hmut : mut h [s]).
  { intros x [<-|[]]. eexists; split; [exact H1|cbn; lia]. }
  pose proof (state_not_clus _ _ _ _ _ _ _ _ H1 H6) as Hn.
  split; [|split]; auto.
  - eapply SD_modonly; eauto.
    + apply get_upd_same. eapply get_lt; eauto.
    + intros x Hx. eapply isclus_modonly; eauto.
    + intros l E. destruct (H7 l E) as [ls Hls]. exists ls. eapply modonly_imm; eauto; cbn; lia.
  - eapply InvD_modonly; eauto.
Qed.

Lemma empty_clusters_spec : forall K h h' cs,
  empty_clusters h K = (h', cs) ->
  ext h h' /\ length cs = K /\ NoDup cs /\ Forall (fun c => length h <= c < length h') cs /\
  forall c, In c cs -> clus h' c [].
Proof.
  induction K as [|K IH]; intros h h' cs E; cbn [empty_clusters] in E.
  - inversion E; subst. split; [apply ext_refl|]. repeat split; try constructor. intros c [].
  - destruct (new_cluster h [] None None None None None None) as [h1 c1] eqn:E1.
    destruct (empty_clusters h1 K) as [h2 r] eqn:E2. inversion E; subst. clear E.
    apply new_cluster_spec in E1. destruct E1 as (X1 & B1 & G1 & G2 & L1).
    destruct (IH _ _ _ E2) as (X2 & Hlen & ND & FA & HC).
    pose proof (ext_len _ _ X2) as L2.
    split; [eapply ext_trans; eauto|]. split; [cbn; lia|]. split; [|split].
    + constructor; auto. intros Hin. rewrite Forall_forall in FA. specialize (FA _ Hin). lia.
    + constructor; [lia|]. eapply Forall_impl; [|exact FA]. cbn beta. intros; lia.
    + intros c [<-|Hc]; auto.
      eapply clus_ext; eauto. exists (length h), None, None, None, None, None, None. auto.
Qed.

Lemma empty_model_good h a K m lam beta data h' s' :
  get h a = Some (OArgs K m lam beta) -> empty_model h a K data = (h', s') ->
  exists cl cs, SD h' s' a cl None None data K m lam beta cs /\ InvD h' None cs.
Proof.
  intros Ha. unfold empty_model.
  destruct (empty_clusters h K) as [h1 cs] eqn:E1. unfold alloc. cbv beta iota.
  intros E. inversion E; subst. clear E.
  destruct (empty_clusters_spec _ _ _ _ E1) as (X1 & Hlen & ND & FA & HC).
  exists (length h1), cs.
  assert (X2 : ext h1 ((h1 ++ [ORefs cs]) ++ [OState a (length h1) None None data])).
  { eapply ext_trans; apply ext_app. }
  split.
  - repeat split; auto.
    + apply get_app_new.
    + eapply ext_get; [|exact Ha]. eapply ext_trans; eauto.
    + rewrite get_app_old by (rewrite app_length; cbn; lia). apply get_app_new.
    + intros c Hc. exists []. eapply clus_ext; eauto.
    + intros l Hl; discriminate.
  - intros c Hc. eapply clus_ext; eauto.
Qed.

(* (T1) *)
Theorem init_wf_inv K m la ba : let '(h, s) := init K m la ba in WF h s /\ Inv h s.
Proof.
  destruct (init K m la ba) as [h s] eqn:E.
  unfold init, alloc in E.
  destruct la, ba; cbv beta iota in E; cbn [app length] in E;
    (eapply empty_model_good in E; [|reflexivity]);
    destruct E as (cl & cs & HSD & HI); eapply SD_good; eauto.
Qed.

(* ------------------------------------------------------------------ *)
(* the phases                                                          *)
(* ------------------------------------------------------------------ *)

Lemma ext_modonly_fresh F h h2 h3 :
  ext h h2 -> modonly F h2 h3 -> Forall (fun x => length h <= x) F -> ext h h3.
Proof.
  intros [L1 G1] [L2 G2] HF. split; [lia|]. intros l Hl.
  rewrite G2; auto; [lia|]. intros Hin. rewrite Forall_forall in HF. specialize (HF l Hin). lia.
Qed.

Lemma get_list_ext h h' l ls : ext h h' -> get h l = Some (OList ls) -> get_list h' l = get_list h l.
Proof.
  intros HE Hl. rewrite (get_list_eq _ _ _ Hl). apply get_list_eq. eapply ext_get; eauto.
Qed.

Lemma lab_get_list_ext h h' (lab : option loc) :
  ext h h' -> (forall l, lab = Some l -> exists ls, get h l = Some (OList ls)) ->
  forall l, lab = Some l -> get_list h' l = get_list h l.
Proof. intros HE H l Hl. destruct (H l Hl) as [ls Hls]. eapply get_list_ext; eauto. Qed.

(* shallow copy of the state + deep copies of the clusters + rebind (repopulate, relabel) *)
Lemma fork_SD h s a cl lab cost data K m lam beta cs h1 s1 h2 cs' :
  SD h s a cl lab cost data K m lam beta cs ->
  state_shallow_copy h s = (h1, s1) ->
  map_heap cluster_deep_copy h1 cs = (h2, cs') ->
  exists cl', SD (set_clusters h2 s1 cs') s1 a cl' lab cost data K m lam beta cs' /\
    ext h (set_clusters h2 s1 cs') /\ length h <= s1 /\ Forall (fun c => length h <= c) cs' /\
    (InvD h lab cs -> InvD (set_clusters h2 s1 cs') lab cs').
Proof.
  intros HSD E1 E2.
  destruct (shallow_SD _ _ _ _ _ _ _ _ _ _ _ _ _ _ HSD E1) as (X1 & Hs1 & L1 & SD1 & I1).
  destruct (map_heap_clus cluster_deep_copy cluster_deep_copy_clus cs h1 h2 cs' E2
              (SD_isclus _ _ _ _ _ _ _ _ _ _ _ _ SD1)) as (X2 & FA & ND & Hlen & F2).
  pose proof (SD_ext _ _ _ _ _ _ _ _ _ _ _ _ _ X2 SD1) as SD2.
  pose proof SD2 as (A1 & A2 & A3 & A4 & A5 & A6 & A7).
  assert (Hcl' : forall c, In c cs' -> isclus h2 c).
  { eapply isclus_copy; eauto. eapply SD_isclus; eauto. }
  destruct (set_clusters_SD h2 s1 a (length h) lab cost data K m lam beta cs' A1 A2
              ltac:(lia) ND Hcl' A7) as (HM & Hmut & SD3).
  exists (length h2). split; auto.
  assert (HFs : Forall (fun x => length h <= x) [s1]) by (constructor; [lia|constructor]).
  split; [|split; [lia|split]].
  - eapply ext_modonly_fresh; [|exact HM|exact HFs]. eapply ext_trans; eauto.
  - eapply Forall_impl; [|exact FA]. cbn beta. intros x Hx. destruct X1. lia.
  - intros I0. apply I1 in I0.
    eapply (InvD_modonly [s1] h2); eauto.
    + eapply state_not_clus; eauto.
    + eapply InvD_copy; eauto. eapply lab_get_list_ext; eauto. eapply SD_lab; eauto.
Qed.

Lemma refill_state_cons h s m rem e order' draws :
  refill_state h s m rem (e :: order') draws =
  match find_donor (S (length rem)) m (match state_labels h s with Some l => l | None => [] end) rem with
  | None => None
  | Some (d, rem') =>
    refill_state (set_labels (h ++ [OList (move (match state_labels h s with Some l => l | None => [] end)
                                                d e (hd [] draws))]) s (length h))
                 s m rem' order' (tl draws)
  end.
Proof. reflexivity. Qed.

Lemma setlabels_fresh_SD h s a cl lab cost data K m lam beta cs ls :
  SD h s a cl lab cost data K m lam beta cs ->
  exists lab', SD (set_labels (h ++ [OList ls]) s (length h)) s a cl lab' cost data K m lam beta cs /\
    modonly (s :: cs) h (set_labels (h ++ [OList ls]) s (length h)) /\
    (exists l', lab' = Some l' /\ get (set_labels (h ++ [OList ls]) s (length h)) l' = Some (OList ls)) /\
    (InvD h lab cs -> InvD (set_labels (h ++ [OList ls]) s (length h)) lab' cs).
Proof.
  intros HSD.
  assert (X : ext h (h ++ [OList ls])) by apply ext_app.
  pose proof (SD_ext _ _ _ _ _ _ _ _ _ _ _ _ _ X HSD) as SD1.
  destruct (set_labels_SD _ _ _ _ _ _ _ _ _ _ _ _ (length h) ls SD1 (get_app_new _ _ _))
    as (lab' & SD2 & HM & HL & I2).
  exists lab'. split; auto. split; [|split; auto].
  - eapply modonly_trans; [apply ext_modonly; exact X|exact HM].
  - intros I0. apply I2. eapply InvD_ext; eauto. eapply SD_lab; eauto.
Qed.

Lemma refill_state_SD s a cl cost data K m lam beta cs m' : forall order h rem draws h' lab,
  SD h s a cl lab cost data K m lam beta cs ->
  refill_state h s m' rem order draws = Some h' ->
  exists lab', SD h' s a cl lab' cost data K m lam beta cs /\ modonly (s :: cs) h h' /\
               (InvD h lab cs -> InvD h' lab' cs).
Proof.
  induction order as [|e order' IH]; intros h rem draws h' lab HSD E.
  - cbn in E. inversion E; subst. exists lab. split; auto. split; auto. apply modonly_refl.
  - rewrite refill_state_cons in E.
    destruct (find_donor _ _ _ _) as [[d rem']|]; [|discriminate].
    set (ls := move _ d e _) in E.
    destruct (setlabels_fresh_SD _ _ _ _ _ _ _ _ _ _ _ _ ls HSD) as (lab1 & SD1 & HM1 & _ & I1).
    destruct (IH _ _ _ _ _ SD1 E) as (lab' & SD' & HM' & I').
    exists lab'. split; auto. split; auto. eapply modonly_trans; eauto.
Qed.

Lemma repopulate_SD h s a cl lab cost data K m lam beta cs spread order draws h' s' :
  SD h s a cl lab cost data K m lam beta cs ->
  phase_repopulate h s spread order draws = Some (h', s') ->
  exists cl' lab' cs', SD h' s' a cl' lab' cost data K m lam beta cs' /\ ext h h' /\
                       (InvD h lab cs -> InvD h' lab' cs').
Proof.
  intros HSD. unfold phase_repopulate. destruct order as [|e order'].
  - intros E. inversion E; subst. exists cl, lab, cs. split; auto. split; auto. apply ext_refl.
  - rewrite (SD_clusters _ _ _ _ _ _ _ _ _ _ _ _ HSD).
    destruct (state_shallow_copy h s) as [h1 s1] eqn:E1.
    destruct (map_heap cluster_deep_copy h1 cs) as [h2 cs'] eqn:E2.
    cbv zeta.
    destruct (fork_SD _ _ _ _ _ _ _ _ _ _ _ _ _ _ _ _ HSD E1 E2) as (cl' & SD3 & X3 & Ls1 & Fcs & I3).
    set (h3 := set_clusters h2 s1 cs') in *.
    destruct (refill_state h3 s1 _ _ _ _) as [h4|] eqn:ER; [|discriminate].
    intros E. inversion E; subst. clear E.
    destruct (refill_state_SD _ _ _ _ _ _ _ _ _ _ _ _ _ _ _ _ _ SD3 ER) as (lab' & SD4 & HM4 & I4).
    exists cl', lab', cs'. split; auto. split; auto.
    eapply ext_modonly_fresh; eauto.
Qed.

Lemma clus_upd_refs h x r r' c ms :
  get h x = Some (ORefs r) -> clus h c ms -> clus (upd h x (ORefs r')) c ms.
Proof.
  intros Hx (mem & ec & mean & ti & cc & ic & ld & Hc & Hm).
  exists mem, ec, mean, ti, cc, ic, ld. split; rewrite get_upd_other; auto; congruence.
Qed.

Lemma InvD_upd_refs h x r r' lab cs :
  get h x = Some (ORefs r) ->
  (forall l, lab = Some l -> exists ls, get h l = Some (OList ls)) ->
  InvD h lab cs -> InvD (upd h x (ORefs r')) lab cs.
Proof.
  intros Hx Hl. unfold InvD. destruct lab as [l|].
  - destruct (Hl l eq_refl) as [ls Hls].
    assert (E : get_list (upd h x (ORefs r')) l = get_list h l).
    { unfold get_list. rewrite get_upd_other; auto. congruence. }
    rewrite E. intros H k c Hk. eapply clus_upd_refs; eauto.
  - intros H c Hc. eapply clus_upd_refs; eauto.
Qed.

Lemma statistics_SD h s a cl lab cost data K m lam beta cs b h' s' :
  SD h s a cl lab cost data K m lam beta cs ->
  phase_statistics h s b = Some (h', s') ->
  exists cl' cs', SD h' s' a cl' lab cost data K m lam beta cs' /\ ext h h' /\
                  (InvD h lab cs -> InvD h' lab cs').
Proof.
  intros HSD. unfold phase_statistics.
  rewrite (SD_clusters _ _ _ _ _ _ _ _ _ _ _ _ HSD), (SD_K _ _ _ _ _ _ _ _ _ _ _ _ HSD),
          (SD_firstn _ _ _ _ _ _ _ _ _ _ _ _ HSD), (SD_skipn _ _ _ _ _ _ _ _ _ _ _ _ HSD).
  destruct (forallb _ cs); [|discriminate].
  destruct (state_shallow_copy h s) as [h1 s1] eqn:E1.
  destruct (map_heap (stat_cluster b) h1 cs) as [h2 cs'] eqn:E2.
  destruct (shallow_SD _ _ _ _ _ _ _ _ _ _ _ _ _ _ HSD E1) as (X1 & Hs1 & L1 & SD1 & I1).
  destruct (map_heap_clus (stat_cluster b) (stat_cluster_clus b) cs h1 h2 cs' E2
              (SD_isclus _ _ _ _ _ _ _ _ _ _ _ _ SD1)) as (X2 & FA & ND & Hlen & F2).
  pose proof (SD_ext _ _ _ _ _ _ _ _ _ _ _ _ _ X2 SD1) as SD2.
  pose proof SD2 as (A1 & A2 & A3 & A4 & A5 & A6 & A7).
  rewrite A1. rewrite app_nil_r. intros E. inversion E; subst h' s'. clear E.
  pose proof (ext_len _ _ X2) as L2.
  pose proof (get_lt _ _ _ (proj1 (proj2 HSD))) as La.
  assert (Hcl' : forall c, In c cs' -> isclus h2 c).
  { eapply isclus_copy; eauto. eapply SD_isclus; eauto. }
  exists (length h), cs'. split; [|split].
  - repeat split; auto.
    + rewrite get_upd_other by lia. auto.
    + rewrite get_upd_other by lia. auto.
    + apply get_upd_same. lia.
    + lia.
    + intros c Hc. destruct (Hcl' c Hc) as [ms Hms]. exists ms. eapply clus_upd_refs; eauto.
    + intros l Hl. destruct (A7 l Hl) as [ls Hls]. exists ls.
      rewrite get_upd_other; auto. congruence.
  - apply ext_upd_fresh; [eapply ext_trans; eauto|lia].
  - intros I0. eapply InvD_upd_refs; eauto.
    eapply InvD_copy; eauto.
    eapply lab_get_list_ext; eauto. eapply SD_lab; eauto.
Qed.

Lemma optimise_SD h s a cl lab cost data K m lam beta cs mrf h' s' :
  SD h s a cl lab cost data K m lam beta cs ->
  phase_optimise h s mrf = (h', s') ->
  exists cl' cs', SD h' s' a cl' lab cost data K m lam beta cs' /\ ext h h' /\
                  (InvD h lab cs -> InvD h' lab cs').
Proof.
  intros HSD. unfold phase_optimise.
  rewrite (SD_clusters _ _ _ _ _ _ _ _ _ _ _ _ HSD).
  destruct (map_heap_idx (opt_cluster mrf) h 0 cs) as [h1 cs'] eqn:E1.
  destruct (state_shallow_copy h1 s) as [h2 s1] eqn:E2.
  intros E. inversion E; subst h' s'. clear E.
  assert (Hf : forall h kc h' c', isclus h (snd kc) -> opt_cluster mrf h kc = (h', c') ->
                                  ext h h' /\ length h <= c' < length h').
  { intros h0 [k c] h0' c' [ms Hc] E. cbn in Hc.
    destruct (opt_cluster_clus _ _ _ _ _ _ _ Hc E) as (A & B & _). auto. }
  assert (Hf2 : forall h kc h' c' ms, clus h (snd kc) ms -> opt_cluster mrf h kc = (h', c') ->
                                      clus h' c' ms).
  { intros h0 [k c] h0' c' ms Hc E. cbn in Hc.
    destruct (opt_cluster_clus _ _ _ _ _ _ _ Hc E) as (A & B & C). auto. }
  destruct (map_heap_idx_clus _ Hf Hf2 cs h 0 h1 cs' E1 (SD_isclus _ _ _ _ _ _ _ _ _ _ _ _ HSD))
    as (X1 & FA & ND & Hlen & F2).
  pose proof (SD_ext _ _ _ _ _ _ _ _ _ _ _ _ _ X1 HSD) as SD1.
  destruct (shallow_SD _ _ _ _ _ _ _ _ _ _ _ _ _ _ SD1 E2) as (X2 & Hs1 & L2 & SD2 & I2).
  pose proof SD2 as (A1 & A2 & A3 & A4 & A5 & A6 & A7).
  assert (Hcl' : forall c, In c cs' -> isclus h2 c).
  { intros c Hc. eapply isclus_ext; eauto. eapply isclus_copy; eauto. eapply SD_isclus; eauto. }
  destruct (set_clusters_SD h2 s1 a (length h1) lab cost data K m lam beta cs' A1 A2
              ltac:(lia) ND Hcl' A7) as (HM & Hmut & SD3).
  pose proof (ext_len _ _ X1) as L1.
  exists (length h2), cs'. split; auto. split.
  - eapply ext_modonly_fresh; [|exact HM|]; [eapply ext_trans; eauto|].
    constructor; [lia|constructor].
  - intros I0. eapply (InvD_modonly [s1] h2); eauto.
    + eapply state_not_clus; eauto.
    + eapply InvD_ext; eauto.
      * intros l Hl. destruct (SD_lab _ _ _ _ _ _ _ _ _ _ _ _ SD1 l Hl) as [ls Hls]. eauto.
      * eapply InvD_copy; eauto. eapply lab_get_list_ext; eauto. eapply SD_lab; eauto.
Qed.

(* ---------- relabel ---------- *)
Definition cw_ld (h : heap) (ti : option loc) : option (list nat) :=
  match ti with
  | Some t => match get h t with Some (OArr (_ :: x)) => Some (5 :: x) | _ => Some [5] end
  | None => Some [5]
  end.

Lemma cache_write_cons h c r :
  cache_write h (c :: r) =
  match get h c with
  | Some (OCluster ml ec mean ti cc _ _) =>
      cache_write (upd h c (OCluster ml ec mean ti cc ti (cw_ld h ti))) r
  | _ => cache_write h r
  end.
Proof. reflexivity. Qed.

Lemma cache_write_clus : forall cs h x ms, clus h x ms -> clus (cache_write h cs) x ms.
Proof.
  induction cs as [|c r IH]; intros h x ms Hx; auto.
  rewrite cache_write_cons.
  destruct (get h c) as [[| | | |ml ec mean ti cc ic ld|]|] eqn:E; auto.
  apply IH. eapply upd_cluster_clus; eauto.
Qed.

Lemma cache_write_frame : forall cs h,
  length (cache_write h cs) = length h /\
  (forall l, ~ In l cs -> get (cache_write h cs) l = get h l) /\
  (forall l, In l cs -> forall mem ec mean ti cc ic ld,
      get h l = Some (OCluster mem ec mean ti cc ic ld) ->
      exists ld', get (cache_write h cs) l = Some (OCluster mem ec mean ti cc ti ld')).
Proof.
  induction cs as [|c r IH]; intros h.
  - cbn. split; auto. split; auto. intros l [].
  - rewrite cache_write_cons.
    assert (Hskip : (forall ml ec mean ti cc ic ld, get h c <> Some (OCluster ml ec mean ti cc ic ld)) ->
      length (cache_write h r) = length h /\
      (forall l, ~ In l (c :: r) -> get (cache_write h r) l = get h l) /\
      (forall l, In l (c :: r) -> forall mem ec mean ti cc ic ld,
        get h l = Some (OCluster mem ec mean ti cc ic ld) ->
        exists ld', get (cache_write h r) l = Some (OCluster mem ec mean ti cc ti ld'))).
    { intros Hne. destruct (IH h) as (A & B & C). split; [exact A|split].
      - intros l Hn. apply B. intros Hin. apply Hn. right; auto.
      - intros l [El|Hl] mem ec mean ti cc ic ld Hg.
        + subst l. exfalso. eapply Hne; eauto.
        + eapply C; eauto. }
    destruct (get h c) as [[| | | |ml ec0 mean0 ti0 cc0 ic0 ld0|]|] eqn:E;
      try (apply Hskip; intros; discriminate).
    set (h1 := upd h c (OCluster ml ec0 mean0 ti0 cc0 ti0 (cw_ld h ti0))).
    assert (Hc1 : get h1 c = Some (OCluster ml ec0 mean0 ti0 cc0 ti0 (cw_ld h ti0))).
    { apply get_upd_same. eapply get_lt; eauto. }
    destruct (IH h1) as (A & B & C).
    split; [rewrite A; apply length_upd|]. split.
    + intros l Hn. rewrite B by (intros Hin; apply Hn; right; auto).
      apply get_upd_other. intros ->. apply Hn; left; auto.
    + intros l Hl mem ec mean ti cc ic ld Hg.
      destruct (Nat.eq_dec l c) as [->|Hlc].
      * rewrite E in Hg. inversion Hg; subst.
        destruct (in_dec Nat.eq_dec c r) as [Hin|Hnin].
        -- eapply C; eauto.
        -- rewrite B by auto. eauto.
      * destruct Hl as [->|Hl]; [congruence|].
        apply (C l Hl mem ec mean ti cc ic ld). unfold h1. rewrite get_upd_other; auto.
Qed.

Lemma cache_write_SD h s a cl lab cost data K m lam beta cs :
  SD h s a cl lab cost data K m lam beta cs ->
  SD (cache_write h cs) s a cl lab cost data K m lam beta cs /\
  (InvD h lab cs -> InvD (cache_write h cs) lab cs).
Proof.
  intros HSD. pose proof HSD as (H1 & H2 & H3 & H4 & H5 & H6 & H7).
  destruct (cache_write_frame cs h) as (A & B & _).
  assert (HM : modonly cs h (cache_write h cs)).
  { split; [lia|]. intros l _ Hn. auto. }
  assert (Hmut : mut h cs) by (apply isclus_mut; auto).
  assert (Hl : forall l, lab = Some l -> get_list (cache_write h cs) l = get_list h l).
  { intros l E. destruct (H7 l E) as [ls Hls]. rewrite (get_list_eq _ _ _ Hls).
    apply get_list_eq. eapply modonly_imm; eauto; cbn; lia. }
  split.
  - eapply SD_modonly; eauto.
    + rewrite B; auto. eapply SD_s_notin; eauto.
    + intros c Hc. destruct (H6 c Hc) as [ms Hms]. exists ms. apply cache_write_clus; auto.
    + intros l E. destruct (H7 l E) as [ls Hls]. exists ls. eapply modonly_imm; eauto; cbn; lia.
  - unfold InvD. destruct lab as [l|].
    + rewrite (Hl l eq_refl). intros H k c Hk. apply cache_write_clus; auto.
    + intros H c Hc. apply cache_write_clus; auto.
Qed.

Lemma relabel_SD h s a cl lab cost data K m lam beta cs ls c h' s' :
  SD h s a cl lab cost data K m lam beta cs ->
  phase_relabel h s ls c = (h', s') ->
  exists cl' lab' cs', SD h' s' a cl' lab' (Some c) data K m lam beta cs' /\
                       ext (cache_write h cs) h' /\
                       (InvD h lab cs -> InvD h' lab' cs').
Proof.
  intros HSD. unfold phase_relabel.
  rewrite (SD_clusters _ _ _ _ _ _ _ _ _ _ _ _ HSD), (SD_K _ _ _ _ _ _ _ _ _ _ _ _ HSD),
          (SD_firstn _ _ _ _ _ _ _ _ _ _ _ _ HSD).
  cbv zeta.
  destruct (cache_write_SD _ _ _ _ _ _ _ _ _ _ _ _ HSD) as [SD0 I0].
  set (h0 := cache_write h cs) in *.
  rewrite (SD_clusters _ _ _ _ _ _ _ _ _ _ _ _ SD0).
  destruct (state_shallow_copy h0 s) as [h1 s1] eqn:E1.
  destruct (map_heap cluster_deep_copy h1 cs) as [h2 cs'] eqn:E2.
  destruct (fork_SD _ _ _ _ _ _ _ _ _ _ _ _ _ _ _ _ SD0 E1 E2) as (cl' & SD3 & X3 & Ls1 & Fcs & I3).
  set (h3 := set_clusters h2 s1 cs') in *.
  unfold alloc. cbv beta iota.
  destruct (setlabels_fresh_SD _ _ _ _ _ _ _ _ _ _ _ _ ls SD3) as (lab' & SD5 & HM5 & _ & I5).
  set (h5 := set_labels (h3 ++ [OList ls]) s1 (length h3)) in *.
  destruct (set_cost_SD _ _ _ _ _ _ _ _ _ _ _ _ c SD5) as (SD6 & HM6 & I6).
  intros E. inversion E; subst h' s'. clear E.
  exists cl', lab', cs'. split; auto. split; auto.
  eapply ext_modonly_fresh; [exact X3| |constructor; [exact Ls1|exact Fcs]].
  eapply modonly_trans; [exact HM5|].
  eapply modonly_incl; [|exact HM6]. intros x [<-|[]]. left; auto.
Qed.

(* ---------- deep copy ---------- *)
Definition cp_arr (h : heap) (x : option loc) : heap * option loc :=
  match x with
  | Some l => match get h l with
              | Some (OArr c) => let '(h1, l1) := alloc h (OArr c) in (h1, Some l1)
              | _ => (h, x)
              end
  | None => (h, None)
  end.

Lemma args_deep_copy_eq h a :
  args_deep_copy h a =
  match get h a with
  | Some (OArgs K m lam beta) =>
    let '(h1, lam') := cp_arr h lam in
    let '(h2, beta') := cp_arr h1 beta in
    alloc h2 (OArgs K m lam' beta')
  | _ => (h, a)
  end.
Proof. reflexivity. Qed.

Definition fr2 (h : heap) (x x' : option loc) : Prop :=
  oarr h x -> forall l, x' = Some l -> length h <= l.

Lemma cp_arr_spec h x h' x' :
  cp_arr h x = (h', x') -> ext h h' /\ fr2 h x x'.
Proof.
  unfold cp_arr, alloc, fr2. destruct x as [l|].
  - destruct (get h l) as [[| c | | | |]|] eqn:E; intros Eq; inversion Eq; subst;
      (split; [try apply ext_refl; try apply ext_app|]); intros Ha l0 El0;
      destruct (Ha l eq_refl) as [c' Hc']; try congruence.
    inversion El0; subst. auto.
  - intros Eq; inversion Eq; subst. split; [apply ext_refl|]. intros _ l0 El0. discriminate.
Qed.

Lemma fr2_mono h0 h x x' : ext h0 h -> fr2 h x x' -> fr2 h0 x x'.
Proof.
  intros E0 H Hx l Hl. pose proof (H (oarr_ext _ _ _ E0 Hx) l Hl). destruct E0. lia.
Qed.

Lemma args_deep_copy_spec h a K m lam beta h' a' :
  get h a = Some (OArgs K m lam beta) -> args_deep_copy h a = (h', a') ->
  ext h h' /\ length h <= a' < length h' /\
  exists lam' beta', get h' a' = Some (OArgs K m lam' beta') /\ fr2 h lam lam' /\ fr2 h beta beta'.
Proof.
  intros Ha. rewrite args_deep_copy_eq, Ha.
  destruct (cp_arr h lam) as [h1 lam'] eqn:E1.
  destruct (cp_arr h1 beta) as [h2 beta'] eqn:E2.
  unfold alloc. intros E. inversion E; subst. clear E.
  apply cp_arr_spec in E1, E2. destruct E1 as [X1 F1], E2 as [X2 F2].
  pose proof (ext_len _ _ X1). pose proof (ext_len _ _ X2).
  split; [eapply ext_trans; [exact X1|]; eapply ext_trans; [exact X2|apply ext_app]|].
  split; [rewrite app_length; cbn; lia|].
  exists lam', beta'. split; [apply get_app_new|]. split; auto.
  eapply fr2_mono; eauto.
Qed.

Lemma deep_full h s a cl lb cost data K m lam beta cs h' s' :
  SD h s a cl (Some lb) cost data K m lam beta cs ->
  state_deep_copy h s = (h', s') ->
  exists a' cl' lab' data' lam' beta' cs',
    SD h' s' a' cl' (Some lab') cost data' K m lam' beta' cs' /\ ext h h' /\
    get_list h' lab' = get_list h lb /\
    Forall2 (fun c c' => forall ms, clus h c ms -> clus h' c' ms) cs cs' /\
    length h <= s' /\ length h <= a' /\ length h <= cl' /\ length h <= lab' /\
    fr2 h lam lam' /\ fr2 h beta beta' /\
    ((exists c, get h data = Some (OArr c)) -> length h <= data') /\
    Forall2 (fun c c' => exists ha hb, ext h ha /\ ext hb h' /\ cluster_deep_copy ha c = (hb, c')) cs cs'.
Proof.
  intros HSD. pose proof HSD as (H1 & H2 & H3 & H4 & H5 & H6 & H7).
  unfold state_deep_copy. rewrite H1, (SD_refs _ _ _ _ _ _ _ _ _ _ _ _ HSD).
  destruct (map_heap cluster_deep_copy h cs) as [h1 cs'] eqn:E1.
  destruct (args_deep_copy h1 a) as [h2 a'] eqn:E2.
  unfold alloc at 1. cbv beta iota.
  destruct (copy_arr (h2 ++ [OList (get_list h lb)]) (Some data)) as [h4 data'] eqn:E4.
  unfold alloc. cbv beta iota. intros E. inversion E; subst h' s'. clear E.
  destruct (map_heap_clus cluster_deep_copy cluster_deep_copy_clus cs h h1 cs' E1 H6)
    as (X1 & FA & ND & Hlen & F2).
  assert (F2' : Forall2 (fun c c' => exists ha hb, ext h ha /\ ext hb h1 /\
                                      cluster_deep_copy ha c = (hb, c')) cs cs').
  { rewrite (map_heap_idx_eq cluster_deep_copy cs h 0) in E1.
    eapply map_heap_idx_spec in E1; auto.
    - destruct E1 as (_ & _ & _ & F). eapply F2_imp; [|exact F]. cbn beta.
      intros x y (ha & hb & k' & A & B & C). exists ha, hb. auto.
    - intros h0 [k c] h0' c' [ms Hc] E. cbn in *.
      destruct (cluster_deep_copy_clus _ _ _ _ _ Hc E) as (A & B & _). auto. }
  destruct (args_deep_copy_spec _ _ _ _ _ _ _ _ (ext_get _ _ _ _ X1 H2) E2)
    as (X2 & Ba & lam' & beta' & Ha' & Fl & Fb).
  set (h3 := h2 ++ [OList (get_list h lb)]) in *.
  assert (X3 : ext h2 h3) by apply ext_app.
  destruct (copy_arr_spec _ _ _ _ E4) as [X4 F4].
  set (d' := match data' with Some d => d | None => data end).
  set (h5 := h4 ++ [ORefs cs']).
  set (h6 := h5 ++ [OState a' (length h4) (Some (length h2)) cost d']).
  assert (X5 : ext h4 h5) by apply ext_app.
  assert (X6 : ext h5 h6) by apply ext_app.
  assert (Y2 : ext h h2) by (eapply ext_trans; eauto).
  assert (Y3 : ext h h3) by (eapply ext_trans; eauto).
  assert (Y4 : ext h h4) by (eapply ext_trans; eauto).
  assert (Y5 : ext h h5) by (eapply ext_trans; eauto).
  assert (Y6 : ext h h6) by (eapply ext_trans; eauto).
  assert (Z4 : ext h4 h6) by (eapply ext_trans; eauto).
  assert (Z3 : ext h3 h6) by (eapply ext_trans; eauto).
  assert (Z2 : ext h2 h6) by (eapply ext_trans; eauto).
  assert (Z1 : ext h1 h6) by (eapply ext_trans; eauto).
  pose proof (ext_len _ _ Y2) as L2. pose proof (ext_len _ _ Y4) as L4.
  pose proof (ext_len _ _ Y5) as L5. pose proof (ext_len _ _ X1) as L1.
  destruct (H7 lb eq_refl) as [ls Hls].
  assert (Hlab' : get h6 (length h2) = Some (OList (get_list h lb))).
  { eapply ext_get; [exact Z3|]. apply get_app_new. }
  assert (F2'' : Forall2 (fun c c' => forall ms, clus h c ms -> clus h6 c' ms) cs cs').
  { eapply F2_imp; [|exact F2]. cbn beta. intros x y Hxy ms Hms. eapply clus_ext; eauto. }
  exists a', (length h4), (length h2), d', lam', beta', cs'.
  split; [|split; [|split; [|split; [|split; [|split; [|split; [|split; [|split; [|split; [|split]]]]]]]]]]; auto.
  - repeat split; auto.
    + apply get_app_new.
    + eapply ext_get; [exact Z2|exact Ha'].
    + eapply ext_get; [exact X6|]. apply get_app_new.
    + lia.
    + intros c Hc. eapply isclus_copy; eauto.
    + intros l El. inversion El; subst. eauto.
  - apply get_list_eq. auto.
  - lia.
  - eapply (fr2_mono h h1); eauto.
  - eapply (fr2_mono h h1); eauto.
  - intros [c Hc]. unfold d'.
    destruct F4 as (l & c0 & El & Ll & _).
    + intros l El. inversion El; subst. exists c. eapply ext_get; eauto.
    + rewrite El. pose proof (ext_len _ _ Y3). lia.
  - eapply F2_imp; [|exact F2']. cbn beta.
    intros x y (ha & hb & A & B & C). exists ha, hb. split; auto. split; auto.
    eapply ext_trans; eauto.
Qed.

(* ------------------------------------------------------------------ *)
(* (T2), (T3)                                                          *)
(* ------------------------------------------------------------------ *)

Lemma InvD_deep h h' lb lab' cs cs' :
  get_list h' lab' = get_list h lb ->
  Forall2 (fun c c' => forall ms, clus h c ms -> clus h' c' ms) cs cs' ->
  InvD h (Some lb) cs -> InvD h' (Some lab') cs'.
Proof.
  intros El F2 H. unfold InvD in *. rewrite El. intros k c' Hk.
  destruct (F2_nth_r _ _ _ F2 k c' Hk) as [c [Hc HR]]. auto.
Qed.

Theorem step_wf_inv h s o h' s' :
  WF h s -> Inv h s -> step (h, s) o = Some (h', s') -> WF h' s' /\ Inv h' s'.
Proof.
  intros HWF HI E. apply WF_SD in HWF.
  destruct HWF as (a & cl & lab & cost & data & K & m & lam & beta & cs & HSD).
  apply (Inv_InvD _ _ _ _ _ _ _ _ _ _ _ _ HSD) in HI.
  destruct o as [ls| | |sp order draws|b|tg|ls c]; unfold step in E; cbv beta iota in E.
  - unfold alloc in E. cbv beta iota in E. inversion E; subst h' s'. clear E.
    destruct (setlabels_fresh_SD _ _ _ _ _ _ _ _ _ _ _ _ ls HSD) as (lab' & SD' & _ & _ & I').
    eapply SD_good; eauto.
  - inversion E as [E']. clear E.
    destruct (shallow_SD _ _ _ _ _ _ _ _ _ _ _ _ _ _ HSD E') as (_ & _ & _ & SD' & I').
    eapply SD_good; eauto.
  - inversion E as [E']. clear E. destruct lab as [lb|].
    + destruct (deep_full _ _ _ _ _ _ _ _ _ _ _ _ _ _ HSD E')
        as (a' & cl' & lab' & data' & lam' & beta' & cs' & SD' & _ & El & F2 & _).
      eapply SD_good; eauto. eapply InvD_deep; eauto.
    + unfold state_deep_copy in E'. rewrite (proj1 HSD) in E'. inversion E'; subst h' s'.
      eapply SD_good; eauto.
  - destruct (repopulate_SD _ _ _ _ _ _ _ _ _ _ _ _ _ _ _ _ _ HSD E) as (cl' & lab' & cs' & SD' & _ & I').
    eapply SD_good; eauto.
  - destruct (statistics_SD _ _ _ _ _ _ _ _ _ _ _ _ _ _ _ HSD E) as (cl' & cs' & SD' & _ & I').
    eapply SD_good; eauto.
  - inversion E as [E']. clear E.
    destruct (optimise_SD _ _ _ _ _ _ _ _ _ _ _ _ _ _ _ HSD E') as (cl' & cs' & SD' & _ & I').
    eapply SD_good; eauto.
  - inversion E as [E']. clear E.
    destruct (relabel_SD _ _ _ _ _ _ _ _ _ _ _ _ _ _ _ _ HSD E') as (cl' & lab' & cs' & SD' & _ & I').
    eapply SD_good; eauto.
Qed.

Lemma run_ops_wf_inv_gen ops : forall h s h' s',
  WF h s -> Inv h s -> run_ops (h, s) ops = Some (h', s') -> WF h' s' /\ Inv h' s'.
Proof.
  induction ops as [|o r IH]; intros h s h' s' HW HI E; cbn [run_ops] in E.
  - inversion E; subst. auto.
  - destruct (step (h, s) o) as [[h1 s1]|] eqn:Es; [|discriminate].
    destruct (step_wf_inv _ _ _ _ _ HW HI Es) as [HW1 HI1]. eapply IH; eauto.
Qed.

Theorem run_ops_wf_inv K m la ba ops h' s' :
  run_ops (init K m la ba) ops = Some (h', s') -> WF h' s' /\ Inv h' s'.
Proof.
  pose proof (init_wf_inv K m la ba) as H0.
  destruct (init K m la ba) as [h s]. destruct H0 as [HW HI].
  apply run_ops_wf_inv_gen; auto.
Qed.

(* ------------------------------------------------------------------ *)
(* (T6)                                                                *)
(* ------------------------------------------------------------------ *)

Theorem set_labels_immediate h s ls h' s' : WF h s -> Inv h s ->
  step (h, s) (OpSetLabels ls) = Some (h', s') ->
  s' = s /\ state_labels h' s = Some ls /\
  (forall k c, nth_error (state_clusters h' s) k = Some c -> cluster_members h' c = positions ls k).
Proof.
  intros HWF HI E. apply WF_SD in HWF.
  destruct HWF as (a & cl & lab & cost & data & K & m & lam & beta & cs & HSD).
  apply (Inv_InvD _ _ _ _ _ _ _ _ _ _ _ _ HSD) in HI.
  unfold step, alloc in E. cbv beta iota in E. inversion E; subst h' s'. clear E.
  destruct (setlabels_fresh_SD _ _ _ _ _ _ _ _ _ _ _ _ ls HSD) as (lab' & SD' & _ & (l' & -> & Hl') & I').
  split; auto.
  rewrite (SD_labels _ _ _ _ _ _ _ _ _ _ _ _ SD'), (SD_clusters _ _ _ _ _ _ _ _ _ _ _ _ SD').
  rewrite (get_list_eq _ _ _ Hl'). split; auto.
  intros k c Hk. apply clus_members. specialize (I' HI). unfold InvD in I'.
  rewrite (get_list_eq _ _ _ Hl') in I'. auto.
Qed.

(* ------------------------------------------------------------------ *)
(* (T4) partition                                                      *)
(* ------------------------------------------------------------------ *)

Lemma in_combine_seq_conv (l : list nat) : forall a p,
  p < length l -> In (a + p, nth p l 0) (combine (seq a (length l)) l).
Proof.
  induction l as [|x l IH]; intros a [|p] Hp; cbn in *; try lia.
  - left. rewrite Nat.add_0_r. reflexivity.
  - right. replace (a + S p) with (S a + p) by lia. apply IH. lia.
Qed.

Lemma members_complete labels p : p < length labels -> In p (members labels (nth p labels 0)).
Proof.
  intros Hp. unfold members. apply in_map_iff. exists (p, nth p labels 0). split; auto.
  apply filter_In. split.
  - apply (in_combine_seq_conv labels 0 p Hp).
  - cbn. apply Nat.eqb_refl.
Qed.

Lemma NoDup_app_intro {A} (l l' : list A) :
  NoDup l -> NoDup l' -> (forall x, In x l -> ~ In x l') -> NoDup (l ++ l').
Proof.
  induction 1 as [|x l Hn Hnd IH]; intros Hl' Hd; cbn; auto.
  constructor.
  - intros Hin. apply in_app_or in Hin. destruct Hin as [Hin|Hin]; auto.
    apply (Hd x); auto. left; auto.
  - apply IH; auto. intros y Hy. apply Hd. right; auto.
Qed.

Lemma in_concat_members labels ks p :
  In p (concat (map (members labels) ks)) <-> exists k, In k ks /\ In p (members labels k).
Proof.
  rewrite in_concat. split.
  - intros (l & Hl & Hp). apply in_map_iff in Hl. destruct Hl as (k & <- & Hk). eauto.
  - intros (k & Hk & Hp). exists (members labels k). split; auto. apply in_map; auto.
Qed.

Lemma members_concat_NoDup labels : forall ks, NoDup ks -> NoDup (concat (map (members labels) ks)).
Proof.
  induction 1 as [|k ks Hn Hnd IH]; cbn; [constructor|].
  apply NoDup_app_intro; auto.
  - apply members_NoDup.
  - intros p Hp Hq. apply in_concat_members in Hq. destruct Hq as (k' & Hk' & Hp').
    apply members_lt in Hp, Hp'. destruct Hp as [_ <-], Hp' as [_ <-]. contradiction.
Qed.

Theorem positions_partition labels K : Forall (fun c => c < K) labels ->
  Permutation (concat (map (positions labels) (seq 0 K))) (seq 0 (length labels)).
Proof.
  intros HF. unfold positions. apply NoDup_Permutation.
  - apply members_concat_NoDup. apply seq_NoDup.
  - apply seq_NoDup.
  - intros p. rewrite in_concat_members, in_seq. split.
    + intros (k & Hk & Hp). apply members_lt in Hp. lia.
    + intros [_ Hp]. exists (nth p labels 0). split.
      * apply in_seq. rewrite Forall_forall in HF.
        pose proof (HF _ (nth_In labels 0 Hp)). lia.
      * apply members_complete. cbn in Hp. lia.
Qed.

Lemma map_nth_seq {A} (f : loc -> A) (g : nat -> A) : forall cs a,
  (forall k c, nth_error cs k = Some c -> f c = g (a + k)) ->
  map f cs = map g (seq a (length cs)).
Proof.
  induction cs as [|c r IH]; intros a H; cbn; auto. f_equal.
  - rewrite (H 0 c eq_refl). f_equal. lia.
  - apply IH. intros k x Hk. rewrite (H (S k) x Hk). f_equal. lia.
Qed.

Theorem inv_partition h s labels : WF h s -> Inv h s -> state_labels h s = Some labels ->
  Forall (fun c => c < state_K h s) labels ->
  Permutation (concat (map (cluster_members h) (state_clusters h s))) (seq 0 (length labels)).
Proof.
  intros _ [HK HI] Hl HF. rewrite Hl in HI.
  rewrite (map_nth_seq (cluster_members h) (positions labels) (state_clusters h s) 0 HI).
  rewrite HK. apply positions_partition; auto.
Qed.

(* ------------------------------------------------------------------ *)
(* (T5) frames                                                         *)
(* ------------------------------------------------------------------ *)

Theorem frame_repopulate h s spread order draws h' s' : WF h s ->
  phase_repopulate h s spread order draws = Some (h', s') -> unchanged h h'.
Proof.
  intros HWF E. apply WF_SD in HWF.
  destruct HWF as (a & cl & lab & cost & data & K & m & lam & beta & cs & HSD).
  destruct (repopulate_SD _ _ _ _ _ _ _ _ _ _ _ _ _ _ _ _ _ HSD E) as (cl' & lab' & cs' & _ & X & _).
  apply ext_unchanged; auto.
Qed.

Theorem frame_statistics h s b h' s' : WF h s ->
  phase_statistics h s b = Some (h', s') -> unchanged h h'.
Proof.
  intros HWF E. apply WF_SD in HWF.
  destruct HWF as (a & cl & lab & cost & data & K & m & lam & beta & cs & HSD).
  destruct (statistics_SD _ _ _ _ _ _ _ _ _ _ _ _ _ _ _ HSD E) as (cl' & cs' & _ & X & _).
  apply ext_unchanged; auto.
Qed.

Theorem frame_optimise h s mrf h' s' : WF h s ->
  phase_optimise h s mrf = (h', s') -> unchanged h h'.
Proof.
  intros HWF E. apply WF_SD in HWF.
  destruct HWF as (a & cl & lab & cost & data & K & m & lam & beta & cs & HSD).
  destruct (optimise_SD _ _ _ _ _ _ _ _ _ _ _ _ _ _ _ HSD E) as (cl' & cs' & _ & X & _).
  apply ext_unchanged; auto.
Qed.

Theorem frame_relabel h s ls cost h' s' : WF h s -> phase_relabel h s ls cost = (h', s') ->
  forall l, l < length h ->
    (~ In l (state_clusters h s) -> get h' l = get h l) /\
    (In l (state_clusters h s) -> forall mem ec mean ti cc ic ld,
        get h l = Some (OCluster mem ec mean ti cc ic ld) ->
        exists ld', get h' l = Some (OCluster mem ec mean ti cc ti ld')).
Proof.
  intros HWF E l Hl. apply WF_SD in HWF.
  destruct HWF as (a & cl & lab & cost0 & data & K & m & lam & beta & cs & HSD).
  destruct (relabel_SD _ _ _ _ _ _ _ _ _ _ _ _ _ _ _ _ HSD E) as (cl' & lab' & cs' & _ & [_ X] & _).
  rewrite (SD_clusters _ _ _ _ _ _ _ _ _ _ _ _ HSD).
  destruct (cache_write_frame cs h) as (A & B & C).
  assert (Hg : get h' l = get (cache_write h cs) l) by (apply X; lia).
  split.
  - intros Hn. rewrite Hg. auto.
  - intros Hin mem ec mean ti cc ic ld Hc. rewrite Hg. eapply C; eauto.
Qed.

(* ------------------------------------------------------------------ *)
(* (T7) deep copy                                                      *)
(* ------------------------------------------------------------------ *)

(* The statement of (T7) with WF alone is false: WF does not say that the array-valued
   fields (data, lambda/beta, the five matrices of a cluster) point to arrays, and
   copy_arr / args_deep_copy keep a reference that is not an array (np.copy of a non-array
   is not modelled).  Counterexample: data points to the arguments object. *)
Definition cex_heap : heap :=
  [OArgs 0 0 None None; ORefs []; OList []; OState 0 1 (Some 2) None 0].

Lemma deep_copy_fresh_needs_typed :
  WF cex_heap 3 /\ state_labels cex_heap 3 <> None /\
  ~ Forall (fun l => length cex_heap <= l)
           (state_reach (fst (state_deep_copy cex_heap 3)) (snd (state_deep_copy cex_heap 3))).
Proof.
  split; [|split].
  - exists 0, 1, (Some 2), None, 0, 0, 0, None, None, [].
    repeat split; try reflexivity; try constructor.
    + intros c [].
    + intros l E. inversion E; subst. exists []. reflexivity.
  - cbn. discriminate.
  - intros H. rewrite Forall_forall in H.
    assert (Hin : In 0 (state_reach (fst (state_deep_copy cex_heap 3)) (snd (state_deep_copy cex_heap 3)))).
    { vm_compute. tauto. }
    apply H in Hin. cbn in Hin. lia.
Qed.

(* the missing hypothesis: array-valued fields of the objects of the state are arrays *)
Definition carr (h : heap) (c : loc) : Prop :=
  forall mem ec mean ti cc ic ld, get h c = Some (OCluster mem ec mean ti cc ic ld) ->
    oarr h ec /\ oarr h mean /\ oarr h ti /\ oarr h cc /\ oarr h ic.

Definition Typed (h : heap) (s : loc) : Prop :=
  forall a cl lab cost data, get h s = Some (OState a cl lab cost data) ->
    (exists c, get h data = Some (OArr c)) /\
    (forall K m lam beta, get h a = Some (OArgs K m lam beta) -> oarr h lam /\ oarr h beta) /\
    (forall c, In c (get_refs h cl) -> carr h c).

Lemma olocs_bound n x : (forall l, x = Some l -> n <= l) -> Forall (fun l => n <= l) (olocs x).
Proof. intros H. destruct x as [l|]; cbn; constructor; auto. Qed.

Lemma cluster_reach_fresh h' c' mem' ec' mean' ti' cc' ic' ld n :
  get h' c' = Some (OCluster mem' ec' mean' ti' cc' ic' ld) -> n <= c' -> n <= mem' ->
  (forall l, ec' = Some l -> n <= l) -> (forall l, mean' = Some l -> n <= l) ->
  (forall l, ti' = Some l -> n <= l) -> (forall l, cc' = Some l -> n <= l) ->
  (forall l, ic' = Some l -> n <= l) ->
  Forall (fun l => n <= l) (cluster_reach h' c').
Proof.
  intros G H1 H2 H3 H4 H5 H6 H7. unfold cluster_reach. rewrite G.
  constructor; auto. constructor; auto.
  repeat (apply Forall_app; split); apply olocs_bound; auto.
Qed.

Lemma fr_bound h ha hb x x' :
  ext h ha -> oarr h x -> fr ha hb x x' -> forall l0, x' = Some l0 -> length h <= l0.
Proof.
  intros HE Hx Hf l0 E0. destruct (Hf (oarr_ext _ _ _ HE Hx)) as (l & c & -> & Ll & _).
  inversion E0; subst. destruct HE. lia.
Qed.

Lemma F2_forall_r {A B} (R : A -> B -> Prop) (Q : B -> Prop) l l' :
  Forall2 R l l' -> (forall x y, In x l -> R x y -> Q y) -> Forall Q l'.
Proof.
  induction 1 as [|x y l l' Hxy HF IH]; intros H; constructor.
  - apply (H x y); auto. left; auto.
  - apply IH. intros a b Ha. apply H. right; auto.
Qed.

Lemma Forall_concat_map {A B} (P : B -> Prop) (f : A -> list B) l :
  Forall (fun x => Forall P (f x)) l -> Forall P (concat (map f l)).
Proof.
  induction 1; cbn; [constructor|]. apply Forall_app. split; auto.
Qed.

Lemma members_copy h h' cs cs' :
  Forall2 (fun c c' => forall ms, clus h c ms -> clus h' c' ms) cs cs' ->
  (forall c, In c cs -> isclus h c) ->
  map (cluster_members h') cs' = map (cluster_members h) cs.
Proof.
  induction 1 as [|x y l l' Hxy HF IH]; intros Hcl; cbn; auto. f_equal.
  - destruct (Hcl x (in_eq _ _)) as [ms Hms].
    rewrite (clus_members _ _ _ Hms), (clus_members _ _ _ (Hxy ms Hms)). reflexivity.
  - apply IH. intros c Hc. apply Hcl. right; auto.
Qed.

Theorem deep_copy_fresh h s h' s' : WF h s -> Typed h s -> state_labels h s <> None ->
  state_deep_copy h s = (h', s') ->
  unchanged h h' /\ Forall (fun l => length h <= l) (state_reach h' s') /\ WF h' s' /\
  state_labels h' s' = state_labels h s /\
  map (cluster_members h') (state_clusters h' s') = map (cluster_members h) (state_clusters h s).
Proof.
  intros HWF HT Hlab E. apply WF_SD in HWF.
  destruct HWF as (a & cl & lab & cost & data & K & m & lam & beta & cs & HSD).
  rewrite (SD_labels _ _ _ _ _ _ _ _ _ _ _ _ HSD) in Hlab.
  destruct lab as [lb|]; [clear Hlab|congruence].
  pose proof HSD as (H1 & H2 & H3 & H4 & H5 & H6 & H7).
  destruct (HT _ _ _ _ _ H1) as (Hd & Hargs & Hcarr).
  destruct (Hargs _ _ _ _ H2) as [Hlam Hbeta].
  rewrite (SD_refs _ _ _ _ _ _ _ _ _ _ _ _ HSD) in Hcarr.
  destruct (deep_full _ _ _ _ _ _ _ _ _ _ _ _ _ _ HSD E)
    as (a' & cl' & lab' & data' & lam' & beta' & cs' & SD' & X & El & F2 & Ls & La & Lcl & Ll
        & Fl & Fb & Fd & F2').
  pose proof SD' as (G1 & G2 & G3 & G4 & G5 & G6 & G7).
  split; [apply ext_unchanged; auto|]. split; [|split; [|split]].
  - unfold state_reach. rewrite G1, G2, (SD_refs _ _ _ _ _ _ _ _ _ _ _ _ SD').
    constructor; auto. constructor; auto.
    apply Forall_app. split.
    { apply Forall_app. split; apply olocs_bound; auto. }
    constructor; auto.
    apply Forall_app. split; [|cbn; repeat constructor; auto].
    apply Forall_concat_map.
    eapply F2_forall_r; [exact F2'|]. cbn beta.
    intros c c' Hc (ha & hb & Xa & Xb & Ec).
    destruct (H6 c Hc) as (ms & mem & ec & mean & ti & cc & ic & ld & Gc & Gm).
    destruct (Hcarr c Hc _ _ _ _ _ _ _ Gc) as (T1 & T2 & T3 & T4 & T5).
    destruct (cluster_deep_copy_spec _ _ _ _ _ _ _ _ _ _ _ _
                (ext_get _ _ _ _ Xa Gc) (ext_get _ _ _ _ Xa Gm) Ec)
      as (_ & Bc' & mem' & ec' & mean' & ti' & cc' & ic' & Gc' & _ & Lm & Fe & Fm & Ft & Fc & Fi).
    pose proof (ext_len _ _ Xa) as La'.
    eapply cluster_reach_fresh.
    + eapply ext_get; [exact Xb|exact Gc'].
    + lia.
    + lia.
    + exact (fr_bound h ha hb ec ec' Xa T1 Fe).
    + exact (fr_bound h ha hb mean mean' Xa T2 Fm).
    + exact (fr_bound h ha hb ti ti' Xa T3 Ft).
    + exact (fr_bound h ha hb cc cc' Xa T4 Fc).
    + exact (fr_bound h ha hb ic ic' Xa T5 Fi).
  - apply WF_SD. exists a', cl', (Some lab'), cost, data', K, m, lam', beta', cs'. auto.
  - rewrite (SD_labels _ _ _ _ _ _ _ _ _ _ _ _ SD'), (SD_labels _ _ _ _ _ _ _ _ _ _ _ _ HSD).
    rewrite El. reflexivity.
  - rewrite (SD_clusters _ _ _ _ _ _ _ _ _ _ _ _ SD'), (SD_clusters _ _ _ _ _ _ _ _ _ _ _ _ HSD).
    apply members_copy; auto.
Qed.

(* ------------------------------------------------------------------ *)
(* Typed holds in every reachable configuration (global heap typing)   *)
(* ------------------------------------------------------------------ *)

Definition otyped (h : heap) (o : obj) : Prop :=
  match o with
  | OCluster _ ec mean ti cc ic _ => oarr h ec /\ oarr h mean /\ oarr h ti /\ oarr h cc /\ oarr h ic
  | OState _ _ _ _ data => exists c, get h data = Some (OArr c)
  | OArgs _ _ lam beta => oarr h lam /\ oarr h beta
  | _ => True
  end.

Definition HT (h : heap) : Prop := forall l o, get h l = Some o -> otyped h o.

Definition arrpres (h h' : heap) : Prop :=
  forall l c, get h l = Some (OArr c) -> get h' l = Some (OArr c).

Lemma arrpres_refl h : arrpres h h.
Proof. intros l c H; auto. Qed.

Lemma arrpres_trans h1 h2 h3 : arrpres h1 h2 -> arrpres h2 h3 -> arrpres h1 h3.
Proof. intros A B l c H. auto. Qed.

Lemma ext_arrpres h h' : ext h h' -> arrpres h h'.
Proof. intros E l c H. eapply ext_get; eauto. Qed.

Lemma oarr_pres h h' x : arrpres h h' -> oarr h x -> oarr h' x.
Proof. intros A H l Hl. destruct (H l Hl) as [c Hc]. exists c. auto. Qed.

Lemma otyped_pres h h' o : arrpres h h' -> otyped h o -> otyped h' o.
Proof.
  intros A. destruct o; cbn; auto.
  - intros [H1 H2]. split; eapply oarr_pres; eauto.
  - intros (H1 & H2 & H3 & H4 & H5). repeat split; eapply oarr_pres; eauto.
  - intros [c Hc]. exists c. auto.
Qed.

Lemma HT_Typed h s : HT h -> Typed h s.
Proof.
  intros HH a cl lab cost data Hs. split; [|split].
  - exact (HH _ _ Hs).
  - intros K m lam beta Ha. exact (HH _ _ Ha).
  - intros c _ mem ec mean ti cc ic ld Hc. exact (HH _ _ Hc).
Qed.

Lemma HT_alloc h o : HT h -> otyped h o -> HT (h ++ [o]) /\ arrpres h (h ++ [o]).
Proof.
  intros HH Ho.
  assert (A : arrpres h (h ++ [o])) by (apply ext_arrpres, ext_app).
  split; auto. intros x ox G.
  destruct (lt_dec x (length h)) as [Hlt|Hge].
  - rewrite get_app_old in G by auto. eapply otyped_pres; eauto.
  - pose proof (get_lt _ _ _ G) as Hx. rewrite app_length in Hx. cbn in Hx.
    assert (x = length h) by lia. subst x. rewrite get_app_new in G. inversion G; subst.
    eapply otyped_pres; eauto.
Qed.

Lemma get_upd_cases h l o x o' :
  get (upd h l o) x = Some o' -> (x = l /\ o' = o) \/ (x <> l /\ get h x = Some o').
Proof.
  intros G. destruct (Nat.eq_dec x l) as [->|N].
  - left. split; auto.
    assert (l < length h) by (rewrite <- (length_upd h l o); eapply get_lt; eauto).
    rewrite get_upd_same in G by auto. congruence.
  - right. rewrite get_upd_other in G; auto.
Qed.

Lemma HT_upd h l o o' : HT h -> get h l = Some o -> tag o <> 1 -> (otyped h o -> otyped h o') ->
  HT (upd h l o') /\ arrpres h (upd h l o').
Proof.
  intros HH Hl Ht Himp.
  assert (A : arrpres h (upd h l o')).
  { intros x c G. rewrite get_upd_other; auto. intros ->. rewrite Hl in G.
    inversion G; subst. cbn in Ht. congruence. }
  split; auto. intros x ox G. apply get_upd_cases in G. destruct G as [[-> ->]|[N G]].
  - eapply otyped_pres; eauto.
  - eapply otyped_pres; eauto.
Qed.

Definition HTA (h h' : heap) : Prop := HT h' /\ arrpres h h'.

Lemma HTA_refl h : HT h -> HTA h h.
Proof. intros; split; auto. apply arrpres_refl. Qed.

Lemma HTA_trans h1 h2 h3 : HTA h1 h2 -> HTA h2 h3 -> HTA h1 h3.
Proof. intros [_ A] [H B]. split; auto. eapply arrpres_trans; eauto. Qed.

Lemma set_members_HT h c new : HT h -> HTA h (set_members h c new).
Proof.
  intros HH. unfold set_members.
  destruct (get h c) as [[| | | |mem ec mean ti cc ic ld|]|] eqn:E; try (apply HTA_refl; assumption).
  assert (Hgen : forall xs, HTA h (upd (h ++ [OList xs]) c (OCluster (length h) ec mean ti cc ic ld))).
  { intros xs. destruct (HT_alloc h (OList xs) HH I) as [H1 A1].
    assert (E1 : get (h ++ [OList xs]) c = Some (OCluster mem ec mean ti cc ic ld)).
    { rewrite get_app_old; auto. eapply get_lt; eauto. }
    destruct (HT_upd _ c _ (OCluster (length h) ec mean ti cc ic ld) H1 E1 ltac:(cbn; lia) (fun x => x))
      as [H2 A2].
    split; auto. eapply arrpres_trans; eauto. }
  unfold alloc. cbv beta iota.
  destruct (length new =? 0); [apply Hgen|].
  destruct (list_eqb new (get_list h mem)); [apply HTA_refl; auto|apply Hgen].
Qed.

Lemma update_membership_HT labels : forall cs h k, HT h -> HTA h (update_membership h cs labels k).
Proof.
  induction cs as [|c r IH]; intros h k HH; cbn [update_membership]; [apply HTA_refl; auto|].
  pose proof (set_members_HT h c (positions labels k) HH) as H1.
  eapply HTA_trans; [exact H1|]. apply IH. apply H1.
Qed.

Lemma clear_membership_HT : forall cs h, HT h -> HTA h (clear_membership h cs).
Proof.
  induction cs as [|c r IH]; intros h HH; cbn [clear_membership]; [apply HTA_refl; auto|].
  pose proof (set_members_HT h c [] HH) as H1.
  eapply HTA_trans; [exact H1|]. apply IH. apply H1.
Qed.

Lemma set_labels_HT h s l : HT h -> HTA h (set_labels h s l).
Proof.
  intros HH. unfold set_labels.
  destruct (get h s) as [[| | | | |a cl old cost data]|] eqn:E; try (apply HTA_refl; assumption).
  cbv zeta.
  destruct (match old with Some o => list_eqb (get_list h l) (get_list h o) | None => false end);
    [apply HTA_refl; auto|].
  pose proof (HT_upd h s _ (OState a cl (Some l) cost data) HH E ltac:(cbn; lia) (fun x => x)) as H1.
  eapply HTA_trans; [exact H1|].
  destruct (length (get_list h l) =? 0).
  - apply clear_membership_HT. apply H1.
  - apply update_membership_HT. apply H1.
Qed.

Lemma new_cluster_HT h ms ec mean ti cc ic ld h' c' :
  HT h -> otyped h (OCluster 0 ec mean ti cc ic ld) ->
  new_cluster h ms ec mean ti cc ic ld = (h', c') -> HTA h h'.
Proof.
  intros HH Ho. unfold new_cluster, alloc. intros E. inversion E; subst. clear E.
  destruct (HT_alloc h (OList ms) HH I) as [H1 A1].
  assert (Ho1 : otyped (h ++ [OList ms]) (OCluster (length h) ec mean ti cc ic ld)).
  { eapply otyped_pres in Ho; [|exact A1]. exact Ho. }
  destruct (HT_alloc _ _ H1 Ho1) as [H2 A2].
  split; auto. eapply arrpres_trans; eauto.
Qed.

Lemma cluster_shallow_copy_HT h c h' c' : HT h -> cluster_shallow_copy h c = (h', c') -> HTA h h'.
Proof.
  intros HH. unfold cluster_shallow_copy.
  destruct (get h c) as [[| | | |mem ec mean ti cc ic ld|]|] eqn:E;
    try (intros Eq; inversion Eq; subst; apply HTA_refl; assumption).
  apply new_cluster_HT; auto. exact (HH _ _ E).
Qed.

Lemma copy_arr_HT h a h' a' :
  HT h -> copy_arr h a = (h', a') -> HTA h h' /\ (oarr h a -> oarr h' a').
Proof.
  intros HH. unfold copy_arr, alloc. destruct a as [l|].
  - destruct (get h l) as [[| c | | | |]|] eqn:E; intros Eq; inversion Eq; subst;
      try (split; [apply HTA_refl; assumption|auto]).
    split; [apply HT_alloc; cbn; auto|].
    intros _ l0 El0. inversion El0; subst. exists c. apply get_app_new.
  - intros Eq; inversion Eq; subst. split; [apply HT_alloc; cbn; auto|].
    intros _ l0 El0. inversion El0; subst. exists []. apply get_app_new.
Qed.

Lemma cluster_deep_copy_HT h c h' c' : HT h -> cluster_deep_copy h c = (h', c') -> HTA h h'.
Proof.
  intros HH. unfold cluster_deep_copy.
  destruct (get h c) as [[| | | |mem ec mean ti cc ic ld|]|] eqn:E;
    try (intros Eq; inversion Eq; subst; apply HTA_refl; assumption).
  destruct (HH _ _ E) as (T1 & T2 & T3 & T4 & T5).
  destruct (copy_arr h cc) as [h1 cc'] eqn:E1.
  destruct (copy_arr h1 ec) as [h2 ec'] eqn:E2.
  destruct (copy_arr h2 ic) as [h3 ic'] eqn:E3.
  destruct (copy_arr h3 mean) as [h4 mean'] eqn:E4.
  destruct (copy_arr h4 ti) as [h5 ti'] eqn:E5.
  intros E6.
  destruct (copy_arr_HT _ _ _ _ HH E1) as [[HH1 A1] F1].
  destruct (copy_arr_HT _ _ _ _ HH1 E2) as [[HH2 A2] F2].
  destruct (copy_arr_HT _ _ _ _ HH2 E3) as [[HH3 A3] F3].
  destruct (copy_arr_HT _ _ _ _ HH3 E4) as [[HH4 A4] F4].
  destruct (copy_arr_HT _ _ _ _ HH4 E5) as [[HH5 A5] F5].
  pose proof (arrpres_trans _ _ _ A1 A2) as A02.
  pose proof (arrpres_trans _ _ _ A02 A3) as A03.
  pose proof (arrpres_trans _ _ _ A03 A4) as A04.
  pose proof (arrpres_trans _ _ _ A04 A5) as A05.
  pose proof A5 as A45.
  pose proof (arrpres_trans _ _ _ A4 A5) as A35.
  pose proof (arrpres_trans _ _ _ A3 A35) as A25.
  pose proof (arrpres_trans _ _ _ A2 A25) as A15.
  eapply HTA_trans; [split; [exact HH5|exact A05]|].
  eapply new_cluster_HT; [exact HH5| |exact E6].
  cbn. split; [|split; [|split; [|split]]].
  - eapply oarr_pres; [exact A25|]. apply F2. eapply oarr_pres; eauto.
  - eapply oarr_pres; [exact A45|]. apply F4. eapply oarr_pres; eauto.
  - apply F5. eapply oarr_pres; eauto.
  - eapply oarr_pres; [exact A15|]. apply F1. auto.
  - eapply oarr_pres; [exact A35|]. apply F3. eapply oarr_pres; eauto.
Qed.

Lemma fresh_arrays_typed h1 o1 o2 c1 ml e1 e2 e1' e2' ti cc ic ld ld' ti' cc' :
  HT h1 -> get h1 c1 = Some (OCluster ml e1 e2 ti cc ic ld) ->
  otyped ((h1 ++ [o1]) ++ [o2]) (OCluster ml e1' e2' ti' cc' ic ld') ->
  tag o1 <= 1 -> tag o2 <= 1 ->
  HTA h1 (upd ((h1 ++ [o1]) ++ [o2]) c1 (OCluster ml e1' e2' ti' cc' ic ld')).
Proof.
  intros HH1 G Ho T1 T2.
  assert (Ho1 : otyped h1 o1) by (destruct o1; cbn in *; auto; lia).
  destruct (HT_alloc h1 o1 HH1 Ho1) as [HH2 A2].
  assert (Ho2 : otyped (h1 ++ [o1]) o2) by (destruct o2; cbn in *; auto; lia).
  destruct (HT_alloc _ o2 HH2 Ho2) as [HH3 A3].
  assert (G3 : get ((h1 ++ [o1]) ++ [o2]) c1 = Some (OCluster ml e1 e2 ti cc ic ld)).
  { eapply ext_get; [|exact G]. eapply ext_trans; apply ext_app. }
  destruct (HT_upd _ c1 _ (OCluster ml e1' e2' ti' cc' ic ld') HH3 G3 ltac:(cbn; lia) (fun _ => Ho))
    as [HH4 A4].
  split; auto. eapply arrpres_trans; [exact A2|]. eapply arrpres_trans; eauto.
Qed.

Lemma oarr_new1 h o1 o2 c : o1 = OArr c -> oarr ((h ++ [o1]) ++ [o2]) (Some (length h)).
Proof.
  intros -> l El. inversion El; subst. exists c.
  rewrite get_app_old by (rewrite app_length; cbn; lia). apply get_app_new.
Qed.

Lemma oarr_new2 h o1 o2 c : o2 = OArr c -> oarr ((h ++ [o1]) ++ [o2]) (Some (length (h ++ [o1]))).
Proof. intros -> l El. inversion El; subst. exists c. apply get_app_new. Qed.

Lemma stat_cluster_HT b h c h' c' : HT h -> stat_cluster b h c = (h', c') -> HTA h h'.
Proof.
  intros HH. unfold stat_cluster. cbv zeta.
  destruct (cluster_shallow_copy h c) as [h1 c1] eqn:E1.
  pose proof (cluster_shallow_copy_HT _ _ _ _ HH E1) as [HH1 A1].
  destruct (get h1 c1) as [[| | | |ml e1 e2 ti cc ic ld|]|] eqn:G;
    try (intros Eq; inversion Eq; subst; split; assumption).
  unfold alloc. cbv beta iota. intros Eq. inversion Eq; subst h' c'. clear Eq.
  eapply HTA_trans; [split; eassumption|].
  eapply fresh_arrays_typed; [exact HH1|exact G| |cbn; lia|cbn; lia].
  pose proof (HH1 _ _ G) as (_ & _ & T3 & T4 & T5).
  assert (A : arrpres h1 ((h1 ++ [OArr (if length (cluster_members h c) =? 1 then [1; 1]
       else 1 :: (if b then 1 else 0) :: cluster_members h c)]) ++
       [OArr (2 :: cluster_members h c)])).
  { apply ext_arrpres. eapply ext_trans; apply ext_app. }
  cbn. split; [eapply oarr_new1; reflexivity|]. split; [eapply oarr_new2; reflexivity|].
  repeat split; eapply oarr_pres; eauto.
Qed.

Lemma opt_cluster_HT mrf h kc h' c' : HT h -> opt_cluster mrf h kc = (h', c') -> HTA h h'.
Proof.
  intros HH. destruct kc as [k c]. unfold opt_cluster.
  destruct (cluster_shallow_copy h c) as [h1 c1] eqn:E1.
  pose proof (cluster_shallow_copy_HT _ _ _ _ HH E1) as [HH1 A1].
  destruct (get h1 c1) as [[| | | |ml e1 e2 ti cc ic ld|]|] eqn:G;
    try (intros Eq; inversion Eq; subst; split; assumption).
  unfold alloc. cbv beta iota. intros Eq. inversion Eq; subst h' c'. clear Eq.
  eapply HTA_trans; [split; eassumption|].
  eapply fresh_arrays_typed; [exact HH1|exact G| |cbn; lia|cbn; lia].
  pose proof (HH1 _ _ G) as (T1 & T2 & _ & _ & T5).
  assert (A : arrpres h1 ((h1 ++ [OArr (3 :: mrf k)]) ++ [OArr (4 :: mrf k)])).
  { apply ext_arrpres. eapply ext_trans; apply ext_app. }
  cbn. split; [eapply oarr_pres; eauto|]. split; [eapply oarr_pres; eauto|].
  split; [eapply oarr_new1; reflexivity|]. split; [eapply oarr_new2; reflexivity|].
  eapply oarr_pres; eauto.
Qed.

Lemma map_heap_idx_HT f
  (Hf : forall h kc h' c', HT h -> f h kc = (h', c') -> HTA h h') :
  forall cs h k h' cs', HT h -> map_heap_idx f h k cs = (h', cs') -> HTA h h'.
Proof.
  induction cs as [|c r IH]; intros h k h' cs' HH E; cbn [map_heap_idx] in E.
  - inversion E; subst. apply HTA_refl; auto.
  - destruct (f h (k, c)) as [h1 c1] eqn:E1.
    destruct (map_heap_idx f h1 (S k) r) as [h2 r2] eqn:E2. inversion E; subst. clear E.
    pose proof (Hf _ _ _ _ HH E1) as H1. eapply HTA_trans; [exact H1|].
    eapply IH; eauto. apply H1.
Qed.

Lemma map_heap_HT f (Hf : forall h c h' c', HT h -> f h c = (h', c') -> HTA h h') cs h h' cs' :
  HT h -> map_heap f h cs = (h', cs') -> HTA h h'.
Proof.
  rewrite (map_heap_idx_eq f cs h 0). apply map_heap_idx_HT.
  intros h0 [k c] h1 c1 HH E. cbn in E. eauto.
Qed.

Lemma state_shallow_copy_HT h s h' s' : HT h -> state_shallow_copy h s = (h', s') -> HTA h h'.
Proof.
  intros HH. unfold state_shallow_copy.
  destruct (get h s) as [[| | | | |a cl lab cost data]|] eqn:E;
    try (intros Eq; inversion Eq; subst; apply HTA_refl; assumption).
  unfold alloc. intros Eq. inversion Eq; subst. clear Eq.
  destruct (HT_alloc h (ORefs (get_refs h cl)) HH I) as [H1 A1].
  assert (Ho : otyped (h ++ [ORefs (get_refs h cl)]) (OState a (length h) lab cost data)).
  { eapply (otyped_pres h _ (OState a cl lab cost data)); [exact A1|]. exact (HH _ _ E). }
  destruct (HT_alloc _ _ H1 Ho) as [H2 A2]. split; auto. eapply arrpres_trans; eauto.
Qed.

Lemma cp_arr_HT h x h' x' : HT h -> cp_arr h x = (h', x') -> HTA h h' /\ (oarr h x -> oarr h' x').
Proof.
  intros HH. unfold cp_arr, alloc. destruct x as [l|].
  - destruct (get h l) as [[| c | | | |]|] eqn:E; intros Eq; inversion Eq; subst;
      try (split; [apply HTA_refl; assumption|auto]).
    split; [apply HT_alloc; cbn; auto|].
    intros _ l0 El0. inversion El0; subst. exists c. apply get_app_new.
  - intros Eq; inversion Eq; subst. split; [apply HTA_refl; auto|auto].
Qed.

Lemma args_deep_copy_HT h a h' a' : HT h -> args_deep_copy h a = (h', a') -> HTA h h'.
Proof.
  intros HH. rewrite args_deep_copy_eq.
  destruct (get h a) as [[| | |K m lam beta| |]|] eqn:E;
    try (intros Eq; inversion Eq; subst; apply HTA_refl; assumption).
  destruct (cp_arr h lam) as [h1 lam'] eqn:E1.
  destruct (cp_arr h1 beta) as [h2 beta'] eqn:E2.
  unfold alloc. intros Eq. inversion Eq; subst. clear Eq.
  destruct (HH _ _ E) as [T1 T2].
  destruct (cp_arr_HT _ _ _ _ HH E1) as [[HH1 A1] F1].
  destruct (cp_arr_HT _ _ _ _ HH1 E2) as [[HH2 A2] F2].
  assert (Ho : otyped h2 (OArgs K m lam' beta')).
  { cbn. split; [eapply oarr_pres; [exact A2|]; auto|]. apply F2. eapply oarr_pres; eauto. }
  destruct (HT_alloc _ _ HH2 Ho) as [H3 A3]. split; auto.
  eapply arrpres_trans; [exact A1|]. eapply arrpres_trans; eauto.
Qed.

Lemma state_deep_copy_HT h s h' s' : HT h -> state_deep_copy h s = (h', s') -> HTA h h'.
Proof.
  intros HH. unfold state_deep_copy.
  destruct (get h s) as [[| | | | |a cl [lb|] cost data]|] eqn:E;
    try (intros Eq; inversion Eq; subst; apply HTA_refl; assumption).
  destruct (map_heap cluster_deep_copy h (get_refs h cl)) as [h1 cs'] eqn:E1.
  destruct (args_deep_copy h1 a) as [h2 a'] eqn:E2.
  unfold alloc at 1. cbv beta iota.
  destruct (copy_arr (h2 ++ [OList (get_list h lb)]) (Some data)) as [h4 data'] eqn:E4.
  unfold alloc. cbv beta iota. intros Eq. inversion Eq; subst h' s'. clear Eq.
  pose proof (map_heap_HT _ cluster_deep_copy_HT _ _ _ _ HH E1) as [HH1 A1].
  pose proof (args_deep_copy_HT _ _ _ _ HH1 E2) as [HH2 A2].
  destruct (HT_alloc h2 (OList (get_list h lb)) HH2 I) as [HH3 A3].
  destruct (copy_arr_HT _ _ _ _ HH3 E4) as [[HH4 A4] F4].
  destruct (HT_alloc h4 (ORefs cs') HH4 I) as [HH5 A5].
  pose proof (arrpres_trans _ _ _ A1 A2) as A02.
  pose proof (arrpres_trans _ _ _ A02 A3) as A03.
  pose proof (arrpres_trans _ _ _ A03 A4) as A04.
  pose proof (arrpres_trans _ _ _ A04 A5) as A05.
  destruct (HH _ _ E) as [c Hc].
  assert (Ho : otyped (h4 ++ [ORefs cs'])
                 (OState a' (length h4) (Some (length h2)) cost
                         (match data' with Some d => d | None => data end))).
  { cbn. destruct data' as [d|].
    - destruct F4 with (l := d) as [c0 Hc0]; auto.
      + intros l El. inversion El; subst. exists c. apply A03; auto.
      + exists c0. apply A5; auto.
    - exists c. apply A05; auto. }
  destruct (HT_alloc _ _ HH5 Ho) as [HH6 A6]. split; auto. eapply arrpres_trans; eauto.
Qed.

Lemma oarr_None h : oarr h None.
Proof. intros l El. discriminate. Qed.

Lemma empty_clusters_HT : forall K h h' cs, HT h -> empty_clusters h K = (h', cs) -> HTA h h'.
Proof.
  induction K as [|K IH]; intros h h' cs HH E; cbn [empty_clusters] in E.
  - inversion E; subst. apply HTA_refl; auto.
  - destruct (new_cluster h [] None None None None None None) as [h1 c1] eqn:E1.
    destruct (empty_clusters h1 K) as [h2 r] eqn:E2. inversion E; subst. clear E.
    assert (H1 : HTA h h1).
    { eapply new_cluster_HT; eauto. cbn. repeat split; apply oarr_None. }
    eapply HTA_trans; [exact H1|]. eapply IH; eauto. apply H1.
Qed.

Lemma empty_model_HT h a K data h' s' :
  HT h -> (exists c, get h data = Some (OArr c)) -> empty_model h a K data = (h', s') -> HT h'.
Proof.
  intros HH [c Hc]. unfold empty_model.
  destruct (empty_clusters h K) as [h1 cs] eqn:E1. unfold alloc. cbv beta iota.
  intros Eq. inversion Eq; subst. clear Eq.
  destruct (empty_clusters_HT _ _ _ _ HH E1) as [HH1 A1].
  destruct (HT_alloc h1 (ORefs cs) HH1 I) as [HH2 A2].
  apply HT_alloc; auto. cbn. exists c. auto.
Qed.

Lemma init_HT K m la ba : HT (fst (init K m la ba)).
Proof.
  destruct (init K m la ba) as [h s] eqn:E. cbn [fst].
  unfold init, alloc in E.
  destruct la, ba; cbv beta iota in E; cbn [app length] in E;
    (eapply empty_model_HT in E; [exact E| |eexists; reflexivity]);
    intros l o G; unfold get in G;
    do 4 (destruct l as [|l];
          [cbn in G; inversion G; subst; clear G; cbn; try exact I;
           split; intros l0 El0; inversion El0; subst; eexists; reflexivity|]);
    cbn in G; destruct l; cbn in G; discriminate.
Qed.

Lemma set_clusters_HT h s cs : HT h -> HTA h (set_clusters h s cs).
Proof.
  intros HH. unfold set_clusters.
  destruct (get h s) as [[| | | | |a cl lab cost data]|] eqn:E; try (apply HTA_refl; assumption).
  unfold alloc. cbv beta iota.
  destruct (HT_alloc h (ORefs cs) HH I) as [H1 A1].
  assert (E1 : get (h ++ [ORefs cs]) s = Some (OState a cl lab cost data)).
  { rewrite get_app_old; auto. eapply get_lt; eauto. }
  destruct (HT_upd _ s _ (OState a (length h) lab cost data) H1 E1 ltac:(cbn; lia) (fun x => x))
    as [H2 A2].
  split; auto. eapply arrpres_trans; eauto.
Qed.

Lemma set_cost_HT h s c : HT h -> HTA h (set_cost h s c).
Proof.
  intros HH. unfold set_cost.
  destruct (get h s) as [[| | | | |a cl lab cost data]|] eqn:E; try (apply HTA_refl; assumption).
  exact (HT_upd h s _ (OState a cl lab (Some c) data) HH E ltac:(cbn; lia) (fun x => x)).
Qed.

Lemma cache_write_HT : forall cs h, HT h -> HTA h (cache_write h cs).
Proof.
  induction cs as [|c r IH]; intros h HH; [apply HTA_refl; auto|].
  rewrite cache_write_cons.
  destruct (get h c) as [[| | | |ml ec mean ti cc ic ld|]|] eqn:E; try (apply IH; assumption).
  assert (H1 : HTA h (upd h c (OCluster ml ec mean ti cc ti (cw_ld h ti)))).
  { apply (HT_upd h c _ _ HH E); [cbn; lia|]. cbn. intros (T1 & T2 & T3 & T4 & T5).
    repeat split; auto. }
  eapply HTA_trans; [exact H1|]. apply IH. apply H1.
Qed.

Lemma refill_state_HT s m : forall order h rem draws h',
  HT h -> refill_state h s m rem order draws = Some h' -> HTA h h'.
Proof.
  induction order as [|e order' IH]; intros h rem draws h' HH E.
  - cbn in E. inversion E; subst. apply HTA_refl; auto.
  - rewrite refill_state_cons in E.
    destruct (find_donor _ _ _ _) as [[d rem']|]; [|discriminate].
    set (ls := move _ d e _) in E.
    destruct (HT_alloc h (OList ls) HH I) as [H1 A1].
    pose proof (set_labels_HT _ s (length h) H1) as H2.
    eapply HTA_trans; [split; eassumption|]. eapply HTA_trans; [exact H2|].
    eapply IH; eauto. apply H2.
Qed.

Lemma phase_repopulate_HT h s spread order draws h' s' :
  HT h -> phase_repopulate h s spread order draws = Some (h', s') -> HTA h h'.
Proof.
  intros HH. unfold phase_repopulate. destruct order as [|e order'].
  - intros E. inversion E; subst. apply HTA_refl; auto.
  - destruct (state_shallow_copy h s) as [h1 s1] eqn:E1.
    destruct (map_heap cluster_deep_copy h1 (state_clusters h s)) as [h2 cs'] eqn:E2.
    cbv zeta.
    destruct (refill_state (set_clusters h2 s1 cs') s1 _ _ _ _) as [h4|] eqn:ER; [|discriminate].
    intros E. inversion E; subst h' s'. clear E.
    pose proof (state_shallow_copy_HT _ _ _ _ HH E1) as H1.
    pose proof (map_heap_HT _ cluster_deep_copy_HT _ _ _ _ (proj1 H1) E2) as H2.
    pose proof (set_clusters_HT h2 s1 cs' (proj1 H2)) as H3.
    pose proof (refill_state_HT _ _ _ _ _ _ _ (proj1 H3) ER) as H4.
    eapply HTA_trans; [exact H1|]. eapply HTA_trans; [exact H2|]. eapply HTA_trans; eauto.
Qed.

Lemma phase_optimise_HT h s mrf h' s' : HT h -> phase_optimise h s mrf = (h', s') -> HTA h h'.
Proof.
  intros HH. unfold phase_optimise.
  destruct (map_heap_idx (opt_cluster mrf) h 0 (state_clusters h s)) as [h1 cs'] eqn:E1.
  destruct (state_shallow_copy h1 s) as [h2 s1] eqn:E2.
  intros E. inversion E; subst h' s'. clear E.
  pose proof (map_heap_idx_HT _ (opt_cluster_HT mrf) _ _ _ _ _ HH E1) as H1.
  pose proof (state_shallow_copy_HT _ _ _ _ (proj1 H1) E2) as H2.
  pose proof (set_clusters_HT h2 s1 cs' (proj1 H2)) as H3.
  eapply HTA_trans; [exact H1|]. eapply HTA_trans; eauto.
Qed.

Lemma phase_relabel_HT h s ls c h' s' : HT h -> phase_relabel h s ls c = (h', s') -> HTA h h'.
Proof.
  intros HH. unfold phase_relabel. cbv zeta.
  set (h0 := cache_write h _).
  pose proof (cache_write_HT _ h HH : HTA h h0) as H0.
  destruct (state_shallow_copy h0 s) as [h1 s1] eqn:E1.
  destruct (map_heap cluster_deep_copy h1 (state_clusters h0 s)) as [h2 cs'] eqn:E2.
  unfold alloc. cbv beta iota. intros E. inversion E; subst h' s'. clear E.
  pose proof (state_shallow_copy_HT _ _ _ _ (proj1 H0) E1) as H1.
  pose proof (map_heap_HT _ cluster_deep_copy_HT _ _ _ _ (proj1 H1) E2) as H2.
  pose proof (set_clusters_HT h2 s1 cs' (proj1 H2)) as H3.
  set (h3 := set_clusters h2 s1 cs') in *.
  pose proof (HT_alloc h3 (OList ls) (proj1 H3) I : HTA h3 _) as H4.
  pose proof (set_labels_HT _ s1 (length h3) (proj1 H4)) as H5.
  pose proof (set_cost_HT _ s1 c (proj1 H5)) as H6.
  eapply HTA_trans; [exact H0|]. eapply HTA_trans; [exact H1|]. eapply HTA_trans; [exact H2|].
  eapply HTA_trans; [exact H3|]. eapply HTA_trans; [exact H4|]. eapply HTA_trans; eauto.
Qed.

Lemma phase_statistics_HT h s b h' s' :
  WF h s -> HT h -> phase_statistics h s b = Some (h', s') -> HTA h h'.
Proof.
  intros HWF HH. apply WF_SD in HWF.
  destruct HWF as (a & cl & lab & cost & data & K & m & lam & beta & cs & HSD).
  unfold phase_statistics.
  rewrite (SD_clusters _ _ _ _ _ _ _ _ _ _ _ _ HSD), (SD_K _ _ _ _ _ _ _ _ _ _ _ _ HSD),
          (SD_firstn _ _ _ _ _ _ _ _ _ _ _ _ HSD), (SD_skipn _ _ _ _ _ _ _ _ _ _ _ _ HSD).
  destruct (forallb _ cs); [|discriminate].
  destruct (state_shallow_copy h s) as [h1 s1] eqn:E1.
  destruct (map_heap (stat_cluster b) h1 cs) as [h2 cs'] eqn:E2.
  destruct (shallow_SD _ _ _ _ _ _ _ _ _ _ _ _ _ _ HSD E1) as (X1 & Hs1 & L1 & SD1 & I1).
  destruct (map_heap_clus (stat_cluster b) (stat_cluster_clus b) cs h1 h2 cs' E2
              (SD_isclus _ _ _ _ _ _ _ _ _ _ _ _ SD1)) as (X2 & _).
  pose proof (SD_ext _ _ _ _ _ _ _ _ _ _ _ _ _ X2 SD1) as (A1 & A2 & A3 & _).
  rewrite A1. intros E. inversion E; subst h' s'. clear E.
  pose proof (state_shallow_copy_HT _ _ _ _ HH E1) as H1.
  pose proof (map_heap_HT _ (stat_cluster_HT b) _ _ _ _ (proj1 H1) E2) as H2.
  pose proof (HT_upd h2 (length h) _ (ORefs (cs' ++ [])) (proj1 H2) A3 ltac:(cbn; lia) (fun x => x)
              : HTA h2 _) as H3.
  eapply HTA_trans; [exact H1|]. eapply HTA_trans; eauto.
Qed.

Theorem step_HT h s o h' s' : WF h s -> HT h -> step (h, s) o = Some (h', s') -> HT h'.
Proof.
  intros HWF HH E.
  destruct o as [ls| | |sp order draws|b|tg|ls c]; unfold step in E; cbv beta iota in E.
  - unfold alloc in E. cbv beta iota in E. inversion E; subst h' s'. clear E.
    destruct (HT_alloc h (OList ls) HH I) as [H1 _]. apply (set_labels_HT _ s (length h) H1).
  - inversion E as [E']. apply (state_shallow_copy_HT _ _ _ _ HH E').
  - inversion E as [E']. apply (state_deep_copy_HT _ _ _ _ HH E').
  - apply (phase_repopulate_HT _ _ _ _ _ _ _ HH E).
  - apply (phase_statistics_HT _ _ _ _ _ HWF HH E).
  - inversion E as [E']. apply (phase_optimise_HT _ _ _ _ _ HH E').
  - inversion E as [E']. apply (phase_relabel_HT _ _ _ _ _ _ HH E').
Qed.

Lemma run_ops_HT_gen ops : forall h s h' s',
  WF h s -> Inv h s -> HT h -> run_ops (h, s) ops = Some (h', s') -> HT h'.
Proof.
  induction ops as [|o r IH]; intros h s h' s' HW HI HH E; cbn [run_ops] in E.
  - inversion E; subst. auto.
  - destruct (step (h, s) o) as [[h1 s1]|] eqn:Es; [|discriminate].
    destruct (step_wf_inv _ _ _ _ _ HW HI Es) as [HW1 HI1].
    pose proof (step_HT _ _ _ _ _ HW HH Es) as HH1. eapply IH; eauto.
Qed.

(* every configuration reachable from [init] is typed *)
Theorem run_ops_typed K m la ba ops h s :
  run_ops (init K m la ba) ops = Some (h, s) -> HT h /\ Typed h s.
Proof.
  intros E. pose proof (init_wf_inv K m la ba) as H0. pose proof (init_HT K m la ba) as H1.
  destruct (init K m la ba) as [h0 s0]. destruct H0 as [HW HI]. cbn [fst] in H1.
  pose proof (run_ops_HT_gen _ _ _ _ _ HW HI H1 E) as HH. split; auto. apply HT_Typed; auto.
Qed.

(* (T7) for reachable configurations, without the extra hypothesis *)
Corollary deep_copy_fresh_reachable K m la ba ops h s h' s' :
  run_ops (init K m la ba) ops = Some (h, s) -> state_labels h s <> None ->
  state_deep_copy h s = (h', s') ->
  unchanged h h' /\ Forall (fun l => length h <= l) (state_reach h' s') /\ WF h' s' /\
  state_labels h' s' = state_labels h s /\
  map (cluster_members h') (state_clusters h' s') = map (cluster_members h) (state_clusters h s).
Proof.
  intros E Hl Ed. destruct (run_ops_wf_inv _ _ _ _ _ _ _ E) as [HW _].
  destruct (run_ops_typed _ _ _ _ _ _ _ E) as [_ HT0].
  apply deep_copy_fresh; auto.
Qed.

Print Assumptions init_wf_inv.
Print Assumptions step_wf_inv.
Print Assumptions run_ops_wf_inv.
Print Assumptions inv_partition.
Print Assumptions frame_repopulate.
Print Assumptions frame_statistics.
Print Assumptions frame_optimise.
Print Assumptions frame_relabel.
Print Assumptions set_labels_immediate.
Print Assumptions deep_copy_fresh.
Print Assumptions deep_copy_fresh_reachable.
