(* Proofs about Model/State.v (heap model of ClusterParameters / ModelState). *)
From Coq Require Import List Arith Lia Bool Permutation.
Import ListNotations.
From Ticc Require Import Model.Repop Proofs.RepopP Model.State.

Notation Inv := Ticc.Model.State.Inv.

(* ------------------------------------------------------------------ *)
(* heap library                                                        *)
(* ------------------------------------------------------------------ *)

Lemma get_lt h l o : get h l = Some o -> l < length h.
Proof. unfold get. intros H. apply nth_error_Some. congruence. Qed.

Lemma get_ge h l : length h <= l -> get h l = None.
Proof. unfold get. apply nth_error_None. Qed.

Lemma get_app_old h t l : l < length h -> get (h ++ t) l = get h l.
Proof. unfold get. intros. apply nth_error_app1; auto. Qed.

Lemma get_app_new h o t : get (h ++ o :: t) (length h) = Some o.
Proof. unfold get. rewrite nth_error_app2, Nat.sub_diag; auto. Qed.

Lemma get_app_new2 h o1 o2 t : get (h ++ o1 :: o2 :: t) (S (length h)) = Some o2.
Proof.
  unfold get. rewrite nth_error_app2 by lia.
  replace (S (length h) - length h) with 1 by lia. reflexivity.
Qed.

Lemma length_upd h : forall l o, length (upd h l o) = length h.
Proof. induction h as [|x h IH]; intros [|l] o; cbn; auto. Qed.

Lemma get_upd_same h : forall l o, l < length h -> get (upd h l o) l = Some o.
Proof.
  unfold get. induction h as [|x h IH]; intros [|l] o H; cbn in *; try lia; auto.
  apply IH; lia.
Qed.

Lemma get_upd_other h : forall l l' o, l' <> l -> get (upd h l o) l' = get h l'.
Proof.
  unfold get. induction h as [|x h IH]; intros [|l] [|l'] o H; cbn; auto; try congruence.
Qed.

Definition unchanged (h h' : heap) : Prop := forall l, l < length h -> get h' l = get h l.

Definition ext (h h' : heap) : Prop :=
  length h <= length h' /\ forall l, l < length h -> get h' l = get h l.

Lemma ext_unchanged h h' : ext h h' -> unchanged h h'.
Proof. intros [_ H]; exact H. Qed.

Lemma ext_refl h : ext h h.
Proof. split; auto. Qed.

Lemma ext_trans h1 h2 h3 : ext h1 h2 -> ext h2 h3 -> ext h1 h3.
Proof.
  intros [L1 G1] [L2 G2]. split; [lia|]. intros l Hl. rewrite G2 by lia. auto.
Qed.

Lemma ext_app h t : ext h (h ++ t).
Proof. split; [rewrite app_length; lia|]. intros; apply get_app_old; auto. Qed.

Lemma ext_get h h' l o : ext h h' -> get h l = Some o -> get h' l = Some o.
Proof. intros [_ G] H. rewrite G; auto. eapply get_lt; eauto. Qed.

Lemma ext_len h h' : ext h h' -> length h <= length h'.
Proof. intros [L _]; auto. Qed.

Lemma ext_upd_fresh h h' c o : ext h h' -> length h <= c -> ext h (upd h' c o).
Proof.
  intros [L G] Hc. split; [rewrite length_upd; auto|].
  intros l Hl. rewrite get_upd_other by lia. auto.
Qed.

(* only the locations in S (and fresh ones) may differ *)
Definition modonly (S : list loc) (h h' : heap) : Prop :=
  length h <= length h' /\ forall l, l < length h -> ~ In l S -> get h' l = get h l.

Lemma modonly_refl S h : modonly S h h.
Proof. split; auto. Qed.

Lemma modonly_trans S h1 h2 h3 : modonly S h1 h2 -> modonly S h2 h3 -> modonly S h1 h3.
Proof.
  intros [L1 G1] [L2 G2]. split; [lia|]. intros l Hl Hn. rewrite G2 by (auto; lia). auto.
Qed.

Lemma modonly_incl S S' h h' : incl S S' -> modonly S h h' -> modonly S' h h'.
Proof. intros HI [L G]. split; auto. Qed.

Lemma ext_modonly S h h' : ext h h' -> modonly S h h'.
Proof. intros [L G]. split; auto. Qed.

Lemma modonly_nil h h' : modonly [] h h' -> ext h h'.
Proof. intros [L G]. split; auto. Qed.

Lemma modonly_upd h c o : modonly [c] h (upd h c o).
Proof.
  split; [rewrite length_upd; auto|]. intros l Hl Hn.
  apply get_upd_other. intros ->. apply Hn. left; auto.
Qed.

(* tags: objects with tag >= 4 (clusters, states) are the only ones that are ever overwritten
   by the operations on an existing state *)
Definition tag (o : obj) : nat :=
  match o with
  | OList _ => 0 | OArr _ => 1 | ORefs _ => 2 | OArgs _ _ _ _ => 3
  | OCluster _ _ _ _ _ _ _ => 4 | OState _ _ _ _ _ => 5
  end.

Definition mut (h : heap) (S : list loc) : Prop :=
  forall x, In x S -> exists o, get h x = Some o /\ 4 <= tag o.

Lemma modonly_imm S h h' l o :
  modonly S h h' -> mut h S -> get h l = Some o -> tag o < 4 -> get h' l = Some o.
Proof.
  intros [L G] HM Hl Ht. rewrite G; auto.
  - eapply get_lt; eauto.
  - intros Hin. destruct (HM l Hin) as [o' [Ho' Ht']]. rewrite Hl in Ho'.
    inversion Ho'; subst. lia.
Qed.

Lemma modonly_keep S h h' l o :
  modonly S h h' -> ~ In l S -> get h l = Some o -> get h' l = Some o.
Proof. intros [L G] Hn Hl. rewrite G; auto. eapply get_lt; eauto. Qed.

Lemma mut_app h S1 S2 : mut h S1 -> mut h S2 -> mut h (S1 ++ S2).
Proof. intros H1 H2 x Hx. apply in_app_or in Hx. destruct Hx; auto. Qed.

(* ------------------------------------------------------------------ *)
(* clusters                                                            *)
(* ------------------------------------------------------------------ *)

Definition clus (h : heap) (c : loc) (ms : list nat) : Prop :=
  exists mem ec mean ti cc ic ld,
    get h c = Some (OCluster mem ec mean ti cc ic ld) /\ get h mem = Some (OList ms).

Definition isclus (h : heap) (c : loc) : Prop := exists ms, clus h c ms.

Lemma clus_members h c ms : clus h c ms -> cluster_members h c = ms.
Proof.
  intros (mem & ec & mean & ti & cc & ic & ld & Hc & Hm).
  unfold cluster_members, get_list. rewrite Hc, Hm. reflexivity.
Qed.

Lemma clus_fun h c ms ms' : clus h c ms -> clus h c ms' -> ms = ms'.
Proof. intros H1 H2. apply clus_members in H1, H2. congruence. Qed.

Lemma clus_ext h h' c ms : ext h h' -> clus h c ms -> clus h' c ms.
Proof.
  intros HE (mem & ec & mean & ti & cc & ic & ld & Hc & Hm).
  exists mem, ec, mean, ti, cc, ic, ld. split; eapply ext_get; eauto.
Qed.

Lemma clus_mut h c ms : clus h c ms -> mut h [c].
Proof.
  intros (mem & ec & mean & ti & cc & ic & ld & Hc & Hm) x [<-|[]].
  eexists; split; [exact Hc|cbn; lia].
Qed.

Lemma isclus_mut h cs : (forall c, In c cs -> isclus h c) -> mut h cs.
Proof.
  intros H x Hx. destruct (H x Hx) as [ms Hc].
  apply (clus_mut _ _ _ Hc). left; auto.
Qed.

Lemma clus_modonly S h h' c ms :
  modonly S h h' -> mut h S -> ~ In c S -> clus h c ms -> clus h' c ms.
Proof.
  intros HM HS Hn (mem & ec & mean & ti & cc & ic & ld & Hc & Hm).
  exists mem, ec, mean, ti, cc, ic, ld. split.
  - eapply modonly_keep; eauto.
  - eapply modonly_imm; eauto. cbn; lia.
Qed.

(* rewriting a cluster slot without changing its member-list pointer *)
Lemma upd_cluster_clus h c ml e1 e2 e3 e4 e5 e6 f1 f2 f3 f4 f5 f6 x ms :
  get h c = Some (OCluster ml e1 e2 e3 e4 e5 e6) -> clus h x ms ->
  clus (upd h c (OCluster ml f1 f2 f3 f4 f5 f6)) x ms.
Proof.
  intros Hc (mem & ec & mean & ti & cc & ic & ld & Hx & Hm).
  assert (Hmc : mem <> c) by (intros ->; rewrite Hc in Hm; discriminate).
  destruct (Nat.eq_dec x c) as [->|Hxc].
  - rewrite Hc in Hx. inversion Hx; subst.
    exists mem, f1, f2, f3, f4, f5, f6. split.
    + apply get_upd_same. eapply get_lt; eauto.
    + rewrite get_upd_other; auto.
  - exists mem, ec, mean, ti, cc, ic, ld. split; rewrite get_upd_other; auto.
Qed.

Lemma list_eqb_eq a : forall b, list_eqb a b = true <-> a = b.
Proof.
  induction a as [|x a IH]; intros [|y b]; cbn; split; intros H; try discriminate; auto.
  - apply andb_true_iff in H. destruct H as [H1 H2]. apply Nat.eqb_eq in H1.
    apply IH in H2. congruence.
  - inversion H; subst. rewrite Nat.eqb_refl. cbn. apply IH. reflexivity.
Qed.

Lemma positions_nil k : positions [] k = [].
Proof. reflexivity. Qed.

Lemma alloc_upd h c o o' : c < length h ->
  modonly [c] h (upd (h ++ [o]) c o') /\
  get (upd (h ++ [o]) c o') c = Some o' /\
  get (upd (h ++ [o]) c o') (length h) = Some o.
Proof.
  intros Hc. split; [|split].
  - split; [rewrite length_upd, app_length; lia|].
    intros l Hl Hn. rewrite get_upd_other, get_app_old; auto.
    intros ->. apply Hn; left; auto.
  - apply get_upd_same. rewrite app_length; lia.
  - rewrite get_upd_other by lia. apply get_app_new.
Qed.

Lemma set_members_spec h c new mem ec mean ti cc ic ld ms :
  get h c = Some (OCluster mem ec mean ti cc ic ld) -> get h mem = Some (OList ms) ->
  modonly [c] h (set_members h c new) /\
  exists mem', get (set_members h c new) c = Some (OCluster mem' ec mean ti cc ic ld) /\
               get (set_members h c new) mem' = Some (OList new).
Proof.
  intros Hc Hm. unfold set_members. rewrite Hc.
  pose proof (get_lt _ _ _ Hc) as Hlt.
  destruct (length new =? 0) eqn:E0.
  - apply Nat.eqb_eq in E0. destruct new; [|discriminate].
    unfold alloc. cbv beta iota.
    destruct (alloc_upd h c (OList []) (OCluster (length h) ec mean ti cc ic ld) Hlt) as (A & B & C).
    split; auto. eauto.
  - destruct (list_eqb new (get_list h mem)) eqn:E1.
    + apply list_eqb_eq in E1. unfold get_list in E1. rewrite Hm in E1. subst new.
      split; [apply modonly_refl|]. eauto.
    + unfold alloc. cbv beta iota.
      destruct (alloc_upd h c (OList new) (OCluster (length h) ec mean ti cc ic ld) Hlt) as (A & B & C).
      split; auto. eauto.
Qed.

Lemma set_members_clus h c new : isclus h c ->
  modonly [c] h (set_members h c new) /\ clus (set_members h c new) c new.
Proof.
  intros [ms (mem & ec & mean & ti & cc & ic & ld & Hc & Hm)].
  destruct (set_members_spec h c new _ _ _ _ _ _ _ _ Hc Hm) as [A (mem' & B & C)].
  split; auto. exists mem', ec, mean, ti, cc, ic, ld. auto.
Qed.

Lemma isclus_modonly S h h' c :
  modonly S h h' -> mut h S -> ~ In c S -> isclus h c -> isclus h' c.
Proof. intros A B C [ms D]. exists ms. eapply clus_modonly; eauto. Qed.

Lemma update_membership_spec labels : forall cs h k,
  NoDup cs -> (forall c, In c cs -> isclus h c) ->
  modonly cs h (update_membership h cs labels k) /\
  forall i c, nth_error cs i = Some c ->
              clus (update_membership h cs labels k) c (positions labels (k + i)).
Proof.
  induction cs as [|c r IH]; intros h k Hnd Hcl; cbn [update_membership].
  - split; [apply modonly_refl|]. intros [|i] c H; discriminate.
  - inversion Hnd as [|? ? Hnin Hnd']; subst.
    destruct (set_members_clus h c (positions labels k) (Hcl c (in_eq _ _))) as [HM HC].
    set (h1 := set_members h c (positions labels k)) in *.
    assert (Hmc : mut h [c]).
    { destruct (Hcl c (in_eq _ _)) as [ms Hx]. eapply clus_mut; eauto. }
    assert (Hcl1 : forall x, In x r -> isclus h1 x).
    { intros x Hx. eapply isclus_modonly; eauto.
      - intros [->|[]]. contradiction.
      - apply Hcl. right; auto. }
    destruct (IH h1 (S k) Hnd' Hcl1) as [HM' HC'].
    split.
    + eapply modonly_trans.
      * eapply modonly_incl; [|exact HM]. intros x [<-|[]]. left; auto.
      * eapply modonly_incl; [|exact HM']. intros x Hx. right; auto.
    + intros [|i] x Hx; cbn in Hx.
      * inversion Hx; subst x. rewrite Nat.add_0_r.
        eapply clus_modonly; eauto. apply isclus_mut; auto.
      * replace (k + S i) with (S k + i) by lia. auto.
Qed.

Lemma clear_membership_spec : forall cs h,
  NoDup cs -> (forall c, In c cs -> isclus h c) ->
  modonly cs h (clear_membership h cs) /\
  forall c, In c cs -> clus (clear_membership h cs) c [].
Proof.
  induction cs as [|c r IH]; intros h Hnd Hcl; cbn [clear_membership].
  - split; [apply modonly_refl|]. intros c [].
  - inversion Hnd as [|? ? Hnin Hnd']; subst.
    destruct (set_members_clus h c [] (Hcl c (in_eq _ _))) as [HM HC].
    set (h1 := set_members h c []) in *.
    assert (Hmc : mut h [c]).
    { destruct (Hcl c (in_eq _ _)) as [ms Hx]. eapply clus_mut; eauto. }
    assert (Hcl1 : forall x, In x r -> isclus h1 x).
    { intros x Hx. eapply isclus_modonly; eauto.
      - intros [->|[]]. contradiction.
      - apply Hcl. right; auto. }
    destruct (IH h1 Hnd' Hcl1) as [HM' HC'].
    split.
    + eapply modonly_trans.
      * eapply modonly_incl; [|exact HM]. intros x [<-|[]]. left; auto.
      * eapply modonly_incl; [|exact HM']. intros x Hx. right; auto.
    + intros x [<-|Hx]; auto.
      eapply clus_modonly; eauto. apply isclus_mut; auto.
Qed.
