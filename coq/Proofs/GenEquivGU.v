(* Second tie, skeleton mode: the remaining glue (splitting of a joint result, ADMM entry point and X step, worker pool) AS TRANSLATED from /repo's working tree
   (Gen/G_*.v, regenerated on every run; every callee an uninterpreted oracle asked after the call is logged): which calls a
   returning run made, in which order, on which values.  Closed under the global context. *)
From Coq Require Import String ZArith List Bool Lia Arith.
From Ticc Require Import Gen.PyRt Gen.PySkel Gen.G_front_split Gen.G_admm_front Gen.G_admm_x Gen.G_pool .
Import ListNotations.
Local Open Scope string_scope.

Section E.
  Variable V : Type.
  Variable vnone : V.
  Variable vint : Z -> V.
  Variable as_int : V -> option Z.
  Variable veq : V -> V -> bool.
  Variable getattr : V -> string -> V.
  Variable truthy : V -> bool.
  Variable is_none : V -> bool.
  Variables vtrue vfalse : V.
  Variable as_list : V -> list V.
  Variable vglobal : string -> V.
  Variable oracle : list (event V) -> string -> list V -> res V.

  Definition f_split := "data_preparation.split_joint_labels".
  Definition f_pad := "data_preparation.pad_missing_labels".
  Definition f_multi := "results.MultipleDataSeriesResult(bayesian_information_criterion=,calinski_harabasz_index=,label_assignment_cost=,point_labels=,markov_random_fields=,num_clusters=,window_size=,all_log_likelihood=,overall_log_likelihood=,overall_log_likelihood_mean=,overall_log_likelihood_median=,cluster_log_likelihood_mean=,cluster_log_likelihood_median=)".
  Definition f_admm_args := "arguments.ADMMArguments(window_size=,num_data_series=,rho=,rho_update=,sparsity_weight=,absolute_tolerance=,relative_tolerance=,max_iterations=,verbose=)".
  Definition f_run_admm := "solver.run_admm_optimization".
  Definition f_admm_result := "results.ADMMResult(theta=)".
  Definition f_reinflate := "matrix_compression.reinflate_matrix".
  Definition f_envkey := "expr:'CUPCAKE_ENABLE_MULTIPROCESSING'".
  Definition f_envget := "os.environ.get".
  Definition f_pool := "multiprocessing.Pool(processes=)".

  (* ---------------------------------------------------------------- the monad, one step at a time *)

  Lemma bind_call : forall (B : Type) (f : string) (a : list V) (k : V -> M V B) (log : list (event V)),
    mbind (call oracle f a) k log
    = match oracle log f a with
      | Ret v => k v (log ++ [Ev f a])%list
      | Raise e => (Raise e, (log ++ [Ev f a])%list)
      end.
  Proof.
    intros B f a k log. unfold mbind, call.
    destruct (oracle log f a) as [v|e]; reflexivity.
  Qed.

  Lemma bind_ret : forall (A B : Type) (a : A) (k : A -> M V B) (log : list (event V)),
    mbind (mret a) k log = k a log.
  Proof. intros A B a k log. reflexivity. Qed.

  Lemma snoc2 : forall (A : Type) (l : list A) (a : A) (t : list A), ((l ++ [a]) ++ t = l ++ a :: t)%list.
  Proof. intros A l a t. rewrite <- app_assoc. reflexivity. Qed.

  Lemma ret_inj : forall (A L : Type) (a b : A) (l1 l2 : L), (Ret a, l1) = (Ret b, l2) -> a = b /\ l1 = l2.
  Proof. intros A L a b l1 l2 H. inversion H. split; reflexivity. Qed.

  Lemma mbind_ret_inv : forall (A B : Type) (m : M V A) (k : A -> M V B) (log log' : list (event V)) (b : B),
    mbind m k log = (Ret b, log') -> exists a l1, m log = (Ret a, l1) /\ k a l1 = (Ret b, log').
  Proof.
    intros A B m k log log' b H. unfold mbind in H.
    destruct (m log) as [[a|e] l1] eqn:Hm.
    - exists a, l1. split; [reflexivity|exact H].
    - discriminate H.
  Qed.

  Ltac step H v e Heq :=
    rewrite bind_call in H;
    match type of H with
    | match ?o with _ => _ end = _ => destruct o as [v|e] eqn:Heq; [|discriminate H]
    end.

  (* ================================================================ A. front_end._split_combined_result *)

  (* the five calls made for the pair p = (i, label_set) of the enumeration: pad the part for the master result's window size,
     append it to the accumulator, read the accumulator's last element back, take its length, fetch series i *)
  Definition split_block (master acc data p padded lastv : V) : list (event V) :=
    [Ev f_pad [getattr p "[1]"; getattr master "window_size"];
     Ev "method:append" [acc; padded];
     Ev "getitem" [acc; vint (-1)];
     Ev "len" [lastv];
     Ev "getitem" [data; getattr p "[0]"]].

  (* the body of the loop, as generated *)
  Definition split_body (master acc data : V) : unit -> V -> M V unit := fun _ t4_ =>
    t5_ <<- call oracle "data_preparation.pad_missing_labels" [getattr t4_ "[1]"; getattr master "window_size"] ;;
    t6_ <<- call oracle "method:append" [acc; t5_] ;;
    t7_ <<- call oracle "getitem" [acc; vint (-1)] ;;
    t8_ <<- call oracle "len" [t7_] ;;
    t9_ <<- call oracle "getitem" [data; getattr t4_ "[0]"] ;;
    if veq t8_ (getattr (getattr t9_ "shape") "[0]") then mret tt else mraise "AssertionError".

  (* what is known of iteration k of the loop whose events are [evs], started with the log [pre], on the pair p *)
  Definition split_iter (master acc data : V) (pre evs : list (event V)) (k : nat) (p : V) : Prop :=
    exists padded appended lastv n series,
      firstn 5 (skipn (5 * k) evs) = split_block master acc data p padded lastv /\
      oracle (pre ++ firstn (5 * k) evs) f_pad [getattr p "[1]"; getattr master "window_size"] = Ret padded /\
      oracle (pre ++ firstn (5 * k + 1) evs) "method:append" [acc; padded] = Ret appended /\
      oracle (pre ++ firstn (5 * k + 2) evs) "getitem" [acc; vint (-1)] = Ret lastv /\
      oracle (pre ++ firstn (5 * k + 3) evs) "len" [lastv] = Ret n /\
      oracle (pre ++ firstn (5 * k + 4) evs) "getitem" [data; getattr p "[0]"] = Ret series /\
      veq n (getattr (getattr series "shape") "[0]") = true.

  Lemma split_body_inv (master acc data p : V) (u u' : unit) (log0 log1 : list (event V)) :
    split_body master acc data u p log0 = (Ret u', log1) ->
    exists padded appended lastv n series,
      log1 = (log0 ++ split_block master acc data p padded lastv)%list /\
      oracle log0 f_pad [getattr p "[1]"; getattr master "window_size"] = Ret padded /\
      oracle (log0 ++ firstn 1 (split_block master acc data p padded lastv)) "method:append" [acc; padded] = Ret appended /\
      oracle (log0 ++ firstn 2 (split_block master acc data p padded lastv)) "getitem" [acc; vint (-1)] = Ret lastv /\
      oracle (log0 ++ firstn 3 (split_block master acc data p padded lastv)) "len" [lastv] = Ret n /\
      oracle (log0 ++ firstn 4 (split_block master acc data p padded lastv)) "getitem" [data; getattr p "[0]"] = Ret series /\
      veq n (getattr (getattr series "shape") "[0]") = true.
  Proof.
    unfold split_body. intros H.
    step H padded e1 Hpad.
    step H appended e2 Happ.
    step H lastv e3 Hlast.
    step H n e4 Hn.
    step H series e5 Hser.
    destruct (veq n (getattr (getattr series "shape") "[0]")) eqn:Hveq.
    2:{ unfold mraise in H. discriminate H. }
    unfold mret in H. apply ret_inj in H. destruct H as [_ Hlog].
    exists padded, appended, lastv, n, series.
    unfold split_block, f_pad. cbn [firstn].
    rewrite !snoc2 in *.
    split; [symmetry; exact Hlog|].
    split; [exact Hpad|]. split; [exact Happ|]. split; [exact Hlast|]. split; [exact Hn|].
    split; [exact Hser|exact Hveq].
  Qed.

  Lemma split_loop (master acc data : V) : forall (xs : list V) (u u' : unit) (log0 log1 : list (event V)),
    for_each (split_body master acc data) xs u log0 = (Ret u', log1) ->
    exists evs,
      log1 = (log0 ++ evs)%list /\ length evs = (5 * length xs)%nat /\
      (forall k, (k < length xs)%nat -> split_iter master acc data log0 evs k (nth k xs vnone)).
  Proof.
    induction xs as [|p xs IH]; intros u u' log0 log1 H.
    - cbn [for_each] in H. unfold mret in H. apply ret_inj in H. destruct H as [_ Hlog].
      exists []. split; [rewrite app_nil_r; symmetry; exact Hlog|]. split; [reflexivity|].
      intros k Hk. cbn [length] in Hk. lia.
    - cbn [for_each] in H. apply mbind_ret_inv in H. destruct H as (u1 & l1 & Hbody & Hrest).
      apply split_body_inv in Hbody.
      destruct Hbody as (padded & appended & lastv & n & series & Hl1 & Hpad & Happ & Hlast & Hn & Hser & Hveq).
      apply IH in Hrest. destruct Hrest as (evs' & Hlog & Hlen & Hit).
      exists (split_block master acc data p padded lastv ++ evs')%list.
      split; [rewrite Hlog, Hl1; rewrite <- app_assoc; reflexivity|].
      split; [rewrite app_length, Hlen; unfold split_block; cbn [length]; lia|].
      intros k Hk. destruct k as [|j].
      + exists padded, appended, lastv, n, series.
        cbn [nth]. unfold split_block in *. cbn [Nat.mul Nat.add skipn firstn app] in *.
        rewrite app_nil_r.
        split; [reflexivity|]. split; [exact Hpad|]. split; [exact Happ|]. split; [exact Hlast|].
        split; [exact Hn|]. split; [exact Hser|exact Hveq].
      + assert (Hj : (j < length xs)%nat) by (cbn [length] in Hk; lia).
        destruct (Hit j Hj) as (padded' & appended' & lastv' & n' & series' & Hb & Hp' & Ha' & Hl' & Hn' & Hs' & Hv').
        exists padded', appended', lastv', n', series'.
        cbn [nth].
        replace (5 * S j)%nat with (S (S (S (S (S (5 * j)))))) by lia.
        rewrite Hl1 in Hp', Ha', Hl', Hn', Hs'. rewrite <- app_assoc in Hp', Ha', Hl', Hn', Hs'.
        unfold split_block in *. cbn [Nat.add skipn firstn app] in *.
        split; [exact Hb|]. split; [exact Hp'|]. split; [exact Ha'|]. split; [exact Hl'|].
        split; [exact Hn'|]. split; [exact Hs'|exact Hv'].
  Qed.

  (* a call that returns split the master result's joint labels by the caller's sizes, made an empty list, enumerated the
     parts, and for each pair (i, part) of the enumeration IN ORDER padded the part for the MASTER result's window size,
     appended it to the list, read the list's last element back, took its length and fetched series i - and that length
     was equal to that series' shape[0] -; then it built the joint result from the master result's own fields, with the
     list in the point_labels position; and it made no other call *)
  Theorem split_returns (master_result stacked_data_sizes data_series r : V) (log log' : list (event V)) :
    g_split_combined_result V vint veq getattr as_list oracle master_result stacked_data_sizes data_series log = (Ret r, log') ->
    exists parts acc en evs,
      let pre := (log ++ [Ev f_split [getattr master_result "point_labels"; stacked_data_sizes];
                          Ev "expr:[]" [];
                          Ev "enumerate" [parts]])%list in
      let ctor_args := [getattr master_result "bayesian_information_criterion";
                        getattr master_result "calinski_harabasz_index";
                        getattr master_result "label_assignment_cost";
                        acc;
                        getattr master_result "markov_random_fields";
                        getattr master_result "num_clusters";
                        getattr master_result "window_size";
                        getattr master_result "all_log_likelihood";
                        getattr master_result "overall_log_likelihood";
                        getattr master_result "overall_log_likelihood_mean";
                        getattr master_result "overall_log_likelihood_median";
                        getattr master_result "cluster_log_likelihood_mean";
                        getattr master_result "cluster_log_likelihood_median"] in
      log' = (pre ++ evs ++ [Ev f_multi ctor_args])%list /\
      length evs = (5 * length (as_list en))%nat /\
      (forall k, (k < length (as_list en))%nat ->
         split_iter master_result acc data_series pre evs k (nth k (as_list en) vnone)) /\
      oracle log f_split [getattr master_result "point_labels"; stacked_data_sizes] = Ret parts /\
      oracle (log ++ [Ev f_split [getattr master_result "point_labels"; stacked_data_sizes]]) "expr:[]" [] = Ret acc /\
      oracle (log ++ [Ev f_split [getattr master_result "point_labels"; stacked_data_sizes]; Ev "expr:[]" []])
             "enumerate" [parts] = Ret en /\
      oracle (pre ++ evs) f_multi ctor_args = Ret r.
  Proof.
    intros Hrun.
    unfold g_split_combined_result in Hrun.
    step Hrun parts e1 Hparts.
    step Hrun acc e2 Hacc.
    step Hrun en e3 Hen.
    rewrite !snoc2 in Hen. rewrite !snoc2 in Hrun.
    apply mbind_ret_inv in Hrun. destruct Hrun as (u & l1 & Hloop & Hrest).
    match type of Hloop with
    | for_each _ _ _ ?l = _ =>
      change (for_each (split_body master_result acc data_series) (as_list en) tt l = (Ret u, l1)) in Hloop
    end.
    apply split_loop in Hloop. destruct Hloop as (evs & Hl1 & Hlen & Hit).
    step Hrest robj e4 Hres.
    unfold mret in Hrest. apply ret_inj in Hrest. destruct Hrest as [Hr Hlog].
    exists parts, acc, en, evs. cbv zeta.
    unfold f_split, f_multi.
    split; [rewrite <- Hlog, Hl1; symmetry; apply app_assoc|].
    split; [exact Hlen|].
    split; [exact Hit|].
    split; [exact Hparts|]. split; [exact Hacc|]. split; [exact Hen|].
    rewrite <- Hr, <- Hl1. first [exact Hres | reflexivity].
  Qed.

  (* ================================================================ B. admm/front_end.admm_optimize_theta *)

  (* a call that returns bundled exactly the caller's parameters (absolute tolerance in the absolute slot, relative in the
     relative slot), gave that bundle and the caller's covariance to the solver, and returned the solver's answer wrapped *)
  Theorem admm_front_returns
      (empirical_covariance sparsity_weight window_size num_data_series rho rho_update max_iterations
       absolute_tolerance relative_tolerance verbose r : V) (log log' : list (event V)) :
    g_admm_optimize_theta V oracle empirical_covariance sparsity_weight window_size num_data_series rho rho_update
                          max_iterations absolute_tolerance relative_tolerance verbose log = (Ret r, log') ->
    exists args theta,
      let e_args := Ev f_admm_args [window_size; num_data_series; rho; rho_update; sparsity_weight;
                                    absolute_tolerance; relative_tolerance; max_iterations; verbose] in
      log' = (log ++ [e_args; Ev f_run_admm [args; empirical_covariance]; Ev f_admm_result [theta]])%list /\
      oracle log f_admm_args [window_size; num_data_series; rho; rho_update; sparsity_weight;
                              absolute_tolerance; relative_tolerance; max_iterations; verbose] = Ret args /\
      oracle (log ++ [e_args]) f_run_admm [args; empirical_covariance] = Ret theta /\
      oracle (log ++ [e_args; Ev f_run_admm [args; empirical_covariance]]) f_admm_result [theta] = Ret r.
  Proof.
    intros Hrun.
    unfold g_admm_optimize_theta in Hrun.
    step Hrun args e1 Hargs.
    step Hrun theta e2 Htheta.
    step Hrun robj e3 Hres.
    unfold mret in Hrun. apply ret_inj in Hrun. destruct Hrun as [Hr Hlog].
    rewrite !snoc2 in *.
    exists args, theta. cbv zeta. unfold f_admm_args, f_run_admm, f_admm_result.
    split; [symmetry; exact Hlog|].
    split; [first [exact Hargs | reflexivity]|]. split; [first [exact Htheta | reflexivity]|].
    rewrite <- Hr. first [exact Hres | reflexivity].
  Qed.

  (* ================================================================ C. admm/solver.admm_update_x *)

  (* a call that returns subtracted u from z, re-inflated THAT difference, and returned the proximal step of the caller's
     covariance, that full matrix and the argument bundle's rho *)
  Theorem admm_x_returns (args u z empirical_covariance r : V) (log log' : list (event V)) :
    g_admm_update_x V getattr oracle args u z empirical_covariance log = (Ret r, log') ->
    exists d full,
      log' = (log ++ [Ev "op:-" [z; u]; Ev f_reinflate [d];
                      Ev "x_update_prox" [empirical_covariance; full; getattr args "rho"]])%list /\
      oracle log "op:-" [z; u] = Ret d /\
      oracle (log ++ [Ev "op:-" [z; u]]) f_reinflate [d] = Ret full /\
      oracle (log ++ [Ev "op:-" [z; u]; Ev f_reinflate [d]])
             "x_update_prox" [empirical_covariance; full; getattr args "rho"] = Ret r.
  Proof.
    intros Hrun.
    unfold g_admm_update_x in Hrun.
    step Hrun d e1 Hd.
    step Hrun full e2 Hfull.
    step Hrun robj e3 Hres.
    unfold mret in Hrun. apply ret_inj in Hrun. destruct Hrun as [Hr Hlog].
    rewrite !snoc2 in *.
    exists d, full. unfold f_reinflate.
    split; [symmetry; exact Hlog|].
    split; [first [exact Hd | reflexivity]|]. split; [first [exact Hfull | reflexivity]|].
    rewrite <- Hr. first [exact Hres | reflexivity].
  Qed.

  (* ================================================================ D. main_loop._init_task_pool *)

  (* a call that returns read the environment variable (default None); if it is unset the pool has exactly one process;
     if it is set, its length was taken (an integer n), and the pool has the caller's process count when n > 0 and exactly
     one process otherwise; what is returned is the pool call's answer *)
  Theorem pool_returns (num_processes r : V) (log log' : list (event V)) :
    g_init_task_pool V vnone vint as_int is_none oracle num_processes log = (Ret r, log') ->
    exists key env,
      let pre := (log ++ [Ev f_envkey []; Ev f_envget [key; vnone]])%list in
      oracle log f_envkey [] = Ret key /\
      oracle (log ++ [Ev f_envkey []]) f_envget [key; vnone] = Ret env /\
      if is_none env
      then log' = (pre ++ [Ev f_pool [vint 1]])%list /\
           oracle pre f_pool [vint 1] = Ret r
      else exists lenv n,
           oracle pre "len" [env] = Ret lenv /\ as_int lenv = Some n /\
           let p := if (n >? 0)%Z then num_processes else vint 1 in
           log' = (pre ++ [Ev "len" [env]; Ev f_pool [p]])%list /\
           oracle (pre ++ [Ev "len" [env]]) f_pool [p] = Ret r.
  Proof.
    intros Hrun.
    unfold g_init_task_pool in Hrun.
    step Hrun key e1 Hkey.
    step Hrun env e2 Henv.
    rewrite !snoc2 in *.
    exists key, env. cbv zeta. unfold f_envkey, f_envget, f_pool.
    split; [first [exact Hkey | reflexivity]|]. split; [first [exact Henv | reflexivity]|].
    destruct (is_none env) eqn:Hnone; cbn [negb] in Hrun.
    - rewrite !bind_ret in Hrun.
      step Hrun robj e3 Hres.
      unfold mret in Hrun. apply ret_inj in Hrun. destruct Hrun as [Hr Hlog].
      split; [symmetry; exact Hlog|].
      rewrite <- Hr. first [exact Hres | reflexivity].
    - apply mbind_ret_inv in Hrun. destruct Hrun as (b & l1 & Hcond & Hrest).
      step Hcond lenv e3 Hlen.
      unfold need_int in Hcond.
      destruct (as_int lenv) as [n|] eqn:Hint.
      2:{ unfold mbind, mraise in Hcond. discriminate Hcond. }
      rewrite bind_ret in Hcond. unfold mret in Hcond. apply ret_inj in Hcond. destruct Hcond as [Hb Hl1].
      exists lenv, n.
      split; [first [exact Hlen | reflexivity]|]. split; [first [exact Hint | reflexivity]|].
      rewrite <- Hb in Hrest. rewrite <- Hl1 in Hrest.
      destruct (n >? 0)%Z; rewrite !bind_ret in Hrest;
        step Hrest robj e4 Hres;
        unfold mret in Hrest; apply ret_inj in Hrest; destruct Hrest as [Hr Hlog];
        rewrite snoc2 in Hlog;
        (split; [symmetry; exact Hlog|rewrite <- Hr; first [exact Hres | reflexivity]]).
  Qed.

  (* the two readings of [pool_returns] *)
  Corollary pool_returns_unset_or_empty (num_processes r : V) (log log' : list (event V)) :
    g_init_task_pool V vnone vint as_int is_none oracle num_processes log = (Ret r, log') ->
    exists key env, oracle log f_envkey [] = Ret key /\
      oracle (log ++ [Ev f_envkey []]) f_envget [key; vnone] = Ret env /\
      (is_none env = true \/ (exists lenv n, as_int lenv = Some n /\ (n <= 0)%Z /\
          oracle (log ++ [Ev f_envkey []; Ev f_envget [key; vnone]]) "len" [env] = Ret lenv) ->
       exists mid, log' = (log ++ [Ev f_envkey []; Ev f_envget [key; vnone]] ++ mid ++ [Ev f_pool [vint 1]])%list /\
                   (mid = [] \/ mid = [Ev "len" [env]])).
  Proof.
    intros Hrun. apply pool_returns in Hrun. destruct Hrun as (key & env & Hkey & Henv & Hbr).
    exists key, env. split; [exact Hkey|]. split; [exact Henv|].
    intros Hcase. destruct (is_none env) eqn:Hnone.
    - destruct Hbr as [Hlog _]. exists []. split; [rewrite Hlog, <- app_assoc; reflexivity|left; reflexivity].
    - destruct Hcase as [Habs|(lenv' & n' & Hint' & Hle & Hlen')]; [discriminate Habs|].
      destruct Hbr as (lenv & n & Hlen & Hint & Hlog & _).
      rewrite Hlen' in Hlen. injection Hlen as Hlenv. subst lenv'.
      rewrite Hint' in Hint. injection Hint as Hn. subst n'.
      assert (Hgt : (n >? 0)%Z = false) by (rewrite Z.gtb_ltb; apply Z.ltb_ge; exact Hle).
      rewrite Hgt in Hlog.
      exists [Ev "len" [env]]. split; [rewrite Hlog, <- app_assoc; reflexivity|right; reflexivity].
  Qed.

End E.

(* ---------------------------------------------------------------- the statements are not vacuous *)

Example split_returns_nonvacuous :
  exists r log',
    g_split_combined_result Z (fun z => z) (fun _ _ => true) (fun v _ => v) (fun _ => [1%Z; 2%Z]) (fun _ _ _ => Ret 7%Z)
                            3%Z 4%Z 5%Z [] = (Ret r, log') /\ length log' = 14%nat.
Proof. eexists. eexists. vm_compute. split; reflexivity. Qed.

Example admm_front_returns_nonvacuous :
  exists r log',
    g_admm_optimize_theta Z (fun _ _ _ => Ret 7%Z) 1%Z 2%Z 3%Z 4%Z 5%Z 6%Z 7%Z 8%Z 9%Z 10%Z [] = (Ret r, log').
Proof. eexists. eexists. vm_compute. reflexivity. Qed.

Example admm_x_returns_nonvacuous :
  exists r log', g_admm_update_x Z (fun v _ => v) (fun _ _ _ => Ret 7%Z) 1%Z 2%Z 3%Z 4%Z [] = (Ret r, log').
Proof. eexists. eexists. vm_compute. reflexivity. Qed.

(* the three returning paths of _init_task_pool: variable unset; set and non-empty; set and empty *)
Example pool_returns_nonvacuous :
  (exists r log', g_init_task_pool Z 0%Z (fun z => z) (fun z => Some z) (fun _ => true) (fun _ _ _ => Ret 7%Z) 4%Z []
                  = (Ret r, log') /\ length log' = 3%nat) /\
  (exists r log', g_init_task_pool Z 0%Z (fun z => z) (fun z => Some z) (fun _ => false) (fun _ _ _ => Ret 7%Z) 4%Z []
                  = (Ret r, log') /\ nth 3 log' (Ev "" []) = Ev "multiprocessing.Pool(processes=)" [4%Z]) /\
  (exists r log', g_init_task_pool Z 0%Z (fun z => z) (fun z => Some z) (fun _ => false) (fun _ _ _ => Ret 0%Z) 4%Z []
                  = (Ret r, log') /\ nth 3 log' (Ev "" []) = Ev "multiprocessing.Pool(processes=)" [1%Z]).
Proof.
  split; [|split]; eexists; eexists; vm_compute; split; reflexivity.
Qed.

Print Assumptions split_returns.
Print Assumptions admm_front_returns.
Print Assumptions admm_x_returns.
Print Assumptions pool_returns.
Print Assumptions pool_returns_unset_or_empty.
