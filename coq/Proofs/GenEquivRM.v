(* Second tie, skeleton mode: the rest of the library (property getters, argument printer, Numba guard, observation hooks) AS TRANSLATED from /repo's working tree
   (Gen/G_*.v, regenerated on every run; every callee an uninterpreted oracle): which calls a
   returning run made, in which order, on which values.  Closed under the global context. *)
From Coq Require Import String ZArith List Bool Lia Arith.
From Ticc Require Import Gen.PyRt Gen.PySkel Gen.G_cp_size Gen.G_cp_members Gen.G_st_labels Gen.G_ua_print Gen.G_ng_prange Gen.G_ng_njit Gen.G_ng_noop Gen.G_vh_emit Gen.G_vh_add Gen.G_vh_clear .
Import ListNotations.
Local Open Scope string_scope.

Section E.
  Variable V : Type.
  Variable vnone : V.
  Variable vint : Z -> V.
  Variable as_int : V -> option Z.
  Variable veq : V -> V -> bool.
  Variable getattr : V -> string -> V.
  Variable truthy : V -> bool.
  Variable is_none : V -> bool.
  Variables vtrue vfalse : V.
  Variable as_list : V -> list V.
  Variable vglobal : string -> V.
  Variable oracle : list (event V) -> string -> list V -> res V.

  Definition f_mylog := "def:def my_log(description, value): print(f'    {description}: {value}', file=out)".
  Definition f_header := "expr:'TICC arguments:'".
  Definition f_wrapped := "def:def wrapped(*args, **kwargs): return func(*args, **kwargs)".
  Definition f_numba_prange := "expr:numba.prange(*args, **kwargs)".
  Definition f_range := "expr:range(*args, **kwargs)".
  Definition f_numba_njit := "expr:numba.njit(*args, **kwargs)".
  Definition f_clear := "del _LISTENERS[:]".

  (* ---------------------------------------------------------------- the monad, one step at a time *)

  Lemma bind_call : forall (B : Type) (f : string) (a : list V) (k : V -> M V B) (log : list (event V)),
    mbind (call oracle f a) k log
    = match oracle log f a with
      | Ret v => k v (log ++ [Ev f a])%list
      | Raise e => (Raise e, (log ++ [Ev f a])%list)
      end.
  Proof.
    intros B f a k log. unfold mbind, call.
    destruct (oracle log f a) as [v|e]; reflexivity.
  Qed.

  Lemma bind_ret : forall (A B : Type) (a : A) (k : A -> M V B) (log : list (event V)),
    mbind (mret a) k log = k a log.
  Proof. intros A B a k log. reflexivity. Qed.

  Lemma if_mret : forall (A : Type) (b : bool) (x y : A),
    (if b then mret x else mret y) = (mret (if b then x else y) : M V A).
  Proof. intros A b x y. destruct b; reflexivity. Qed.

  Lemma mbind_ret_inv : forall (A B : Type) (m : M V A) (k : A -> M V B) (log log' : list (event V)) (b : B),
    mbind m k log = (Ret b, log') -> exists a l1, m log = (Ret a, l1) /\ k a l1 = (Ret b, log').
  Proof.
    intros A B m k log log' b H. unfold mbind in H.
    destruct (m log) as [[a|e] l1] eqn:Hm.
    - exists a, l1. split; [reflexivity|exact H].
    - discriminate H.
  Qed.

  Lemma snoc2 : forall (A : Type) (l : list A) (a : A) (t : list A), ((l ++ [a]) ++ t = l ++ a :: t)%list.
  Proof. intros A l a t. rewrite <- app_assoc. reflexivity. Qed.

  Lemma ret_inj : forall (A L : Type) (a b : A) (l1 l2 : L), (Ret a, l1) = (Ret b, l2) -> a = b /\ l1 = l2.
  Proof. intros A L a b l1 l2 H. inversion H. split; reflexivity. Qed.

  (* one call: the oracle's answer is named, the raising case is discarded, and the log in H is kept flat *)
  Ltac step H v e Heq :=
    rewrite bind_call in H;
    match type of H with
    | match ?o with _ => _ end = _ => destruct o as [v|e] eqn:Heq; [|discriminate H]
    end;
    rewrite <- ?app_assoc in H; cbn [app] in H.

  (* the first call's equation may already have been substituted into the goal by `destruct ... eqn` *)
  Ltac by_eq H := first [exact H | reflexivity].

  (* ================================================================ A. the three property getters (containers/model_state.py) *)

  (* ClusterParameters.size: if the cluster's member_points is not None, exactly ONE call - len of THAT member_points - whose
     answer is returned; if it is None, no call at all and the integer 0 is returned *)
  Theorem size_getter_returns (self r : V) (log log' : list (event V)) :
    g_ClusterParameters_size_getter V vint getattr is_none oracle self log = (Ret r, log') ->
    if is_none (getattr self "member_points")
    then log' = log /\ r = vint 0
    else log' = (log ++ [Ev "len" [getattr self "member_points"]])%list /\
         oracle log "len" [getattr self "member_points"] = Ret r.
  Proof.
    intros Hrun. unfold g_ClusterParameters_size_getter in Hrun.
    destruct (is_none (getattr self "member_points")) eqn:Hnone; cbn [negb] in Hrun.
    - unfold mret in Hrun. apply ret_inj in Hrun. destruct Hrun as [Hr Hlog].
      split; [symmetry; exact Hlog|symmetry; exact Hr].
    - step Hrun v e1 Hlen.
      unfold mret in Hrun. apply ret_inj in Hrun. destruct Hrun as [Hr Hlog].
      split; [symmetry; exact Hlog|]. rewrite <- Hr. by_eq Hlen.
  Qed.

  (* ClusterParameters.member_points: no call; the stored list itself (attribute _member_points, not a copy) is returned *)
  Theorem members_getter_returns (self r : V) (log log' : list (event V)) :
    g_ClusterParameters_member_points_getter V getattr self log = (Ret r, log') ->
    log' = log /\ r = getattr self "_member_points".
  Proof.
    intros Hrun. unfold g_ClusterParameters_member_points_getter, mret in Hrun.
    apply ret_inj in Hrun. destruct Hrun as [Hr Hlog].
    split; [symmetry; exact Hlog|symmetry; exact Hr].
  Qed.

  (* ModelState.point_labels: no call; the stored labels themselves (attribute _point_labels, not a copy) are returned *)
  Theorem labels_getter_returns (self r : V) (log log' : list (event V)) :
    g_ModelState_point_labels_getter V getattr self log = (Ret r, log') ->
    log' = log /\ r = getattr self "_point_labels".
  Proof.
    intros Hrun. unfold g_ModelState_point_labels_getter, mret in Hrun.
    apply ret_inj in Hrun. destruct Hrun as [Hr Hlog].
    split; [symmetry; exact Hlog|symmetry; exact Hr].
  Qed.

  (* ================================================================ B. UserArguments.print (containers/arguments.py) *)

  (* the nine printed lines, in the order of the source: (the description literal, the field of self that is printed with it) *)
  Definition ua_print_fields : list (string * string) :=
    [("expr:'Sparsity weight parameter (lambda)'", "sparsity_weight");
     ("expr:'Iteration limit'", "iteration_limit");
     ("expr:'Label switching cost (beta)'", "label_switching_cost");
     ("expr:'Minimum cluster size'", "min_cluster_size");
     ("expr:'Minimum meaningful covariance'", "min_meaningful_covariance");
     ("expr:'Number of clusters'", "num_clusters");
     ("expr:'Number of tasks for parallel optimization'", "num_processors");
     ("expr:'Use biased covariance estimator'", "biased_covariance");
     ("expr:'TICC window size'", "window_size")].

  (* the stream everything is written to: the caller's, or sys.stdout when the caller gave None *)
  Definition print_stream (out : V) : V := if is_none out then vglobal "sys.stdout" else out.

  (* one printed line: the description literal is evaluated (answer d), then the closure is applied to d and self's field *)
  Definition print_pair (self my_log : V) (p : string * string) (d : V) : list (event V) :=
    [Ev (fst p) []; Ev "apply" [my_log; d; getattr self (snd p)]].

  Fixpoint print_pairs (self my_log : V) (ps : list (string * string)) (ds : list V) : list (event V) :=
    match ps, ds with
    | p :: ps', d :: ds' => (print_pair self my_log p d ++ print_pairs self my_log ps' ds')%list
    | _, _ => []
    end.

  (* all 21 calls: the closure over the stream (answer my_log), the header literal (answer h), print(h, file=stream), then the
     nine lines (ds the answers of the nine description literals) *)
  Definition print_events (self stream my_log h : V) (ds : list V) : list (event V) :=
    ([Ev f_mylog [stream]; Ev f_header []; Ev "print(file=)" [h; stream]]
     ++ print_pairs self my_log ua_print_fields ds)%list.

  (* a call that returns built the closure my_log over the stream (the caller's `out`, or sys.stdout if that is None), printed the
     header to THAT stream, and then for each of the nine fields, in the order of ua_print_fields, evaluated the description
     literal and applied THAT closure to (that literal's answer, self's field of that name); it made no other call - so it reads
     the nine fields and nothing else and writes only through print(file=stream) / the closure over that same stream - and
     returns None *)
  Theorem print_returns (self out r : V) (log log' : list (event V)) :
    g_UserArguments_print V vnone getattr is_none vglobal oracle self out log = (Ret r, log') ->
    exists my_log h ds,
      let evs := print_events self (print_stream out) my_log h ds in
      log' = (log ++ evs)%list /\
      length ds = 9%nat /\ length evs = 21%nat /\
      oracle log f_mylog [print_stream out] = Ret my_log /\
      oracle (log ++ firstn 1 evs)%list f_header [] = Ret h /\
      (exists a, oracle (log ++ firstn 2 evs)%list "print(file=)" [h; print_stream out] = Ret a) /\
      (forall k, (k < 9)%nat ->
         oracle (log ++ firstn (3 + 2 * k) evs)%list (fst (nth k ua_print_fields ("", ""))) [] = Ret (nth k ds vnone) /\
         exists a, oracle (log ++ firstn (4 + 2 * k) evs)%list "apply"
                          [my_log; nth k ds vnone; getattr self (snd (nth k ua_print_fields ("", "")))] = Ret a) /\
      r = vnone.
  Proof.
    intros Hrun. unfold g_UserArguments_print in Hrun. cbv zeta in Hrun.
    rewrite if_mret in Hrun. rewrite bind_ret in Hrun.
    change (if is_none out then vglobal "sys.stdout" else out) with (print_stream out) in Hrun.
    step Hrun my_log e0 Hclos.
    step Hrun h e1 Hhdr.
    step Hrun a0 e2 Hprint.
    step Hrun d1 e3 Hd1. step Hrun a1 e4 Ha1.
    step Hrun d2 e5 Hd2. step Hrun a2 e6 Ha2.
    step Hrun d3 e7 Hd3. step Hrun a3 e8 Ha3.
    step Hrun d4 e9 Hd4. step Hrun a4 e10 Ha4.
    step Hrun d5 e11 Hd5. step Hrun a5 e12 Ha5.
    step Hrun d6 e13 Hd6. step Hrun a6 e14 Ha6.
    step Hrun d7 e15 Hd7. step Hrun a7 e16 Ha7.
    step Hrun d8 e17 Hd8. step Hrun a8 e18 Ha8.
    step Hrun d9 e19 Hd9. step Hrun a9 e20 Ha9.
    unfold mret in Hrun. apply ret_inj in Hrun. destruct Hrun as [Hr Hlog].
    exists my_log, h, [d1; d2; d3; d4; d5; d6; d7; d8; d9]. cbv zeta.
    unfold print_events, ua_print_fields, f_mylog, f_header.
    cbn [print_pairs print_pair fst snd app].
    split; [symmetry; exact Hlog|].
    split; [reflexivity|]. split; [reflexivity|].
    split; [by_eq Hclos|]. split; [by_eq Hhdr|].
    split; [exists a0; by_eq Hprint|].
    split; [|symmetry; exact Hr].
    intros k Hk.
    destruct k as [|[|[|[|[|[|[|[|[|k]]]]]]]]]; [ | | | | | | | | |exfalso; lia];
      cbn [Nat.add Nat.mul firstn nth fst snd].
    - split; [by_eq Hd1|exists a1; by_eq Ha1].
    - split; [by_eq Hd2|exists a2; by_eq Ha2].
    - split; [by_eq Hd3|exists a3; by_eq Ha3].
    - split; [by_eq Hd4|exists a4; by_eq Ha4].
    - split; [by_eq Hd5|exists a5; by_eq Ha5].
    - split; [by_eq Hd6|exists a6; by_eq Ha6].
    - split; [by_eq Hd7|exists a7; by_eq Ha7].
    - split; [by_eq Hd8|exists a8; by_eq Ha8].
    - split; [by_eq Hd9|exists a9; by_eq Ha9].
  Qed.

  (* ================================================================ C. numba_guard.py *)

  (* fake_prange: exactly ONE call, on the caller's own (args, kwargs): numba.prange if Numba is available, the builtin range
     otherwise; its answer is returned *)
  Theorem prange_returns (args kwargs r : V) (log log' : list (event V)) :
    g_fake_prange V truthy vglobal oracle args kwargs log = (Ret r, log') ->
    let f := if truthy (vglobal "NUMBA_AVAILABLE") then f_numba_prange else f_range in
    log' = (log ++ [Ev f [args; kwargs]])%list /\
    oracle log f [args; kwargs] = Ret r.
  Proof.
    intros Hrun. cbv zeta. unfold g_fake_prange in Hrun. unfold f_numba_prange, f_range.
    destruct (truthy (vglobal "NUMBA_AVAILABLE")) eqn:Hnumba.
    - step Hrun v e1 Hcall.
      unfold mret in Hrun. apply ret_inj in Hrun. destruct Hrun as [Hr Hlog].
      split; [symmetry; exact Hlog|]. rewrite <- Hr. by_eq Hcall.
    - step Hrun v e1 Hcall.
      unfold mret in Hrun. apply ret_inj in Hrun. destruct Hrun as [Hr Hlog].
      split; [symmetry; exact Hlog|]. rewrite <- Hr. by_eq Hcall.
  Qed.

  (* fake_njit: if Numba is available exactly ONE call, numba.njit on the caller's own (args, kwargs), whose answer is returned;
     otherwise NO call at all and the module's own noop_decorator is returned *)
  Theorem njit_returns (args kwargs r : V) (log log' : list (event V)) :
    g_fake_njit V truthy vglobal oracle args kwargs log = (Ret r, log') ->
    if truthy (vglobal "NUMBA_AVAILABLE")
    then log' = (log ++ [Ev f_numba_njit [args; kwargs]])%list /\
         oracle log f_numba_njit [args; kwargs] = Ret r
    else log' = log /\ r = vglobal "noop_decorator".
  Proof.
    intros Hrun. unfold g_fake_njit in Hrun. cbv zeta in Hrun. unfold f_numba_njit.
    destruct (truthy (vglobal "NUMBA_AVAILABLE")) eqn:Hnumba.
    - apply mbind_ret_inv in Hrun. destruct Hrun as (w & l1 & Hinner & Hrest).
      step Hinner v e1 Hcall.
      unfold mret in Hinner. apply ret_inj in Hinner. destruct Hinner as [Hw Hl1].
      unfold mret in Hrest. apply ret_inj in Hrest. destruct Hrest as [Hr Hlog].
      split; [rewrite <- Hlog, <- Hl1; reflexivity|]. rewrite <- Hr, <- Hw. by_eq Hcall.
    - rewrite bind_ret in Hrun.
      unfold mret in Hrun. apply ret_inj in Hrun. destruct Hrun as [Hr Hlog].
      split; [symmetry; exact Hlog|symmetry; exact Hr].
  Qed.

  (* noop_decorator: exactly ONE call, the construction of the closure `wrapped` over the caller's own func; that closure is
     returned *)
  Theorem noop_returns (func r : V) (log log' : list (event V)) :
    g_noop_decorator V oracle func log = (Ret r, log') ->
    log' = (log ++ [Ev f_wrapped [func]])%list /\
    oracle log f_wrapped [func] = Ret r.
  Proof.
    intros Hrun. unfold g_noop_decorator in Hrun. unfold f_wrapped.
    step Hrun v e1 Hcall.
    unfold mret in Hrun. apply ret_inj in Hrun. destruct Hrun as [Hr Hlog].
    split; [symmetry; exact Hlog|]. rewrite <- Hr. by_eq Hcall.
  Qed.

  (* ================================================================ D. the observation hooks (_verif.py) *)

  (* with the guard off a hook observes nothing and does nothing: NO call at all, None returned *)
  Theorem emit_disabled (evt payload r : V) (log log' : list (event V)) :
    truthy (vglobal "ENABLED") = false ->
    g_emit V vnone truthy as_list vglobal oracle evt payload log = (Ret r, log') ->
    log' = log /\ r = vnone.
  Proof.
    intros Hoff Hrun. unfold g_emit in Hrun. rewrite Hoff in Hrun. cbn [negb] in Hrun.
    unfold mret in Hrun. apply ret_inj in Hrun. destruct Hrun as [Hr Hlog].
    split; [symmetry; exact Hlog|symmetry; exact Hr].
  Qed.

  (* the body of the loop over the listeners, as generated *)
  Definition emit_body (evt payload : V) : unit -> V -> M V unit :=
    fun _ listener => t3_ <<- call oracle "apply" [listener; evt; payload] ;; mret tt.

  (* the loop's events: one application per listener, in order, each on the SAME (event, payload) *)
  Definition emit_events (evt payload : V) (xs : list V) : list (event V) :=
    map (fun l => Ev "apply" [l; evt; payload]) xs.

  Lemma emit_loop (evt payload : V) : forall (xs : list V) (u u' : unit) (log0 log1 : list (event V)),
    for_each (emit_body evt payload) xs u log0 = (Ret u', log1) ->
    log1 = (log0 ++ emit_events evt payload xs)%list /\
    (forall k, (k < length xs)%nat ->
       exists a, oracle (log0 ++ firstn k (emit_events evt payload xs))%list "apply" [nth k xs vnone; evt; payload] = Ret a).
  Proof.
    induction xs as [|x xs IH]; intros u u' log0 log1 H.
    - cbn [for_each] in H. unfold mret in H. apply ret_inj in H. destruct H as [_ Hlog].
      split; [unfold emit_events; cbn [map]; rewrite app_nil_r; symmetry; exact Hlog|].
      intros k Hk. cbn [length] in Hk. lia.
    - cbn [for_each] in H. apply mbind_ret_inv in H. destruct H as (u1 & l1 & Hbody & Hrest).
      unfold emit_body in Hbody.
      step Hbody a e1 Hcall.
      unfold mret in Hbody. apply ret_inj in Hbody. destruct Hbody as [_ Hl1].
      apply IH in Hrest. destruct Hrest as (Hlog & Hit).
      unfold emit_events in *. cbn [map].
      split; [rewrite Hlog, <- Hl1; apply snoc2|].
      intros k Hk. destruct k as [|j].
      + exists a. cbn [firstn nth]. rewrite app_nil_r. by_eq Hcall.
      + assert (Hj : (j < length xs)%nat) by (cbn [length] in Hk; lia).
        destruct (Hit j Hj) as (a' & Ha').
        exists a'. cbn [firstn nth].
        rewrite <- Hl1 in Ha'. rewrite snoc2 in Ha'. exact Ha'.
  Qed.

  (* with the guard on: the listener list is snapshotted by ONE call list(_LISTENERS) (answer ls), then every listener of that
     snapshot, in order, is applied exactly once to the caller's own (event, payload) - and each application returned -; no other
     call; None returned *)
  Theorem emit_enabled (evt payload r : V) (log log' : list (event V)) :
    truthy (vglobal "ENABLED") = true ->
    g_emit V vnone truthy as_list vglobal oracle evt payload log = (Ret r, log') ->
    exists ls,
      let snap := Ev "list" [vglobal "_LISTENERS"] in
      let evs := map (fun l => Ev "apply" [l; evt; payload]) (as_list ls) in
      log' = (log ++ snap :: evs)%list /\
      length evs = length (as_list ls) /\
      oracle log "list" [vglobal "_LISTENERS"] = Ret ls /\
      (forall k, (k < length (as_list ls))%nat ->
         exists a, oracle (log ++ snap :: firstn k evs)%list "apply" [nth k (as_list ls) vnone; evt; payload] = Ret a) /\
      r = vnone.
  Proof.
    intros Hon Hrun. unfold g_emit in Hrun. rewrite Hon in Hrun. cbn [negb] in Hrun.
    step Hrun ls e1 Hsnap.
    apply mbind_ret_inv in Hrun. destruct Hrun as (u & l1 & Hloop & Hrest).
    match type of Hloop with
    | for_each _ _ _ ?l = _ =>
      change (for_each (emit_body evt payload) (as_list ls) tt l = (Ret u, l1)) in Hloop
    end.
    apply emit_loop in Hloop. destruct Hloop as (Hl1 & Hit).
    unfold mret in Hrest. apply ret_inj in Hrest. destruct Hrest as [Hr Hlog].
    exists ls. cbv zeta. unfold emit_events in *.
    split; [rewrite <- Hlog, Hl1; apply snoc2|].
    split; [apply map_length|].
    split; [by_eq Hsnap|].
    split; [|symmetry; exact Hr].
    intros k Hk. destruct (Hit k Hk) as (a & Ha).
    exists a. rewrite snoc2 in Ha. exact Ha.
  Qed.

  (* add_listener: exactly ONE call, appending the caller's own listener to the module's list; None returned *)
  Theorem add_listener_returns (listener r : V) (log log' : list (event V)) :
    g_add_listener V vnone oracle listener log = (Ret r, log') ->
    log' = (log ++ [Ev "_LISTENERS.append" [listener]])%list /\
    (exists a, oracle log "_LISTENERS.append" [listener] = Ret a) /\
    r = vnone.
  Proof.
    intros Hrun. unfold g_add_listener in Hrun.
    step Hrun a e1 Hcall.
    unfold mret in Hrun. apply ret_inj in Hrun. destruct Hrun as [Hr Hlog].
    split; [symmetry; exact Hlog|]. split; [exists a; by_eq Hcall|symmetry; exact Hr].
  Qed.

  (* clear_listeners: exactly ONE call, the in-place deletion of the module's list's contents, no argument; None returned *)
  Theorem clear_listeners_returns (r : V) (log log' : list (event V)) :
    g_clear_listeners V vnone oracle log = (Ret r, log') ->
    log' = (log ++ [Ev f_clear []])%list /\
    (exists a, oracle log f_clear [] = Ret a) /\
    r = vnone.
  Proof.
    intros Hrun. unfold g_clear_listeners in Hrun. unfold f_clear.
    step Hrun a e1 Hcall.
    unfold mret in Hrun. apply ret_inj in Hrun. destruct Hrun as [Hr Hlog].
    split; [symmetry; exact Hlog|]. split; [exists a; by_eq Hcall|symmetry; exact Hr].
  Qed.

End E.


(* ---------------------------------------------------------------- the statements are not vacuous: each function does return,
   on each of its returning paths, under a concrete instantiation (V := Z, every callee answers 7) *)
Local Open Scope Z_scope.

(* member_points present: one call; None: no call *)
Example size_getter_returns_nonvacuous :
  (exists r log', g_ClusterParameters_size_getter Z (fun z => z) (fun v _ => v) (fun _ => false) (fun _ _ _ => Ret 7) 3 []
                  = (Ret r, log') /\ length log' = 1%nat) /\
  (exists r log', g_ClusterParameters_size_getter Z (fun z => z) (fun v _ => v) (fun _ => true) (fun _ _ _ => Ret 7) 3 []
                  = (Ret r, log') /\ log' = [] /\ r = 0).
Proof. split; eexists; eexists; vm_compute; repeat split; reflexivity. Qed.

Example members_getter_returns_nonvacuous :
  exists r log', g_ClusterParameters_member_points_getter Z (fun v _ => v) 3 [] = (Ret r, log').
Proof. eexists. eexists. vm_compute. reflexivity. Qed.

Example labels_getter_returns_nonvacuous :
  exists r log', g_ModelState_point_labels_getter Z (fun v _ => v) 3 [] = (Ret r, log').
Proof. eexists. eexists. vm_compute. reflexivity. Qed.

(* out given; out None *)
Example print_returns_nonvacuous :
  (exists r log', g_UserArguments_print Z 0 (fun v _ => v) (fun _ => false) (fun _ => 9) (fun _ _ _ => Ret 7) 3 4 []
                  = (Ret r, log') /\ length log' = 21%nat /\ nth 0 log' (Ev "" []) = Ev f_mylog [4]) /\
  (exists r log', g_UserArguments_print Z 0 (fun v _ => v) (fun _ => true) (fun _ => 9) (fun _ _ _ => Ret 7) 3 4 []
                  = (Ret r, log') /\ length log' = 21%nat /\ nth 0 log' (Ev "" []) = Ev f_mylog [9]).
Proof. split; eexists; eexists; vm_compute; repeat split; reflexivity. Qed.

(* Numba available; not available *)
Example prange_returns_nonvacuous :
  (exists r log', g_fake_prange Z (fun _ => true) (fun _ => 9) (fun _ _ _ => Ret 7) 3 4 [] = (Ret r, log')
                  /\ log' = [Ev f_numba_prange [3; 4]]) /\
  (exists r log', g_fake_prange Z (fun _ => false) (fun _ => 9) (fun _ _ _ => Ret 7) 3 4 [] = (Ret r, log')
                  /\ log' = [Ev f_range [3; 4]]).
Proof. split; eexists; eexists; vm_compute; repeat split; reflexivity. Qed.

Example njit_returns_nonvacuous :
  (exists r log', g_fake_njit Z (fun _ => true) (fun _ => 9) (fun _ _ _ => Ret 7) 3 4 [] = (Ret r, log')
                  /\ length log' = 1%nat /\ r = 7) /\
  (exists r log', g_fake_njit Z (fun _ => false) (fun _ => 9) (fun _ _ _ => Ret 7) 3 4 [] = (Ret r, log')
                  /\ log' = [] /\ r = 9).
Proof. split; eexists; eexists; vm_compute; repeat split; reflexivity. Qed.

Example noop_returns_nonvacuous :
  exists r log', g_noop_decorator Z (fun _ _ _ => Ret 7) 3 [] = (Ret r, log') /\ length log' = 1%nat.
Proof. eexists. eexists. vm_compute. split; reflexivity. Qed.

(* the hypothesis of emit_disabled is satisfiable and the function returns *)
Example emit_disabled_nonvacuous :
  exists r log', (fun _ : Z => false) ((fun _ : string => 9) "ENABLED"%string) = false /\
    g_emit Z 0 (fun _ => false) (fun _ => [1; 2]) (fun _ => 9) (fun _ _ _ => Ret 7) 3 4 [] = (Ret r, log') /\ log' = [].
Proof. eexists. eexists. vm_compute. repeat split; reflexivity. Qed.

(* guard on, two listeners: the snapshot and two applications *)
Example emit_enabled_nonvacuous :
  exists r log', (fun _ : Z => true) ((fun _ : string => 9) "ENABLED"%string) = true /\
    g_emit Z 0 (fun _ => true) (fun _ => [1; 2]) (fun _ => 9) (fun _ _ _ => Ret 7) 3 4 [] = (Ret r, log') /\
    log' = [Ev "list" [9]; Ev "apply" [1; 3; 4]; Ev "apply" [2; 3; 4]].
Proof. eexists. eexists. vm_compute. repeat split; reflexivity. Qed.

Example add_listener_returns_nonvacuous :
  exists r log', g_add_listener Z 0 (fun _ _ _ => Ret 7) 3 [] = (Ret r, log') /\ length log' = 1%nat.
Proof. eexists. eexists. vm_compute. split; reflexivity. Qed.

Example clear_listeners_returns_nonvacuous :
  exists r log', g_clear_listeners Z 0 (fun _ _ _ => Ret 7) [] = (Ret r, log') /\ length log' = 1%nat.
Proof. eexists. eexists. vm_compute. split; reflexivity. Qed.

Print Assumptions size_getter_returns.
Print Assumptions members_getter_returns.
Print Assumptions labels_getter_returns.
Print Assumptions print_returns.
Print Assumptions prange_returns.
Print Assumptions njit_returns.
Print Assumptions noop_returns.
Print Assumptions emit_disabled.
Print Assumptions emit_enabled.
Print Assumptions add_listener_returns.
Print Assumptions clear_listeners_returns.
