(** C03 (float level): for rho = 1 the eigenvalue map of the ADMM X update,
    computed in binary64 (Coq's primitive floats, round to nearest even), returns
    a strictly positive finite number for every finite input of magnitude below
    2^500.

    With rho = 1 the constants are exact: 4*1 = 4, (4*1)*1 = 4, 1/(2*1) = 0.5.
    q = fl(d*d) in [0, 2^1000], s = fl(q + 4) in [4, 2^1001],
    root = fl(sqrt s) in [2, 2^501].
      d >= 0 (and d = -0):  fl(d + root) in [2, 2^502],  0.5 * it in [1, 2^501].
      d <  0:  den = fl(root - d) in [2, 2^502], fl(4 / den) in [2^-500, 2],
               0.5 * it in [2^-501, 1].
    Every interval end is a binary64 number, so rounding keeps the value inside
    (monotonicity of rounding); nothing overflows, nothing underflows to zero. *)

From Ticc Require Import Model.Admm Corr.RunAdmm.
From Coq Require Import ZArith Reals Lia Lra.
From Flocq Require Import Core BinarySingleNaN PrimFloat.
From Coq Require Import Floats.
Local Notation float := PrimFloat.float.

Local Notation fexp64 := (FLT_exp (3 - emax - prec) prec).
Local Notation rnd := (round radix2 fexp64 (round_mode mode_NE)).
Local Notation fmt := (generic_format radix2 fexp64).
Local Notation bfloat := (binary_float prec emax).

Local Existing Instance Hprec.
Local Existing Instance Hmax.

Local Open Scope R_scope.

(* ------------------------------------------------------------------ *)
(** * Rounding keeps a value between two representable bounds *)

Lemma fmt_bpow : forall e : Z, (-1074 <= e)%Z -> fmt (bpow radix2 e).
Proof.
intros e He.
apply generic_format_FLT_bpow.
- exact Hprec.
- exact He.
Qed.

Lemma rnd_in : forall lo hi v : R,
  0 <= lo -> fmt lo -> fmt hi -> hi < bpow radix2 emax ->
  lo <= v <= hi ->
  lo <= rnd v <= hi /\ Rabs (rnd v) < bpow radix2 emax.
Proof.
intros lo hi v Hlo Flo Fhi Hhi [H1 H2].
assert (A : lo <= rnd v)
  by (apply round_ge_generic ; [apply FLT_exp_valid ; exact Hprec | apply valid_rnd_N | exact Flo | exact H1]).
assert (B : rnd v <= hi)
  by (apply round_le_generic ; [apply FLT_exp_valid ; exact Hprec | apply valid_rnd_N | exact Fhi | exact H2]).
split ; [ now split | ].
rewrite Rabs_pos_eq ; lra.
Qed.

(** A finite binary64 number with its real value in [lo, hi]. *)
Definition inB (b : bfloat) (lo hi : R) : Prop :=
  BinarySingleNaN.is_finite b = true /\ lo <= B2R b <= hi.

Lemma plus_in : forall (x y : bfloat) (lo hi : R),
  BinarySingleNaN.is_finite x = true -> BinarySingleNaN.is_finite y = true ->
  0 <= lo -> fmt lo -> fmt hi -> hi < bpow radix2 emax ->
  lo <= B2R x + B2R y <= hi ->
  inB (Bplus mode_NE x y) lo hi.
Proof.
intros x y lo hi Fx Fy Hlo Flo Fhi Hhi Hv.
destruct (rnd_in lo hi _ Hlo Flo Fhi Hhi Hv) as [H1 H2].
generalize (Bplus_correct prec emax Hprec Hmax mode_NE x y Fx Fy).
rewrite Rlt_bool_true by exact H2.
intros [R1 [F1 _]].
split ; [ exact F1 | rewrite R1 ; exact H1 ].
Qed.

Lemma minus_in : forall (x y : bfloat) (lo hi : R),
  BinarySingleNaN.is_finite x = true -> BinarySingleNaN.is_finite y = true ->
  0 <= lo -> fmt lo -> fmt hi -> hi < bpow radix2 emax ->
  lo <= B2R x - B2R y <= hi ->
  inB (Bminus mode_NE x y) lo hi.
Proof.
intros x y lo hi Fx Fy Hlo Flo Fhi Hhi Hv.
destruct (rnd_in lo hi _ Hlo Flo Fhi Hhi Hv) as [H1 H2].
generalize (Bminus_correct prec emax Hprec Hmax mode_NE x y Fx Fy).
rewrite Rlt_bool_true by exact H2.
intros [R1 [F1 _]].
split ; [ exact F1 | rewrite R1 ; exact H1 ].
Qed.

Lemma mult_in : forall (x y : bfloat) (lo hi : R),
  BinarySingleNaN.is_finite x = true -> BinarySingleNaN.is_finite y = true ->
  0 <= lo -> fmt lo -> fmt hi -> hi < bpow radix2 emax ->
  lo <= B2R x * B2R y <= hi ->
  inB (Bmult mode_NE x y) lo hi.
Proof.
intros x y lo hi Fx Fy Hlo Flo Fhi Hhi Hv.
destruct (rnd_in lo hi _ Hlo Flo Fhi Hhi Hv) as [H1 H2].
generalize (Bmult_correct prec emax Hprec Hmax mode_NE x y).
rewrite Rlt_bool_true by exact H2.
intros [R1 [F1 _]].
split ; [ rewrite F1, Fx, Fy ; reflexivity | rewrite R1 ; exact H1 ].
Qed.

Lemma div_in : forall (x y : bfloat) (lo hi : R),
  BinarySingleNaN.is_finite x = true -> B2R y <> 0 ->
  0 <= lo -> fmt lo -> fmt hi -> hi < bpow radix2 emax ->
  lo <= B2R x / B2R y <= hi ->
  inB (Bdiv mode_NE x y) lo hi.
Proof.
intros x y lo hi Fx Zy Hlo Flo Fhi Hhi Hv.
destruct (rnd_in lo hi _ Hlo Flo Fhi Hhi Hv) as [H1 H2].
generalize (Bdiv_correct prec emax Hprec Hmax mode_NE x y Zy).
rewrite Rlt_bool_true by exact H2.
intros [R1 [F1 _]].
split ; [ rewrite F1 ; exact Fx | rewrite R1 ; exact H1 ].
Qed.

Lemma sqrt_in : forall (x : bfloat) (lo hi : R),
  BinarySingleNaN.is_finite x = true -> 0 < B2R x ->
  fmt lo -> fmt hi ->
  lo <= R_sqrt.sqrt (B2R x) <= hi ->
  inB (Bsqrt mode_NE x) lo hi.
Proof.
intros x lo hi Fx Px Flo Fhi [H1 H2].
destruct (Bsqrt_correct prec emax Hprec Hmax mode_NE x) as [R1 [F1 _]].
split.
- rewrite F1.
  destruct x as [s|s| |s m e Hme] ; try discriminate Fx.
  + simpl in Px. lra.
  + destruct s ; [ | reflexivity ].
    exfalso.
    apply (Rlt_irrefl 0).
    apply Rlt_trans with (1 := Px).
    apply F2R_lt_0. reflexivity.
- rewrite R1. split.
  + apply round_ge_generic ; [apply FLT_exp_valid ; exact Hprec | apply valid_rnd_N | exact Flo | exact H1].
  + apply round_le_generic ; [apply FLT_exp_valid ; exact Hprec | apply valid_rnd_N | exact Fhi | exact H2].
Qed.

(* ------------------------------------------------------------------ *)
(** * The constants *)

Lemma Prim2B_pow2 : forall (x : float) (e : Z),
  Prim2SF x = S754_finite false 4503599627370496 (e - 52) ->
  B2R (Prim2B x) = bpow radix2 e /\ BinarySingleNaN.is_finite (Prim2B x) = true.
Proof.
intros x e H.
unfold Prim2B.
rewrite B2R_SF2B, is_finite_SF2B, H.
split ; [ | reflexivity ].
simpl SF2R.
replace 4503599627370496%Z with (1 * Zpower radix2 (e - (e - 52)))%Z
  by (replace (e - (e - 52))%Z with 52%Z by lia ; reflexivity).
rewrite <- F2R_change_exp by lia.
apply F2R_bpow.
Qed.

Lemma B_four : B2R (Prim2B 4) = bpow radix2 2 /\ BinarySingleNaN.is_finite (Prim2B 4) = true.
Proof. apply Prim2B_pow2. vm_compute. reflexivity. Qed.

Lemma B_half : B2R (Prim2B 0.5) = bpow radix2 (-1) /\ BinarySingleNaN.is_finite (Prim2B 0.5) = true.
Proof. apply Prim2B_pow2. vm_compute. reflexivity. Qed.

Lemma B_p500 : B2R (Prim2B 0x1p+500) = bpow radix2 500 /\ BinarySingleNaN.is_finite (Prim2B 0x1p+500) = true.
Proof. apply Prim2B_pow2. vm_compute. reflexivity. Qed.

Lemma B_zero : B2R (Prim2B 0) = 0 /\ BinarySingleNaN.is_finite (Prim2B 0) = true.
Proof.
unfold Prim2B.
rewrite B2R_SF2B, is_finite_SF2B.
replace (Prim2SF 0) with (S754_zero false) by (vm_compute ; reflexivity).
split ; reflexivity.
Qed.

(* ------------------------------------------------------------------ *)
(** * Powers of two used below *)

Lemma bp_m1 : bpow radix2 (-1) = / 2.
Proof. simpl. reflexivity. Qed.
Lemma bp_0 : bpow radix2 0 = 1.
Proof. reflexivity. Qed.
Lemma bp_1 : bpow radix2 1 = 2.
Proof. reflexivity. Qed.
Lemma bp_2 : bpow radix2 2 = 4.
Proof. reflexivity. Qed.

Lemma bp_S : forall e : Z, bpow radix2 (e + 1) = 2 * bpow radix2 e.
Proof. intros e. rewrite bpow_plus, bp_1. ring. Qed.

Lemma bp_lt_emax : forall e : Z, (e < 1024)%Z -> bpow radix2 e < bpow radix2 emax.
Proof. intros e He. apply bpow_lt. exact He. Qed.

(* ------------------------------------------------------------------ *)
(** * The theorem *)

(** The term computed for rho = 1, constants folded. *)
Lemma thetaF_one : forall d : float,
  thetaF 1 d =
  PrimFloat.mul 0.5
    (if PrimFloat.ltb d 0
     then PrimFloat.div 4 (PrimFloat.sub (PrimFloat.sqrt (PrimFloat.add (PrimFloat.mul d d) 4)) d)
     else PrimFloat.add d (PrimFloat.sqrt (PrimFloat.add (PrimFloat.mul d d) 4))).
Proof. intros d. reflexivity. Qed.

Theorem thetaF_positive : forall d : float,
  PrimFloat.is_finite d = true ->
  PrimFloat.ltb (PrimFloat.abs d) 0x1p+500%float = true ->
  PrimFloat.ltb 0%float (thetaF 1%float d) = true /\
  PrimFloat.is_finite (thetaF 1%float d) = true.
Proof.
intros d Fd Bd.
destruct B_four as [R4 F4].
destruct B_half as [Rh Fh].
destruct B_p500 as [Rp Fp].
destruct B_zero as [R0 F0].
rewrite is_finite_equiv in Fd.
rewrite ltb_equiv, abs_equiv in Bd.
rewrite Bltb_correct in Bd ; [ | now rewrite is_finite_Babs | exact Fp ].
rewrite B2R_Babs, Rp in Bd.
revert Bd. case Rlt_bool_spec ; [ intros Bd _ | discriminate ].
(* it is enough to bound the result on the Flocq side *)
cut (exists lo hi, 0 < lo /\ inB (Prim2B (thetaF 1 d)) lo hi).
{ intros (lo & hi & Plo & Ft & Rt).
  split.
  - rewrite ltb_equiv, Bltb_correct by assumption.
    rewrite R0. apply Rlt_bool_true. lra.
  - rewrite is_finite_equiv. exact Ft. }
rewrite thetaF_one.
rewrite mul_equiv.
set (X := Prim2B d) in *.
(* q = fl(d * d) *)
assert (HQ : inB (Bmult mode_NE X X) 0 (bpow radix2 1000)).
{ apply mult_in ; try assumption.
  - lra.
  - apply generic_format_0.
  - apply fmt_bpow. lia.
  - apply bp_lt_emax. lia.
  - split.
    + replace (B2R X * B2R X) with (Rsqr (B2R X)) by reflexivity. apply Rle_0_sqr.
    + replace (B2R X * B2R X) with (Rabs (B2R X) * Rabs (B2R X))
        by (rewrite <- Rabs_mult ; apply Rabs_pos_eq ; apply (Rle_0_sqr (B2R X))).
      change 1000%Z with (500 + 500)%Z. rewrite bpow_plus.
      assert (0 <= Rabs (B2R X)) by apply Rabs_pos.
      apply Rmult_le_compat ; lra. }
destruct HQ as [FQ RQ].
(* s = fl(q + 4) *)
assert (H4le : 4 <= bpow radix2 1000).
{ rewrite <- bp_2. apply bpow_le. lia. }
assert (HS : inB (Bplus mode_NE (Bmult mode_NE X X) (Prim2B 4)) 4 (bpow radix2 1001)).
{ apply plus_in ; try assumption.
  - lra.
  - rewrite <- bp_2. apply fmt_bpow. lia.
  - apply fmt_bpow. lia.
  - apply bp_lt_emax. lia.
  - rewrite R4, bp_2.
    change 1001%Z with (1000 + 1)%Z. rewrite bp_S. lra. }
destruct HS as [FS RS].
(* root = fl(sqrt s) *)
assert (HR : inB (Bsqrt mode_NE (Bplus mode_NE (Bmult mode_NE X X) (Prim2B 4))) 2 (bpow radix2 501)).
{ apply sqrt_in ; try assumption.
  - lra.
  - rewrite <- bp_1. apply fmt_bpow. lia.
  - apply fmt_bpow. lia.
  - split.
    + replace 2 with (R_sqrt.sqrt (2 * 2)) at 1 by (apply sqrt_square ; lra).
      apply sqrt_le_1_alt. lra.
    + replace (bpow radix2 501) with (R_sqrt.sqrt (bpow radix2 501 * bpow radix2 501))
        by (apply sqrt_square ; apply bpow_ge_0).
      apply sqrt_le_1_alt.
      rewrite <- bpow_plus.
      change (501 + 501)%Z with (1001 + 1)%Z. rewrite bp_S.
      assert (0 <= bpow radix2 1001) by apply bpow_ge_0. lra. }
destruct HR as [FR RR].
assert (AX := Rabs_def2 _ _ Bd).
assert (H501 : bpow radix2 501 = 2 * bpow radix2 500) by (change 501%Z with (500 + 1)%Z ; apply bp_S).
assert (H502 : bpow radix2 502 = 2 * bpow radix2 501) by (change 502%Z with (501 + 1)%Z ; apply bp_S).
assert (P500 : 0 < bpow radix2 500) by apply bpow_gt_0.
rewrite ltb_equiv, Bltb_correct by assumption.
fold X. rewrite R0.
case Rlt_bool_spec ; intros Sd.
- (* d < 0 : 4 / fl(root - d) *)
  rewrite div_equiv, sub_equiv, sqrt_equiv, add_equiv, mul_equiv.
  fold X.
  set (Rt := Bsqrt mode_NE (Bplus mode_NE (Bmult mode_NE X X) (Prim2B 4))) in *.
  assert (HD : inB (Bminus mode_NE Rt X) 2 (bpow radix2 502)).
  { apply minus_in ; try assumption.
    - lra.
    - rewrite <- bp_1. apply fmt_bpow. lia.
    - apply fmt_bpow. lia.
    - apply bp_lt_emax. lia.
    - lra. }
  destruct HD as [FD RD].
  set (Dn := Bminus mode_NE Rt X) in *.
  assert (HT : inB (Bdiv mode_NE (Prim2B 4) Dn) (bpow radix2 (-500)) 2).
  { assert (I1 : / B2R Dn <= / 2) by (apply Rinv_le_contravar ; lra).
    assert (I2 : / bpow radix2 502 <= / B2R Dn) by (apply Rinv_le_contravar ; lra).
    rewrite <- bpow_opp in I2.
    assert (E : bpow radix2 (-500) = 4 * bpow radix2 (- (502))).
    { change (-500)%Z with (2 + - (502))%Z. rewrite bpow_plus, bp_2. reflexivity. }
    apply div_in ; try assumption.
    - lra.
    - apply bpow_ge_0.
    - apply fmt_bpow. lia.
    - rewrite <- bp_1. apply fmt_bpow. lia.
    - rewrite <- bp_1. apply bp_lt_emax. lia.
    - rewrite R4, bp_2. unfold Rdiv. lra. }
  destruct HT as [FT RT].
  exists (bpow radix2 (-501)), 1.
  split ; [ apply bpow_gt_0 | ].
  assert (E : bpow radix2 (-500) = 2 * bpow radix2 (-501))
    by (change (-500)%Z with (-501 + 1)%Z ; apply bp_S).
  apply mult_in ; try assumption.
  + apply bpow_ge_0.
  + apply fmt_bpow. lia.
  + rewrite <- bp_0. apply fmt_bpow. lia.
  + rewrite <- bp_0. apply bp_lt_emax. lia.
  + rewrite Rh, bp_m1. lra.
- (* d >= 0 or d = -0 : fl(d + root) *)
  rewrite add_equiv, sqrt_equiv, add_equiv, mul_equiv.
  fold X.
  set (Rt := Bsqrt mode_NE (Bplus mode_NE (Bmult mode_NE X X) (Prim2B 4))) in *.
  assert (HT : inB (Bplus mode_NE X Rt) 2 (bpow radix2 502)).
  { apply plus_in ; try assumption.
    - lra.
    - rewrite <- bp_1. apply fmt_bpow. lia.
    - apply fmt_bpow. lia.
    - apply bp_lt_emax. lia.
    - lra. }
  destruct HT as [FT RT].
  exists 1, (bpow radix2 501).
  split ; [ lra | ].
  apply mult_in ; try assumption.
  + lra.
  + rewrite <- bp_0. apply fmt_bpow. lia.
  + apply fmt_bpow. lia.
  + apply bp_lt_emax. lia.
  + rewrite Rh, bp_m1. lra.
Qed.

Print Assumptions thetaF_positive.
