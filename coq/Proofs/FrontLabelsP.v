(* Margins of the padded label lists returned by the front ends (C04). *)
From Coq Require Import List Arith ZArith Lia.
Import ListNotations.
From Ticc Require Import Model.Stacking Proofs.StackingP.

Definition in_range (K : nat) (z : Z) : Prop := (0 <= z < Z.of_nat K)%Z.

(* a list of T labels: -1 on the first pad_front W and last pad_back W positions,
   a cluster id in [0,K) everywhere else *)
Definition margin_ok (W K T : nat) (l : list Z) : Prop :=
  length l = T /\
  (forall i, i < pad_front W -> nth i l 0%Z = (-1)%Z) /\
  (forall i, i < T + 1 - W -> in_range K (nth (pad_front W + i) l 0%Z)) /\
  (forall i, i < pad_back W -> nth (pad_front W + (T + 1 - W) + i) l 0%Z = (-1)%Z).

Lemma pad_margin W K T (labels : list Z) :
  1 <= W -> W <= T -> length labels = T + 1 - W -> Forall (in_range K) labels ->
  margin_ok W K T (pad (-1)%Z W labels).
Proof.
  intros HW HT HL HR. unfold margin_ok. split; [rewrite pad_length, HL; lia|].
  split; [intros i Hi; apply pad_nth_front; exact Hi|].
  split.
  - intros i Hi. rewrite pad_nth_middle by lia. rewrite Forall_forall in HR. apply HR, nth_In. lia.
  - intros i Hi. rewrite <- HL. apply pad_nth_back. exact Hi.
Qed.

Lemma front_single_margin W K T labels :
  1 <= W -> W <= T -> length labels = num_windows W T -> Forall (in_range K) labels ->
  margin_ok W K T (front_single_labels W labels).
Proof. intros. unfold front_single_labels. apply pad_margin; try assumption. Qed.

Lemma Forall_firstn {A} (P : A -> Prop) n l : Forall P l -> Forall P (firstn n l).
Proof.
  revert l. induction n as [|n IH]; intros [|x l] H; simpl; try constructor.
  - inversion H; assumption.
  - apply IH. inversion H; assumption.
Qed.
Lemma Forall_skipn {A} (P : A -> Prop) n l : Forall P l -> Forall P (skipn n l).
Proof. intros H. rewrite <- (firstn_skipn n l) in H. apply Forall_app in H. tauto. Qed.

Lemma front_joint_margin W K lens : forall labels,
  1 <= W -> Forall (fun T => W <= T) lens ->
  length labels = list_sum (map (num_windows W) lens) -> Forall (in_range K) labels ->
  Forall2 (margin_ok W K) lens (front_joint_labels W lens labels).
Proof.
  unfold front_joint_labels. induction lens as [|T lens IH]; intros labels HW Hl HL HR; simpl in *; [constructor|].
  pose proof (Forall_inv Hl) as HT. pose proof (Forall_inv_tail Hl) as Hl'. cbv beta in HT.
  constructor.
  - apply pad_margin; try assumption.
    + rewrite firstn_length_le by lia. reflexivity.
    + apply Forall_firstn. exact HR.
  - apply IH; try assumption.
    + rewrite skipn_length. lia.
    + apply Forall_skipn. exact HR.
Qed.
