(* Second tie: cluster_metrics.bayesian_information_criterion AS TRANSLATED from /repo's working tree by vcheck/py2coq.py
   (Gen/G_cluster_metrics.v, regenerated on every run) equals the hand-written model Model/Accounting.v (run counting,
   assembly of the criterion) for every carrier, every labelling and every K.  The NumPy matrix functions
   (slogdet, trace of a product, count of entries above a threshold, log) are uninterpreted.  Closed under the global context. *)
From Coq Require Import String ZArith List Bool Lia Arith.
From Ticc Require Import Gen.PyRt Gen.G_cluster_metrics Model.Viterbi Model.Accounting.
Import ListNotations.

(* ---- generic helpers ---- *)
Lemma py_getitem_nat {A : Type} (l : list A) (k : nat) (x : A) :
  nth_error l k = Some x -> py_getitem l (Z.of_nat k) = Ret x.
Proof.
  intros Hn. assert (Hk : (k < length l)%nat) by (apply nth_error_Some; congruence).
  unfold py_getitem, py_len.
  replace (Z.of_nat k <? 0)%Z with false by lia.
  replace ((Z.of_nat k <? 0)%Z || (Z.of_nat (length l) <=? Z.of_nat k)%Z) with false by lia.
  rewrite Nat2Z.id, Hn. reflexivity.
Qed.

Lemma nth_error_mid {A : Type} (pre post : list A) (x : A) :
  nth_error (pre ++ x :: post) (length pre) = Some x.
Proof. induction pre as [|y pre IH]; cbn; [reflexivity | exact IH]. Qed.

(* reading a dictionary after a store *)
Lemma py_dict_get_set_same {V : Type} (d : list (Z * V)) (k : Z) (v : V) :
  py_dict_get (py_dict_set d k v) k = Ret v.
Proof. unfold py_dict_get, py_dict_set. cbn [find fst]. rewrite Z.eqb_refl. reflexivity. Qed.

Lemma py_dict_get_set_other {V : Type} (d : list (Z * V)) (k k' : Z) (v : V) :
  k <> k' -> py_dict_get (py_dict_set d k v) k' = py_dict_get d k'.
Proof.
  intros Hne. unfold py_dict_get, py_dict_set. cbn [find fst].
  replace (k =? k')%Z with false by (symmetry; apply Z.eqb_neq; exact Hne).
  induction d as [|[k0 v0] d IH]; cbn [filter find fst].
  - reflexivity.
  - destruct (Z.eqb_spec k0 k) as [Hk|Hk]; cbn [negb].
    + subst k0. replace (k =? k')%Z with false by (symmetry; apply Z.eqb_neq; exact Hne). exact IH.
    + cbn [find fst]. destruct (k0 =? k')%Z; [reflexivity | exact IH].
Qed.

(* the dictionary built by storing v(c) under k, k+1, ... for the elements c of a list *)
Fixpoint dict_fill {C V : Type} (v : C -> V) (k : nat) (post : list C) (d : list (Z * V)) : list (Z * V) :=
  match post with
  | [] => d
  | c :: r => dict_fill v (S k) r (py_dict_set d (Z.of_nat k) (v c))
  end.

Lemma dict_fill_below {C V : Type} (v : C -> V) (post : list C) : forall (k : nat) (d : list (Z * V)) (j : nat),
  (j < k)%nat -> py_dict_get (dict_fill v k post d) (Z.of_nat j) = py_dict_get d (Z.of_nat j).
Proof.
  induction post as [|c r IH]; intros k d j Hj; cbn [dict_fill].
  - reflexivity.
  - rewrite IH by lia. apply py_dict_get_set_other. lia.
Qed.

Lemma dict_fill_get {C V : Type} (v : C -> V) (post : list C) : forall (k : nat) (d : list (Z * V)) (j : nat) (c : C),
  (k <= j)%nat -> nth_error post (j - k) = Some c ->
  py_dict_get (dict_fill v k post d) (Z.of_nat j) = Ret (v c).
Proof.
  induction post as [|c0 r IH]; intros k d j c Hk Hn; cbn [dict_fill].
  - destruct (j - k)%nat; discriminate Hn.
  - destruct (Nat.eq_dec j k) as [He|He].
    + subst j. rewrite Nat.sub_diag in Hn. cbn in Hn. injection Hn as Hc. subst c0.
      rewrite dict_fill_below by lia. apply py_dict_get_set_same.
    + apply IH; [lia|]. replace (j - k)%nat with (S (j - S k)) in Hn by lia. exact Hn.
Qed.

(* first loop, for any body that meets the one-step specification *)
Lemma cluster_loop {C A V : Type} (add : A -> A -> A) (h : C -> A) (v : C -> V)
      (cl : list C) (f : A * list (Z * V) -> Z -> res (A * list (Z * V))) :
  (forall (m : A) (d : list (Z * V)) (k : nat) (c : C), nth_error cl k = Some c ->
     f (m, d) (Z.of_nat k) = Ret (add m (h c), py_dict_set d (Z.of_nat k) (v c))) ->
  forall (post pre : list C) (m : A) (d : list (Z * V)), cl = pre ++ post ->
  foldM f (map Z.of_nat (seq (length pre) (length post))) (m, d)
  = Ret (fold_left add (map h post) m, dict_fill v (length pre) post d).
Proof.
  intros Hf. induction post as [|c r IH]; intros pre m d Hcl; cbn [length seq map foldM fold_left dict_fill].
  - reflexivity.
  - rewrite (Hf m d (length pre) c) by (rewrite Hcl; apply nth_error_mid). cbn [bind].
    specialize (IH (pre ++ [c]) (add m (h c)) (py_dict_set d (Z.of_nat (length pre)) (v c))).
    rewrite app_length in IH. cbn [length] in IH. rewrite Nat.add_1_r in IH.
    apply IH. rewrite <- app_assoc. exact Hcl.
Qed.

Lemma map2_map {C A : Type} (sub : A -> A -> A) (f g : C -> A) (l : list C) :
  map2 sub (map f l) (map g l) = map (fun c => sub (f c) (g c)) l.
Proof. induction l as [|c l IH]; cbn [map map2]; [reflexivity | now rewrite IH]. Qed.

(* second loop: the last label as the Python code holds it *)
Definition zlast (o : option nat) : Z := match o with None => (-1)%Z | Some l => Z.of_nat l end.

Lemma label_loop (params : nat -> nat) (f : Z * Z -> Z -> res (Z * Z)) (n : nat) :
  (forall (acc : Z) (last : option nat) (l : nat), (l < n)%nat ->
     f (acc, zlast last) (Z.of_nat l)
     = Ret ((acc + Z.of_nat (match last with
                             | Some x => if Nat.eqb x l then 0 else params l
                             | None => params l
                             end))%Z, Z.of_nat l)) ->
  forall (labels : list nat) (acc : Z) (last : option nat), Forall (fun l => (l < n)%nat) labels ->
  exists lz : Z,
    foldM f (map Z.of_nat labels) (acc, zlast last)
    = Ret ((acc + Z.of_nat (run_params_from last params labels))%Z, lz).
Proof.
  intros Hf. induction labels as [|l r IH]; intros acc last Hall; cbn [map foldM run_params_from].
  - exists (zlast last). rewrite Nat2Z.inj_0, Z.add_0_r. reflexivity.
  - inversion Hall as [|l0 r0 Hl Hr]; subst l0 r0.
    rewrite (Hf acc last l Hl). cbn [bind].
    destruct (IH (acc + Z.of_nat (match last with
                                  | Some x => if Nat.eqb x l then 0 else params l
                                  | None => params l
                                  end))%Z (Some l) Hr) as [lz Hlz].
    exists lz. cbn [zlast] in Hlz. rewrite Hlz. rewrite Nat2Z.inj_add, Z.add_assoc. reflexivity.
Qed.

Section E.
  Variable F : Type.
  Variables (zero two : F) (add sub mul : F -> F -> F).
  Variable of_nat : nat -> F.
  Variable of_int : Z -> F.
  Variable M : Type.
  Variable flit : string -> F.
  Variable np_log : F -> F.
  Variable np_slogdet_logabs : M -> F.
  Variable np_trace_dot : M -> M -> F.
  Variable np_count_above : M -> F -> Z.

  Hypothesis of_int_0 : of_int 0%Z = zero.
  Hypothesis of_int_2 : of_int 2%Z = two.
  Hypothesis of_int_nat : forall n : nat, of_int (Z.of_nat n) = of_nat n.
  (* a count is not negative *)
  Hypothesis count_nonneg : forall m t, (0 <= np_count_above m t)%Z.

  Definition params_of (cl : list (bic_cluster M)) (k : nat) : nat :=
    match nth_error cl k with
    | Some c => Z.to_nat (np_count_above (bc_train_inverse c) (flit "2e-05"))
    | None => 0%nat
    end.

  Theorem g_bic_eq (cl : list (bic_cluster M)) (labels : list nat) :
    Forall (fun l => (l < length cl)%nat) labels ->
    g_bayesian_information_criterion F add sub mul of_int M flit np_log np_slogdet_logabs np_trace_dot np_count_above
      (mk_bic_model (mk_bic_args (Z.of_nat (length cl))) cl (map Z.of_nat labels))
    = Ret (bic zero two add sub mul of_nat
               (run_params (params_of cl) labels)
               (np_log (of_nat (length labels)))
               (map (fun c => np_slogdet_logabs (bc_train_inverse c)) cl)
               (map (fun c => np_trace_dot (bc_train_inverse c) (bc_empirical_covariance c)) cl)).
  Proof.
    intros Hall.
    unfold g_bayesian_information_criterion.
    cbn [bm_arguments bm_clusters bm_point_labels ba_num_clusters].
    rewrite zrange_of_nat.
    set (cnt := fun c : bic_cluster M => np_count_above (bc_train_inverse c) (flit "2e-05")).
    set (h := fun c : bic_cluster M =>
                sub (np_slogdet_logabs (bc_train_inverse c))
                    (np_trace_dot (bc_train_inverse c) (bc_empirical_covariance c))).
    (* first loop *)
    match goal with |- bind (foldM ?f _ _) _ = _ => set (f1 := f) end.
    assert (H1 : foldM f1 (map Z.of_nat (seq 0 (length cl))) (of_int 0%Z, [])
                 = Ret (fold_left add (map h cl) (of_int 0%Z), dict_fill cnt 0 cl [])).
    { apply (cluster_loop add h cnt cl f1) with (pre := []); [|reflexivity].
      intros m d k c Hk. unfold f1. cbv beta iota.
      rewrite (py_getitem_nat cl k c Hk). cbn [bind]. reflexivity. }
    rewrite H1. cbn [bind]. clear H1 f1.
    (* second loop *)
    match goal with |- bind (foldM ?f _ _) _ = _ => set (f2 := f) end.
    destruct (label_loop (params_of cl) f2 (length cl)) with (labels := labels) (acc := 0%Z) (last := @None nat)
      as [lz H2].
    { intros acc last l Hl. unfold f2. cbv beta iota.
      destruct (nth_error cl l) as [c|] eqn:Hc; [|apply nth_error_None in Hc; lia].
      assert (Hp : Z.of_nat (params_of cl l) = cnt c).
      { unfold params_of. rewrite Hc. apply Z2Nat.id. apply count_nonneg. }
      assert (Hg : py_dict_get (dict_fill cnt 0 cl []) (Z.of_nat l) = Ret (cnt c)).
      { apply dict_fill_get; [lia|]. rewrite Nat.sub_0_r. exact Hc. }
      destruct last as [x|]; cbn [zlast].
      - destruct (Nat.eqb_spec x l) as [He|He].
        + subst x. rewrite Z.eqb_refl. cbn [negb bind]. rewrite Nat2Z.inj_0, Z.add_0_r. reflexivity.
        + replace (Z.of_nat l =? Z.of_nat x)%Z with false by (symmetry; apply Z.eqb_neq; lia).
          cbn [negb]. rewrite Hg. cbn [bind]. rewrite Hp. reflexivity.
      - replace (Z.of_nat l =? -1)%Z with false by (symmetry; apply Z.eqb_neq; lia).
        cbn [negb]. rewrite Hg. cbn [bind]. rewrite Hp. reflexivity. }
    { exact Hall. }
    cbn [zlast] in H2. change (- (1))%Z with (-1)%Z. rewrite H2. cbn [bind]. clear H2 f2.
    unfold bic, mod_lle, run_params, py_len.
    rewrite map_length, map2_map. rewrite Z.add_0_l, !of_int_nat, of_int_0, of_int_2.
    reflexivity.
  Qed.
End E.
Print Assumptions g_bic_eq.
