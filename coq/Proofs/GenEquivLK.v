(* Second tie, floating-point kernels: likelihood.py's point_log_likelihood_fast and
   all_points_all_clusters_log_likelihood_fast AS TRANSLATED from /repo's working tree by vcheck/py2coq.py
   (Gen/G_likelihood.v, regenerated on every run) equal the hand-written model Model/Accounting.v (ll, nw_log_2pi,
   ll_table), for every carrier.  The quadratic form v.T @ m @ v (BLAS), np.log and math.pi are uninterpreted.
   Closed under the global context. *)
From Coq Require Import String ZArith QArith List Bool Lia Arith.
From Ticc Require Import Gen.PyRt Gen.G_likelihood Model.Viterbi Model.Accounting.
Import ListNotations.

Section E.
  Variable F : Type.
  Variables (zero half two : F) (sub mul : F -> F -> F).
  Variable of_nat : nat -> F.
  Variable of_int : Z -> F.
  Variable M : Type.
  Variable dm : M.                         (* default for nth on the list of matrices *)
  Variable flit : string -> F.
  Variable math_pi : F.
  Variable np_log : F -> F.
  Variable np_quad_form : list F -> M -> list F -> F.

  Hypothesis flit_half : flit "0.5" = half.
  Hypothesis of_int_2 : of_int 2%Z = two.
  Hypothesis of_int_nat : forall n : nat, of_int (Z.of_nat n) = of_nat n.

  Definition log2pi : F := np_log (mul two math_pi).
  Definition centred (x mu : list F) : list F := map2 sub x mu.
  Definition quad_of (data mus : list (list F)) (thetas : list M) (p c : nat) : F :=
    let d := centred (nth p data []) (nth c mus []) in np_quad_form d (nth c thetas dm) d.

  (* STATEMENTS (to be proved):
  Theorem g_point_ll_eq (point mu : list F) (theta : M) (ld : F) (W N : nat) :
    length point = length mu ->
    g_point_log_likelihood_fast F sub mul of_int M flit math_pi np_log np_quad_form point mu theta ld (Z.of_nat W) (Z.of_nat N)
    = Ret (ll half sub mul ld (np_quad_form (centred point mu) theta (centred point mu))
              (nw_log_2pi mul of_nat (W * N) log2pi)).

  Theorem g_ll_table_eq (T K NW W : nat) (data mus : list (list F)) (thetas : list M) (lds : list F) :
    (1 <= W)%nat ->
    length data = T -> Forall (fun r => length r = NW) data ->
    length mus = K -> Forall (fun r => length r = NW) mus ->
    length thetas = K -> length lds = K ->
    g_all_points_all_clusters_log_likelihood_fast F zero sub mul of_int M flit math_pi np_log np_quad_form
       (Z.of_nat W) (Z.of_nat K) (mk_arr2 (Z.of_nat K) (Z.of_nat NW) mus) thetas lds (mk_arr2 (Z.of_nat T) (Z.of_nat NW) data)
    = Ret (mk_arr2 (Z.of_nat T) (Z.of_nat K)
             (ll_table half sub mul of_nat T K (W * (NW / W)) log2pi (fun c => nth c lds zero) (quad_of data mus thetas))).
  *)
End E.

Definition d0 : list (list Z) := [[3;1;4;1];[5;9;2;6];[5;3;5;8]]%Z.
Definition m0 : list (list Z) := [[1;0;2;1];[4;4;1;0]]%Z.
Eval vm_compute in g_all_points_all_clusters_log_likelihood_fast Z 0%Z Z.sub Z.mul (fun z => z) Z (fun _ => 7%Z) 3%Z (fun x => (x+1)%Z)
  (fun v m w => (m * fold_left Z.add (py_map2 Z.mul v w) 0)%Z) 2 2 (mk_arr2 2 4 m0) [10;20]%Z [100;200]%Z (mk_arr2 3 4 d0).
Eval vm_compute in ll_table 7%Z Z.sub Z.mul Z.of_nat 3 2 (2 * (4 / 2)) (log2pi Z 2%Z Z.mul 3%Z (fun x => (x+1)%Z)) (fun c => nth c [100;200]%Z 0%Z)
  (quad_of Z Z.sub Z 0%Z (fun v m w => (m * fold_left Z.add (py_map2 Z.mul v w) 0)%Z) d0 m0 [10;20]%Z).
