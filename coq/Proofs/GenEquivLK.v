(* Second tie, floating-point kernels: likelihood.py's point_log_likelihood_fast and
   all_points_all_clusters_log_likelihood_fast AS TRANSLATED from /repo's working tree by vcheck/py2coq.py
   (Gen/G_likelihood.v, regenerated on every run) equal the hand-written model Model/Accounting.v (ll, nw_log_2pi,
   ll_table), for every carrier.  The quadratic form v.T @ m @ v (BLAS), np.log and math.pi are uninterpreted.
   Closed under the global context. *)
From Coq Require Import String ZArith QArith List Bool Lia Arith.
From Ticc Require Import Gen.PyRt Gen.G_likelihood Model.Viterbi Model.Accounting.
Import ListNotations.


(* ------------------------------------------------------------------ *)
(* generic list / run-time facts (copied from GenEquivLA.v)            *)
(* ------------------------------------------------------------------ *)
Lemma lk_getitem_nat {A : Type} (l : list A) (k : nat) (d : A) : (k < length l)%nat ->
  py_getitem l (Z.of_nat k) = Ret (nth k l d).
Proof.
  intros Hk. unfold py_getitem, py_len.
  replace (Z.of_nat k <? 0)%Z with false by lia.
  replace ((Z.of_nat k <? 0)%Z || (Z.of_nat (length l) <=? Z.of_nat k)%Z) with false by lia.
  rewrite Nat2Z.id, (nth_error_nth' l d Hk). reflexivity.
Qed.

Lemma lk_set_index_nat {A : Type} (l : list A) (k : nat) (v : A) : (k < length l)%nat ->
  py_set_index l (Z.of_nat k) v = Ret (set_nth k v l).
Proof.
  intros Hk. unfold py_set_index, py_len.
  replace (Z.of_nat k <? 0)%Z with false by lia.
  replace ((Z.of_nat k <? 0)%Z || (Z.of_nat (length l) <=? Z.of_nat k)%Z) with false by lia.
  rewrite Nat2Z.id. reflexivity.
Qed.

Lemma lk_set_nth_length {A : Type} (k : nat) (v : A) (l : list A) : length (set_nth k v l) = length l.
Proof.
  revert k. induction l as [|x l IH]; intros k; [destruct k; reflexivity|].
  destruct k as [|k]; cbn [set_nth length]; [reflexivity|]. rewrite IH. reflexivity.
Qed.

Lemma lk_nth_set_nth_same {A : Type} (k : nat) (v d : A) (l : list A) : (k < length l)%nat ->
  nth k (set_nth k v l) d = v.
Proof.
  revert k. induction l as [|x l IH]; intros k Hk; cbn [length] in Hk; [lia|].
  destruct k as [|k]; cbn [set_nth nth]; [reflexivity|]. apply IH. lia.
Qed.

Lemma lk_set_nth_twice {A : Type} (k : nat) (v w : A) (l : list A) :
  set_nth k w (set_nth k v l) = set_nth k w l.
Proof.
  revert k. induction l as [|x l IH]; intros k; [destruct k; reflexivity|].
  destruct k as [|k]; cbn [set_nth]; [reflexivity|]. rewrite IH. reflexivity.
Qed.

Lemma lk_set_nth_self {A : Type} (k : nat) (d : A) (l : list A) : set_nth k (nth k l d) l = l.
Proof.
  revert k. induction l as [|x l IH]; intros k; [destruct k; reflexivity|].
  destruct k as [|k]; cbn [set_nth nth]; [reflexivity|]. rewrite IH. reflexivity.
Qed.

Lemma lk_set_nth_mid {A : Type} (pre post : list A) (x y : A) :
  set_nth (length pre) y (pre ++ x :: post) = pre ++ y :: post.
Proof. induction pre as [|p pre IH]; cbn [length app set_nth]; [reflexivity|]. rewrite IH. reflexivity. Qed.

Lemma lk_skipn_cons {A : Type} (l : list A) : forall (n : nat) (d : A), (n < length l)%nat ->
  skipn n l = nth n l d :: skipn (S n) l.
Proof.
  induction l as [|x l IH]; intros n d Hn; cbn [length] in Hn; [lia|].
  destruct n as [|n]; [reflexivity|]. cbn [skipn nth]. rewrite (IH n d) by lia. reflexivity.
Qed.

Lemma lk_set_nth_fill {A : Type} (n : nat) (v : A) (pre row : list A) :
  length pre = n -> (n < length row)%nat ->
  set_nth n v (pre ++ skipn n row) = (pre ++ [v]) ++ skipn (S n) row.
Proof.
  intros Hp Hn. rewrite (lk_skipn_cons row n v Hn). subst n. rewrite lk_set_nth_mid, <- app_assoc. reflexivity.
Qed.

Lemma lk_Forall_nth_len {A : Type} (K : nat) (l : list (list A)) (i : nat) :
  Forall (fun r => length r = K) l -> (i < length l)%nat -> length (nth i l []) = K.
Proof. intros H Hi. rewrite Forall_forall in H. apply H, nth_In, Hi. Qed.

Lemma lk_Forall_repeat {A : Type} (P : A -> Prop) (x : A) (n : nat) : P x -> Forall P (repeat x n).
Proof. intros H. induction n as [|n IH]; cbn [repeat]; constructor; assumption. Qed.

Lemma lk_bin_vv {A : Type} (f : A -> A -> A) (a b : list A) : length a = length b ->
  np_bin_vv f a b = Ret (map2 f a b).
Proof. intros H. unfold np_bin_vv. rewrite H, Nat.eqb_refl. reflexivity. Qed.

Lemma lk_row_nat {A : Type} (r k : Z) (cells : list (list A)) (i : nat) : (i < length cells)%nat ->
  np_row (mk_arr2 r k cells) (Z.of_nat i) = Ret (nth i cells []).
Proof. intros Hi. unfold np_row. cbn [a_cells]. apply lk_getitem_nat, Hi. Qed.

Lemma lk_set2_nat {A : Type} (r k : Z) (cells : list (list A)) (i j : nat) (v : A) :
  (i < length cells)%nat -> (j < length (nth i cells []))%nat ->
  np_set2 (mk_arr2 r k cells) (Z.of_nat i) (Z.of_nat j) v
  = Ret (mk_arr2 r k (set_nth i (set_nth j v (nth i cells [])) cells)).
Proof.
  intros Hi Hj. unfold np_set2. cbn [a_cells a_rows a_cols]. rewrite (lk_getitem_nat _ _ [] Hi). cbn [bind].
  rewrite (lk_set_index_nat _ _ _ Hj). cbn [bind].
  replace (Z.of_nat i <? 0)%Z with false by lia. rewrite Nat2Z.id. reflexivity.
Qed.

(* a loop that stores one computed value per column into row i of an array *)
Lemma lk_fill_row {A : Type} (body : arr2 A -> Z -> res (arr2 A)) (h : nat -> A) (i K : nat) (ra ka : Z) :
  (forall c ca, (c < K)%nat -> (i < length ca)%nat -> length (nth i ca []) = K ->
      body (mk_arr2 ra ka ca) (Z.of_nat c)
      = Ret (mk_arr2 ra ka (set_nth i (set_nth c (h c) (nth i ca [])) ca))) ->
  forall ca, (i < length ca)%nat -> length (nth i ca []) = K ->
  forall n, (n <= K)%nat ->
    foldM body (map Z.of_nat (seq 0 n)) (mk_arr2 ra ka ca)
    = Ret (mk_arr2 ra ka (set_nth i (map h (seq 0 n) ++ skipn n (nth i ca [])) ca)).
Proof.
  intros Hbody ca Hia Hra. induction n as [|n IH]; intros Hn.
  - cbn [seq map foldM app skipn]. rewrite lk_set_nth_self. reflexivity.
  - rewrite seq_S, map_app, foldM_app, IH by lia. cbn [bind Nat.add map foldM].
    assert (Hla : length (map h (seq 0 n) ++ skipn n (nth i ca [])) = K)
      by (rewrite app_length, map_length, seq_length, skipn_length; lia).
    rewrite Hbody; try (rewrite ?lk_set_nth_length, ?lk_nth_set_nth_same; solve [assumption | lia]).
    cbn [bind]. rewrite lk_nth_set_nth_same by assumption. rewrite lk_set_nth_twice.
    rewrite lk_set_nth_fill by (rewrite ?map_length, ?seq_length; lia).
    rewrite map_app. reflexivity.
Qed.

(* a loop that replaces one row per iteration by a computed row of the same width *)
Lemma lk_fill_rows {A : Type} (body : arr2 A -> Z -> res (arr2 A)) (g : nat -> list A) (T K : nat) (ra ka : Z) :
  (forall p, (p < T)%nat -> length (g p) = K) ->
  (forall p ca, (p < T)%nat -> length ca = T -> Forall (fun r => length r = K) ca ->
      body (mk_arr2 ra ka ca) (Z.of_nat p) = Ret (mk_arr2 ra ka (set_nth p (g p) ca))) ->
  forall ca, length ca = T -> Forall (fun r => length r = K) ca ->
  forall n, (n <= T)%nat ->
    foldM body (map Z.of_nat (seq 0 n)) (mk_arr2 ra ka ca)
    = Ret (mk_arr2 ra ka (map g (seq 0 n) ++ skipn n ca)).
Proof.
  intros Hg Hbody ca Hlen Hw. induction n as [|n IH]; intros Hn.
  - reflexivity.
  - rewrite seq_S, map_app, foldM_app, IH by lia. cbn [bind Nat.add map foldM].
    rewrite Hbody.
    + cbn [bind]. rewrite lk_set_nth_fill by (rewrite ?map_length, ?seq_length; lia).
      rewrite map_app. reflexivity.
    + lia.
    + rewrite app_length, map_length, seq_length, skipn_length. lia.
    + apply Forall_app. split.
      * apply Forall_forall. intros r Hr. apply in_map_iff in Hr. destruct Hr as [p [Hp Hin]].
        subst r. apply Hg. apply in_seq in Hin. lia.
      * apply Forall_forall. intros r Hr. rewrite Forall_forall in Hw. apply Hw.
        rewrite <- (firstn_skipn n ca). apply in_or_app. right. exact Hr.
Qed.

(* int(a / b) on two naturals *)
Lemma lk_int_div (a b : nat) : (1 <= b)%nat ->
  exists q : Q, py_truediv_int (Z.of_nat a) (Z.of_nat b) = Ret q /\ py_int_of_float q = Z.of_nat (a / b).
Proof.
  intros Hb. unfold py_truediv_int.
  replace (Z.of_nat b =? 0)%Z with false by lia.
  eexists. split; [reflexivity|].
  rewrite Nat2Z.inj_div.
  destruct (Z.of_nat b) as [|pb|pb] eqn:Eb; [lia| |lia].
  unfold py_int_of_float, Qdiv, Qinv, Qmult, inject_Z. cbn [Qnum Qden].
  rewrite Z.mul_1_r. change (1 * pb)%positive with pb.
  apply Z.quot_div_nonneg; lia.
Qed.

Section E.
  Variable F : Type.
  Variables (zero half two : F) (sub mul : F -> F -> F).
  Variable of_nat : nat -> F.
  Variable of_int : Z -> F.
  Variable M : Type.
  Variable dm : M.                         (* default for nth on the list of matrices *)
  Variable flit : string -> F.
  Variable math_pi : F.
  Variable np_log : F -> F.
  Variable np_quad_form : list F -> M -> list F -> F.

  Hypothesis flit_half : flit "0.5" = half.
  Hypothesis of_int_2 : of_int 2%Z = two.
  Hypothesis of_int_nat : forall n : nat, of_int (Z.of_nat n) = of_nat n.

  Definition log2pi : F := np_log (mul two math_pi).
  Definition centred (x mu : list F) : list F := map2 sub x mu.
  Definition quad_of (data mus : list (list F)) (thetas : list M) (p c : nat) : F :=
    let d := centred (nth p data []) (nth c mus []) in np_quad_form d (nth c thetas dm) d.

  Theorem g_point_ll_eq (point mu : list F) (theta : M) (ld : F) (W N : nat) :
    length point = length mu ->
    g_point_log_likelihood_fast F sub mul of_int M flit math_pi np_log np_quad_form point mu theta ld (Z.of_nat W) (Z.of_nat N)
    = Ret (ll half sub mul ld (np_quad_form (centred point mu) theta (centred point mu))
              (nw_log_2pi mul of_nat (W * N) log2pi)).
  Proof.
    intros Hlen. unfold g_point_log_likelihood_fast.
    rewrite (lk_bin_vv sub point mu Hlen). cbn [bind].
    rewrite <- Nat2Z.inj_mul, of_int_nat, of_int_2, flit_half.
    reflexivity.
  Qed.

  Theorem g_ll_table_eq (T K NW W : nat) (data mus : list (list F)) (thetas : list M) (lds : list F) :
    (1 <= W)%nat ->
    length data = T -> Forall (fun r => length r = NW) data ->
    length mus = K -> Forall (fun r => length r = NW) mus ->
    length thetas = K -> length lds = K ->
    g_all_points_all_clusters_log_likelihood_fast F zero sub mul of_int M flit math_pi np_log np_quad_form
       (Z.of_nat W) (Z.of_nat K) (mk_arr2 (Z.of_nat K) (Z.of_nat NW) mus) thetas lds (mk_arr2 (Z.of_nat T) (Z.of_nat NW) data)
    = Ret (mk_arr2 (Z.of_nat T) (Z.of_nat K)
             (ll_table half sub mul of_nat T K (W * (NW / W)) log2pi (fun c => nth c lds zero) (quad_of data mus thetas))).
  Proof.
    intros HW Hld Hwd Hlm Hwm Hlt Hll.
    unfold g_all_points_all_clusters_log_likelihood_fast. cbn [a_rows a_cols].
    destruct (lk_int_div NW W HW) as [q [Hq Hqi]]. rewrite Hq. cbn [bind]. rewrite Hqi.
    unfold np_zeros2. replace ((Z.of_nat T <? 0)%Z || (Z.of_nat K <? 0)%Z) with false by lia.
    rewrite !Nat2Z.id. cbn [bind]. rewrite !zrange_of_nat.
    set (cell := fun p c : nat => ll half sub mul (nth c lds zero) (quad_of data mus thetas p c)
                                   (nw_log_2pi mul of_nat (W * (NW / W)) log2pi)).
    rewrite (lk_fill_rows _ (fun p => map (cell p) (seq 0 K)) T K).
    - cbn [bind]. rewrite skipn_all2 by (rewrite repeat_length; lia). rewrite app_nil_r. reflexivity.
    - intros p Hp. rewrite map_length, seq_length. reflexivity.
    - intros p ca Hp Hlca Hwca.
      rewrite (lk_fill_row _ (cell p) p K).
      + cbn [bind]. rewrite skipn_all2 by (rewrite (lk_Forall_nth_len K); [lia|assumption|lia]).
        rewrite app_nil_r. reflexivity.
      + intros c cb Hc Hpcb Hrow.
        rewrite (lk_row_nat _ _ data p) by lia. cbn [bind].
        rewrite (lk_row_nat _ _ mus c) by lia. cbn [bind].
        rewrite (lk_getitem_nat thetas c dm) by lia. cbn [bind].
        rewrite (lk_getitem_nat lds c zero) by lia. cbn [bind].
        rewrite g_point_ll_eq.
        * cbn [bind]. rewrite (lk_set2_nat _ _ cb p c) by lia. cbn [bind]. reflexivity.
        * rewrite (lk_Forall_nth_len NW data p), (lk_Forall_nth_len NW mus c); try assumption; lia.
      + lia.
      + apply lk_Forall_nth_len; [assumption|lia].
      + lia.
    - apply repeat_length.
    - apply lk_Forall_repeat, repeat_length.
    - lia.
  Qed.
End E.

Print Assumptions g_point_ll_eq.
Print Assumptions g_ll_table_eq.

Definition d0 : list (list Z) := [[3;1;4;1];[5;9;2;6];[5;3;5;8]]%Z.
Definition m0 : list (list Z) := [[1;0;2;1];[4;4;1;0]]%Z.
Eval vm_compute in g_all_points_all_clusters_log_likelihood_fast Z 0%Z Z.sub Z.mul (fun z => z) Z (fun _ => 7%Z) 3%Z (fun x => (x+1)%Z)
  (fun v m w => (m * fold_left Z.add (py_map2 Z.mul v w) 0)%Z) 2 2 (mk_arr2 2 4 m0) [10;20]%Z [100;200]%Z (mk_arr2 3 4 d0).
Eval vm_compute in ll_table 7%Z Z.sub Z.mul Z.of_nat 3 2 (2 * (4 / 2)) (log2pi Z 2%Z Z.mul 3%Z (fun x => (x+1)%Z)) (fun c => nth c [100;200]%Z 0%Z)
  (quad_of Z Z.sub Z 0%Z (fun v m w => (m * fold_left Z.add (py_map2 Z.mul v w) 0)%Z) d0 m0 [10;20]%Z).
