(* Second tie, skeleton mode: the phases of one round (repopulation, statistics update, labelling step) AS TRANSLATED from /repo's working tree
   (Gen/G_*.v, regenerated on every run; every callee an uninterpreted oracle asked after the call is logged): which calls a
   returning run made, in which order, on which values.  Closed under the global context. *)
From Coq Require Import String ZArith List Bool Lia Arith.
From Ticc Require Import Gen.PyRt Gen.PySkel Gen.G_cm_repopulate Gen.G_cm_update_all Gen.G_la_predict .
Import ListNotations.
Local Open Scope string_scope.

Section E.
  Variable V : Type.
  Variable vnone : V.
  Variable vint : Z -> V.
  Variable as_int : V -> option Z.
  Variable veq : V -> V -> bool.
  Variable getattr : V -> string -> V.
  Variable truthy : V -> bool.
  Variable is_none : V -> bool.
  Variables vtrue vfalse : V.
  Variable as_list : V -> list V.
  Variable vglobal : string -> V.
  Variable oracle : list (event V) -> string -> list V -> res V.


  Definition f_table := "likelihood.all_points_all_clusters_log_likelihood".
  Definition f_assign := "assign_point_cluster_labels(label_assignment_cost=,label_switching_cost=)".
  Definition f_deep_new := "expr:[cluster.deep_copy() for cluster in new_model.clusters]".
  Definition f_deep := "expr:[cluster.deep_copy() for cluster in model.clusters]".
  Definition f_members := "expr:{cluster_id: [] for cluster_id in range(num_clusters)}".
  Definition f_store := "store:updated_model.clusters[cluster_id]".

  (* ---------------------------------------------------------------- the monad, one step at a time *)

  Lemma bind_call : forall (B : Type) (f : string) (a : list V) (k : V -> M V B) (log : list (event V)),
    mbind (call oracle f a) k log
    = match oracle log f a with
      | Ret v => k v (log ++ [Ev f a])%list
      | Raise e => (Raise e, (log ++ [Ev f a])%list)
      end.
  Proof.
    intros B f a k log. unfold mbind, call.
    destruct (oracle log f a) as [v|e]; reflexivity.
  Qed.

  Lemma bind_ret : forall (A B : Type) (a : A) (k : A -> M V B) (log : list (event V)),
    mbind (mret a) k log = k a log.
  Proof. intros A B a k log. reflexivity. Qed.

  Lemma mbind_assoc : forall (A B C : Type) (m : M V A) (f : A -> M V B) (k : B -> M V C) (log : list (event V)),
    mbind (mbind m f) k log = mbind m (fun a => mbind (f a) k) log.
  Proof.
    intros A B C m f k log. unfold mbind.
    destruct (m log) as [[a|e] l1]; reflexivity.
  Qed.

  Lemma snoc2 : forall (A : Type) (l : list A) (a : A) (t : list A), ((l ++ [a]) ++ t = l ++ a :: t)%list.
  Proof. intros A l a t. rewrite <- app_assoc. reflexivity. Qed.

  Lemma ret_inj : forall (A L : Type) (a b : A) (l1 l2 : L), (Ret a, l1) = (Ret b, l2) -> a = b /\ l1 = l2.
  Proof. intros A L a b l1 l2 H. inversion H. split; reflexivity. Qed.

  Lemma mbind_ret_inv : forall (A B : Type) (m : M V A) (k : A -> M V B) (log log' : list (event V)) (b : B),
    mbind m k log = (Ret b, log') -> exists a l1, m log = (Ret a, l1) /\ k a l1 = (Ret b, log').
  Proof.
    intros A B m k log log' b H. unfold mbind in H.
    destruct (m log) as [[a|e] l1] eqn:Hm.
    - exists a, l1. split; [reflexivity|exact H].
    - discriminate H.
  Qed.

  Ltac step H v e Heq :=
    rewrite bind_call in H;
    match type of H with
    | match ?o with _ => _ end = _ =>
      let ov := fresh "ov" in
      remember o as ov eqn:Heq in H; symmetry in Heq; destruct ov as [v|e]; [|discriminate H]
    end;
    cbv beta zeta in H.
  Ltac norm H := repeat (rewrite <- app_assoc in H; cbn [app] in H).
  Ltac normg := repeat (rewrite <- app_assoc; cbn [app]).

  (* ================================================================ A. predict_cluster_labels *)

  (* a call that returns: computed the likelihood table of THIS model on THIS data, negated it, asked whether the model's
     label_switching_cost is a numbers.Real and only then converted it with float, ran the labelling on the NEGATED table and
     that cost, copied the model (shallow copy + deep copies of the copy's clusters) and stored in the copy the labels and the
     cost that are the two components of the SAME labelling answer; the value returned is the answer of the last setattr *)
  Theorem predict_returns (model data r : V) (log log' : list (event V)) :
    g_predict_cluster_labels V getattr truthy vglobal oracle model data log = (Ret r, log') ->
    let beta := getattr (getattr model "arguments") "label_switching_cost" in
    exists table neg isr beta' lab m0 cl m1 m2,
      let pre := (log ++ [Ev f_table [model; data]; Ev "op:neg" [table];
                          Ev "isinstance" [beta; vglobal "numbers.Real"]]
                      ++ (if truthy isr then [Ev "float" [beta]] else []))%list in
      log' = (pre ++ [Ev f_assign [neg; beta'];
                      Ev "method:shallow_copy" [model];
                      Ev f_deep_new [m0];
                      Ev "setattr:clusters" [m0; cl];
                      Ev "setattr:point_labels" [m1; getattr lab "[0]"];
                      Ev "setattr:label_assignment_cost" [m2; getattr lab "[1]"]])%list /\
      oracle log f_table [model; data] = Ret table /\
      oracle (log ++ [Ev f_table [model; data]])%list "op:neg" [table] = Ret neg /\
      oracle (log ++ [Ev f_table [model; data]; Ev "op:neg" [table]])%list
             "isinstance" [beta; vglobal "numbers.Real"] = Ret isr /\
      (if truthy isr
       then oracle (log ++ [Ev f_table [model; data]; Ev "op:neg" [table];
                            Ev "isinstance" [beta; vglobal "numbers.Real"]])%list "float" [beta] = Ret beta'
       else beta' = beta) /\
      oracle pre f_assign [neg; beta'] = Ret lab /\
      oracle (pre ++ [Ev f_assign [neg; beta'];
                      Ev "method:shallow_copy" [model];
                      Ev f_deep_new [m0];
                      Ev "setattr:clusters" [m0; cl];
                      Ev "setattr:point_labels" [m1; getattr lab "[0]"]])%list
             "setattr:label_assignment_cost" [m2; getattr lab "[1]"] = Ret r.
  Proof.
    intros Hrun beta.
    unfold g_predict_cluster_labels in Hrun.
    step Hrun table e1 Htab.
    step Hrun neg e2 Hneg.
    step Hrun isr e3 Hisr.
    fold beta in Hrun, Hisr.
    destruct (truthy isr) eqn:Htr.
    - rewrite mbind_assoc in Hrun.
      step Hrun beta' e4 Hfl.
      rewrite bind_ret in Hrun.
      step Hrun lab e5 Hlab.
      step Hrun m0 e6 Hcopy.
      step Hrun cl e7 Hdeep.
      step Hrun m1 e8 Hs1.
      step Hrun m2 e9 Hs2.
      step Hrun m3 e10 Hs3.
      unfold mret in Hrun. apply ret_inj in Hrun. destruct Hrun as [Hr Hlog].
      exists table, neg, isr, beta', lab, m0, cl, m1, m2.
      cbv zeta. rewrite Htr. unfold f_table, f_assign, f_deep_new.
      rewrite ?snoc2 in Hlog. rewrite ?snoc2 in Hneg. rewrite ?snoc2 in Hisr. rewrite ?snoc2 in Hfl. rewrite ?snoc2 in Hlab. rewrite ?snoc2 in Hs3.
      normg.
      split; [symmetry; exact Hlog|].
      split; [exact Htab|]. split; [exact Hneg|]. split; [exact Hisr|]. split; [exact Hfl|].
      split; [exact Hlab|]. rewrite <- Hr. exact Hs3.
    - rewrite bind_ret in Hrun.
      step Hrun lab e5 Hlab.
      step Hrun m0 e6 Hcopy.
      step Hrun cl e7 Hdeep.
      step Hrun m1 e8 Hs1.
      step Hrun m2 e9 Hs2.
      step Hrun m3 e10 Hs3.
      unfold mret in Hrun. apply ret_inj in Hrun. destruct Hrun as [Hr Hlog].
      exists table, neg, isr, beta, lab, m0, cl, m1, m2.
      cbv zeta. rewrite Htr. unfold f_table, f_assign, f_deep_new.
      rewrite ?snoc2 in Hlog. rewrite ?snoc2 in Hneg. rewrite ?snoc2 in Hisr. rewrite ?snoc2 in Hlab. rewrite ?snoc2 in Hs3.
      normg.
      split; [symmetry; exact Hlog|].
      split; [exact Htab|]. split; [exact Hneg|]. split; [exact Hisr|]. split; [reflexivity|].
      split; [exact Hlab|]. rewrite <- Hr. exact Hs3.
  Qed.

  (* ================================================================ B. repopulate_empty_clusters *)

  (* the scan: the call made for one (cluster_id, cluster) pair - add the id to the set iff the cluster has fewer than 2 members *)
  Definition scan_one (s p : V) : list (event V) :=
    match as_int (getattr (getattr p "[1]") "size") with
    | Some z => if (z <? 2)%Z then [Ev "method:add" [s; getattr p "[0]"]] else []
    | None => []
    end.
  Definition scan_events (s : V) (pairs : list V) : list (event V) := flat_map (scan_one s) pairs.

  Definition sized (p : V) : Prop := exists z, as_int (getattr (getattr p "[1]") "size") = Some z.

  (* the body of the scan loop, as generated (the lets unfolded) *)
  Definition scan_body (s : V) : unit -> V -> M V unit := fun _ t3_ =>
    t4_ <<- need_int as_int (getattr (getattr t3_ "[1]") "size") ;;
    _ <<- (if (t4_ <? 2)%Z then
             t5_ <<- call oracle "method:add" [s; getattr t3_ "[0]"] ;;
             mret tt
           else mret tt) ;;
    mret tt.

  Lemma scan_body_inv (s p : V) (u0 u : unit) (log0 log1 : list (event V)) :
    scan_body s u0 p log0 = (Ret u, log1) ->
    sized p /\ log1 = (log0 ++ scan_one s p)%list.
  Proof.
    unfold scan_body, scan_one, sized, need_int.
    destruct (as_int (getattr (getattr p "[1]") "size")) as [z|] eqn:Hz; intros H.
    - split; [exists z; reflexivity|].
      rewrite bind_ret in H.
      destruct (z <? 2)%Z.
      + rewrite mbind_assoc in H. step H a e1 Hadd.
        rewrite !bind_ret in H. unfold mret in H. apply ret_inj in H. destruct H as [_ Hlog].
        symmetry. exact Hlog.
      + rewrite !bind_ret in H. unfold mret in H. apply ret_inj in H. destruct H as [_ Hlog].
        rewrite app_nil_r. symmetry. exact Hlog.
    - cbv [mbind mraise] in H. discriminate H.
  Qed.

  Lemma scan_loop (s : V) : forall (pairs : list V) (u0 u : unit) (log0 log1 : list (event V)),
    for_each (scan_body s) pairs u0 log0 = (Ret u, log1) ->
    Forall sized pairs /\ log1 = (log0 ++ scan_events s pairs)%list.
  Proof.
    induction pairs as [|p pairs IH]; intros u0 u log0 log1 H.
    - cbn [for_each] in H. unfold mret in H. apply ret_inj in H. destruct H as [_ Hlog].
      split; [constructor|]. unfold scan_events. cbn [flat_map]. rewrite app_nil_r. symmetry. exact Hlog.
    - cbn [for_each] in H. apply mbind_ret_inv in H. destruct H as (u1 & l1 & Hbody & Hrest).
      apply scan_body_inv in Hbody. destruct Hbody as (Hsz & Hl1).
      apply IH in Hrest. destruct Hrest as (Hall & Hlog).
      split; [constructor; assumption|].
      unfold scan_events. cbn [flat_map]. fold (scan_events s pairs).
      rewrite Hlog, Hl1. rewrite <- app_assoc. reflexivity.
  Qed.

  (* the moves: the three calls made for one empty cluster e, in model state m with remaining donors rem;
     fd / mv are the answers of the first two *)
  Definition move_block (rem m e fd mv : V) : list (event V) :=
    [Ev "_find_point_donor" [m; rem];
     Ev "_move_random_points" [m; getattr fd "[0]"; e];
     Ev "setattr:point_labels" [m; mv]].
  (* ans: for each empty cluster the answers (fd, mv, m') of its three calls; the next block runs in state m' with the
     donors that fd left over *)
  Fixpoint move_events (rem m : V) (es : list V) (ans : list (V * V * V)) : list (event V) :=
    match es, ans with
    | e :: es', (fd, mv, m') :: ans' => move_block rem m e fd mv ++ move_events (getattr fd "[1]") m' es' ans'
    | _, _ => []
    end.
  Fixpoint last_state (m : V) (ans : list (V * V * V)) : V :=
    match ans with
    | [] => m
    | (_, _, m') :: ans' => last_state m' ans'
    end.
  (* the values in ans ARE the answers of those calls (l: the log before the first block) *)
  Fixpoint move_answers (l : list (event V)) (rem m : V) (es : list V) (ans : list (V * V * V)) : Prop :=
    match es, ans with
    | e :: es', (fd, mv, m') :: ans' =>
      oracle l "_find_point_donor" [m; rem] = Ret fd /\
      oracle (l ++ [Ev "_find_point_donor" [m; rem]])%list "_move_random_points" [m; getattr fd "[0]"; e] = Ret mv /\
      oracle (l ++ [Ev "_find_point_donor" [m; rem]; Ev "_move_random_points" [m; getattr fd "[0]"; e]])%list
             "setattr:point_labels" [m; mv] = Ret m' /\
      move_answers (l ++ move_block rem m e fd mv)%list (getattr fd "[1]") m' es' ans'
    | _, _ => True
    end.

  (* the body of the move loop, as generated (the lets unfolded) *)
  Definition move_body : V * V -> V -> M V (V * V) := fun '(remaining_donors, new_model) empty_cluster_id =>
    t12_ <<- call oracle "_find_point_donor" [new_model; remaining_donors] ;;
    t13_ <<- call oracle "_move_random_points" [new_model; getattr t12_ "[0]"; empty_cluster_id] ;;
    new_model' <<- call oracle "setattr:point_labels" [new_model; t13_] ;;
    mret (getattr t12_ "[1]", new_model').

  Lemma move_loop : forall (es : list V) (rem m : V) (st : V * V) (log0 log1 : list (event V)),
    for_each move_body es (rem, m) log0 = (Ret st, log1) ->
    exists ans,
      length ans = length es /\
      log1 = (log0 ++ move_events rem m es ans)%list /\
      snd st = last_state m ans /\
      move_answers log0 rem m es ans.
  Proof.
    induction es as [|e es IH]; intros rem m st log0 log1 H.
    - cbn [for_each] in H. unfold mret in H. apply ret_inj in H. destruct H as [Hst Hlog].
      exists []. split; [reflexivity|]. split; [cbn [move_events]; rewrite app_nil_r; symmetry; exact Hlog|].
      split; [rewrite <- Hst; reflexivity|exact I].
    - cbn [for_each] in H. apply mbind_ret_inv in H. destruct H as (st1 & l1 & Hbody & Hrest).
      unfold move_body in Hbody.
      step Hbody fd e1 Hfd.
      step Hbody mv e2 Hmv.
      step Hbody m' e3 Hset.
      unfold mret in Hbody. apply ret_inj in Hbody. destruct Hbody as [Hst1 Hl1].
      rewrite <- Hst1 in Hrest.
      apply IH in Hrest. destruct Hrest as (ans & Hlen & Hlog & Hfin & Hans).
      rewrite ?snoc2 in Hl1. rewrite ?snoc2 in Hset.
      exists ((fd, mv, m') :: ans).
      split; [cbn [length]; rewrite Hlen; reflexivity|].
      split; [cbn [move_events]; rewrite Hlog, <- Hl1; unfold move_block; rewrite <- app_assoc; reflexivity|].
      split; [exact Hfin|].
      cbn [move_answers]. split; [exact Hfd|]. split; [exact Hmv|]. split; [exact Hset|].
      unfold move_block. rewrite Hl1. exact Hans.
  Qed.

  (* everything a returning call did; the two theorems below read off the two branches *)
  Lemma repopulate_returns (model r : V) (log log' : list (event V)) :
    g_repopulate_empty_clusters V as_int getattr as_list oracle model log = (Ret r, log') ->
    exists s en lenv n,
      let base := (log ++ [Ev "set" []; Ev "enumerate" [getattr model "clusters"]]
                       ++ scan_events s (as_list en) ++ [Ev "len" [s]])%list in
      oracle log "set" [] = Ret s /\
      oracle (log ++ [Ev "set" []])%list "enumerate" [getattr model "clusters"] = Ret en /\
      Forall sized (as_list en) /\
      oracle (log ++ [Ev "set" []; Ev "enumerate" [getattr model "clusters"]] ++ scan_events s (as_list en))%list
             "len" [s] = Ret lenv /\
      as_int lenv = Some n /\
      if (n =? 0)%Z then r = model /\ log' = base
      else exists m0 cl m1 donors ans,
        length ans = length (as_list s) /\
        log' = (base ++ [Ev "method:shallow_copy" [model]; Ev f_deep [model]; Ev "setattr:clusters" [m0; cl];
                         Ev "_find_ranked_donor_cluster_ids" [m1]]
                     ++ move_events donors m1 (as_list s) ans)%list /\
        oracle base "method:shallow_copy" [model] = Ret m0 /\
        oracle (base ++ [Ev "method:shallow_copy" [model]; Ev f_deep [model]])%list "setattr:clusters" [m0; cl] = Ret m1 /\
        oracle (base ++ [Ev "method:shallow_copy" [model]; Ev f_deep [model]; Ev "setattr:clusters" [m0; cl]])%list
               "_find_ranked_donor_cluster_ids" [m1] = Ret donors /\
        move_answers (base ++ [Ev "method:shallow_copy" [model]; Ev f_deep [model]; Ev "setattr:clusters" [m0; cl];
                               Ev "_find_ranked_donor_cluster_ids" [m1]])%list donors m1 (as_list s) ans /\
        r = last_state m1 ans.
  Proof.
    intros Hrun.
    unfold g_repopulate_empty_clusters in Hrun.
    step Hrun s e1 Hset.
    step Hrun en e2 Henum.
    apply mbind_ret_inv in Hrun. destruct Hrun as (u & l1 & Hloop & Hrest).
    apply (scan_loop s) in Hloop. destruct Hloop as (Hsized & Hl1).
    step Hrest lenv e3 Hlen.
    unfold need_int in Hrest.
    destruct (as_int lenv) as [n|] eqn:Hn; [|cbv [mbind mraise] in Hrest; discriminate Hrest].
    rewrite bind_ret in Hrest.
    rewrite Hl1 in Hlen. rewrite Hl1 in Hrest. norm Hlen. norm Hrest.
    exists s, en, lenv, n. cbv zeta.
    normg.
    split; [exact Hset|]. split; [exact Henum|].
    split; [exact Hsized|]. split; [exact Hlen|]. split; [exact Hn|].
    destruct (n =? 0)%Z.
    - unfold mret in Hrest. apply ret_inj in Hrest. destruct Hrest as [Hr Hlog].
      split; [symmetry; exact Hr|]. rewrite <- Hlog. reflexivity.
    - step Hrest m0 e4 Hcopy.
      step Hrest cl e5 Hdeep.
      step Hrest m1 e6 Hsc.
      step Hrest donors e7 Hdon.
      apply mbind_ret_inv in Hrest. destruct Hrest as (st & l2 & Hmoves & Hret).
      apply move_loop in Hmoves. destruct Hmoves as (ans & Halen & Hl2 & Hfin & Hans).
      destruct st as [remf mf]. cbn [snd] in Hfin.
      unfold mret in Hret. apply ret_inj in Hret. destruct Hret as [Hr Hlog].
      exists m0, cl, m1, donors, ans. unfold f_deep.
      norm Hcopy. norm Hsc. norm Hdon. norm Hans. norm Hl2.
      normg.
      split; [exact Halen|].
      split; [rewrite <- Hlog, Hl2; reflexivity|].
      split; [exact Hcopy|]. split; [exact Hsc|]. split; [exact Hdon|]. split; [exact Hans|].
      rewrite <- Hr. exact Hfin.
  Qed.

  (* no cluster to repopulate (len of the set is 0): the model ITSELF is returned and nothing was called after len -
     no copy, no move, no setattr *)
  Theorem repopulate_noop (model r : V) (log log' : list (event V)) :
    g_repopulate_empty_clusters V as_int getattr as_list oracle model log = (Ret r, log') ->
    exists s en lenv n,
      oracle log "set" [] = Ret s /\
      oracle (log ++ [Ev "set" []])%list "enumerate" [getattr model "clusters"] = Ret en /\
      Forall sized (as_list en) /\
      oracle (log ++ [Ev "set" []; Ev "enumerate" [getattr model "clusters"]] ++ scan_events s (as_list en))%list
             "len" [s] = Ret lenv /\
      as_int lenv = Some n /\
      (n = 0%Z ->
       r = model /\
       log' = (log ++ [Ev "set" []; Ev "enumerate" [getattr model "clusters"]]
                   ++ scan_events s (as_list en) ++ [Ev "len" [s]])%list).
  Proof.
    intros Hrun. apply repopulate_returns in Hrun.
    destruct Hrun as (s & en & lenv & n & Hset & Henum & Hsized & Hlen & Hn & Hbr).
    exists s, en, lenv, n.
    split; [exact Hset|]. split; [exact Henum|]. split; [exact Hsized|]. split; [exact Hlen|]. split; [exact Hn|].
    intros Hz. rewrite Hz in Hbr. cbn [Z.eqb] in Hbr. exact Hbr.
  Qed.

  (* some cluster to repopulate: the model is copied (shallow copy + deep copies of the ORIGINAL's clusters), the donors are
     ranked once on the copy, and then for each element of the set, in the set's order: find a donor among the REMAINING
     donors in the CURRENT model, move points from that donor to the empty cluster, store the labels - each block running in
     the model state the previous block's setattr returned, with the donors the previous _find_point_donor left over *)
  Theorem repopulate_moves (model r : V) (log log' : list (event V)) :
    g_repopulate_empty_clusters V as_int getattr as_list oracle model log = (Ret r, log') ->
    exists s en lenv n,
      let base := (log ++ [Ev "set" []; Ev "enumerate" [getattr model "clusters"]]
                       ++ scan_events s (as_list en) ++ [Ev "len" [s]])%list in
      oracle log "set" [] = Ret s /\
      oracle (log ++ [Ev "set" []])%list "enumerate" [getattr model "clusters"] = Ret en /\
      Forall sized (as_list en) /\
      oracle (log ++ [Ev "set" []; Ev "enumerate" [getattr model "clusters"]] ++ scan_events s (as_list en))%list
             "len" [s] = Ret lenv /\
      as_int lenv = Some n /\
      (n <> 0%Z ->
       exists m0 cl m1 donors ans,
        length ans = length (as_list s) /\
        log' = (base ++ [Ev "method:shallow_copy" [model]; Ev f_deep [model]; Ev "setattr:clusters" [m0; cl];
                         Ev "_find_ranked_donor_cluster_ids" [m1]]
                     ++ move_events donors m1 (as_list s) ans)%list /\
        oracle base "method:shallow_copy" [model] = Ret m0 /\
        oracle (base ++ [Ev "method:shallow_copy" [model]; Ev f_deep [model]])%list "setattr:clusters" [m0; cl] = Ret m1 /\
        oracle (base ++ [Ev "method:shallow_copy" [model]; Ev f_deep [model]; Ev "setattr:clusters" [m0; cl]])%list
               "_find_ranked_donor_cluster_ids" [m1] = Ret donors /\
        move_answers (base ++ [Ev "method:shallow_copy" [model]; Ev f_deep [model]; Ev "setattr:clusters" [m0; cl];
                               Ev "_find_ranked_donor_cluster_ids" [m1]])%list donors m1 (as_list s) ans /\
        r = last_state m1 ans).
  Proof.
    intros Hrun. apply repopulate_returns in Hrun.
    destruct Hrun as (s & en & lenv & n & Hset & Henum & Hsized & Hlen & Hn & Hbr).
    exists s, en, lenv, n. cbv zeta.
    split; [exact Hset|]. split; [exact Henum|]. split; [exact Hsized|]. split; [exact Hlen|]. split; [exact Hn|].
    intros Hz. apply Z.eqb_neq in Hz. rewrite Hz in Hbr. exact Hbr.
  Qed.

  (* ================================================================ C. update_all_cluster_statistics *)

  (* the membership loop: for each (point_id, cluster_id) pair, fetch the member list of that cluster and append the point *)
  Fixpoint member_events (members : V) (pairs gs : list V) : list (event V) :=
    match pairs, gs with
    | p :: pairs', g :: gs' =>
      [Ev "getitem" [members; getattr p "[1]"]; Ev "method:append" [g; getattr p "[0]"]] ++ member_events members pairs' gs'
    | _, _ => []
    end.

  Definition member_body (members : V) : unit -> V -> M V unit := fun _ t3_ =>
    t4_ <<- call oracle "getitem" [members; getattr t3_ "[1]"] ;;
    t5_ <<- call oracle "method:append" [t4_; getattr t3_ "[0]"] ;;
    mret tt.

  Lemma member_loop (members : V) : forall (pairs : list V) (u0 u : unit) (log0 log1 : list (event V)),
    for_each (member_body members) pairs u0 log0 = (Ret u, log1) ->
    exists gs, length gs = length pairs /\ log1 = (log0 ++ member_events members pairs gs)%list.
  Proof.
    induction pairs as [|p pairs IH]; intros u0 u log0 log1 H.
    - cbn [for_each] in H. unfold mret in H. apply ret_inj in H. destruct H as [_ Hlog].
      exists []. split; [reflexivity|]. cbn [member_events]. rewrite app_nil_r. symmetry. exact Hlog.
    - cbn [for_each] in H. apply mbind_ret_inv in H. destruct H as (u1 & l1 & Hbody & Hrest).
      unfold member_body in Hbody.
      step Hbody g e1 Hget.
      step Hbody a e2 Happ.
      unfold mret in Hbody. apply ret_inj in Hbody. destruct Hbody as [_ Hl1].
      apply IH in Hrest. destruct Hrest as (gs & Hlen & Hlog).
      exists (g :: gs). split; [cbn [length]; rewrite Hlen; reflexivity|].
      cbn [member_events]. rewrite Hlog, <- Hl1. rewrite !snoc2. reflexivity.
  Qed.

  (* the refresh loop: the three calls made for cluster k in model state u; c / c' are the answers of the first two *)
  Definition refresh_block (model data : V) (k : nat) (u c c' : V) : list (event V) :=
    [Ev "getitem" [getattr u "clusters"; vint (Z.of_nat k)];
     Ev "update_cluster_member_data_statistics" [c; data; getattr (getattr model "arguments") "biased_covariance"];
     Ev f_store [u; vint (Z.of_nat k); c']].
  (* ans: for clusters k, k+1, ... the answers (c, c', u') of their three calls; the next block runs in state u' *)
  Fixpoint refresh_events (model data : V) (k : nat) (u : V) (ans : list (V * V * V)) : list (event V) :=
    match ans with
    | [] => []
    | (c, c', u') :: ans' => refresh_block model data k u c c' ++ refresh_events model data (S k) u' ans'
    end.
  Fixpoint refresh_answers (model data : V) (l : list (event V)) (k : nat) (u : V) (ans : list (V * V * V)) : Prop :=
    match ans with
    | [] => True
    | (c, c', u') :: ans' =>
      oracle l "getitem" [getattr u "clusters"; vint (Z.of_nat k)] = Ret c /\
      oracle (l ++ [Ev "getitem" [getattr u "clusters"; vint (Z.of_nat k)]])%list
             "update_cluster_member_data_statistics" [c; data; getattr (getattr model "arguments") "biased_covariance"] = Ret c' /\
      oracle (l ++ [Ev "getitem" [getattr u "clusters"; vint (Z.of_nat k)];
                    Ev "update_cluster_member_data_statistics" [c; data; getattr (getattr model "arguments") "biased_covariance"]])%list
             f_store [u; vint (Z.of_nat k); c'] = Ret u' /\
      refresh_answers model data (l ++ refresh_block model data k u c c')%list (S k) u' ans'
    end.

  Definition refresh_body (model data : V) : V -> Z -> M V (V * bool) := fun updated_model cluster_id =>
    t8_ <<- call oracle "getitem" [getattr updated_model "clusters"; vint cluster_id] ;;
    t9_ <<- call oracle "update_cluster_member_data_statistics"
                 [t8_; data; getattr (getattr model "arguments") "biased_covariance"] ;;
    updated_model' <<- call oracle f_store [updated_model; vint cluster_id; t9_] ;;
    mret (updated_model', false).

  Lemma refresh_loop (model data : V) : forall (n k : nat) (u uf : V) (log0 log1 : list (event V)),
    for_break (refresh_body model data) (map Z.of_nat (seq k n)) u log0 = (Ret uf, log1) ->
    exists ans,
      length ans = n /\
      log1 = (log0 ++ refresh_events model data k u ans)%list /\
      uf = last_state u ans /\
      refresh_answers model data log0 k u ans.
  Proof.
    induction n as [|n IH]; intros k u uf log0 log1 H.
    - cbn [seq map for_break] in H. unfold mret in H. apply ret_inj in H. destruct H as [Hu Hlog].
      exists []. split; [reflexivity|]. split; [cbn [refresh_events]; rewrite app_nil_r; symmetry; exact Hlog|].
      split; [symmetry; exact Hu|exact I].
    - cbn [seq map for_break] in H. apply mbind_ret_inv in H. destruct H as (sb & l1 & Hbody & Hrest).
      unfold refresh_body in Hbody.
      step Hbody c e1 Hget.
      step Hbody c' e2 Hupd.
      step Hbody u' e3 Hst.
      unfold mret in Hbody. apply ret_inj in Hbody. destruct Hbody as [Hsb Hl1].
      rewrite <- Hsb in Hrest. cbn [fst snd] in Hrest.
      apply IH in Hrest. destruct Hrest as (ans & Hlen & Hlog & Hfin & Hans).
      rewrite ?snoc2 in Hl1. rewrite ?snoc2 in Hst.
      exists ((c, c', u') :: ans).
      split; [cbn [length]; rewrite Hlen; reflexivity|].
      split; [cbn [refresh_events]; rewrite Hlog, <- Hl1; unfold refresh_block; rewrite <- app_assoc; reflexivity|].
      split; [exact Hfin|].
      cbn [refresh_answers]. split; [exact Hget|]. split; [exact Hupd|]. split; [exact Hst|].
      unfold refresh_block. rewrite Hl1. exact Hans.
  Qed.

  (* a call that returns: built the empty member lists, appended every point to the list of its label, copied the model, and
     then refreshed every cluster 0 .. K-1 exactly once, in order - fetch cluster k of the CURRENT copy, recompute its
     statistics from the SAME training data and the biased flag of the ORIGINAL model's arguments, store it back at index k -
     each block running in the state the previous store returned; the state after the last store is returned *)
  Theorem update_all_returns (model data r : V) (log log' : list (event V)) (K : Z) :
    as_int (getattr (getattr model "arguments") "num_clusters") = Some K ->
    g_update_all_cluster_statistics V vint as_int getattr as_list oracle model data log = (Ret r, log') ->
    exists members en gs u0 ans,
      let pre := (log ++ [Ev f_members [getattr (getattr model "arguments") "num_clusters"];
                          Ev "enumerate" [getattr model "point_labels"]]
                      ++ member_events members (as_list en) gs)%list in
      length gs = length (as_list en) /\
      length ans = Z.to_nat K /\
      log' = (pre ++ [Ev "method:shallow_copy" [model]] ++ refresh_events model data 0 u0 ans)%list /\
      oracle log f_members [getattr (getattr model "arguments") "num_clusters"] = Ret members /\
      oracle (log ++ [Ev f_members [getattr (getattr model "arguments") "num_clusters"]])%list
             "enumerate" [getattr model "point_labels"] = Ret en /\
      oracle pre "method:shallow_copy" [model] = Ret u0 /\
      refresh_answers model data (pre ++ [Ev "method:shallow_copy" [model]])%list 0 u0 ans /\
      r = last_state u0 ans.
  Proof.
    intros HK Hrun.
    unfold g_update_all_cluster_statistics in Hrun.
    step Hrun members e1 Hmem.
    step Hrun en e2 Henum.
    apply mbind_ret_inv in Hrun. destruct Hrun as (u & l1 & Hloop & Hrest).
    apply (member_loop members) in Hloop. destruct Hloop as (gs & Hglen & Hl1).
    step Hrest u0 e3 Hcopy.
    unfold need_int in Hrest. rewrite HK in Hrest. rewrite bind_ret in Hrest.
    apply mbind_ret_inv in Hrest. destruct Hrest as (uf & l2 & Hrefresh & Hret).
    unfold zrange in Hrefresh.
    apply (refresh_loop model data) in Hrefresh. destruct Hrefresh as (ans & Halen & Hl2 & Hfin & Hans).
    unfold mret in Hret. apply ret_inj in Hret. destruct Hret as [Hr Hlog].
    rewrite snoc2 in Hl1. rewrite Hl1 in Hcopy, Hl2, Hans.
    exists members, en, gs, u0, ans. cbv zeta. unfold f_members.
    split; [exact Hglen|]. split; [exact Halen|].
    split; [rewrite <- Hlog, Hl2; rewrite <- !app_assoc; reflexivity|].
    split; [exact Hmem|]. split; [exact Henum|].
    split; [rewrite <- app_assoc in Hcopy; exact Hcopy|].
    split; [rewrite <- !app_assoc in Hans |- *; exact Hans|].
    rewrite <- Hr. exact Hfin.
  Qed.

  (* the same refresh loop read block by block: us = the K+1 model states u_0 .. u_K *)
  Definition states (u : V) (ans : list (V * V * V)) : list V := u :: map snd ans.

  Lemma refresh_events_length (model data : V) : forall (ans : list (V * V * V)) (k : nat) (u : V),
    length (refresh_events model data k u ans) = (3 * length ans)%nat.
  Proof.
    induction ans as [|[[c c'] u'] ans IH]; intros k u.
    - reflexivity.
    - cbn [refresh_events]. rewrite app_length, IH. unfold refresh_block. cbn [length]. lia.
  Qed.

  Lemma last_state_nth : forall (ans : list (V * V * V)) (u : V),
    last_state u ans = nth (length ans) (states u ans) vnone.
  Proof.
    induction ans as [|[[c c'] u'] ans IH]; intros u.
    - reflexivity.
    - cbn [last_state]. rewrite IH. reflexivity.
  Qed.

  Lemma refresh_events_block (model data : V) : forall (ans : list (V * V * V)) (k0 : nat) (u : V) (j : nat),
    (j < length ans)%nat ->
    exists c c',
      firstn 3 (skipn (3 * j) (refresh_events model data k0 u ans))
      = refresh_block model data (k0 + j) (nth j (states u ans) vnone) c c'.
  Proof.
    induction ans as [|[[c c'] u'] ans IH]; intros k0 u j Hj.
    - cbn [length] in Hj. lia.
    - destruct j as [|j].
      + exists c, c'. replace (k0 + 0)%nat with k0 by lia. reflexivity.
      + cbn [length] in Hj. assert (Hj' : (j < length ans)%nat) by lia.
        destruct (IH (S k0) u' j Hj') as (cj & cj' & Hblock).
        exists cj, cj'.
        replace (3 * S j)%nat with (S (S (S (3 * j)))) by lia.
        replace (k0 + S j)%nat with (S k0 + j)%nat by lia.
        transitivity (firstn 3 (skipn (3 * j) (refresh_events model data (S k0) u' ans))); [reflexivity|exact Hblock].
  Qed.

  (* the refresh loop of a returning call, block by block: 3 K events; block k is (getitem k of state u_k, refresh with the
     SAME data and the ORIGINAL model's flag, store at k into u_k); u_0 is the shallow copy and u_K is returned *)
  Theorem update_all_blocks (model data r : V) (log log' : list (event V)) (K : Z) :
    as_int (getattr (getattr model "arguments") "num_clusters") = Some K ->
    g_update_all_cluster_statistics V vint as_int getattr as_list oracle model data log = (Ret r, log') ->
    exists members en gs u0 evs us,
      let pre := (log ++ [Ev f_members [getattr (getattr model "arguments") "num_clusters"];
                          Ev "enumerate" [getattr model "point_labels"]]
                      ++ member_events members (as_list en) gs)%list in
      length gs = length (as_list en) /\
      log' = (pre ++ [Ev "method:shallow_copy" [model]] ++ evs)%list /\
      oracle pre "method:shallow_copy" [model] = Ret u0 /\
      length evs = (3 * Z.to_nat K)%nat /\
      length us = S (Z.to_nat K) /\
      nth 0 us vnone = u0 /\
      (forall k, (k < Z.to_nat K)%nat ->
         exists c c', firstn 3 (skipn (3 * k) evs) = refresh_block model data k (nth k us vnone) c c') /\
      r = nth (Z.to_nat K) us vnone.
  Proof.
    intros HK Hrun.
    destruct (update_all_returns model data r log log' K HK Hrun)
      as (members & en & gs & u0 & ans & Hglen & Halen & Hlog & _ & _ & Hcopy & _ & Hr).
    exists members, en, gs, u0, (refresh_events model data 0 u0 ans), (states u0 ans). cbv zeta.
    split; [exact Hglen|]. split; [exact Hlog|]. split; [exact Hcopy|].
    split; [rewrite refresh_events_length, Halen; reflexivity|].
    split; [unfold states; cbn [length]; rewrite map_length, Halen; reflexivity|].
    split; [reflexivity|].
    split.
    - intros k Hk. rewrite <- Halen in Hk.
      destruct (refresh_events_block model data ans 0 u0 k Hk) as (c & c' & Hblock).
      exists c, c'. exact Hblock.
    - rewrite Hr, last_state_nth, Halen. reflexivity.
  Qed.

End E.

(* ---------------------------------------------------------------- the hypotheses are satisfiable: concrete runs that return
   (V := Z, getattr x _ := x, every callee answers a constant) *)

(* isinstance answers truthy / not truthy *)
Example predict_nonvacuous :
  (exists r log', g_predict_cluster_labels Z (fun v _ => v) (fun _ => true) (fun _ => 0%Z) (fun _ _ _ => Ret 1%Z) 5%Z 6%Z []
                  = (Ret r, log') /\ length log' = 10%nat) /\
  (exists r log', g_predict_cluster_labels Z (fun v _ => v) (fun _ => false) (fun _ => 0%Z) (fun _ _ _ => Ret 1%Z) 5%Z 6%Z []
                  = (Ret r, log') /\ length log' = 9%nat).
Proof. split; eexists; eexists; (split; [vm_compute; reflexivity|reflexivity]). Qed.

(* as_list answers a 2-element list, both clusters have fewer than 2 members; len answers 0: the no-op branch *)
Example repopulate_noop_nonvacuous :
  exists r log', g_repopulate_empty_clusters Z (fun z => Some z) (fun v _ => v) (fun _ => [0%Z; 1%Z]) (fun _ _ _ => Ret 0%Z) 5%Z []
                 = (Ret r, log') /\ r = 5%Z /\ length log' = 5%nat.
Proof. eexists; eexists; split; [vm_compute; reflexivity|split; reflexivity]. Qed.

(* the same with len answering 1: the move branch, two blocks of three calls *)
Example repopulate_moves_nonvacuous :
  exists r log', g_repopulate_empty_clusters Z (fun z => Some z) (fun v _ => v) (fun _ => [0%Z; 1%Z]) (fun _ _ _ => Ret 1%Z) 5%Z []
                 = (Ret r, log') /\ length log' = 15%nat.
Proof. eexists; eexists; split; [vm_compute; reflexivity|reflexivity]. Qed.

(* num_clusters = 2 (as_int (getattr (getattr 2 _) _) = Some 2), two points *)
Example update_all_nonvacuous :
  (fun z : Z => Some z) ((fun (v : Z) (_ : string) => v) ((fun (v : Z) (_ : string) => v) 2%Z "arguments") "num_clusters") = Some 2%Z /\
  exists r log', g_update_all_cluster_statistics Z (fun z => z) (fun z => Some z) (fun v _ => v) (fun _ => [0%Z; 1%Z])
                   (fun _ _ _ => Ret 7%Z) 2%Z 6%Z [] = (Ret r, log') /\ length log' = 13%nat.
Proof. split; [reflexivity|]. eexists; eexists; split; [vm_compute; reflexivity|reflexivity]. Qed.

Print Assumptions predict_returns.
Print Assumptions repopulate_noop.
Print Assumptions repopulate_moves.
Print Assumptions update_all_returns.
Print Assumptions update_all_blocks.
