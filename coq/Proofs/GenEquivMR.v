(* Second tie: main_loop._compute_log_likelihood_by_cluster AS TRANSLATED from /repo's working tree by vcheck/py2coq.py
   (Gen/G_main_loop_results.v, regenerated on every run) equals the hand-written model Model/Accounting.buckets: bucket k
   holds the values of exactly the points labelled k, in point order.  likelihood.point_log_likelihood is uninterpreted.
   Closed under the global context. *)
From Coq Require Import String ZArith QArith List Bool Lia Arith.
From Ticc Require Import Gen.PyRt Gen.G_main_loop_results Model.Repop Model.Viterbi Model.Accounting.
Import ListNotations.

(* ---- helper lemmas (copied from the sibling GenEquiv files / local) ---- *)
Lemma py_getitem_nat {A : Type} (l : list A) (k : nat) (d : A) :
  (k < length l)%nat -> py_getitem l (Z.of_nat k) = Ret (nth k l d).
Proof.
  intros Hk. unfold py_getitem, py_len. cbv zeta.
  assert (E1 : (Z.of_nat k <? 0)%Z = false) by (apply Z.ltb_ge; lia).
  assert (E2 : (Z.of_nat (length l) <=? Z.of_nat k)%Z = false) by (apply Z.leb_gt; lia).
  rewrite E1. cbv iota. rewrite E1, E2. cbn [orb]. rewrite Nat2Z.id, (nth_error_nth' l d Hk). reflexivity.
Qed.

Lemma foldM_map {S X Y : Type} (f : S -> Y -> res S) (g : X -> Y) (xs : list X) (s : S) :
  foldM f (map g xs) s = foldM (fun s x => f s (g x)) xs s.
Proof.
  revert s. induction xs as [|x xs IH]; intros s; cbn [map foldM]; [reflexivity|].
  destruct (f s (g x)) as [s'|e]; cbn [bind]; [apply IH | reflexivity].
Qed.

Lemma combine_map_both {A B C D : Type} (f : A -> C) (g : B -> D) (l1 : list A) (l2 : list B) :
  combine (map f l1) (map g l2) = map (fun ab => (f (fst ab), g (snd ab))) (combine l1 l2).
Proof.
  revert l2. induction l1 as [|a l1 IH]; intros [|b l2]; cbn [map combine fst snd]; try reflexivity.
  f_equal. apply IH.
Qed.

Lemma py_enumerate_nat (labels : list nat) :
  py_enumerate (map Z.of_nat labels)
  = map (fun ip => (Z.of_nat (fst ip), Z.of_nat (snd ip))) (combine (seq 0 (length labels)) labels).
Proof.
  unfold py_enumerate, py_len. rewrite map_length, zrange_of_nat. apply combine_map_both.
Qed.

Lemma in_enum_nat (labels : list nat) (p l : nat) :
  In (p, l) (combine (seq 0 (length labels)) labels) -> (p < length labels)%nat /\ nth p labels 0%nat = l.
Proof.
  intros Hin. apply (In_nth _ _ (0%nat, 0%nat)) in Hin. destruct Hin as [n [Hn He]].
  rewrite combine_length, seq_length, Nat.min_id in Hn.
  rewrite combine_nth in He by apply seq_length.
  rewrite seq_nth in He by exact Hn. cbn [Nat.add] in He.
  injection He as Hp Hl. subst p. split; [exact Hn | exact Hl].
Qed.

Lemma set_nth_map_seq {A : Type} (f g : nat -> A) (v : A) (K s l : nat) :
  (l < K)%nat -> g (s + l)%nat = v -> (forall k, k <> (s + l)%nat -> g k = f k) ->
  set_nth l v (map f (seq s K)) = map g (seq s K).
Proof.
  revert s l. induction K as [|K IH]; intros s l Hl Hv Hne; [lia|].
  cbn [seq map]. destruct l as [|l]; cbn [set_nth].
  - rewrite Nat.add_0_r in Hv, Hne. rewrite Hv. f_equal.
    apply map_ext_in. intros k Hk. apply in_seq in Hk. symmetry. apply Hne. lia.
  - rewrite (Hne s) by lia. f_equal. apply IH.
    + lia.
    + rewrite <- Hv. f_equal. lia.
    + intros k Hk. apply Hne. lia.
Qed.

Section E.
  Variable F : Type.
  Variable CL : Type.
  Variable dcl : CL.                                   (* default for nth on the list of clusters *)
  Variable pll : list F -> CL -> Z -> Q -> F.          (* likelihood.point_log_likelihood *)

  Definition value_of (NW W : nat) (data : list (list F)) (cls : list CL) (labels : list nat) (p : nat) : F :=
    pll (nth p data []) (nth (nth p labels 0%nat) cls dcl) (Z.of_nat W) (Qdiv (inject_Z (Z.of_nat NW)) (inject_Z (Z.of_nat W))).

  (* the buckets of a processed list of (point, label) pairs, value given per pair *)
  Definition bk (K : nat) (v : nat * nat -> F) (done : list (nat * nat)) : list (list F) :=
    map (fun k => map v (filter (fun ip => Nat.eqb (snd ip) k) done)) (seq 0 K).

  Lemma bk_snoc (K : nat) (v : nat * nat -> F) (done : list (nat * nat)) (p l : nat) :
    (l < K)%nat ->
    py_append_at (bk K v done) (Z.of_nat l) (v (p, l)) = Ret (bk K v (done ++ [(p, l)])).
  Proof.
    intros Hl. unfold py_append_at.
    set (f := fun k => map v (filter (fun ip : nat * nat => Nat.eqb (snd ip) k) done)).
    assert (Hlen : length (bk K v done) = K) by (unfold bk; now rewrite map_length, seq_length).
    rewrite (py_getitem_nat (bk K v done) l (f 0%nat)) by (rewrite Hlen; exact Hl).
    cbn [bind].
    assert (E1 : (Z.of_nat l <? 0)%Z = false) by (apply Z.ltb_ge; lia).
    rewrite E1, Nat2Z.id. f_equal.
    unfold bk. fold f. rewrite (map_nth f), seq_nth by exact Hl. cbn [Nat.add].
    apply set_nth_map_seq.
    - exact Hl.
    - cbn [Nat.add]. unfold f. rewrite filter_app, map_app. cbn [filter snd].
      rewrite Nat.eqb_refl. reflexivity.
    - cbn [Nat.add]. intros k Hk. unfold f. rewrite filter_app, map_app. cbn [filter snd].
      destruct (Nat.eqb l k) eqn:E; [apply Nat.eqb_eq in E; congruence|].
      cbn [map]. apply app_nil_r.
  Qed.

  Theorem g_buckets_eq (T K NW W : nat) (data : list (list F)) (cls : list CL) (labels : list nat) :
    (1 <= W)%nat -> length data = T -> length labels = T -> length cls = K ->
    Forall (fun l => (l < K)%nat) labels ->
    g_compute_log_likelihood_by_cluster F CL pll (mk_arr2 (Z.of_nat T) (Z.of_nat NW) data)
       (mk_ll_model (mk_ll_args (Z.of_nat W) (Z.of_nat K)) cls (map Z.of_nat labels))
    = Ret (buckets K labels (value_of NW W data cls labels)).
  Proof.
    intros HW Hdata Hlabels Hcls Hall.
    unfold g_compute_log_likelihood_by_cluster.
    cbn [a_cols a_cells lm_arguments lm_clusters lm_point_labels la_window_size la_num_clusters].
    unfold py_truediv_int.
    assert (EW : (Z.of_nat W =? 0)%Z = false) by (apply Z.eqb_neq; lia).
    rewrite EW. cbn [bind].
    set (q := Qdiv (inject_Z (Z.of_nat NW)) (inject_Z (Z.of_nat W))).
    set (v := fun ip : nat * nat => pll (nth (fst ip) data []) (nth (snd ip) cls dcl) (Z.of_nat W) q).
    rewrite py_enumerate_nat, Hlabels, foldM_map, zrange_of_nat, map_map.
    set (pairs := combine (seq 0 T) labels).
    assert (Hpairs : forall p l, In (p, l) pairs -> (p < T)%nat /\ (l < K)%nat /\ nth p labels 0%nat = l).
    { intros p l Hin. unfold pairs in Hin. rewrite <- Hlabels in Hin.
      pose proof (in_combine_r _ _ _ _ Hin) as Hr.
      apply in_enum_nat in Hin. destruct Hin as [Hp Hn].
      rewrite Forall_forall in Hall. split; [lia|]. split; [apply Hall; exact Hr | exact Hn]. }
    assert (Hinit : map (fun _ : nat => @nil F) (seq 0 K) = bk K v []).
    { unfold bk. reflexivity. }
    rewrite Hinit.
    assert (Hloop : forall post done, (forall p l, In (p, l) post -> (p < T)%nat /\ (l < K)%nat) ->
      foldM (fun (s : list (list F)) (x : nat * nat) =>
               let '(point_id, cluster_id) := (Z.of_nat (fst x), Z.of_nat (snd x)) in
               if (cluster_id =? - (1))%Z then Ret s
               else t4_ <- np_row (mk_arr2 (Z.of_nat T) (Z.of_nat NW) data) point_id ;;
                    t5_ <- py_getitem cls cluster_id ;;
                    s' <- py_append_at s cluster_id (pll t4_ t5_ (Z.of_nat W) q) ;;
                    Ret s') post (bk K v done) = Ret (bk K v (done ++ post))).
    { induction post as [|[p l] post IH]; intros done Hpost; cbn [foldM].
      - now rewrite app_nil_r.
      - destruct (Hpost p l (or_introl eq_refl)) as [Hp Hl]. cbn [fst snd].
        assert (E : (Z.of_nat l =? - (1))%Z = false) by (apply Z.eqb_neq; lia).
        rewrite E. unfold np_row. cbn [a_cells].
        rewrite (py_getitem_nat data p []) by lia. cbn [bind].
        rewrite (py_getitem_nat cls l dcl) by lia. cbn [bind].
        change (pll (nth p data []) (nth l cls dcl) (Z.of_nat W) q) with (v (p, l)).
        rewrite bk_snoc by exact Hl. cbn [bind].
        rewrite IH by (intros p0 l0 Hin; apply Hpost; right; exact Hin).
        now rewrite <- app_assoc. }
    rewrite Hloop by (intros p l Hin; destruct (Hpairs p l Hin) as [Hp [Hl _]]; split; assumption).
    cbn [bind app]. f_equal.
    unfold bk, buckets, members. apply map_ext. intros k.
    rewrite Hlabels. fold pairs. rewrite map_map.
    apply map_ext_in. intros [p l] Hin. apply filter_In in Hin. destruct Hin as [Hin _].
    destruct (Hpairs p l Hin) as [_ [_ Hn]].
    unfold v, value_of. cbn [fst snd]. rewrite Hn. reflexivity.
  Qed.
End E.

Print Assumptions g_buckets_eq.

Definition dd : list (list Z) := [[1];[2];[3];[4];[5];[6]]%Z.
Eval vm_compute in g_compute_log_likelihood_by_cluster Z Z (fun r c w q => (hd 0 r * 100 + c)%Z) (mk_arr2 6 1 dd)
   (mk_ll_model (mk_ll_args 1 3) [7;8;9]%Z (map Z.of_nat [2;0;2;1;0;2]%nat)).
Eval vm_compute in buckets 3 [2;0;2;1;0;2]%nat (value_of Z Z 0%Z (fun r c w q => (hd 0 r * 100 + c)%Z) 1 1 dd [7;8;9]%Z [2;0;2;1;0;2]%nat).
