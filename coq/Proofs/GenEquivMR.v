(* Second tie: main_loop._compute_log_likelihood_by_cluster AS TRANSLATED from /repo's working tree by vcheck/py2coq.py
   (Gen/G_main_loop_results.v, regenerated on every run) equals the hand-written model Model/Accounting.buckets: bucket k
   holds the values of exactly the points labelled k, in point order.  likelihood.point_log_likelihood is uninterpreted.
   Closed under the global context. *)
From Coq Require Import String ZArith QArith List Bool Lia Arith.
From Ticc Require Import Gen.PyRt Gen.G_main_loop_results Model.Repop Model.Viterbi Model.Accounting.
Import ListNotations.

Section E.
  Variable F : Type.
  Variable CL : Type.
  Variable dcl : CL.                                   (* default for nth on the list of clusters *)
  Variable pll : list F -> CL -> Z -> Q -> F.          (* likelihood.point_log_likelihood *)

  Definition value_of (NW W : nat) (data : list (list F)) (cls : list CL) (labels : list nat) (p : nat) : F :=
    pll (nth p data []) (nth (nth p labels 0%nat) cls dcl) (Z.of_nat W) (Qdiv (inject_Z (Z.of_nat NW)) (inject_Z (Z.of_nat W))).

  (* STATEMENT (to be proved):
  Theorem g_buckets_eq (T K NW W : nat) (data : list (list F)) (cls : list CL) (labels : list nat) :
    (1 <= W)%nat -> length data = T -> length labels = T -> length cls = K ->
    Forall (fun l => (l < K)%nat) labels ->
    g_compute_log_likelihood_by_cluster F CL pll (mk_arr2 (Z.of_nat T) (Z.of_nat NW) data)
       (mk_ll_model (mk_ll_args (Z.of_nat W) (Z.of_nat K)) cls (map Z.of_nat labels))
    = Ret (buckets K labels (value_of NW W data cls labels)).
  *)
End E.

Definition dd : list (list Z) := [[1];[2];[3];[4];[5];[6]]%Z.
Eval vm_compute in g_compute_log_likelihood_by_cluster Z Z (fun r c w q => (hd 0 r * 100 + c)%Z) (mk_arr2 6 1 dd)
   (mk_ll_model (mk_ll_args 1 3) [7;8;9]%Z (map Z.of_nat [2;0;2;1;0;2]%nat)).
Eval vm_compute in buckets 3 [2;0;2;1;0;2]%nat (value_of Z Z 0%Z (fun r c w q => (hd 0 r * 100 + c)%Z) 1 1 dd [7;8;9]%Z [2;0;2;1;0;2]%nat).
