(* Second tie, skeleton mode: the likelihood wrappers, the per-cluster statistics helper and the initial labelling AS TRANSLATED from /repo's working tree
   (Gen/G_*.v, regenerated on every run; every callee an uninterpreted oracle asked after the call is logged): which calls a
   returning run made, in which order, on which values.  Closed under the global context. *)
From Coq Require Import String ZArith List Bool Lia Arith.
From Ticc Require Import Gen.PyRt Gen.PySkel Gen.G_ll_point Gen.G_ll_table Gen.G_gl_stats Gen.G_la_initial .
Import ListNotations.
Local Open Scope string_scope.

Section E.
  Variable V : Type.
  Variable vnone : V.
  Variable vint : Z -> V.
  Variable as_int : V -> option Z.
  Variable veq : V -> V -> bool.
  Variable getattr : V -> string -> V.
  Variable truthy : V -> bool.
  Variable is_none : V -> bool.
  Variables vtrue vfalse : V.
  Variable as_list : V -> list V.
  Variable vglobal : string -> V.
  Variable oracle : list (event V) -> string -> list V -> res V.

  Definition f_store_inv := "store:model.clusters[cluster].inverse_covariance".
  Definition f_store_ld := "store:model.clusters[cluster].log_determinant".
  Definition f_mus := "expr:np.asarray([x.stacked_data_mean for x in model.clusters])".
  Definition f_thetas := "expr:np.asarray([x.inverse_covariance for x in model.clusters])".
  Definition f_logdets := "expr:np.asarray([x.log_determinant for x in model.clusters])".
  Definition f_table_fast := "all_points_all_clusters_log_likelihood_fast".
  Definition f_empty_msg := "expr:'Empty cluster detected in _update_cluster_statistics. This shouldn't happen.'".
  Definition f_rows := "expr:training_data[cluster.member_points, :]".
  Definition f_gmm := "sklearn.mixture.GaussianMixture(n_components=,covariance_type=)".
  Definition f_pylist := "expr:[point_labels[i] for i in range(point_labels.size)]".

  (* ---------------------------------------------------------------- the monad, one step at a time *)

  Lemma bind_call : forall (B : Type) (f : string) (a : list V) (k : V -> M V B) (log : list (event V)),
    mbind (call oracle f a) k log
    = match oracle log f a with
      | Ret v => k v (log ++ [Ev f a])%list
      | Raise e => (Raise e, (log ++ [Ev f a])%list)
      end.
  Proof.
    intros B f a k log. unfold mbind, call.
    destruct (oracle log f a) as [v|e]; reflexivity.
  Qed.

  Lemma bind_ret : forall (A B : Type) (a : A) (k : A -> M V B) (log : list (event V)),
    mbind (mret a) k log = k a log.
  Proof. intros A B a k log. reflexivity. Qed.

  Lemma snoc2 : forall (A : Type) (l : list A) (a : A) (t : list A), ((l ++ [a]) ++ t = l ++ a :: t)%list.
  Proof. intros A l a t. rewrite <- app_assoc. reflexivity. Qed.

  Lemma ret_inj : forall (A L : Type) (a b : A) (l1 l2 : L), (Ret a, l1) = (Ret b, l2) -> a = b /\ l1 = l2.
  Proof. intros A L a b l1 l2 H. inversion H. split; reflexivity. Qed.

  Lemma mbind_ret_inv : forall (A B : Type) (m : M V A) (k : A -> M V B) (log log' : list (event V)) (b : B),
    mbind m k log = (Ret b, log') -> exists a l1, m log = (Ret a, l1) /\ k a l1 = (Ret b, log').
  Proof.
    intros A B m k log log' b H. unfold mbind in H.
    destruct (m log) as [[a|e] l1] eqn:Hm.
    - exists a, l1. split; [reflexivity|exact H].
    - discriminate H.
  Qed.

  Ltac step H v e Heq :=
    rewrite bind_call in H;
    match type of H with
    | match ?o with _ => _ end = _ => destruct o as [v|e] eqn:Heq; [|discriminate H]
    end.

  (* ================================================================ A. likelihood.point_log_likelihood *)

  (* a call that returns asked the kernel exactly once, on the point, the cluster's OWN mean / inverse covariance / log-determinant
     attributes and the two sizes passed in, and returns the kernel's answer *)
  Theorem ll_point_returns (point cluster window_size num_data_series r : V) (log log' : list (event V)) :
    g_point_log_likelihood V getattr oracle point cluster window_size num_data_series log = (Ret r, log') ->
    log' = (log ++ [Ev "point_log_likelihood_fast"
                       [point; getattr cluster "stacked_data_mean"; getattr cluster "inverse_covariance";
                        getattr cluster "log_determinant"; window_size; num_data_series]])%list /\
    oracle log "point_log_likelihood_fast"
           [point; getattr cluster "stacked_data_mean"; getattr cluster "inverse_covariance";
            getattr cluster "log_determinant"; window_size; num_data_series] = Ret r.
  Proof.
    intros Hrun. unfold g_point_log_likelihood in Hrun. cbv zeta in Hrun.
    step Hrun v e1 Hfast.
    unfold mret in Hrun. apply ret_inj in Hrun. destruct Hrun as [Hr Hlog].
    split; [symmetry; exact Hlog|]. rewrite <- Hr. reflexivity.
  Qed.

  (* ================================================================ B. likelihood.all_points_all_clusters_log_likelihood *)

  (* the four calls of iteration k on the model m: c is clusters[k], m' the model after the first store, sd the slogdet pair *)
  Definition table_block (m : V) (k : nat) (c m' sd : V) : list (event V) :=
    [Ev "getitem" [getattr m "clusters"; vint (Z.of_nat k)];
     Ev f_store_inv [m; vint (Z.of_nat k); getattr c "train_inverse"];
     Ev "np.linalg.slogdet" [getattr c "train_inverse"];
     Ev f_store_ld [m'; vint (Z.of_nat k); getattr sd "[1]"]].

  (* n iterations, for clusters k, k+1, .., k+n-1, started on the model m with the history log, make the calls evs and end
     with the model mK: each iteration's calls are a table_block whose c / m' / sd are what the oracle answered to the first /
     second / third call of that very block, and the next iteration starts on the answer of the fourth *)
  Fixpoint table_run (n k : nat) (m : V) (log evs : list (event V)) (mK : V) : Prop :=
    match n with
    | O => evs = [] /\ mK = m
    | S n' =>
      exists c m' sd m2 rest,
        evs = (table_block m k c m' sd ++ rest)%list /\
        oracle log "getitem" [getattr m "clusters"; vint (Z.of_nat k)] = Ret c /\
        oracle (log ++ firstn 1 (table_block m k c m' sd))%list f_store_inv [m; vint (Z.of_nat k); getattr c "train_inverse"] = Ret m' /\
        oracle (log ++ firstn 2 (table_block m k c m' sd))%list "np.linalg.slogdet" [getattr c "train_inverse"] = Ret sd /\
        oracle (log ++ firstn 3 (table_block m k c m' sd))%list f_store_ld [m'; vint (Z.of_nat k); getattr sd "[1]"] = Ret m2 /\
        table_run n' (S k) m2 (log ++ table_block m k c m' sd)%list rest mK
    end.

  (* the body of the loop, as generated *)
  Definition table_body : V -> Z -> M V (V * bool) := fun model cluster =>
    t2_ <<- call oracle "getitem" [(getattr model "clusters"); (vint cluster)] ;;
    model <<- call oracle "store:model.clusters[cluster].inverse_covariance" [model; (vint cluster); (getattr t2_ "train_inverse")] ;;
    t3_ <<- call oracle "np.linalg.slogdet" [(getattr t2_ "train_inverse")] ;;
    model <<- call oracle "store:model.clusters[cluster].log_determinant" [model; (vint cluster); (getattr t3_ "[1]")] ;;
    mret (model, false).

  Lemma table_body_inv (m : V) (k : nat) (sb : V * bool) (log0 log1 : list (event V)) :
    table_body m (Z.of_nat k) log0 = (Ret sb, log1) ->
    snd sb = false /\
    exists c m' sd,
      log1 = (log0 ++ table_block m k c m' sd)%list /\
      oracle log0 "getitem" [getattr m "clusters"; vint (Z.of_nat k)] = Ret c /\
      oracle (log0 ++ firstn 1 (table_block m k c m' sd))%list f_store_inv [m; vint (Z.of_nat k); getattr c "train_inverse"] = Ret m' /\
      oracle (log0 ++ firstn 2 (table_block m k c m' sd))%list "np.linalg.slogdet" [getattr c "train_inverse"] = Ret sd /\
      oracle (log0 ++ firstn 3 (table_block m k c m' sd))%list f_store_ld [m'; vint (Z.of_nat k); getattr sd "[1]"] = Ret (fst sb).
  Proof.
    unfold table_body. intros H.
    step H c e1 Hget.
    step H m' e2 Hst1.
    step H sd e3 Hsd.
    step H m2 e4 Hst2.
    unfold mret in H. apply ret_inj in H. destruct H as [Hsb Hlog].
    split; [rewrite <- Hsb; reflexivity|].
    exists c, m', sd. rewrite <- Hsb. cbn [fst].
    unfold table_block, f_store_inv, f_store_ld. cbn [firstn].
    repeat rewrite snoc2 in Hsd. repeat rewrite snoc2 in Hst2. repeat rewrite snoc2 in Hlog.
    split; [symmetry; exact Hlog|].
    split; [first [exact Hget|reflexivity]|]. split; [exact Hst1|]. split; [exact Hsd|exact Hst2].
  Qed.

  Lemma table_loop : forall (n k : nat) (m mK : V) (log0 log1 : list (event V)),
    for_break table_body (map Z.of_nat (seq k n)) m log0 = (Ret mK, log1) ->
    exists evs, log1 = (log0 ++ evs)%list /\ table_run n k m log0 evs mK.
  Proof.
    induction n as [|n IH]; intros k m mK log0 log1 H.
    - cbn [seq map for_break] in H. unfold mret in H. apply ret_inj in H. destruct H as [Hm Hlog].
      exists []. split; [rewrite app_nil_r; symmetry; exact Hlog|].
      cbn [table_run]. split; [reflexivity|symmetry; exact Hm].
    - cbn [seq map for_break] in H. apply mbind_ret_inv in H. destruct H as (sb & l1 & Hbody & Hrest).
      apply table_body_inv in Hbody. destruct Hbody as (Hnb & c & m' & sd & Hl1 & Hget & Hst1 & Hsd & Hst2).
      rewrite Hnb in Hrest.
      apply IH in Hrest. destruct Hrest as (rest & Hlog & Hrun).
      exists (table_block m k c m' sd ++ rest)%list.
      split; [rewrite Hlog, Hl1; rewrite <- app_assoc; reflexivity|].
      cbn [table_run]. exists c, m', sd, (fst sb), rest.
      split; [reflexivity|]. split; [first [exact Hget|reflexivity]|]. split; [exact Hst1|]. split; [exact Hsd|]. split; [exact Hst2|].
      rewrite <- Hl1. exact Hrun.
  Qed.

  Lemma table_run_length : forall (n k : nat) (m mK : V) (log evs : list (event V)),
    table_run n k m log evs mK -> length evs = (4 * n)%nat.
  Proof.
    induction n as [|n IH]; intros k m mK log evs H.
    - cbn [table_run] in H. destruct H as [Hevs _]. rewrite Hevs. reflexivity.
    - cbn [table_run] in H. destruct H as (c & m' & sd & m2 & rest & Hevs & _ & _ & _ & _ & Hrun).
      apply IH in Hrun. rewrite Hevs, app_length, Hrun. unfold table_block. cbn [length]. lia.
  Qed.

  (* the same run seen as a list of models ms = [m_0; ..; m_n]: block j of the events is a table_block on m_j for cluster k+j whose
     last call was answered m_(j+1) *)
  Lemma table_run_blocks : forall (n k : nat) (m mK : V) (log evs : list (event V)),
    table_run n k m log evs mK ->
    exists ms : list V,
      length ms = S n /\ nth 0 ms vnone = m /\ nth n ms vnone = mK /\
      forall j, (j < n)%nat ->
        exists c m' sd,
          firstn 4 (skipn (4 * j) evs) = table_block (nth j ms vnone) (k + j) c m' sd /\
          oracle (log ++ firstn (4 * j) evs)%list "getitem" [getattr (nth j ms vnone) "clusters"; vint (Z.of_nat (k + j))] = Ret c /\
          oracle (log ++ firstn (4 * j + 1) evs)%list f_store_inv [nth j ms vnone; vint (Z.of_nat (k + j)); getattr c "train_inverse"] = Ret m' /\
          oracle (log ++ firstn (4 * j + 2) evs)%list "np.linalg.slogdet" [getattr c "train_inverse"] = Ret sd /\
          oracle (log ++ firstn (4 * j + 3) evs)%list f_store_ld [m'; vint (Z.of_nat (k + j)); getattr sd "[1]"] = Ret (nth (S j) ms vnone).
  Proof.
    induction n as [|n IH]; intros k m mK log evs H.
    - cbn [table_run] in H. destruct H as [_ Hm]. exists [m].
      split; [reflexivity|]. split; [reflexivity|]. split; [symmetry; exact Hm|].
      intros j Hj. lia.
    - cbn [table_run] in H. destruct H as (c & m' & sd & m2 & rest & Hevs & Hget & Hst1 & Hsd & Hst2 & Hrun).
      apply IH in Hrun. destruct Hrun as (ms & Hlen & Hhd & Hlast & Hblocks).
      exists (m :: ms). split; [cbn [length]; rewrite Hlen; reflexivity|].
      split; [reflexivity|]. split; [exact Hlast|].
      intros j Hj. destruct j as [|j].
      + exists c, m', sd. cbn [nth]. rewrite Hhd. replace (k + 0)%nat with k by lia.
        change (4 * 0)%nat with 0%nat. change (0 + 1)%nat with 1%nat. change (0 + 2)%nat with 2%nat. change (0 + 3)%nat with 3%nat.
        rewrite Hevs. unfold table_block in *. cbn [app firstn skipn] in *.
        split; [reflexivity|]. split; [rewrite app_nil_r; exact Hget|]. split; [exact Hst1|]. split; [exact Hsd|exact Hst2].
      + assert (Hj' : (j < n)%nat) by lia.
        destruct (Hblocks j Hj') as (cj & mj' & sdj & Hfour & Hg & Hs1 & Hs & Hs2).
        exists cj, mj', sdj.
        replace (4 * S j)%nat with (S (S (S (S (4 * j))))) by lia.
        replace (k + S j)%nat with (S k + j)%nat by lia.
        cbn [nth plus]. rewrite Hevs.
        unfold table_block in Hg, Hs1, Hs, Hs2. rewrite <- app_assoc in Hg, Hs1, Hs, Hs2. cbn [app] in Hg, Hs1, Hs, Hs2.
        unfold table_block at 1 2 3 4 5. cbn [app firstn skipn].
        split; [exact Hfour|]. split; [exact Hg|]. split; [exact Hs1|]. split; [exact Hs|exact Hs2].
  Qed.

  (* a call that returns ran, for every cluster k = 0 .. K-1 once and in order, the four calls of table_block on the threaded model
     (inverse covariance := that cluster's train_inverse, log-determinant := component [1] of slogdet of THAT matrix), then built the
     three stacks from the final model mK and passed them, mK's window_size / num_clusters and the data given to the kernel, whose
     answer it returns *)
  Theorem ll_table_returns (model stacked_training_data r : V) (log log' : list (event V)) (K : Z) :
    as_int (getattr (getattr model "arguments") "num_clusters") = Some K ->
    g_all_points_all_clusters_log_likelihood V vint as_int getattr oracle model stacked_training_data log = (Ret r, log') ->
    exists evs mK mus thetas logdets,
      table_run (Z.to_nat K) 0 model log evs mK /\
      length evs = (4 * Z.to_nat K)%nat /\
      log' = (log ++ evs
                  ++ [Ev f_mus [mK]; Ev f_thetas [mK]; Ev f_logdets [mK];
                      Ev f_table_fast [getattr (getattr mK "arguments") "window_size";
                                       getattr (getattr mK "arguments") "num_clusters";
                                       mus; thetas; logdets; stacked_training_data]])%list /\
      oracle (log ++ evs)%list f_mus [mK] = Ret mus /\
      oracle (log ++ evs ++ [Ev f_mus [mK]])%list f_thetas [mK] = Ret thetas /\
      oracle (log ++ evs ++ [Ev f_mus [mK]; Ev f_thetas [mK]])%list f_logdets [mK] = Ret logdets /\
      oracle (log ++ evs ++ [Ev f_mus [mK]; Ev f_thetas [mK]; Ev f_logdets [mK]])%list f_table_fast
             [getattr (getattr mK "arguments") "window_size"; getattr (getattr mK "arguments") "num_clusters";
              mus; thetas; logdets; stacked_training_data] = Ret r.
  Proof.
    intros HK Hrun.
    unfold g_all_points_all_clusters_log_likelihood in Hrun.
    unfold need_int in Hrun. rewrite HK in Hrun. rewrite bind_ret in Hrun.
    apply mbind_ret_inv in Hrun. destruct Hrun as (mK & l1 & Hloop & Hrest).
    unfold zrange in Hloop.
    change (for_break table_body (map Z.of_nat (seq 0 (Z.to_nat K))) model log = (Ret mK, l1)) in Hloop.
    apply table_loop in Hloop. destruct Hloop as (evs & Hl1 & Htr).
    cbv zeta in Hrest.
    step Hrest mus e1 Hmus.
    step Hrest thetas e2 Hthetas.
    step Hrest logdets e3 Hlogdets.
    step Hrest v e4 Hfast.
    unfold mret in Hrest. apply ret_inj in Hrest. destruct Hrest as [Hr Hlog].
    exists evs, mK, mus, thetas, logdets.
    split; [exact Htr|]. split; [exact (table_run_length _ _ _ _ _ _ Htr)|].
    subst l1. repeat rewrite snoc2 in Hthetas. repeat rewrite snoc2 in Hlogdets. repeat rewrite snoc2 in Hfast. repeat rewrite snoc2 in Hlog. rewrite <- !app_assoc in Hthetas, Hlogdets, Hfast, Hlog.
    unfold f_mus, f_thetas, f_logdets, f_table_fast.
    split; [symmetry; exact Hlog|]. split; [exact Hmus|]. split; [exact Hthetas|]. split; [exact Hlogdets|].
    rewrite <- Hr. exact Hfast.
  Qed.

  (* the same with the chain of models as a list *)
  Theorem ll_table_returns_blocks (model stacked_training_data r : V) (log log' : list (event V)) (K : Z) :
    as_int (getattr (getattr model "arguments") "num_clusters") = Some K ->
    g_all_points_all_clusters_log_likelihood V vint as_int getattr oracle model stacked_training_data log = (Ret r, log') ->
    exists (ms : list V) evs mK mus thetas logdets,
      length ms = S (Z.to_nat K) /\ nth 0 ms vnone = model /\ nth (Z.to_nat K) ms vnone = mK /\
      length evs = (4 * Z.to_nat K)%nat /\
      (forall j, (j < Z.to_nat K)%nat ->
        exists c m' sd,
          firstn 4 (skipn (4 * j) evs) = table_block (nth j ms vnone) j c m' sd /\
          oracle (log ++ firstn (4 * j) evs)%list "getitem" [getattr (nth j ms vnone) "clusters"; vint (Z.of_nat j)] = Ret c /\
          oracle (log ++ firstn (4 * j + 1) evs)%list f_store_inv [nth j ms vnone; vint (Z.of_nat j); getattr c "train_inverse"] = Ret m' /\
          oracle (log ++ firstn (4 * j + 2) evs)%list "np.linalg.slogdet" [getattr c "train_inverse"] = Ret sd /\
          oracle (log ++ firstn (4 * j + 3) evs)%list f_store_ld [m'; vint (Z.of_nat j); getattr sd "[1]"] = Ret (nth (S j) ms vnone)) /\
      log' = (log ++ evs
                  ++ [Ev f_mus [mK]; Ev f_thetas [mK]; Ev f_logdets [mK];
                      Ev f_table_fast [getattr (getattr mK "arguments") "window_size";
                                       getattr (getattr mK "arguments") "num_clusters";
                                       mus; thetas; logdets; stacked_training_data]])%list /\
      oracle (log ++ evs ++ [Ev f_mus [mK]; Ev f_thetas [mK]; Ev f_logdets [mK]])%list f_table_fast
             [getattr (getattr mK "arguments") "window_size"; getattr (getattr mK "arguments") "num_clusters";
              mus; thetas; logdets; stacked_training_data] = Ret r.
  Proof.
    intros HK Hrun.
    destruct (ll_table_returns _ _ _ _ _ _ HK Hrun) as (evs & mK & mus & thetas & logdets & Htr & Hlen & Hlog & _ & _ & _ & Hr).
    destruct (table_run_blocks _ _ _ _ _ _ Htr) as (ms & Hmslen & Hhd & Hlast & Hblocks).
    exists ms, evs, mK, mus, thetas, logdets.
    split; [exact Hmslen|]. split; [exact Hhd|]. split; [exact Hlast|]. split; [exact Hlen|].
    split; [|split; [exact Hlog|exact Hr]].
    intros j Hj. destruct (Hblocks j Hj) as (c & m' & sd & H4). exists c, m', sd. exact H4.
  Qed.

  (* ================================================================ C. graphical_lasso._update_cluster_statistics *)

  (* the seven calls that compute the statistics: u0 the copy, rows the selected rows, u1 the copy with its mean set *)
  Definition stats_events (cluster training_data biased_covariance u0 rows mean u1 rowsT cov : V) : list (event V) :=
    [Ev "method:shallow_copy" [cluster];
     Ev f_rows [cluster; training_data];
     Ev "np.mean(axis=)" [rows; vint 0];
     Ev "setattr:stacked_data_mean" [u0; mean];
     Ev "np.transpose" [rows];
     Ev "np.cov(bias=)" [rowsT; biased_covariance];
     Ev "setattr:empirical_covariance" [u1; cov]].

  (* the two calls of  assert RuntimeError('...')  on an empty cluster *)
  Definition assert_events (msg : V) : list (event V) :=
    [Ev f_empty_msg []; Ev "RuntimeError" [msg]].

  (* the part after the size test, as generated *)
  Definition stats_tail (cluster training_data biased_covariance : V) : M V V :=
    t4_ <<- call oracle "method:shallow_copy" [cluster] ;;
    t5_ <<- call oracle "expr:training_data[cluster.member_points, :]" [cluster; training_data] ;;
    t6_ <<- call oracle "np.mean(axis=)" [t5_; (vint (0))] ;;
    updated_cluster <<- call oracle "setattr:stacked_data_mean" [t4_; t6_] ;;
    t7_ <<- call oracle "np.transpose" [t5_] ;;
    t8_ <<- call oracle "np.cov(bias=)" [t7_; biased_covariance] ;;
    updated_cluster <<- call oracle "setattr:empirical_covariance" [updated_cluster; t8_] ;;
    mret updated_cluster.

  Lemma stats_tail_inv (cluster training_data biased_covariance r : V) (log0 log' : list (event V)) :
    stats_tail cluster training_data biased_covariance log0 = (Ret r, log') ->
    exists u0 rows mean u1 rowsT cov,
      log' = (log0 ++ stats_events cluster training_data biased_covariance u0 rows mean u1 rowsT cov)%list /\
      oracle (log0 ++ firstn 1 (stats_events cluster training_data biased_covariance u0 rows mean u1 rowsT cov))%list
             f_rows [cluster; training_data] = Ret rows /\
      oracle (log0 ++ firstn 6 (stats_events cluster training_data biased_covariance u0 rows mean u1 rowsT cov))%list
             "setattr:empirical_covariance" [u1; cov] = Ret r.
  Proof.
    unfold stats_tail. intros H.
    step H u0 e1 Hcopy.
    step H rows e2 Hrows.
    step H mean e3 Hmean.
    step H u1 e4 Hset1.
    step H rowsT e5 HT.
    step H cov e6 Hcov.
    step H u2 e7 Hset2.
    unfold mret in H. apply ret_inj in H. destruct H as [Hr Hlog].
    exists u0, rows, mean, u1, rowsT, cov.
    unfold stats_events, f_rows. cbn [firstn].
    repeat rewrite snoc2 in Hset2. repeat rewrite snoc2 in Hlog.
    split; [symmetry; exact Hlog|]. split; [exact Hrows|]. rewrite <- Hr. exact Hset2.
  Qed.

  (* non-empty cluster: a call that returns copied the cluster, selected the cluster's rows of the data ONCE, computed the column
     mean and (after transposing) the covariance of THOSE rows with the bias flag passed in, and returns the copy with first the
     mean and then the covariance set; no other call *)
  Theorem gl_stats_returns (cluster training_data biased_covariance r : V) (log log' : list (event V)) (n : Z) :
    as_int (getattr cluster "size") = Some n -> n <> 0%Z ->
    g_update_cluster_statistics V vint as_int getattr truthy oracle cluster training_data biased_covariance log = (Ret r, log') ->
    exists u0 rows mean u1 rowsT cov,
      log' = (log ++ stats_events cluster training_data biased_covariance u0 rows mean u1 rowsT cov)%list /\
      oracle (log ++ [Ev "method:shallow_copy" [cluster]])%list f_rows [cluster; training_data] = Ret rows /\
      oracle (log ++ firstn 6 (stats_events cluster training_data biased_covariance u0 rows mean u1 rowsT cov))%list
             "setattr:empirical_covariance" [u1; cov] = Ret r.
  Proof.
    intros Hn Hnz Hrun.
    unfold g_update_cluster_statistics in Hrun.
    unfold need_int in Hrun. rewrite Hn in Hrun. rewrite bind_ret in Hrun.
    apply Z.eqb_neq in Hnz. rewrite Hnz in Hrun. rewrite bind_ret in Hrun.
    change (stats_tail cluster training_data biased_covariance log = (Ret r, log')) in Hrun.
    apply stats_tail_inv in Hrun. destruct Hrun as (u0 & rows & mean & u1 & rowsT & cov & Hlog & Hrows & Hr).
    exists u0, rows, mean, u1, rowsT, cov.
    split; [exact Hlog|]. split; [exact Hrows|exact Hr].
  Qed.

  (* empty cluster (size 0): the same, preceded by the two calls of  assert RuntimeError('...')  - the message literal and the
     exception object built from it, which is truthy in a run that returns *)
  Theorem gl_stats_returns_empty (cluster training_data biased_covariance r : V) (log log' : list (event V)) :
    as_int (getattr cluster "size") = Some 0%Z ->
    g_update_cluster_statistics V vint as_int getattr truthy oracle cluster training_data biased_covariance log = (Ret r, log') ->
    exists msg err u0 rows mean u1 rowsT cov,
      log' = (log ++ assert_events msg
                  ++ stats_events cluster training_data biased_covariance u0 rows mean u1 rowsT cov)%list /\
      oracle log f_empty_msg [] = Ret msg /\
      oracle (log ++ [Ev f_empty_msg []])%list "RuntimeError" [msg] = Ret err /\ truthy err = true /\
      oracle (log ++ assert_events msg ++ [Ev "method:shallow_copy" [cluster]])%list f_rows [cluster; training_data] = Ret rows /\
      oracle (log ++ assert_events msg
                  ++ firstn 6 (stats_events cluster training_data biased_covariance u0 rows mean u1 rowsT cov))%list
             "setattr:empirical_covariance" [u1; cov] = Ret r.
  Proof.
    intros Hn Hrun.
    unfold g_update_cluster_statistics in Hrun.
    unfold need_int in Hrun. rewrite Hn in Hrun. rewrite bind_ret in Hrun.
    change (0 =? 0)%Z with true in Hrun. cbv iota in Hrun.
    apply mbind_ret_inv in Hrun. destruct Hrun as (u & l1 & Hassert & Hrest).
    step Hassert msg e1 Hmsg.
    step Hassert err e2 Herr.
    destruct (truthy err) eqn:Htruthy; [|discriminate Hassert].
    unfold mret in Hassert. apply ret_inj in Hassert. destruct Hassert as [_ Hl1].
    change (stats_tail cluster training_data biased_covariance l1 = (Ret r, log')) in Hrest.
    apply stats_tail_inv in Hrest. destruct Hrest as (u0 & rows & mean & u1 & rowsT & cov & Hlog & Hrows & Hr).
    exists msg, err, u0, rows, mean, u1, rowsT, cov.
    subst l1. rewrite snoc2 in Hlog, Hrows, Hr. rewrite <- app_assoc in Hlog, Hrows, Hr.
    unfold assert_events, f_empty_msg.
    split; [exact Hlog|]. split; [first [exact Hmsg|reflexivity]|]. split; [exact Herr|]. split; [exact Htruthy|].
    split; [exact Hrows|exact Hr].
  Qed.

  (* ================================================================ D. cluster_label_assignment.build_initial_clusters *)

  (* a call that returns built ONE mixture with num_clusters components and covariance type the literal 'full', fitted it on the
     training data, asked it for the labels of the SAME training data, and returns those labels as a list; no other call - in
     particular this function itself consults no random source *)
  Theorem initial_returns (num_clusters training_data r : V) (log log' : list (event V)) :
    g_build_initial_clusters V oracle num_clusters training_data log = (Ret r, log') ->
    exists cov_type gmm fitted labels,
      log' = (log ++ [Ev "expr:'full'" [];
                      Ev f_gmm [num_clusters; cov_type];
                      Ev "method:fit" [gmm; training_data];
                      Ev "method:predict" [gmm; training_data];
                      Ev f_pylist [labels]])%list /\
      oracle log "expr:'full'" [] = Ret cov_type /\
      oracle (log ++ [Ev "expr:'full'" []])%list f_gmm [num_clusters; cov_type] = Ret gmm /\
      oracle (log ++ [Ev "expr:'full'" []; Ev f_gmm [num_clusters; cov_type]])%list "method:fit" [gmm; training_data] = Ret fitted /\
      oracle (log ++ [Ev "expr:'full'" []; Ev f_gmm [num_clusters; cov_type]; Ev "method:fit" [gmm; training_data]])%list
             "method:predict" [gmm; training_data] = Ret labels /\
      oracle (log ++ [Ev "expr:'full'" []; Ev f_gmm [num_clusters; cov_type]; Ev "method:fit" [gmm; training_data];
                      Ev "method:predict" [gmm; training_data]])%list
             f_pylist [labels] = Ret r.
  Proof.
    intros Hrun. unfold g_build_initial_clusters in Hrun. cbv zeta in Hrun.
    step Hrun cov_type e1 Hfull.
    step Hrun gmm e2 Hgmm.
    step Hrun fitted e3 Hfit.
    step Hrun labels e4 Hpred.
    step Hrun pyl e5 Hlist.
    unfold mret in Hrun. apply ret_inj in Hrun. destruct Hrun as [Hr Hlog].
    exists cov_type, gmm, fitted, labels.
    repeat rewrite snoc2 in Hfit. repeat rewrite snoc2 in Hpred. repeat rewrite snoc2 in Hlist. repeat rewrite snoc2 in Hlog.
    unfold f_gmm, f_pylist.
    split; [symmetry; exact Hlog|]. split; [first [exact Hfull|reflexivity]|]. split; [exact Hgmm|]. split; [exact Hfit|].
    split; [exact Hpred|]. rewrite <- Hr. exact Hlist.
  Qed.

End E.


(* ---------------------------------------------------------------- the statements are not vacuous: each function does return
   under a concrete instantiation (V := Z, every callee answers 0, every attribute reads as the given constant) *)
Local Open Scope Z_scope.

Example ll_point_returns_nonvacuous :
  exists r log', g_point_log_likelihood Z (fun _ _ => 0) (fun _ _ _ => Ret 0) 1 2 3 4 [] = (Ret r, log').
Proof. eexists. eexists. vm_compute. reflexivity. Qed.

(* K = 2: two iterations of the loop *)
Example ll_table_returns_nonvacuous :
  (fun v : Z => Some v) ((fun (_ : Z) (_ : string) => 2) ((fun (_ : Z) (_ : string) => 2) 7 "arguments") "num_clusters") = Some 2 /\
  exists r log', g_all_points_all_clusters_log_likelihood Z (fun z => z) (fun v => Some v) (fun _ _ => 2) (fun _ _ _ => Ret 0) 7 8 []
                 = (Ret r, log') /\ length log' = 12%nat.
Proof. split; [reflexivity|]. eexists. eexists. vm_compute. split; reflexivity. Qed.

(* size 3: the non-empty case *)
Example gl_stats_returns_nonvacuous :
  (fun v : Z => Some v) ((fun (_ : Z) (_ : string) => 3) 7 "size") = Some 3 /\ 3 <> 0 /\
  exists r log', g_update_cluster_statistics Z (fun z => z) (fun v => Some v) (fun _ _ => 3) (fun _ => true) (fun _ _ _ => Ret 0) 7 8 9 []
                 = (Ret r, log') /\ length log' = 7%nat.
Proof. split; [reflexivity|]. split; [discriminate|]. eexists. eexists. vm_compute. split; reflexivity. Qed.

(* size 0 and a truthy exception object: the empty case *)
Example gl_stats_returns_empty_nonvacuous :
  (fun v : Z => Some v) ((fun (_ : Z) (_ : string) => 0) 7 "size") = Some 0 /\
  exists r log', g_update_cluster_statistics Z (fun z => z) (fun v => Some v) (fun _ _ => 0) (fun _ => true) (fun _ _ _ => Ret 0) 7 8 9 []
                 = (Ret r, log') /\ length log' = 9%nat.
Proof. split; [reflexivity|]. eexists. eexists. vm_compute. split; reflexivity. Qed.

Example initial_returns_nonvacuous :
  exists r log', g_build_initial_clusters Z (fun _ _ _ => Ret 0) 3 8 [] = (Ret r, log').
Proof. eexists. eexists. vm_compute. reflexivity. Qed.

Print Assumptions ll_point_returns.
Print Assumptions ll_table_returns.
Print Assumptions ll_table_returns_blocks.
Print Assumptions gl_stats_returns.
Print Assumptions gl_stats_returns_empty.
Print Assumptions initial_returns.
