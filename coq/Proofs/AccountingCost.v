(* The cost / likelihood identity of C06: the label-assignment cost equals minus the sum of the
   chosen log-likelihoods plus the switching costs of the pairs with different labels. *)
From Coq Require Import List Arith NArith Reals Lra.
Import ListNotations.
From Ticc Require Import Model.Viterbi Model.InstR Proofs.ViterbiShape Proofs.ViterbiR.
Open Scope R_scope.

Definition neg_table (tab : list (list R)) : list (list R) := map (map Ropp) tab.

Lemma nth_map_opp (r : list R) c : nth c (map Ropp r) 0 = - nth c r 0.
Proof. revert c; induction r as [|x r IH]; intros [|c]; simpl; try lra. apply IH. Qed.

Lemma assign_sum_neg tab path :
  assign_sum 0 Rplus (neg_table tab) path = - assign_sum 0 Rplus tab path.
Proof.
  revert path; induction tab as [|r tab IH]; intros [|c q]; simpl; try lra.
  rewrite IH, nth_map_opp. lra.
Qed.

Lemma wf_rows_neg K tab : wf_rows K tab -> wf_rows K (neg_table tab).
Proof. unfold wf_rows, neg_table. intros H. apply Forall_forall. intros r Hr. apply in_map_iff in Hr.
  destruct Hr as [x [<- Hx]]. rewrite map_length. rewrite Forall_forall in H. apply H. exact Hx. Qed.

Theorem cost_identity K (lltab : list (list R)) betas :
  (0 < K)%nat -> (N.of_nat K <= 65536)%N -> lltab <> [] -> wf_rows K lltab -> Forall (fun b => 0 <= b) betas ->
  let r := viterbi 0 Rplus Rminus Rltb K (neg_table lltab) betas in
  snd r = - assign_sum 0 Rplus lltab (fst r) + switch_sum 0 Rplus betas (fst r).
Proof.
  intros HK HK16 Hne Hwf Hb r.
  assert (Hne' : neg_table lltab <> []) by (destruct lltab; simpl; congruence).
  pose proof (wf_rows_neg K lltab Hwf) as Hwf'.
  unfold r. rewrite (viterbi_cost_is_path_cost K _ betas HK HK16 Hne' Hwf' Hb).
  destruct (viterbi_shape 0 Rplus Rminus Rltb K (neg_table lltab) betas HK Hne' Hwf') as [Hl _].
  rewrite pcost_is_assign_plus_switch by exact Hl. rewrite assign_sum_neg. reflexivity.
Qed.
