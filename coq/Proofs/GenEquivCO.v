(* Second tie, skeleton mode: the state containers (constructors, shallow and deep copies of cluster parameters and model state) AS TRANSLATED from /repo's working tree
   (Gen/G_*.v, regenerated on every run; every callee an uninterpreted oracle asked after the call is logged): which calls a
   returning run made, in which order, on which values.  Closed under the global context. *)
From Coq Require Import String ZArith List Bool Lia Arith.
From Ticc Require Import Gen.PyRt Gen.PySkel Gen.G_cp_init Gen.G_cp_empty Gen.G_cp_shallow Gen.G_cp_deep Gen.G_st_init Gen.G_st_empty Gen.G_st_shallow Gen.G_st_deep .
Import ListNotations.
Local Open Scope string_scope.

Section E.
  Variable V : Type.
  Variable vnone : V.
  Variable vint : Z -> V.
  Variable as_int : V -> option Z.
  Variable veq : V -> V -> bool.
  Variable getattr : V -> string -> V.
  Variable truthy : V -> bool.
  Variable is_none : V -> bool.
  Variables vtrue vfalse : V.
  Variable as_list : V -> list V.
  Variable vglobal : string -> V.
  Variable oracle : list (event V) -> string -> list V -> res V.

  Definition f_cp_ctor :=
    "ClusterParameters(computed_covariance=,empirical_covariance=,graphical_lasso_cost=,inverse_covariance=,log_determinant=,member_points=,stacked_data_mean=,train_inverse=)".
  Definition f_cp_ctor_empty :=
    "ClusterParameters(member_points=,computed_covariance=,stacked_data_mean=,empirical_covariance=,train_inverse=,inverse_covariance=,log_determinant=)".
  Definition f_st_ctor :=
    "ModelState(arguments=,clusters=,label_assignment_cost=,point_labels=,point_log_likelihood=,stacked_training_data=)".
  Definition f_st_ctor_empty := "ModelState(arguments=,clusters=,stacked_training_data=)".
  Definition f_empty_clusters := "expr:[ClusterParameters.empty_cluster() for i in range(user_args.num_clusters)]".
  Definition f_deep_clusters := "expr:[cluster.deep_copy() for cluster in self.clusters]".

  (* ---------------------------------------------------------------- the monad, one step at a time *)

  Lemma bind_call : forall (B : Type) (f : string) (a : list V) (k : V -> M V B) (log : list (event V)),
    mbind (call oracle f a) k log
    = match oracle log f a with
      | Ret v => k v (log ++ [Ev f a])%list
      | Raise e => (Raise e, (log ++ [Ev f a])%list)
      end.
  Proof.
    intros B f a k log. unfold mbind, call.
    destruct (oracle log f a) as [v|e]; reflexivity.
  Qed.

  Lemma bind_ret : forall (A B : Type) (a : A) (k : A -> M V B) (log : list (event V)),
    mbind (mret a) k log = k a log.
  Proof. intros A B a k log. reflexivity. Qed.

  Lemma snoc2 : forall (A : Type) (l : list A) (a : A) (t : list A), ((l ++ [a]) ++ t = l ++ a :: t)%list.
  Proof. intros A l a t. rewrite <- app_assoc. reflexivity. Qed.

  Lemma ret_inj : forall (A L : Type) (a b : A) (l1 l2 : L), (Ret a, l1) = (Ret b, l2) -> a = b /\ l1 = l2.
  Proof. intros A L a b l1 l2 H. inversion H. split; reflexivity. Qed.

  Lemma mbind_ret_inv : forall (A B : Type) (m : M V A) (k : A -> M V B) (log log' : list (event V)) (b : B),
    mbind m k log = (Ret b, log') -> exists a l1, m log = (Ret a, l1) /\ k a l1 = (Ret b, log').
  Proof.
    intros A B m k log log' b H. unfold mbind in H.
    destruct (m log) as [[a|e] l1] eqn:Hm.
    - exists a, l1. split; [reflexivity|exact H].
    - discriminate H.
  Qed.

  Ltac step H v e Heq :=
    rewrite bind_call in H;
    match type of H with
    | match ?o with _ => _ end = _ => destruct o as [v|e] eqn:Heq; [|discriminate H]
    end.

  (* ================================================================ A. ClusterParameters.__init__ *)

  (* the seven attribute stores on the threaded object: s1 .. s6 are the object after the first .. sixth store *)
  Definition init_sets (self cc ec glc ic ld sdm ti s1 s2 s3 s4 s5 s6 : V) : list (event V) :=
    [Ev "setattr:computed_covariance" [self; cc];
     Ev "setattr:empirical_covariance" [s1; ec];
     Ev "setattr:graphical_lasso_cost" [s2; glc];
     Ev "setattr:inverse_covariance" [s3; ic];
     Ev "setattr:log_determinant" [s4; ld];
     Ev "setattr:stacked_data_mean" [s5; sdm];
     Ev "setattr:train_inverse" [s6; ti]].

  (* the literal [] is evaluated only when no member list was passed *)
  Definition init_lit (member_points : V) : list (event V) :=
    if is_none member_points then [Ev "expr:[]" []] else [].

  (* a call that returns stored the seven parameters, each under its own name and in this order, on the object threaded through the
     stores; then - only if no member list was passed - evaluated the literal [], whose answer takes the place of the member list;
     then sorted THAT list (members) and stored the answer of sorted under _member_points on the object left by the seventh store;
     it returns the answer of that last store.  No other call *)
  Theorem cp_init_returns (self cc ec glc ic ld member_points sdm ti r : V) (log log' : list (event V)) :
    g_ClusterParameters__init_ V is_none oracle self cc ec glc ic ld member_points sdm ti log = (Ret r, log') ->
    exists s1 s2 s3 s4 s5 s6 s7 members sorted_members,
      log' = (log ++ init_sets self cc ec glc ic ld sdm ti s1 s2 s3 s4 s5 s6
                  ++ init_lit member_points
                  ++ [Ev "sorted" [members]; Ev "setattr:_member_points" [s7; sorted_members]])%list /\
      oracle log "setattr:computed_covariance" [self; cc] = Ret s1 /\
      oracle (log ++ firstn 1 (init_sets self cc ec glc ic ld sdm ti s1 s2 s3 s4 s5 s6))%list
             "setattr:empirical_covariance" [s1; ec] = Ret s2 /\
      oracle (log ++ firstn 2 (init_sets self cc ec glc ic ld sdm ti s1 s2 s3 s4 s5 s6))%list
             "setattr:graphical_lasso_cost" [s2; glc] = Ret s3 /\
      oracle (log ++ firstn 3 (init_sets self cc ec glc ic ld sdm ti s1 s2 s3 s4 s5 s6))%list
             "setattr:inverse_covariance" [s3; ic] = Ret s4 /\
      oracle (log ++ firstn 4 (init_sets self cc ec glc ic ld sdm ti s1 s2 s3 s4 s5 s6))%list
             "setattr:log_determinant" [s4; ld] = Ret s5 /\
      oracle (log ++ firstn 5 (init_sets self cc ec glc ic ld sdm ti s1 s2 s3 s4 s5 s6))%list
             "setattr:stacked_data_mean" [s5; sdm] = Ret s6 /\
      oracle (log ++ firstn 6 (init_sets self cc ec glc ic ld sdm ti s1 s2 s3 s4 s5 s6))%list
             "setattr:train_inverse" [s6; ti] = Ret s7 /\
      (if is_none member_points
       then oracle (log ++ init_sets self cc ec glc ic ld sdm ti s1 s2 s3 s4 s5 s6)%list "expr:[]" [] = Ret members
       else members = member_points) /\
      oracle (log ++ init_sets self cc ec glc ic ld sdm ti s1 s2 s3 s4 s5 s6 ++ init_lit member_points)%list
             "sorted" [members] = Ret sorted_members /\
      oracle (log ++ init_sets self cc ec glc ic ld sdm ti s1 s2 s3 s4 s5 s6 ++ init_lit member_points
                  ++ [Ev "sorted" [members]])%list
             "setattr:_member_points" [s7; sorted_members] = Ret r.
  Proof.
    unfold g_ClusterParameters__init_, init_lit.
    destruct (is_none member_points) eqn:Hnone; intros Hrun; cbv zeta in Hrun.
    - (* no member list passed *)
      step Hrun s1 e1 H1. step Hrun s2 e2 H2. step Hrun s3 e3 H3. step Hrun s4 e4 H4.
      step Hrun s5 e5 H5. step Hrun s6 e6 H6. step Hrun s7 e7 H7.
      apply mbind_ret_inv in Hrun. destruct Hrun as (members & l1 & Hlit & Hrest).
      step Hlit t1 e8 Hempty.
      unfold mret in Hlit. apply ret_inj in Hlit. destruct Hlit as [Hmem Hl1].
      subst members. subst l1.
      step Hrest sm e9 Hsorted. step Hrest s8 e10 Hlast.
      unfold mret in Hrest. apply ret_inj in Hrest. destruct Hrest as [Hr Hlog].
      exists s1, s2, s3, s4, s5, s6, s7, t1, sm.
      unfold init_sets. cbn [firstn app].
      repeat rewrite snoc2 in H3. repeat rewrite snoc2 in H4. repeat rewrite snoc2 in H5. repeat rewrite snoc2 in H6.
      repeat rewrite snoc2 in H7. repeat rewrite snoc2 in Hempty. repeat rewrite snoc2 in Hsorted.
      repeat rewrite snoc2 in Hlast. repeat rewrite snoc2 in Hlog.
      split; [symmetry; exact Hlog|].
      split; [first [exact H1|reflexivity]|]. split; [exact H2|]. split; [exact H3|]. split; [exact H4|]. split; [exact H5|].
      split; [exact H6|]. split; [exact H7|]. split; [exact Hempty|]. split; [exact Hsorted|].
      rewrite <- Hr. exact Hlast.
    - (* a member list was passed *)
      step Hrun s1 e1 H1. step Hrun s2 e2 H2. step Hrun s3 e3 H3. step Hrun s4 e4 H4.
      step Hrun s5 e5 H5. step Hrun s6 e6 H6. step Hrun s7 e7 H7.
      rewrite bind_ret in Hrun.
      step Hrun sm e9 Hsorted. step Hrun s8 e10 Hlast.
      unfold mret in Hrun. apply ret_inj in Hrun. destruct Hrun as [Hr Hlog].
      exists s1, s2, s3, s4, s5, s6, s7, member_points, sm.
      unfold init_sets. cbn [firstn app].
      repeat rewrite snoc2 in H3. repeat rewrite snoc2 in H4. repeat rewrite snoc2 in H5. repeat rewrite snoc2 in H6.
      repeat rewrite snoc2 in H7. repeat rewrite snoc2 in Hsorted.
      repeat rewrite snoc2 in Hlast. repeat rewrite snoc2 in Hlog.
      split; [symmetry; exact Hlog|].
      split; [first [exact H1|reflexivity]|]. split; [exact H2|]. split; [exact H3|]. split; [exact H4|]. split; [exact H5|].
      split; [exact H6|]. split; [exact H7|]. split; [reflexivity|]. split; [exact Hsorted|].
      rewrite <- Hr. exact Hlast.
  Qed.

  (* the two branches separately.  A member list was passed: nine calls, and what is sorted is the list passed *)
  Corollary cp_init_returns_given (self cc ec glc ic ld member_points sdm ti r : V) (log log' : list (event V)) :
    is_none member_points = false ->
    g_ClusterParameters__init_ V is_none oracle self cc ec glc ic ld member_points sdm ti log = (Ret r, log') ->
    exists s1 s2 s3 s4 s5 s6 s7 sorted_members,
      log' = (log ++ init_sets self cc ec glc ic ld sdm ti s1 s2 s3 s4 s5 s6
                  ++ [Ev "sorted" [member_points]; Ev "setattr:_member_points" [s7; sorted_members]])%list /\
      oracle (log ++ firstn 6 (init_sets self cc ec glc ic ld sdm ti s1 s2 s3 s4 s5 s6))%list
             "setattr:train_inverse" [s6; ti] = Ret s7 /\
      oracle (log ++ init_sets self cc ec glc ic ld sdm ti s1 s2 s3 s4 s5 s6)%list
             "sorted" [member_points] = Ret sorted_members /\
      oracle (log ++ init_sets self cc ec glc ic ld sdm ti s1 s2 s3 s4 s5 s6 ++ [Ev "sorted" [member_points]])%list
             "setattr:_member_points" [s7; sorted_members] = Ret r.
  Proof.
    intros Hnone Hrun.
    destruct (cp_init_returns _ _ _ _ _ _ _ _ _ _ _ _ Hrun)
      as (s1 & s2 & s3 & s4 & s5 & s6 & s7 & members & sm & Hlog & _ & _ & _ & _ & _ & _ & H7 & Hmem & Hsorted & Hlast).
    unfold init_lit in Hlog, Hsorted, Hlast. rewrite Hnone in Hlog, Hmem, Hsorted, Hlast. subst members.
    cbn [app] in Hlog, Hlast. rewrite app_nil_r in Hsorted.
    exists s1, s2, s3, s4, s5, s6, s7, sm.
    split; [exact Hlog|]. split; [exact H7|]. split; [exact Hsorted|exact Hlast].
  Qed.

  (* None was passed: ten calls, and what is sorted is the answer of the literal [] *)
  Corollary cp_init_returns_none (self cc ec glc ic ld member_points sdm ti r : V) (log log' : list (event V)) :
    is_none member_points = true ->
    g_ClusterParameters__init_ V is_none oracle self cc ec glc ic ld member_points sdm ti log = (Ret r, log') ->
    exists s1 s2 s3 s4 s5 s6 s7 members sorted_members,
      log' = (log ++ init_sets self cc ec glc ic ld sdm ti s1 s2 s3 s4 s5 s6
                  ++ [Ev "expr:[]" []; Ev "sorted" [members]; Ev "setattr:_member_points" [s7; sorted_members]])%list /\
      oracle (log ++ firstn 6 (init_sets self cc ec glc ic ld sdm ti s1 s2 s3 s4 s5 s6))%list
             "setattr:train_inverse" [s6; ti] = Ret s7 /\
      oracle (log ++ init_sets self cc ec glc ic ld sdm ti s1 s2 s3 s4 s5 s6)%list "expr:[]" [] = Ret members /\
      oracle (log ++ init_sets self cc ec glc ic ld sdm ti s1 s2 s3 s4 s5 s6 ++ [Ev "expr:[]" []])%list
             "sorted" [members] = Ret sorted_members /\
      oracle (log ++ init_sets self cc ec glc ic ld sdm ti s1 s2 s3 s4 s5 s6 ++ [Ev "expr:[]" []; Ev "sorted" [members]])%list
             "setattr:_member_points" [s7; sorted_members] = Ret r.
  Proof.
    intros Hnone Hrun.
    destruct (cp_init_returns _ _ _ _ _ _ _ _ _ _ _ _ Hrun)
      as (s1 & s2 & s3 & s4 & s5 & s6 & s7 & members & sm & Hlog & _ & _ & _ & _ & _ & _ & H7 & Hmem & Hsorted & Hlast).
    unfold init_lit in Hlog, Hsorted, Hlast. rewrite Hnone in Hlog, Hmem, Hsorted, Hlast.
    cbn [app] in Hlog, Hlast.
    exists s1, s2, s3, s4, s5, s6, s7, members, sm.
    split; [exact Hlog|]. split; [exact H7|]. split; [exact Hmem|]. split; [exact Hsorted|exact Hlast].
  Qed.

  (* ================================================================ B. ClusterParameters.empty_cluster *)

  (* a call that returns evaluated the literal [] and called the constructor ONCE, with that list as member_points and None for the
     six other keywords; it returns the constructor's answer *)
  Theorem cp_empty_returns (r : V) (log log' : list (event V)) :
    g_ClusterParameters_empty_cluster V vnone oracle log = (Ret r, log') ->
    exists members,
      log' = (log ++ [Ev "expr:[]" [];
                      Ev f_cp_ctor_empty [members; vnone; vnone; vnone; vnone; vnone; vnone]])%list /\
      oracle log "expr:[]" [] = Ret members /\
      oracle (log ++ [Ev "expr:[]" []])%list f_cp_ctor_empty [members; vnone; vnone; vnone; vnone; vnone; vnone] = Ret r.
  Proof.
    intros Hrun. unfold g_ClusterParameters_empty_cluster in Hrun. cbv zeta in Hrun.
    step Hrun members e1 Hlit.
    step Hrun c e2 Hctor.
    unfold mret in Hrun. apply ret_inj in Hrun. destruct Hrun as [Hr Hlog].
    exists members. unfold f_cp_ctor_empty.
    repeat rewrite snoc2 in Hlog.
    split; [symmetry; exact Hlog|]. split; [first [exact Hlit|reflexivity]|]. rewrite <- Hr. first [exact Hctor|reflexivity].
  Qed.

  (* ================================================================ C. ClusterParameters.shallow_copy *)

  (* a call that returns made exactly ONE call: the constructor, on the source's own eight fields - nothing is copied *)
  Theorem cp_shallow_returns (self r : V) (log log' : list (event V)) :
    g_ClusterParameters_shallow_copy V getattr oracle self log = (Ret r, log') ->
    log' = (log ++ [Ev f_cp_ctor
                       [getattr self "computed_covariance"; getattr self "empirical_covariance";
                        getattr self "graphical_lasso_cost"; getattr self "inverse_covariance";
                        getattr self "log_determinant"; getattr self "member_points";
                        getattr self "stacked_data_mean"; getattr self "train_inverse"]])%list /\
    oracle log f_cp_ctor
           [getattr self "computed_covariance"; getattr self "empirical_covariance";
            getattr self "graphical_lasso_cost"; getattr self "inverse_covariance";
            getattr self "log_determinant"; getattr self "member_points";
            getattr self "stacked_data_mean"; getattr self "train_inverse"] = Ret r.
  Proof.
    intros Hrun. unfold g_ClusterParameters_shallow_copy in Hrun. cbv zeta in Hrun.
    step Hrun c e1 Hctor.
    unfold mret in Hrun. apply ret_inj in Hrun. destruct Hrun as [Hr Hlog].
    unfold f_cp_ctor.
    split; [symmetry; exact Hlog|]. rewrite <- Hr. first [exact Hctor|reflexivity].
  Qed.

  (* ================================================================ D. ClusterParameters.deep_copy *)

  (* the six copying calls, in the order of evaluation (the order of the keywords in the source) *)
  Definition cp_deep_copies (self : V) : list (event V) :=
    [Ev "np.copy" [getattr self "computed_covariance"];
     Ev "np.copy" [getattr self "empirical_covariance"];
     Ev "np.copy" [getattr self "inverse_covariance"];
     Ev "list" [getattr self "member_points"];
     Ev "np.copy" [getattr self "stacked_data_mean"];
     Ev "np.copy" [getattr self "train_inverse"]].

  (* a call that returns copied each of the five array fields with np.copy and the member list with list, then called the
     constructor ONCE: every array argument is the ANSWER of np.copy on the source's field of the same name, member_points the
     answer of list on the source's member list, and the two numbers are the source's own fields.  So no array field and no list
     of the copy is the source's own object.  It returns the constructor's answer *)
  Theorem cp_deep_returns (self r : V) (log log' : list (event V)) :
    g_ClusterParameters_deep_copy V getattr oracle self log = (Ret r, log') ->
    exists cc' ec' ic' mp' sdm' ti',
      log' = (log ++ cp_deep_copies self
                  ++ [Ev f_cp_ctor [cc'; ec'; getattr self "graphical_lasso_cost"; ic'; getattr self "log_determinant";
                                    mp'; sdm'; ti']])%list /\
      oracle log "np.copy" [getattr self "computed_covariance"] = Ret cc' /\
      oracle (log ++ firstn 1 (cp_deep_copies self))%list "np.copy" [getattr self "empirical_covariance"] = Ret ec' /\
      oracle (log ++ firstn 2 (cp_deep_copies self))%list "np.copy" [getattr self "inverse_covariance"] = Ret ic' /\
      oracle (log ++ firstn 3 (cp_deep_copies self))%list "list" [getattr self "member_points"] = Ret mp' /\
      oracle (log ++ firstn 4 (cp_deep_copies self))%list "np.copy" [getattr self "stacked_data_mean"] = Ret sdm' /\
      oracle (log ++ firstn 5 (cp_deep_copies self))%list "np.copy" [getattr self "train_inverse"] = Ret ti' /\
      oracle (log ++ cp_deep_copies self)%list f_cp_ctor
             [cc'; ec'; getattr self "graphical_lasso_cost"; ic'; getattr self "log_determinant"; mp'; sdm'; ti'] = Ret r.
  Proof.
    intros Hrun. unfold g_ClusterParameters_deep_copy in Hrun. cbv zeta in Hrun.
    step Hrun cc' e1 Hcc. step Hrun ec' e2 Hec. step Hrun ic' e3 Hic. step Hrun mp' e4 Hmp.
    step Hrun sdm' e5 Hsdm. step Hrun ti' e6 Hti. step Hrun c e7 Hctor.
    unfold mret in Hrun. apply ret_inj in Hrun. destruct Hrun as [Hr Hlog].
    exists cc', ec', ic', mp', sdm', ti'.
    unfold cp_deep_copies, f_cp_ctor. cbn [firstn app].
    repeat rewrite snoc2 in Hic. repeat rewrite snoc2 in Hmp. repeat rewrite snoc2 in Hsdm. repeat rewrite snoc2 in Hti.
    repeat rewrite snoc2 in Hctor. repeat rewrite snoc2 in Hlog.
    split; [symmetry; exact Hlog|]. split; [first [exact Hcc|reflexivity]|]. split; [exact Hec|]. split; [exact Hic|]. split; [exact Hmp|].
    split; [exact Hsdm|]. split; [exact Hti|]. rewrite <- Hr. first [exact Hctor|reflexivity].
  Qed.

  (* ================================================================ E. ModelState.__init__ *)

  (* the six attribute stores on the threaded object; the labels are stored under _point_labels directly (not through the
     property setter) *)
  Definition st_init_sets (self arguments clusters label_assignment_cost point_labels point_log_likelihood stacked_training_data
                           s1 s2 s3 s4 s5 : V) : list (event V) :=
    [Ev "setattr:arguments" [self; arguments];
     Ev "setattr:clusters" [s1; clusters];
     Ev "setattr:label_assignment_cost" [s2; label_assignment_cost];
     Ev "setattr:_point_labels" [s3; point_labels];
     Ev "setattr:point_log_likelihood" [s4; point_log_likelihood];
     Ev "setattr:stacked_training_data" [s5; stacked_training_data]].

  (* a call that returns stored the six parameters, each under its own name (point_labels under _point_labels) and in this order,
     on the object threaded through the stores, and returns the answer of the last store.  No other call *)
  Theorem st_init_returns (self arguments clusters label_assignment_cost point_labels point_log_likelihood stacked_training_data r : V)
                          (log log' : list (event V)) :
    g_ModelState__init_ V oracle self arguments clusters label_assignment_cost point_labels point_log_likelihood
                        stacked_training_data log = (Ret r, log') ->
    exists s1 s2 s3 s4 s5,
      log' = (log ++ st_init_sets self arguments clusters label_assignment_cost point_labels point_log_likelihood
                                  stacked_training_data s1 s2 s3 s4 s5)%list /\
      oracle log "setattr:arguments" [self; arguments] = Ret s1 /\
      oracle (log ++ firstn 1 (st_init_sets self arguments clusters label_assignment_cost point_labels point_log_likelihood
                                            stacked_training_data s1 s2 s3 s4 s5))%list
             "setattr:clusters" [s1; clusters] = Ret s2 /\
      oracle (log ++ firstn 2 (st_init_sets self arguments clusters label_assignment_cost point_labels point_log_likelihood
                                            stacked_training_data s1 s2 s3 s4 s5))%list
             "setattr:label_assignment_cost" [s2; label_assignment_cost] = Ret s3 /\
      oracle (log ++ firstn 3 (st_init_sets self arguments clusters label_assignment_cost point_labels point_log_likelihood
                                            stacked_training_data s1 s2 s3 s4 s5))%list
             "setattr:_point_labels" [s3; point_labels] = Ret s4 /\
      oracle (log ++ firstn 4 (st_init_sets self arguments clusters label_assignment_cost point_labels point_log_likelihood
                                            stacked_training_data s1 s2 s3 s4 s5))%list
             "setattr:point_log_likelihood" [s4; point_log_likelihood] = Ret s5 /\
      oracle (log ++ firstn 5 (st_init_sets self arguments clusters label_assignment_cost point_labels point_log_likelihood
                                            stacked_training_data s1 s2 s3 s4 s5))%list
             "setattr:stacked_training_data" [s5; stacked_training_data] = Ret r.
  Proof.
    intros Hrun. unfold g_ModelState__init_ in Hrun. cbv zeta in Hrun.
    step Hrun s1 e1 H1. step Hrun s2 e2 H2. step Hrun s3 e3 H3. step Hrun s4 e4 H4. step Hrun s5 e5 H5. step Hrun s6 e6 H6.
    unfold mret in Hrun. apply ret_inj in Hrun. destruct Hrun as [Hr Hlog].
    exists s1, s2, s3, s4, s5.
    unfold st_init_sets. cbn [firstn].
    repeat rewrite snoc2 in H3. repeat rewrite snoc2 in H4. repeat rewrite snoc2 in H5. repeat rewrite snoc2 in H6.
    repeat rewrite snoc2 in Hlog.
    split; [symmetry; exact Hlog|]. split; [first [exact H1|reflexivity]|]. split; [exact H2|]. split; [exact H3|]. split; [exact H4|].
    split; [exact H5|]. rewrite <- Hr. exact H6.
  Qed.

  (* ================================================================ F. ModelState.empty_model *)

  (* a call that returns built the list of empty clusters from the user arguments (one comprehension call) and called the
     constructor ONCE on the user arguments, THAT list and the training data given; it returns the constructor's answer *)
  Theorem st_empty_returns (user_args stacked_training_data r : V) (log log' : list (event V)) :
    g_ModelState_empty_model V oracle user_args stacked_training_data log = (Ret r, log') ->
    exists clusters,
      log' = (log ++ [Ev f_empty_clusters [user_args];
                      Ev f_st_ctor_empty [user_args; clusters; stacked_training_data]])%list /\
      oracle log f_empty_clusters [user_args] = Ret clusters /\
      oracle (log ++ [Ev f_empty_clusters [user_args]])%list f_st_ctor_empty [user_args; clusters; stacked_training_data] = Ret r.
  Proof.
    intros Hrun. unfold g_ModelState_empty_model in Hrun. cbv zeta in Hrun.
    step Hrun clusters e1 Hcl.
    step Hrun c e2 Hctor.
    unfold mret in Hrun. apply ret_inj in Hrun. destruct Hrun as [Hr Hlog].
    exists clusters. unfold f_empty_clusters, f_st_ctor_empty.
    repeat rewrite snoc2 in Hlog.
    split; [symmetry; exact Hlog|]. split; [first [exact Hcl|reflexivity]|]. rewrite <- Hr. first [exact Hctor|reflexivity].
  Qed.

  (* ================================================================ G. ModelState.shallow_copy *)

  (* a call that returns made exactly TWO calls: list on the source's cluster list (a new list holding the SAME cluster objects),
     then the constructor, in which clusters is the answer of that list call and the five other arguments - arguments,
     label_assignment_cost, _point_labels (passed as point_labels), point_log_likelihood, stacked_training_data - are the source's
     own fields, handed on as they are; it returns the constructor's answer *)
  Theorem st_shallow_returns (self r : V) (log log' : list (event V)) :
    g_ModelState_shallow_copy V getattr oracle self log = (Ret r, log') ->
    exists clusters',
      log' = (log ++ [Ev "list" [getattr self "clusters"];
                      Ev f_st_ctor [getattr self "arguments"; clusters'; getattr self "label_assignment_cost";
                                    getattr self "_point_labels"; getattr self "point_log_likelihood";
                                    getattr self "stacked_training_data"]])%list /\
      oracle log "list" [getattr self "clusters"] = Ret clusters' /\
      oracle (log ++ [Ev "list" [getattr self "clusters"]])%list f_st_ctor
             [getattr self "arguments"; clusters'; getattr self "label_assignment_cost";
              getattr self "_point_labels"; getattr self "point_log_likelihood";
              getattr self "stacked_training_data"] = Ret r.
  Proof.
    intros Hrun. unfold g_ModelState_shallow_copy in Hrun. cbv zeta in Hrun.
    step Hrun clusters' e1 Hcl.
    step Hrun c e2 Hctor.
    unfold mret in Hrun. apply ret_inj in Hrun. destruct Hrun as [Hr Hlog].
    exists clusters'. unfold f_st_ctor.
    repeat rewrite snoc2 in Hlog.
    split; [symmetry; exact Hlog|]. split; [first [exact Hcl|reflexivity]|]. rewrite <- Hr. first [exact Hctor|reflexivity].
  Qed.

  (* ================================================================ H. ModelState.deep_copy *)

  (* the five copying calls, in the order of evaluation *)
  Definition st_deep_copies (self : V) : list (event V) :=
    [Ev f_deep_clusters [self];
     Ev "method:deep_copy" [getattr self "arguments"];
     Ev "list" [getattr self "_point_labels"];
     Ev "np.copy" [getattr self "point_log_likelihood"];
     Ev "np.copy" [getattr self "stacked_training_data"]].

  (* a call that returns deep-copied every cluster (one comprehension call on the source), deep-copied the arguments, copied the
     label list with list and the two arrays with np.copy, then called the constructor ONCE with exactly those five answers in the
     matching slots and the source's own label_assignment_cost (a number); it returns the constructor's answer *)
  Theorem st_deep_returns (self r : V) (log log' : list (event V)) :
    g_ModelState_deep_copy V getattr oracle self log = (Ret r, log') ->
    exists new_clusters args' labels' pll' data',
      log' = (log ++ st_deep_copies self
                  ++ [Ev f_st_ctor [args'; new_clusters; getattr self "label_assignment_cost"; labels'; pll'; data']])%list /\
      oracle log f_deep_clusters [self] = Ret new_clusters /\
      oracle (log ++ firstn 1 (st_deep_copies self))%list "method:deep_copy" [getattr self "arguments"] = Ret args' /\
      oracle (log ++ firstn 2 (st_deep_copies self))%list "list" [getattr self "_point_labels"] = Ret labels' /\
      oracle (log ++ firstn 3 (st_deep_copies self))%list "np.copy" [getattr self "point_log_likelihood"] = Ret pll' /\
      oracle (log ++ firstn 4 (st_deep_copies self))%list "np.copy" [getattr self "stacked_training_data"] = Ret data' /\
      oracle (log ++ st_deep_copies self)%list f_st_ctor
             [args'; new_clusters; getattr self "label_assignment_cost"; labels'; pll'; data'] = Ret r.
  Proof.
    intros Hrun. unfold g_ModelState_deep_copy in Hrun. cbv zeta in Hrun.
    step Hrun new_clusters e1 Hcl. step Hrun args' e2 Hargs. step Hrun labels' e3 Hlab. step Hrun pll' e4 Hpll.
    step Hrun data' e5 Hdata. step Hrun c e6 Hctor.
    unfold mret in Hrun. apply ret_inj in Hrun. destruct Hrun as [Hr Hlog].
    exists new_clusters, args', labels', pll', data'.
    unfold st_deep_copies, f_deep_clusters, f_st_ctor. cbn [firstn app].
    repeat rewrite snoc2 in Hlab. repeat rewrite snoc2 in Hpll. repeat rewrite snoc2 in Hdata.
    repeat rewrite snoc2 in Hctor. repeat rewrite snoc2 in Hlog.
    split; [symmetry; exact Hlog|]. split; [first [exact Hcl|reflexivity]|]. split; [exact Hargs|]. split; [exact Hlab|]. split; [exact Hpll|].
    split; [exact Hdata|]. rewrite <- Hr. first [exact Hctor|reflexivity].
  Qed.

End E.


(* ---------------------------------------------------------------- the statements are not vacuous: each function does return
   under a concrete instantiation (V := Z, every callee answers 0, every attribute reads as the given constant) *)
Local Open Scope Z_scope.

(* a member list was passed: 9 calls *)
Example cp_init_returns_nonvacuous :
  (fun _ : Z => false) 6 = false /\
  exists r log', g_ClusterParameters__init_ Z (fun _ => false) (fun _ _ _ => Ret 0) 10 1 2 3 4 5 6 7 8 [] = (Ret r, log')
                 /\ length log' = 9%nat.
Proof. split; [reflexivity|]. eexists. eexists. vm_compute. split; reflexivity. Qed.

(* None was passed: 10 calls *)
Example cp_init_returns_none_nonvacuous :
  (fun _ : Z => true) 6 = true /\
  exists r log', g_ClusterParameters__init_ Z (fun _ => true) (fun _ _ _ => Ret 0) 10 1 2 3 4 5 6 7 8 [] = (Ret r, log')
                 /\ length log' = 10%nat.
Proof. split; [reflexivity|]. eexists. eexists. vm_compute. split; reflexivity. Qed.

Example cp_empty_returns_nonvacuous :
  exists r log', g_ClusterParameters_empty_cluster Z (-1) (fun _ _ _ => Ret 0) [] = (Ret r, log') /\ length log' = 2%nat.
Proof. eexists. eexists. vm_compute. split; reflexivity. Qed.

Example cp_shallow_returns_nonvacuous :
  exists r log', g_ClusterParameters_shallow_copy Z (fun _ _ => 2) (fun _ _ _ => Ret 0) 7 [] = (Ret r, log') /\ length log' = 1%nat.
Proof. eexists. eexists. vm_compute. split; reflexivity. Qed.

Example cp_deep_returns_nonvacuous :
  exists r log', g_ClusterParameters_deep_copy Z (fun _ _ => 2) (fun _ _ _ => Ret 0) 7 [] = (Ret r, log') /\ length log' = 7%nat.
Proof. eexists. eexists. vm_compute. split; reflexivity. Qed.

Example st_init_returns_nonvacuous :
  exists r log', g_ModelState__init_ Z (fun _ _ _ => Ret 0) 10 1 2 3 4 5 6 [] = (Ret r, log') /\ length log' = 6%nat.
Proof. eexists. eexists. vm_compute. split; reflexivity. Qed.

Example st_empty_returns_nonvacuous :
  exists r log', g_ModelState_empty_model Z (fun _ _ _ => Ret 0) 1 2 [] = (Ret r, log') /\ length log' = 2%nat.
Proof. eexists. eexists. vm_compute. split; reflexivity. Qed.

Example st_shallow_returns_nonvacuous :
  exists r log', g_ModelState_shallow_copy Z (fun _ _ => 2) (fun _ _ _ => Ret 0) 7 [] = (Ret r, log') /\ length log' = 2%nat.
Proof. eexists. eexists. vm_compute. split; reflexivity. Qed.

Example st_deep_returns_nonvacuous :
  exists r log', g_ModelState_deep_copy Z (fun _ _ => 2) (fun _ _ _ => Ret 0) 7 [] = (Ret r, log') /\ length log' = 6%nat.
Proof. eexists. eexists. vm_compute. split; reflexivity. Qed.

Print Assumptions cp_init_returns.
Print Assumptions cp_init_returns_given.
Print Assumptions cp_init_returns_none.
Print Assumptions cp_empty_returns.
Print Assumptions cp_shallow_returns.
Print Assumptions cp_deep_returns.
Print Assumptions st_init_returns.
Print Assumptions st_empty_returns.
Print Assumptions st_shallow_returns.
Print Assumptions st_deep_returns.
