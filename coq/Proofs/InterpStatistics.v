(* The generated control skeleton of the STATISTICS PHASE of cluster_maintenance.py
     update_all_cluster_statistics       (Gen/G_cm_update_all.v)
   INTERPRETED over a concrete universe of values.  Abstract: what a cluster holds (Cl), the training data (Dt) and the
   statistics helper  stats_of : Cl -> Dt -> bool -> Cl  (update_cluster_member_data_statistics cluster data biased).

   Objects and mutation: VModel is the state the caller shares; shallow_copy() answers VFresh of the object (a fresh copy
   reads like the object), and the only store of the function, the path store
       updated_model.clusters[cluster_id] = ...
   is answered on a VFresh object only - on any other target it raises "mutation of shared state"
   (shared_state_is_immutable).  So a run that returns has not written to the state it was given, and what it returns is a
   fresh object.  (ModelState.shallow_copy copies the list of clusters: list(self.clusters); so the store into
   updated_model.clusters does not reach the caller's list.)

   Python lists are values: "getitem" reads position k (IndexError outside) and the store answers the model with
   position k of its clusters replaced; the skeleton threads the updated model through the loop.

   The dictionary  cluster_members  is dead code in the source: it is built, every point is appended to the list of its
   label, and it is never read.  It is interpreted by two handles (VMembers, VMemberList) whose operations answer without
   any effect on the model.

   END TO END (statistics_phase_end_to_end): for every list of clusters (any number), every flag, labels and data, the phase
   as translated returns a FRESH model whose cluster k is  stats_of (cluster k) data b  for every k, in order: the helper
   applied to THAT cluster (position k of the model being updated has not been written before iteration k, so it still
   holds the original cluster k), THE training data of the call and the biased flag of the GIVEN model's arguments.
   Labels and flag are carried over unchanged.  No hypothesis.
   Closed under the global context. *)
From Coq Require Import String ZArith List Bool Lia Arith.
From Ticc Require Import Gen.PyRt Gen.PySkel Gen.G_cm_update_all.
Import ListNotations.
Local Open Scope string_scope.

(* ---------------------------------------------------------------- list facts *)

(* l[k] = x *)
Fixpoint replace_nth {A : Type} (k : nat) (x : A) (l : list A) : list A :=
  match l, k with
  | [], _ => []
  | _ :: r, 0 => x :: r
  | y :: r, S k' => y :: replace_nth k' x r
  end.

Lemma replace_nth_app {A : Type} (x y : A) (r : list A) : forall (p : list A) (k : nat),
  k = length p -> replace_nth k x (p ++ y :: r) = (p ++ x :: r)%list.
Proof.
  induction p as [|a p IH]; intros k Hk; subst k; cbn [length app replace_nth]; [reflexivity|].
  rewrite (IH (length p) eq_refl). reflexivity.
Qed.

Section Interp.
  Variables (Cl Dt : Type).
  Variable stats_of : Cl -> Dt -> bool -> Cl.   (* update_cluster_member_data_statistics(cluster, data, biased) *)

  (* ---------------------------------------------------------------- the concrete universe of values *)

  Inductive val : Type :=
  | VNone
  | VInt (z : Z)
  | VBool (b : bool)
  | VCl (c : Cl)                                       (* a ClusterParameters *)
  | VClusters (cs : list Cl)                           (* model.clusters *)
  | VData (d : Dt)                                     (* the stacked training data *)
  | VArgs (K : nat) (b : bool)                         (* model.arguments: num_clusters, biased_covariance *)
  | VModel (cs : list Cl) (b : bool) (labels : list nat)   (* a ModelState shared with the caller *)
  | VLabels (l : list nat)                             (* model.point_labels *)
  | VPair (x y : val)
  | VPairs (l : list nat)                              (* enumerate(point_labels) *)
  | VMembers                                           (* the handle of the dictionary cluster_members (never read) *)
  | VMemberList                                        (* the handle of one of its lists *)
  | VFresh (o : val).                                  (* the object o, just copied: not shared, may be written to *)

  Definition as_int (v : val) : option Z := match v with VInt z => Some z | _ => None end.

  Fixpoint getattr (v : val) (a : string) {struct v} : val :=
    match v with
    | VModel cs b labels => if String.eqb a "clusters" then VClusters cs
                            else if String.eqb a "arguments" then VArgs (length cs) b
                            else if String.eqb a "point_labels" then VLabels labels else VNone
    | VArgs K b => if String.eqb a "num_clusters" then VInt (Z.of_nat K)
                   else if String.eqb a "biased_covariance" then VBool b else VNone
    | VPair x y => if String.eqb a "[0]" then x else if String.eqb a "[1]" then y else VNone
    | VFresh o => getattr o a
    | _ => VNone
    end.

  (* enumerate(labels): (0, l0), (1, l1), ... *)
  Definition pair_items (l : list nat) : list val :=
    map (fun p => VPair (VInt (Z.of_nat (fst p))) (VInt (Z.of_nat (snd p)))) (combine (seq 0 (length l)) l).
  Definition as_list (v : val) : list val := match v with VPairs l => pair_items l | _ => [] end.

  Definition l_members := "expr:{cluster_id: [] for cluster_id in range(num_clusters)}".
  Definition l_store := "store:updated_model.clusters[cluster_id]".

  Definition unexpected : res val := Raise "unexpected".
  Definition shared : res val := Raise "mutation of shared state".

  (* what the callees answer; none of them reads the history of calls *)
  Definition oracle_model (log : list (event val)) (f : string) (a : list val) : res val :=
    if String.eqb f l_members then
      match a with [VInt _] => Ret VMembers | _ => unexpected end
    else if String.eqb f "enumerate" then
      match a with [VLabels l] => Ret (VPairs l) | _ => unexpected end
    else if String.eqb f "getitem" then
      match a with
      | [VMembers; _] => Ret VMemberList
      | [VClusters cs; VInt k] =>
        if Z.ltb k 0 then unexpected
        else match nth_error cs (Z.to_nat k) with Some c => Ret (VCl c) | None => Raise "IndexError" end
      | _ => unexpected
      end
    else if String.eqb f "method:append" then
      match a with [VMemberList; _] => Ret VNone | _ => unexpected end
    else if String.eqb f "method:shallow_copy" then
      match a with [VModel cs b l] => Ret (VFresh (VModel cs b l)) | _ => unexpected end
    else if String.eqb f "update_cluster_member_data_statistics" then
      match a with [VCl c; VData d; VBool b] => Ret (VCl (stats_of c d b)) | _ => unexpected end
    else if String.eqb f l_store then
      (* obj.clusters[k] = c': on a fresh object only *)
      match a with
      | [VFresh o; VInt k; VCl c'] =>
        match o with
        | VModel cs b l =>
          if Z.ltb k 0 then unexpected
          else if Nat.ltb (Z.to_nat k) (length cs) then Ret (VFresh (VModel (replace_nth (Z.to_nat k) c' cs) b l))
               else Raise "IndexError"
        | _ => unexpected
        end
      | [VFresh _; _; _] => unexpected
      | [_; _; _] => shared
      | _ => unexpected
      end
    else unexpected.

  Local Notation O := oracle_model.

  (* ---------------------------------------------------------------- the discipline of mutation *)

  (* the interpretation refuses the store into an object that is not a fresh copy *)
  Lemma shared_state_is_immutable (log : list (event val)) (cs : list Cl) (b : bool) (l : list nat) (k v : val) :
    O log l_store [VModel cs b l; k; v] = shared
    /\ O log l_store [VClusters cs; k; v] = shared.
  Proof. split; reflexivity. Qed.

  (* ---------------------------------------------------------------- small facts *)

  Lemma getattr_numc (cs : list Cl) (b : bool) (l : list nat) :
    getattr (getattr (VModel cs b l) "arguments") "num_clusters" = VInt (Z.of_nat (length cs)).
  Proof. reflexivity. Qed.
  Lemma getattr_flag (cs : list Cl) (b : bool) (l : list nat) :
    getattr (getattr (VModel cs b l) "arguments") "biased_covariance" = VBool b.
  Proof. reflexivity. Qed.
  Lemma getattr_labels (cs : list Cl) (b : bool) (l : list nat) : getattr (VModel cs b l) "point_labels" = VLabels l.
  Proof. reflexivity. Qed.
  Lemma getattr_clusters (cs : list Cl) (b : bool) (l : list nat) : getattr (VModel cs b l) "clusters" = VClusters cs.
  Proof. reflexivity. Qed.
  (* a fresh copy reads like the object *)
  Lemma getattr_fresh (o : val) (a : string) : getattr (VFresh o) a = getattr o a.
  Proof. reflexivity. Qed.
  Lemma getattr_args (cs : list Cl) (b : bool) (l : list nat) : getattr (VModel cs b l) "arguments" = VArgs (length cs) b.
  Proof. reflexivity. Qed.

  (* ---------------------------------------------------------------- the monad, one step at a time *)

  Lemma bind_call (B : Type) (f : string) (a : list val) (k : val -> M val B) (log : list (event val)) :
    mbind (call O f a) k log
    = match O log f a with
      | Ret v => k v (log ++ [Ev f a])%list
      | Raise e => (Raise e, (log ++ [Ev f a])%list)
      end.
  Proof. unfold mbind, call. destruct (O log f a) as [v|e]; reflexivity. Qed.

  Lemma fst_bind_call (B : Type) (f : string) (a : list val) (k : val -> M val B) (log : list (event val))
        (v : val) (R : res B) :
    O log f a = Ret v -> fst (k v (log ++ [Ev f a])%list) = R -> fst (mbind (call O f a) k log) = R.
  Proof. intros Ho Hk. rewrite bind_call, Ho. exact Hk. Qed.

  Lemma fst_bind_ret (A B : Type) (mm : M val A) (k : A -> M val B) (log log' : list (event val)) (a : A) (R : res B) :
    mm log = (Ret a, log') -> fst (k a log') = R -> fst (mbind mm k log) = R.
  Proof. intros Hm Hk. unfold mbind. rewrite Hm. exact Hk. Qed.

  Lemma for_each_cons (S : Type) (body : S -> val -> M val S) (x : val) (r : list val) (s : S) (log : list (event val)) :
    for_each body (x :: r) s log
    = match body s x log with
      | (Ret s', log') => for_each body r s' log'
      | (Raise e, log') => (Raise e, log')
      end.
  Proof. reflexivity. Qed.

  Lemma for_break_cons_continue (S : Type) (body : S -> Z -> M val (S * bool)) (x : Z) (r : list Z) (s s' : S)
        (log log' : list (event val)) :
    body s x log = (Ret (s', false), log') -> for_break body (x :: r) s log = for_break body r s' log'.
  Proof. intros Hb. cbn [for_break]. unfold mbind. rewrite Hb. reflexivity. Qed.

  (* ---------------------------------------------------------------- one rewriting lemma per callee *)

  Lemma oracle_members (log : list (event val)) (z : Z) : O log l_members [VInt z] = Ret VMembers.
  Proof. reflexivity. Qed.
  Lemma oracle_enumerate (log : list (event val)) (l : list nat) : O log "enumerate" [VLabels l] = Ret (VPairs l).
  Proof. reflexivity. Qed.
  Lemma oracle_member_list (log : list (event val)) (k : val) : O log "getitem" [VMembers; k] = Ret VMemberList.
  Proof. reflexivity. Qed.
  Lemma oracle_member_append (log : list (event val)) (x : val) : O log "method:append" [VMemberList; x] = Ret VNone.
  Proof. reflexivity. Qed.
  Lemma oracle_copy_model (log : list (event val)) (cs : list Cl) (b : bool) (l : list nat) :
    O log "method:shallow_copy" [VModel cs b l] = Ret (VFresh (VModel cs b l)).
  Proof. reflexivity. Qed.
  Lemma oracle_getitem (log : list (event val)) (cs : list Cl) (k : nat) :
    O log "getitem" [VClusters cs; VInt (Z.of_nat k)]
    = match nth_error cs k with Some c => Ret (VCl c) | None => Raise "IndexError" end.
  Proof.
    change (O log "getitem" [VClusters cs; VInt (Z.of_nat k)])
      with (if Z.ltb (Z.of_nat k) 0 then unexpected
            else match nth_error cs (Z.to_nat (Z.of_nat k)) with Some c => Ret (VCl c) | None => Raise "IndexError" end).
    rewrite Nat2Z.id. replace (Z.ltb (Z.of_nat k) 0) with false by (symmetry; apply Z.ltb_ge; lia). reflexivity.
  Qed.
  Lemma oracle_stats (log : list (event val)) (c : Cl) (d : Dt) (b : bool) :
    O log "update_cluster_member_data_statistics" [VCl c; VData d; VBool b] = Ret (VCl (stats_of c d b)).
  Proof. reflexivity. Qed.
  Lemma oracle_store (log : list (event val)) (cs : list Cl) (b : bool) (l : list nat) (k : nat) (c' : Cl) :
    k < length cs ->
    O log l_store [VFresh (VModel cs b l); VInt (Z.of_nat k); VCl c'] = Ret (VFresh (VModel (replace_nth k c' cs) b l)).
  Proof.
    intros Hk.
    change (O log l_store [VFresh (VModel cs b l); VInt (Z.of_nat k); VCl c'])
      with (if Z.ltb (Z.of_nat k) 0 then unexpected
            else if Nat.ltb (Z.to_nat (Z.of_nat k)) (length cs)
                 then Ret (VFresh (VModel (replace_nth (Z.to_nat (Z.of_nat k)) c' cs) b l))
                 else Raise "IndexError").
    rewrite Nat2Z.id. replace (Z.ltb (Z.of_nat k) 0) with false by (symmetry; apply Z.ltb_ge; lia).
    replace (Nat.ltb k (length cs)) with true by (symmetry; apply Nat.ltb_lt; exact Hk). reflexivity.
  Qed.

  (* ================================================================ the dead dictionary cluster_members *)

  (* the body of the first loop, as generated (the two lets unfolded) *)
  Definition member_body (members : val) : unit -> val -> M val unit := fun _ t3_ =>
    t4_ <<- call O "getitem" [members; getattr t3_ "[1]"] ;;
    t5_ <<- call O "method:append" [t4_; getattr t3_ "[0]"] ;;
    mret tt.

  Lemma member_body_run (x : val) (log : list (event val)) :
    exists log', member_body VMembers tt x log = (Ret tt, log').
  Proof.
    eexists. unfold member_body.
    rewrite bind_call, oracle_member_list. cbv beta iota.
    rewrite bind_call, oracle_member_append. cbv beta iota.
    reflexivity.
  Qed.

  (* whatever is enumerated, the loop returns; its only effect is on the log *)
  Lemma member_loop : forall (xs : list val) (log : list (event val)),
    exists log', for_each (member_body VMembers) xs tt log = (Ret tt, log').
  Proof.
    induction xs as [|x xs IH]; intros log.
    - exists log. reflexivity.
    - rewrite for_each_cons.
      destruct (member_body_run x log) as (l1 & Hb). rewrite Hb.
      destruct (IH l1) as (l2 & Hr). exists l2. exact Hr.
  Qed.

  (* ================================================================ the refresh loop *)

  (* the body of the second loop, as generated: [model] is the state GIVEN (read for the flag only), the loop state is the
     copy being updated *)
  Definition stats_body (model data : val) : val -> Z -> M val (val * bool) := fun updated_model cluster_id =>
    t8_ <<- call O "getitem" [getattr updated_model "clusters"; VInt cluster_id] ;;
    t9_ <<- call O "update_cluster_member_data_statistics"
              [t8_; data; getattr (getattr model "arguments") "biased_covariance"] ;;
    updated_model <<- call O l_store [updated_model; VInt cluster_id; t9_] ;;
    mret (updated_model, false).

  Definition st (d : Dt) (b : bool) (c : Cl) : Cl := stats_of c d b.

  (* iteration k: position k of the copy still holds the original cluster k; it is replaced by its statistics, computed
     from the data of the call and the flag of the GIVEN model *)
  Lemma stats_body_run (cs0 : list Cl) (labels0 : list nat) (b : bool) (d : Dt)
        (done : list Cl) (c : Cl) (rest : list Cl) (labels : list nat) (log : list (event val)) :
    exists log',
      stats_body (VModel cs0 b labels0) (VData d) (VFresh (VModel (done ++ c :: rest) b labels)) (Z.of_nat (length done)) log
      = (Ret (VFresh (VModel (done ++ st d b c :: rest) b labels), false), log').
  Proof.
    eexists. unfold stats_body. rewrite getattr_fresh, getattr_clusters, getattr_flag.
    rewrite bind_call, oracle_getitem.
    rewrite nth_error_app2 by lia. rewrite Nat.sub_diag. cbn [nth_error]. cbv beta iota.
    rewrite bind_call, oracle_stats. cbv beta iota.
    rewrite bind_call, oracle_store.
    2:{ rewrite app_length. cbn [length]. lia. }
    cbv beta iota.
    rewrite replace_nth_app by reflexivity. reflexivity.
  Qed.

  (* the invariant: [done] = the positions already refreshed, [rest] = the original clusters not reached yet *)
  Lemma stats_loop (cs0 : list Cl) (labels0 : list nat) (b : bool) (d : Dt) (labels : list nat) :
    forall (rest done : list Cl) (log : list (event val)),
    exists log',
      for_break (stats_body (VModel cs0 b labels0) (VData d))
                (map Z.of_nat (seq (length done) (length rest)))
                (VFresh (VModel (done ++ rest) b labels)) log
      = (Ret (VFresh (VModel (done ++ map (st d b) rest) b labels)), log').
  Proof.
    induction rest as [|c rest IH]; intros done log.
    - exists log. reflexivity.
    - cbn [length seq map].
      destruct (stats_body_run cs0 labels0 b d done c rest labels log) as (l1 & Hb).
      rewrite (for_break_cons_continue _ _ _ _ _ _ _ _ Hb).
      destruct (IH (done ++ [st d b c])%list l1) as (l2 & Hr).
      rewrite <- !app_assoc in Hr. cbn [app] in Hr.
      rewrite app_length in Hr. cbn [length] in Hr. rewrite Nat.add_1_r in Hr.
      exists l2. exact Hr.
  Qed.

  (* the same invariant by the number of iterations made: after j iterations of the loop started on the copy of [cs],
     the clusters are  map stats (firstn j cs) ++ skipn j cs *)
  Lemma stats_loop_after (cs0 : list Cl) (labels0 : list nat) (b : bool) (d : Dt) (labels : list nat) (cs : list Cl) (j : nat)
        (log : list (event val)) :
    j <= length cs ->
    exists log',
      for_break (stats_body (VModel cs0 b labels0) (VData d)) (map Z.of_nat (seq 0 j)) (VFresh (VModel cs b labels)) log
      = (Ret (VFresh (VModel (map (st d b) (firstn j cs) ++ skipn j cs) b labels)), log').
  Proof.
    intros Hj.
    assert (Hlen : length (firstn j cs) = j) by (apply firstn_length_le; exact Hj).
    (* run the loop on the first j clusters, the others being carried along untouched *)
    assert (Hgen : forall (rest done tail : list Cl) (lg : list (event val)),
      exists log',
        for_break (stats_body (VModel cs0 b labels0) (VData d))
                  (map Z.of_nat (seq (length done) (length rest)))
                  (VFresh (VModel (done ++ rest ++ tail) b labels)) lg
        = (Ret (VFresh (VModel (done ++ map (st d b) rest ++ tail) b labels)), log')).
    { induction rest as [|c rest IH]; intros done tail lg.
      - exists lg. reflexivity.
      - cbn [length seq map app].
        destruct (stats_body_run cs0 labels0 b d done c (rest ++ tail) labels lg) as (l1 & Hb).
        rewrite (for_break_cons_continue _ _ _ _ _ _ _ _ Hb).
        destruct (IH (done ++ [st d b c])%list tail l1) as (l2 & Hr).
        rewrite <- !app_assoc in Hr. cbn [app] in Hr.
        rewrite app_length in Hr. cbn [length] in Hr. rewrite Nat.add_1_r in Hr.
        exists l2. exact Hr. }
    destruct (Hgen (firstn j cs) [] (skipn j cs) log) as (l' & Hrun).
    cbn [app length] in Hrun. rewrite Hlen, firstn_skipn in Hrun.
    exists l'. exact Hrun.
  Qed.

  (* ================================================================ the whole function *)

  Lemma statistics_run (cs : list Cl) (b : bool) (labels : list nat) (d : Dt) :
    fst (g_update_all_cluster_statistics val VInt as_int getattr as_list O (VModel cs b labels) (VData d) [])
    = Ret (VFresh (VModel (map (fun c => stats_of c d b) cs) b labels)).
  Proof.
    unfold g_update_all_cluster_statistics. cbv zeta. rewrite !getattr_numc, getattr_labels.
    eapply fst_bind_call; [apply oracle_members|]. cbv beta.
    eapply fst_bind_call; [apply oracle_enumerate|]. cbv beta.
    match goal with
    | |- fst (mbind (for_each _ ?XS tt) _ ?L) = _ => destruct (member_loop XS L) as (l1 & Hmem)
    end.
    eapply fst_bind_ret; [exact Hmem|]. cbv beta.
    eapply fst_bind_call; [apply oracle_copy_model|]. cbv beta.
    eapply fst_bind_ret; [reflexivity|]. cbv beta.
    unfold zrange. rewrite Nat2Z.id.
    match goal with
    | |- fst (mbind _ _ ?L) = _ => destruct (stats_loop cs labels b d labels cs [] L) as (l2 & Hrun)
    end.
    cbn [app length] in Hrun.
    eapply fst_bind_ret; [exact Hrun|]. reflexivity.
  Qed.

  (* ================================================================ the theorems *)

  (* END TO END.  The model returned is a fresh object (VFresh: the answer of shallow_copy(), stored into afterwards) whose
     clusters are the given ones, in order, each replaced by its own statistics on the data of the call with the flag of the
     given model. *)
  Theorem statistics_phase_end_to_end : forall (cs : list Cl) (b : bool) (labels : list nat) (d : Dt),
    exists log',
      g_update_all_cluster_statistics val VInt as_int getattr as_list oracle_model (VModel cs b labels) (VData d) []
      = (Ret (VFresh (VModel (map (fun c => stats_of c d b) cs) b labels)), log').
  Proof.
    intros cs b labels d. eexists. rewrite <- (statistics_run cs b labels d). apply surjective_pairing.
  Qed.

  (* cluster k of the model returned: the statistics of cluster k, from the data of the call and the flag of the given model *)
  Corollary statistics_phase_own_cluster : forall (cs : list Cl) (b : bool) (labels : list nat) (d : Dt),
    exists (cs' : list Cl) (log' : list (event val)),
      g_update_all_cluster_statistics val VInt as_int getattr as_list oracle_model (VModel cs b labels) (VData d) []
      = (Ret (VFresh (VModel cs' b labels)), log')
      /\ length cs' = length cs
      /\ (forall (k : nat) (c : Cl), nth_error cs k = Some c -> nth_error cs' k = Some (stats_of c d b))
      /\ (forall (k : nat) (dflt : Cl), k < length cs -> nth k cs' dflt = stats_of (nth k cs dflt) d b).
  Proof.
    intros cs b labels d.
    destruct (statistics_phase_end_to_end cs b labels d) as (log' & Hrun).
    exists (map (fun c => stats_of c d b) cs), log'. split; [exact Hrun|]. split; [apply map_length|]. split.
    - intros k c Hk. apply (map_nth_error (fun c0 => stats_of c0 d b)). exact Hk.
    - intros k dflt Hk.
      rewrite (nth_indep (map (fun c => stats_of c d b) cs) dflt (stats_of dflt d b)) by (rewrite map_length; exact Hk).
      apply (map_nth (fun c => stats_of c d b)).
  Qed.

  (* the state given is not the one returned: the value returned is a fresh copy, the run has not raised, and the store
     into an object that is not fresh raises (shared_state_is_immutable); labels, flag and number of clusters unchanged *)
  Corollary statistics_phase_returns_fresh_state : forall (cs : list Cl) (b : bool) (labels : list nat) (d : Dt),
    exists (r : val) (log' : list (event val)),
      g_update_all_cluster_statistics val VInt as_int getattr as_list oracle_model (VModel cs b labels) (VData d) []
      = (Ret (VFresh r), log')
      /\ VFresh r <> VModel cs b labels
      /\ getattr (VFresh r) "point_labels" = VLabels labels
      /\ getattr (getattr (VFresh r) "arguments") "biased_covariance" = VBool b
      /\ getattr (VFresh r) "arguments" = getattr (VModel cs b labels) "arguments".
  Proof.
    intros cs b labels d.
    destruct (statistics_phase_end_to_end cs b labels d) as (log' & Hrun).
    eexists. exists log'. split; [exact Hrun|]. split; [discriminate|].
    split; [reflexivity|]. split; [reflexivity|].
    rewrite getattr_fresh, !getattr_args, map_length. reflexivity.
  Qed.
End Interp.

(* ================================================================ non-vacuity *)

Section Example.
  Let Cl0 : Type := (nat * nat)%type.                        (* (members-id, statistic) *)
  Let stats0 (c : Cl0) (d : nat) (b : bool) : Cl0 := (fst c, fst c * 100 + d + (if b then 1 else 0)).
  Let run (cs : list Cl0) (b : bool) (labels : list nat) (d : nat) :=
    g_update_all_cluster_statistics (val Cl0 nat) (VInt Cl0 nat) (as_int Cl0 nat) (getattr Cl0 nat) (as_list Cl0 nat)
      (oracle_model Cl0 nat stats0) (VModel Cl0 nat cs b labels) (VData Cl0 nat d) [].

  (* three clusters, five points, data 7, biased: cluster m gets m * 100 + 7 + 1 *)
  Example statistics_phase_example :
    fst (run [(0, 40); (1, 41); (2, 42)] true [0; 1; 1; 2; 0] 7)
    = Ret (VFresh Cl0 nat (VModel Cl0 nat [(0, 8); (1, 108); (2, 208)] true [0; 1; 1; 2; 0]))
    /\ map (@ev_fn _) (snd (run [(0, 40); (1, 41); (2, 42)] true [0; 1; 1; 2; 0] 7))
       = ["expr:{cluster_id: [] for cluster_id in range(num_clusters)}"; "enumerate";
          "getitem"; "method:append"; "getitem"; "method:append"; "getitem"; "method:append";
          "getitem"; "method:append"; "getitem"; "method:append";
          "method:shallow_copy";
          "getitem"; "update_cluster_member_data_statistics"; "store:updated_model.clusters[cluster_id]";
          "getitem"; "update_cluster_member_data_statistics"; "store:updated_model.clusters[cluster_id]";
          "getitem"; "update_cluster_member_data_statistics"; "store:updated_model.clusters[cluster_id]"].
  Proof. vm_compute. split; reflexivity. Qed.

  (* the flag is the given model's, the data is the call's: not biased, data 9 *)
  Example statistics_phase_example_unbiased :
    fst (run [(0, 40); (1, 41); (2, 42)] false [2; 2] 9)
    = Ret (VFresh Cl0 nat (VModel Cl0 nat [(0, 9); (1, 109); (2, 209)] false [2; 2])).
  Proof. vm_compute. reflexivity. Qed.

  (* a store into the caller's state raises *)
  Example mutation_example :
    oracle_model Cl0 nat stats0 [] "store:updated_model.clusters[cluster_id]"
      [VModel Cl0 nat [(0, 40); (1, 41); (2, 42)] true []; VInt Cl0 nat 1; VCl Cl0 nat (1, 108)]
    = Raise "mutation of shared state".
  Proof. vm_compute. reflexivity. Qed.

  (* the refresh loop of the phase started on the state GIVEN instead of on its copy: the statistics of cluster 0 are
     computed, and the first store raises *)
  Example mutation_example_loop :
    let given := VModel Cl0 nat [(0, 40); (1, 41); (2, 42)] true [] in
    let r := for_break (stats_body Cl0 nat stats0 given (VData Cl0 nat 7)) (zrange 3) given [] in
    fst r = Raise "mutation of shared state"
    /\ map (@ev_fn _) (snd r)
       = ["getitem"; "update_cluster_member_data_statistics"; "store:updated_model.clusters[cluster_id]"].
  Proof. vm_compute. split; reflexivity. Qed.

  (* and on the copy it returns *)
  Example fresh_example_loop :
    let given := VModel Cl0 nat [(0, 40); (1, 41); (2, 42)] true [] in
    fst (for_break (stats_body Cl0 nat stats0 given (VData Cl0 nat 7)) (zrange 3) (VFresh Cl0 nat given) [])
    = Ret (VFresh Cl0 nat (VModel Cl0 nat [(0, 8); (1, 108); (2, 208)] true [])).
  Proof. vm_compute. reflexivity. Qed.
End Example.

Print Assumptions statistics_phase_end_to_end.
Print Assumptions statistics_phase_own_cluster.
Print Assumptions statistics_phase_returns_fresh_state.
