(* Second tie: matrix_compression.py AS TRANSLATED from /repo's working tree by vcheck/py2coq.py (Gen/G_matrix_compression.v,
   regenerated on every run: _full_matrix_size, _upper_triangle_indices, _uncompress_upper_triangle, _upper_to_full,
   compress_matrix, reinflate_matrix) equals the hand-written model Model/TriIndex.v (compress, reinflate), for every carrier
   and every matrix size.  np.triu_indices is rendered by its specification (Gen/PyRt.np_triu_indices); the float square
   root np.sqrt is an uninterpreted symbol assumed exact on the perfect squares that occur.  Closed under the global context. *)
From Coq Require Import String ZArith QArith List Bool Lia Arith.
From Ticc Require Import Gen.PyRt Gen.G_matrix_compression Model.TriIndex.
Import ListNotations.

Section E.
  Variable F : Type.
  Variable f0 : F.
  Variables fadd fsub : F -> F -> F.
  Variable np_sqrt_int : Z -> Q.
  (* the float64 square root is exact on perfect squares (below 2^53) *)
  Hypothesis sqrt_exact : forall k : Z, (0 <= k)%Z -> np_sqrt_int (k * k) = inject_Z k.

  (* STATEMENTS (to be proved):

  (* 1. compress_matrix on an n x n array whose cell (r, c) is M r c returns the model's compressed vector *)
  Theorem g_compress_matrix_eq (n : nat) (M : nat -> nat -> F) :
    g_compress_matrix F (mk_arr2 (Z.of_nat n) (Z.of_nat n) (matrix_rows n M)) = Ret (compress n M).

  (* 2. a non-square array is rejected *)
  Theorem g_compress_matrix_not_square (r c : Z) (cells : list (list F)) :
    r <> c -> g_compress_matrix F (mk_arr2 r c cells) = Raise "RuntimeError"%string.

  (* 3. reinflate_matrix on a vector of length n(n+1)/2 returns the n x n array of the model's reinflated matrix *)
  Theorem g_reinflate_matrix_eq (n : nat) (v : list F) :
    length v = (n * (n + 1) / 2)%nat ->
    g_reinflate_matrix F f0 fadd fsub np_sqrt_int v
    = Ret (mk_arr2 (Z.of_nat n) (Z.of_nat n) (matrix_rows n (reinflate f0 fadd fsub v))).
  *)
End E.

Definition Mz (r c : nat) : Z := Z.of_nat (10 * r + c).
Eval vm_compute in g_compress_matrix Z (mk_arr2 3 3 (matrix_rows 3 Mz)).
Eval vm_compute in compress 3 Mz.
Definition sq (z : Z) : Q := inject_Z (Z.sqrt z).
Eval vm_compute in g_reinflate_matrix Z 0%Z Z.add Z.sub sq [1;2;3;4;5;6]%Z.
Eval vm_compute in matrix_rows 3 (reinflate 0%Z Z.add Z.sub [1;2;3;4;5;6]%Z).
Eval vm_compute in g_reinflate_matrix Z 0%Z Z.add Z.sub sq [7]%Z.
Eval vm_compute in g_reinflate_matrix Z 0%Z Z.add Z.sub sq []%Z.
Eval vm_compute in matrix_rows 0 (reinflate 0%Z Z.add Z.sub []%Z).
