(* Second tie: matrix_compression.py AS TRANSLATED from /repo's working tree by vcheck/py2coq.py (Gen/G_matrix_compression.v,
   regenerated on every run: _full_matrix_size, _upper_triangle_indices, _uncompress_upper_triangle, _upper_to_full,
   compress_matrix, reinflate_matrix) equals the hand-written model Model/TriIndex.v (compress, reinflate), for every carrier
   and every matrix size.  np.triu_indices is rendered by its specification (Gen/PyRt.np_triu_indices); the float square
   root np.sqrt is an uninterpreted symbol assumed exact on the perfect squares that occur.  Closed under the global context. *)
From Coq Require Import String ZArith QArith List Bool Lia Arith.
From Ticc Require Import Gen.PyRt Gen.G_matrix_compression Model.TriIndex.
From Ticc Require Import Proofs.TriIndexP.
Import ListNotations.


(* ------------------------------------------------------------------ *)
(* generic list / run-time facts                                       *)
(* ------------------------------------------------------------------ *)

Lemma mc_getitem_nat {A : Type} (l : list A) (k : nat) (d : A) : (k < length l)%nat ->
  py_getitem l (Z.of_nat k) = Ret (nth k l d).
Proof.
  intros Hk. unfold py_getitem, py_len.
  replace (Z.of_nat k <? 0)%Z with false by lia.
  replace ((Z.of_nat k <? 0)%Z || (Z.of_nat (length l) <=? Z.of_nat k)%Z) with false by lia.
  rewrite Nat2Z.id, (nth_error_nth' l d Hk). reflexivity.
Qed.

Lemma mc_set_index_nat {A : Type} (l : list A) (k : nat) (v : A) : (k < length l)%nat ->
  py_set_index l (Z.of_nat k) v = Ret (set_nth k v l).
Proof.
  intros Hk. unfold py_set_index, py_len.
  replace (Z.of_nat k <? 0)%Z with false by lia.
  replace ((Z.of_nat k <? 0)%Z || (Z.of_nat (length l) <=? Z.of_nat k)%Z) with false by lia.
  rewrite Nat2Z.id. reflexivity.
Qed.

Lemma mc_get2_nat {A : Type} (r k : Z) (cells : list (list A)) (i j : nat) (d : A) :
  (i < length cells)%nat -> (j < length (nth i cells []))%nat ->
  np_get2 (mk_arr2 r k cells) (Z.of_nat i) (Z.of_nat j) = Ret (nth j (nth i cells []) d).
Proof.
  intros Hi Hj. unfold np_get2. cbn [a_cells]. rewrite (mc_getitem_nat _ _ [] Hi). cbn [bind].
  apply mc_getitem_nat, Hj.
Qed.

Lemma mc_set2_nat {A : Type} (r k : Z) (cells : list (list A)) (i j : nat) (v : A) :
  (i < length cells)%nat -> (j < length (nth i cells []))%nat ->
  np_set2 (mk_arr2 r k cells) (Z.of_nat i) (Z.of_nat j) v
  = Ret (mk_arr2 r k (set_nth i (set_nth j v (nth i cells [])) cells)).
Proof.
  intros Hi Hj. unfold np_set2. cbn [a_cells a_rows a_cols]. rewrite (mc_getitem_nat _ _ [] Hi). cbn [bind].
  rewrite (mc_set_index_nat _ _ _ Hj). cbn [bind].
  replace (Z.of_nat i <? 0)%Z with false by lia. rewrite Nat2Z.id. reflexivity.
Qed.

Lemma mc_mapM_map {X Y W : Type} (f : Y -> res W) (h : X -> Y) (xs : list X) :
  mapM f (map h xs) = mapM (fun x => f (h x)) xs.
Proof.
  induction xs as [|x xs IH]; cbn [map mapM]; [reflexivity|]. rewrite IH. reflexivity.
Qed.

Lemma mc_combine_map {X A B : Type} (f : X -> A) (g : X -> B) (l : list X) :
  combine (map f l) (map g l) = map (fun x => (f x, g x)) l.
Proof. induction l as [|x l IH]; cbn [map combine]; [reflexivity|]. rewrite IH. reflexivity. Qed.

Lemma mc_repeat_map_seq {A : Type} (a : A) (k : nat) : forall s : nat, repeat a k = map (fun _ => a) (seq s k).
Proof. induction k as [|k IH]; intros s; cbn [repeat seq map]; [reflexivity|]. rewrite <- IH. reflexivity. Qed.

Lemma mc_py_map2_map {X A B C : Type} (f : A -> B -> C) (g : X -> A) (h : X -> B) (l : list X) :
  py_map2 f (map g l) (map h l) = map (fun x => f (g x) (h x)) l.
Proof. induction l as [|x l IH]; cbn [map py_map2]; [reflexivity|]. rewrite IH. reflexivity. Qed.

(* storing into a tabulated list *)
Lemma mc_set_nth_map_seq {A : Type} (f : nat -> A) (v : A) (n : nat) : forall (s k : nat), (k < n)%nat ->
  set_nth k v (map f (seq s n)) = map (fun i => if Nat.eqb i (s + k) then v else f i) (seq s n).
Proof.
  induction n as [|n IH]; intros s k Hk; [lia|].
  destruct k as [|k]; cbn [seq map set_nth].
  - rewrite Nat.add_0_r, Nat.eqb_refl. f_equal.
    apply map_ext_in. intros i Hi. apply in_seq in Hi.
    replace (Nat.eqb i s) with false by (symmetry; apply Nat.eqb_neq; lia). reflexivity.
  - replace (Nat.eqb s (s + S k)) with false by (symmetry; apply Nat.eqb_neq; lia). f_equal.
    rewrite (IH (S s) k) by lia. apply map_ext. intros i.
    replace (S s + k)%nat with (s + S k)%nat by lia. reflexivity.
Qed.

(* ------------------------------------------------------------------ *)
(* matrices as tabulated functions                                     *)
(* ------------------------------------------------------------------ *)

Lemma mc_rows_length {A : Type} (n : nat) (M : nat -> nat -> A) : length (matrix_rows n M) = n.
Proof. unfold matrix_rows. rewrite map_length, seq_length. reflexivity. Qed.

Lemma mc_rows_nth {A : Type} (n : nat) (M : nat -> nat -> A) (r : nat) : (r < n)%nat ->
  nth r (matrix_rows n M) [] = map (fun c => M r c) (seq 0 n).
Proof.
  intros Hr. unfold matrix_rows. rewrite (nth_map_lt _ _ _ _ 0%nat) by (rewrite seq_length; exact Hr).
  rewrite seq_nth by exact Hr. reflexivity.
Qed.

Lemma mc_rows_cell {A : Type} (n : nat) (M : nat -> nat -> A) (r c : nat) (d : A) : (r < n)%nat -> (c < n)%nat ->
  nth c (nth r (matrix_rows n M) []) d = M r c.
Proof.
  intros Hr Hc. rewrite (mc_rows_nth n M r Hr). rewrite (nth_map_lt _ _ _ _ 0%nat) by (rewrite seq_length; exact Hc).
  rewrite seq_nth by exact Hc. reflexivity.
Qed.

Lemma matrix_rows_ext {A : Type} (n : nat) (M M' : nat -> nat -> A) :
  (forall r c, (r < n)%nat -> (c < n)%nat -> M r c = M' r c) -> matrix_rows n M = matrix_rows n M'.
Proof.
  intros H. unfold matrix_rows. apply map_ext_in. intros r Hr. apply in_seq in Hr.
  apply map_ext_in. intros c Hc. apply in_seq in Hc. apply H; lia.
Qed.

Lemma mc_get2_rows {A : Type} (a b : Z) (n : nat) (M : nat -> nat -> A) (r c : nat) : (r < n)%nat -> (c < n)%nat ->
  np_get2 (mk_arr2 a b (matrix_rows n M)) (Z.of_nat r) (Z.of_nat c) = Ret (M r c).
Proof.
  intros Hr Hc. rewrite (mc_get2_nat a b _ r c (M r c)).
  - rewrite mc_rows_cell by assumption. reflexivity.
  - rewrite mc_rows_length. exact Hr.
  - rewrite mc_rows_nth by exact Hr. rewrite map_length, seq_length. exact Hc.
Qed.

(* one store *)
Definition mc_upd {A : Type} (U : nat -> nat -> A) (p : nat * nat) (v : A) (R C : nat) : A :=
  if (Nat.eqb (fst p) R && Nat.eqb (snd p) C)%bool then v else U R C.

Lemma mc_set2_rows {A : Type} (a b : Z) (n : nat) (U : nat -> nat -> A) (r c : nat) (v : A) : (r < n)%nat -> (c < n)%nat ->
  np_set2 (mk_arr2 a b (matrix_rows n U)) (Z.of_nat r) (Z.of_nat c) v
  = Ret (mk_arr2 a b (matrix_rows n (mc_upd U (r, c) v))).
Proof.
  intros Hr Hc. rewrite mc_set2_nat.
  - f_equal. f_equal. rewrite (mc_rows_nth n U r Hr).
    rewrite (mc_set_nth_map_seq _ _ n 0 c Hc).
    unfold matrix_rows at 1. rewrite (mc_set_nth_map_seq _ _ n 0 r Hr).
    unfold matrix_rows. apply map_ext_in. intros R HR. cbn [plus].
    unfold mc_upd. cbn [fst snd]. rewrite (Nat.eqb_sym r R).
    destruct (Nat.eqb R r) eqn:E.
    + apply Nat.eqb_eq in E. subst R. apply map_ext. intros C. rewrite (Nat.eqb_sym c C). reflexivity.
    + reflexivity.
  - rewrite mc_rows_length. exact Hr.
  - rewrite mc_rows_nth by exact Hr. rewrite map_length, seq_length. exact Hc.
Qed.


(* ------------------------------------------------------------------ *)
(* a[(rows, cols)] = values, cell-wise                                 *)
(* ------------------------------------------------------------------ *)

(* the stores of np_put2 in order, on functions *)
Fixpoint mc_put {A : Type} (U : nat -> nat -> A) (ps : list (nat * nat)) (vs : list A) : nat -> nat -> A :=
  match ps, vs with
  | p :: ps', v :: vs' => mc_put (mc_upd U p v) ps' vs'
  | _, _ => U
  end.

Lemma mc_find_pos_shift (x : nat * nat) (l : list (nat * nat)) : forall s : nat,
  find_pos x l (S s) = option_map S (find_pos x l s).
Proof.
  induction l as [|y l IH]; intros s; cbn [find_pos]; [reflexivity|].
  destruct (Nat.eqb (fst y) (fst x) && Nat.eqb (snd y) (snd x))%bool; [reflexivity|]. apply IH.
Qed.

(* distinct positions: the cell at the k-th position holds the k-th value, the others are untouched *)
Lemma mc_put_find {A : Type} (d : A) (ps : list (nat * nat)) : NoDup ps ->
  forall (U : nat -> nat -> A) (vs : list A) (R C : nat), length vs = length ps ->
  mc_put U ps vs R C = match find_pos (R, C) ps 0 with Some k => nth k vs d | None => U R C end.
Proof.
  intros Hnd. induction Hnd as [|p ps Hnotin Hnd IH]; intros U vs R C Hlen.
  - destruct vs; reflexivity.
  - destruct vs as [|v vs]; [discriminate Hlen|]. cbn [length] in Hlen.
    cbn [mc_put find_pos fst snd]. rewrite (IH _ vs R C) by lia.
    destruct (Nat.eqb (fst p) R && Nat.eqb (snd p) C)%bool eqn:E.
    + assert (Hp : p = (R, C)) by (apply pair_eqb_true; exact E). subst p.
      rewrite (find_pos_notin _ _ 0%nat Hnotin). unfold mc_upd. rewrite E. reflexivity.
    + rewrite mc_find_pos_shift. destruct (find_pos (R, C) ps 0) as [k|]; cbn [option_map nth]; [reflexivity|].
      unfold mc_upd. rewrite E. reflexivity.
Qed.

(* the loop of np_put2 on in-range positions *)
Lemma mc_put_loop {A : Type} (a b : Z) (n : nat) (ps : list (nat * nat)) :
  (forall r c, In (r, c) ps -> (r < n)%nat /\ (c < n)%nat) ->
  forall (vs : list A) (U : nat -> nat -> A),
  foldM (fun acc rcv => np_set2 acc (fst (fst rcv)) (snd (fst rcv)) (snd rcv))
        (combine (map (fun rc => (Z.of_nat (fst rc), Z.of_nat (snd rc))) ps) vs)
        (mk_arr2 a b (matrix_rows n U))
  = Ret (mk_arr2 a b (matrix_rows n (mc_put U ps vs))).
Proof.
  induction ps as [|[r c] ps IH]; intros Hin vs U.
  - reflexivity.
  - destruct vs as [|v vs]; [reflexivity|].
    cbn [map combine foldM fst snd mc_put].
    destruct (Hin r c (or_introl eq_refl)) as [Hr Hc].
    rewrite (mc_set2_rows a b n U r c v Hr Hc). cbn [bind].
    apply IH. intros r' c' H'. apply Hin. right. exact H'.
Qed.

(* ------------------------------------------------------------------ *)
(* int((sqrt(8m+1) - 1) / 2) on Q                                      *)
(* ------------------------------------------------------------------ *)

Lemma mc_half_int (k : Z) : (0 <= k)%Z ->
  py_int_of_float (py_truediv (inject_Z (2 * k + 1) - inject_Z 1)%Q (inject_Z 2)) = k.
Proof.
  intros Hk. unfold py_int_of_float, py_truediv, Qdiv, Qminus, Qplus, Qopp, Qmult, Qinv, inject_Z.
  cbn [Qnum Qden].
  change (Z.pos (1 * 1 * 2)) with 2%Z.
  match goal with |- (?a ÷ _)%Z = _ => replace a with (k * 2)%Z by ring end.
  apply Z.quot_mul. discriminate.
Qed.

(* ------------------------------------------------------------------ *)
(* np.triu_indices                                                     *)
(* ------------------------------------------------------------------ *)

Lemma mc_triu_indices (n : nat) :
  np_triu_indices (Z.of_nat n)
  = (map (fun rc => Z.of_nat (fst rc)) (triu n), map (fun rc => Z.of_nat (snd rc)) (triu n)).
Proof.
  unfold np_triu_indices, triu. rewrite Nat2Z.id. generalize (seq 0 n) as l. intros l. f_equal.
  - induction l as [|r l IH]; cbn [flat_map map]; [reflexivity|].
    rewrite map_app, IH. f_equal. rewrite map_map. cbn [fst]. apply mc_repeat_map_seq.
  - induction l as [|r l IH]; cbn [flat_map map]; [reflexivity|].
    rewrite map_app, IH. f_equal. rewrite map_map. cbn [snd]. reflexivity.
Qed.

Section E.
  Variable F : Type.
  Variable f0 : F.
  Variables fadd fsub : F -> F -> F.
  Variable np_sqrt_int : Z -> Q.
  (* the float64 square root is exact on perfect squares (below 2^53) *)
  Hypothesis sqrt_exact : forall k : Z, (0 <= k)%Z -> np_sqrt_int (k * k) = inject_Z k.

  (* 1. compress_matrix on an n x n array whose cell (r, c) is M r c returns the model's compressed vector *)
  Theorem g_compress_matrix_eq (n : nat) (M : nat -> nat -> F) :
    g_compress_matrix F (mk_arr2 (Z.of_nat n) (Z.of_nat n) (matrix_rows n M)) = Ret (compress n M).
  Proof.
    unfold g_compress_matrix, g_upper_triangle_indices. cbn [a_rows a_cols].
    rewrite Z.eqb_refl. cbn [negb bind]. rewrite mc_triu_indices. cbn [fst snd].
    unfold np_take2. rewrite !map_length, Nat.eqb_refl. rewrite mc_combine_map, mc_mapM_map. cbn [fst snd].
    rewrite (mapM_pure _ (fun rc => M (fst rc) (snd rc))).
    - reflexivity.
    - intros [r c] Hin. apply triu_In in Hin. cbn [fst snd]. apply mc_get2_rows; lia.
  Qed.

  (* 2. a non-square array is rejected *)
  Theorem g_compress_matrix_not_square (r c : Z) (cells : list (list F)) :
    r <> c -> g_compress_matrix F (mk_arr2 r c cells) = Raise "RuntimeError"%string.
  Proof.
    intros Hrc. unfold g_compress_matrix. cbn [a_rows a_cols].
    replace (r =? c)%Z with false by (symmetry; apply Z.eqb_neq; exact Hrc). reflexivity.
  Qed.

  (* _full_matrix_size on a triangular number *)
  Lemma mc_full_matrix_size (n : nat) :
    g_full_matrix_size np_sqrt_int (Z.of_nat (n * (n + 1) / 2)) = Ret (Z.of_nat n).
  Proof.
    unfold g_full_matrix_size. rewrite <- triu_length.
    assert (Hd := triu_length_double n).
    replace (8 * Z.of_nat (length (triu n)) + 1)%Z with ((2 * Z.of_nat n + 1) * (2 * Z.of_nat n + 1))%Z by nia.
    rewrite sqrt_exact by lia. rewrite mc_half_int by lia. reflexivity.
  Qed.

  (* _uncompress_upper_triangle *)
  Lemma mc_uncompress (n : nat) (v : list F) :
    length v = (n * (n + 1) / 2)%nat ->
    g_uncompress_upper_triangle F f0 np_sqrt_int v
    = Ret (mk_arr2 (Z.of_nat n) (Z.of_nat n) (matrix_rows n (upper f0 n v))).
  Proof.
    intros Hlen. unfold g_uncompress_upper_triangle, py_len. rewrite Hlen, mc_full_matrix_size. cbn [bind].
    unfold np_zeros2. assert (Hneg : (Z.of_nat n <? 0)%Z = false) by (apply Z.ltb_ge; apply Nat2Z.is_nonneg).
    rewrite Hneg. cbn [orb bind].
    unfold g_upper_triangle_indices. cbn [bind]. rewrite mc_triu_indices. cbn [fst snd].
    rewrite Nat2Z.id.
    assert (Hz : repeat (repeat f0 n) n = matrix_rows n (fun _ _ => f0)).
    { unfold matrix_rows. rewrite (mc_repeat_map_seq f0 n 0), (mc_repeat_map_seq _ n 0). reflexivity. }
    rewrite Hz. unfold np_put2. rewrite !map_length, Nat.eqb_refl.
    replace (Nat.eqb (length (triu n)) (length v)) with true
      by (symmetry; apply Nat.eqb_eq; rewrite Hlen; apply triu_length).
    cbn [andb]. rewrite mc_combine_map.
    rewrite (mc_put_loop (Z.of_nat n) (Z.of_nat n) n (triu n)).
    - cbn [bind]. f_equal. f_equal. apply matrix_rows_ext. intros r c _ _.
      rewrite (mc_put_find f0 (triu n) (triu_NoDup n)) by (rewrite Hlen; symmetry; apply triu_length).
      reflexivity.
    - intros r c Hin. apply triu_In in Hin. lia.
  Qed.

  (* _upper_to_full *)
  Lemma mc_upper_to_full (n : nat) (U : nat -> nat -> F) :
    g_upper_to_full F f0 fadd fsub (mk_arr2 (Z.of_nat n) (Z.of_nat n) (matrix_rows n U))
    = Ret (mk_arr2 (Z.of_nat n) (Z.of_nat n) (matrix_rows n (upper_to_full f0 fadd fsub U))).
  Proof.
    unfold g_upper_to_full.
    assert (Ht : arr2_transpose f0 (mk_arr2 (Z.of_nat n) (Z.of_nat n) (matrix_rows n U))
                 = mk_arr2 (Z.of_nat n) (Z.of_nat n) (matrix_rows n (fun r c => U c r))).
    { unfold arr2_transpose. cbn [a_rows a_cols a_cells]. rewrite Nat2Z.id. f_equal.
      unfold matrix_rows at 2. apply map_ext_in. intros j Hj. apply in_seq in Hj.
      apply map_ext_in. intros i Hi. apply in_seq in Hi. apply mc_rows_cell; lia. }
    assert (Hd : arr2_diagonal f0 (mk_arr2 (Z.of_nat n) (Z.of_nat n) (matrix_rows n U))
                 = map (fun i => U i i) (seq 0 n)).
    { unfold arr2_diagonal. cbn [a_rows a_cols a_cells]. rewrite Z.min_id, Nat2Z.id.
      apply map_ext_in. intros i Hi. apply in_seq in Hi. apply mc_rows_cell; lia. }
    assert (Hg : arr2_of_diag f0 (map (fun i => U i i) (seq 0 n))
                 = mk_arr2 (Z.of_nat n) (Z.of_nat n) (matrix_rows n (fun r c => if Nat.eqb r c then U r r else f0))).
    { unfold arr2_of_diag. rewrite map_length, seq_length. f_equal.
      unfold matrix_rows. apply map_ext_in. intros i Hi. apply in_seq in Hi.
      apply map_ext. intros j. destruct (Nat.eqb i j); [|reflexivity].
      rewrite (nth_map_lt _ _ _ _ 0%nat) by (rewrite seq_length; lia). rewrite seq_nth by lia. reflexivity. }
    assert (Hb : forall (f : F -> F -> F) (A B : nat -> nat -> F),
               arr2_bin f (mk_arr2 (Z.of_nat n) (Z.of_nat n) (matrix_rows n A)) (mk_arr2 (Z.of_nat n) (Z.of_nat n) (matrix_rows n B))
               = Ret (mk_arr2 (Z.of_nat n) (Z.of_nat n) (matrix_rows n (fun r c => f (A r c) (B r c))))).
    { intros f A B. unfold arr2_bin, same_dims. cbn [a_rows a_cols a_cells]. rewrite Z.eqb_refl. cbn [andb].
      f_equal. f_equal. unfold matrix_rows. rewrite mc_py_map2_map. apply map_ext. intros r.
      apply mc_py_map2_map. }
    rewrite Ht, Hd, Hg. rewrite Hb. cbn [bind]. rewrite Hb. cbn [bind]. reflexivity.
  Qed.

  (* 3. reinflate_matrix on a vector of length n(n+1)/2 returns the n x n array of the model's reinflated matrix *)
  Theorem g_reinflate_matrix_eq (n : nat) (v : list F) :
    length v = (n * (n + 1) / 2)%nat ->
    g_reinflate_matrix F f0 fadd fsub np_sqrt_int v
    = Ret (mk_arr2 (Z.of_nat n) (Z.of_nat n) (matrix_rows n (reinflate f0 fadd fsub v))).
  Proof.
    intros Hlen. unfold g_reinflate_matrix. rewrite (mc_uncompress n v Hlen). cbn [bind].
    rewrite mc_upper_to_full. cbn [bind].
    unfold reinflate. rewrite Hlen, full_matrix_size_inverse. reflexivity.
  Qed.
End E.
Print Assumptions g_compress_matrix_eq.
Print Assumptions g_compress_matrix_not_square.
Print Assumptions g_reinflate_matrix_eq.

Definition Mz (r c : nat) : Z := Z.of_nat (10 * r + c).
Eval vm_compute in g_compress_matrix Z (mk_arr2 3 3 (matrix_rows 3 Mz)).
Eval vm_compute in compress 3 Mz.
Definition sq (z : Z) : Q := inject_Z (Z.sqrt z).
Eval vm_compute in g_reinflate_matrix Z 0%Z Z.add Z.sub sq [1;2;3;4;5;6]%Z.
Eval vm_compute in matrix_rows 3 (reinflate 0%Z Z.add Z.sub [1;2;3;4;5;6]%Z).
Eval vm_compute in g_reinflate_matrix Z 0%Z Z.add Z.sub sq [7]%Z.
Eval vm_compute in g_reinflate_matrix Z 0%Z Z.add Z.sub sq []%Z.
Eval vm_compute in matrix_rows 0 (reinflate 0%Z Z.add Z.sub []%Z).
