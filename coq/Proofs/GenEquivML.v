(* The translated main loop (Gen/G_main_loop.v) is the hand model (Model/MainLoopV.v); order-of-calls
   properties of the model: phase order, number of rounds, rejection of a non-positive limit, pool life cycle. *)
From Coq Require Import String.
From Coq Require Import ZArith List Bool Arith Lia.
From Ticc Require Import Gen.PyRt Gen.PySkel Gen.G_main_loop Model.MainLoopV.
Import ListNotations.

Section ML.
  Variable V : Type.
  Variable vnone : V.
  Variable vint : Z -> V.
  Variable as_int : V -> option Z.
  Variable veq : V -> V -> bool.
  Variable getattr : V -> string -> V.
  Variable oracle : list (event V) -> string -> list V -> res V.

  Notation gfit := (g_fit_stacked_data V vnone as_int veq getattr oracle).
  Notation fit := (fitV V vnone as_int veq getattr oracle).
  Notation rounds := (roundsV V veq getattr oracle).
  Notation round := (roundV V oracle).

  (* ---------------------------------------------------------------- 1. generated = model *)

  Lemma mbind_ext : forall (A B : Type) (m1 m2 : M V A) (f1 f2 : A -> M V B) log,
    m1 log = m2 log -> (forall a log', f1 a log' = f2 a log') ->
    mbind m1 f1 log = mbind m2 f2 log.
  Proof.
    intros A B m1 m2 f1 f2 log Hm Hf. unfold mbind. rewrite Hm.
    destruct (m2 log) as [[a|e] log']; [apply Hf|reflexivity].
  Qed.

  Lemma try_ext : forall (A : Type) (b1 b2 : M V A) (h : M V unit) log,
    b1 log = b2 log -> try_reraise b1 h log = try_reraise b2 h log.
  Proof. intros A b1 b2 h log Hb. unfold try_reraise. rewrite Hb. reflexivity. Qed.

  Lemma mbind_mret_r : forall (A : Type) (m : M V A) log, mbind m (fun a => mret a) log = m log.
  Proof. intros A m log. unfold mbind, mret. destruct (m log) as [[a|e] log']; reflexivity. Qed.

  Lemma mbind_assoc : forall (A B C : Type) (m : M V A) (f : A -> M V B) (g : B -> M V C) log,
    mbind (mbind m f) g log = mbind m (fun a => mbind (f a) g) log.
  Proof.
    intros A B C m f g log. unfold mbind.
    destruct (m log) as [[a|e] log']; reflexivity.
  Qed.

  Lemma mbind_mret_l : forall (A B : Type) (a : A) (f : A -> M V B) log, mbind (mret a) f log = f a log.
  Proof. reflexivity. Qed.

  (* one iteration of the loop, in the shape of the generated body *)
  Definition stepV (data pool : V) (i : Z) (st prev : V) : M V ((V * V) * bool) :=
    st4 <<- round data pool i st ;;
    if veq prev (getattr st4 "point_labels") then mret ((st4, prev), true)
    else p <<- call oracle f_copy [getattr st4 "point_labels"] ;; mret ((st4, p), false).

  Lemma loop_eq : forall (data pool : V) (body : V * V -> Z -> M V ((V * V) * bool)),
    (forall st prev i log, body (st, prev) i log = stepV data pool i st prev log) ->
    forall n k st prev log,
      for_break body (map Z.of_nat (seq k n)) (st, prev) log
      = rounds data pool n (Z.of_nat k) st prev log.
  Proof.
    intros data pool body Hbody n.
    induction n as [|n IHn]; intros k st prev log.
    - reflexivity.
    - cbn [seq map for_break roundsV].
      etransitivity.
      { apply mbind_ext; [apply Hbody | intros a log'; reflexivity]. }
      unfold stepV. rewrite mbind_assoc.
      apply mbind_ext; [reflexivity|]. intros st4 log1.
      destruct (veq prev (getattr st4 "point_labels")).
      + reflexivity.
      + rewrite mbind_assoc.
        apply mbind_ext; [reflexivity|]. intros p log2.
        change (for_break body (map Z.of_nat (seq (S k) n)) (st4, p) log2
                = rounds data pool n (Z.of_nat k + 1) st4 p log2).
        rewrite IHn. rewrite Nat2Z.inj_succ, <- Z.add_1_r. reflexivity.
  Qed.

  Theorem g_fit_stacked_data_eq : forall (user_args data : V) (log : list (event V)),
    gfit user_args data log = fit user_args data log.
  Proof.
    intros user_args data log.
    unfold g_fit_stacked_data, fitV.
    apply mbind_ext; [reflexivity|]. intros lim log0.
    destruct (lim >? 0)%Z; [|reflexivity].
    apply mbind_ext; [reflexivity|]. intros st0 log1.
    apply mbind_ext; [reflexivity|]. intros l0 log2.
    apply mbind_ext; [reflexivity|]. intros st log3.
    apply mbind_ext; [reflexivity|]. intros pr log4.
    apply mbind_ext; [reflexivity|]. intros pool log5.
    apply mbind_ext.
    - apply try_ext.
      apply mbind_ext; [reflexivity|]. intros lim2 log6.
      etransitivity.
      { apply mbind_ext; [|intros a log'; reflexivity].
        unfold zrange.
        apply (loop_eq data pool) with (k := 0%nat).
        intros st' prev i logb. unfold stepV, roundV.
        destruct (i >? 0)%Z.
        - repeat rewrite mbind_assoc.
          apply mbind_ext; [reflexivity|]. intros s1 lg1.
          rewrite mbind_mret_l. cbv beta. repeat rewrite mbind_assoc.
          apply mbind_ext; [reflexivity|]. intros s2 lg2. repeat rewrite mbind_assoc.
          apply mbind_ext; [reflexivity|]. intros s3 lg3. repeat rewrite mbind_assoc.
          reflexivity.
        - repeat rewrite mbind_assoc.
          rewrite !mbind_mret_l. cbv beta. repeat rewrite mbind_assoc.
          apply mbind_ext; [reflexivity|]. intros s2 lg2. repeat rewrite mbind_assoc.
          apply mbind_ext; [reflexivity|]. intros s3 lg3. repeat rewrite mbind_assoc.
          reflexivity. }
      etransitivity.
      { apply mbind_ext; [reflexivity|]. intros [a b] log'.
        instantiate (1 := fun a => mret a). reflexivity. }
      apply mbind_mret_r.
    - intros [a b] log6. reflexivity.
  Qed.

  (* ---------------------------------------------------------------- observations on logs *)

  Definition isret {A : Type} (r : res A) : bool := match r with Ret _ => true | Raise _ => false end.

  Lemma mbind_inv : forall (A B : Type) (m : M V A) (f : A -> M V B) log r log',
    mbind m f log = (r, log') ->
    (exists a log1, m log = (Ret a, log1) /\ f a log1 = (r, log')) \/
    (exists e, m log = (Raise e, log') /\ r = Raise e).
  Proof.
    intros A B m f log r log' H. unfold mbind in H.
    destruct (m log) as [[a|e] log1].
    - left. exists a, log1. split; [reflexivity|exact H].
    - right. exists e. inversion H; subst. split; reflexivity.
  Qed.

  Lemma call_inv : forall f a log x log1,
    call oracle f a log = (x, log1) -> x = oracle log f a /\ log1 = log ++ [Ev f a].
  Proof. intros f a log x log1 H. unfold call in H. inversion H; subst. split; reflexivity. Qed.

  Ltac bind_inv H a l1 Hc :=
    apply mbind_inv in H;
    let e := fresh "e" in
    destruct H as [(a & l1 & Hc & H) | (e & Hc & H)].

  Ltac call_inv_in Hc :=
    apply call_inv in Hc;
    let Hx := fresh "Hx" in let Hl := fresh "Hl" in
    destruct Hc as [Hx Hl]; subst.

  (* the automaton behind phases_ok: the letter expected after a word, None when rejected *)
  Fixpoint run (e : nat) (l : list nat) : option nat :=
    match l with
    | [] => Some e
    | k :: r => if Nat.eqb k e
                then run (match e with 0 => 1 | 1 => 2 | 2 => 3 | _ => 0 end)%nat r
                else None
    end.

  Lemma phases_ok_run : forall l b e,
    phases_ok b e l = match run e l with Some _ => true | None => false end.
  Proof.
    induction l as [|k l IHl]; intros b e; cbn [phases_ok run]; [reflexivity|].
    destruct (Nat.eqb k e); [|reflexivity].
    destruct e as [|[|[|e]]]; apply IHl.
  Qed.

  Lemma run_app : forall l1 l2 e,
    run e (l1 ++ l2) = match run e l1 with Some e' => run e' l2 | None => None end.
  Proof.
    induction l1 as [|k l1 IHl]; intros l2 e; cbn [run app]; [reflexivity|].
    destruct (Nat.eqb k e); [apply IHl|reflexivity].
  Qed.

  Lemma phases_app : forall l1 l2, phases V (l1 ++ l2) = phases V l1 ++ phases V l2.
  Proof.
    induction l1 as [|x l1 IHl]; intros l2; cbn [phases app]; [reflexivity|].
    destruct (phase_letter V x); cbn [app]; rewrite IHl; reflexivity.
  Qed.

  Lemma count_fn_app : forall f l1 l2, count_fn V f (l1 ++ l2) = (count_fn V f l1 + count_fn V f l2)%nat.
  Proof. intros f l1 l2. unfold count_fn. rewrite filter_app, app_length. reflexivity. Qed.

  (* no pool event *)
  Definition quiet (l : list (event V)) : Prop :=
    count_fn V f_pool l = 0%nat /\ count_fn V f_close l = 0%nat /\
    count_fn V f_terminate l = 0%nat /\ count_fn V f_join l = 0%nat.

  Lemma quiet_app : forall l1 l2, quiet l1 -> quiet l2 -> quiet (l1 ++ l2).
  Proof.
    intros l1 l2 (H1 & H2 & H3 & H4) (K1 & K2 & K3 & K4). unfold quiet.
    rewrite !count_fn_app. lia.
  Qed.

  Lemma quiet_nil : quiet [].
  Proof. repeat split. Qed.

  (* ---------------------------------------------------------------- one round, n rounds *)

  Ltac round_fin :=
    rewrite <- ?app_assoc; cbn [app]; eexists; split; [reflexivity|];
    split; [eexists; split; [reflexivity|let K := fresh "K" in intro K; first [discriminate K | reflexivity]]|];
    split; [cbn; lia|];
    split; [let K := fresh "K" in intro K; first [discriminate K | reflexivity]|];
    repeat split.

  Lemma round_spec : forall data pool i st log r log',
    round data pool i st log = (r, log') ->
    exists new, log' = log ++ new /\
      (exists e', run (if (i >? 0)%Z then 0 else 1)%nat (phases V new) = Some e' /\ (isret r = true -> e' = 0%nat)) /\
      (count_fn V f_label new <= 1)%nat /\
      (isret r = true -> count_fn V f_label new = 1%nat) /\
      quiet new.
  Proof.
    intros data pool i st log r log' H. unfold roundV in H.
    revert H. destruct (i >? 0)%Z; intro H.
    - bind_inv H s1 l1 Hc1; call_inv_in Hc1; [|round_fin].
      bind_inv H s2 l2 Hc2; call_inv_in Hc2; [|round_fin].
      bind_inv H s3 l3 Hc3; call_inv_in Hc3; [|round_fin].
      call_inv_in H. round_fin.
    - bind_inv H s1 l1 Hc1; [|unfold mret in Hc1; discriminate Hc1].
      unfold mret in Hc1. inversion Hc1; subst.
      bind_inv H s2 l2 Hc2; call_inv_in Hc2; [|round_fin].
      bind_inv H s3 l3 Hc3; call_inv_in Hc3; [|round_fin].
      call_inv_in H. round_fin.
  Qed.

  Lemma phases_copy : forall a, phases V [Ev f_copy a] = [].
  Proof. reflexivity. Qed.
  Lemma count_label_copy : forall a, count_fn V f_label [Ev f_copy a] = 0%nat.
  Proof. reflexivity. Qed.
  Lemma quiet_copy : forall a, quiet [Ev f_copy a].
  Proof. repeat split. Qed.

  Lemma rounds_spec : forall data pool n i st prev log r log',
    (0 <= i)%Z ->
    rounds data pool n i st prev log = (r, log') ->
    exists new, log' = log ++ new /\
      (exists e', run (if (i >? 0)%Z then 0 else 1)%nat (phases V new) = Some e') /\
      (count_fn V f_label new <= n)%nat /\
      (isret r = true -> (1 <= n)%nat -> (1 <= count_fn V f_label new)%nat) /\
      quiet new.
  Proof.
    intros data pool n.
    induction n as [|n IHn]; intros i st prev log r log' Hi H.
    - cbn [roundsV] in H. unfold mret in H. inversion H; subst.
      exists []. split; [symmetry; apply app_nil_r|].
      split; [eexists; reflexivity|].
      split; [cbn; lia|]. split; [intros _ K; lia|]. apply quiet_nil.
    - cbn [roundsV] in H.
      bind_inv H st4 log1 Hc.
      + apply round_spec in Hc.
        destruct Hc as (new1 & Hl1 & (e1 & Hrun1 & He1) & Hc1 & Hc1' & Hq1). subst log1.
        specialize (He1 eq_refl). specialize (Hc1' eq_refl). subst e1.
        destruct (veq prev (getattr st4 "point_labels")).
        * unfold mret in H. inversion H; subst.
          exists new1. split; [reflexivity|].
          split; [eexists; exact Hrun1|].
          split; [lia|]. split; [intros _ _; lia|]. exact Hq1.
        * bind_inv H p log2 Hc2; call_inv_in Hc2.
          -- apply IHn in H; [|lia].
             destruct H as (new2 & Hl2 & (e2 & Hrun2) & Hn2 & _ & Hq2). subst log'.
             replace (i + 1 >? 0)%Z with true in Hrun2 by (symmetry; apply Z.gtb_lt; lia).
             exists (new1 ++ [Ev f_copy [getattr st4 "point_labels"]] ++ new2).
             split; [rewrite <- !app_assoc; reflexivity|].
             split.
             { exists e2. rewrite !phases_app, phases_copy, run_app, Hrun1. exact Hrun2. }
             rewrite !count_fn_app, count_label_copy.
             split; [lia|]. split; [intros _ _; lia|].
             apply quiet_app; [exact Hq1|]. apply quiet_app; [apply quiet_copy|exact Hq2].
          -- exists (new1 ++ [Ev f_copy [getattr st4 "point_labels"]]).
             split; [rewrite <- !app_assoc; reflexivity|].
             split.
             { exists 0%nat. rewrite !phases_app, phases_copy, run_app, Hrun1. reflexivity. }
             rewrite !count_fn_app, count_label_copy.
             split; [lia|]. split; [intros _ _; lia|].
             apply quiet_app; [exact Hq1|apply quiet_copy].
      + subst r. apply round_spec in Hc.
        destruct Hc as (new1 & Hl1 & (e1 & Hrun1 & _) & Hc1 & _ & Hq1).
        exists new1. split; [exact Hl1|].
        split; [eexists; exact Hrun1|].
        split; [lia|]. split; [intro K; discriminate K|]. exact Hq1.
  Qed.

  (* the body of the try *)
  Lemma body_spec : forall data pool x st log r log',
    (lim2 <<- need_int as_int x ;; rounds data pool (Z.to_nat lim2) 0 st vnone) log = (r, log') ->
    exists new, log' = log ++ new /\
      (exists e', run 1%nat (phases V new) = Some e') /\
      (forall l, as_int x = Some l ->
         (count_fn V f_label new <= Z.to_nat l)%nat /\
         (isret r = true -> (1 <= Z.to_nat l)%nat -> (1 <= count_fn V f_label new)%nat)) /\
      quiet new.
  Proof.
    intros data pool x st log r log' H.
    unfold need_int in H. destruct (as_int x) as [l0|] eqn:Hx.
    - change ((lim2 <<- mret l0 ;; rounds data pool (Z.to_nat lim2) 0 st vnone) log)
        with (rounds data pool (Z.to_nat l0) 0 st vnone log) in H.
      apply rounds_spec in H; [|lia].
      destruct H as (new & Hl & Hrun & Hn & Hn' & Hq).
      exists new. split; [exact Hl|]. split; [exact Hrun|].
      split; [|exact Hq]. intros l Hl0. inversion Hl0; subst l. split; assumption.
    - unfold mbind, mraise in H. inversion H; subst.
      exists []. split; [symmetry; apply app_nil_r|].
      split; [eexists; reflexivity|].
      split; [|apply quiet_nil]. intros l Hl0. discriminate Hl0.
  Qed.

  Lemma try_inv : forall (A : Type) (b : M V A) (h : M V unit) log r log',
    try_reraise b h log = (r, log') ->
    (exists a, b log = (Ret a, log') /\ r = Ret a) \/
    (exists e lg r', b log = (Raise e, lg) /\ h lg = (r', log') /\
                     r = match r' with Ret _ => Raise e | Raise e' => Raise e' end).
  Proof.
    intros A b h log r log' H. unfold try_reraise in H.
    destruct (b log) as [[a|e] lg].
    - left. exists a. inversion H; subst. split; reflexivity.
    - right. destruct (h lg) as [[u|e'] lg'] eqn:Hh.
      + exists e, lg, (Ret u). inversion H; subst. repeat split. exact Hh.
      + exists e, lg, (Raise e'). inversion H; subst. repeat split. exact Hh.
  Qed.

  (* ---------------------------------------------------------------- 4. non-positive limit *)

  Theorem fit_rejects_nonpositive_limit : forall (user_args data : V) lim,
    as_int (getattr user_args "iteration_limit") = Some lim -> (lim <= 0)%Z ->
    fit user_args data [] = (Raise "AssertionError"%string, []).
  Proof.
    intros user_args data lim Hlim Hle.
    unfold fitV, need_int. rewrite Hlim.
    rewrite mbind_mret_l.
    destruct (Z.gtb_spec lim 0) as [Hgt|_]; [lia|reflexivity].
  Qed.

  (* ---------------------------------------------------------------- shape of the log of fit (no hypothesis on the oracle) *)

  Lemma fit_weak : forall (user_args data : V) r log,
    fit user_args data [] = (r, log) ->
    exists pre new tail, log = pre ++ new ++ tail /\
      phases V pre = [] /\ phases V tail = [] /\
      count_fn V f_label pre = 0%nat /\ count_fn V f_label tail = 0%nat /\
      (exists e', run 1%nat (phases V new) = Some e') /\
      (forall l, (forall st, as_int (getattr (getattr st "arguments") "iteration_limit") = Some l) ->
         (count_fn V f_label new <= Z.to_nat l)%nat /\
         (isret r = true -> (1 <= Z.to_nat l)%nat -> (1 <= count_fn V f_label new)%nat)).
  Proof.
    intros user_args data r log H.
    unfold fitV in H.
    Ltac early :=
      match goal with |- exists pre new tail, ?L = _ /\ _ => exists L, [], [] end;
      split; [rewrite app_nil_r; reflexivity|];
      split; [reflexivity|]; split; [reflexivity|]; split; [reflexivity|]; split; [reflexivity|];
      split; [eexists; reflexivity|];
      let K := fresh "K" in
      intros l _; split; [cbn; lia | intro K; discriminate K].
    bind_inv H lim log0 Hc0.
    2:{ subst r. unfold need_int in Hc0.
        destruct (as_int (getattr user_args "iteration_limit")) as [z|];
          [discriminate Hc0|]. unfold mraise in Hc0. inversion Hc0; subst. early. }
    unfold need_int in Hc0.
    destruct (as_int (getattr user_args "iteration_limit")) as [z|]; [|discriminate Hc0].
    unfold mret in Hc0. inversion Hc0; subst z log0. clear Hc0.
    destruct (lim >? 0)%Z.
    2:{ unfold mraise in H. inversion H; subst. early. }
    bind_inv H st0 l1 Hc1; call_inv_in Hc1; cbn [app] in *; [|early].
    bind_inv H lab0 l2 Hc2; call_inv_in Hc2; cbn [app] in *; [|early].
    bind_inv H st l3 Hc3; call_inv_in Hc3; cbn [app] in *; [|early].
    bind_inv H pr l4 Hc4; call_inv_in Hc4; cbn [app] in *; [|early].
    bind_inv H pool l5 Hc5; call_inv_in Hc5; cbn [app] in *; [|early].
    match type of H with mbind _ _ ?L = _ => set (log5 := L) in * end.
    assert (Hp5 : phases V log5 = []) by reflexivity.
    assert (Hn5 : count_fn V f_label log5 = 0%nat) by reflexivity.
    clearbody log5.
    Ltac late log5 new tl Hp5 Hn5 Hrun Hcnt :=
      exists log5, new, tl;
      split; [rewrite <- ?app_assoc; reflexivity|];
      split; [exact Hp5|]; split; [reflexivity|]; split; [exact Hn5|]; split; [reflexivity|];
      split; [exact Hrun|];
      let l := fresh "l" in let Hl := fresh "Hl" in
      let K1 := fresh "K1" in let K2 := fresh "K2" in let K := fresh "K" in
      intros l Hl; destruct (Hcnt l (Hl _)) as [K1 K2];
      split; [exact K1 | intro K; first [ (cbn in K; discriminate K) | apply K2; reflexivity ]].
    bind_inv H sp l6 Hc6.
    - apply try_inv in Hc6.
      destruct Hc6 as [(a & Hb & Ha) | (e & lg & r' & Hb & Hh & Hr)]; [|destruct r'; discriminate Hr].
      inversion Ha; subst a. clear Ha.
      apply body_spec in Hb. destruct Hb as (new & Hl6 & Hrun & Hcnt & Hq). subst l6.
      bind_inv H c l7 Hc7; call_inv_in Hc7.
      2:{ late log5 new [Ev f_close [pool]] Hp5 Hn5 Hrun Hcnt. }
      bind_inv H j l8 Hc8; call_inv_in Hc8.
      2:{ late log5 new [Ev f_close [pool]; Ev f_join [pool]] Hp5 Hn5 Hrun Hcnt. }
      unfold mret in H. inversion H; subst.
      late log5 new [Ev f_close [pool]; Ev f_join [pool]] Hp5 Hn5 Hrun Hcnt.
    - apply try_inv in Hc6.
      destruct Hc6 as [(a & Hb & Ha) | (e' & lg & r' & Hb & Hh & Hr)]; [discriminate Ha|].
      apply body_spec in Hb. destruct Hb as (new & Hlg & Hrun & Hcnt & Hq). subst lg r.
      bind_inv Hh t l7 Hc7; call_inv_in Hc7.
      2:{ late log5 new [Ev f_terminate [pool]] Hp5 Hn5 Hrun Hcnt. }
      bind_inv Hh j l8 Hc8; call_inv_in Hc8.
      2:{ late log5 new [Ev f_terminate [pool]; Ev f_join [pool]] Hp5 Hn5 Hrun Hcnt. }
      unfold mret in Hh. inversion Hh; subst.
      late log5 new [Ev f_terminate [pool]; Ev f_join [pool]] Hp5 Hn5 Hrun Hcnt.
  Qed.

  (* ---------------------------------------------------------------- 2. phase order *)

  Theorem fit_phase_order : forall (user_args data : V) r log,
    fit user_args data [] = (r, log) -> phases_ok false 1%nat (phases V log) = true.
  Proof.
    intros user_args data r log H.
    apply fit_weak in H.
    destruct H as (pre & new & tail & Hlog & Hpp & Hpt & _ & _ & (e' & Hrun) & _).
    subst log. rewrite !phases_app, Hpp, Hpt, app_nil_r. cbn [app].
    rewrite phases_ok_run, Hrun. reflexivity.
  Qed.

  (* ---------------------------------------------------------------- 3. number of rounds *)

  Theorem fit_rounds_bound : forall (user_args data : V) r log lim,
    as_int (getattr user_args "iteration_limit") = Some lim ->
    (forall st, as_int (getattr (getattr st "arguments") "iteration_limit") = Some lim) ->
    fit user_args data [] = (r, log) ->
    (Z.of_nat (count_fn V f_label log) <= Z.max lim 0)%Z /\
    ((exists st, r = Ret st) -> (1 <= count_fn V f_label log)%nat).
  Proof.
    intros user_args data r log lim Hlim Hall H.
    destruct (Z_le_gt_dec lim 0) as [Hle|Hgt].
    - rewrite (fit_rejects_nonpositive_limit user_args data lim Hlim Hle) in H.
      inversion H; subst. split.
      + cbn. lia.
      + intros [st Hst]. discriminate Hst.
    - apply fit_weak in H.
      destruct H as (pre & new & tail & Hlog & _ & _ & Hnp & Hnt & _ & Hcnt).
      destruct (Hcnt lim Hall) as [K1 K2].
      subst log. rewrite !count_fn_app, Hnp, Hnt. split.
      + lia.
      + intros [st Hst]. subst r.
        assert (K3 : (1 <= count_fn V f_label new)%nat) by (apply K2; [reflexivity|lia]).
        lia.
  Qed.

  (* ---------------------------------------------------------------- 5. pool life cycle *)

  Ltac pool_absurd Hor :=
    match goal with
    | Hx : Raise _ = oracle ?l ?f ?a |- _ =>
      let v := fresh "v" in let Hv := fresh "Hv" in
      destruct (Hor l f a) as [v Hv]; [auto 6 | rewrite Hv in Hx; discriminate Hx]
    end.

  Theorem fit_pool_released : forall (user_args data : V) r log,
    (forall l f args, (f = f_pool \/ f = f_terminate \/ f = f_join \/ f = f_close) -> exists v, oracle l f args = Ret v) ->
    fit user_args data [] = (r, log) ->
    (1 <= count_fn V f_pool log)%nat ->
    exists pre p,
      log = pre ++ [Ev (if (match r with Ret _ => true | Raise _ => false end) then f_close else f_terminate) [p]; Ev f_join [p]]
      /\ count_fn V f_pool pre = 1%nat
      /\ count_fn V f_close pre = 0%nat /\ count_fn V f_terminate pre = 0%nat /\ count_fn V f_join pre = 0%nat.
  Proof.
    intros user_args data r log Hor H Hpool.
    unfold fitV in H.
    bind_inv H lim log0 Hc0.
    2:{ unfold need_int in Hc0.
        destruct (as_int (getattr user_args "iteration_limit")) as [z|];
          [discriminate Hc0|]. unfold mraise in Hc0. inversion Hc0; subst.
        cbn in Hpool. lia. }
    unfold need_int in Hc0.
    destruct (as_int (getattr user_args "iteration_limit")) as [z|]; [|discriminate Hc0].
    unfold mret in Hc0. inversion Hc0; subst z log0. clear Hc0.
    destruct (lim >? 0)%Z.
    2:{ unfold mraise in H. inversion H; subst. cbn in Hpool. lia. }
    bind_inv H st0 l1 Hc1; call_inv_in Hc1; cbn [app] in *; [|cbn in Hpool; lia].
    bind_inv H lab0 l2 Hc2; call_inv_in Hc2; cbn [app] in *; [|cbn in Hpool; lia].
    bind_inv H st l3 Hc3; call_inv_in Hc3; cbn [app] in *; [|cbn in Hpool; lia].
    bind_inv H pr l4 Hc4; call_inv_in Hc4; cbn [app] in *; [|cbn in Hpool; lia].
    bind_inv H pool l5 Hc5; call_inv_in Hc5; cbn [app] in *; [|pool_absurd Hor].
    clear Hpool.
    match type of H with mbind _ _ ?L = _ => set (log5 := L) in * end.
    assert (Hk1 : count_fn V f_pool log5 = 1%nat) by reflexivity.
    assert (Hk2 : count_fn V f_close log5 = 0%nat) by reflexivity.
    assert (Hk3 : count_fn V f_terminate log5 = 0%nat) by reflexivity.
    assert (Hk4 : count_fn V f_join log5 = 0%nat) by reflexivity.
    clearbody log5.
    bind_inv H sp l6 Hc6.
    - apply try_inv in Hc6.
      destruct Hc6 as [(a & Hb & Ha) | (e & lg & r' & Hb & Hh & Hr)]; [|destruct r'; discriminate Hr].
      inversion Ha; subst a. clear Ha.
      apply body_spec in Hb. destruct Hb as (new & Hl6 & _ & _ & (Hq1 & Hq2 & Hq3 & Hq4)). subst l6.
      bind_inv H c l7 Hc7; call_inv_in Hc7; [|pool_absurd Hor].
      bind_inv H j l8 Hc8; call_inv_in Hc8; [|pool_absurd Hor].
      unfold mret in H. inversion H; subst.
      exists (log5 ++ new), pool.
      split; [rewrite <- !app_assoc; reflexivity|].
      rewrite !count_fn_app. lia.
    - apply try_inv in Hc6.
      destruct Hc6 as [(a & Hb & Ha) | (e' & lg & r' & Hb & Hh & Hr)]; [discriminate Ha|].
      apply body_spec in Hb. destruct Hb as (new & Hlg & _ & _ & (Hq1 & Hq2 & Hq3 & Hq4)). subst lg r.
      bind_inv Hh t l7 Hc7; call_inv_in Hc7; [|pool_absurd Hor].
      bind_inv Hh j l8 Hc8; call_inv_in Hc8; [|pool_absurd Hor].
      unfold mret in Hh. inversion Hh; subst.
      exists (log5 ++ new), pool.
      split; [rewrite <- !app_assoc; reflexivity|].
      rewrite !count_fn_app. lia.
  Qed.
End ML.

Print Assumptions g_fit_stacked_data_eq.
Print Assumptions fit_pool_released.
