(* The generated control skeleton of cluster_maintenance.repopulate_empty_clusters (Gen/G_cm_repopulate.v), with its
   uninterpreted callees INTERPRETED by the helper functions of the hand-written model (Model/Repop.v: size, rank_donors,
   find_donor, move), computes exactly the hand model's [repopulate]: it returns the labelling the model returns and raises
   (RuntimeError) exactly when the model fails.  Closed under the global context. *)
From Coq Require Import String ZArith List Bool Lia Arith.
From Ticc Require Import Gen.PyRt Gen.PySkel Gen.G_cm_repopulate Model.Repop.
Import ListNotations.
Local Open Scope string_scope.

(* ---------------------------------------------------------------- the concrete universe of values *)

Inductive val : Type :=
| VNone
| VNat (n : nat)                          (* an int: a cluster id, a size, a length *)
| VList (l : list nat)                    (* a list of ints: donor ids, point labels *)
| VState (labels : list nat)              (* a ModelState, as far as this function is concerned: its point labels *)
| VClusters (labels : list nat)           (* model.clusters of the state with these labels *)
| VCluster (sz : nat)                     (* one cluster: its size *)
| VPair (a b : val)                       (* a tuple of two *)
| VSet (elems : list nat)                 (* the Python set, with its iteration order *)
| VEnum (K : nat) (labels : list nat).    (* enumerate(model.clusters) for K clusters *)

Definition as_int (v : val) : option Z :=
  match v with VNat n => Some (Z.of_nat n) | _ => None end.

Definition getattr (v : val) (a : string) : val :=
  match v with
  | VState l => if String.eqb a "clusters" then VClusters l else VNone
  | VPair x y => if String.eqb a "[0]" then x else if String.eqb a "[1]" then y else VNone
  | VCluster s => if String.eqb a "size" then VNat s else VNone
  | _ => VNone
  end.

Definition mkpair (l : list nat) (k : nat) : val := VPair (VNat k) (VCluster (size l k)).

Definition as_list (v : val) : list val :=
  match v with
  | VSet o => map VNat o
  | VList l => map VNat l
  | VEnum K l => map (mkpair l) (seq 0 K)
  | _ => []
  end.

(* how many refills were already made: the number of "_move_random_points" calls in the log *)
Definition is_move (e : event val) : bool := String.eqb (ev_fn e) "_move_random_points".
Definition count_moves (log : list (event val)) : nat := length (filter is_move log).

Definition unexpected : res val := Raise "unexpected".

(* the callees, interpreted by the model's functions *)
Definition oracle_model (K m : nat) (spread : nat -> nat) (order : list nat) (draws : list (list nat))
           (log : list (event val)) (f : string) (a : list val) : res val :=
  if String.eqb f "set" then
    match a with [] => Ret (VSet order) | _ => unexpected end
  else if String.eqb f "enumerate" then
    match a with [VClusters l] => Ret (VEnum K l) | _ => unexpected end
  else if String.eqb f "method:add" then Ret VNone
  else if String.eqb f "len" then
    match a with [VSet o] => Ret (VNat (length o)) | _ => unexpected end
  else if String.eqb f "method:shallow_copy" then
    match a with [VState l] => Ret (VState l) | _ => unexpected end
  else if String.eqb f "expr:[cluster.deep_copy() for cluster in model.clusters]" then
    match a with [VState l] => Ret (VClusters l) | _ => unexpected end
  else if String.eqb f "setattr:clusters" then
    match a with [VState l; _] => Ret (VState l) | _ => unexpected end
  else if String.eqb f "_find_ranked_donor_cluster_ids" then
    match a with [VState l] => Ret (VList (rank_donors K m spread l)) | _ => unexpected end
  else if String.eqb f "_find_point_donor" then
    match a with
    | [VState l; VList rem] =>
      match find_donor (S (length rem)) m l rem with
      | Some (d, rem') => Ret (VPair (VNat d) (VList rem'))
      | None => Raise "RuntimeError"
      end
    | _ => unexpected
    end
  else if String.eqb f "_move_random_points" then
    match a with
    | [VState l; VNat d; VNat e] => Ret (VList (move l d e (nth (count_moves log) draws [])))
    | _ => unexpected
    end
  else if String.eqb f "setattr:point_labels" then
    match a with [VState _; VList l'] => Ret (VState l') | _ => unexpected end
  else unexpected.

(* ---------------------------------------------------------------- small facts *)

Lemma repopulate_alt (K m : nat) (spread : nat -> nat) (order : list nat) (draws : list (list nat)) (labels : list nat) :
  repopulate K m spread order draws labels
  = if Nat.eqb (length order) 0 then Some labels else refill m labels (rank_donors K m spread labels) order draws.
Proof. destruct order as [|e order']; reflexivity. Qed.

Lemma hd_skipn (A : Type) (d : A) : forall (j : nat) (l : list A), hd d (skipn j l) = nth j l d.
Proof.
  induction j as [|j IH]; intros l; destruct l as [|a l]; try reflexivity.
  cbn [skipn nth]. apply IH.
Qed.

Lemma tl_skipn (A : Type) : forall (j : nat) (l : list A), tl (skipn j l) = skipn (S j) l.
Proof.
  induction j as [|j IH]; intros l; destruct l as [|a l]; try reflexivity.
  change (skipn (S j) (a :: l)) with (skipn j l).
  change (skipn (S (S j)) (a :: l)) with (skipn (S j) l).
  apply IH.
Qed.

Lemma of_nat_S_eqb (n : nat) : (Z.of_nat (S n) =? 0)%Z = false.
Proof. reflexivity. Qed.

Lemma ltb_of_nat (n : nat) : (Z.of_nat n <? 2)%Z = Nat.ltb n 2.
Proof.
  destruct (Nat.ltb_spec n 2) as [H|H].
  - apply Z.ltb_lt. lia.
  - apply Z.ltb_ge. lia.
Qed.

Lemma count_moves_app (a b : list (event val)) : count_moves (a ++ b) = count_moves a + count_moves b.
Proof. unfold count_moves. rewrite filter_app, app_length. reflexivity. Qed.

Lemma count_moves_snoc_other (log : list (event val)) (f : string) (a : list val) :
  String.eqb f "_move_random_points" = false -> count_moves (log ++ [Ev f a]) = count_moves log.
Proof.
  intros Hf. rewrite count_moves_app. unfold count_moves at 2. cbn [filter]. unfold is_move. cbn [ev_fn].
  rewrite Hf. cbn [length]. lia.
Qed.

Lemma count_moves_snoc_move (log : list (event val)) (a : list val) :
  count_moves (log ++ [Ev "_move_random_points" a]) = S (count_moves log).
Proof.
  rewrite count_moves_app. unfold count_moves at 2. cbn [filter]. unfold is_move. cbn [ev_fn].
  rewrite String.eqb_refl. cbn [length]. lia.
Qed.

Lemma getattr_clusters (l : list nat) : getattr (VState l) "clusters" = VClusters l.
Proof. reflexivity. Qed.
Lemma getattr_pair0 (a b : val) : getattr (VPair a b) "[0]" = a.
Proof. reflexivity. Qed.
Lemma getattr_pair1 (a b : val) : getattr (VPair a b) "[1]" = b.
Proof. reflexivity. Qed.
Lemma getattr_size (s : nat) : getattr (VCluster s) "size" = VNat s.
Proof. reflexivity. Qed.
Lemma need_int_nat (n : nat) : need_int as_int (VNat n) = mret (Z.of_nat n).
Proof. reflexivity. Qed.

Section Interp.
  Variables (K m : nat) (spread : nat -> nat) (order : list nat) (draws : list (list nat)).
  Local Notation O := (oracle_model K m spread order draws).

  (* ---------------------------------------------------------------- the oracle, one callee at a time *)

  Lemma oracle_set (log : list (event val)) : O log "set" [] = Ret (VSet order).
  Proof. reflexivity. Qed.
  Lemma oracle_enumerate (log : list (event val)) (l : list nat) : O log "enumerate" [VClusters l] = Ret (VEnum K l).
  Proof. reflexivity. Qed.
  Lemma oracle_add (log : list (event val)) (a : list val) : O log "method:add" a = Ret VNone.
  Proof. reflexivity. Qed.
  Lemma oracle_len (log : list (event val)) (o : list nat) : O log "len" [VSet o] = Ret (VNat (length o)).
  Proof. reflexivity. Qed.
  Lemma oracle_shallow (log : list (event val)) (l : list nat) : O log "method:shallow_copy" [VState l] = Ret (VState l).
  Proof. reflexivity. Qed.
  Lemma oracle_deep (log : list (event val)) (l : list nat) :
    O log "expr:[cluster.deep_copy() for cluster in model.clusters]" [VState l] = Ret (VClusters l).
  Proof. reflexivity. Qed.
  Lemma oracle_setclusters (log : list (event val)) (l : list nat) (c : val) :
    O log "setattr:clusters" [VState l; c] = Ret (VState l).
  Proof. reflexivity. Qed.
  Lemma oracle_rank (log : list (event val)) (l : list nat) :
    O log "_find_ranked_donor_cluster_ids" [VState l] = Ret (VList (rank_donors K m spread l)).
  Proof. reflexivity. Qed.
  Lemma oracle_fd (log : list (event val)) (l rem : list nat) :
    O log "_find_point_donor" [VState l; VList rem]
    = match find_donor (S (length rem)) m l rem with
      | Some (d, rem') => Ret (VPair (VNat d) (VList rem'))
      | None => Raise "RuntimeError"
      end.
  Proof. reflexivity. Qed.
  Lemma oracle_mv (log : list (event val)) (l : list nat) (d e : nat) :
    O log "_move_random_points" [VState l; VNat d; VNat e] = Ret (VList (move l d e (nth (count_moves log) draws []))).
  Proof. reflexivity. Qed.
  Lemma oracle_sp (log : list (event val)) (l l' : list nat) :
    O log "setattr:point_labels" [VState l; VList l'] = Ret (VState l').
  Proof. reflexivity. Qed.

  (* ---------------------------------------------------------------- the monad, one step at a time *)

  Lemma bind_call (B : Type) (f : string) (a : list val) (k : val -> M val B) (log : list (event val)) :
    mbind (call O f a) k log
    = match O log f a with
      | Ret v => k v (log ++ [Ev f a])%list
      | Raise e => (Raise e, (log ++ [Ev f a])%list)
      end.
  Proof. unfold mbind, call. destruct (O log f a) as [v|e]; reflexivity. Qed.

  Lemma bind_ret (A B : Type) (a : A) (k : A -> M val B) (log : list (event val)) : mbind (mret a) k log = k a log.
  Proof. reflexivity. Qed.

  Lemma mbind_assoc (A B C : Type) (mm : M val A) (f : A -> M val B) (k : B -> M val C) (log : list (event val)) :
    mbind (mbind mm f) k log = mbind mm (fun a => mbind (f a) k) log.
  Proof. unfold mbind. destruct (mm log) as [[a|e] l1]; reflexivity. Qed.

  Lemma for_each_cons (S : Type) (body : S -> val -> M val S) (x : val) (r : list val) (s : S) (log : list (event val)) :
    for_each body (x :: r) s log
    = match body s x log with
      | (Ret s', log') => for_each body r s' log'
      | (Raise e, log') => (Raise e, log')
      end.
  Proof. reflexivity. Qed.

  Lemma fst_bind_call (B : Type) (f : string) (a : list val) (k : val -> M val B) (log : list (event val))
        (v : val) (R : res B) :
    O log f a = Ret v -> fst (k v (log ++ [Ev f a])%list) = R -> fst (mbind (call O f a) k log) = R.
  Proof. intros Ho Hk. rewrite bind_call, Ho. exact Hk. Qed.

  Lemma fst_bind_ret (A B : Type) (mm : M val A) (k : A -> M val B) (log log' : list (event val)) (a : A) (R : res B) :
    mm log = (Ret a, log') -> fst (k a log') = R -> fst (mbind mm k log) = R.
  Proof. intros Hm Hk. unfold mbind. rewrite Hm. exact Hk. Qed.

  Lemma fst_bind_raise (A B : Type) (mm : M val A) (k : A -> M val B) (log log' : list (event val)) (e : string) :
    mm log = (Raise e, log') -> fst (mbind mm k log) = Raise e.
  Proof. intros Hm. unfold mbind. rewrite Hm. reflexivity. Qed.

  (* ---------------------------------------------------------------- the scan loop *)

  (* the body of the scan loop, as generated (the lets unfolded) *)
  Definition scan_body (s : val) : unit -> val -> M val unit := fun _ t3_ =>
    t4_ <<- need_int as_int (getattr (getattr t3_ "[1]") "size") ;;
    _ <<- (if (t4_ <? 2)%Z then
             t5_ <<- call O "method:add" [s; getattr t3_ "[0]"] ;;
             mret tt
           else mret tt) ;;
    mret tt.

  Definition add_ev (s : val) (k : nat) : event val := Ev "method:add" [s; VNat k].

  Lemma count_moves_adds (s : val) : forall (ks : list nat), count_moves (map (add_ev s) ks) = 0.
  Proof. induction ks as [|k ks IH]; [reflexivity|]. exact IH. Qed.

  Lemma scan_one (s : val) (l : list nat) (k : nat) (log : list (event val)) :
    scan_body s tt (mkpair l k) log
    = (Ret tt, (log ++ (if Nat.ltb (size l k) 2 then [add_ev s k] else []))%list).
  Proof.
    unfold scan_body, mkpair.
    rewrite getattr_pair1, getattr_size, getattr_pair0, need_int_nat, bind_ret, ltb_of_nat.
    destruct (Nat.ltb (size l k) 2).
    - rewrite mbind_assoc, bind_call, oracle_add. reflexivity.
    - rewrite app_nil_r. reflexivity.
  Qed.

  (* the scan adds to the set exactly the under-populated clusters, in increasing order *)
  Lemma scan_run (s : val) (l : list nat) : forall (ks : list nat) (log : list (event val)),
    for_each (scan_body s) (map (mkpair l) ks) tt log
    = (Ret tt, (log ++ map (add_ev s) (filter (fun k => Nat.ltb (size l k) 2) ks))%list).
  Proof.
    induction ks as [|k ks IH]; intros log.
    - cbn [map filter for_each]. rewrite app_nil_r. reflexivity.
    - cbn [map filter]. rewrite for_each_cons, scan_one. cbv beta iota. rewrite IH.
      destruct (Nat.ltb (size l k) 2).
      + cbn [map]. rewrite <- app_assoc. reflexivity.
      + rewrite app_nil_r. reflexivity.
  Qed.

  (* read on the skeleton's own scan over enumerate(model.clusters): the ids added are [under K labels] *)
  Corollary scan_adds_under (s : val) (labels : list nat) (log : list (event val)) :
    for_each (scan_body s) (as_list (VEnum K labels)) tt log
    = (Ret tt, (log ++ map (add_ev s) (under K labels))%list).
  Proof. exact (scan_run s labels (seq 0 K) log). Qed.

  (* ---------------------------------------------------------------- the refill loop *)

  (* the body of the move loop, as generated (the lets unfolded) *)
  Definition move_body : val * val -> val -> M val (val * val) := fun '(remaining_donors, new_model) empty_cluster_id =>
    t12_ <<- call O "_find_point_donor" [new_model; remaining_donors] ;;
    t13_ <<- call O "_move_random_points" [new_model; getattr t12_ "[0]"; empty_cluster_id] ;;
    new_model' <<- call O "setattr:point_labels" [new_model; t13_] ;;
    mret (getattr t12_ "[1]", new_model').

  (* one iteration = one step of [refill], using the draw whose index is the number of moves already logged *)
  Lemma move_body_run (rem l : list nat) (e : nat) (log : list (event val)) :
    match find_donor (S (length rem)) m l rem with
    | Some (d, rem') =>
      exists log', move_body (VList rem, VState l) (VNat e) log
                   = (Ret (VList rem', VState (move l d e (nth (count_moves log) draws []))), log')
                   /\ count_moves log' = S (count_moves log)
    | None => exists log', move_body (VList rem, VState l) (VNat e) log = (Raise "RuntimeError", log')
    end.
  Proof.
    pose proof (oracle_fd log l rem) as Hfd.
    destruct (find_donor (S (length rem)) m l rem) as [[d rem']|].
    - eexists. split.
      + unfold move_body. rewrite bind_call, Hfd. cbv beta iota.
        rewrite getattr_pair0, getattr_pair1.
        rewrite bind_call, oracle_mv. cbv beta iota.
        rewrite bind_call, oracle_sp. cbv beta iota.
        rewrite count_moves_snoc_other by reflexivity.
        reflexivity.
      + rewrite count_moves_snoc_other by reflexivity.
        rewrite count_moves_snoc_move.
        rewrite count_moves_snoc_other by reflexivity.
        reflexivity.
    - eexists. unfold move_body. rewrite bind_call, Hfd. reflexivity.
  Qed.

  Lemma move_loop : forall (ord rem l : list nat) (log : list (event val)),
    match refill m l rem ord (skipn (count_moves log) draws) with
    | Some out => exists rem' log',
        for_each move_body (map VNat ord) (VList rem, VState l) log = (Ret (VList rem', VState out), log')
    | None => exists log',
        for_each move_body (map VNat ord) (VList rem, VState l) log = (Raise "RuntimeError", log')
    end.
  Proof.
    induction ord as [|e ord IH]; intros rem l log.
    - cbn [refill map for_each]. exists rem, log. reflexivity.
    - cbn [refill map]. rewrite for_each_cons.
      pose proof (move_body_run rem l e log) as Hb.
      destruct (find_donor (S (length rem)) m l rem) as [[d rem']|].
      + destruct Hb as (l1 & Hb & Hc). rewrite Hb. cbv beta iota.
        rewrite hd_skipn, tl_skipn.
        specialize (IH rem' (move l d e (nth (count_moves log) draws [])) l1).
        rewrite Hc in IH. exact IH.
      + destruct Hb as (l1 & Hb). rewrite Hb. exists l1. reflexivity.
  Qed.

  (* ---------------------------------------------------------------- the whole function *)

  Definition run (labels : list nat) : res val * list (event val) :=
    g_repopulate_empty_clusters val as_int getattr as_list O (VState labels) [].

  Lemma run_result (labels : list nat) :
    fst (run labels)
    = match repopulate K m spread order draws labels with
      | Some out => Ret (VState out)
      | None => Raise "RuntimeError"
      end.
  Proof.
    unfold run, g_repopulate_empty_clusters.
    eapply fst_bind_call; [apply oracle_set|]. cbv beta zeta.
    rewrite getattr_clusters.
    eapply fst_bind_call; [apply oracle_enumerate|]. cbv beta.
    eapply fst_bind_ret; [exact (scan_run (VSet order) labels (seq 0 K) _)|]. cbv beta.
    eapply fst_bind_call; [apply oracle_len|]. cbv beta.
    rewrite need_int_nat, bind_ret.
    rewrite repopulate_alt.
    destruct (length order) as [|n].
    - reflexivity.
    - rewrite of_nat_S_eqb. cbn [Nat.eqb].
      eapply fst_bind_call; [apply oracle_shallow|]. cbv beta.
      eapply fst_bind_call; [apply oracle_deep|]. cbv beta.
      eapply fst_bind_call; [apply oracle_setclusters|]. cbv beta.
      eapply fst_bind_call; [apply oracle_rank|]. cbv beta.
      match goal with
      | |- fst (mbind _ _ ?L) = _ =>
        pose proof (move_loop order (rank_donors K m spread labels) labels L) as Hloop;
        assert (count_moves L = 0) as HcN
      end.
      { repeat rewrite count_moves_snoc_other by reflexivity.
        rewrite count_moves_app, count_moves_adds. reflexivity. }
      rewrite HcN in Hloop. cbn [skipn] in Hloop.
      destruct (refill m labels (rank_donors K m spread labels) order draws) as [out|].
      + destruct Hloop as (rem' & log' & Hrun).
        eapply fst_bind_ret; [exact Hrun|]. reflexivity.
      + destruct Hloop as (log' & Hrun).
        eapply fst_bind_raise. exact Hrun.
  Qed.

End Interp.

(* ================================================================ the theorem *)

(* No hypothesis on [order] is needed: the skeleton branches on len(set) and iterates over the set, and the model's
   [repopulate] branches on [order] and recurses over it - the two are compared for ANY iteration order the set may have.
   (That the set holds exactly the under-populated clusters is what the scan loop does: [scan_run] above.) *)
Theorem repopulate_skeleton_is_model : forall (K m : nat) (spread : nat -> nat) (order : list nat) (draws : list (list nat))
                                              (labels : list nat),
  match repopulate K m spread order draws labels with
  | Some out => exists log',
      g_repopulate_empty_clusters val as_int getattr as_list (oracle_model K m spread order draws) (VState labels) []
      = (Ret (VState out), log')
  | None => exists e log',
      g_repopulate_empty_clusters val as_int getattr as_list (oracle_model K m spread order draws) (VState labels) []
      = (Raise e, log')
  end.
Proof.
  intros K m spread order draws labels.
  pose proof (run_result K m spread order draws labels) as Hrun. unfold run in Hrun.
  destruct (repopulate K m spread order draws labels) as [out|].
  - eexists. rewrite <- Hrun. apply surjective_pairing.
  - exists "RuntimeError". eexists. rewrite <- Hrun. apply surjective_pairing.
Qed.

(* ================================================================ non-vacuity *)

Example repopulate_skeleton_example :
  let labels := [0; 0; 0; 0; 1; 1] in
  let out := [2; 2; 0; 0; 1; 1] in
  fst (g_repopulate_empty_clusters val as_int getattr as_list (oracle_model 3 2 (fun k => k) [2] [[0; 1]]) (VState labels) [])
  = Ret (VState out)
  /\ repopulate 3 2 (fun k => k) [2] [[0; 1]] labels = Some out
  /\ size labels 2 = 0 /\ size labels 0 = 4 /\ size out 2 = 2 /\ under 3 labels = [2].
Proof. vm_compute. repeat split. Qed.

Print Assumptions repopulate_skeleton_is_model.
