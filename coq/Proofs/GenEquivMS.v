(* Second tie: the label setter of containers/model_state.ModelState, its _update_cluster_membership and the member_points
   setter of ClusterParameters AS TRANSLATED from /repo's working tree by vcheck/py2coq.py (Gen/G_model_state.v, regenerated on
   every run; object fields as records with functional updates, a property store calls the translated setter,
   collections.defaultdict(list) as an association list) equal the model: after assigning a labelling, cluster k's member list
   is Model/Repop.members labels k - the ascending list of the points labelled k - for every K and every labelling.
   Closed under the global context. *)
From Coq Require Import String ZArith List Bool Lia Arith.
From Ticc Require Import Gen.PyRt Gen.G_model_state Model.Repop.
Import ListNotations.

(* the object state: labels, K clusters with their current member lists *)
Definition state_of (K : nat) (labels : list nat) (mem : list (list nat)) : ms_state :=
  mk_ms_state (map Z.of_nat labels) (map (fun m => mk_ms_cluster (map Z.of_nat m)) mem) (mk_ms_args (Z.of_nat K)).
Definition derived (K : nat) (labels : list nat) : list (list nat) := map (members labels) (seq 0 K).

(* STATEMENTS (to be proved):

(* 1. the member_points setter stores the sorted list (an ascending list is stored as it is), the empty list for an empty one *)
Theorem g_member_points_setter_sorted (old new : list nat) :
  Sorted.StronglySorted lt new ->
  g_member_points_setter (mk_ms_cluster (map Z.of_nat old)) (map Z.of_nat new) = Ret (mk_ms_cluster (map Z.of_nat new)).

(* 2. _update_cluster_membership re-derives every cluster's member list from the labels, whatever the lists were before *)
Theorem g_update_cluster_membership_eq (K : nat) (labels : list nat) (mem : list (list nat)) :
  length mem = K -> Forall (fun l => (l < K)%nat) labels ->
  g_update_cluster_membership (state_of K labels mem) = Ret (state_of K labels (derived K labels)).

(* 3. assigning a labelling that differs from the stored one stores it and re-derives the membership at once;
      assigning the stored labelling again changes nothing *)
Theorem g_point_labels_setter_eq (K : nat) (old new : list nat) (mem : list (list nat)) :
  length mem = K -> Forall (fun l => (l < K)%nat) new ->
  g_point_labels_setter (state_of K old mem) (map Z.of_nat new)
  = Ret (if list_eq_dec Nat.eq_dec new old then state_of K old mem else state_of K new (derived K new)).
*)

Eval vm_compute in g_point_labels_setter (state_of 3 [0;0;0] [[0;1;2];[];[]]) (map Z.of_nat [2;0;2;1;0]).
Eval vm_compute in state_of 3 [2;0;2;1;0] (derived 3 [2;0;2;1;0]).
Eval vm_compute in g_update_cluster_membership (state_of 2 [] [[4;1];[7]]).
