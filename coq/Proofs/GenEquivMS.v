(* Second tie: the label setter of containers/model_state.ModelState, its _update_cluster_membership and the member_points
   setter of ClusterParameters AS TRANSLATED from /repo's working tree by vcheck/py2coq.py (Gen/G_model_state.v, regenerated on
   every run; object fields as records with functional updates, a property store calls the translated setter,
   collections.defaultdict(list) as an association list) equal the model: after assigning a labelling, cluster k's member list
   is Model/Repop.members labels k - the ascending list of the points labelled k - for every K and every labelling.
   Closed under the global context. *)
From Coq Require Import String ZArith List Bool Lia Arith Sorted.
From Ticc Require Import Gen.PyRt Gen.G_model_state Model.Repop.
Import ListNotations.

(* the object state: labels, K clusters with their current member lists *)
Definition state_of (K : nat) (labels : list nat) (mem : list (list nat)) : ms_state :=
  mk_ms_state (map Z.of_nat labels) (map (fun m => mk_ms_cluster (map Z.of_nat m)) mem) (mk_ms_args (Z.of_nat K)).
Definition derived (K : nat) (labels : list nat) : list (list nat) := map (members labels) (seq 0 K).

(* ---- helper lemmas (copied from the sibling GenEquiv files / local) ---- *)
Lemma py_getitem_nat {A : Type} (l : list A) (k : nat) (d : A) :
  (k < length l)%nat -> py_getitem l (Z.of_nat k) = Ret (nth k l d).
Proof.
  intros Hk. unfold py_getitem, py_len. cbv zeta.
  assert (E1 : (Z.of_nat k <? 0)%Z = false) by (apply Z.ltb_ge; lia).
  assert (E2 : (Z.of_nat (length l) <=? Z.of_nat k)%Z = false) by (apply Z.leb_gt; lia).
  rewrite E1. cbv iota. rewrite E1, E2. cbn [orb]. rewrite Nat2Z.id, (nth_error_nth' l d Hk). reflexivity.
Qed.

Lemma py_set_index_nat {A : Type} (l : list A) (k : nat) (v : A) :
  (k < length l)%nat -> py_set_index l (Z.of_nat k) v = Ret (set_nth k v l).
Proof.
  intros Hk. unfold py_set_index, py_len. cbv zeta.
  assert (E1 : (Z.of_nat k <? 0)%Z = false) by (apply Z.ltb_ge; lia).
  assert (E2 : (Z.of_nat (length l) <=? Z.of_nat k)%Z = false) by (apply Z.leb_gt; lia).
  rewrite E1. cbv iota. rewrite E1, E2. cbn [orb]. rewrite Nat2Z.id. reflexivity.
Qed.

Lemma set_nth_app_mid {A : Type} (pre : list A) (x v : A) (r : list A) :
  set_nth (length pre) v (pre ++ x :: r) = pre ++ v :: r.
Proof.
  induction pre as [|a pre IH]; cbn [length app set_nth]; [reflexivity|]. now rewrite IH.
Qed.

Lemma combine_map_both {A B C D : Type} (f : A -> C) (g : B -> D) (l1 : list A) (l2 : list B) :
  combine (map f l1) (map g l2) = map (fun ab => (f (fst ab), g (snd ab))) (combine l1 l2).
Proof.
  revert l2. induction l1 as [|a l1 IH]; intros [|b l2]; cbn [map combine fst snd]; try reflexivity.
  f_equal. apply IH.
Qed.

Lemma py_enumerate_nat (labels : list nat) :
  py_enumerate (map Z.of_nat labels)
  = map (fun ip => (Z.of_nat (fst ip), Z.of_nat (snd ip))) (combine (seq 0 (length labels)) labels).
Proof.
  unfold py_enumerate, py_len. rewrite map_length, zrange_of_nat. apply combine_map_both.
Qed.

Lemma map_of_nat_inj (a b : list nat) : map Z.of_nat a = map Z.of_nat b -> a = b.
Proof.
  revert b. induction a as [|x a IH]; intros [|y b] H; cbn [map] in H; try discriminate; [reflexivity|].
  injection H as Hx Hr. apply Nat2Z.inj in Hx. subst y. f_equal. apply IH. exact Hr.
Qed.

Lemma map_const_repeat {A B : Type} (c : B) (l : list A) : map (fun _ => c) l = repeat c (length l).
Proof. induction l as [|a l IH]; cbn [map length repeat]; [reflexivity|]. now rewrite IH. Qed.

(* ---- lists of ints: ==, sorted ---- *)
Lemma py_list_eqb_eq (a b : list Z) : py_list_eqb a b = true -> a = b.
Proof.
  revert b. induction a as [|x a IH]; intros [|y b] H; cbn [py_list_eqb] in H; try discriminate; [reflexivity|].
  apply andb_true_iff in H. destruct H as [Hx Hr]. apply Z.eqb_eq in Hx. subst y. f_equal. apply IH. exact Hr.
Qed.

Lemma py_list_eqb_refl (a : list Z) : py_list_eqb a a = true.
Proof. induction a as [|x a IH]; cbn [py_list_eqb]; [reflexivity|]. now rewrite Z.eqb_refl, IH. Qed.

Lemma py_insert_below (x : nat) (l : list nat) :
  Forall (lt x) l -> py_insert (Z.of_nat x) (map Z.of_nat l) = map Z.of_nat (x :: l).
Proof.
  intros H. destruct l as [|y l]; cbn [map py_insert]; [reflexivity|].
  inversion H as [|y' l' Hxy Hl]; subst.
  assert (E : (Z.of_nat x <=? Z.of_nat y)%Z = true) by (apply Z.leb_le; lia).
  rewrite E. reflexivity.
Qed.

Lemma py_sorted_ascending (l : list nat) :
  Sorted.StronglySorted lt l -> py_sorted (map Z.of_nat l) = map Z.of_nat l.
Proof.
  intros H. induction H as [|x l Hs IH Hx]; [reflexivity|].
  unfold py_sorted in *. cbn [map fold_right]. rewrite IH. apply py_insert_below. exact Hx.
Qed.

(* ---- members is ascending ---- *)
Lemma filtered_enum_sorted (P : nat * nat -> bool) (l : list nat) (a : nat) :
  Sorted.StronglySorted lt (map fst (filter P (combine (seq a (length l)) l)))
  /\ Forall (le a) (map fst (filter P (combine (seq a (length l)) l))).
Proof.
  revert a. induction l as [|x l IH]; intros a; cbn [length seq combine filter map].
  - split; constructor.
  - destruct (IH (S a)) as [Hs Hf].
    assert (Hf' : Forall (le a) (map fst (filter P (combine (seq (S a) (length l)) l)))).
    { eapply Forall_impl; [|exact Hf]. intros p Hp. cbv beta in Hp. lia. }
    destruct (P (a, x)); cbn [map fst].
    + split.
      * constructor; [exact Hs|]. eapply Forall_impl; [|exact Hf]. intros p Hp. cbv beta in Hp. lia.
      * constructor; [lia | exact Hf'].
    + split; [exact Hs | exact Hf'].
Qed.

Lemma members_sorted (labels : list nat) (k : nat) : Sorted.StronglySorted lt (members labels k).
Proof. unfold members. apply filtered_enum_sorted. Qed.

(* ---- collections.defaultdict(list) ---- *)
Lemma py_ddict_get_append_same {V : Type} (d : list (Z * list V)) (k : Z) (v : V) :
  py_ddict_get (py_ddict_append d k v) k = (py_ddict_get d k ++ [v])%list.
Proof.
  unfold py_ddict_append. unfold py_ddict_get at 1. cbn [find fst snd]. rewrite Z.eqb_refl. reflexivity.
Qed.

Lemma find_filter_other {V : Type} (d : list (Z * V)) (k k' : Z) :
  k' <> k -> find (fun kv => (fst kv =? k')%Z) (filter (fun kv => negb (fst kv =? k)%Z) d)
             = find (fun kv => (fst kv =? k')%Z) d.
Proof.
  intros Hne. induction d as [|[a b] d IH]; cbn [filter find fst]; [reflexivity|].
  destruct (Z.eqb_spec a k) as [E|E]; cbn [negb find fst].
  - subst a. destruct (Z.eqb_spec k k') as [E'|E']; [congruence | exact IH].
  - destruct (a =? k')%Z; [reflexivity | exact IH].
Qed.

Lemma py_ddict_get_append_other {V : Type} (d : list (Z * list V)) (k k' : Z) (v : V) :
  k' <> k -> py_ddict_get (py_ddict_append d k v) k' = py_ddict_get d k'.
Proof.
  intros Hne. unfold py_ddict_append. unfold py_ddict_get at 1. cbn [find fst].
  destruct (Z.eqb_spec k k') as [E|E]; [congruence|].
  unfold py_ddict_get. rewrite find_filter_other by exact Hne. reflexivity.
Qed.

(* 1. the member_points setter stores the sorted list (an ascending list is stored as it is), the empty list for an empty one *)
Theorem g_member_points_setter_sorted (old new : list nat) :
  Sorted.StronglySorted lt new ->
  g_member_points_setter (mk_ms_cluster (map Z.of_nat old)) (map Z.of_nat new) = Ret (mk_ms_cluster (map Z.of_nat new)).
Proof.
  intros Hs. unfold g_member_points_setter.
  destruct new as [|x new].
  - reflexivity.
  - assert (E : (py_len (map Z.of_nat (x :: new)) =? 0)%Z = false).
    { apply Z.eqb_neq. unfold py_len. cbn [map length]. lia. }
    rewrite E. cbn [mc__member_points].
    destruct (py_list_eqb (map Z.of_nat (x :: new)) (map Z.of_nat old)) eqn:El; cbn [negb bind].
    + apply py_list_eqb_eq in El. rewrite <- El. reflexivity.
    + unfold set_mc__member_points. rewrite py_sorted_ascending by exact Hs. reflexivity.
Qed.

Lemma g_member_points_setter_nil (c : ms_cluster) : g_member_points_setter c [] = Ret (mk_ms_cluster []).
Proof. reflexivity. Qed.

(* the defaultdict after the first loop over a processed list of (point, label) pairs *)
Definition dd_inv (d : list (Z * list Z)) (done : list (nat * nat)) : Prop :=
  forall k : nat, py_ddict_get d (Z.of_nat k) = map Z.of_nat (map fst (filter (fun ip => Nat.eqb (snd ip) k) done)).

Lemma dd_loop (post : list (nat * nat)) : forall (done : list (nat * nat)) (d : list (Z * list Z)),
  dd_inv d done ->
  exists d', foldM (fun (members : list (Z * list Z)) '(point_id, cluster_id) =>
                      let members := py_ddict_append members cluster_id point_id in Ret members)
                   (map (fun ip : nat * nat => (Z.of_nat (fst ip), Z.of_nat (snd ip))) post) d = Ret d'
             /\ dd_inv d' (done ++ post).
Proof.
  induction post as [|[p l] post IH]; intros done d Hinv; cbn [map foldM fst snd].
  - exists d. rewrite app_nil_r. split; [reflexivity | exact Hinv].
  - cbn [bind].
    destruct (IH (done ++ [(p, l)]) (py_ddict_append d (Z.of_nat l) (Z.of_nat p))) as [d' [Hrun Hinv']].
    + intros k. rewrite filter_app, map_app, map_app. cbn [filter snd].
      destruct (Nat.eqb_spec l k) as [E|E].
      * subst k. rewrite py_ddict_get_append_same, Hinv. reflexivity.
      * rewrite py_ddict_get_append_other by lia. rewrite Hinv. cbn [map]. now rewrite app_nil_r.
    + exists d'. split; [exact Hrun|]. rewrite <- app_assoc in Hinv'. exact Hinv'.
Qed.

Definition cl_of (m : list nat) : ms_cluster := mk_ms_cluster (map Z.of_nat m).

Lemma cluster_loop (labels : list nat) (d : list (Z * list Z)) (L : list Z) (A : ms_args) :
  (forall k : nat, py_ddict_get d (Z.of_nat k) = map Z.of_nat (members labels k)) ->
  forall (rest : list (list nat)) (pre : list ms_cluster),
  foldM (fun (self : ms_state) (cluster_id : Z) =>
           let this_cluster_members := py_ddict_get d cluster_id in
           t2_ <- py_getitem (ms_clusters self) cluster_id ;;
           t3_ <- g_member_points_setter t2_ this_cluster_members ;;
           t4_ <- py_set_index (ms_clusters self) cluster_id t3_ ;;
           let self := set_ms_clusters self t4_ in Ret self)
        (map Z.of_nat (seq (length pre) (length rest))) (mk_ms_state L (pre ++ map cl_of rest) A)
  = Ret (mk_ms_state L (pre ++ map (fun k => cl_of (members labels k)) (seq (length pre) (length rest))) A).
Proof.
  intros Hd. induction rest as [|m rest IH]; intros pre; cbn [length seq map foldM].
  - reflexivity.
  - cbv zeta. cbn [ms_clusters].
    assert (Hlt : (length pre < length (pre ++ cl_of m :: map cl_of rest))%nat).
    { rewrite app_length. cbn [length]. lia. }
    rewrite (py_getitem_nat _ _ (cl_of m)) by exact Hlt. cbn [bind].
    rewrite app_nth2 by lia. rewrite Nat.sub_diag. cbn [nth].
    rewrite Hd. unfold cl_of at 1. rewrite g_member_points_setter_sorted by apply members_sorted. cbn [bind].
    rewrite py_set_index_nat by exact Hlt. cbn [bind].
    rewrite set_nth_app_mid. unfold set_ms_clusters. cbn [ms__point_labels ms_arguments].
    specialize (IH (pre ++ [mk_ms_cluster (map Z.of_nat (members labels (length pre)))])).
    rewrite app_length in IH. cbn [length] in IH. rewrite Nat.add_1_r in IH.
    rewrite <- !app_assoc in IH. cbn [app] in IH. exact IH.
Qed.

(* 2. _update_cluster_membership re-derives every cluster's member list from the labels, whatever the lists were before *)
Theorem g_update_cluster_membership_eq (K : nat) (labels : list nat) (mem : list (list nat)) :
  length mem = K -> Forall (fun l => (l < K)%nat) labels ->
  g_update_cluster_membership (state_of K labels mem) = Ret (state_of K labels (derived K labels)).
Proof.
  intros Hmem Hall. unfold g_update_cluster_membership, state_of.
  cbn [ms__point_labels ms_clusters ms_arguments ma_num_clusters orb].
  destruct labels as [|l0 labels].
  - cbn [map py_len length Z.of_nat Z.eqb].
    rewrite (mapM_pure _ (fun _ => mk_ms_cluster [])) by (intros c _; apply g_member_points_setter_nil).
    cbn [bind]. unfold set_ms_clusters. cbn [ms__point_labels ms_arguments]. f_equal. f_equal.
    unfold derived. rewrite !map_map. cbn [members length seq combine filter map].
    rewrite !map_const_repeat, seq_length, Hmem. reflexivity.
  - assert (E : (py_len (map Z.of_nat (l0 :: labels)) =? 0)%Z = false).
    { apply Z.eqb_neq. unfold py_len. cbn [map length]. lia. }
    rewrite E. rewrite py_enumerate_nat.
    destruct (dd_loop (combine (seq 0 (length (l0 :: labels))) (l0 :: labels)) [] []) as [d [Hrun Hinv]].
    { intros k. reflexivity. }
    cbv zeta in Hrun. cbv zeta. rewrite Hrun. cbn [bind]. rewrite zrange_of_nat.
    pose proof (cluster_loop (l0 :: labels) d (map Z.of_nat (l0 :: labels)) (mk_ms_args (Z.of_nat K))
                  (fun k => Hinv k) mem []) as Hloop.
    cbv zeta in Hloop. cbn [length app] in Hloop. fold (length mem) in Hloop. rewrite Hmem in Hloop.
    fold cl_of. rewrite Hloop. cbn [bind]. unfold derived. rewrite map_map. reflexivity.
Qed.

(* 3. assigning a labelling that differs from the stored one stores it and re-derives the membership at once;
      assigning the stored labelling again changes nothing *)
Theorem g_point_labels_setter_eq (K : nat) (old new : list nat) (mem : list (list nat)) :
  length mem = K -> Forall (fun l => (l < K)%nat) new ->
  g_point_labels_setter (state_of K old mem) (map Z.of_nat new)
  = Ret (if list_eq_dec Nat.eq_dec new old then state_of K old mem else state_of K new (derived K new)).
Proof.
  intros Hmem Hall. unfold g_point_labels_setter.
  change (ms__point_labels (state_of K old mem)) with (map Z.of_nat old).
  destruct (list_eq_dec Nat.eq_dec new old) as [Heq|Hne].
  - subst new. rewrite py_list_eqb_refl. reflexivity.
  - destruct (py_list_eqb (map Z.of_nat new) (map Z.of_nat old)) eqn:El.
    + apply py_list_eqb_eq, map_of_nat_inj in El. contradiction.
    + cbn [negb].
      change (set_ms__point_labels (state_of K old mem) (map Z.of_nat new)) with (state_of K new mem).
      rewrite g_update_cluster_membership_eq by assumption. reflexivity.
Qed.

Eval vm_compute in g_point_labels_setter (state_of 3 [0;0;0] [[0;1;2];[];[]]) (map Z.of_nat [2;0;2;1;0]).
Eval vm_compute in state_of 3 [2;0;2;1;0] (derived 3 [2;0;2;1;0]).
Eval vm_compute in g_update_cluster_membership (state_of 2 [] [[4;1];[7]]).

Print Assumptions g_member_points_setter_sorted.
Print Assumptions g_update_cluster_membership_eq.
Print Assumptions g_point_labels_setter_eq.
