(* Second tie, skeleton mode: the two public entry points front_end.ticc_labels and front_end.ticc_joint_labels AS TRANSLATED
   from /repo's working tree (Gen/G_front_single.v, Gen/G_front_joint.v, regenerated on every run; every callee an
   uninterpreted oracle that may return anything or raise): which calls are made, in which order, with which arguments, and
   how errors of the stacking step are mapped.  Closed under the global context. *)
From Coq Require Import String ZArith List Bool Lia Arith.
From Ticc Require Import Gen.PyRt Gen.PySkel Gen.G_front_single Gen.G_front_joint.
Import ListNotations.
Local Open Scope string_scope.

Section E.
  Variable V : Type.
  Variable veq : V -> V -> bool.
  Variable getattr : V -> string -> V.
  Variable oracle : list (event V) -> string -> list V -> res V.

  Definition f_args := "arguments.UserArguments(window_size=,num_clusters=,sparsity_weight=,label_switching_cost=,iteration_limit=,min_meaningful_covariance=,num_processors=,min_cluster_size=,biased_covariance=)".
  Definition f_stack := "data_preparation.stack_training_data".
  Definition f_stack_multi := "data_preparation.stack_training_data_multiple_series".
  Definition f_fit := "main_loop.fit_stacked_data".
  Definition f_pad := "data_preparation.pad_missing_labels".
  Definition f_template := "data_preparation.label_switching_cost_template".
  Definition f_split := "_split_combined_result".
  Definition f_sizes := "expr:[len(series) - window_size + 1 for series in data_series]".

  Notation single := (g_ticc_labels V getattr oracle).
  Notation joint := (g_ticc_joint_labels V veq getattr oracle).

  (* ---------------------------------------------------------------- one step of the straight-line code *)

  Lemma bind_call : forall (B : Type) (f : string) (a : list V) (k : V -> M V B) (log : list (event V)),
    mbind (call oracle f a) k log
    = match oracle log f a with
      | Ret v => k v (log ++ [Ev f a])%list
      | Raise e => (Raise e, (log ++ [Ev f a])%list)
      end.
  Proof.
    intros B f a k log. unfold mbind, call.
    destruct (oracle log f a) as [v|e]; reflexivity.
  Qed.

  Lemma bind_try_call : forall (B : Type) (f : string) (a : list V) (exc new : string) (k : V -> M V B)
                               (log : list (event V)),
    mbind (try_map (mbind (call oracle f a) (fun t => mret t)) exc new) k log
    = match oracle log f a with
      | Ret v => k v (log ++ [Ev f a])%list
      | Raise e => (Raise (if String.eqb e exc then new else e), (log ++ [Ev f a])%list)
      end.
  Proof.
    intros B f a exc new k log. unfold mbind, try_map, call, mret.
    destruct (oracle log f a) as [v|e]; [reflexivity|].
    destruct (String.eqb e exc); reflexivity.
  Qed.

  Lemma snoc2 : forall (A : Type) (l : list A) (a : A) (t : list A), ((l ++ [a]) ++ t = l ++ a :: t)%list.
  Proof. intros A l a t. rewrite <- app_assoc. reflexivity. Qed.

  Lemma ret_inj : forall (A L : Type) (a b : A) (l1 l2 : L), (Ret a, l1) = (Ret b, l2) -> a = b /\ l1 = l2.
  Proof. intros A L a b l1 l2 H. inversion H. split; reflexivity. Qed.

  (* ---- ticc_labels ---- *)
  (* 1. a call that returns made exactly these five calls, in this order, with this data flow; the value returned is the
        main loop's result with its point_labels replaced by pad_missing_labels(result.point_labels, window_size) *)
  Theorem single_returns (data W K lam beta lim eps procs m biased r : V) (log log' : list (event V)) :
    single data W K lam beta lim eps procs m biased log = (Ret r, log') ->
    exists params stacked res padded,
      log' = (log ++ [Ev f_args [W; K; lam; beta; lim; eps; procs; m; biased];
                      Ev f_stack [data; W];
                      Ev f_fit [params; stacked];
                      Ev f_pad [getattr res "point_labels"; W];
                      Ev "setattr:point_labels" [res; padded]])%list /\
      oracle log f_args [W; K; lam; beta; lim; eps; procs; m; biased] = Ret params /\
      oracle (log ++ [Ev f_args [W; K; lam; beta; lim; eps; procs; m; biased]])%list f_stack [data; W] = Ret stacked.
  Proof.
    intros Hrun.
    unfold g_ticc_labels in Hrun.
    fold f_args f_stack f_fit f_pad in Hrun.
    rewrite bind_call in Hrun.
    destruct (oracle log f_args [W; K; lam; beta; lim; eps; procs; m; biased]) as [params|e1] eqn:Hargs;
      [|discriminate Hrun].
    rewrite bind_try_call in Hrun.
    destruct (oracle (log ++ [Ev f_args [W; K; lam; beta; lim; eps; procs; m; biased]])%list f_stack [data; W])
      as [stacked|e2] eqn:Hstack; [|discriminate Hrun].
    rewrite bind_call in Hrun.
    destruct (oracle ((log ++ [Ev f_args [W; K; lam; beta; lim; eps; procs; m; biased]]) ++ [Ev f_stack [data; W]])%list
                     f_fit [params; stacked]) as [res|e3] eqn:Hfit; [|discriminate Hrun].
    rewrite bind_call in Hrun.
    match type of Hrun with
    | match ?o with _ => _ end = _ => destruct o as [padded|e4] eqn:Hpad; [|discriminate Hrun]
    end.
    rewrite bind_call in Hrun.
    match type of Hrun with
    | match ?o with _ => _ end = _ => destruct o as [r'|e5] eqn:Hset; [|discriminate Hrun]
    end.
    unfold mret in Hrun. apply ret_inj in Hrun. destruct Hrun as [_ Hlog].
    exists params, stacked, res, padded.
    split; [|split; reflexivity].
    rewrite <- Hlog. rewrite !snoc2. reflexivity.
  Qed.

  (* 2. the other front end's kind of input: when the stacking step raises AttributeError the call raises TypeError,
        and the main loop is never entered *)
  Theorem single_wrong_input (data W K lam beta lim eps procs m biased params : V) (log : list (event V)) :
    oracle log f_args [W; K; lam; beta; lim; eps; procs; m; biased] = Ret params ->
    oracle (log ++ [Ev f_args [W; K; lam; beta; lim; eps; procs; m; biased]])%list f_stack [data; W] = Raise "AttributeError" ->
    single data W K lam beta lim eps procs m biased log
    = (Raise "TypeError", (log ++ [Ev f_args [W; K; lam; beta; lim; eps; procs; m; biased]; Ev f_stack [data; W]])%list).
  Proof.
    intros Hargs Hstack.
    unfold g_ticc_labels.
    fold f_args f_stack f_fit f_pad.
    rewrite bind_call. rewrite Hargs.
    rewrite bind_try_call. rewrite Hstack.
    rewrite snoc2. reflexivity.
  Qed.

  (* 3. any other exception of any callee surfaces unchanged and no result is returned: the outcome is never (Ret _) unless
        every one of the five calls returned (immediate from 1); stated as: a raising main loop makes the call raise the same *)
  Theorem single_fit_error_propagates (data W K lam beta lim eps procs m biased params stacked : V) (e : string) (log : list (event V)) :
    oracle log f_args [W; K; lam; beta; lim; eps; procs; m; biased] = Ret params ->
    oracle (log ++ [Ev f_args [W; K; lam; beta; lim; eps; procs; m; biased]])%list f_stack [data; W] = Ret stacked ->
    oracle (log ++ [Ev f_args [W; K; lam; beta; lim; eps; procs; m; biased]; Ev f_stack [data; W]])%list f_fit [params; stacked] = Raise e ->
    fst (single data W K lam beta lim eps procs m biased log) = Raise e.
  Proof.
    intros Hargs Hstack Hfit.
    unfold g_ticc_labels.
    fold f_args f_stack f_fit f_pad.
    rewrite bind_call. rewrite Hargs.
    rewrite bind_try_call. rewrite Hstack.
    rewrite bind_call. rewrite snoc2. rewrite Hfit.
    reflexivity.
  Qed.

  (* ---- ticc_joint_labels ---- *)
  (* 4. a call that returns made exactly these calls in this order; the main loop receives the argument bundle built from the
        caller's OWN switching cost `beta` (the bundle is built before the mask is applied), and the masked product is used
        only in the length assertion: it is not an argument of any call (this is the source-level form of the known finding
        C07 joint-unmasked-beta) *)
  Theorem joint_returns (data W K lam beta lim eps procs m biased r : V) (log log' : list (event V)) :
    joint data W K lam beta lim eps procs m biased log = (Ret r, log') ->
    exists lst combined sizes args template masked total master,
      log' = (log ++ [Ev "list" [data];
                      Ev f_stack_multi [lst; W];
                      Ev f_sizes [lst; W];
                      Ev f_args [W; K; lam; beta; lim; eps; procs; m; biased];
                      Ev f_template [sizes];
                      Ev "op:*" [beta; template];
                      Ev "sum" [sizes];
                      Ev f_fit [args; combined];
                      Ev f_split [master; sizes; lst]])%list /\
      oracle (log ++ [Ev "list" [data]; Ev f_stack_multi [lst; W]; Ev f_sizes [lst; W]])%list
             f_args [W; K; lam; beta; lim; eps; procs; m; biased] = Ret args /\
      oracle (log ++ [Ev "list" [data]; Ev f_stack_multi [lst; W]; Ev f_sizes [lst; W];
                      Ev f_args [W; K; lam; beta; lim; eps; procs; m; biased]; Ev f_template [sizes]])%list
             "op:*" [beta; template] = Ret masked /\
      veq (getattr (getattr masked "shape") "[0]") total = true.
  Proof.
    intros Hrun.
    unfold g_ticc_joint_labels in Hrun.
    fold f_args f_stack_multi f_fit f_template f_split f_sizes in Hrun.
    rewrite bind_call in Hrun.
    destruct (oracle log "list" [data]) as [lst|e1] eqn:Hlist; [|discriminate Hrun].
    rewrite bind_try_call in Hrun.
    match type of Hrun with
    | match ?o with _ => _ end = _ => destruct o as [combined|e2] eqn:Hstack; [|discriminate Hrun]
    end.
    rewrite bind_call in Hrun.
    match type of Hrun with
    | match ?o with _ => _ end = _ => destruct o as [sizes|e3] eqn:Hsizes; [|discriminate Hrun]
    end.
    rewrite bind_call in Hrun.
    match type of Hrun with
    | match ?o with _ => _ end = _ => destruct o as [args|e4] eqn:Hargs; [|discriminate Hrun]
    end.
    rewrite bind_call in Hrun.
    match type of Hrun with
    | match ?o with _ => _ end = _ => destruct o as [template|e5] eqn:Htemplate; [|discriminate Hrun]
    end.
    rewrite bind_call in Hrun.
    match type of Hrun with
    | match ?o with _ => _ end = _ => destruct o as [masked|e6] eqn:Hmasked; [|discriminate Hrun]
    end.
    rewrite bind_call in Hrun.
    match type of Hrun with
    | match ?o with _ => _ end = _ => destruct o as [total|e7] eqn:Htotal; [|discriminate Hrun]
    end.
    destruct (veq (getattr (getattr masked "shape") "[0]") total) eqn:Hassert; [|discriminate Hrun].
    rewrite bind_call in Hrun.
    match type of Hrun with
    | match ?o with _ => _ end = _ => destruct o as [master|e8] eqn:Hfit; [|discriminate Hrun]
    end.
    rewrite bind_call in Hrun.
    match type of Hrun with
    | match ?o with _ => _ end = _ => destruct o as [r'|e9] eqn:Hsplit; [|discriminate Hrun]
    end.
    unfold mret in Hrun. apply ret_inj in Hrun. destruct Hrun as [_ Hlog].
    exists lst, combined, sizes, args, template, masked, total, master.
    rewrite !snoc2 in Hargs. rewrite !snoc2 in Hmasked.
    split; [|split; [exact Hargs|split; [exact Hmasked|exact Hassert]]].
    rewrite <- Hlog. rewrite !snoc2. reflexivity.
  Qed.

  (* 5. the other front end's kind of input: IndexError from the stacking step becomes TypeError; nothing else is called *)
  Theorem joint_wrong_input (data W K lam beta lim eps procs m biased lst : V) (log : list (event V)) :
    oracle log "list" [data] = Ret lst ->
    oracle (log ++ [Ev "list" [data]])%list f_stack_multi [lst; W] = Raise "IndexError" ->
    joint data W K lam beta lim eps procs m biased log
    = (Raise "TypeError", (log ++ [Ev "list" [data]; Ev f_stack_multi [lst; W]])%list).
  Proof.
    intros Hlist Hstack.
    unfold g_ticc_joint_labels.
    rewrite bind_call. fold f_stack_multi. rewrite Hlist.
    rewrite bind_try_call. rewrite Hstack.
    rewrite snoc2. reflexivity.
  Qed.
End E.

Print Assumptions single_returns.
Print Assumptions single_wrong_input.
Print Assumptions single_fit_error_propagates.
Print Assumptions joint_returns.
Print Assumptions joint_wrong_input.
