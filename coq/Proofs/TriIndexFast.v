(* An evaluation-friendly form of reinflate (closed-form index instead of a
   search through the enumeration), proved equal to the model's definition.
   The correspondence evaluates this form. *)
From Coq Require Import List Arith Lia Bool.
Import ListNotations.
From Ticc Require Import Model.TriIndex Proofs.TriIndexP.

Section Fast.
  Context {A : Type} (zero : A) (add sub : A -> A -> A).

  Definition upper_fast (n : nat) (v : list A) (r c : nat) : A :=
    if (Nat.leb r c && Nat.ltb c n)%bool then nth (tri_index n r c) v zero else zero.

  Lemma upper_fast_eq n v r c : upper zero n v r c = upper_fast n v r c.
  Proof.
    unfold upper, upper_fast.
    destruct (Nat.leb_spec r c) as [Hrc|Hrc]; destruct (Nat.ltb_spec c n) as [Hcn|Hcn]; cbn [andb].
    - rewrite find_pos_tri_index by lia. reflexivity.
    - rewrite find_pos_outside by lia. reflexivity.
    - rewrite find_pos_outside by lia. reflexivity.
    - rewrite find_pos_outside by lia. reflexivity.
  Qed.

  Definition reinflate_fast (v : list A) : nat -> nat -> A :=
    upper_to_full zero add sub (upper_fast (full_matrix_size (length v)) v).

  Lemma reinflate_fast_eq v r c : reinflate zero add sub v r c = reinflate_fast v r c.
  Proof. unfold reinflate, reinflate_fast, upper_to_full. rewrite !upper_fast_eq. reflexivity. Qed.

  Lemma matrix_rows_reinflate_fast n v :
    matrix_rows n (reinflate zero add sub v) = matrix_rows n (reinflate_fast v).
  Proof.
    unfold matrix_rows. apply map_ext. intros r. apply map_ext. intros c. apply reinflate_fast_eq.
  Qed.
End Fast.

(* binary arithmetic versions (the nat definitions compute in unary) *)
From Coq Require Import NArith ZArith.
Ltac Zify.zify_post_hook ::= Z.to_euclidean_division_equations.

Definition tri_indexN (n r c : N) : N := (n * (r + 1) - r * (r + 1) / 2 - ((n - 1 - c) + 1))%N.

Lemma tri_indexN_eq n r c :
  N.of_nat (tri_index n r c) = tri_indexN (N.of_nat n) (N.of_nat r) (N.of_nat c).
Proof.
  unfold tri_index, size_including_row, elements_after, tri_indexN.
  rewrite !Nat2N.inj_sub, !Nat2N.inj_add, !Nat2N.inj_mul, Nat2N.inj_div, !Nat2N.inj_mul, !Nat2N.inj_add, !Nat2N.inj_sub.
  reflexivity.
Qed.

Definition locations_compressedN (b r c n w : nat) : list N :=
  map (fun RC => tri_indexN (N.of_nat (n * w)) (N.of_nat (fst RC)) (N.of_nat (snd RC))) (class_positions b r c n w).

Lemma locations_compressedN_eq b r c n w :
  map N.of_nat (locations_compressed b r c n w) = locations_compressedN b r c n w.
Proof.
  unfold locations_compressed, locations_compressedN. rewrite map_map. apply map_ext.
  intros RC. apply tri_indexN_eq.
Qed.
