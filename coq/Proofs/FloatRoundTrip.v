(** C11 (float level): re-inflating a compressed upper triangle as
    (U + U^T) - diag(U) in binary64 is the identity on every entry.

    An off-diagonal entry x is computed as (x + 0) - 0 or (0 + x) - 0, a
    diagonal entry d as (d + d) - d.  All statements are about Coq's primitive
    floats (binary64, round to nearest even), with Leibniz equality; NaN is a
    single value at this level.  The only exception is the negative zero,
    which comes back as +0 (see the Examples). *)

From Coq Require Import ZArith Reals Lia Lra.
From Flocq Require Import Core BinarySingleNaN PrimFloat.
From Coq Require Import Floats.
(* [float] is the primitive type from here on (Flocq's record of the same
   name is not used by name below). *)
Local Notation float := PrimFloat.float.

Local Open Scope float_scope.

(* ------------------------------------------------------------------ *)
(** * Off-diagonal entries: (x + 0) - 0 and (0 + x) - 0 *)

(** These two are proved from the specification of the primitive operations
    alone ([add_spec], [sub_spec] of the standard library): adding or
    subtracting +0 is decided in [SFadd]/[SFsub] before any rounding, so no
    real number is involved. *)

Lemma Prim2SF_zero : Prim2SF 0 = S754_zero false.
Proof. reflexivity. Qed.

Lemma Prim2SF_neg_zero_inv :
  forall x, Prim2SF x = S754_zero true -> x = (-0)%float.
Proof.
intros x H.
apply Prim2SF_inj.
now rewrite H.
Qed.

Theorem add_zero_sub_zero : forall x : float,
  x <> (-0)%float -> ((x + 0) - 0)%float = x.
Proof.
intros x Hx.
apply Prim2SF_inj.
rewrite sub_spec, add_spec, Prim2SF_zero.
generalize (Prim2SF_neg_zero_inv x).
destruct (Prim2SF x) as [[|]| [|] | |s m e] ; intros H0 ; try reflexivity.
now elim Hx ; apply H0.
Qed.

Theorem zero_add_sub_zero : forall x : float,
  x <> (-0)%float -> ((0 + x) - 0)%float = x.
Proof.
intros x Hx.
apply Prim2SF_inj.
rewrite sub_spec, add_spec, Prim2SF_zero.
generalize (Prim2SF_neg_zero_inv x).
destruct (Prim2SF x) as [[|]| [|] | |s m e] ; intros H0 ; try reflexivity.
now elim Hx ; apply H0.
Qed.

(** The one exception: the negative zero comes back as the positive zero. *)
Example neg_zero_becomes_pos_zero : ((-0 + 0) - 0)%float = 0%float.
Proof. reflexivity. Qed.

Example neg_zero_becomes_pos_zero' : ((0 + -0) - 0)%float = 0%float.
Proof. reflexivity. Qed.

(** ... and +0 and -0 are different values for Leibniz equality. *)
Example pos_zero_is_not_neg_zero : 0%float <> (-0)%float.
Proof.
intros H.
generalize (f_equal Prim2SF H).
now vm_compute.
Qed.

(* ------------------------------------------------------------------ *)
(** * Diagonal entries: (d + d) - d *)

Lemma Prim2B_neg_zero_inv :
  forall x, Prim2B x = B754_zero true -> x = (-0)%float.
Proof.
intros x H.
rewrite <- (B2Prim_Prim2B x), H.
symmetry. exact neg_zero_equiv.
Qed.

Local Notation fexp64 := (FLT_exp (3 - emax - prec) prec).

(** Doubling stays in the format (FLT: also for subnormal numbers). *)
Lemma generic_format_double :
  forall x : R,
  generic_format radix2 fexp64 x ->
  generic_format radix2 fexp64 (x + x).
Proof.
intros x Fx.
replace (x + x)%R with (x * bpow radix2 1)%R by (simpl ; lra).
destruct (Req_dec x 0) as [Zx|Zx].
{ rewrite Zx, Rmult_0_l. apply generic_format_0. }
assert (H : (x * bpow radix2 1)%R =
  F2R (Float radix2 (Ztrunc (scaled_mantissa radix2 fexp64 x)) (cexp radix2 fexp64 x + 1))).
{ rewrite Fx at 1.
  unfold F2R. simpl Fnum. simpl Fexp.
  rewrite bpow_plus. ring. }
rewrite H.
apply generic_format_F2R.
intros _.
rewrite <- H.
unfold cexp.
rewrite mag_mult_bpow by exact Zx.
unfold FLT_exp.
lia.
Qed.

Lemma B2R_two_pow_1023 : B2R (Prim2B 0x1p+1023) = bpow radix2 1023.
Proof.
unfold Prim2B.
rewrite B2R_SF2B.
replace (Prim2SF 0x1p+1023) with (S754_finite false 4503599627370496 971)
  by (vm_compute ; reflexivity).
simpl SF2R.
change 4503599627370496%Z with (1 * Zpower radix2 (1023 - 971))%Z.
rewrite <- F2R_change_exp by lia.
apply F2R_bpow.
Qed.

Theorem double_sub_self : forall d : float,
  PrimFloat.is_finite d = true ->
  PrimFloat.ltb (PrimFloat.abs d) 0x1p+1023%float = true ->
  ((d + d) - d)%float = d \/ d = (-0)%float.
Proof.
intros d Fd Bd.
rewrite is_finite_equiv in Fd.
rewrite ltb_equiv, abs_equiv in Bd.
rewrite Bltb_correct in Bd ; [ | now rewrite is_finite_Babs | reflexivity ].
rewrite B2R_Babs, B2R_two_pow_1023 in Bd.
revert Bd. case Rlt_bool_spec ; [ intros Bd _ | discriminate ].
cut (Prim2B ((d + d) - d) = Prim2B d \/ d = (-0)%float).
{ intros [H|H] ; [ left ; now apply Prim2B_inj | now right ]. }
rewrite sub_equiv, add_equiv.
generalize (Prim2B_neg_zero_inv d).
generalize (generic_format_B2R prec emax (Prim2B d)).
generalize (abs_B2R_lt_emax prec emax (Prim2B d)).
destruct (Prim2B d) as [[|]|s| |s m e Hme] ; try discriminate Fd ; intros Md Gd H0.
- right. now apply H0.
- left. reflexivity.
- left. clear H0.
  set (x := B754_finite s m e Hme) in *.
  (* the sign of the real value follows the sign bit *)
  assert (Sx : Rcompare (B2R x) 0 = if s then Lt else Gt).
  { unfold x. simpl B2R.
    rewrite <- (F2R_0 radix2 e), Rcompare_F2R.
    now destruct s. }
  (* d + d = 2 d, exactly *)
  assert (G2 := generic_format_double _ Gd).
  generalize (Bplus_correct prec emax Hprec Hmax mode_NE x x Fd Fd).
  rewrite round_generic by (try apply valid_rnd_N ; exact G2).
  rewrite Rlt_bool_true.
  2:{ replace (B2R x + B2R x)%R with (2 * B2R x)%R by ring.
      rewrite Rabs_mult, (Rabs_pos_eq 2) by lra.
      change (bpow radix2 emax) with (bpow radix2 (1 + 1023)).
      rewrite bpow_plus. simpl (bpow radix2 1).
      lra. }
  intros [Rp [Fp Sp]].
  (* (d + d) - d = d, exactly *)
  generalize (Bminus_correct prec emax Hprec Hmax mode_NE _ x Fp Fd).
  rewrite Rp.
  replace (B2R x + B2R x - B2R x)%R with (B2R x) by ring.
  rewrite round_generic by (try apply valid_rnd_N ; exact Gd).
  rewrite Rlt_bool_true by exact Md.
  intros [Rm [Fm Sm]].
  apply B2R_Bsign_inj ; try assumption.
  rewrite Sm, Sx.
  unfold x. simpl Bsign.
  now destruct s.
Qed.

(** For the negative zero the result is again the positive zero, so the
    second disjunct of [double_sub_self] is needed. *)
Example double_sub_self_neg_zero : ((-0 + -0) - -0)%float = 0%float.
Proof. reflexivity. Qed.

Example double_sub_self_pos_zero : ((0 + 0) - 0)%float = 0%float.
Proof. reflexivity. Qed.

(** The bound on |d| is needed: the largest finite number overflows. *)
Example double_sub_self_overflow :
  ((0x1.fffffffffffffp+1023 + 0x1.fffffffffffffp+1023) - 0x1.fffffffffffffp+1023)%float
  = infinity.
Proof. reflexivity. Qed.

Print Assumptions add_zero_sub_zero.
Print Assumptions zero_add_sub_zero.
Print Assumptions double_sub_self.
