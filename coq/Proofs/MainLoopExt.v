(* The main loop depends on its phase functions only through their values (no function
   extensionality needed): used for "results do not depend on the completion order of the
   optimisation tasks" (C14). *)
From Coq Require Import List Arith Permutation.
Import ListNotations.
From Ticc Require Import Model.MainLoop Model.Sched Proofs.SchedP.

Section Ext.
  Context {M C : Type}.
  Variables (repopF : list nat -> option (list nat)) (fit1 fit2 : list nat -> option M) (labelF : M -> list nat * C).
  Hypothesis fit_eq : forall l, fit1 l = fit2 l.

  Lemma loop_ext n : forall i prev cur acc,
    loop repopF fit1 labelF n i prev cur acc = loop repopF fit2 labelF n i prev cur acc.
  Proof.
    induction n as [|n IH]; intros i prev cur acc; cbn [loop]; [reflexivity|].
    destruct (if Nat.eqb i 0 then Some cur else repopF cur) as [l1|]; [|reflexivity].
    rewrite fit_eq. destruct (fit2 l1) as [m|]; [|reflexivity].
    destruct (labelF m) as [l2 c].
    destruct (match prev with Some p => State.list_eqb p l2 | None => false end); [reflexivity|apply IH].
  Qed.

  Lemma run_ext limit init : run repopF fit1 labelF limit init = run repopF fit2 labelF limit init.
  Proof. unfold run. destruct (Nat.eqb limit 0); [reflexivity|]. f_equal. apply loop_ext. Qed.
End Ext.

(* fitting K clusters through a pool: the per-cluster optimiser [opt] applied to the per-cluster
   arguments [args_of labels], tasks completed in the order [sched labels], results gathered by index *)
Section PoolFit.
  Context {Arg Res C : Type}.
  Variables (opt : Arg -> Res) (args_of : list nat -> list Arg) (d : Arg).
  Definition fit_with (sched : list nat -> list nat) (labels : list nat) : option (list (option Res)) :=
    Some (run_pool opt (args_of labels) (sched labels) d).

  Theorem run_schedule_independent (repopF : list nat -> option (list nat))
          (labelF : list (option Res) -> list nat * C) (sched1 sched2 : list nat -> list nat) limit init :
    (forall l, Permutation (sched1 l) (seq 0 (length (args_of l)))) ->
    (forall l, Permutation (sched2 l) (seq 0 (length (args_of l)))) ->
    run repopF (fit_with sched1) labelF limit init = run repopF (fit_with sched2) labelF limit init.
  Proof.
    intros H1 H2. apply run_ext. intros l. unfold fit_with. f_equal.
    apply gather_any_two_schedules; [apply H1|apply H2].
  Qed.
End PoolFit.
