(* Proofs about Model/TriIndex.v: upper-triangle compressed storage and
   block-Toeplitz class position lists.  All statements are for unbounded
   sizes. *)
From Coq Require Import List Arith Lia Permutation Bool ZArith.
From Ticc Require Import Model.TriIndex.
Import ListNotations.
Ltac Zify.zify_post_hook ::= Z.to_euclidean_division_equations.

(* ------------------------------------------------------------------ *)
(* Generic list helpers                                                *)
(* ------------------------------------------------------------------ *)

Lemma NoDup_map_inj_in {A B} (f : A -> B) (l : list A) :
  (forall x y, In x l -> In y l -> f x = f y -> x = y) ->
  NoDup l -> NoDup (map f l).
Proof.
  intros Hinj Hnd. induction Hnd as [|a l Hnotin Hnd IH]; cbn [map].
  - constructor.
  - constructor.
    + intros Hin. apply in_map_iff in Hin. destruct Hin as [y [Hfy Hy]].
      assert (Hya : y = a).
      { apply Hinj; [right; exact Hy | left; reflexivity | exact Hfy]. }
      subst y. contradiction.
    + apply IH. intros x y Hx Hy Hxy. apply Hinj; [right; exact Hx | right; exact Hy | exact Hxy].
Qed.

Lemma NoDup_app_intro {A} (l1 l2 : list A) :
  NoDup l1 -> NoDup l2 -> (forall x, In x l1 -> In x l2 -> False) -> NoDup (l1 ++ l2).
Proof.
  intros H1 H2 Hdis. induction H1 as [|a l1 Hnotin H1 IH]; cbn [app].
  - exact H2.
  - constructor.
    + intros Hin. apply in_app_or in Hin. destruct Hin as [Hin|Hin].
      * contradiction.
      * apply (Hdis a); [left; reflexivity | exact Hin].
    + apply IH. intros x Hx1 Hx2. apply (Hdis x); [right; exact Hx1 | exact Hx2].
Qed.

Lemma NoDup_flat_map_intro {A B} (f : A -> list B) (l : list A) :
  NoDup l ->
  (forall x, In x l -> NoDup (f x)) ->
  (forall x y z, In x l -> In y l -> In z (f x) -> In z (f y) -> x = y) ->
  NoDup (flat_map f l).
Proof.
  intros Hnd. induction Hnd as [|a l Hnotin Hnd IH]; intros Hf Hdis; cbn [flat_map].
  - constructor.
  - apply NoDup_app_intro.
    + apply Hf. left; reflexivity.
    + apply IH.
      * intros x Hx. apply Hf. right; exact Hx.
      * intros x y z Hx Hy Hzx Hzy. apply (Hdis x y z); [right; exact Hx | right; exact Hy | exact Hzx | exact Hzy].
    + intros z Hza Hzl. apply in_flat_map in Hzl. destruct Hzl as [y [Hy Hzy]].
      assert (Hay : a = y).
      { apply (Hdis a y z); [left; reflexivity | right; exact Hy | exact Hza | exact Hzy]. }
      subst y. contradiction.
Qed.

Lemma nth_map_lt {A B} (f : A -> B) (l : list A) (k : nat) (d : B) (d' : A) :
  k < length l -> nth k (map f l) d = f (nth k l d').
Proof.
  intros Hk. rewrite (nth_indep (map f l) d (f d')).
  - apply map_nth.
  - rewrite map_length. exact Hk.
Qed.

Lemma nth_flat_map_mid {A B} (f : A -> list B) (l1 l2 : list A) (x : A) (k : nat) (d : B) :
  k < length (f x) ->
  nth (length (flat_map f l1) + k) (flat_map f (l1 ++ x :: l2)) d = nth k (f x) d.
Proof.
  intros Hk. rewrite flat_map_app. rewrite app_nth2_plus. cbn [flat_map].
  apply app_nth1. exact Hk.
Qed.

Lemma seq_split_at (n r : nat) : r < n -> seq 0 n = seq 0 r ++ r :: seq (S r) (n - S r).
Proof.
  intros Hr. replace n with (r + S (n - S r)) at 1 by lia.
  rewrite seq_app. cbn [seq plus]. reflexivity.
Qed.

Lemma combine_fst_snd {A B} (l : list (A * B)) : combine (map fst l) (map snd l) = l.
Proof.
  induction l as [|[a b] l IH]; cbn [map combine fst snd].
  - reflexivity.
  - rewrite IH. reflexivity.
Qed.

(* ------------------------------------------------------------------ *)
(* triu                                                                *)
(* ------------------------------------------------------------------ *)

Definition row (n r : nat) : list (nat * nat) := map (fun c => (r, c)) (seq r (n - r)).

Lemma triu_rows n : triu n = flat_map (row n) (seq 0 n).
Proof. reflexivity. Qed.

Lemma row_In n r R C : In (R, C) (row n r) <-> R = r /\ r <= C < n.
Proof.
  unfold row. rewrite in_map_iff. split.
  - intros [c [Heq Hin]]. apply in_seq in Hin. inversion Heq; subst. lia.
  - intros [HR HC]. exists C. split; [subst; reflexivity | apply in_seq; lia].
Qed.

Lemma row_length n r : length (row n r) = n - r.
Proof. unfold row. rewrite map_length, seq_length. reflexivity. Qed.

Lemma row_NoDup n r : NoDup (row n r).
Proof.
  unfold row. apply NoDup_map_inj_in.
  - intros x y _ _ Heq. inversion Heq. reflexivity.
  - apply seq_NoDup.
Qed.

Lemma triu_In n r c : In (r, c) (triu n) <-> r <= c < n.
Proof.
  rewrite triu_rows, in_flat_map. split.
  - intros [x [Hx Hin]]. apply row_In in Hin. lia.
  - intros H. exists r. split; [apply in_seq; lia | apply row_In; lia].
Qed.

Lemma triu_NoDup n : NoDup (triu n).
Proof.
  rewrite triu_rows. apply NoDup_flat_map_intro.
  - apply seq_NoDup.
  - intros x _. apply row_NoDup.
  - intros x y [R C] _ _ Hx Hy. apply row_In in Hx. apply row_In in Hy. lia.
Qed.

(* length of rows 0 .. r-1 *)
Definition row_start (n r : nat) : nat := length (flat_map (row n) (seq 0 r)).

Lemma row_start_S n r : row_start n (S r) = row_start n r + (n - r).
Proof.
  unfold row_start. rewrite seq_S, flat_map_app, app_length. cbn [flat_map plus].
  rewrite app_nil_r, row_length. reflexivity.
Qed.

Lemma row_start_0 n : row_start n 0 = 0.
Proof. reflexivity. Qed.

Lemma row_start_closed n r : r <= n -> 2 * row_start n r + r * r = 2 * r * n + r.
Proof.
  induction r as [|r IH]; intros Hr.
  - rewrite row_start_0. lia.
  - rewrite row_start_S. assert (IH' := IH ltac:(lia)). nia.
Qed.

Lemma row_start_mono n r r' : r <= r' -> row_start n r <= row_start n r'.
Proof.
  intros H. induction H as [|r' H IH].
  - lia.
  - rewrite row_start_S. lia.
Qed.

Lemma triu_length_row_start n : length (triu n) = row_start n n.
Proof. reflexivity. Qed.

Lemma triu_length_double n : 2 * length (triu n) = n * (n + 1).
Proof.
  rewrite triu_length_row_start. assert (H := row_start_closed n n ltac:(lia)). nia.
Qed.

Lemma triu_length n : length (triu n) = n * (n + 1) / 2.
Proof.
  assert (H := triu_length_double n).
  rewrite <- H. rewrite Nat.mul_comm. rewrite Nat.div_mul; lia.
Qed.

Lemma tri_index_row_start n r c : r <= c -> c < n -> tri_index n r c = row_start n r + (c - r).
Proof.
  intros Hrc Hcn.
  assert (H := row_start_closed n r ltac:(lia)).
  unfold tri_index, size_including_row, elements_after.
  assert (Hev : r * (r + 1) = 2 * (r * n + r - row_start n r)) by nia.
  rewrite Hev. rewrite Nat.mul_comm with (n := 2). rewrite Nat.div_mul by lia.
  nia.
Qed.

Lemma tri_index_is_rank n r c : r <= c -> c < n ->
  nth (tri_index n r c) (triu n) (0, 0) = (r, c) /\ tri_index n r c < n * (n + 1) / 2.
Proof.
  intros Hrc Hcn. rewrite (tri_index_row_start n r c Hrc Hcn). split.
  - rewrite triu_rows. rewrite (seq_split_at n r) by lia.
    unfold row_start. rewrite nth_flat_map_mid by (rewrite row_length; lia).
    unfold row. rewrite (nth_map_lt _ _ _ _ 0) by (rewrite seq_length; lia).
    rewrite seq_nth by lia. f_equal. lia.
  - rewrite <- triu_length, triu_length_row_start.
    assert (H1 := row_start_mono n (S r) n ltac:(lia)).
    rewrite row_start_S in H1. lia.
Qed.

Lemma tri_index_inj n r c r' c' : r <= c < n -> r' <= c' < n ->
  tri_index n r c = tri_index n r' c' -> r = r' /\ c = c'.
Proof.
  intros [H1 H2] [H1' H2'] Heq.
  destruct (tri_index_is_rank n r c H1 H2) as [Hn _].
  destruct (tri_index_is_rank n r' c' H1' H2') as [Hn' _].
  rewrite Heq in Hn. rewrite Hn in Hn'. inversion Hn'. split; reflexivity.
Qed.

Lemma tri_index_surj n k : k < n * (n + 1) / 2 -> exists r c, r <= c < n /\ tri_index n r c = k.
Proof.
  intros Hk. rewrite <- triu_length in Hk.
  destruct (nth k (triu n) (0, 0)) as [r c] eqn:Hnth.
  assert (Hin : In (r, c) (triu n)).
  { rewrite <- Hnth. apply nth_In. exact Hk. }
  apply triu_In in Hin. exists r, c. split; [exact Hin|].
  destruct (tri_index_is_rank n r c ltac:(lia) ltac:(lia)) as [Hn Hlt].
  rewrite <- triu_length in Hlt.
  assert (Hnd := triu_NoDup n).
  rewrite (NoDup_nth (triu n) (0, 0)) in Hnd.
  apply Hnd; [exact Hlt | exact Hk | congruence].
Qed.

(* ------------------------------------------------------------------ *)
(* find_pos                                                            *)
(* ------------------------------------------------------------------ *)

Lemma pair_eqb_true (x y : nat * nat) :
  (Nat.eqb (fst x) (fst y) && Nat.eqb (snd x) (snd y))%bool = true <-> x = y.
Proof.
  destruct x as [a b], y as [a' b']. cbn [fst snd].
  rewrite andb_true_iff, !Nat.eqb_eq. split.
  - intros [-> ->]. reflexivity.
  - intros H. inversion H. split; reflexivity.
Qed.

Lemma find_pos_notin x l s : ~ In x l -> find_pos x l s = None.
Proof.
  revert s. induction l as [|y l IH]; intros s Hnot; cbn [find_pos].
  - reflexivity.
  - destruct (Nat.eqb (fst y) (fst x) && Nat.eqb (snd y) (snd x))%bool eqn:E.
    + apply pair_eqb_true in E. subst y. exfalso. apply Hnot. left; reflexivity.
    + apply IH. intros Hin. apply Hnot. right; exact Hin.
Qed.

Lemma find_pos_nth l d : NoDup l -> forall k s, k < length l ->
  find_pos (nth k l d) l s = Some (s + k).
Proof.
  intros Hnd. induction Hnd as [|y l Hnotin Hnd IH]; intros k s Hk; cbn [length] in Hk.
  - lia.
  - destruct k as [|k]; cbn [nth find_pos].
    + assert (E : (Nat.eqb (fst y) (fst y) && Nat.eqb (snd y) (snd y))%bool = true)
        by (apply pair_eqb_true; reflexivity).
      rewrite E. f_equal. lia.
    + destruct (Nat.eqb (fst y) (fst (nth k l d)) && Nat.eqb (snd y) (snd (nth k l d)))%bool eqn:E.
      * apply pair_eqb_true in E. exfalso. apply Hnotin. rewrite E. apply nth_In. lia.
      * rewrite IH by lia. f_equal. lia.
Qed.

Lemma find_pos_tri_index n r c : r <= c < n -> find_pos (r, c) (triu n) 0 = Some (tri_index n r c).
Proof.
  intros [H1 H2]. destruct (tri_index_is_rank n r c H1 H2) as [Hn Hlt].
  rewrite <- triu_length in Hlt.
  rewrite <- Hn at 1. rewrite (find_pos_nth _ _ (triu_NoDup n)) by exact Hlt.
  reflexivity.
Qed.

Lemma find_pos_outside n r c : ~ (r <= c < n) -> find_pos (r, c) (triu n) 0 = None.
Proof.
  intros H. apply find_pos_notin. rewrite triu_In. exact H.
Qed.

Lemma full_matrix_size_inverse n : full_matrix_size (n * (n + 1) / 2) = n.
Proof.
  unfold full_matrix_size.
  rewrite <- triu_length. assert (H := triu_length_double n).
  replace (8 * length (triu n) + 1) with ((2 * n + 1) * (2 * n + 1)) by nia.
  rewrite Nat.sqrt_square.
  replace (2 * n + 1 - 1) with (n * 2) by lia.
  apply Nat.div_mul. lia.
Qed.

(* ------------------------------------------------------------------ *)
(* compress / reinflate                                                *)
(* ------------------------------------------------------------------ *)

Lemma compress_length {A} n (M : nat -> nat -> A) : length (compress n M) = n * (n + 1) / 2.
Proof. unfold compress. rewrite map_length. apply triu_length. Qed.

Lemma upper_inside {A} (zero : A) n v r c : r <= c < n ->
  upper zero n v r c = nth (tri_index n r c) v zero.
Proof. intros H. unfold upper. rewrite (find_pos_tri_index n r c H). reflexivity. Qed.

Lemma upper_outside {A} (zero : A) n v r c : ~ (r <= c < n) -> upper zero n v r c = zero.
Proof. intros H. unfold upper. rewrite (find_pos_outside n r c H). reflexivity. Qed.

Section Laws.
  Context {A : Type} (zero : A) (add sub : A -> A -> A).
  Hypothesis law_r : forall x, sub (add x zero) zero = x.
  Hypothesis law_l : forall x, sub (add zero x) zero = x.
  Hypothesis law_d : forall x, sub (add x x) x = x.

  (* compress after reinflate is the identity on vectors of triangular length *)
  Lemma compress_reinflate n (v : list A) : length v = n * (n + 1) / 2 ->
    compress n (reinflate zero add sub v) = v.
  Proof.
    intros Hlen. unfold reinflate. rewrite Hlen, full_matrix_size_inverse.
    unfold compress.
    apply (nth_ext _ _ zero zero).
    - rewrite map_length, triu_length. symmetry. exact Hlen.
    - intros k Hk. rewrite map_length in Hk.
      rewrite (nth_map_lt _ _ _ _ (0, 0)) by exact Hk.
      rewrite triu_length in Hk.
      destruct (tri_index_surj n k Hk) as [r [c [Hrc Hti]]].
      destruct (tri_index_is_rank n r c ltac:(lia) ltac:(lia)) as [Hn _].
      rewrite Hti in Hn. rewrite Hn. cbn [fst snd].
      unfold upper_to_full.
      destruct (Nat.eqb r c) eqn:E.
      + apply Nat.eqb_eq in E. subst c.
        rewrite (upper_inside zero n v r r Hrc), Hti. apply law_d.
      + apply Nat.eqb_neq in E.
        rewrite (upper_inside zero n v r c Hrc), Hti.
        rewrite (upper_outside zero n v c r) by lia.
        apply law_r.
  Qed.

  (* reinflate after compress gives back every entry of a symmetric matrix *)
  Lemma reinflate_compress n (M : nat -> nat -> A) :
    (forall r c, r < n -> c < n -> M r c = M c r) ->
    forall r c, r < n -> c < n -> reinflate zero add sub (compress n M) r c = M r c.
  Proof.
    intros Hsym r c Hr Hc. unfold reinflate.
    rewrite compress_length, full_matrix_size_inverse.
    assert (Hup : forall r c, r <= c < n -> upper zero n (compress n M) r c = M r c).
    { intros r0 c0 H0. rewrite (upper_inside zero n _ r0 c0 H0).
      destruct (tri_index_is_rank n r0 c0 ltac:(lia) ltac:(lia)) as [Hn Hlt].
      unfold compress. rewrite <- triu_length in Hlt.
      rewrite (nth_map_lt _ _ _ _ (0, 0)) by exact Hlt.
      rewrite Hn. reflexivity. }
    unfold upper_to_full.
    destruct (Nat.eqb r c) eqn:E.
    - apply Nat.eqb_eq in E. subst c. rewrite (Hup r r) by lia. apply law_d.
    - apply Nat.eqb_neq in E.
      destruct (Nat.lt_ge_cases r c) as [Hlt|Hge].
      + rewrite (Hup r c) by lia. rewrite (upper_outside zero n _ c r) by lia. apply law_r.
      + rewrite (Hup c r) by lia. rewrite (upper_outside zero n _ r c) by lia.
        rewrite law_l. symmetry. apply Hsym; assumption.
  Qed.
End Laws.

Lemma reinflate_symmetric {A} (zero : A) (add sub : A -> A -> A) (v : list A) :
  (forall x y, add x y = add y x) -> forall r c, reinflate zero add sub v r c = reinflate zero add sub v c r.
Proof.
  intros Hcomm r c. unfold reinflate, upper_to_full.
  rewrite (Hcomm (upper zero _ v r c)). rewrite (Nat.eqb_sym r c).
  destruct (Nat.eqb c r) eqn:E.
  - apply Nat.eqb_eq in E. subst c. reflexivity.
  - reflexivity.
Qed.

(* ------------------------------------------------------------------ *)
(* Toeplitz classes                                                    *)
(* ------------------------------------------------------------------ *)

Lemma class_size b r c N W : length (class_positions b r c N W) = W - b.
Proof.
  unfold class_positions, block_starts. rewrite !map_length, seq_length. reflexivity.
Qed.

Lemma class_positions_In b r c N W R C : In (R, C) (class_positions b r c N W) <->
  exists i, i < W - b /\ R = i * N + r /\ C = b * N + i * N + c.
Proof.
  unfold class_positions, block_starts. rewrite map_map. cbn [fst snd].
  rewrite in_map_iff. split.
  - intros [i [Heq Hin]]. apply in_seq in Hin. inversion Heq. exists i. lia.
  - intros [i [Hi [HR HC]]]. exists i. split; [subst; reflexivity | apply in_seq; lia].
Qed.

Lemma classes_In N W b r c : In (b, r, c) (classes N W) <-> b < W /\ r < N /\ c < N /\ (b = 0 -> r <= c).
Proof.
  unfold classes. rewrite in_flat_map. split.
  - intros [b0 [Hb0 Hin]]. apply in_seq in Hb0. apply in_flat_map in Hin.
    destruct Hin as [r0 [Hr0 Hin]]. apply in_seq in Hr0. apply in_map_iff in Hin.
    destruct Hin as [c0 [Heq Hc0]]. apply in_seq in Hc0. inversion Heq; subst b0 r0 c0.
    destruct (Nat.eqb b 0) eqn:E.
    + apply Nat.eqb_eq in E. lia.
    + apply Nat.eqb_neq in E. lia.
  - intros [Hb [Hr [Hc Hb0]]]. exists b. split; [apply in_seq; lia|].
    apply in_flat_map. exists r. split; [apply in_seq; lia|].
    apply in_map_iff. exists c. split; [reflexivity|]. apply in_seq.
    destruct (Nat.eqb b 0) eqn:E.
    + apply Nat.eqb_eq in E. specialize (Hb0 E). lia.
    + lia.
Qed.

(* encode / decode arithmetic *)
Lemma encode_div_mod N i r : r < N -> (i * N + r) / N = i /\ (i * N + r) mod N = r.
Proof.
  intros Hr. split.
  - symmetry. apply (Nat.div_unique _ N i r); lia.
  - symmetry. apply (Nat.mod_unique _ N i r); lia.
Qed.

Lemma encode_inj N i r i' r' : r < N -> r' < N -> i * N + r = i' * N + r' -> i = i' /\ r = r'.
Proof.
  intros Hr Hr' Heq.
  destruct (encode_div_mod N i r Hr) as [Hd Hm].
  destruct (encode_div_mod N i' r' Hr') as [Hd' Hm'].
  rewrite Heq in Hd, Hm. split; congruence.
Qed.

Lemma decode_facts N W R C : 0 < N -> R <= C < N * W ->
  C / N - R / N < W /\ R / N < W - (C / N - R / N) /\
  R = (R / N) * N + R mod N /\
  C = (C / N - R / N) * N + (R / N) * N + C mod N /\
  R mod N < N /\ C mod N < N /\
  (C / N - R / N = 0 -> R mod N <= C mod N).
Proof.
  intros HN [HRC HC].
  assert (HdR := Nat.div_mod R N ltac:(lia)).
  assert (HdC := Nat.div_mod C N ltac:(lia)).
  assert (HmR := Nat.mod_upper_bound R N ltac:(lia)).
  assert (HmC := Nat.mod_upper_bound C N ltac:(lia)).
  assert (Hle : R / N <= C / N) by (apply Nat.div_le_mono; lia).
  assert (Hlt : C / N < W) by (apply Nat.div_lt_upper_bound; lia).
  remember (R / N) as q1 eqn:Eq1. remember (C / N) as q2 eqn:Eq2.
  remember (R mod N) as m1 eqn:Em1. remember (C mod N) as m2 eqn:Em2.
  clear Eq1 Eq2 Em1 Em2.
  assert (Hq : q2 = q1 + (q2 - q1)) by lia.
  remember (q2 - q1) as d eqn:Ed. clear Ed. subst q2.
  repeat split; lia.
Qed.

(* members of a valid class lie in the upper triangle of the N*W matrix *)
Lemma class_member_in_triu N W b r c i :
  b < W -> r < N -> c < N -> (b = 0 -> r <= c) -> i < W - b ->
  i * N + r <= b * N + i * N + c < N * W.
Proof.
  intros Hb Hr Hc Hb0 Hi. split.
  - destruct b as [|b].
    + specialize (Hb0 eq_refl). lia.
    + nia.
  - assert (H : (b + i + 1) * N <= W * N) by (apply Nat.mul_le_mono_r; lia).
    nia.
Qed.

Lemma all_positions_In N W R C :
  In (R, C) (concat (map (positions_of N W) (classes N W))) <->
  exists b r c i, b < W /\ r < N /\ c < N /\ (b = 0 -> r <= c) /\ i < W - b /\
                  R = i * N + r /\ C = b * N + i * N + c.
Proof.
  rewrite in_concat. split.
  - intros [l [Hl Hin]]. apply in_map_iff in Hl. destruct Hl as [[[b r] c] [Hpos Hcl]].
    subst l. cbn [positions_of] in Hin. apply classes_In in Hcl.
    apply class_positions_In in Hin. destruct Hin as [i Hi].
    exists b, r, c, i. tauto.
  - intros [b [r [c [i [Hb [Hr [Hc [Hb0 [Hi [HR HC]]]]]]]]]].
    exists (positions_of N W (b, r, c)). split.
    + apply in_map. apply classes_In. tauto.
    + cbn [positions_of]. apply class_positions_In. exists i. tauto.
Qed.

Lemma all_positions_In_triu N W R C :
  In (R, C) (concat (map (positions_of N W) (classes N W))) <-> In (R, C) (triu (N * W)).
Proof.
  rewrite all_positions_In, triu_In. split.
  - intros [b [r [c [i [Hb [Hr [Hc [Hb0 [Hi [HR HC]]]]]]]]]]. subst R C.
    apply class_member_in_triu; assumption.
  - intros HRC. assert (HN : 0 < N) by nia.
    destruct (decode_facts N W R C HN HRC) as [H1 [H2 [H3 [H4 [H5 [H6 H7]]]]]].
    exists (C / N - R / N), (R mod N), (C mod N), (R / N). tauto.
Qed.

Lemma class_positions_NoDup b r c N W : 0 < N -> NoDup (class_positions b r c N W).
Proof.
  intros HN. unfold class_positions, block_starts. rewrite map_map. cbn [fst snd].
  apply NoDup_map_inj_in; [|apply seq_NoDup].
  intros x y _ _ Heq. inversion Heq as [[H1 H2]]. nia.
Qed.

Lemma classes_NoDup N W : NoDup (classes N W).
Proof.
  unfold classes. apply NoDup_flat_map_intro.
  - apply seq_NoDup.
  - intros b _. apply NoDup_flat_map_intro.
    + apply seq_NoDup.
    + intros r _. apply NoDup_map_inj_in; [|apply seq_NoDup].
      intros x y _ _ Heq. inversion Heq. reflexivity.
    + intros r r' z _ _ Hz Hz'. apply in_map_iff in Hz. apply in_map_iff in Hz'.
      destruct Hz as [c [Hc _]]. destruct Hz' as [c' [Hc' _]]. subst z. inversion Hc'. reflexivity.
  - intros b b' z _ _ Hz Hz'. apply in_flat_map in Hz. apply in_flat_map in Hz'.
    destruct Hz as [r [_ Hz]]. destruct Hz' as [r' [_ Hz']].
    apply in_map_iff in Hz. apply in_map_iff in Hz'.
    destruct Hz as [c [Hc _]]. destruct Hz' as [c' [Hc' _]]. subst z. inversion Hc'. reflexivity.
Qed.

(* a position determines its class *)
Lemma class_of_position_unique N b r c i b' r' c' i' :
  r < N -> c < N -> r' < N -> c' < N ->
  i * N + r = i' * N + r' -> b * N + i * N + c = b' * N + i' * N + c' ->
  b = b' /\ r = r' /\ c = c' /\ i = i'.
Proof.
  intros Hr Hc Hr' Hc' HR HC.
  destruct (encode_inj N i r i' r' Hr Hr' HR) as [Hi Hrr]. subst i' r'.
  assert (HC' : (b + i) * N + c = (b' + i) * N + c') by lia.
  destruct (encode_inj N _ c _ c' Hc Hc' HC') as [Hbi Hcc].
  repeat split; lia.
Qed.

Lemma classes_positions_NoDup N W : NoDup (concat (map (positions_of N W) (classes N W))).
Proof.
  rewrite <- flat_map_concat_map. apply NoDup_flat_map_intro.
  - apply classes_NoDup.
  - intros [[b r] c] Hin. apply classes_In in Hin. cbn [positions_of].
    apply class_positions_NoDup. lia.
  - intros [[b r] c] [[b' r'] c'] [R C] Hin Hin' Hz Hz'.
    apply classes_In in Hin. apply classes_In in Hin'. cbn [positions_of] in Hz, Hz'.
    apply class_positions_In in Hz. apply class_positions_In in Hz'.
    destruct Hz as [i [Hi [HR HC]]]. destruct Hz' as [i' [Hi' [HR' HC']]].
    destruct (class_of_position_unique N b r c i b' r' c' i') as [E1 [E2 [E3 _]]]; try lia.
    subst. reflexivity.
Qed.

Lemma classes_partition N W :
  Permutation (concat (map (positions_of N W) (classes N W))) (triu (N * W)).
Proof.
  apply NoDup_Permutation.
  - apply classes_positions_NoDup.
  - apply triu_NoDup.
  - intros [R C]. apply all_positions_In_triu.
Qed.

(* two upper-triangle positions are in the same class iff same block offset
   and same in-block coordinates *)
Lemma class_toeplitz N W R C R' C' : 0 < N -> R <= C < N * W -> R' <= C' < N * W ->
  ((exists brc, In brc (classes N W) /\ In (R, C) (positions_of N W brc) /\ In (R', C') (positions_of N W brc))
   <-> (C / N - R / N = C' / N - R' / N /\ R mod N = R' mod N /\ C mod N = C' mod N)).
Proof.
  intros HN HRC HRC'. split.
  - intros [[[b r] c] [Hcl [Hin Hin']]]. apply classes_In in Hcl.
    cbn [positions_of] in Hin, Hin'.
    apply class_positions_In in Hin. apply class_positions_In in Hin'.
    destruct Hin as [i [Hi [HR HC]]]. destruct Hin' as [i' [Hi' [HR' HC']]].
    destruct Hcl as [Hb [Hr [Hc Hb0]]].
    destruct (encode_div_mod N i r Hr) as [D1 M1].
    destruct (encode_div_mod N i' r Hr) as [D1' M1'].
    destruct (encode_div_mod N (b + i) c Hc) as [D2 M2].
    destruct (encode_div_mod N (b + i') c Hc) as [D2' M2'].
    replace ((b + i) * N + c) with C in D2, M2 by lia.
    replace ((b + i') * N + c) with C' in D2', M2' by lia.
    rewrite <- HR in D1, M1. rewrite <- HR' in D1', M1'.
    rewrite D1, D1', D2, D2', M1, M1', M2, M2'. lia.
  - intros [Hb [Hr Hc]].
    destruct (decode_facts N W R C HN HRC) as [H1 [H2 [H3 [H4 [H5 [H6 H7]]]]]].
    destruct (decode_facts N W R' C' HN HRC') as [H1' [H2' [H3' [H4' [H5' [H6' H7']]]]]].
    exists (C / N - R / N, R mod N, C mod N). split; [|split].
    + apply classes_In. tauto.
    + cbn [positions_of]. apply class_positions_In. exists (R / N). tauto.
    + cbn [positions_of]. apply class_positions_In. exists (R' / N).
      rewrite Hb, Hr, Hc. tauto.
Qed.

Lemma forms_agree b r c N W :
  locations_compressed b r c N W =
  map (fun RC => tri_index (N * W) (fst RC) (snd RC))
      (combine (fst (locations_slices b r c N W)) (snd (locations_slices b r c N W))).
Proof.
  unfold locations_compressed, locations_slices. cbn [fst snd].
  rewrite combine_fst_snd. reflexivity.
Qed.

Lemma locations_compressed_in_range b r c N W k : b < W -> r < N -> c < N -> (b = 0 -> r <= c) ->
  In k (locations_compressed b r c N W) -> k < (N * W) * (N * W + 1) / 2.
Proof.
  intros Hb Hr Hc Hb0 Hin. unfold locations_compressed in Hin.
  apply in_map_iff in Hin. destruct Hin as [[R C] [Hk Hin]]. cbn [fst snd] in Hk.
  apply class_positions_In in Hin. destruct Hin as [i [Hi [HR HC]]].
  assert (Hrange := class_member_in_triu N W b r c i Hb Hr Hc Hb0 Hi).
  rewrite <- HR, <- HC in Hrange.
  destruct (tri_index_is_rank (N * W) R C ltac:(lia) ltac:(lia)) as [_ Hlt].
  lia.
Qed.

Print Assumptions classes_partition.
Print Assumptions tri_index_is_rank.
