(* Second tie: the two core steps of cluster repopulation, cluster_maintenance._find_point_donor (a `while` loop, translated
   with explicit fuel) and _move_random_points, AS TRANSLATED from /repo's working tree by vcheck/py2coq.py
   (Gen/G_cluster_maintenance.v, regenerated on every run) equal the hand-written model Model/Repop.v (find_donor, move).
   random.sample is an uninterpreted symbol: the theorem holds for whatever list of positions it returns that is a legal
   draw.  Closed under the global context. *)
From Coq Require Import String ZArith List Bool Lia Arith.
From Ticc Require Import Gen.PyRt Gen.G_cluster_maintenance Model.Repop Proofs.RepopP.
Import ListNotations.

(* the model state the helpers see, built from a labelling: cluster k has size (size labels k) and members (members labels k) *)
Definition rp_of (K m : nat) (labels : list nat) : rp_model :=
  mk_rp_model (mk_rp_args (Z.of_nat m))
              (map (fun k => mk_rp_cluster (Z.of_nat (size labels k)) (map Z.of_nat (members labels k))) (seq 0 K))
              (map Z.of_nat labels).

Definition donor_result (r : option (nat * list nat)) : res (Z * list Z) :=
  match r with
  | Some (d, rem') => Ret (Z.of_nat d, map Z.of_nat rem')
  | None => Raise "RuntimeError"%string
  end.


(* ------------------------------------------------------------------ *)
(* run-time library facts (copied from GenEquivSV.v, set_nth form)     *)
(* ------------------------------------------------------------------ *)

Lemma py_getitem_nat {A : Type} (l : list A) (k : nat) (d : A) :
  (k < length l)%nat -> py_getitem l (Z.of_nat k) = Ret (nth k l d).
Proof.
  intros Hk. unfold py_getitem, py_len. cbv zeta.
  assert (E1 : (Z.of_nat k <? 0)%Z = false) by (apply Z.ltb_ge; lia).
  assert (E2 : (Z.of_nat (length l) <=? Z.of_nat k)%Z = false) by (apply Z.leb_gt; lia).
  rewrite E1. cbv iota. rewrite E1, E2. cbn [orb]. rewrite Nat2Z.id, (nth_error_nth' l d Hk). reflexivity.
Qed.

Lemma py_set_index_nat {A : Type} (l : list A) (k : nat) (v : A) :
  (k < length l)%nat -> py_set_index l (Z.of_nat k) v = Ret (set_nth k v l).
Proof.
  intros Hk. unfold py_set_index, py_len. cbv zeta.
  assert (E1 : (Z.of_nat k <? 0)%Z = false) by (apply Z.ltb_ge; lia).
  assert (E2 : (Z.of_nat (length l) <=? Z.of_nat k)%Z = false) by (apply Z.leb_gt; lia).
  rewrite E1. cbv iota. rewrite E1, E2. cbn [orb]. rewrite Nat2Z.id. reflexivity.
Qed.

Lemma py_getitem_0 {A : Type} (x : A) (l : list A) : py_getitem (x :: l) 0%Z = Ret x.
Proof.
  change 0%Z with (Z.of_nat 0). rewrite (py_getitem_nat _ _ x) by (cbn [length]; lia). reflexivity.
Qed.

Lemma py_len_cons_pos {A : Type} (x : A) (l : list A) : (py_len (x :: l) >? 0)%Z = true.
Proof. unfold py_len. cbn [length]. apply Z.gtb_lt. lia. Qed.

Lemma set_nth_length {A : Type} (k : nat) (v : A) (l : list A) : length (set_nth k v l) = length l.
Proof.
  revert k. induction l as [|a l IH]; intros k; destruct k as [|k]; cbn [set_nth length]; try reflexivity.
  now rewrite IH.
Qed.

Lemma set_nth_map {A B : Type} (f : A -> B) (k : nat) (v : A) (l : list A) :
  map f (set_nth k v l) = set_nth k (f v) (map f l).
Proof.
  revert k. induction l as [|a l IH]; intros k; destruct k as [|k]; cbn [set_nth map]; try reflexivity.
  now rewrite IH.
Qed.

Lemma nth_set_nth_eq {A : Type} (k : nat) (v d : A) (l : list A) :
  (k < length l)%nat -> nth k (set_nth k v l) d = v.
Proof.
  revert k. induction l as [|a l IH]; intros k Hk; cbn [length] in Hk; [lia|].
  destruct k as [|k]; cbn [set_nth nth]; [reflexivity|]. apply IH. lia.
Qed.

Lemma nth_set_nth_neq {A : Type} (k q : nat) (v d : A) (l : list A) :
  q <> k -> nth q (set_nth k v l) d = nth q l d.
Proof.
  revert k q. induction l as [|a l IH]; intros k q Hq; [destruct k; reflexivity|].
  destruct k as [|k], q as [|q]; cbn [set_nth nth]; try reflexivity; [contradiction|].
  apply IH. intros E. apply Hq. now rewrite E.
Qed.

Lemma removelast_map {A B : Type} (f : A -> B) (l : list A) : removelast (map f l) = map f (removelast l).
Proof.
  induction l as [|a l IH]; [reflexivity|].
  destruct l as [|b l]; [reflexivity|]. cbn [map removelast] in IH |- *. now rewrite IH.
Qed.

Lemma removelast_cons_length {A : Type} (l : list A) (x : A) : length (removelast (x :: l)) = length l.
Proof.
  revert x. induction l as [|b l IH]; intros x; [reflexivity|].
  change (removelast (x :: b :: l)) with (x :: removelast (b :: l)). cbn [length]. now rewrite IH.
Qed.

Lemma Forall_removelast {A : Type} (P : A -> Prop) (l : list A) : Forall P l -> Forall P (removelast l).
Proof.
  induction l as [|a l IH]; intros H; [constructor|].
  inversion H as [|a' l' Ha Hl]; subst.
  destruct l as [|b l]; [constructor|].
  change (removelast (a :: b :: l)) with (a :: removelast (b :: l)). constructor; [exact Ha|apply IH; exact Hl].
Qed.

(* ------------------------------------------------------------------ *)
(* the model state                                                     *)
(* ------------------------------------------------------------------ *)

Lemma clusters_getitem (K m : nat) (labels : list nat) (d : nat) :
  (d < K)%nat ->
  py_getitem (rm_clusters (rp_of K m labels)) (Z.of_nat d)
  = Ret (mk_rp_cluster (Z.of_nat (size labels d)) (map Z.of_nat (members labels d))).
Proof.
  intros Hd. cbn [rp_of rm_clusters].
  set (f := fun k => mk_rp_cluster (Z.of_nat (size labels k)) (map Z.of_nat (members labels k))).
  rewrite (py_getitem_nat _ _ (f 0%nat)) by (rewrite map_length, seq_length; exact Hd).
  rewrite map_nth, seq_nth by exact Hd. reflexivity.
Qed.

Lemma geb_nat (s m : nat) : (Z.of_nat s >=? 2 * Z.of_nat m)%Z = Nat.leb (2 * m) s.
Proof.
  rewrite Z.geb_leb. destruct (Nat.leb_spec (2 * m) s) as [H|H]; [apply Z.leb_le|apply Z.leb_gt]; lia.
Qed.

Lemma ltb_nat (s m : nat) : (Z.of_nat s <? 3 * Z.of_nat m)%Z = Nat.ltb s (3 * m).
Proof.
  destruct (Nat.ltb_spec s (3 * m)) as [H|H]; [apply Z.ltb_lt|apply Z.ltb_ge]; lia.
Qed.

(* ------------------------------------------------------------------ *)
(* 1. _find_point_donor                                                *)
(* ------------------------------------------------------------------ *)

(* 1. with enough fuel (one more than the number of candidates) the translated donor search is the model's, including the
      RuntimeError when no candidate holds 2m points *)
Theorem g_find_point_donor_eq (K m : nat) (labels rem : list nat) (fuel : nat) :
  Forall (fun d => (d < K)%nat) rem -> (length rem < fuel)%nat ->
  g_find_point_donor fuel (rp_of K m labels) (map Z.of_nat rem)
  = donor_result (find_donor fuel m labels rem).
Proof.
  revert rem. induction fuel as [|f IH]; intros rem HF HL; [inversion HL|].
  destruct rem as [|d rest].
  - reflexivity.
  - inversion HF as [|d' rest' Hd Hrest]; subst d' rest'.
    unfold g_find_point_donor. cbn [py_while map find_donor].
    rewrite py_len_cons_pos. cbn [bind].
    rewrite py_getitem_0. cbn [bind].
    rewrite (clusters_getitem K m labels d Hd). cbn [bind rc_size].
    cbn [rp_of rm_arguments ra_min_cluster_size].
    rewrite geb_nat, ltb_nat.
    destruct (Nat.leb (2 * m) (size labels d)) eqn:E2.
    + destruct (Nat.ltb (size labels d) (3 * m)) eqn:E3; cbn [py_pop_first bind donor_result map]; reflexivity.
    + cbn [py_pop_last bind].
      change (Z.of_nat d :: map Z.of_nat rest) with (map Z.of_nat (d :: rest)).
      rewrite removelast_map.
      apply (IH (removelast (d :: rest))).
      * apply Forall_removelast. exact HF.
      * rewrite removelast_cons_length. cbn [length] in HL. lia.
Qed.

(* ------------------------------------------------------------------ *)
(* 2. _move_random_points                                              *)
(* ------------------------------------------------------------------ *)

(* the model's relabelling of the positions in [ch] *)
Definition relab (recipient : nat) (ch cur : list nat) : list nat :=
  map (fun ip => if existsb (Nat.eqb (fst ip)) ch then recipient else snd ip)
      (combine (seq 0 (length cur)) cur).

Lemma relab_length (r : nat) (ch cur : list nat) : length (relab r ch cur) = length cur.
Proof. unfold relab. rewrite map_length, combine_length, seq_length. apply Nat.min_id. Qed.

Lemma relab_nth (r : nat) (ch cur : list nat) (i : nat) :
  (i < length cur)%nat ->
  nth i (relab r ch cur) 0%nat = if existsb (Nat.eqb i) ch then r else nth i cur 0%nat.
Proof.
  intros Hi. unfold relab.
  set (f := fun ip : nat * nat => if existsb (Nat.eqb (fst ip)) ch then r else snd ip).
  rewrite (nth_indep _ 0%nat (f (0%nat, 0%nat)))
    by (rewrite map_length, combine_length, seq_length, Nat.min_id; exact Hi).
  rewrite map_nth, combine_nth by apply seq_length.
  rewrite seq_nth by exact Hi. reflexivity.
Qed.

(* the body of the relabelling loop, as generated *)
Definition move_body (donor recipient : Z) (new_point_labels : list Z) (point_id : Z) : res (list Z) :=
  t4_ <- py_getitem new_point_labels point_id ;;
  if (t4_ =? donor)%Z then
    new_point_labels <- py_set_index new_point_labels point_id recipient ;;
    Ret new_point_labels
  else Raise "AssertionError"%string.

Lemma fold_relabel (donor recipient : nat) (ch : list nat) : forall cur : list nat,
  donor = recipient \/ NoDup ch ->
  (forall p, In p ch -> (p < length cur)%nat /\ nth p cur 0%nat = donor) ->
  foldM (move_body (Z.of_nat donor) (Z.of_nat recipient)) (map Z.of_nat ch) (map Z.of_nat cur)
  = Ret (map Z.of_nat (relab recipient ch cur)).
Proof.
  induction ch as [|p ch IH]; intros cur Hnd Hin.
  - cbn [map foldM]. f_equal. f_equal.
    apply nth_ext with (d := 0%nat) (d' := 0%nat); [now rewrite relab_length|].
    intros i Hi. rewrite relab_nth by exact Hi. reflexivity.
  - destruct (Hin p (or_introl eq_refl)) as [Hp Hlab].
    cbn [map foldM]. unfold move_body at 1.
    rewrite (py_getitem_nat _ _ (Z.of_nat 0)) by (rewrite map_length; exact Hp). cbn [bind].
    rewrite map_nth, Hlab, Z.eqb_refl.
    rewrite py_set_index_nat by (rewrite map_length; exact Hp). cbn [bind].
    rewrite <- set_nth_map.
    rewrite IH.
    + f_equal. f_equal.
      apply nth_ext with (d := 0%nat) (d' := 0%nat); [now rewrite !relab_length, set_nth_length|].
      intros i Hi. rewrite relab_length, set_nth_length in Hi.
      rewrite !relab_nth by (rewrite ?set_nth_length; exact Hi).
      cbn [existsb]. destruct (Nat.eqb_spec i p) as [E|E]; cbn [orb].
      * subst i. destruct (existsb (Nat.eqb p) ch); [reflexivity|]. apply nth_set_nth_eq. exact Hp.
      * rewrite nth_set_nth_neq by exact E. reflexivity.
    + destruct Hnd as [Hdr|Hnd]; [left; exact Hdr|right]. inversion Hnd; assumption.
    + intros q Hq. rewrite set_nth_length.
      destruct (Hin q (or_intror Hq)) as [Hq1 Hq2]. split; [exact Hq1|].
      destruct (Nat.eq_dec q p) as [E|E].
      * subst q. rewrite nth_set_nth_eq by exact Hp.
        destruct Hnd as [Hdr|Hnd]; [now symmetry|]. inversion Hnd; contradiction.
      * rewrite nth_set_nth_neq by exact E. exact Hq2.
Qed.

(* the general form: the draw may repeat positions only when donor and recipient coincide *)
Theorem g_move_random_points_eq_gen (sample : Z -> Z -> list Z) (K m : nat) (labels : list nat) (donor recipient : nat) (idxs : list nat) :
  (donor < K)%nat ->
  sample (Z.of_nat (size labels donor)) (Z.of_nat m) = map Z.of_nat idxs ->
  Forall (fun i => (i < size labels donor)%nat) idxs ->
  donor = recipient \/ NoDup idxs ->
  g_move_random_points sample (rp_of K m labels) (Z.of_nat donor) (Z.of_nat recipient)
  = Ret (map Z.of_nat (move labels donor recipient idxs)).
Proof.
  intros HK Hsample Hlt Hnd.
  unfold g_move_random_points.
  rewrite (clusters_getitem K m labels donor HK).
  cbn [bind rc_member_points rp_of rm_arguments ra_min_cluster_size rm_point_labels].
  set (mem := members labels donor).
  assert (Hlen : py_len (map Z.of_nat mem) = Z.of_nat (size labels donor)).
  { unfold py_len, mem. now rewrite map_length, members_length. }
  rewrite Hlen, Hsample.
  assert (E : mapM (fun i => t2_ <- py_getitem (map Z.of_nat mem) i ;; Ret t2_) (map Z.of_nat idxs)
              = Ret (map Z.of_nat (map (fun i => nth i mem 0%nat) idxs))).
  { rewrite (mapM_pure _ (fun z => Z.of_nat (nth (Z.to_nat z) mem 0%nat))).
    - f_equal. rewrite !map_map. apply map_ext. intros i. now rewrite Nat2Z.id.
    - intros z Hz. apply in_map_iff in Hz. destruct Hz as [i [Hz Hi]]. subst z.
      rewrite Forall_forall in Hlt. specialize (Hlt i Hi).
      rewrite (py_getitem_nat _ _ (Z.of_nat 0)) by (unfold mem; rewrite map_length, members_length; exact Hlt).
      cbn [bind]. now rewrite map_nth, Nat2Z.id. }
  rewrite E. cbn [bind].
  change (foldM _ ?l ?s) with (foldM (move_body (Z.of_nat donor) (Z.of_nat recipient)) l s).
  rewrite (fold_relabel donor recipient (map (fun i => nth i mem 0%nat) idxs) labels).
  - reflexivity.
  - destruct Hnd as [Hdr|Hnd]; [left; exact Hdr|right].
    apply NoDup_map_nth; [apply members_NoDup|exact Hnd|].
    unfold mem. rewrite members_length. exact Hlt.
  - intros p Hp. apply in_map_iff in Hp. destruct Hp as [i [Hp Hi]]. subst p.
    apply members_lt. apply nth_In. unfold mem. rewrite members_length.
    rewrite Forall_forall in Hlt. apply Hlt. exact Hi.
Qed.

(* 2. ORIGINAL STATEMENT (false as written: a draw that repeats a position makes the translated loop visit a point that
      already carries the recipient's label, so the `assert` fails, while the model's move ignores repetitions):

Theorem g_move_random_points_eq (sample : Z -> Z -> list Z) (K m : nat) (labels : list nat) (donor recipient : nat) (idxs : list nat) :
  (donor < K)%nat ->
  sample (Z.of_nat (size labels donor)) (Z.of_nat m) = map Z.of_nat idxs ->
  Forall (fun i => (i < size labels donor)%nat) idxs ->
  g_move_random_points sample (rp_of K m labels) (Z.of_nat donor) (Z.of_nat recipient)
  = Ret (map Z.of_nat (move labels donor recipient idxs)).

   Counterexample (checked below, `move_counterexample`): K = 4, m = 2, labels = [0;1;1;2;1;1;0;1;2;1;1], donor = 1,
   recipient = 3, idxs = [0;0], sample = fun _ _ => [0;0]: all three hypotheses hold, the left side is
   Raise "AssertionError", the right side is Ret [0;3;1;2;1;1;0;1;2;1;1].
   Corrected statement: the added hypothesis NoDup idxs (a legal draw of random.sample is duplicate-free; draw_ok of
   Model/Repop.v has it).  The weakest sufficient form, donor = recipient \/ NoDup idxs, is g_move_random_points_eq_gen. *)

(* 2. the translated move is the model's, for every draw of m distinct positions below the donor's size *)
Theorem g_move_random_points_eq (sample : Z -> Z -> list Z) (K m : nat) (labels : list nat) (donor recipient : nat) (idxs : list nat) :
  (donor < K)%nat ->
  sample (Z.of_nat (size labels donor)) (Z.of_nat m) = map Z.of_nat idxs ->
  Forall (fun i => (i < size labels donor)%nat) idxs ->
  NoDup idxs ->
  g_move_random_points sample (rp_of K m labels) (Z.of_nat donor) (Z.of_nat recipient)
  = Ret (map Z.of_nat (move labels donor recipient idxs)).
Proof.
  intros HK Hsample Hlt Hnd.
  apply (g_move_random_points_eq_gen sample K m labels donor recipient idxs HK Hsample Hlt (or_intror Hnd)).
Qed.

Definition lab0 : list nat := [0;1;1;2;1;1;0;1;2;1;1].
Eval vm_compute in g_find_point_donor 5 (rp_of 4 2 lab0) (map Z.of_nat [3;0;1;2]).
Eval vm_compute in donor_result (find_donor 5 2 lab0 [3;0;1;2]).
Eval vm_compute in g_find_point_donor 5 (rp_of 4 3 lab0) (map Z.of_nat [3;0;2]).
Eval vm_compute in donor_result (find_donor 5 3 lab0 [3;0;2]).
Eval vm_compute in g_move_random_points (fun n k => [5;0]%Z) (rp_of 4 2 lab0) 1 3.
Eval vm_compute in map Z.of_nat (move lab0 1 3 [5;0]).

(* the original statement 2 fails on a draw with a repeated position *)
Lemma move_counterexample :
  let sample := fun _ _ : Z => [0; 0]%Z in
  (1 < 4)%nat /\
  sample (Z.of_nat (size lab0 1)) (Z.of_nat 2) = map Z.of_nat [0; 0]%nat /\
  Forall (fun i => (i < size lab0 1)%nat) [0; 0]%nat /\
  g_move_random_points sample (rp_of 4 2 lab0) (Z.of_nat 1) (Z.of_nat 3) = Raise "AssertionError"%string /\
  Ret (map Z.of_nat (move lab0 1 3 [0; 0]%nat)) = Ret [0; 3; 1; 2; 1; 1; 0; 1; 2; 1; 1]%Z.
Proof.
  cbv zeta. split; [lia|]. split; [reflexivity|]. split; [repeat constructor|].
  split; vm_compute; reflexivity.
Qed.
Eval vm_compute in g_move_random_points (fun n k => [0;0]%Z) (rp_of 4 2 lab0) 1 3.
Eval vm_compute in map Z.of_nat (move lab0 1 3 [0;0]).

Print Assumptions g_find_point_donor_eq.
Print Assumptions g_move_random_points_eq.
Print Assumptions g_move_random_points_eq_gen.

(* ---- update_cluster_member_data_statistics as translated: mean and covariance are computed from exactly the rows listed in
   the cluster's member list, in that order, and the estimator flag handed to np.cov is  biased or size < 2  (np.cov and
   np.mean are uninterpreted symbols) ---- *)
From Ticc Require Import Model.Viterbi Model.Stats.
Section S.
  Variable F : Type.
  Variable M : Type.
  Variable np_cov_of_rows : arr2 F -> bool -> M.
  Variable np_mean_rows : arr2 F -> list F.

  Lemma st_getitem_nat {A : Type} (l : list A) (k : nat) (d : A) :
    (k < length l)%nat -> py_getitem l (Z.of_nat k) = Ret (nth k l d).
  Proof.
    intros Hk. unfold py_getitem, py_len. cbv zeta.
    assert (E1 : (Z.of_nat k <? 0)%Z = false) by (apply Z.ltb_ge; lia).
    assert (E2 : (Z.of_nat (length l) <=? Z.of_nat k)%Z = false) by (apply Z.leb_gt; lia).
    rewrite E1. cbv iota. rewrite E1, E2. cbn [orb]. rewrite Nat2Z.id, (nth_error_nth' l d Hk). reflexivity.
  Qed.

  Theorem g_update_cluster_statistics_eq (T NW : nat) (data : list (list F)) (members : list nat) (cov0 : M) (mean0 : list F) (biased : bool) :
    members <> [] -> Forall (fun p => (p < T)%nat) members -> length data = T ->
    let X := mk_arr2 (Z.of_nat (length members)) (Z.of_nat NW) (select members data) in
    g_update_cluster_member_data_statistics F M np_cov_of_rows np_mean_rows
      (mk_st_cluster (Z.of_nat (length members)) (map Z.of_nat members) cov0 mean0) (mk_arr2 (Z.of_nat T) (Z.of_nat NW) data) biased
    = Ret (mk_st_cluster (Z.of_nat (length members)) (map Z.of_nat members)
             (np_cov_of_rows X (biased || Nat.ltb (length members) 2)) (np_mean_rows X)).
  Proof.
    intros Hne Hin Hlen X.
    unfold g_update_cluster_member_data_statistics. cbn [sc_size sc_member_points].
    assert (Hpos : (Z.of_nat (length members) >? 0)%Z = true).
    { destruct members as [|p r]; [contradiction|]. cbn [length]. apply Z.gtb_lt. lia. }
    rewrite Hpos. unfold np_take_rows. cbn [a_cells a_cols].
    rewrite (mapM_pure _ (fun z => nth (Z.to_nat z) data [])).
    2:{ intros z Hz. apply in_map_iff in Hz. destruct Hz as [k [Hz Hk]]. subst z. rewrite Nat2Z.id.
        apply st_getitem_nat. rewrite Hlen. rewrite Forall_forall in Hin. apply Hin. exact Hk. }
    cbn [bind]. rewrite map_map.
    assert (Hsel : map (fun x : nat => nth (Z.to_nat (Z.of_nat x)) data []) members = select members data).
    { unfold select. apply map_ext. intros k. rewrite Nat2Z.id. reflexivity. }
    rewrite Hsel. unfold py_len. rewrite map_length.
    assert (Hlt : (Z.of_nat (length members) <? 2)%Z = Nat.ltb (length members) 2).
    { destruct (Nat.ltb_spec (length members) 2) as [H|H]; [apply Z.ltb_lt|apply Z.ltb_ge]; lia. }
    rewrite Hlt. unfold set_sc_stacked_data_mean, set_sc_empirical_covariance.
    cbn [sc_size sc_member_points sc_empirical_covariance sc_stacked_data_mean]. reflexivity.
  Qed.
End S.
Print Assumptions g_update_cluster_statistics_eq.
