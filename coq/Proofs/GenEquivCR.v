(* Second tie: the two core steps of cluster repopulation, cluster_maintenance._find_point_donor (a `while` loop, translated
   with explicit fuel) and _move_random_points, AS TRANSLATED from /repo's working tree by vcheck/py2coq.py
   (Gen/G_cluster_maintenance.v, regenerated on every run) equal the hand-written model Model/Repop.v (find_donor, move).
   random.sample is an uninterpreted symbol: the theorem holds for whatever list of positions it returns that is a legal
   draw.  Closed under the global context. *)
From Coq Require Import String ZArith List Bool Lia Arith.
From Ticc Require Import Gen.PyRt Gen.G_cluster_maintenance Model.Repop.
Import ListNotations.

(* the model state the helpers see, built from a labelling: cluster k has size (size labels k) and members (members labels k) *)
Definition rp_of (K m : nat) (labels : list nat) : rp_model :=
  mk_rp_model (mk_rp_args (Z.of_nat m))
              (map (fun k => mk_rp_cluster (Z.of_nat (size labels k)) (map Z.of_nat (members labels k))) (seq 0 K))
              (map Z.of_nat labels).

Definition donor_result (r : option (nat * list nat)) : res (Z * list Z) :=
  match r with
  | Some (d, rem') => Ret (Z.of_nat d, map Z.of_nat rem')
  | None => Raise "RuntimeError"%string
  end.

(* STATEMENTS (to be proved):

(* 1. with enough fuel (one more than the number of candidates) the translated donor search is the model's, including the
      RuntimeError when no candidate holds 2m points *)
Theorem g_find_point_donor_eq (K m : nat) (labels rem : list nat) (fuel : nat) :
  Forall (fun d => (d < K)%nat) rem -> (length rem < fuel)%nat ->
  g_find_point_donor fuel (rp_of K m labels) (map Z.of_nat rem)
  = donor_result (find_donor fuel m labels rem).

(* 2. the translated move is the model's, for every draw of m distinct positions below the donor's size *)
Theorem g_move_random_points_eq (sample : Z -> Z -> list Z) (K m : nat) (labels : list nat) (donor recipient : nat) (idxs : list nat) :
  (donor < K)%nat ->
  sample (Z.of_nat (size labels donor)) (Z.of_nat m) = map Z.of_nat idxs ->
  Forall (fun i => (i < size labels donor)%nat) idxs ->
  g_move_random_points sample (rp_of K m labels) (Z.of_nat donor) (Z.of_nat recipient)
  = Ret (map Z.of_nat (move labels donor recipient idxs)).
*)

Definition lab0 : list nat := [0;1;1;2;1;1;0;1;2;1;1].
Eval vm_compute in g_find_point_donor 5 (rp_of 4 2 lab0) (map Z.of_nat [3;0;1;2]).
Eval vm_compute in donor_result (find_donor 5 2 lab0 [3;0;1;2]).
Eval vm_compute in g_find_point_donor 5 (rp_of 4 3 lab0) (map Z.of_nat [3;0;2]).
Eval vm_compute in donor_result (find_donor 5 3 lab0 [3;0;2]).
Eval vm_compute in g_move_random_points (fun n k => [5;0]%Z) (rp_of 4 2 lab0) 1 3.
Eval vm_compute in map Z.of_nat (move lab0 1 3 [5;0]).
