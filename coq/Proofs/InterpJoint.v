(* LINK of two generated control skeletons: the joint front end front_end.ticc_joint_labels (Gen/G_front_joint.v) and the
   result splitter front_end._split_combined_result (Gen/G_front_split.v).  In the interpretation of the front end's callees
   the callee "_split_combined_result" is answered by RUNNING the interpreted splitter skeleton (Proofs/InterpSplit.v) on the
   very arguments the front end passes (the master result, the stacked sizes, the list of series), not by a model function.
   The other callees are interpreted as far as the labels are concerned: list() copies, the comprehension
   [len(series) - window_size + 1 for series in data_series]  computes the model's [num_windows], sum() sums, the masked
   switching cost has one entry per stacked row (so the code's assertion holds), and the main loop returns a master result
   carrying an arbitrary labelling [labels].

   End to end: for every window size W >= 1, every list of series lengths (each >= W) and every master labelling with one label
   per stacked row, the front end AS TRANSLATED returns the model's [front_joint_labels], hence (C04) one list per series, in
   order, list i as long as series i, -1 exactly on the first floor((W-1)/2) and last (W-1)-floor((W-1)/2) positions, a cluster
   id in [0,K) elsewhere.  Without the hypotheses the run returns iff the splitter's length check passes, and raises
   AssertionError otherwise (joint_run_result).  Closed under the global context. *)
From Coq Require Import String ZArith List Bool Lia Arith.
From Ticc Require Import Gen.PyRt Gen.PySkel Gen.G_front_joint Gen.G_front_split
     Model.Stacking Proofs.StackingP Proofs.FrontLabelsP Proofs.InterpSplit.
Import ListNotations.
Local Open Scope string_scope.

(* ---------------------------------------------------------------- the labels of the front end's callees, as generated *)

Definition fj_stack := "data_preparation.stack_training_data_multiple_series".
Definition fj_sizes := "expr:[len(series) - window_size + 1 for series in data_series]".
Definition fj_args := "arguments.UserArguments(window_size=,num_clusters=,sparsity_weight=,label_switching_cost=,iteration_limit=,min_meaningful_covariance=,num_processors=,min_cluster_size=,biased_covariance=)".
Definition fj_template := "data_preparation.label_switching_cost_template".
Definition fj_fit := "main_loop.fit_stacked_data".
Definition fj_splitres := "_split_combined_result".

(* the splitter skeleton, interpreted (InterpSplit), run from the empty log on the arguments it is given: its outcome *)
Definition run_splitter (m sz ser : val) : res val :=
  fst (g_split_combined_result val VInt veq getattr as_list InterpSplit.oracle_model m sz ser []).

(* The callees of the front end, for a run on series of lengths Ts with window W in which the main loop answers a master
   result carrying [labels].  The values that do not matter for the labels (the stacked array, the argument bundle, the
   template) are VNone.  The masked switching cost  label_switching_cost * template  is a value whose shape[0] is the total
   number of stacked rows ("op:*" does not receive the sizes, so this answer is parametrised by W and Ts).  K is not used:
   the number of clusters only travels inside the argument bundle.  Every other callee (those of the splitter) keeps its
   InterpSplit answer. *)
Definition oracle_joint (W : nat) (Ts : list nat) (K : nat) (labels : list Z)
           (log : list (event val)) (f : string) (a : list val) : res val :=
  if String.eqb f "list" then
    match a with [VSeriesList Ts'] => Ret (VSeriesList Ts') | _ => unexpected end
  else if String.eqb f fj_stack then
    match a with [VSeriesList _; VInt _] => Ret VNone | _ => unexpected end
  else if String.eqb f fj_sizes then
    match a with [VSeriesList Ts'; VInt w] => Ret (VSizes (map (num_windows (Z.to_nat w)) Ts')) | _ => unexpected end
  else if String.eqb f fj_args then
    match a with [_; _; _; _; _; _; _; _; _] => Ret VNone | _ => unexpected end
  else if String.eqb f fj_template then
    match a with [VSizes _] => Ret VNone | _ => unexpected end
  else if String.eqb f "op:*" then
    match a with [_; _] => Ret (VSeries (list_sum (map (num_windows W) Ts))) | _ => unexpected end
  else if String.eqb f "sum" then
    match a with [VSizes ns] => Ret (VInt (Z.of_nat (list_sum ns))) | _ => unexpected end
  else if String.eqb f fj_fit then
    match a with [_; _] => Ret (VMaster W labels) | _ => unexpected end
  else if String.eqb f fj_splitres then
    match a with [m; sz; ser] => run_splitter m sz ser | _ => unexpected end
  else InterpSplit.oracle_model log f a.

Section Joint.
  Variables (W : nat) (Ts : list nat) (K : nat) (labels : list Z).

  Local Notation OJ := (oracle_joint W Ts K labels).

  (* ---------------------------------------------------------------- the oracle, one callee at a time *)

  Lemma oracle_list (log : list (event val)) (Ts' : list nat) :
    OJ log "list" [VSeriesList Ts'] = Ret (VSeriesList Ts').
  Proof. reflexivity. Qed.
  Lemma oracle_stack (log : list (event val)) (Ts' : list nat) (w : Z) :
    OJ log fj_stack [VSeriesList Ts'; VInt w] = Ret VNone.
  Proof. reflexivity. Qed.
  Lemma oracle_sizes (log : list (event val)) (Ts' : list nat) (W' : nat) :
    OJ log fj_sizes [VSeriesList Ts'; VInt (Z.of_nat W')] = Ret (VSizes (map (num_windows W') Ts')).
  Proof.
    change (OJ log fj_sizes [VSeriesList Ts'; VInt (Z.of_nat W')])
      with (Ret (VSizes (map (num_windows (Z.to_nat (Z.of_nat W'))) Ts'))).
    rewrite Nat2Z.id. reflexivity.
  Qed.
  Lemma oracle_args (log : list (event val)) (a1 a2 a3 a4 a5 a6 a7 a8 a9 : val) :
    OJ log fj_args [a1; a2; a3; a4; a5; a6; a7; a8; a9] = Ret VNone.
  Proof. reflexivity. Qed.
  Lemma oracle_template (log : list (event val)) (ns : list nat) :
    OJ log fj_template [VSizes ns] = Ret VNone.
  Proof. reflexivity. Qed.
  Lemma oracle_mul (log : list (event val)) (b t : val) :
    OJ log "op:*" [b; t] = Ret (VSeries (list_sum (map (num_windows W) Ts))).
  Proof. reflexivity. Qed.
  Lemma oracle_sum (log : list (event val)) (ns : list nat) :
    OJ log "sum" [VSizes ns] = Ret (VInt (Z.of_nat (list_sum ns))).
  Proof. reflexivity. Qed.
  Lemma oracle_fit (log : list (event val)) (a c : val) :
    OJ log fj_fit [a; c] = Ret (VMaster W labels).
  Proof. reflexivity. Qed.
  (* the LINK: the answer of "_split_combined_result" is the outcome of the interpreted splitter skeleton *)
  Lemma oracle_link (log : list (event val)) (m sz ser : val) :
    OJ log fj_splitres [m; sz; ser]
    = fst (g_split_combined_result val VInt veq getattr as_list InterpSplit.oracle_model m sz ser []).
  Proof. reflexivity. Qed.

  (* ---------------------------------------------------------------- the monad, one step at a time *)

  Lemma fstj_bind_call (B : Type) (f : string) (a : list val) (k : val -> M val B) (log : list (event val))
        (v : val) (R : res B) :
    OJ log f a = Ret v -> fst (k v (log ++ [Ev f a])%list) = R -> fst (mbind (call OJ f a) k log) = R.
  Proof. intros Ho Hk. unfold mbind, call. rewrite Ho. exact Hk. Qed.

  (* the last call, whose outcome (value or exception) is the outcome of the function *)
  Lemma fstj_call_last (f : string) (a : list val) (log : list (event val)) :
    fst (mbind (call OJ f a) (fun t => mret t) log) = OJ log f a.
  Proof. unfold mbind, call, mret. destruct (OJ log f a) as [v|e]; reflexivity. Qed.

  (* try: t = f(a)  except exc: raise new  - when the callee returns *)
  Lemma fstj_bind_try_call (B : Type) (f : string) (a : list val) (exc new : string) (k : val -> M val B)
        (log : list (event val)) (v : val) (R : res B) :
    OJ log f a = Ret v -> fst (k v (log ++ [Ev f a])%list) = R ->
    fst (mbind (try_map (mbind (call OJ f a) (fun t => mret t)) exc new) k log) = R.
  Proof. intros Ho Hk. unfold mbind, try_map, call, mret. rewrite Ho. exact Hk. Qed.

  (* ---------------------------------------------------------------- the whole function *)

  (* the arguments in the order of the Python signature *)
  Definition joint_run (lam beta lim eps procs m biased : val) : res val * list (event val) :=
    g_ticc_joint_labels val veq getattr OJ
                        (VSeriesList Ts) (VInt (Z.of_nat W)) (VInt (Z.of_nat K)) lam beta lim eps procs m biased [].

  (* no hypothesis: the assertion on the masked switching cost passes, the main loop and the splitter are entered, and the
     outcome of the front end is the outcome of the interpreted splitter skeleton on
     (master result, [num_windows W T | T in Ts], series) *)
  Lemma joint_run_is_splitter_run (lam beta lim eps procs m biased : val) :
    fst (joint_run lam beta lim eps procs m biased) = fst (InterpSplit.run W Ts labels).
  Proof.
    unfold joint_run, g_ticc_joint_labels. cbv zeta.
    eapply fstj_bind_call; [apply oracle_list|]. cbv beta.
    eapply fstj_bind_try_call; [apply oracle_stack|]. cbv beta.
    eapply fstj_bind_call; [apply oracle_sizes|]. cbv beta.
    eapply fstj_bind_call; [apply oracle_args|]. cbv beta.
    eapply fstj_bind_call; [apply oracle_template|]. cbv beta.
    eapply fstj_bind_call; [apply oracle_mul|]. cbv beta.
    eapply fstj_bind_call; [apply oracle_sum|]. cbv beta.
    rewrite getattr_shape, getattr_shape0, veq_nat, Nat.eqb_refl.
    eapply fstj_bind_call; [apply oracle_fit|]. cbv beta.
    rewrite fstj_call_last. apply oracle_link.
  Qed.

  (* no hypothesis: the run returns the model's labels when the model's padded lists have the lengths of the series and
     raises AssertionError (the splitter's, propagated unchanged) otherwise *)
  Lemma joint_run_result (lam beta lim eps procs m biased : val) :
    fst (joint_run lam beta lim eps procs m biased)
    = if lens_ok W (split_by (map (num_windows W) Ts) labels) Ts
      then Ret (VResult (front_joint_labels W Ts labels))
      else Raise "AssertionError".
  Proof. rewrite joint_run_is_splitter_run. apply run_result. Qed.
End Joint.

(* ================================================================ the theorems *)

(* the exact condition under which the front end returns: the model's padded lists have the series' lengths *)
Theorem joint_front_end_returns_iff : forall (W K : nat) (Ts : list nat) (labels : list Z)
                                             (lam beta lim eps procs m biased : val),
  map (@length Z) (front_joint_labels W Ts labels) = Ts <->
  exists log', g_ticc_joint_labels val veq getattr (oracle_joint W Ts K labels)
                 (VSeriesList Ts) (VInt (Z.of_nat W)) (VInt (Z.of_nat K)) lam beta lim eps procs m biased []
               = (Ret (VResult (front_joint_labels W Ts labels)), log').
Proof.
  intros W K Ts labels lam beta lim eps procs m biased.
  pose proof (joint_run_result W Ts K labels lam beta lim eps procs m biased) as Hrun. unfold joint_run in Hrun.
  pose proof (lens_ok_iff W (split_by (map (num_windows W) Ts) labels) Ts) as Hiff.
  fold (front_joint_labels W Ts labels) in Hiff.
  split.
  - intros Hl. apply Hiff in Hl. rewrite Hl in Hrun.
    eexists. rewrite <- Hrun. apply surjective_pairing.
  - intros (log' & Hr). rewrite Hr in Hrun. cbn [fst] in Hrun.
    destruct (lens_ok W (split_by (map (num_windows W) Ts) labels) Ts).
    + apply Hiff. reflexivity.
    + discriminate Hrun.
Qed.

(* END TO END: the joint front end as translated, its splitter being the splitter as translated, returns the model's list of
   padded label lists *)
Theorem joint_front_end_end_to_end : forall (W K : nat) (Ts : list nat) (labels : list Z)
                                            (lam beta lim eps procs m biased : val),
  (1 <= W)%nat -> Forall (fun T => (W <= T)%nat) Ts -> length labels = list_sum (map (num_windows W) Ts) ->
  exists log', g_ticc_joint_labels val veq getattr (oracle_joint W Ts K labels)
                 (VSeriesList Ts) (VInt (Z.of_nat W)) (VInt (Z.of_nat K)) lam beta lim eps procs m biased []
               = (Ret (VResult (front_joint_labels W Ts labels)), log').
Proof.
  intros W K Ts labels lam beta lim eps procs m biased HW HTs HL.
  apply joint_front_end_returns_iff. apply front_joint_lengths; assumption.
Qed.

(* C04 for the code as translated: one list per series, in order; list i has exactly T_i entries; its first floor((W-1)/2) and
   last (W-1)-floor((W-1)/2) entries are -1 and the others are the main loop's labels, in [0,K) *)
Corollary joint_front_end_C04 : forall (W K : nat) (Ts : list nat) (labels : list Z)
                                       (lam beta lim eps procs m biased : val),
  (1 <= W)%nat -> Forall (fun T => (W <= T)%nat) Ts -> length labels = list_sum (map (num_windows W) Ts) ->
  Forall (in_range K) labels ->
  exists (parts : list (list Z)) (log' : list (event val)),
    g_ticc_joint_labels val veq getattr (oracle_joint W Ts K labels)
      (VSeriesList Ts) (VInt (Z.of_nat W)) (VInt (Z.of_nat K)) lam beta lim eps procs m biased []
    = (Ret (VResult parts), log')
    /\ Forall2 (margin_ok W K) Ts parts
    /\ map (@length Z) parts = Ts
    /\ pad_front W = ((W - 1) / 2)%nat /\ pad_back W = ((W - 1) - (W - 1) / 2)%nat.
Proof.
  intros W K Ts labels lam beta lim eps procs m biased HW HTs HL HR.
  destruct (joint_front_end_end_to_end W K Ts labels lam beta lim eps procs m biased HW HTs HL) as (log' & Hrun).
  exists (front_joint_labels W Ts labels), log'.
  split; [exact Hrun|].
  split; [apply front_joint_margin; assumption|].
  split; [apply front_joint_lengths; assumption|].
  split; reflexivity.
Qed.

(* the failure direction: when some padded list has not the length of its series, the splitter's assertion fails and the
   front end raises the same *)
Theorem joint_front_end_assertion : forall (W K : nat) (Ts : list nat) (labels : list Z)
                                           (lam beta lim eps procs m biased : val),
  map (@length Z) (front_joint_labels W Ts labels) <> Ts ->
  exists log', g_ticc_joint_labels val veq getattr (oracle_joint W Ts K labels)
                 (VSeriesList Ts) (VInt (Z.of_nat W)) (VInt (Z.of_nat K)) lam beta lim eps procs m biased []
               = (Raise "AssertionError", log').
Proof.
  intros W K Ts labels lam beta lim eps procs m biased Hne.
  pose proof (joint_run_result W Ts K labels lam beta lim eps procs m biased) as Hrun. unfold joint_run in Hrun.
  pose proof (lens_ok_iff W (split_by (map (num_windows W) Ts) labels) Ts) as Hiff.
  fold (front_joint_labels W Ts labels) in Hiff.
  destruct (lens_ok W (split_by (map (num_windows W) Ts) labels) Ts).
  - exfalso. apply Hne. apply Hiff. reflexivity.
  - eexists. rewrite <- Hrun. apply surjective_pairing.
Qed.

(* ================================================================ non-vacuity *)

Example joint_front_end_example :
  let labels := [0; 1; 1; 1; 0]%Z in
  let out := [[-1; 0; 1; 1; -1]; [-1; 1; 0; -1]]%Z in
  let r := g_ticc_joint_labels val veq getattr (oracle_joint 3 [5; 4] 2 labels)
             (VSeriesList [5; 4]) (VInt 3) (VInt 2) VNone VNone VNone VNone VNone VNone VNone [] in
  fst r = Ret (VResult out)
  /\ map (@ev_fn val) (snd r)
     = ["list"; fj_stack; fj_sizes; fj_args; fj_template; "op:*"; "sum"; fj_fit; fj_splitres]
  /\ front_joint_labels 3 [5; 4] labels = out.
Proof. vm_compute. repeat split. Qed.

(* the same run when the caller passes one series one row longer than the sizes account for is impossible here (the sizes are
   computed from the series); what can go wrong is the number of labels the main loop returns: one label short, the last
   padded list is one entry short and the splitter's assertion surfaces *)
Example joint_front_end_example_fails :
  fst (g_ticc_joint_labels val veq getattr (oracle_joint 3 [5; 4] 2 [0; 1; 1; 1]%Z)
         (VSeriesList [5; 4]) (VInt 3) (VInt 2) VNone VNone VNone VNone VNone VNone VNone [])
  = Raise "AssertionError".
Proof. vm_compute. reflexivity. Qed.

Print Assumptions joint_front_end_end_to_end.
Print Assumptions joint_front_end_C04.
Print Assumptions joint_front_end_returns_iff.
Print Assumptions joint_front_end_assertion.
