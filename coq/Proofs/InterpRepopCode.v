(* The generated control skeleton of cluster_maintenance.repopulate_empty_clusters (Gen/G_cm_repopulate.v), with its two
   helper callees "_find_point_donor" and "_move_random_points" answered by the helpers AS TRANSLATED IN FULL from the Python
   source (Gen/G_cluster_maintenance.v: g_find_point_donor, g_move_random_points, over the record view rp_of K m labels),
   and every other callee answered as in InterpRepop.oracle_model, computes the hand model's [repopulate] - under the
   model's own well-formedness hypothesis RepopP.Hyp (which is what makes every draw a legal one: draw_ok contains
   NoDup and the bound by the donor's size; and every donor id is < K because rank_donors is a filter of seq 0 K).
   Puts together Proofs/InterpRepop.v (skeleton = model, callees by the model) and Proofs/GenEquivCR.v (translated helpers =
   the model's helpers).  Closed under the global context. *)
From Coq Require Import String ZArith List Bool Lia Arith.
From Ticc Require Import Gen.PyRt Gen.PySkel Gen.G_cm_repopulate Gen.G_cluster_maintenance Model.Repop
     Proofs.RepopP Proofs.GenEquivCR Proofs.InterpRepop.
Import ListNotations.
Local Open Scope string_scope.

(* ---------------------------------------------------------------- the second interpretation *)

(* random.sample for the j-th refill: whatever it is asked, the j-th draw *)
Definition sample_j (draws : list (list nat)) (j : nat) : Z -> Z -> list Z :=
  fun _ _ => map Z.of_nat (nth j draws []).

(* results of the translated kernels, converted back to InterpRepop's universe of values *)
Definition conv_fd (r : res (Z * list Z)) : res val :=
  match r with
  | Ret (d, rem') => Ret (VPair (VNat (Z.to_nat d)) (VList (map Z.to_nat rem')))
  | Raise e => Raise e
  end.

Definition conv_mv (r : res (list Z)) : res val :=
  match r with
  | Ret l => Ret (VList (map Z.to_nat l))
  | Raise e => Raise e
  end.

Definition oracle_code (K m : nat) (spread : nat -> nat) (order : list nat) (draws : list (list nat))
           (log : list (event val)) (f : string) (a : list val) : res val :=
  if String.eqb f "_find_point_donor" then
    match a with
    | [VState l; VList rem] =>
      conv_fd (g_find_point_donor (S (S (length rem))) (rp_of K m l) (map Z.of_nat rem))
    | _ => unexpected
    end
  else if String.eqb f "_move_random_points" then
    match a with
    | [VState l; VNat d; VNat e] =>
      conv_mv (g_move_random_points (sample_j draws (count_moves log)) (rp_of K m l) (Z.of_nat d) (Z.of_nat e))
    | _ => unexpected
    end
  else oracle_model K m spread order draws log f a.

(* ---------------------------------------------------------------- small facts *)

Lemma map_to_of_nat (l : list nat) : map Z.to_nat (map Z.of_nat l) = l.
Proof.
  induction l as [|x l IH]; [reflexivity|].
  cbn [map]. rewrite Nat2Z.id, IH. reflexivity.
Qed.

Section Code.
  Variables (K m : nat) (spread : nat -> nat) (order : list nat) (draws : list (list nat)).
  Local Notation O := (oracle_code K m spread order draws).

  (* ---------------------------------------------------------------- the oracle, one callee at a time *)

  (* away from the two helpers the two interpretations are the same *)
  Lemma oracle_code_other (log : list (event val)) (f : string) (a : list val) :
    String.eqb f "_find_point_donor" = false -> String.eqb f "_move_random_points" = false ->
    O log f a = oracle_model K m spread order draws log f a.
  Proof. intros H1 H2. unfold oracle_code. rewrite H1, H2. reflexivity. Qed.

  Lemma oc_set (log : list (event val)) : O log "set" [] = Ret (VSet order).
  Proof. reflexivity. Qed.
  Lemma oc_enumerate (log : list (event val)) (l : list nat) : O log "enumerate" [VClusters l] = Ret (VEnum K l).
  Proof. reflexivity. Qed.
  Lemma oc_add (log : list (event val)) (a : list val) : O log "method:add" a = Ret VNone.
  Proof. reflexivity. Qed.
  Lemma oc_len (log : list (event val)) (o : list nat) : O log "len" [VSet o] = Ret (VNat (length o)).
  Proof. reflexivity. Qed.
  Lemma oc_shallow (log : list (event val)) (l : list nat) : O log "method:shallow_copy" [VState l] = Ret (VState l).
  Proof. reflexivity. Qed.
  Lemma oc_deep (log : list (event val)) (l : list nat) :
    O log "expr:[cluster.deep_copy() for cluster in model.clusters]" [VState l] = Ret (VClusters l).
  Proof. reflexivity. Qed.
  Lemma oc_setclusters (log : list (event val)) (l : list nat) (c : val) :
    O log "setattr:clusters" [VState l; c] = Ret (VState l).
  Proof. reflexivity. Qed.
  Lemma oc_rank (log : list (event val)) (l : list nat) :
    O log "_find_ranked_donor_cluster_ids" [VState l] = Ret (VList (rank_donors K m spread l)).
  Proof. reflexivity. Qed.
  Lemma oc_sp (log : list (event val)) (l l' : list nat) :
    O log "setattr:point_labels" [VState l; VList l'] = Ret (VState l').
  Proof. reflexivity. Qed.

  Lemma oc_fd_unfold (log : list (event val)) (l rem : list nat) :
    O log "_find_point_donor" [VState l; VList rem]
    = conv_fd (g_find_point_donor (S (S (length rem))) (rp_of K m l) (map Z.of_nat rem)).
  Proof. reflexivity. Qed.

  Lemma oc_mv_unfold (log : list (event val)) (l : list nat) (d e : nat) :
    O log "_move_random_points" [VState l; VNat d; VNat e]
    = conv_mv (g_move_random_points (sample_j draws (count_moves log)) (rp_of K m l) (Z.of_nat d) (Z.of_nat e)).
  Proof. reflexivity. Qed.

  (* the translated donor search, on candidates that are cluster ids *)
  Lemma oc_fd (log : list (event val)) (l rem : list nat) :
    Forall (fun d => d < K) rem ->
    O log "_find_point_donor" [VState l; VList rem]
    = match find_donor (S (S (length rem))) m l rem with
      | Some (d, rem') => Ret (VPair (VNat d) (VList rem'))
      | None => Raise "RuntimeError"
      end.
  Proof.
    intros Hrem. rewrite oc_fd_unfold.
    rewrite (g_find_point_donor_eq K m l rem (S (S (length rem))) Hrem) by lia.
    destruct (find_donor (S (S (length rem))) m l rem) as [[d rem']|].
    - unfold donor_result, conv_fd. rewrite Nat2Z.id, map_to_of_nat. reflexivity.
    - reflexivity.
  Qed.

  (* the translated move, on a legal draw from a donor that is a cluster id *)
  Lemma oc_mv (log : list (event val)) (l : list nat) (d e : nat) :
    d < K ->
    Forall (fun i => i < size l d) (nth (count_moves log) draws []) ->
    NoDup (nth (count_moves log) draws []) ->
    O log "_move_random_points" [VState l; VNat d; VNat e] = Ret (VList (move l d e (nth (count_moves log) draws []))).
  Proof.
    intros Hd Hlt Hnd. rewrite oc_mv_unfold.
    rewrite (g_move_random_points_eq (sample_j draws (count_moves log)) K m l d e (nth (count_moves log) draws [])
                                     Hd eq_refl Hlt Hnd).
    unfold conv_mv. rewrite map_to_of_nat. reflexivity.
  Qed.

  (* on the arguments that occur along a run from a well-formed state the two interpretations agree *)
  Lemma oracle_code_agrees_fd (log : list (event val)) (l : list nat) (d : nat) (rest : list nat) :
    Forall (fun k => k < K) (d :: rest) -> 2 * m <= size l d ->
    O log "_find_point_donor" [VState l; VList (d :: rest)]
    = oracle_model K m spread order draws log "_find_point_donor" [VState l; VList (d :: rest)].
  Proof.
    intros Hrem Hd. rewrite (oc_fd log l (d :: rest) Hrem), oracle_fd.
    rewrite (find_donor_hd (S (length (d :: rest))) m l d rest Hd).
    rewrite (find_donor_hd (length (d :: rest)) m l d rest Hd). reflexivity.
  Qed.

  Lemma oracle_code_agrees_mv (log : list (event val)) (l : list nat) (d e : nat) :
    d < K -> draw_ok m (size l d) (nth (count_moves log) draws []) ->
    O log "_move_random_points" [VState l; VNat d; VNat e]
    = oracle_model K m spread order draws log "_move_random_points" [VState l; VNat d; VNat e].
  Proof.
    intros Hd (_ & Hnd & Hlt). rewrite (oc_mv log l d e Hd Hlt Hnd), oracle_mv. reflexivity.
  Qed.

  (* ---------------------------------------------------------------- the monad, one step at a time *)

  Lemma cbind_call (B : Type) (f : string) (a : list val) (k : val -> M val B) (log : list (event val)) :
    mbind (call O f a) k log
    = match O log f a with
      | Ret v => k v (log ++ [Ev f a])%list
      | Raise e => (Raise e, (log ++ [Ev f a])%list)
      end.
  Proof. unfold mbind, call. destruct (O log f a) as [v|e]; reflexivity. Qed.

  Lemma cfst_bind_call (B : Type) (f : string) (a : list val) (k : val -> M val B) (log : list (event val))
        (v : val) (R : res B) :
    O log f a = Ret v -> fst (k v (log ++ [Ev f a])%list) = R -> fst (mbind (call O f a) k log) = R.
  Proof. intros Ho Hk. rewrite cbind_call, Ho. exact Hk. Qed.

  (* ---------------------------------------------------------------- the scan loop *)

  Definition cscan_body (s : val) : unit -> val -> M val unit := fun _ t3_ =>
    t4_ <<- need_int as_int (getattr (getattr t3_ "[1]") "size") ;;
    _ <<- (if (t4_ <? 2)%Z then
             t5_ <<- call O "method:add" [s; getattr t3_ "[0]"] ;;
             mret tt
           else mret tt) ;;
    mret tt.

  Lemma cscan_one (s : val) (l : list nat) (k : nat) (log : list (event val)) :
    cscan_body s tt (mkpair l k) log
    = (Ret tt, (log ++ (if Nat.ltb (size l k) 2 then [add_ev s k] else []))%list).
  Proof.
    unfold cscan_body, mkpair.
    rewrite getattr_pair1, getattr_size, getattr_pair0, need_int_nat, bind_ret, ltb_of_nat.
    destruct (Nat.ltb (size l k) 2).
    - rewrite mbind_assoc, cbind_call, oc_add. reflexivity.
    - rewrite app_nil_r. reflexivity.
  Qed.

  Lemma cscan_run (s : val) (l : list nat) : forall (ks : list nat) (log : list (event val)),
    for_each (cscan_body s) (map (mkpair l) ks) tt log
    = (Ret tt, (log ++ map (add_ev s) (filter (fun k => Nat.ltb (size l k) 2) ks))%list).
  Proof.
    induction ks as [|k ks IH]; intros log.
    - cbn [map filter for_each]. rewrite app_nil_r. reflexivity.
    - cbn [map filter]. rewrite for_each_cons, cscan_one. cbv beta iota. rewrite IH.
      destruct (Nat.ltb (size l k) 2).
      + cbn [map]. rewrite <- app_assoc. reflexivity.
      + rewrite app_nil_r. reflexivity.
  Qed.

  (* ---------------------------------------------------------------- the refill loop *)

  Definition cmove_body : val * val -> val -> M val (val * val) := fun '(remaining_donors, new_model) empty_cluster_id =>
    t12_ <<- call O "_find_point_donor" [new_model; remaining_donors] ;;
    t13_ <<- call O "_move_random_points" [new_model; getattr t12_ "[0]"; empty_cluster_id] ;;
    new_model' <<- call O "setattr:point_labels" [new_model; t13_] ;;
    mret (getattr t12_ "[1]", new_model').

  Variable labels : list nat.
  Hypothesis Hm : 1 <= m.
  Hypothesis Hord : forall k, In k order <-> In k (under K labels).

  Lemma inv_rem_lt (lbl rem ord : list nat) :
    Inv K m spread labels order lbl rem ord -> Forall (fun k => k < K) rem.
  Proof.
    intros HI. apply Forall_forall. intros k Hk.
    destruct (i_rem _ _ _ _ _ _ _ _ HI k Hk) as [Hk1 _].
    apply (donors_iff K m spread labels Hm) in Hk1. tauto.
  Qed.

  (* no candidates left: the translated search raises, as the model's *)
  Lemma cmove_body_nil (l : list nat) (e : nat) (log : list (event val)) :
    exists log', cmove_body (VList [], VState l) (VNat e) log = (Raise "RuntimeError", log').
  Proof.
    eexists. unfold cmove_body. rewrite cbind_call.
    rewrite (oc_fd log l [] (Forall_nil _)). reflexivity.
  Qed.

  (* one iteration from a state of the invariant = one step of [refill] *)
  Lemma cmove_body_cons (l : list nat) (d : nat) (rest ord' : list nat) (e : nat) (log : list (event val)) :
    Inv K m spread labels order l (d :: rest) (e :: ord') ->
    draw_ok m (size l d) (nth (count_moves log) draws []) ->
    exists log', cmove_body (VList (d :: rest), VState l) (VNat e) log
                 = (Ret (VList (if Nat.ltb (size l d) (3 * m) then rest else d :: rest),
                         VState (move l d e (nth (count_moves log) draws []))), log')
                 /\ count_moves log' = S (count_moves log).
  Proof.
    intros HI Hdr.
    pose proof (inv_rem_lt _ _ _ HI) as Hrem.
    destruct (i_rem _ _ _ _ _ _ _ _ HI d (in_eq _ _)) as [_ Hd2].
    assert (d < K) as HdK by (inversion Hrem; assumption).
    eexists. split.
    - unfold cmove_body. rewrite cbind_call.
      rewrite (oracle_code_agrees_fd log l d rest Hrem Hd2), oracle_fd.
      rewrite (find_donor_hd (length (d :: rest)) m l d rest Hd2). cbv beta iota.
      rewrite getattr_pair0, getattr_pair1.
      rewrite cbind_call.
      match goal with
      | |- context [O ?L "_move_random_points" _] =>
        assert (count_moves L = count_moves log) as HcL by (apply count_moves_snoc_other; reflexivity)
      end.
      rewrite oracle_code_agrees_mv; [|exact HdK|rewrite HcL; exact Hdr].
      rewrite oracle_mv. cbv beta iota.
      rewrite cbind_call, oc_sp. cbv beta iota.
      rewrite HcL.
      reflexivity.
    - rewrite count_moves_snoc_other by reflexivity.
      rewrite count_moves_snoc_move.
      rewrite count_moves_snoc_other by reflexivity.
      reflexivity.
  Qed.

  Lemma cmove_loop : forall (ord rem l : list nat) (log : list (event val)),
    Inv K m spread labels order l rem ord ->
    draws_valid m l rem ord (skipn (count_moves log) draws) ->
    match refill m l rem ord (skipn (count_moves log) draws) with
    | Some out => exists rem' log',
        for_each cmove_body (map VNat ord) (VList rem, VState l) log = (Ret (VList rem', VState out), log')
    | None => exists log',
        for_each cmove_body (map VNat ord) (VList rem, VState l) log = (Raise "RuntimeError", log')
    end.
  Proof.
    induction ord as [|e ord IH]; intros rem l log HI HD.
    - cbn [refill map for_each]. exists rem, log. reflexivity.
    - rewrite refill_cons. rewrite draws_valid_cons in HD.
      cbn [map]. rewrite for_each_cons.
      destruct rem as [|d rest].
      + cbn [find_donor length].
        destruct (cmove_body_nil l e log) as (l1 & Hb). rewrite Hb. exists l1. reflexivity.
      + destruct (i_rem _ _ _ _ _ _ _ _ HI d (in_eq _ _)) as [_ Hd2].
        rewrite (find_donor_hd _ _ _ _ _ Hd2) in HD.
        rewrite (find_donor_hd _ _ _ _ _ Hd2).
        rewrite hd_skipn, tl_skipn in HD. rewrite hd_skipn, tl_skipn.
        destruct HD as [HD1 HD2].
        destruct (cmove_body_cons l d rest ord e log HI HD1) as (l1 & Hb & Hc).
        rewrite Hb. cbv beta iota.
        destruct (inv_step K m spread labels order Hm Hord _ _ _ _ _ _ HI HD1) as [HI' _].
        specialize (IH _ _ l1 HI').
        rewrite Hc in IH. exact (IH HD2).
  Qed.

End Code.

(* ================================================================ the theorem *)

Theorem repopulate_code_is_model : forall (K m : nat) (spread : nat -> nat) (order : list nat) (draws : list (list nat))
                                          (labels : list nat),
  Hyp K m spread order draws labels ->
  match repopulate K m spread order draws labels with
  | Some out => exists log',
      g_repopulate_empty_clusters val as_int getattr as_list (oracle_code K m spread order draws) (VState labels) []
      = (Ret (VState out), log')
  | None => exists e log',
      g_repopulate_empty_clusters val as_int getattr as_list (oracle_code K m spread order draws) (VState labels) []
      = (Raise e, log')
  end.
Proof.
  intros K m spread order draws labels (Hm & Hlt & Hnd & Hord & Hdv).
  assert (fst (g_repopulate_empty_clusters val as_int getattr as_list (oracle_code K m spread order draws) (VState labels) [])
          = match repopulate K m spread order draws labels with
            | Some out => Ret (VState out)
            | None => Raise "RuntimeError"
            end) as Hrun.
  { unfold g_repopulate_empty_clusters.
    eapply cfst_bind_call; [apply oc_set|]. cbv beta zeta.
    rewrite getattr_clusters.
    eapply cfst_bind_call; [apply oc_enumerate|]. cbv beta.
    eapply fst_bind_ret; [exact (cscan_run K m spread order draws (VSet order) labels (seq 0 K) _)|]. cbv beta.
    eapply cfst_bind_call; [apply oc_len|]. cbv beta.
    rewrite need_int_nat, bind_ret.
    rewrite repopulate_alt.
    destruct (length order) as [|n].
    - reflexivity.
    - rewrite of_nat_S_eqb. cbn [Nat.eqb].
      eapply cfst_bind_call; [apply oc_shallow|]. cbv beta.
      eapply cfst_bind_call; [apply oc_deep|]. cbv beta.
      eapply cfst_bind_call; [apply oc_setclusters|]. cbv beta.
      eapply cfst_bind_call; [apply oc_rank|]. cbv beta.
      match goal with
      | |- fst (mbind _ _ ?L) = _ =>
        pose proof (cmove_loop K m spread order draws labels Hm Hord
                               order (rank_donors K m spread labels) labels L
                               (inv_init K m spread labels order Hm Hlt Hnd)) as Hloop;
        assert (count_moves L = 0) as HcN
      end.
      { repeat rewrite count_moves_snoc_other by reflexivity.
        rewrite count_moves_app, count_moves_adds. reflexivity. }
      rewrite HcN in Hloop. cbn [skipn] in Hloop. specialize (Hloop Hdv).
      destruct (refill m labels (rank_donors K m spread labels) order draws) as [out|].
      + destruct Hloop as (rem' & log' & Hrun).
        eapply fst_bind_ret; [exact Hrun|]. reflexivity.
      + destruct Hloop as (log' & Hrun).
        eapply fst_bind_raise. exact Hrun. }
  destruct (repopulate K m spread order draws labels) as [out|].
  - eexists. rewrite <- Hrun. apply surjective_pairing.
  - exists "RuntimeError". eexists. rewrite <- Hrun. apply surjective_pairing.
Qed.

(* ================================================================ non-vacuity *)

Example repopulate_code_example :
  let labels := [0; 0; 0; 0; 1; 1] in
  let out := [2; 2; 0; 0; 1; 1] in
  fst (g_repopulate_empty_clusters val as_int getattr as_list (oracle_code 3 2 (fun k => k) [2] [[0; 1]]) (VState labels) [])
  = Ret (VState out)
  /\ repopulate 3 2 (fun k => k) [2] [[0; 1]] labels = Some out.
Proof. vm_compute. split; reflexivity. Qed.

Print Assumptions repopulate_code_is_model.
