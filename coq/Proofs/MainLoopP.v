(* Proofs about the main-loop model (Model/MainLoop.v): rounds are chained through
   the phase functions, the loop stops at the first agreement, failures surface as
   Failed with the pool terminated, and the trace acceptor accept_c09 is sound
   (and complete on model traces under the repopulation gate). *)
From Coq Require Import List Arith Bool Lia.
Import ListNotations.
From Ticc Require Import Model.State Model.Repop Model.MainLoop.

(* ---------- list_eqb ---------- *)
Lemma list_eqb_spec : forall a b, list_eqb a b = true <-> a = b.
Proof.
  induction a as [|x a IH]; destruct b as [|y b]; simpl; split; intro H;
    try reflexivity; try discriminate.
  - apply andb_prop in H. destruct H as [H1 H2].
    apply Nat.eqb_eq in H1. apply IH in H2. subst. reflexivity.
  - injection H as H1 H2. subst. rewrite Nat.eqb_refl. simpl. apply IH. reflexivity.
Qed.

Lemma list_eqb_refl a : list_eqb a a = true.
Proof. apply list_eqb_spec. reflexivity. Qed.

Lemma list_eqb_false a b : list_eqb a b = false -> a <> b.
Proof. intros H E. apply list_eqb_spec in E. congruence. Qed.

(* ---------- generic list facts ---------- *)
Definition last_error {A} (l : list A) : option A :=
  match rev l with x :: _ => Some x | [] => None end.

Lemma nth_error_rev {A} (l : list A) :
  forall n, n < length l -> nth_error (rev l) n = nth_error l (length l - S n).
Proof.
  induction l as [|a l IH]; simpl; intros n Hn; [lia|].
  destruct (Nat.lt_ge_cases n (length l)) as [Hlt|Hge].
  - rewrite nth_error_app1 by (rewrite rev_length; exact Hlt).
    rewrite IH by exact Hlt.
    replace (length l - n) with (S (length l - S n)) by lia. reflexivity.
  - assert (En : n = length l) by lia. subst n.
    rewrite nth_error_app2 by (rewrite rev_length; lia).
    rewrite rev_length, Nat.sub_diag. reflexivity.
Qed.

Lemma rev_cons_length {A} (l : list A) x r : rev l = x :: r -> length l = S (length r).
Proof. intro E. rewrite <- (rev_length l), E. reflexivity. Qed.

Lemma rev_cons_last {A} (l : list A) x r :
  rev l = x :: r -> nth_error l (length l - 1) = Some x.
Proof.
  intro E. pose proof (rev_cons_length l x r E) as Hl.
  pose proof (nth_error_rev l 0) as H. rewrite E in H. simpl in H.
  symmetry. apply H. lia.
Qed.

Lemma rev_cons_last2 {A} (l : list A) x y r :
  rev l = x :: y :: r -> nth_error l (length l - 2) = Some y.
Proof.
  intro E. pose proof (rev_cons_length l _ _ E) as Hl. simpl in Hl.
  pose proof (nth_error_rev l 1) as H. rewrite E in H. simpl in H.
  symmetry. apply H. lia.
Qed.

Lemma last_error_nth {A} (l : list A) : last_error l = nth_error l (length l - 1).
Proof.
  unfold last_error. destruct (rev l) as [|x r] eqn:E.
  - assert (Hl : length l = 0) by (rewrite <- (rev_length l), E; reflexivity).
    destruct l; [reflexivity|discriminate].
  - symmetry. eapply rev_cons_last; eauto.
Qed.

Lemma last_error_cons {A} (x : A) l :
  last_error (x :: l) = match last_error l with Some r => Some r | None => Some x end.
Proof. unfold last_error. simpl. destruct (rev l); reflexivity. Qed.

Lemma last_error_In {A} (l : list A) r : last_error l = Some r -> In r l.
Proof.
  unfold last_error. destruct (rev l) as [|x t] eqn:E; intro H; [discriminate|].
  injection H as ->. apply in_rev. rewrite E. left. reflexivity.
Qed.

Lemma nth_error_map_inv {A B} (f : A -> B) l n b :
  nth_error (map f l) n = Some b -> exists a, nth_error l n = Some a /\ f a = b.
Proof.
  rewrite nth_error_map. destruct (nth_error l n) as [a|]; simpl; intro H; [|discriminate].
  injection H as <-. exists a. auto.
Qed.

Definition proj {M C} (r : @round_rec M C) : rec3 := (r_in r, r_fit_on r, r_out r).

Definition agree_at (l : list (list nat)) (j : nat) : Prop :=
  exists a b, nth_error l j = Some a /\ nth_error l (S j) = Some b /\ a = b.

Lemma agree_at_cons a l j : agree_at (a :: l) (S j) <-> agree_at l j.
Proof. unfold agree_at. simpl. tauto. Qed.

Lemma nms_unfold (x1 x2 x3 : rec3) r :
  no_missed_stop (x1 :: x2 :: x3 :: r) =
  negb (list_eqb (snd x1) (snd x2)) && no_missed_stop (x2 :: x3 :: r).
Proof. destruct x1 as [[? ?] ?], x2 as [[? ?] ?]. reflexivity. Qed.

Section MainLoopP.
  Context {M C : Type}.
  Variables (repopF : list nat -> option (list nat))
            (fitF : list nat -> option M)
            (labelF : M -> list nat * C).
  Local Notation LOOP := (loop repopF fitF labelF).
  Local Notation RUN := (run repopF fitF labelF).

  (* every recorded round was computed by the phases, in order, from the previous round's labels *)
  Inductive Chain : nat -> list nat -> list (@round_rec M C) -> Prop :=
  | Chain_nil i cur : Chain i cur []
  | Chain_cons i cur r t :
      r_index r = i -> r_in r = cur ->
      (if Nat.eqb i 0 then r_fit_on r = cur else repopF cur = Some (r_fit_on r)) ->
      fitF (r_fit_on r) = Some (r_model r) ->
      labelF (r_model r) = (r_out r, r_cost r) ->
      Chain (S i) (r_out r) t -> Chain i cur (r :: t).

  Definition outs (t : list (@round_rec M C)) : list (list nat) := map r_out t.

  Lemma outs_length t : length (outs t) = length t.
  Proof. apply map_length. Qed.

  Lemma Chain_In i cur t : Chain i cur t -> forall r, In r t ->
    fitF (r_fit_on r) = Some (r_model r) /\
    labelF (r_model r) = (r_out r, r_cost r) /\
    (r_index r <> 0 -> repopF (r_in r) = Some (r_fit_on r)).
  Proof.
    induction 1 as [|i cur r t Hi Hin Hrep Hfit Hlab Hch IH]; intros r0 Hr; simpl in Hr;
      [contradiction|].
    destruct Hr as [E|Hr]; [subst r0|apply IH; exact Hr].
    split; [exact Hfit|]. split; [exact Hlab|].
    intro Hne. rewrite Hi in Hne. apply Nat.eqb_neq in Hne. rewrite Hne in Hrep.
    rewrite Hin. exact Hrep.
  Qed.

  Lemma Chain_nth i cur t : Chain i cur t -> forall j r, nth_error t j = Some r ->
    r_index r = i + j /\
    r_in r = match j with
             | 0 => cur
             | S j' => match nth_error t j' with Some r' => r_out r' | None => [] end
             end.
  Proof.
    induction 1 as [|i cur r t Hi Hin Hrep Hfit Hlab Hch IH]; intros j r0 Hj.
    - destruct j; discriminate.
    - destruct j as [|j]; simpl in Hj.
      + injection Hj as <-. split; [lia|exact Hin].
      + destruct (IH j r0 Hj) as [A B]. split; [lia|].
        rewrite B. destruct j; reflexivity.
  Qed.

  Definition pre (prev : option (list nat)) : list (list nat) :=
    match prev with Some p => [p] | None => [] end.

  Lemma loop_done : forall n i prev cur acc t e p,
    LOOP n i prev cur acc = Done t e p ->
    exists t', t = rev acc ++ t' /\ Chain i cur t' /\ length t' <= n /\ p = PoolClosedJoined /\
      (e = false -> length t' = n) /\
      (e = true -> 1 <= length t' /\ 2 <= length (pre prev ++ outs t') /\
                   agree_at (pre prev ++ outs t') (length (pre prev ++ outs t') - 2)) /\
      (forall j, S (S j) < length (pre prev ++ outs t') -> ~ agree_at (pre prev ++ outs t') j).
  Proof.
    induction n as [|n IH]; intros i prev cur acc t e p H; simpl in H.
    - injection H as <- <- <-. exists []. rewrite app_nil_r.
      split; [reflexivity|]. split; [constructor|]. split; [simpl; lia|].
      split; [reflexivity|]. split; [reflexivity|]. split; [discriminate|].
      intros j Hj. destruct prev; simpl in Hj; lia.
    - destruct (if Nat.eqb i 0 then Some cur else repopF cur) as [l1|] eqn:E1; [|discriminate].
      destruct (fitF l1) as [m|] eqn:E2; [|discriminate].
      destruct (labelF m) as [l2 c] eqn:E3.
      assert (Hrep : if Nat.eqb i 0 then l1 = cur else repopF cur = Some l1).
      { destruct (Nat.eqb i 0); congruence. }
      assert (Hc : forall t'', Chain (S i) l2 t'' -> Chain i cur (mk_round i cur l1 m l2 c :: t'')).
      { intros t'' Ht. apply Chain_cons; simpl; auto. }
      destruct (match prev with Some p0 => list_eqb p0 l2 | None => false end) eqn:E4.
      + destruct prev as [p0|]; [|discriminate].
        apply list_eqb_spec in E4. subst p0.
        injection H as <- <- <-. exists [mk_round i cur l1 m l2 c].
        split; [reflexivity|]. split; [apply Hc; constructor|]. split; [simpl; lia|].
        split; [reflexivity|]. split; [discriminate|]. split.
        * intros _. simpl. split; [lia|]. split; [lia|]. exists l2, l2. simpl. auto.
        * intros j Hj. simpl in Hj. lia.
      + apply IH in H. destruct H as (t'' & Ht & Hch & Hlen & Hp & Hf & Ht' & Hna).
        exists (mk_round i cur l1 m l2 c :: t'').
        split; [simpl in Ht; rewrite <- app_assoc in Ht; exact Ht|].
        split; [apply Hc; exact Hch|]. split; [simpl; lia|]. split; [exact Hp|].
        split; [intro He; simpl; rewrite (Hf He); reflexivity|].
        destruct prev as [p0|].
        * apply list_eqb_false in E4.
          change (pre (Some p0) ++ outs (mk_round i cur l1 m l2 c :: t''))
            with (p0 :: (pre (Some l2) ++ outs t'')).
          set (F := pre (Some l2) ++ outs t'') in *.
          split.
          -- intro He. destruct (Ht' He) as (A & B & Cc).
             split; [simpl; lia|]. split; [change (length (p0 :: F)) with (S (length F)); lia|].
             replace (length (p0 :: F) - 2) with (S (length F - 2)) by (change (length (p0 :: F)) with (S (length F)); lia).
             apply agree_at_cons. exact Cc.
          -- intros j Hj. destruct j as [|j].
             ++ intros (a & b & Ha & Hb & Hab). simpl in Ha, Hb.
                injection Ha as <-. injection Hb as <-. contradiction.
             ++ rewrite agree_at_cons. apply Hna. change (length (p0 :: F)) with (S (length F)) in Hj. lia.
        * change (pre None ++ outs (mk_round i cur l1 m l2 c :: t''))
            with (pre (Some l2) ++ outs t'').
          split; [|exact Hna].
          intro He. destruct (Ht' He) as (A & B & Cc).
          split; [simpl; lia|]. split; [exact B|exact Cc].
  Qed.

  Lemma loop_failed : forall n i prev cur acc t p,
    LOOP n i prev cur acc = Failed t p ->
    exists t', t = rev acc ++ t' /\ Chain i cur t' /\ length t' < n /\ p = PoolTerminatedJoined /\
      ((i + length t' <> 0 /\
        repopF (match last_error t' with Some r => r_out r | None => cur end) = None) \/
       (exists l1,
          (if Nat.eqb (i + length t') 0
           then l1 = match last_error t' with Some r => r_out r | None => cur end
           else repopF (match last_error t' with Some r => r_out r | None => cur end) = Some l1) /\
          fitF l1 = None)).
  Proof.
    induction n as [|n IH]; intros i prev cur acc t p H; simpl in H; [discriminate|].
    destruct (if Nat.eqb i 0 then Some cur else repopF cur) as [l1|] eqn:E1.
    - assert (Hrep : if Nat.eqb i 0 then l1 = cur else repopF cur = Some l1).
      { destruct (Nat.eqb i 0); congruence. }
      destruct (fitF l1) as [m|] eqn:E2.
      + destruct (labelF m) as [l2 c] eqn:E3.
        assert (Hc : forall t'', Chain (S i) l2 t'' -> Chain i cur (mk_round i cur l1 m l2 c :: t'')).
        { intros t'' Ht. apply Chain_cons; simpl; auto. }
        destruct (match prev with Some p0 => list_eqb p0 l2 | None => false end) eqn:E4;
          [discriminate|].
        apply IH in H. destruct H as (t'' & Ht & Hch & Hlen & Hp & Hcase).
        exists (mk_round i cur l1 m l2 c :: t'').
        split; [simpl in Ht; rewrite <- app_assoc in Ht; exact Ht|].
        split; [apply Hc; exact Hch|]. split; [simpl; lia|]. split; [exact Hp|].
        rewrite last_error_cons.
        replace (i + length (mk_round i cur l1 m l2 c :: t'')) with (S i + length t'')
          by (simpl; lia).
        assert (Ecur : match (match last_error t'' with
                              | Some r => Some r
                              | None => Some (mk_round i cur l1 m l2 c)
                              end) with Some r => r_out r | None => cur end
                       = match last_error t'' with Some r => r_out r | None => l2 end).
        { destruct (last_error t''); reflexivity. }
        rewrite Ecur. exact Hcase.
      + injection H as <- <-. exists []. rewrite app_nil_r.
        split; [reflexivity|]. split; [constructor|]. split; [simpl; lia|].
        split; [reflexivity|].
        right. exists l1. unfold last_error. simpl. rewrite Nat.add_0_r.
        split; [exact Hrep|exact E2].
    - injection H as <- <-. exists []. rewrite app_nil_r.
      split; [reflexivity|]. split; [constructor|]. split; [simpl; lia|].
      split; [reflexivity|].
      left. unfold last_error. simpl. rewrite Nat.add_0_r.
      destruct (Nat.eqb i 0) eqn:Ei; [discriminate|]. apply Nat.eqb_neq in Ei.
      split; [exact Ei|exact E1].
  Qed.

  Lemma run_inv limit init o :
    RUN limit init = Some o -> limit <> 0 /\ o = LOOP limit 0 None init [].
  Proof.
    unfold run. destruct (Nat.eqb limit 0) eqn:E; intro H; [discriminate|].
    injection H as <-. split; [apply Nat.eqb_neq; exact E|reflexivity].
  Qed.

  Lemma run_done_inv limit init t e p : RUN limit init = Some (Done t e p) ->
    limit <> 0 /\ Chain 0 init t /\ length t <= limit /\ p = PoolClosedJoined /\
    (e = false -> length t = limit) /\
    (e = true -> 2 <= length t /\ agree_at (outs t) (length t - 2)) /\
    (forall j, S (S j) < length t -> ~ agree_at (outs t) j).
  Proof.
    intro H. apply run_inv in H. destruct H as [Hl H]. symmetry in H. apply loop_done in H.
    destruct H as (t' & Ht & Hch & Hlen & Hp & Hf & Ht' & Hna). simpl in Ht. subst t'.
    change (pre None ++ outs t) with (outs t) in *.
    split; [exact Hl|]. split; [exact Hch|]. split; [exact Hlen|]. split; [exact Hp|].
    split; [exact Hf|]. split.
    - intro He. destruct (Ht' He) as (A & B & Cc). rewrite outs_length in B, Cc.
      split; assumption.
    - intros j Hj. apply Hna. rewrite outs_length. exact Hj.
  Qed.

  Lemma result_of_last (t : list (@round_rec M C)) :
    result_of t = match last_error t with
                  | Some r => Some (r_out r, r_cost r, r_model r)
                  | None => None
                  end.
  Proof. unfold result_of, last_error. destruct (rev t); reflexivity. Qed.

  (* ---------- the theorems ---------- *)

  (* L1 *)
  Theorem run_zero init : RUN 0 init = None.
  Proof. reflexivity. Qed.

  (* L2 *)
  Theorem run_rounds limit init t e p :
    RUN limit init = Some (Done t e p) -> 1 <= length t <= limit.
  Proof.
    intro H. destruct (run_done_inv _ _ _ _ _ H) as (Hl & Hch & Hlen & Hp & Hf & Ht' & Hna).
    destruct e.
    - destruct (Ht' eq_refl) as [A _]. lia.
    - pose proof (Hf eq_refl). lia.
  Qed.

  (* L3 *)
  Theorem run_chain limit init t e p :
    RUN limit init = Some (Done t e p) -> Chain 0 init t.
  Proof. intro H. apply (run_done_inv _ _ _ _ _ H). Qed.

  (* L4 *)
  Theorem run_early_stop limit init t e p :
    RUN limit init = Some (Done t e p) ->
    (e = true -> 2 <= length t /\ agree_at (outs t) (length t - 2)) /\
    (e = false -> length t = limit) /\
    (forall j, S (S j) < length t -> ~ agree_at (outs t) j).
  Proof.
    intro H. destruct (run_done_inv _ _ _ _ _ H) as (Hl & Hch & Hlen & Hp & Hf & Ht' & Hna).
    split; [exact Ht'|]. split; [exact Hf|exact Hna].
  Qed.

  (* L5 *)
  Theorem run_fixed_point limit init t p :
    RUN limit init = Some (Done t true p) ->
    exists l l1 m c, result_of t = Some (l, c, m) /\ repopF l = Some l1 /\
                     fitF l1 = Some m /\ fst (labelF m) = l.
  Proof.
    intro H. destruct (run_done_inv _ _ _ _ _ H) as (Hl & Hch & Hlen & Hp & Hf & Ht' & Hna).
    destruct (Ht' eq_refl) as [A (a & b & Ha & Hb & Hab)].
    unfold outs in Ha, Hb.
    apply nth_error_map_inv in Ha. destruct Ha as (r2 & Hr2 & Ea).
    apply nth_error_map_inv in Hb. destruct Hb as (r1 & Hr1 & Eb).
    destruct (Chain_nth _ _ _ Hch _ _ Hr1) as [Hidx Hin]. rewrite Hr2 in Hin.
    destruct (Chain_In _ _ _ Hch r1 (nth_error_In _ _ Hr1)) as (Hfit & Hlab & Hrep).
    exists (r_out r1), (r_fit_on r1), (r_model r1), (r_cost r1).
    split.
    - rewrite result_of_last, last_error_nth.
      replace (length t - 1) with (S (length t - 2)) by lia. rewrite Hr1. reflexivity.
    - split.
      + replace (r_out r1) with (r_in r1) by congruence. apply Hrep. lia.
      + split; [exact Hfit|]. rewrite Hlab. reflexivity.
  Qed.

  (* L6 *)
  Theorem run_result limit init t e p :
    RUN limit init = Some (Done t e p) ->
    exists r, last_error t = Some r /\
              result_of t = Some (r_out r, r_cost r, r_model r) /\
              fitF (r_fit_on r) = Some (r_model r) /\
              labelF (r_model r) = (r_out r, r_cost r).
  Proof.
    intro H. pose proof (run_rounds _ _ _ _ _ H) as [H1 _].
    pose proof (run_chain _ _ _ _ _ H) as Hch.
    rewrite result_of_last. destruct (last_error t) as [r|] eqn:E.
    - exists r. split; [reflexivity|]. split; [reflexivity|].
      destruct (Chain_In _ _ _ Hch r (last_error_In _ _ E)) as (Hfit & Hlab & _).
      split; assumption.
    - exfalso. rewrite last_error_nth in E. apply nth_error_None in E. lia.
  Qed.

  (* L7 *)
  Theorem run_pool limit init o :
    RUN limit init = Some o ->
    match o with
    | Done _ _ p => p = PoolClosedJoined
    | Failed _ p => p = PoolTerminatedJoined
    end.
  Proof.
    intro H. destruct o as [t p|t e p].
    - apply run_inv in H. destruct H as [_ H]. symmetry in H. apply loop_failed in H.
      destruct H as (t' & _ & _ & _ & Hp & _). exact Hp.
    - apply (run_done_inv _ _ _ _ _ H).
  Qed.

  (* L8 *)
  Theorem run_failed limit init t p :
    RUN limit init = Some (Failed t p) ->
    Chain 0 init t /\ length t < limit /\
    let cur := match last_error t with Some r => r_out r | None => init end in
    ((t <> [] /\ repopF cur = None) \/
     (exists l1, (if Nat.eqb (length t) 0 then l1 = cur else repopF cur = Some l1) /\
                 fitF l1 = None)).
  Proof.
    intro H. apply run_inv in H. destruct H as [Hl H]. symmetry in H. apply loop_failed in H.
    destruct H as (t' & Ht & Hch & Hlen & Hp & Hcase).
    change (rev [] ++ t') with t' in Ht. subst t'.
    change (0 + length t) with (length t) in Hcase.
    split; [exact Hch|]. split; [exact Hlen|]. cbv zeta.
    destruct Hcase as [[A B]|(l1 & A & B)].
    - left. split; [|exact B]. intro E. subst t. apply A. reflexivity.
    - right. exists l1. split; assumption.
  Qed.

  (* L9 *)
  Theorem run_no_result_from_failure limit init t e p :
    RUN limit init = Some (Done t e p) ->
    forall r, In r t ->
      fitF (r_fit_on r) = Some (r_model r) /\
      (r_index r <> 0 -> repopF (r_in r) = Some (r_fit_on r)).
  Proof.
    intros H r Hr. pose proof (run_chain _ _ _ _ _ H) as Hch.
    destruct (Chain_In _ _ _ Hch r Hr) as (Hfit & _ & Hrep). split; assumption.
  Qed.

  (* ---------- the acceptor accepts every model trace (L12) ---------- *)
  Lemma chain_ok_model K :
    (forall l, has_small_cluster K l = false -> repopF l = Some l) ->
    forall i cur t, Chain i cur t -> chain_ok K i cur (map proj t) = true.
  Proof.
    intros gate i cur t H.
    induction H as [|i cur r t Hi Hin Hrep Hfit Hlab Hch IH]; [reflexivity|].
    change (map proj (r :: t)) with ((r_in r, r_fit_on r, r_out r) :: map proj t).
    cbn [chain_ok]. rewrite IH, andb_true_r. subst cur. rewrite list_eqb_refl.
    cbn [andb].
    destruct (Nat.eqb i 0).
    - rewrite Hrep. apply list_eqb_refl.
    - destruct (has_small_cluster K (r_in r)) eqn:Eh; [reflexivity|].
      pose proof (gate _ Eh) as G. rewrite Hrep in G. injection G as G.
      rewrite G. apply list_eqb_refl.
  Qed.

  Lemma nms_model : forall t : list (@round_rec M C),
    (forall j, S (S j) < length t -> ~ agree_at (outs t) j) ->
    no_missed_stop (map proj t) = true.
  Proof.
    induction t as [|r1 t IH]; intro H; [reflexivity|].
    destruct t as [|r2 [|r3 t]]; try reflexivity.
    change (map proj (r1 :: r2 :: r3 :: t))
      with (proj r1 :: proj r2 :: proj r3 :: map proj t).
    rewrite nms_unfold. apply andb_true_intro. split.
    - cbn [proj snd]. destruct (list_eqb (r_out r1) (r_out r2)) eqn:E; [|reflexivity].
      exfalso. apply list_eqb_spec in E. apply (H 0); [simpl; lia|].
      exists (r_out r1), (r_out r2). simpl. auto.
    - apply IH. intros j Hj Hag. apply (H (S j)); [simpl in *; lia|].
      change (outs (r1 :: r2 :: r3 :: t)) with (r_out r1 :: outs (r2 :: r3 :: t)).
      apply agree_at_cons. exact Hag.
  Qed.

  (* L12 *)
  Theorem accept_c09_complete_on_model K limit init t e p :
    (forall l, has_small_cluster K l = false -> repopF l = Some l) ->
    RUN limit init = Some (Done t e p) ->
    forall l c m, result_of t = Some (l, c, m) ->
                  accept_c09 K limit init (map proj t) l = true.
  Proof.
    intros gate H l c m Hres.
    destruct (run_done_inv _ _ _ _ _ H) as (Hl & Hch & Hlen & Hp & Hf & Ht' & Hna).
    pose proof (run_rounds _ _ _ _ _ H) as [H1 _].
    unfold accept_c09. rewrite map_length.
    repeat (apply andb_true_intro; split).
    - apply Nat.leb_le. exact H1.
    - apply Nat.leb_le. exact Hlen.
    - apply chain_ok_model; assumption.
    - apply nms_model. exact Hna.
    - apply orb_true_iff. destruct e.
      + right. destruct (Ht' eq_refl) as [A (a & b & Ha & Hb & Hab)].
        unfold last_two_equal. rewrite <- map_rev.
        destruct (rev t) as [|r1 [|r2 rs]] eqn:E.
        * exfalso. assert (length t = 0) by (rewrite <- (rev_length t), E; reflexivity). lia.
        * exfalso. pose proof (rev_cons_length _ _ _ E) as Hlt. simpl in Hlt. lia.
        * pose proof (rev_cons_last _ _ _ E) as L1.
          pose proof (rev_cons_last2 _ _ _ _ E) as L2.
          apply (map_nth_error r_out) in L1. apply (map_nth_error r_out) in L2.
          unfold outs in Ha, Hb.
          replace (S (length t - 2)) with (length t - 1) in Hb by lia.
          cbn [map proj]. apply list_eqb_spec. congruence.
      + left. apply Nat.eqb_eq. apply Hf. reflexivity.
    - unfold result_of in Hres. rewrite <- map_rev.
      destruct (rev t) as [|r0 rs]; [discriminate|].
      injection Hres as <- _ _. cbn [map proj]. apply list_eqb_refl.
  Qed.

End MainLoopP.

(* L10: the pre-repair loop leaves the pool open when a task fails *)
Example legacy_pool_leak : exists (fitF : list nat -> option nat),
  loop_legacy (fun l => Some l) fitF (fun m => ([m], 0)) 3 0 None [0] = PoolOpen.
Proof. exists (fun _ => None). reflexivity. Qed.

(* ---------- the acceptor ---------- *)
(* Prop reading of the acceptor *)
Definition Spec3 (K limit : nat) (init : list nat) (t : list rec3) (res : list nat) : Prop :=
  1 <= length t <= limit /\
  (forall j lin lfit lout, nth_error t j = Some (lin, lfit, lout) ->
      lin = (match j with
             | 0 => init
             | S j' => match nth_error t j' with Some (_, _, o) => o | None => [] end
             end) /\
      (j = 0 -> lfit = lin) /\
      (j <> 0 -> has_small_cluster K lin = false -> lfit = lin)) /\
  (forall j a b, S (S j) < length t -> nth_error (map (fun x => snd x) t) j = Some a ->
      nth_error (map (fun x => snd x) t) (S j) = Some b -> a <> b) /\
  (length t = limit \/
   (2 <= length t /\
    exists a b, nth_error (map (fun x => snd x) t) (length t - 2) = Some a /\
                nth_error (map (fun x => snd x) t) (length t - 1) = Some b /\ a = b)) /\
  (exists lin lfit, nth_error t (length t - 1) = Some (lin, lfit, res)).

Lemma chain_ok_nth K : forall t i prev, chain_ok K i prev t = true ->
  forall j lin lfit lout, nth_error t j = Some (lin, lfit, lout) ->
    lin = (match j with
           | 0 => prev
           | S j' => match nth_error t j' with Some (_, _, o) => o | None => [] end
           end) /\
    (i + j = 0 -> lfit = lin) /\
    (i + j <> 0 -> has_small_cluster K lin = false -> lfit = lin).
Proof.
  induction t as [|[[lin0 lfit0] lout0] r IH]; intros i prev H j lin lfit lout Hj.
  - destruct j; discriminate.
  - cbn [chain_ok] in H. apply andb_prop in H. destruct H as [H H3].
    apply andb_prop in H. destruct H as [H1 H2]. apply list_eqb_spec in H1.
    destruct j as [|j]; simpl in Hj.
    + injection Hj as <- <- <-. split; [exact H1|]. split.
      * intro E. assert (Ei : i = 0) by lia. subst i. simpl in H2.
        apply list_eqb_spec. exact H2.
      * intros Ne Hs. assert (Ei : Nat.eqb i 0 = false) by (apply Nat.eqb_neq; lia).
        rewrite Ei, Hs in H2. apply list_eqb_spec. exact H2.
    + destruct (IH _ _ H3 _ _ _ _ Hj) as (A & B & Cc). split.
      * rewrite A. destruct j; reflexivity.
      * split.
        -- intro E. apply B. lia.
        -- intros Ne. apply Cc. lia.
Qed.

Lemma no_missed_nth : forall t, no_missed_stop t = true ->
  forall j a b, S (S j) < length t ->
    nth_error (map (fun x => snd x) t) j = Some a ->
    nth_error (map (fun x => snd x) t) (S j) = Some b -> a <> b.
Proof.
  induction t as [|x1 t IH]; intros H j a b Hj Ha Hb; [simpl in Hj; lia|].
  destruct t as [|x2 [|x3 t]]; try (simpl in Hj; lia).
  rewrite nms_unfold in H. apply andb_prop in H. destruct H as [H1 H2].
  destruct j as [|j].
  - simpl in Ha, Hb. injection Ha as <-. injection Hb as <-.
    apply list_eqb_false. destruct (list_eqb (snd x1) (snd x2)); [discriminate|reflexivity].
  - apply (IH H2 j a b); [simpl in *; lia|exact Ha|exact Hb].
Qed.

(* L11 *)
Theorem accept_c09_sound K limit init t res :
  accept_c09 K limit init t res = true -> Spec3 K limit init t res.
Proof.
  unfold accept_c09. intro H.
  apply andb_prop in H. destruct H as [H H6].
  apply andb_prop in H. destruct H as [H H5].
  apply andb_prop in H. destruct H as [H H4].
  apply andb_prop in H. destruct H as [H H3].
  apply andb_prop in H. destruct H as [H1 H2].
  apply Nat.leb_le in H1. apply Nat.leb_le in H2.
  unfold Spec3. split; [lia|]. split.
  { intros j lin lfit lout Hj.
    destruct (chain_ok_nth K _ _ _ H3 _ _ _ _ Hj) as (A & B & Cc).
    split; [exact A|]. split.
    - intro E. apply B. lia.
    - intros Ne. apply Cc. lia. }
  split; [apply no_missed_nth; exact H4|].
  split.
  { apply orb_true_iff in H5. destruct H5 as [H5|H5].
    - left. apply Nat.eqb_eq. exact H5.
    - right. unfold last_two_equal in H5.
      destruct (rev t) as [|[[li2 lf2] o2] [|[[li1 lf1] o1] rs]] eqn:E; try discriminate.
      apply list_eqb_spec in H5.
      pose proof (rev_cons_length _ _ _ E) as Hlt. simpl in Hlt.
      pose proof (rev_cons_last _ _ _ E) as L1.
      pose proof (rev_cons_last2 _ _ _ _ E) as L2.
      split; [lia|]. exists o1, o2.
      split; [exact (map_nth_error (fun x : rec3 => snd x) _ _ L2)|].
      split; [exact (map_nth_error (fun x : rec3 => snd x) _ _ L1)|exact H5]. }
  destruct (rev t) as [|[[li lf] o] rs] eqn:E; [discriminate|].
  apply list_eqb_spec in H6. subst res.
  exists li, lf. exact (rev_cons_last _ _ _ E).
Qed.

Print Assumptions run_early_stop.
Print Assumptions accept_c09_sound.
