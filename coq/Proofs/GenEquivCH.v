(* Second tie: cluster_metrics.calinski_harabasz_index AS TRANSLATED from /repo's working tree by vcheck/py2coq.py
   (Gen/G_cluster_metrics.v, regenerated on every run) equals, over the reals, the faithful model Model/Accounting.ch_impl -
   the index AS IMPLEMENTED, centred on the scalar mean of all entries (the known finding scalar-centre).  The matrices the code
   accumulates (outer products, their sums) are opaque; what is assumed of them is linearity of the trace and
   trace(v v^T) = v.v - the algebra NumPy's operations have in exact arithmetic.  Closed under the global context
   except for the standard-library axioms of R. *)
From Coq Require Import String ZArith QArith List Bool Lia Arith Reals Lra.
From Ticc Require Import Gen.PyRt Gen.G_cluster_metrics Model.Viterbi Model.Accounting Proofs.AccountingP.
Import ListNotations.

Section E.
  Variable M : Type.
  Variable np_mean_all : arr2 R -> R.
  Variable np_outer : list R -> list R -> M.
  Variable np_mat_of_int : Z -> M.
  Variable np_mat_add : M -> M -> M.
  Variable np_mat_scale : R -> M -> M.
  Variable np_trace : M -> R.
  Variable of_q : Q -> R.
  Hypothesis tr_zero : np_trace (np_mat_of_int 0%Z) = 0%R.
  Hypothesis tr_add : forall A B : M, np_trace (np_mat_add A B) = (np_trace A + np_trace B)%R.
  Hypothesis tr_scale : forall (s : R) (A : M), np_trace (np_mat_scale s A) = (s * np_trace A)%R.
  Hypothesis tr_outer : forall v : list R, np_trace (np_outer v v) = sqR v.
  Hypothesis of_q_div : forall a b : Z, of_q (Qdiv (inject_Z a) (inject_Z b)) = (IZR a / IZR b)%R.

  Definition ch_state (K : nat) (mems : nat -> list nat) (mu : nat -> list R) : ch_model R :=
    mk_ch_model (map (fun k => mk_ch_cluster (Z.of_nat (length (mems k))) (map Z.of_nat (mems k)) (mu k)) (seq 0 K)).

  Lemma st_getitem_nat {A : Type} (l : list A) (k : nat) (d : A) :
    (k < length l)%nat -> py_getitem l (Z.of_nat k) = Ret (nth k l d).
  Proof.
    intros Hk. unfold py_getitem, py_len. cbv zeta.
    assert (E1 : (Z.of_nat k <? 0)%Z = false) by (apply Z.ltb_ge; lia).
    assert (E2 : (Z.of_nat (length l) <=? Z.of_nat k)%Z = false) by (apply Z.leb_gt; lia).
    rewrite E1. cbv iota. rewrite E1, E2. cbn [orb]. rewrite Nat2Z.id, (nth_error_nth' l d Hk). reflexivity.
  Qed.

  Lemma bin_vv_eq (f : R -> R -> R) (a b : list R) : length a = length b -> np_bin_vv f a b = Ret (map2 f a b).
  Proof. intros H. unfold np_bin_vv. rewrite H, Nat.eqb_refl. reflexivity. Qed.

  Lemma sub_scalar_vsub (g : R) (d : nat) : forall v : list R, length v = d ->
    map (fun a => (a - g)%R) v = vsubR v (repeat g d).
  Proof.
    induction d as [|d IH]; intros v Hv.
    - destruct v; [reflexivity|discriminate].
    - destruct v as [|x v]; [discriminate|]. cbn [map repeat]. unfold vsubR, vsub in *. cbn [map2]. f_equal.
      apply IH. injection Hv as Hv. exact Hv.
  Qed.

  (* inner loop: only the trace of the accumulated matrix matters *)
  Lemma inner_loop (T d : nat) (data : list (list R)) (muk : list R) :
    length data = T -> Forall (fun r => length r = d) data -> length muk = d ->
    forall (mem : list nat) (den : M), Forall (fun p => (p < T)%nat) mem ->
    exists den' : M,
      foldM (fun (denominator : M) (point_id : Z) =>
               t5_ <- np_row (mk_arr2 (Z.of_nat T) (Z.of_nat d) data) point_id ;;
               t6_ <- np_bin_vv Rminus t5_ muk ;;
               Ret (np_mat_add denominator (np_outer t6_ t6_))) (map Z.of_nat mem) den = Ret den' /\
      np_trace den' = (np_trace den + sumR (map (fun p => sqR (vsubR (row data p) muk)) mem))%R.
  Proof.
    intros Hlen Hrows Hmu mem. induction mem as [|p mem IH]; intros den Hmem.
    - exists den. split; [reflexivity|]. cbn [map]. rewrite sumR_nil. lra.
    - inversion Hmem as [|p' mem' Hp Hmem']; subst p' mem'.
      cbn [map foldM]. unfold np_row. cbn [a_cells].
      rewrite (st_getitem_nat data p []) by (rewrite Hlen; exact Hp). cbn [bind].
      assert (Hr : length (nth p data []) = length muk).
      { rewrite Hmu. rewrite Forall_forall in Hrows. apply Hrows. apply nth_In. rewrite Hlen. exact Hp. }
      rewrite (bin_vv_eq Rminus _ _ Hr). cbn [bind].
      destruct (IH (np_mat_add den (np_outer (map2 Rminus (nth p data []) muk) (map2 Rminus (nth p data []) muk))) Hmem') as [den' [Hf Ht]].
      exists den'. split; [exact Hf|].
      rewrite Ht, tr_add, tr_outer. cbn [map]. rewrite sumR_cons. unfold row, vsubR, vsub. lra.
  Qed.

  Theorem g_ch_eq (K T d : nat) (data : list (list R)) (mems : nat -> list nat) (mu : nat -> list R) :
    (2 <= K)%nat -> (K <= T)%nat -> length data = T -> Forall (fun r => length r = d) data ->
    (forall k, (k < K)%nat -> length (mu k) = d) ->
    (forall k, (k < K)%nat -> Forall (fun p => (p < T)%nat) (mems k)) ->
    np_mean_all (mk_arr2 (Z.of_nat T) (Z.of_nat d) data) = grand_scalarR data ->
    g_calinski_harabasz_index R Rminus Rmult Rdiv IZR M np_mean_all np_outer np_mat_of_int np_mat_add np_mat_scale np_trace of_q
       (mk_arr2 (Z.of_nat T) (Z.of_nat d) data) (ch_state K mems mu)
    = Ret (ch_implR K data mems mu).
  Proof.
    intros HK HKT Hlen Hrows Hmu Hmems Hmean.
    unfold g_calinski_harabasz_index. rewrite Hmean.
    set (g := grand_scalarR data).
    assert (Hd : length (hd [] data) = d).
    { destruct data as [|r0 rest]; [cbn in Hlen; lia|]. cbn [hd]. inversion Hrows; assumption. }
    unfold ch_state. cbn [cm_clusters].
    match goal with |- context [foldM ?body (map _ (seq 0 K)) _] => set (BODY := body) end.
    (* outer loop over a sub-range of the clusters *)
    assert (Houter : forall n k0 (num den : M), (k0 + n <= K)%nat ->
      exists num' den' : M,
        foldM BODY (map (fun k => mk_ch_cluster (Z.of_nat (length (mems k))) (map Z.of_nat (mems k)) (mu k)) (seq k0 n)) (num, den)
        = Ret (num', den') /\
        np_trace num' = (np_trace num + sumR (map (fun k => INR (length (mems k)) * sqR (vsubR (mu k) (repeat g d))) (seq k0 n)))%R /\
        np_trace den' = (np_trace den + sumR (map (fun k => sumR (map (fun p => sqR (vsubR (row data p) (mu k))) (mems k))) (seq k0 n)))%R).
    { induction n as [|n IH]; intros k0 num den Hk.
      - exists num, den. cbn [seq map foldM]. rewrite !sumR_nil. repeat split; lra.
      - cbn [seq map foldM]. unfold BODY at 1. cbn [cc_stacked_data_mean cc_size cc_member_points].
        assert (Hk0 : (k0 < K)%nat) by lia.
        destruct (inner_loop T d data (mu k0) Hlen Hrows (Hmu k0 Hk0) (mems k0) den (Hmems k0 Hk0)) as [den1 [Hf1 Ht1]].
        cbv zeta. rewrite Hf1. cbn [bind].
        destruct (IH (S k0) (np_mat_add num (np_mat_scale (IZR (Z.of_nat (length (mems k0))))
                      (np_outer (map (fun a_ => (a_ - g)%R) (mu k0)) (map (fun a_ => (a_ - g)%R) (mu k0))))) den1 ltac:(lia))
          as [num' [den' [Hf [Htn Htd]]]].
        exists num', den'. split; [exact Hf|]. split.
        + rewrite Htn, tr_add, tr_scale, tr_outer, (sub_scalar_vsub g d (mu k0) (Hmu k0 Hk0)).
          rewrite <- INR_IZR_INZ. rewrite sumR_cons. lra.
        + rewrite Htd, Ht1. rewrite sumR_cons. lra. }
    destruct (Houter K 0%nat (np_mat_of_int 0) (np_mat_of_int 0) ltac:(lia)) as [num' [den' [Hf [Htn Htd]]]].
    rewrite Hf. cbn [bind].
    unfold py_len. rewrite map_length, seq_length. cbn [a_rows].
    unfold py_truediv_int.
    assert (Hnz : (Z.of_nat K - 1 =? 0)%Z = false) by (apply Z.eqb_neq; lia).
    rewrite Hnz. cbn [bind]. rewrite of_q_div. f_equal.
    rewrite Htn, Htd, tr_zero, !Rplus_0_l.
    unfold ch_implR, ch_impl, ch_ratio. rewrite Hd, Hlen. fold g.
    assert (E1 : IZR (Z.of_nat T - Z.of_nat K) = INR (T - K)).
    { rewrite minus_INR by exact HKT. rewrite minus_IZR, <- !INR_IZR_INZ. reflexivity. }
    assert (E2 : IZR (Z.of_nat K - 1) = INR (K - 1)).
    { rewrite minus_INR by lia. rewrite minus_IZR, <- INR_IZR_INZ. reflexivity. }
    rewrite E1, E2. reflexivity.
  Qed.
End E.
Print Assumptions g_ch_eq.

(* sanity on an integer carrier with M := Z (a matrix is represented by its trace) *)
Definition zdot (u v : list Z) : Z := fold_left Z.add (map2 Z.mul u v) 0%Z.
Definition zdata : list (list Z) := [[0;10];[2;10];[10;10];[12;10]]%Z.
Definition zmems (k : nat) : list nat := match k with 0 => [0;1] | _ => [2;3] end%nat.
Definition zmu (k : nat) : list Z := match k with 0%nat => [1;10] | _ => [11;10] end%Z.
Eval vm_compute in g_calinski_harabasz_index Z Z.sub Z.mul Z.div (fun z => z) Z (fun a => 8%Z) zdot (fun z => z) Z.add Z.mul (fun m => m) (fun q => Qnum q / Zpos (Qden q))%Z
   (mk_arr2 4 2 zdata) (mk_ch_model (map (fun k => mk_ch_cluster (Z.of_nat (length (zmems k))) (map Z.of_nat (zmems k)) (zmu k)) (seq 0 2))).
Eval vm_compute in ch_impl 0%Z Z.add Z.sub Z.mul Z.div Z.of_nat 2 zdata zmems zmu.
