(* Global optimality of the labelling kernel over the integers: the same proof script as Proofs/ViterbiR.v
   with lia for lia (generated once by textual substitution, then maintained as an ordinary file).  The integer
   instance is executable, so its hypotheses and conclusions can be computed on examples. *)
From Coq Require Import List Arith NArith ZArith Lia Bool.
Import ListNotations.
From Ticc Require Import Model.Viterbi Proofs.ViterbiShape.
Open Scope Z_scope.

Notation argminZ := (argmin Z.ltb).
Notation argmin_fromZ := (argmin_from Z.ltb).
Notation stepvZ := (stepv 0 Z.sub Z.ltb).
Notation stepZ := (step 0 Z.add Z.sub Z.ltb).
Notation bwZ := (bw 0 Z.add Z.sub Z.ltb).
Notation viterbiZ := (viterbi 0 Z.add Z.sub Z.ltb).
Notation tcostZ := (tcost 0 Z.add).
Notation pcostZ := (pcost 0 Z.add).

Lemma Zltb_true x y : Z.ltb x y = true <-> x < y.
Proof. apply Z.ltb_lt. Qed.
Lemma Zltb_false x y : Z.ltb x y = false <-> y <= x.
Proof. apply Z.ltb_ge. Qed.

Lemma map2_nth_Z (f : Z -> Z -> Z) l1 l2 k : length l1 = length l2 -> (k < length l1)%nat ->
  nth k (map2 f l1 l2) 0 = f (nth k l1 0) (nth k l2 0).
Proof. revert l2 k; induction l1 as [|x r IH]; intros [|y r2] k H Hk; simpl in *; try lia.
  destruct k; [reflexivity|]. apply IH; lia. Qed.

Lemma repeat_nth0 K k : nth k (repeat 0 K) 0 = 0.
Proof. revert k; induction K; intros [|k]; simpl; auto. Qed.

(* ---- argmin returns a minimum ---- *)
Lemma argmin_from_spec : forall l best bi i,
  (bi < i)%nat ->
  let a := argmin_fromZ best bi i l in
  ((a = bi) \/ (i <= a < i + length l)%nat) /\
  (forall d, (a = bi -> d = best) -> (forall k, (a = i + k)%nat -> d = nth k l 0) ->
     d <= best /\ forall k, (k < length l)%nat -> d <= nth k l 0).
Proof.
  induction l as [|x r IH]; intros best bi i Hlt; cbn [Viterbi.argmin_from length].
  - split; [left; reflexivity|]. intros d Hb _. split; [rewrite Hb by reflexivity; lia| intros k Hk; simpl in Hk; lia].
  - destruct (Z.ltb x best) eqn:E.
    + apply Zltb_true in E. specialize (IH x i (S i) ltac:(lia)). cbn zeta in IH. destruct IH as [IH1 IH2].
      split.
      * destruct IH1 as [->|H]; right; simpl; lia.
      * intros d Hb Hk.
        destruct (IH2 d) as [Hd1 Hd2].
        { intros Ha. specialize (Hk 0%nat). rewrite Ha in Hk. specialize (Hk ltac:(lia)). simpl in Hk. exact Hk. }
        { intros k Ha. specialize (Hk (S k)). simpl in Hk. apply Hk. lia. }
        split; [lia|]. intros [|k] Hlen; simpl; [lia|]. apply Hd2. simpl in Hlen. lia.
    + apply Zltb_false in E. specialize (IH best bi (S i) ltac:(lia)). cbn zeta in IH. destruct IH as [IH1 IH2].
      split.
      * destruct IH1 as [H|H]; [left; exact H| right; simpl; lia].
      * intros d Hb Hk.
        destruct (IH2 d) as [Hd1 Hd2].
        { exact Hb. }
        { intros k Ha. specialize (Hk (S k)). simpl in Hk. apply Hk. lia. }
        split; [lia|]. intros [|k] Hlen; simpl; [lia|]. apply Hd2. simpl in Hlen. lia.
Qed.

Lemma argmin_spec : forall l, l <> [] ->
  (argminZ l < length l)%nat /\ forall k, (k < length l)%nat -> nth (argminZ l) l 0 <= nth k l 0.
Proof.
  intros [|x r] Hne; [congruence|]. unfold Viterbi.argmin.
  pose proof (argmin_from_spec r x 0%nat 1%nat ltac:(lia)) as H. cbn zeta in H.
  destruct H as [H1 H2]. split.
  - simpl. destruct H1 as [->|H]; lia.
  - set (a := argmin_fromZ x 0 1 r) in *.
    destruct (H2 (nth a (x :: r) 0)) as [Ha Hb].
    + intros ->. reflexivity.
    + intros k ->. reflexivity.
    + intros [|k] Hk; simpl; [exact Ha|]. apply Hb. simpl in Hk. lia.
Qed.

(* ---- one backward step ---- *)
Lemma step_spec K beta fut cost f p :
  (0 < K)%nat -> (N.of_nat K <= 65536)%N -> 0 <= beta -> length fut = K -> length cost = K ->
  stepZ beta fut cost = (f, p) ->
  length f = K /\ length p = K /\
  forall c, (c < K)%nat ->
    let V := fun c' => nth c' fut 0 + nth c' cost 0 in
    (nth c p 0%nat < K)%nat /\
    nth c f 0 = (if Nat.eqb c (nth c p 0%nat) then 0 else beta) + V (nth c p 0%nat) /\
    forall c', (c' < K)%nat -> nth c f 0 <= (if Nat.eqb c c' then 0 else beta) + V c'.
Proof.
  intros HK HK16 Hb Hf Hc Hs. unfold Viterbi.step in Hs.
  set (total := map2 (fun f c => f + c + beta) fut cost) in *.
  assert (Hlen : length total = K) by (unfold total; rewrite map2_length; lia).
  assert (Hne : total <> []) by (destruct total; simpl in *; [lia|congruence]).
  destruct (argmin_spec total Hne) as [Hg Hmin]. set (g := argminZ total) in *.
  assert (Htot : forall k, (k < K)%nat -> nth k total 0 = nth k fut 0 + nth k cost 0 + beta).
  { intros k Hk. unfold total. rewrite map2_nth_Z by lia. reflexivity. }
  rewrite Hlen in *.
  assert (Ef : f = map (fun c => fst (stepvZ beta total g c)) (seq 0 K)).
  { rewrite <- split_map_fst. rewrite Hs. reflexivity. }
  assert (Ep : p = map (fun c => snd (stepvZ beta total g c)) (seq 0 K)).
  { rewrite <- split_map_snd. rewrite Hs. reflexivity. }
  split; [subst f; rewrite map_length, seq_length; reflexivity|].
  split; [subst p; rewrite map_length, seq_length; reflexivity|].
  intros c Hc' V. subst f p. rewrite !nth_map_seq by lia.
  unfold Viterbi.stepv. rewrite (Htot g Hg), (Htot c Hc').
  rewrite (wrap16_id g) by lia. rewrite (wrap16_id c) by lia.
  destruct (Z.ltb (nth g fut 0 + nth g cost 0 + beta) (nth c fut 0 + nth c cost 0 + beta - beta)) eqn:E; cbn [fst snd].
  - apply Zltb_true in E. split; [exact Hg|]. split.
    + destruct (Nat.eqb_spec c g) as [->|Hn]; unfold V; lia.
    + intros c' Hc''. pose proof (Hmin c' Hc'') as Hm. rewrite (Htot g Hg), (Htot c' Hc'') in Hm.
      destruct (Nat.eqb_spec c c') as [->|Hn]; unfold V; lia.
  - apply Zltb_false in E. split; [exact Hc'|]. split.
    + rewrite Nat.eqb_refl. unfold V. lia.
    + intros c' Hc''. pose proof (Hmin c' Hc'') as Hm. rewrite (Htot g Hg), (Htot c' Hc'') in Hm.
      destruct (Nat.eqb_spec c c') as [->|Hn]; unfold V; lia.
Qed.

(* ---- the backward invariant ---- *)
Lemma bw_inv K : (0 < K)%nat -> (N.of_nat K <= 65536)%N ->
  forall rows betas, rows <> [] -> wf_rows K rows -> Forall (fun b => 0 <= b) betas ->
  forall f P, bwZ K rows betas = (f, P) ->
  length f = K /\
  forall c, (c < K)%nat ->
    (length (follow c P) = length (tl rows) /\ wf_path K (follow c P) /\
     nth c f 0 = tcostZ c (tl rows) betas (follow c P)) /\
    forall q, length q = length (tl rows) -> wf_path K q -> nth c f 0 <= tcostZ c (tl rows) betas q.
Proof.
  intros HK HK16. induction rows as [|r rest IH]; intros betas Hne Hwf Hb f P Hbw; [congruence|].
  cbn [Viterbi.bw] in Hbw. destruct rest as [|r' rest'].
  - inversion Hbw; subst. split; [apply repeat_length|]. intros c Hc. cbn [tl length follow].
    split; [split; [reflexivity|split;[constructor|rewrite repeat_nth0; reflexivity]]|].
    intros [|? ?] Hq _; simpl in *; [rewrite repeat_nth0; lia|lia].
  - destruct (bwZ K (r' :: rest') (tl betas)) as [f' P'] eqn:E'.
    destruct (stepZ (hd 0 betas) f' r') as [f0 p0] eqn:Es. inversion Hbw; subst f0 P. clear Hbw.
    pose proof (Forall_inv_tail Hwf) as Hwf'. pose proof (Forall_inv Hwf') as Hr'. cbv beta in Hr'.
    assert (Hb' : Forall (fun b => 0 <= b) (tl betas)) by (destruct betas; simpl; [constructor|inversion Hb; assumption]).
    assert (Hb0 : 0 <= hd 0 betas) by (destruct betas; simpl; [lia|inversion Hb; assumption]).
    destruct (IH (tl betas) ltac:(congruence) Hwf' Hb' f' P' E') as [Hlf' IHc].
    destruct (step_spec K (hd 0 betas) f' r' f p0 HK HK16 Hb0 Hlf' Hr' Es) as [Hlf [Hlp Hstep]].
    split; [exact Hlf|]. intros c Hc. cbn [tl].
    destruct (Hstep c Hc) as [Hp [Heq Hle]]. cbn zeta in *.
    set (c1 := nth c p0 0%nat) in *.
    destruct (IHc c1 Hp) as [[Hfl [Hfw Hfe]] Hfle]. cbn [tl] in *.
    split.
    + cbn [follow]. fold c1. split; [simpl; rewrite Hfl; reflexivity|]. split; [constructor; assumption|].
      cbn [Viterbi.tcost]. rewrite <- Hfe. rewrite Heq. lia.
    + intros [|c' q'] Hq Hwq; [simpl in Hq; lia|]. pose proof (Forall_inv Hwq) as Hc''. pose proof (Forall_inv_tail Hwq) as Hwq'. cbv beta in Hc''.
      cbn [Viterbi.tcost]. specialize (Hle c' Hc''). destruct (IHc c' Hc'') as [_ Hfle']. cbn [tl] in Hfle'.
      specialize (Hfle' q' ltac:(simpl in Hq; lia) Hwq'). lia.
Qed.

Lemma broadcast_Z betas : broadcast 0 Z.add betas = betas.
Proof. unfold broadcast. rewrite <- (map_id betas) at 2. apply map_ext. intros; lia. Qed.

(* ---- top level ---- *)
Theorem viterbi_cost_is_path_cost K rows betas :
  (0 < K)%nat -> (N.of_nat K <= 65536)%N -> rows <> [] -> wf_rows K rows -> Forall (fun b => 0 <= b) betas ->
  snd (viterbiZ K rows betas) = pcostZ rows betas (fst (viterbiZ K rows betas)).
Proof.
  intros HK HK16 Hne Hwf Hb. unfold Viterbi.viterbi. rewrite broadcast_Z.
  destruct (bwZ K rows betas) as [f0 P] eqn:E.
  destruct (bw_inv K HK HK16 rows betas Hne Hwf Hb f0 P E) as [Hlf Hinv].
  destruct rows as [|r0 rest]; [congruence|]. cbn [hd tl fst snd] in *.
  pose proof (Forall_inv Hwf) as Hr0. cbv beta in Hr0.
  set (v0 := map2 Z.add f0 r0).
  assert (Hv : length v0 = K) by (unfold v0; rewrite map2_length; lia).
  assert (Hp0 : (argminZ v0 < K)%nat) by (rewrite <- Hv; apply argmin_spec; destruct v0; simpl in *; [lia|congruence]).
  destruct (Hinv _ Hp0) as [[_ [_ He]] _]. cbn [Viterbi.pcost]. rewrite <- He. lia.
Qed.

Theorem viterbi_optimal K rows betas :
  (0 < K)%nat -> (N.of_nat K <= 65536)%N -> rows <> [] -> wf_rows K rows -> Forall (fun b => 0 <= b) betas ->
  forall path, length path = length rows -> wf_path K path ->
  snd (viterbiZ K rows betas) <= pcostZ rows betas path.
Proof.
  intros HK HK16 Hne Hwf Hb path Hlen Hwp. unfold Viterbi.viterbi. rewrite broadcast_Z.
  destruct (bwZ K rows betas) as [f0 P] eqn:E.
  destruct (bw_inv K HK HK16 rows betas Hne Hwf Hb f0 P E) as [Hlf Hinv].
  destruct rows as [|r0 rest]; [congruence|]. cbn [hd tl fst snd] in *.
  destruct path as [|c q]; [simpl in Hlen; lia|].
  pose proof (Forall_inv Hwf) as Hr0. cbv beta in Hr0.
  pose proof (Forall_inv Hwp) as Hc. pose proof (Forall_inv_tail Hwp) as Hwq. cbv beta in Hc.
  set (v0 := map2 Z.add f0 r0).
  assert (Hv : length v0 = K) by (unfold v0; rewrite map2_length; lia).
  assert (Hv0ne : v0 <> []) by (destruct v0; simpl in *; [lia|congruence]).
  destruct (argmin_spec v0 Hv0ne) as [Hp0 Hmin]. rewrite Hv in *.
  specialize (Hmin c Hc). unfold v0 in Hmin, Hp0. rewrite !map2_nth_Z in Hmin by lia.
  destruct (Hinv c Hc) as [_ Hle]. specialize (Hle q ltac:(simpl in Hlen; lia) Hwq).
  cbn [Viterbi.pcost]. unfold v0. lia.
Qed.

(* pcost is "assignment costs + beta_i for every consecutive pair with different labels" *)
Lemma switch_sum_cons betas c c' q :
  switch_sum 0 Z.add betas (c :: c' :: q) =
  (if Nat.eqb c c' then 0 else hd 0 betas) + switch_sum 0 Z.add (tl betas) (c' :: q).
Proof. reflexivity. Qed.

Lemma tcost_split c rest betas q : length q = length rest ->
  tcostZ c rest betas q = assign_sum 0 Z.add rest q + switch_sum 0 Z.add betas (c :: q).
Proof.
  revert c betas q. induction rest as [|r rest IH]; intros c betas [|c' q] H; simpl in H; try lia.
  - simpl. lia.
  - rewrite switch_sum_cons. cbn [Viterbi.tcost assign_sum]. rewrite IH by lia. lia.
Qed.

Theorem pcost_is_assign_plus_switch rows betas path : length path = length rows ->
  pcostZ rows betas path = assign_sum 0 Z.add rows path + switch_sum 0 Z.add betas path.
Proof.
  destruct rows as [|r rest]; destruct path as [|c q]; intros H; simpl in H; try lia.
  - simpl. lia.
  - cbn [Viterbi.pcost assign_sum]. rewrite tcost_split by lia. lia.
Qed.

(* scalar beta = constant vector (definitional) *)
Lemma viterbi_scalar_is_vector K rows beta :
  viterbi_scalar 0 Z.add Z.sub Z.ltb K rows beta = viterbiZ K rows (repeat beta (length rows)).
Proof. reflexivity. Qed.

Lemma Forall_repeat {A} (P : A -> Prop) x n : P x -> Forall P (repeat x n).
Proof. intros H. induction n; simpl; constructor; auto. Qed.
