(* Equivalence of the GENERATED Gallina for fast_ticc/admm/unique_values.py
   (Gen/G_unique_values.v) with the hand-written model (Model/TriIndex.v). *)
From Coq Require Import String.
From Coq Require Import ZArith QArith List Bool Arith Lia.
From Ticc Require Import Gen.PyRt Gen.G_unique_values Model.TriIndex.
Import ListNotations.

Definition zpair (rc : nat * nat) : Z * Z := (Z.of_nat (fst rc), Z.of_nat (snd rc)).

(* ---------- helpers: arithmetic ---------- *)

Lemma consecutive_even_Z : forall r : Z, exists k : Z, (r * (r + 1) = 2 * k)%Z.
Proof.
  intros r. destruct (Z.Even_or_Odd r) as [[k Hk]|[k Hk]].
  - exists (k * (r + 1))%Z. rewrite Hk at 1. ring.
  - exists (r * (k + 1))%Z. rewrite Hk at 2. ring.
Qed.

Lemma consecutive_even_nat : forall r : nat, exists k : nat, (r * (r + 1) = 2 * k)%nat.
Proof.
  induction r as [|r [k Hk]].
  - exists 0%nat. reflexivity.
  - exists (k + r + 1)%nat. nia.
Qed.

Lemma quot_2_exact : forall a : Z, Z.quot (a * 2) 2 = a.
Proof. intros a. apply Z.quot_mul. discriminate. Qed.

(* the Z-level closed form computed by the generated code *)
Lemma g_compressed_index_Z : forall row column n k : Z,
  (row <= column)%Z -> (row * (row + 1) = 2 * k)%Z ->
  g_compressed_index row column n
  = Ret (n * (row + 1) - k - (n - 1 - column + 1))%Z.
Proof.
  intros row column n k Hrc Hk.
  unfold g_compressed_index.
  destruct (Z.ltb_spec column row) as [Hlt|_]; [lia|].
  unfold g_size_including_this_row, g_elements_in_row_after_target.
  cbn [bind]. f_equal.
  unfold py_int_of_float, py_truediv, Qminus, Qplus, Qopp, Qdiv, Qmult, Qinv, inject_Z.
  cbn [Qnum Qden].
  change (Z.pos (1 * (1 * 2) * 1)) with 2%Z.
  change (Z.pos (1 * (1 * 2))) with 2%Z.
  change (Z.pos (1 * 2)) with 2%Z.
  change (Z.pos 1) with 1%Z.
  rewrite <- (quot_2_exact (n * (row + 1) - k - (n - 1 - column + 1))).
  f_equal. rewrite Hk. ring.
Qed.

Lemma tri_index_Z : forall n r c k : nat,
  (r <= c)%nat -> (c < n)%nat -> (r * (r + 1) = 2 * k)%nat ->
  Z.of_nat (tri_index n r c)
  = (Z.of_nat n * (Z.of_nat r + 1) - Z.of_nat k - (Z.of_nat n - 1 - Z.of_nat c + 1))%Z.
Proof.
  intros n r c k Hrc Hcn Hk.
  unfold tri_index, size_including_row, elements_after.
  rewrite Hk. rewrite (Nat.mul_comm 2 k), Nat.div_mul by discriminate.
  assert (Hle : (2 * k <= n * (r + 1))%nat) by (rewrite <- Hk; nia).
  assert (Hk2 : (k + (n - 1 - c + 1) <= n * (r + 1))%nat) by nia.
  nia.
Qed.

(* ---------- helpers: lists / monad ---------- *)

Lemma py_getitem_last {A : Type} (acc : list A) (x : A) :
  py_getitem (acc ++ [x]) (-1) = Ret x.
Proof.
  unfold py_getitem. rewrite py_len_app. unfold py_len. cbn [length].
  change (-1 <? 0)%Z with true. cbn iota.
  replace (-1 + (Z.of_nat (length acc) + Z.of_nat 1))%Z with (Z.of_nat (length acc)) by lia.
  destruct (Z.ltb_spec (Z.of_nat (length acc)) 0) as [H|_]; [lia|].
  destruct (Z.leb_spec (Z.of_nat (length acc) + Z.of_nat 1) (Z.of_nat (length acc))) as [H|_]; [lia|].
  cbn [orb]. rewrite Nat2Z.id.
  rewrite nth_error_app2 by lia. rewrite Nat.sub_diag. reflexivity.
Qed.

Lemma foldM_snoc_spec {X Y : Type} (f : list Y -> X -> res (list Y)) (g : X -> Y)
      (xs : list X) (acc : list Y) :
  (forall acc x, In x xs -> f acc x = Ret (acc ++ [g x])) ->
  foldM f xs acc = Ret (acc ++ map g xs).
Proof.
  revert acc. induction xs as [|x xs IH]; intros acc H; cbn [foldM map].
  - now rewrite app_nil_r.
  - rewrite H by (left; reflexivity). cbn [bind].
    rewrite IH by (intros a y Hin; apply H; right; exact Hin).
    rewrite <- app_assoc. reflexivity.
Qed.

(* ---------- the theorems ---------- *)

(* _compressed_index = the model's closed form, on the whole upper triangle *)
Theorem g_compressed_index_eq : forall n r c : nat,
  (r <= c)%nat -> (c < n)%nat ->
  g_compressed_index (Z.of_nat r) (Z.of_nat c) (Z.of_nat n) = Ret (Z.of_nat (tri_index n r c)).
Proof.
  intros n r c Hrc Hcn.
  destruct (consecutive_even_nat r) as [k Hk].
  rewrite (g_compressed_index_Z (Z.of_nat r) (Z.of_nat c) (Z.of_nat n) (Z.of_nat k)); [|lia|lia].
  f_equal. symmetry. apply tri_index_Z; assumption.
Qed.

(* ... and raises IndexError below the diagonal *)
Theorem g_compressed_index_below : forall row column n : Z,
  (column < row)%Z -> g_compressed_index row column n = Raise "IndexError"%string.
Proof.
  intros row column n H. unfold g_compressed_index.
  destruct (Z.ltb_spec column row) as [_|Hge]; [reflexivity|lia].
Qed.

Theorem g_block_start_coordinates_eq : forall b N W : nat,
  (b < W)%nat -> (1 <= N)%nat ->
  g_block_start_coordinates (Z.of_nat b) (Z.of_nat N) (Z.of_nat W) = Ret (map zpair (block_starts b N W)).
Proof.
  intros b N W HbW HN.
  unfold g_block_start_coordinates.
  destruct (Z.ltb_spec (Z.of_nat b) 0) as [Hneg|_]; [lia|].
  destruct (Z.geb_spec (Z.of_nat b) (Z.of_nat W)) as [Hge|_]; [lia|].
  cbn [orb].
  destruct (Z.leb_spec (Z.of_nat N) 0) as [HN0|_]; [lia|].
  destruct (Z.leb_spec (Z.of_nat W) 0) as [HW0|_]; [lia|].
  cbv zeta.
  rewrite <- Nat2Z.inj_sub by lia. rewrite zrange_of_nat.
  rewrite (foldM_snoc_spec _
             (fun i : Z => (0 + i * Z.of_nat N, Z.of_nat b * Z.of_nat N + i * Z.of_nat N)%Z)).
  - cbn [bind app]. f_equal. unfold block_starts. rewrite !map_map.
    apply map_ext. intros i. unfold zpair. cbn [fst snd]. f_equal; lia.
  - intros acc x Hin.
    apply in_map_iff in Hin. destruct Hin as [i [Hi Hin]]. apply in_seq in Hin. subst x.
    rewrite !py_getitem_last. cbn [bind fst snd].
    destruct (Z.geb_spec (0 + Z.of_nat i * Z.of_nat N) 0) as [_|Hbad]; [|nia].
    destruct (Z.ltb_spec (0 + Z.of_nat i * Z.of_nat N) (Z.of_nat W * Z.of_nat N)) as [_|Hbad]; [|nia].
    destruct (Z.geb_spec (Z.of_nat b * Z.of_nat N + Z.of_nat i * Z.of_nat N) 0) as [_|Hbad]; [|nia].
    destruct (Z.ltb_spec (Z.of_nat b * Z.of_nat N + Z.of_nat i * Z.of_nat N)
                         (Z.of_nat W * Z.of_nat N)) as [_|Hbad]; [|nia].
    reflexivity.
Qed.

Theorem g_block_start_coordinates_bad_block : forall b N W : Z,
  (b < 0 \/ W <= b)%Z -> g_block_start_coordinates b N W = Raise "IndexError"%string.
Proof.
  intros b N W H. unfold g_block_start_coordinates.
  destruct (Z.ltb_spec b 0) as [_|Hb0]; [reflexivity|].
  destruct (Z.geb_spec b W) as [_|HbW]; [reflexivity|lia].
Qed.

Theorem g_unique_variable_locations_eq : forall b r c N W : nat,
  (b < W)%nat -> (1 <= N)%nat ->
  g_unique_variable_locations (Z.of_nat b) (Z.of_nat r) (Z.of_nat c) (Z.of_nat N) (Z.of_nat W)
  = Ret (map zpair (class_positions b r c N W)).
Proof.
  intros b r c N W HbW HN.
  unfold g_unique_variable_locations.
  rewrite g_block_start_coordinates_eq by assumption.
  cbn [bind]. cbv zeta. f_equal.
  unfold class_positions. rewrite !map_map.
  apply map_ext. intros [R C]. unfold zpair. cbn [fst snd]. f_equal; lia.
Qed.

Lemma class_positions_bounds : forall b r c N W R C : nat,
  (b < W)%nat -> (r < N)%nat -> (c < N)%nat -> (b = 0%nat -> (r <= c)%nat) ->
  In (R, C) (class_positions b r c N W) ->
  (R <= C)%nat /\ (C < N * W)%nat.
Proof.
  intros b r c N W R C HbW HrN HcN Hdiag Hin.
  unfold class_positions, block_starts in Hin. rewrite map_map in Hin.
  apply in_map_iff in Hin. destruct Hin as [i [Heq Hin]]. apply in_seq in Hin.
  cbn [fst snd] in Heq. injection Heq as HR HC. subst R C.
  split.
  - destruct b as [|b'].
    + specialize (Hdiag eq_refl). lia.
    + nia.
  - assert (Hle : ((b + i + 1) * N <= W * N)%nat) by (apply Nat.mul_le_mono_r; lia).
    nia.
Qed.

(* the classes the Z update enumerates: r, c < N and, in the diagonal block, r <= c *)
Theorem g_locations_compressed_eq : forall b r c N W : nat,
  (b < W)%nat -> (r < N)%nat -> (c < N)%nat -> (b = 0%nat -> (r <= c)%nat) ->
  g_locations_compressed (Z.of_nat b) (Z.of_nat r) (Z.of_nat c) (Z.of_nat N) (Z.of_nat W)
  = Ret (map Z.of_nat (locations_compressed b r c N W)).
Proof.
  intros b r c N W HbW HrN HcN Hdiag.
  unfold g_locations_compressed.
  rewrite g_unique_variable_locations_eq by lia.
  cbn [bind]. cbv zeta.
  rewrite (mapM_pure _
             (fun p : Z * Z => Z.of_nat (tri_index (N * W) (Z.to_nat (fst p)) (Z.to_nat (snd p))))).
  - cbn [bind]. f_equal. unfold locations_compressed. rewrite !map_map.
    apply map_ext. intros [R C]. unfold zpair. cbn [fst snd]. rewrite !Nat2Z.id. reflexivity.
  - intros x Hin. apply in_map_iff in Hin. destruct Hin as [[R C] [Hx Hin]]. subst x.
    destruct (class_positions_bounds b r c N W R C HbW HrN HcN Hdiag Hin) as [HRC HCn].
    unfold zpair. cbn [fst snd]. rewrite !Nat2Z.id.
    rewrite <- Nat2Z.inj_mul.
    rewrite g_compressed_index_eq by assumption. reflexivity.
Qed.

Theorem g_locations_index_slices_eq : forall b r c N W : nat,
  (b < W)%nat -> (1 <= N)%nat ->
  g_locations_index_slices (Z.of_nat b) (Z.of_nat r) (Z.of_nat c) (Z.of_nat N) (Z.of_nat W)
  = Ret (map Z.of_nat (fst (locations_slices b r c N W)), map Z.of_nat (snd (locations_slices b r c N W))).
Proof.
  intros b r c N W HbW HN.
  unfold g_locations_index_slices.
  rewrite g_unique_variable_locations_eq by assumption.
  cbn [bind]. cbv zeta. unfold locations_slices. cbn [fst snd].
  rewrite !map_map.
  rewrite (map_ext (fun x : nat * nat => let '(r0, _) := zpair x in r0)
                   (fun x : nat * nat => Z.of_nat (fst x))) by (intros [R C]; reflexivity).
  rewrite (map_ext (fun x : nat * nat => let '(_, c0) := zpair x in c0)
                   (fun x : nat * nat => Z.of_nat (snd x))) by (intros [R C]; reflexivity).
  reflexivity.
Qed.

Print Assumptions g_locations_compressed_eq.
