(* Second tie: graphical_lasso._zero_small_elements (the covariance floor) and _reconstruct_optimized_matrix AS TRANSLATED from
   /repo's working tree by vcheck/py2coq.py (Gen/G_graphical_lasso.v, regenerated on every run) equal the model's elementwise
   filter Model/Admm.zero_small, for every carrier, every shape and both values of `copy`.  matrix_compression.reinflate_matrix
   is an uninterpreted symbol here (modelled and proved in Model/TriIndex.v / C11).  Closed under the global context. *)
From Coq Require Import String ZArith List Bool Lia Arith.
From Ticc Require Import Gen.PyRt Gen.G_graphical_lasso Model.Viterbi Model.Admm.
Import ListNotations.

Lemma py_map2_fused {A B C D : Type} (g : A -> D -> C) (h : B -> B -> D) (f1 f2 : A -> B) (l : list A) :
  py_map2 g l (py_map2 h (map f1 l) (map f2 l)) = map (fun x => g x (h (f1 x) (f2 x))) l.
Proof. induction l as [|x l IH]; [reflexivity|]. cbn [map py_map2]. f_equal. exact IH. Qed.

Section E.
  Variable F : Type.
  Variables (zero : F) (sub : F -> F -> F) (ltb : F -> F -> bool).
  Variable of_int : Z -> F.
  Hypothesis of_int_0 : of_int 0%Z = zero.

  Theorem g_zero_small_elements_eq (a : arr2 F) (eps : F) (copy : bool) :
    g_zero_small_elements F sub ltb of_int a eps copy
    = Ret (arr2_map (zero_small zero sub ltb eps) a).
  Proof.
    unfold g_zero_small_elements.
    assert (Hc : (if copy then Ret a else Ret a) = Ret a) by (destruct copy; reflexivity).
    rewrite Hc. cbn [bind].
    unfold np_mask_and, same_dims, arr2_map. cbn [a_rows a_cols a_cells].
    rewrite !Z.eqb_refl. cbn [andb bind].
    unfold np_mask_set, same_dims. cbn [a_rows a_cols a_cells].
    rewrite !Z.eqb_refl. cbn [andb bind]. rewrite of_int_0.
    f_equal. f_equal.
    induction (a_cells a) as [|row rows IH]; [reflexivity|].
    cbn [map py_map2]. f_equal; [|exact IH].
    rewrite py_map2_fused. apply map_ext. intros x. unfold zero_small. reflexivity.
  Qed.

  Variable reinflate : list F -> arr2 F.
  Theorem g_reconstruct_optimized_matrix_eq (eps : F) (v : list F) :
    g_reconstruct_optimized_matrix F sub ltb of_int reinflate (mk_gl_model (mk_gl_args eps)) v
    = Ret (arr2_map (zero_small zero sub ltb eps) (reinflate v)).
  Proof.
    unfold g_reconstruct_optimized_matrix. cbn [gm_arguments ga_min_meaningful_covariance].
    rewrite g_zero_small_elements_eq. reflexivity.
  Qed.
End E.
Print Assumptions g_zero_small_elements_eq.
Print Assumptions g_reconstruct_optimized_matrix_eq.
