(* Proofs about Model/Stacking.v (C10, C04, C07-mask). *)
From Coq Require Import List Arith ZArith Lia Bool.
Import ListNotations.
From Ticc Require Import Model.Stacking.

Section P.
  Context {A : Type}.
  Implicit Types (data : list (list A)) (l : list A).

  Lemma nth_map_seq {B} (f : nat -> B) n i d : i < n -> nth i (map f (seq 0 n)) d = f i.
  Proof.
    intros H. rewrite (nth_indep _ d (f 0)) by (rewrite map_length, seq_length; lia).
    rewrite map_nth, seq_nth by lia. reflexivity.
  Qed.

  Lemma concat_uniform_length (N : nat) (ls : list (list A)) :
    Forall (fun r => length r = N) ls -> length (concat ls) = length ls * N.
  Proof.
    induction 1 as [|r ls Hr _ IH]; simpl; [reflexivity|]. rewrite app_length, IH, Hr. lia.
  Qed.

  Lemma concat_uniform_nth (N : nat) (ls : list (list A)) j k d :
    Forall (fun r => length r = N) ls -> j < length ls -> k < N ->
    nth (j * N + k) (concat ls) d = nth k (nth j ls []) d.
  Proof.
    intros H; revert j. induction H as [|r ls Hr _ IH]; intros j Hj Hk; simpl in *; [lia|].
    destruct j as [|j]; simpl.
    - rewrite app_nth1 by lia. reflexivity.
    - rewrite app_nth2 by lia. replace (N + j * N + k - length r) with (j * N + k) by lia.
      apply IH; lia.
  Qed.

  Lemma stack_length W data : length (stack W data) = num_windows W (length data).
  Proof. unfold stack. rewrite map_length, seq_length. reflexivity. Qed.

  Lemma window_parts_uniform W N data i :
    Forall (fun r => length r = N) data -> i + W <= length data ->
    Forall (fun r => length r = N) (map (fun j => nth (i + j) data []) (seq 0 W)).
  Proof.
    intros Hd Hi. apply Forall_forall. intros r Hr. apply in_map_iff in Hr.
    destruct Hr as [j [<- Hj]]. apply in_seq in Hj.
    rewrite Forall_forall in Hd. apply Hd. apply nth_In. lia.
  Qed.

  Lemma nth_stack W data i : i < num_windows W (length data) ->
    nth i (stack W data) [] = window W data i.
  Proof. intros H. unfold stack. apply nth_map_seq. exact H. Qed.

  Lemma stack_row_length W N data :
    Forall (fun r => length r = N) data ->
    Forall (fun r => length r = W * N) (stack W data).
  Proof.
    intros Hd. apply Forall_forall. intros r Hr. unfold stack in Hr.
    apply in_map_iff in Hr. destruct Hr as [i [<- Hi]]. apply in_seq in Hi.
    unfold num_windows in Hi. unfold window.
    rewrite (concat_uniform_length N) by (apply window_parts_uniform; [exact Hd|lia]).
    rewrite map_length, seq_length. reflexivity.
  Qed.

  (* columns [jN,(j+1)N) of stacked row i are row i+j of the input *)
  Lemma stack_cell W N data i j k d :
    Forall (fun r => length r = N) data ->
    i < num_windows W (length data) -> j < W -> k < N ->
    nth (j * N + k) (nth i (stack W data) []) d = nth k (nth (i + j) data []) d.
  Proof.
    intros Hd Hi Hj Hk. rewrite nth_stack by exact Hi. unfold window.
    unfold num_windows in Hi.
    rewrite (concat_uniform_nth N) by
      (try apply window_parts_uniform; try rewrite map_length, seq_length; try assumption; lia).
    rewrite nth_map_seq by lia. reflexivity.
  Qed.

  (* every stacked row is a window of ONE series *)
  Lemma stack_multi_rows_within_series W (series : list (list (list A))) r :
    In r (stack_multi W series) ->
    exists s i, In s series /\ i + W <= length s /\ 0 < W + (length s + 1 - W) /\ r = window W s i.
  Proof.
    unfold stack_multi. intros Hr. apply in_concat in Hr. destruct Hr as [rows [Hrows Hr]].
    apply in_map_iff in Hrows. destruct Hrows as [s [<- Hs]].
    unfold stack in Hr. apply in_map_iff in Hr. destruct Hr as [i [<- Hi]]. apply in_seq in Hi.
    unfold num_windows in Hi. exists s, i. repeat split; try assumption; lia.
  Qed.

  Lemma stack_multi_length W (series : list (list (list A))) :
    length (stack_multi W series) = list_sum (map (fun s => num_windows W (length s)) series).
  Proof.
    unfold stack_multi. induction series as [|s ss IH]; simpl; [reflexivity|].
    rewrite app_length, stack_length, IH. reflexivity.
  Qed.

  (* split_joint_labels *)
  Lemma split_by_concat (parts : list (list A)) :
    split_by (map (@length A) parts) (concat parts) = parts.
  Proof.
    induction parts as [|p ps IH]; simpl; [reflexivity|].
    rewrite firstn_app, firstn_all, Nat.sub_diag, firstn_O, app_nil_r.
    rewrite skipn_app, skipn_all, Nat.sub_diag, skipn_O. simpl. rewrite IH. reflexivity.
  Qed.

  Lemma split_by_length lens l : length (split_by lens l) = length lens.
  Proof. revert l; induction lens as [|n ns IH]; intros l; simpl; [reflexivity|]. rewrite IH. reflexivity. Qed.

  Lemma split_by_lengths lens l : length l = list_sum lens ->
    map (@length A) (split_by lens l) = lens.
  Proof.
    revert l; induction lens as [|n ns IH]; intros l H; simpl in *; [reflexivity|].
    rewrite firstn_length_le by lia. f_equal. apply IH. rewrite skipn_length. lia.
  Qed.

  Lemma split_by_concat_id lens l : length l = list_sum lens -> concat (split_by lens l) = l.
  Proof.
    revert l; induction lens as [|n ns IH]; intros l H; simpl in *.
    - destruct l; simpl in *; [reflexivity|lia].
    - rewrite IH by (rewrite skipn_length; lia). apply firstn_skipn.
  Qed.

  (* pad_missing_labels *)
  Lemma pad_front_back W : pad_front W + pad_back W = W - 1.
  Proof.
    unfold pad_back, pad_front.
    pose proof (Nat.div_le_upper_bound (W - 1) 2 (W - 1) ltac:(lia) ltac:(lia)). lia.
  Qed.

  Lemma pad_length fill W l : length (pad fill W l) = length l + (W - 1).
  Proof. unfold pad. rewrite !app_length, !repeat_length. pose proof (pad_front_back W). lia. Qed.

  Lemma nth_repeat_in (x d : A) n i : i < n -> nth i (repeat x n) d = x.
  Proof. revert i; induction n; intros [|i] H; simpl; try lia; auto. apply IHn; lia. Qed.

  Lemma pad_nth_front fill W l i d : i < pad_front W -> nth i (pad fill W l) d = fill.
  Proof. intros H. unfold pad. rewrite app_nth1 by (rewrite repeat_length; lia). apply nth_repeat_in; lia. Qed.

  Lemma pad_nth_middle fill W l i d : i < length l ->
    nth (pad_front W + i) (pad fill W l) d = nth i l d.
  Proof.
    intros H. unfold pad. rewrite app_nth2 by (rewrite repeat_length; lia).
    rewrite repeat_length. replace (pad_front W + i - pad_front W) with i by lia.
    rewrite app_nth1 by lia. reflexivity.
  Qed.

  Lemma pad_nth_back fill W l i d : i < pad_back W ->
    nth (pad_front W + length l + i) (pad fill W l) d = fill.
  Proof.
    intros H. unfold pad. rewrite app_nth2 by (rewrite repeat_length; lia).
    rewrite repeat_length. rewrite app_nth2 by lia.
    replace (pad_front W + length l + i - pad_front W - length l) with i by lia.
    apply nth_repeat_in; lia.
  Qed.

  (* unpadding a padded list gives the list back *)
  Lemma pad_unpad fill W l :
    firstn (length l) (skipn (pad_front W) (pad fill W l)) = l.
  Proof.
    unfold pad. rewrite skipn_app, repeat_length, Nat.sub_diag, skipn_O.
    rewrite skipn_all2 by (rewrite repeat_length; lia). simpl.
    rewrite firstn_app, Nat.sub_diag, firstn_O, app_nil_r. apply firstn_all.
  Qed.
End P.

(* ---- front ends ---- *)
Lemma front_single_length W labels T :
  1 <= W -> W <= T -> length labels = num_windows W T ->
  length (front_single_labels W labels) = T.
Proof. intros HW HT HL. unfold front_single_labels. rewrite pad_length, HL. unfold num_windows. lia. Qed.

Lemma map_pad_lengths W (parts : list (list Z)) :
  map (@length Z) (map (pad (-1)%Z W) parts) = map (fun p => length p + (W - 1)) parts.
Proof. rewrite map_map. apply map_ext. intros p. apply pad_length. Qed.

Lemma front_joint_lengths W lens labels :
  1 <= W -> Forall (fun T => W <= T) lens ->
  length labels = list_sum (map (num_windows W) lens) ->
  map (@length Z) (front_joint_labels W lens labels) = lens.
Proof.
  intros HW Hl HL. unfold front_joint_labels. rewrite map_pad_lengths.
  assert (E : map (@length Z) (split_by (map (num_windows W) lens) labels) = map (num_windows W) lens)
    by (apply split_by_lengths; exact HL).
  rewrite <- (map_map (@length Z) (fun n => n + (W - 1))). rewrite E. rewrite map_map.
  rewrite <- (map_id lens) at 2. apply map_ext_in. intros T HT.
  rewrite Forall_forall in Hl. specialize (Hl T HT). unfold num_windows. lia.
Qed.

Lemma front_joint_count W lens labels :
  length (front_joint_labels W lens labels) = length lens.
Proof. unfold front_joint_labels. rewrite map_length, split_by_length, map_length. reflexivity. Qed.

(* concatenating the unpadded parts gives the joint labelling back *)
Lemma front_joint_unpad W lens labels :
  length labels = list_sum (map (num_windows W) lens) ->
  concat (map (fun '(T, p) => firstn (num_windows W T) (skipn (pad_front W) p))
              (combine lens (front_joint_labels W lens labels))) = labels.
Proof.
  intros HL. unfold front_joint_labels.
  set (ns := map (num_windows W) lens) in *.
  assert (Hlens : map (@length Z) (split_by ns labels) = ns) by (apply split_by_lengths; exact HL).
  rewrite <- (split_by_concat_id ns labels HL) at 2.
  f_equal. subst ns.
  remember (split_by (map (num_windows W) lens) labels) as parts eqn:Ep. clear Ep HL.
  revert parts Hlens. induction lens as [|T lens IH]; intros parts Hp; simpl in *.
  - destruct parts; simpl in *; [reflexivity|discriminate].
  - destruct parts as [|p ps]; simpl in *; [discriminate|]. injection Hp as Hp1 Hp2.
    rewrite <- Hp1, pad_unpad. f_equal. apply IH. exact Hp2.
Qed.

(* ---- label_switching_cost_template ---- *)
Lemma template_length lens : length (template lens) = list_sum lens.
Proof. unfold template. rewrite map_length, seq_length. reflexivity. Qed.

Lemma boundary_pairs_from_spec lens : forall acc i,
  Forall (fun n => 1 <= n) lens ->
  (In i (boundary_pairs_from acc lens) <->
   exists j, S j < length lens /\ i + 1 = acc + list_sum (firstn (S j) lens)).
Proof.
  induction lens as [|n rest IH]; intros acc i Hpos.
  - simpl. split; [tauto|]. intros [j [Hj _]]. simpl in Hj. lia.
  - destruct rest as [|n2 rest'].
    + simpl. split; [tauto|]. intros [j [Hj _]]. simpl in Hj. lia.
    + pose proof (Forall_inv Hpos) as Hn. cbv beta in Hn. pose proof (Forall_inv_tail Hpos) as Hrest.
      cbn [boundary_pairs_from]. cbn [In]. rewrite (IH (acc + n) i Hrest). split.
      * intros [H|[j [Hj Hs]]].
        -- exists 0. split; [simpl; lia|]. cbn [firstn list_sum fold_right]. lia.
        -- exists (S j). split; [simpl in *; lia|].
           change (firstn (S (S j)) (n :: n2 :: rest')) with (n :: firstn (S j) (n2 :: rest')).
           cbn [list_sum fold_right]. fold (list_sum (firstn (S j) (n2 :: rest'))). lia.
      * intros [[|j] [Hj Hs]].
        -- left. cbn [firstn list_sum fold_right] in Hs. lia.
        -- right. exists j. split; [simpl in *; lia|].
           change (firstn (S (S j)) (n :: n2 :: rest')) with (n :: firstn (S j) (n2 :: rest')) in Hs.
           cbn [list_sum fold_right] in Hs. fold (list_sum (firstn (S j) (n2 :: rest'))) in Hs. lia.
Qed.

Lemma existsb_eqb_In i l : existsb (Nat.eqb i) l = true <-> In i l.
Proof.
  rewrite existsb_exists. split.
  - intros [x [Hx E]]. apply Nat.eqb_eq in E. subst. exact Hx.
  - intros H. exists i. split; [exact H|apply Nat.eqb_refl].
Qed.

(* zeros sit exactly on the boundary pairs: index i (which prices the pair
   (i,i+1)) is zero iff point i is the last point of a series other than the
   last one *)
Lemma template_zero_iff lens i :
  Forall (fun n => 1 <= n) lens -> i < list_sum lens ->
  (nth i (template lens) true = false <->
   exists j, S j < length lens /\ i + 1 = list_sum (firstn (S j) lens)).
Proof.
  intros Hpos Hi. unfold template. rewrite nth_map_seq by exact Hi.
  rewrite negb_false_iff, existsb_eqb_In. unfold boundary_pairs.
  rewrite (boundary_pairs_from_spec lens 0 i Hpos). simpl. reflexivity.
Qed.

Lemma template_single n : template [n] = repeat true n.
Proof.
  unfold template, boundary_pairs. simpl. rewrite Nat.add_0_r.
  induction n as [|n IH]; [reflexivity|].
  rewrite seq_S, map_app, IH. simpl. rewrite <- repeat_cons. reflexivity.
Qed.
