(* The generated control skeleton of the RESULT ASSEMBLY of main_loop.fit_stacked_data (Gen/G_main_loop_suffix.v: everything
   after the task pool is closed), with its uninterpreted callees INTERPRETED by the hand model of the accounting
   (Model/Accounting.v: buckets, flatten, sum, mean, agg0), assembles a result whose thirteen fields are exactly the model's:

     all_log_likelihood              flatten (buckets K labels value)           one list, the chained per-cluster lists
     overall / mean / median         sum / mean / median OF THAT list
     cluster_log_likelihood_mean     map (agg0 zero mean)   (buckets K labels value)     0 for a cluster without points
     cluster_log_likelihood_median   map (agg0 zero median) (buckets K labels value)
     point_labels                    a copy of the final state's labels (the loop  labels[i] = state.point_labels[i])
     label_assignment_cost           the final state's cost
     markov_random_fields, num_clusters, window_size    the final state's
     the two criteria                what the BIC / Calinski-Harabasz callees answer on the final state

   The final state is described by  K W labels cost mrfs  and the per-point value function  value p  (the log-likelihood of
   point p under its own cluster); the carrier A of the numbers, its operations and  median  are abstract.
   Python lists are values: "op:*" is list repetition, "getitem" reads position i (IndexError outside), "setitem" answers
   the list with position i replaced (the skeleton threads the updated list through the loop).
   The copy loop is reduced to a list lemma (copy_all): copying positions 0 .. T-1 of a list of length T into
   [-1] * T  gives that list.
   Closed under the global context. *)
From Coq Require Import String ZArith List Bool Lia Arith Permutation.
From Ticc Require Import Gen.PyRt Gen.PySkel Gen.G_main_loop_suffix.
From Ticc Require Import Model.Repop Model.Accounting Proofs.AccountingP Properties.C06.
Import ListNotations.
Local Open Scope string_scope.

(* ---------------------------------------------------------------- list facts *)

(* l[k] = x *)
Fixpoint replace_nth {X : Type} (k : nat) (x : X) (l : list X) : list X :=
  match l, k with
  | [], _ => []
  | _ :: r, 0 => x :: r
  | y :: r, S k' => y :: replace_nth k' x r
  end.

Lemma replace_nth_app {X : Type} (x y : X) (r : list X) : forall (p : list X) (k : nat),
  k = length p -> replace_nth k x (p ++ y :: r) = (p ++ x :: r)%list.
Proof.
  induction p as [|a p IH]; intros k Hk; subst k; cbn [length app replace_nth]; [reflexivity|].
  rewrite (IH (length p) eq_refl). reflexivity.
Qed.

Lemma replace_nth_length {X : Type} (x : X) : forall (l : list X) (k : nat), length (replace_nth k x l) = length l.
Proof.
  induction l as [|y l IH]; intros k; [destruct k; reflexivity|].
  destruct k as [|k]; cbn [replace_nth length]; [reflexivity|]. rewrite IH. reflexivity.
Qed.

(* [x] * k *)
Lemma concat_repeat_single {X : Type} (x : X) (k : nat) : concat (repeat [x] k) = repeat x k.
Proof. induction k as [|k IH]; [reflexivity|]. cbn [repeat concat app]. rewrite IH. reflexivity. Qed.

(* for i in idxs: acc[i] = src[i] *)
Definition copy_step {X : Type} (d : X) (src : list X) (acc : list X) (i : nat) : list X :=
  replace_nth i (nth i src d) acc.
Definition copy_positions {X : Type} (d : X) (src : list X) (idxs : list nat) (acc : list X) : list X :=
  fold_left (copy_step d src) idxs acc.

Lemma copy_positions_length {X : Type} (d : X) (src : list X) : forall (idxs : list nat) (acc : list X),
  length (copy_positions d src idxs acc) = length acc.
Proof.
  induction idxs as [|i idxs IH]; intros acc; [reflexivity|].
  unfold copy_positions in *. cbn [fold_left]. rewrite IH. unfold copy_step. apply replace_nth_length.
Qed.

Lemma copy_from {X : Type} (d : X) (src : list X) : forall (rest pre : list X),
  src = (pre ++ rest)%list ->
  copy_positions d src (seq (length pre) (length rest)) (pre ++ repeat d (length rest)) = src.
Proof.
  induction rest as [|c rest IH]; intros pre Hsrc.
  - cbn [length seq repeat]. unfold copy_positions. cbn [fold_left]. rewrite Hsrc. reflexivity.
  - cbn [length seq repeat]. unfold copy_positions. cbn [fold_left]. unfold copy_step at 2.
    assert (Hnth : nth (length pre) src d = c).
    { rewrite Hsrc. rewrite app_nth2 by lia. rewrite Nat.sub_diag. reflexivity. }
    rewrite Hnth. rewrite replace_nth_app by reflexivity.
    assert (Hsrc' : src = ((pre ++ [c]) ++ rest)%list).
    { rewrite Hsrc, <- app_assoc. reflexivity. }
    specialize (IH (pre ++ [c])%list Hsrc').
    rewrite app_length in IH. cbn [length] in IH. rewrite Nat.add_1_r in IH.
    rewrite <- app_assoc in IH. cbn [app] in IH. exact IH.
Qed.

(* THE COPY LOOP, as a fact about lists: copying position i = 0 .. T-1 of src into  [d] * T  gives src *)
Lemma copy_all {X : Type} (d : X) (src : list X) (T : nat) :
  T = length src -> copy_positions d src (seq 0 T) (repeat d T) = src.
Proof. intros HT. subst T. apply (copy_from d src src []). reflexivity. Qed.

Section Interp.
  (* the numbers: a carrier with the operations Model/Accounting's accounting needs, and a median *)
  Variable A : Type.
  Variable zero : A.
  Variables add div : A -> A -> A.
  Variable of_nat : nat -> A.
  Variable median : list A -> A.
  Variable Mrf : Type.                                 (* a fitted inverse covariance (train_inverse) *)

  (* the model's accounting on this carrier *)
  Definition sumA (l : list A) : A := sum zero add l.
  Definition meanA (l : list A) : A := mean zero add div of_nat l.

  (* the final model state *)
  Variables K W : nat.                                 (* arguments.num_clusters, arguments.window_size *)
  Variable labels : list nat.                          (* point_labels *)
  Variable cost : A.                                   (* label_assignment_cost *)
  Variable mrfs : list Mrf.                            (* [clusters[k].train_inverse for k in range(K)] *)
  Variable value : nat -> A.                           (* the log-likelihood of point p under its own cluster *)
  Variables bic chi : A.                               (* what the two criteria answer on this state (and the data) *)

  (* a SingleDataSeriesResult: its thirteen fields, in the order of the constructor call *)
  Record result_data : Type := Result {
    r_bic : A;
    r_chi : A;
    r_cost : A;
    r_overall : A;
    r_overall_mean : A;
    r_overall_median : A;
    r_cluster_mean : list A;
    r_cluster_median : list A;
    r_all : list A;
    r_mrfs : list Mrf;
    r_K : Z;
    r_labels : list Z;
    r_W : Z }.

  (* ---------------------------------------------------------------- the concrete universe of values *)

  Inductive val : Type :=
  | VNone
  | VInt (z : Z)
  | VNum (a : A)                                       (* a float *)
  | VNums (l : list A)                                 (* a list / array / iterator of floats *)
  | VBuckets (bs : list (list A))                      (* one list of floats per cluster *)
  | VLabels (l : list Z)                               (* a list / array of labels *)
  | VMrfs (l : list Mrf)
  | VState                                             (* THE final model state *)
  | VArgs                                              (* its arguments *)
  | VData (T : nat)                                    (* the stacked training data: its number of rows *)
  | VShape (T : nat)
  | VResult (r : result_data).

  Definition as_int (v : val) : option Z := match v with VInt z => Some z | _ => None end.

  Definition getattr (v : val) (a : string) : val :=
    match v with
    | VState => if String.eqb a "point_labels" then VLabels (map Z.of_nat labels)
                else if String.eqb a "label_assignment_cost" then VNum cost
                else if String.eqb a "arguments" then VArgs else VNone
    | VArgs => if String.eqb a "num_clusters" then VInt (Z.of_nat K)
               else if String.eqb a "window_size" then VInt (Z.of_nat W) else VNone
    | VData T => if String.eqb a "shape" then VShape T else VNone
    | VShape T => if String.eqb a "[0]" then VInt (Z.of_nat T) else VNone
    | _ => VNone
    end.

  Definition f_bic := "cluster_metrics.bayesian_information_criterion".
  Definition f_chi := "cluster_metrics.calinski_harabasz_index".
  Definition f_mrfs := "expr:[current_model_state.clusters[cluster_id].train_inverse for cluster_id in range(current_model_state.arguments.num_clusters)]".
  Definition f_bycluster := "_compute_log_likelihood_by_cluster".
  Definition f_chain := "expr:itertools.chain(*cluster_log_likelihood)".
  Definition f_cmean := "expr:np.array([np.mean(single_cluster_log_likelihood) if len(single_cluster_log_likelihood) > 0 else 0.0 for single_cluster_log_likelihood in cluster_log_likelihood])".
  Definition f_cmedian := "expr:np.array([np.median(single_cluster_log_likelihood) if len(single_cluster_log_likelihood) > 0 else 0.0 for single_cluster_log_likelihood in cluster_log_likelihood])".
  Definition f_result := "results.SingleDataSeriesResult(bayesian_information_criterion=,calinski_harabasz_index=,label_assignment_cost=,overall_log_likelihood=,overall_log_likelihood_mean=,overall_log_likelihood_median=,cluster_log_likelihood_mean=,cluster_log_likelihood_median=,all_log_likelihood=,markov_random_fields=,num_clusters=,point_labels=,window_size=)".

  Definition unexpected : res val := Raise "unexpected".

  (* the callees, interpreted.  No answer depends on the log. *)
  Definition oracle_model (log : list (event val)) (f : string) (a : list val) : res val :=
    if String.eqb f f_bic then
      match a with [VState] => Ret (VNum bic) | _ => unexpected end
    else if String.eqb f f_chi then
      match a with [VData _; VState] => Ret (VNum chi) | _ => unexpected end
    else if String.eqb f "expr:[-1]" then
      match a with [] => Ret (VLabels [(-1)%Z]) | _ => unexpected end
    else if String.eqb f "op:*" then
      match a with
      | [VLabels l; VInt n] => Ret (VLabels (concat (repeat l (Z.to_nat n))))
      | _ => unexpected
      end
    else if String.eqb f "getitem" then
      match a with
      | [VLabels l; VInt i] =>
        if Z.ltb i 0 then unexpected
        else match nth_error l (Z.to_nat i) with Some v => Ret (VInt v) | None => Raise "IndexError" end
      | _ => unexpected
      end
    else if String.eqb f "setitem" then
      match a with
      | [VLabels l; VInt i; VInt v] =>
        if Z.ltb i 0 then unexpected
        else if Nat.ltb (Z.to_nat i) (length l) then Ret (VLabels (replace_nth (Z.to_nat i) v l))
             else Raise "IndexError"
      | _ => unexpected
      end
    else if String.eqb f f_mrfs then
      match a with [VState] => Ret (VMrfs mrfs) | _ => unexpected end
    else if String.eqb f f_bycluster then
      match a with [VData _; VState] => Ret (VBuckets (buckets K labels value)) | _ => unexpected end
    else if String.eqb f f_chain then
      match a with [VBuckets bs] => Ret (VNums (flatten bs)) | _ => unexpected end
    else if String.eqb f "list" then
      match a with [VNums l] => Ret (VNums l) | _ => unexpected end
    else if String.eqb f "np.sum" then
      match a with [VNums l] => Ret (VNum (sumA l)) | _ => unexpected end
    else if String.eqb f "np.mean" then
      match a with [VNums l] => Ret (VNum (meanA l)) | _ => unexpected end
    else if String.eqb f "np.median" then
      match a with [VNums l] => Ret (VNum (median l)) | _ => unexpected end
    else if String.eqb f f_cmean then
      match a with [VBuckets bs] => Ret (VNums (map (agg0 zero meanA) bs)) | _ => unexpected end
    else if String.eqb f f_cmedian then
      match a with [VBuckets bs] => Ret (VNums (map (agg0 zero median) bs)) | _ => unexpected end
    else if String.eqb f f_result then
      match a with
      | [VNum b; VNum c; VNum co; VNum ov; VNum ovmean; VNum ovmedian; VNums cmean; VNums cmedian; VNums all; VMrfs ms;
         VInt k; VLabels pl; VInt w] =>
        Ret (VResult (Result b c co ov ovmean ovmedian cmean cmedian all ms k pl w))
      | _ => unexpected
      end
    else unexpected.

  Local Notation O := oracle_model.

  (* ---------------------------------------------------------------- the pure reads *)

  Lemma getattr_point_labels : getattr VState "point_labels" = VLabels (map Z.of_nat labels).
  Proof. reflexivity. Qed.
  Lemma getattr_cost : getattr VState "label_assignment_cost" = VNum cost.
  Proof. reflexivity. Qed.
  Lemma getattr_numc : getattr (getattr VState "arguments") "num_clusters" = VInt (Z.of_nat K).
  Proof. reflexivity. Qed.
  Lemma getattr_window : getattr (getattr VState "arguments") "window_size" = VInt (Z.of_nat W).
  Proof. reflexivity. Qed.
  Lemma getattr_rows (T : nat) : getattr (getattr (VData T) "shape") "[0]" = VInt (Z.of_nat T).
  Proof. reflexivity. Qed.

  (* ---------------------------------------------------------------- the oracle, one callee at a time *)

  Lemma oracle_bic (log : list (event val)) : O log f_bic [VState] = Ret (VNum bic).
  Proof. reflexivity. Qed.
  Lemma oracle_chi (log : list (event val)) (T : nat) : O log f_chi [VData T; VState] = Ret (VNum chi).
  Proof. reflexivity. Qed.
  Lemma oracle_minus1 (log : list (event val)) : O log "expr:[-1]" [] = Ret (VLabels [(-1)%Z]).
  Proof. reflexivity. Qed.
  Lemma oracle_mul (log : list (event val)) (x : Z) (n : nat) :
    O log "op:*" [VLabels [x]; VInt (Z.of_nat n)] = Ret (VLabels (repeat x n)).
  Proof.
    change (O log "op:*" [VLabels [x]; VInt (Z.of_nat n)])
      with (Ret (VLabels (concat (repeat [x] (Z.to_nat (Z.of_nat n)))))).
    rewrite Nat2Z.id, concat_repeat_single. reflexivity.
  Qed.
  Lemma oracle_getitem (log : list (event val)) (l : list Z) (i : nat) :
    O log "getitem" [VLabels l; VInt (Z.of_nat i)]
    = match nth_error l i with Some v => Ret (VInt v) | None => Raise "IndexError" end.
  Proof.
    change (O log "getitem" [VLabels l; VInt (Z.of_nat i)])
      with (if Z.ltb (Z.of_nat i) 0 then unexpected
            else match nth_error l (Z.to_nat (Z.of_nat i)) with Some v => Ret (VInt v) | None => Raise "IndexError" end).
    rewrite Nat2Z.id. replace (Z.ltb (Z.of_nat i) 0) with false by (symmetry; apply Z.ltb_ge; lia). reflexivity.
  Qed.
  Lemma oracle_setitem (log : list (event val)) (l : list Z) (i : nat) (v : Z) :
    i < length l ->
    O log "setitem" [VLabels l; VInt (Z.of_nat i); VInt v] = Ret (VLabels (replace_nth i v l)).
  Proof.
    intros Hi.
    change (O log "setitem" [VLabels l; VInt (Z.of_nat i); VInt v])
      with (if Z.ltb (Z.of_nat i) 0 then unexpected
            else if Nat.ltb (Z.to_nat (Z.of_nat i)) (length l)
                 then Ret (VLabels (replace_nth (Z.to_nat (Z.of_nat i)) v l))
                 else Raise "IndexError").
    rewrite Nat2Z.id. replace (Z.ltb (Z.of_nat i) 0) with false by (symmetry; apply Z.ltb_ge; lia).
    replace (Nat.ltb i (length l)) with true by (symmetry; apply Nat.ltb_lt; exact Hi). reflexivity.
  Qed.
  Lemma oracle_mrfs (log : list (event val)) : O log f_mrfs [VState] = Ret (VMrfs mrfs).
  Proof. reflexivity. Qed.
  Lemma oracle_bycluster (log : list (event val)) (T : nat) :
    O log f_bycluster [VData T; VState] = Ret (VBuckets (buckets K labels value)).
  Proof. reflexivity. Qed.
  Lemma oracle_chain (log : list (event val)) (bs : list (list A)) : O log f_chain [VBuckets bs] = Ret (VNums (flatten bs)).
  Proof. reflexivity. Qed.
  Lemma oracle_list (log : list (event val)) (l : list A) : O log "list" [VNums l] = Ret (VNums l).
  Proof. reflexivity. Qed.
  Lemma oracle_sum (log : list (event val)) (l : list A) : O log "np.sum" [VNums l] = Ret (VNum (sumA l)).
  Proof. reflexivity. Qed.
  Lemma oracle_mean (log : list (event val)) (l : list A) : O log "np.mean" [VNums l] = Ret (VNum (meanA l)).
  Proof. reflexivity. Qed.
  Lemma oracle_median (log : list (event val)) (l : list A) : O log "np.median" [VNums l] = Ret (VNum (median l)).
  Proof. reflexivity. Qed.
  Lemma oracle_cmean (log : list (event val)) (bs : list (list A)) :
    O log f_cmean [VBuckets bs] = Ret (VNums (map (agg0 zero meanA) bs)).
  Proof. reflexivity. Qed.
  Lemma oracle_cmedian (log : list (event val)) (bs : list (list A)) :
    O log f_cmedian [VBuckets bs] = Ret (VNums (map (agg0 zero median) bs)).
  Proof. reflexivity. Qed.
  Lemma oracle_result (log : list (event val)) (b c co ov ovmean ovmedian : A) (cmean cmedian all : list A)
        (ms : list Mrf) (k w : Z) (pl : list Z) :
    O log f_result [VNum b; VNum c; VNum co; VNum ov; VNum ovmean; VNum ovmedian; VNums cmean; VNums cmedian; VNums all;
                    VMrfs ms; VInt k; VLabels pl; VInt w]
    = Ret (VResult (Result b c co ov ovmean ovmedian cmean cmedian all ms k pl w)).
  Proof. reflexivity. Qed.

  (* ---------------------------------------------------------------- the monad, one step at a time *)

  Lemma bind_call (B : Type) (f : string) (a : list val) (k : val -> M val B) (log : list (event val)) :
    mbind (call O f a) k log
    = match O log f a with
      | Ret v => k v (log ++ [Ev f a])%list
      | Raise e => (Raise e, (log ++ [Ev f a])%list)
      end.
  Proof. unfold mbind, call. destruct (O log f a) as [v|e]; reflexivity. Qed.

  Lemma fst_bind_call (B : Type) (f : string) (a : list val) (k : val -> M val B) (log : list (event val))
        (v : val) (R : res B) :
    O log f a = Ret v -> fst (k v (log ++ [Ev f a])%list) = R -> fst (mbind (call O f a) k log) = R.
  Proof. intros Ho Hk. rewrite bind_call, Ho. exact Hk. Qed.

  (* the last call, whose outcome (value or exception) is the outcome of the function *)
  Lemma fst_call_last (f : string) (a : list val) (log : list (event val)) :
    fst (mbind (call O f a) (fun t => mret t) log) = O log f a.
  Proof. unfold mbind, call, mret. destruct (O log f a) as [v|e]; reflexivity. Qed.

  Lemma fst_bind_ret (X B : Type) (mm : M val X) (k : X -> M val B) (log log' : list (event val)) (x : X) (R : res B) :
    mm log = (Ret x, log') -> fst (k x log') = R -> fst (mbind mm k log) = R.
  Proof. intros Hm Hk. unfold mbind. rewrite Hm. exact Hk. Qed.

  Lemma for_break_cons_continue (S : Type) (body : S -> Z -> M val (S * bool)) (x : Z) (r : list Z) (s s' : S)
        (log log' : list (event val)) :
    body s x log = (Ret (s', false), log') -> for_break body (x :: r) s log = for_break body r s' log'.
  Proof. intros Hb. cbn [for_break]. unfold mbind. rewrite Hb. reflexivity. Qed.

  (* ---------------------------------------------------------------- the copy loop *)

  (* the body of the loop, as generated; pl is  current_model_state.point_labels *)
  Definition copy_body (pl : val) : val -> Z -> M val (val * bool) := fun labels i =>
    t6_ <<- call O "getitem" [pl; VInt i] ;;
    labels <<- call O "setitem" [labels; VInt i; t6_] ;;
    mret (labels, false).

  (* iteration i, inside both lists:  acc[i] = src[i] *)
  Lemma copy_body_run (src acc : list Z) (i : nat) (log : list (event val)) :
    i < length src -> i < length acc ->
    exists log',
      copy_body (VLabels src) (VLabels acc) (Z.of_nat i) log
      = (Ret (VLabels (copy_step (-1)%Z src acc i), false), log').
  Proof.
    intros Hs Ha. eexists. unfold copy_body.
    rewrite bind_call, oracle_getitem.
    rewrite (nth_error_nth' src (-1)%Z Hs). cbv beta iota.
    rewrite bind_call, (oracle_setitem _ _ _ _ Ha). cbv beta iota.
    reflexivity.
  Qed.

  (* the whole loop over positions k .. k+n-1, all inside both lists: the model's [copy_positions] *)
  Lemma copy_loop (src : list Z) : forall (n k : nat) (acc : list Z) (log : list (event val)),
    k + n <= length src -> length acc = length src ->
    exists log',
      for_break (copy_body (VLabels src)) (map Z.of_nat (seq k n)) (VLabels acc) log
      = (Ret (VLabels (copy_positions (-1)%Z src (seq k n) acc)), log').
  Proof.
    induction n as [|n IH]; intros k acc log Hk Hacc.
    - exists log. reflexivity.
    - cbn [seq map].
      assert (Hs : k < length src) by lia.
      assert (Ha : k < length acc) by lia.
      destruct (copy_body_run src acc k log Hs Ha) as (l1 & Hb).
      rewrite (for_break_cons_continue _ _ _ _ _ _ _ _ Hb).
      assert (Hk' : S k + n <= length src) by lia.
      assert (Hacc' : length (copy_step (-1)%Z src acc k) = length src).
      { unfold copy_step. rewrite replace_nth_length. exact Hacc. }
      destruct (IH (S k) (copy_step (-1)%Z src acc k) l1 Hk' Hacc') as (l2 & Hr).
      exists l2. exact Hr.
  Qed.

  (* ---------------------------------------------------------------- the whole function *)

  (* what the model says the result is *)
  Definition model_result : result_data :=
    let bs := buckets K labels value in
    let all := flatten bs in
    {| r_bic := bic; r_chi := chi; r_cost := cost;
       r_overall := sumA all; r_overall_mean := meanA all; r_overall_median := median all;
       r_cluster_mean := map (agg0 zero meanA) bs; r_cluster_median := map (agg0 zero median) bs;
       r_all := all; r_mrfs := mrfs; r_K := Z.of_nat K; r_labels := map Z.of_nat labels; r_W := Z.of_nat W |}.

  (* the arguments in the order of the translated suffix: the final state, the stacked data, num_data_points *)
  Definition run (T : nat) : res val * list (event val) :=
    g_fit_stacked_data_result val VInt as_int getattr oracle_model VState (VData T) (VInt (Z.of_nat T)) [].

  Lemma run_result (T : nat) : T = length labels -> fst (run T) = Ret (VResult model_result).
  Proof.
    intros HT. unfold run, g_fit_stacked_data_result. cbv zeta.
    rewrite getattr_point_labels, getattr_cost, getattr_numc, getattr_window, getattr_rows.
    eapply fst_bind_call; [apply oracle_bic|]. cbv beta.
    eapply fst_bind_call; [apply oracle_chi|]. cbv beta.
    eapply fst_bind_call; [apply oracle_minus1|]. cbv beta.
    eapply fst_bind_call; [apply oracle_mul|]. cbv beta.
    eapply fst_bind_ret; [reflexivity|]. cbv beta.
    unfold zrange. rewrite Nat2Z.id.
    assert (HTs : 0 + T <= length (map Z.of_nat labels)) by (rewrite map_length; lia).
    assert (Hacc : length (repeat (-1)%Z T) = length (map Z.of_nat labels)).
    { rewrite repeat_length, map_length. exact HT. }
    match goal with
    | |- fst (mbind _ _ ?L) = _ =>
      destruct (copy_loop (map Z.of_nat labels) T 0 (repeat (-1)%Z T) L HTs Hacc) as (log' & Hrun)
    end.
    rewrite copy_all in Hrun by (rewrite map_length; exact HT).
    eapply fst_bind_ret; [exact Hrun|]. cbv beta.
    eapply fst_bind_call; [apply oracle_mrfs|]. cbv beta.
    eapply fst_bind_call; [apply oracle_bycluster|]. cbv beta.
    eapply fst_bind_call; [apply oracle_chain|]. cbv beta.
    eapply fst_bind_call; [apply oracle_list|]. cbv beta.
    eapply fst_bind_call; [apply oracle_sum|]. cbv beta.
    eapply fst_bind_call; [apply oracle_mean|]. cbv beta.
    eapply fst_bind_call; [apply oracle_median|]. cbv beta.
    eapply fst_bind_call; [apply oracle_cmean|]. cbv beta.
    eapply fst_bind_call; [apply oracle_cmedian|]. cbv beta.
    rewrite fst_call_last. apply oracle_result.
  Qed.

  (* ================================================================ the theorems *)

  (* for every final state (any K, W, labels, cost, MRFs, per-point values) and data with one row per label, the result
     assembly as translated returns the result object whose thirteen fields are the model's *)
  Theorem result_assembly_is_model : forall T : nat, T = length labels ->
    exists log',
      g_fit_stacked_data_result val VInt as_int getattr oracle_model VState (VData T) (VInt (Z.of_nat T)) []
      = (Ret (VResult
                (let bs := buckets K labels value in
                 let all := flatten bs in
                 {| r_bic := bic; r_chi := chi; r_cost := cost;
                    r_overall := sum zero add all;
                    r_overall_mean := mean zero add div of_nat all;
                    r_overall_median := median all;
                    r_cluster_mean := map (agg0 zero (mean zero add div of_nat)) bs;
                    r_cluster_median := map (agg0 zero median) bs;
                    r_all := all; r_mrfs := mrfs; r_K := Z.of_nat K;
                    r_labels := map Z.of_nat labels; r_W := Z.of_nat W |})), log').
  Proof.
    intros T HT. exists (snd (run T)).
    change (run T = (Ret (VResult model_result), snd (run T))).
    rewrite <- (run_result T HT). apply surjective_pairing.
  Qed.

  (* property C06 for the assembled result: one entry per labelled point in the per-point list, the overall figures are
     figures of that very list, cluster k's mean is taken over exactly the points labelled k (zero if there is none), and the
     labels are the state's *)
  Corollary result_fields_consistent : forall T : nat, T = length labels -> Forall (fun c => c < K) labels ->
    exists (r : result_data) (log' : list (event val)),
      g_fit_stacked_data_result val VInt as_int getattr oracle_model VState (VData T) (VInt (Z.of_nat T)) []
      = (Ret (VResult r), log')
      /\ Permutation (r_all r) (map value (seq 0 T))
      /\ length (r_all r) = T
      /\ r_overall r = sum zero add (r_all r)
      /\ r_overall_mean r = mean zero add div of_nat (r_all r)
      /\ r_overall_median r = median (r_all r)
      /\ length (r_cluster_mean r) = K
      /\ (forall k : nat, k < K ->
            nth k (r_cluster_mean r) zero = agg0 zero (mean zero add div of_nat) (map value (members labels k))
            /\ nth k (r_cluster_median r) zero = agg0 zero median (map value (members labels k)))
      /\ (forall k : nat, k < K -> members labels k = [] ->
            nth k (r_cluster_mean r) zero = zero /\ nth k (r_cluster_median r) zero = zero)
      /\ r_labels r = map Z.of_nat labels
      /\ length (r_labels r) = T
      /\ r_cost r = cost.
  Proof.
    intros T HT HK.
    destruct (result_assembly_is_model T HT) as (log' & Hrun).
    eexists. exists log'. split; [exact Hrun|]. cbv zeta. cbn [r_all r_overall r_overall_mean r_overall_median
      r_cluster_mean r_cluster_median r_labels r_cost].
    destruct (C06_one_entry_per_point A K labels value HK) as [Hperm Hlen].
    assert (Hnth : forall (f : list A -> A) (k : nat), k < K ->
              nth k (map (agg0 zero f) (buckets K labels value)) zero = agg0 zero f (map value (members labels k))).
    { intros f k Hk.
      change (nth k (map (agg0 zero f) (buckets K labels value)) (agg0 zero f [])
              = agg0 zero f (map value (members labels k))).
      rewrite map_nth.
      destruct (C06_cluster_aggregates A zero f K labels value k Hk) as [Hb _]. rewrite Hb. reflexivity. }
    split; [rewrite HT; exact Hperm|].
    split; [rewrite HT; exact Hlen|].
    split; [reflexivity|]. split; [reflexivity|]. split; [reflexivity|].
    split; [rewrite map_length; apply buckets_length|].
    split; [intros k Hk; split; apply Hnth; exact Hk|].
    split.
    { intros k Hk He. rewrite !Hnth by exact Hk. rewrite He. split; reflexivity. }
    split; [reflexivity|].
    split; [rewrite map_length; symmetry; exact HT|reflexivity].
  Qed.

  (* without the hypothesis on T the run need not return: one row more than labels and the copy loop reads past the end of
     point_labels (see the example below) *)
End Interp.

(* ================================================================ non-vacuity *)

Section Example.
  Local Open Scope Z_scope.
  Let head0 (l : list Z) : Z := hd 0 l.
  Let value0 (p : nat) : Z := 10 * Z.of_nat p + 1.
  Let V0 := val Z nat.
  Let run0 (labels : list nat) (T : nat) :=
    g_fit_stacked_data_result V0 (VInt Z nat) (as_int Z nat) (getattr Z nat 2 3 labels 7)
      (oracle_model Z 0 Z.add Z.div Z.of_nat head0 nat 2 labels [100; 200]%nat value0 5 9)
      (VState Z nat) (VData Z nat T) (VInt Z nat (Z.of_nat T)) [].

  (* K = 2, W = 3, labels 0 1 1 0, value p = 10 p + 1, mean = sum / n (Z.div), "median" = first element *)
  Example result_assembly_example :
    fst (run0 [0; 1; 1; 0]%nat 4%nat)
    = Ret (VResult Z nat
             {| r_bic := 5; r_chi := 9; r_cost := 7;
                r_overall := 64; r_overall_mean := 16; r_overall_median := 1;
                r_cluster_mean := [16; 16]; r_cluster_median := [1; 11];
                r_all := [1; 31; 11; 21]; r_mrfs := [100; 200]%nat; r_K := 2;
                r_labels := [0; 1; 1; 0]; r_W := 3 |})
    /\ buckets 2 [0; 1; 1; 0]%nat value0 = [[1; 31]; [11; 21]]
    /\ map (@ev_fn _) (snd (run0 [0; 1; 1; 0]%nat 4%nat))
       = ["cluster_metrics.bayesian_information_criterion"; "cluster_metrics.calinski_harabasz_index"; "expr:[-1]"; "op:*";
          "getitem"; "setitem"; "getitem"; "setitem"; "getitem"; "setitem"; "getitem"; "setitem";
          f_mrfs; "_compute_log_likelihood_by_cluster"; "expr:itertools.chain(*cluster_log_likelihood)"; "list";
          "np.sum"; "np.mean"; "np.median"; f_cmean; f_cmedian; f_result]%string.
  Proof. vm_compute. repeat split. Qed.

  (* an empty cluster: its aggregates are 0 and it contributes no entry to the per-point list *)
  Example result_assembly_example_empty_cluster :
    fst (run0 [0; 0; 0]%nat 3%nat)
    = Ret (VResult Z nat
             {| r_bic := 5; r_chi := 9; r_cost := 7;
                r_overall := 33; r_overall_mean := 11; r_overall_median := 1;
                r_cluster_mean := [11; 0]; r_cluster_median := [1; 0];
                r_all := [1; 11; 21]; r_mrfs := [100; 200]%nat; r_K := 2;
                r_labels := [0; 0; 0]; r_W := 3 |}).
  Proof. vm_compute. reflexivity. Qed.

  (* the hypothesis T = length labels is needed: data with one row more than there are labels, and the copy loop raises *)
  Example result_assembly_example_too_many_rows :
    fst (run0 [0; 1; 1; 0]%nat 5%nat) = Raise "IndexError".
  Proof. vm_compute. reflexivity. Qed.
End Example.

Print Assumptions result_assembly_is_model.
Print Assumptions result_fields_consistent.
