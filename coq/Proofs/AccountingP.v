(* Proofs about Model/Accounting.v: the log-likelihood formula and table plumbing,
   per-cluster bucketing, BIC run counting and assembly, Calinski-Harabasz as
   implemented (scalar grand mean as centre) versus as defined (centroid). *)
From Coq Require Import List Arith Lia Reals Lra Psatz Bool Permutation.
Import ListNotations.
From Ticc Require Import Model.Repop Model.Viterbi Model.Accounting Model.InstR Proofs.RepopP.

(* ------------------------------------------------------------------ *)
(* real instances                                                       *)
(* ------------------------------------------------------------------ *)
Definition llR := ll (1/2)%R Rminus Rmult.
Definition sumR := sum 0%R Rplus.
Definition meanR := mean 0%R Rplus Rdiv INR.
Definition bicR := bic 0%R 2%R Rplus Rminus Rmult INR.
Definition dotR := dot 0%R Rplus Rmult.
Definition vsubR := vsub Rminus.
Definition sqR := sq 0%R Rplus Rmult.
Definition grand_scalarR := grand_scalar 0%R Rplus Rdiv INR.
Definition ch_betweenR := ch_between 0%R Rplus Rminus Rmult INR.
Definition ch_withinR := ch_within 0%R Rplus Rminus Rmult.
Definition ch_ratioR := ch_ratio Rmult Rdiv INR.
Definition ch_implR := ch_impl 0%R Rplus Rminus Rmult Rdiv INR.
Definition col_meanR := col_mean 0%R Rplus Rdiv INR.
Definition centroidR := centroid 0%R Rplus Rdiv INR.
Definition ch_defR := ch_def 0%R Rplus Rminus Rmult Rdiv INR.
Definition member_meanR := member_mean 0%R Rplus Rdiv INR.

(* ------------------------------------------------------------------ *)
(* A2: table plumbing (generic carrier)                                 *)
(* ------------------------------------------------------------------ *)
Section Table.
  Context {A : Type}.
  Variables (half : A) (sub mul : A -> A -> A) (of_nat : nat -> A).

  Theorem ll_table_cell (T K nw : nat) (log2pi : A) (logdet : nat -> A) (quad : nat -> nat -> A)
          (p c : nat) (d : A) :
    p < T -> c < K ->
    nth c (nth p (ll_table half sub mul of_nat T K nw log2pi logdet quad) []) d
      = ll half sub mul (logdet c) (quad p c) (nw_log_2pi mul of_nat nw log2pi)
    /\ length (ll_table half sub mul of_nat T K nw log2pi logdet quad) = T.
  Proof.
    intros Hp Hc. unfold ll_table. split.
    - set (f := fun p0 => map (fun c0 => ll half sub mul (logdet c0) (quad p0 c0)
                                            (nw_log_2pi mul of_nat nw log2pi)) (seq 0 K)).
      rewrite (nth_indep _ [] (f 0)) by (rewrite map_length, seq_length; exact Hp).
      rewrite map_nth, seq_nth by exact Hp. cbn [plus]. unfold f.
      set (g := fun c0 => ll half sub mul (logdet c0) (quad p c0) (nw_log_2pi mul of_nat nw log2pi)).
      rewrite (nth_indep _ d (g 0)) by (rewrite map_length, seq_length; exact Hc).
      rewrite map_nth, seq_nth by exact Hc. reflexivity.
    - rewrite map_length, seq_length. reflexivity.
  Qed.

  (* every row has one entry per cluster *)
  Lemma ll_table_row_length (T K nw : nat) (log2pi : A) (logdet : nat -> A) (quad : nat -> nat -> A) :
    Forall (fun r => length r = K) (ll_table half sub mul of_nat T K nw log2pi logdet quad).
  Proof.
    unfold ll_table. apply Forall_forall. intros r Hr. apply in_map_iff in Hr.
    destruct Hr as [p [<- _]]. rewrite map_length, seq_length. reflexivity.
  Qed.
End Table.

(* ------------------------------------------------------------------ *)
(* A3: bucketing                                                        *)
(* ------------------------------------------------------------------ *)
Lemma in_combine_seq_rev (l : list nat) (a p : nat) :
  p < length l -> In (a + p, nth p l 0) (combine (seq a (length l)) l).
Proof.
  revert a p. induction l as [|x l IH]; cbn; intros a p H; [lia|].
  destruct p as [|p].
  - left. f_equal. lia.
  - right. replace (a + S p) with (S a + p) by lia. apply IH. lia.
Qed.

Lemma members_iff (labels : list nat) (k p : nat) :
  In p (members labels k) <-> p < length labels /\ nth p labels 0 = k.
Proof.
  split; [apply members_lt|].
  intros [Hp Hk]. unfold members. apply in_map_iff. exists (p, k). split; [reflexivity|].
  apply filter_In. split.
  - subst k. apply (in_combine_seq_rev labels 0 p Hp).
  - cbn. apply Nat.eqb_refl.
Qed.

Lemma NoDup_app_intro {B} (l1 l2 : list B) :
  NoDup l1 -> NoDup l2 -> (forall x, In x l1 -> ~ In x l2) -> NoDup (l1 ++ l2).
Proof.
  induction l1 as [|a l1 IH]; cbn; intros H1 H2 H; [exact H2|].
  inversion H1; subst. constructor.
  - intros Hin. apply in_app_or in Hin. destruct Hin as [Hin|Hin]; [contradiction|].
    apply (H a); auto.
  - apply IH; auto.
Qed.

Lemma NoDup_concat_map {B} (f : nat -> list B) (l : list nat) :
  NoDup l -> (forall k, In k l -> NoDup (f k)) ->
  (forall k k' x, In k l -> In k' l -> In x (f k) -> In x (f k') -> k = k') ->
  NoDup (concat (map f l)).
Proof.
  induction l as [|a l IH]; cbn; intros Hnd H1 H2; [constructor|].
  inversion Hnd; subst. apply NoDup_app_intro.
  - apply H1. auto.
  - apply IH; auto. intros k k' x Hk Hk'. apply H2; auto.
  - intros x Hx Hin. apply in_concat in Hin. destruct Hin as [m [Hm Hxm]].
    apply in_map_iff in Hm. destruct Hm as [k [<- Hk]].
    assert (a = k) by (apply (H2 a k x); auto). subst. contradiction.
Qed.

(* the member lists of clusters 0..K-1 partition the positions *)
Theorem members_partition (K : nat) (labels : list nat) :
  Forall (fun c => c < K) labels ->
  Permutation (concat (map (members labels) (seq 0 K))) (seq 0 (length labels)).
Proof.
  intros HK. apply NoDup_Permutation.
  - apply NoDup_concat_map.
    + apply seq_NoDup.
    + intros k _. apply members_NoDup.
    + intros k k' x _ _ Hk Hk'. apply members_iff in Hk, Hk'. destruct Hk, Hk'. congruence.
  - apply seq_NoDup.
  - intros p. rewrite in_seq. split.
    + intros Hin. apply in_concat in Hin. destruct Hin as [m [Hm Hp]].
      apply in_map_iff in Hm. destruct Hm as [k [<- _]]. apply members_iff in Hp. lia.
    + intros Hp. apply in_concat. exists (members labels (nth p labels 0)). split.
      * apply in_map. apply in_seq. rewrite Forall_forall in HK.
        assert (nth p labels 0 < K) by (apply HK, nth_In; lia). lia.
      * apply members_iff. split; [lia|reflexivity].
Qed.

Section Buckets.
  Context {A : Type}.

  Lemma flatten_buckets (K : nat) (labels : list nat) (val : nat -> A) :
    flatten (buckets K labels val) = map val (concat (map (members labels) (seq 0 K))).
  Proof.
    unfold flatten, buckets. rewrite concat_map, map_map. reflexivity.
  Qed.

  Theorem buckets_permutation (K : nat) (labels : list nat) (val : nat -> A) :
    Forall (fun c => c < K) labels ->
    Permutation (flatten (buckets K labels val)) (map val (seq 0 (length labels))).
  Proof.
    intros HK. rewrite flatten_buckets. apply Permutation_map, members_partition, HK.
  Qed.

  Theorem buckets_cluster (K : nat) (labels : list nat) (val : nat -> A) (k : nat) (d : list A) :
    k < K -> nth k (buckets K labels val) d = map val (members labels k).
  Proof.
    intros Hk. unfold buckets.
    set (f := fun k0 => map val (members labels k0)).
    rewrite (nth_indep _ d (f 0)) by (rewrite map_length, seq_length; exact Hk).
    rewrite map_nth, seq_nth by exact Hk. reflexivity.
  Qed.

  Theorem buckets_length (K : nat) (labels : list nat) (val : nat -> A) :
    length (buckets K labels val) = K.
  Proof. unfold buckets. rewrite map_length, seq_length. reflexivity. Qed.

  Theorem flatten_buckets_length (K : nat) (labels : list nat) (val : nat -> A) :
    Forall (fun c => c < K) labels ->
    length (flatten (buckets K labels val)) = length labels.
  Proof.
    intros HK. rewrite (Permutation_length (buckets_permutation K labels val HK)).
    rewrite map_length, seq_length. reflexivity.
  Qed.
End Buckets.

(* sums over R *)
Lemma sumR_fold_right (l : list R) : sumR l = fold_right Rplus 0%R l.
Proof.
  unfold sumR, sum. apply fold_symmetric; intros; ring.
Qed.

Lemma sumR_nil : sumR [] = 0%R.
Proof. reflexivity. Qed.

Lemma sumR_cons (x : R) (l : list R) : sumR (x :: l) = (x + sumR l)%R.
Proof. rewrite !sumR_fold_right. reflexivity. Qed.

Lemma sumR_app (l1 l2 : list R) : sumR (l1 ++ l2) = (sumR l1 + sumR l2)%R.
Proof.
  induction l1 as [|x l1 IH]; cbn [app].
  - rewrite sumR_nil. ring.
  - rewrite !sumR_cons, IH. ring.
Qed.

Lemma sumR_perm (l l' : list R) : Permutation l l' -> sumR l = sumR l'.
Proof.
  induction 1.
  - reflexivity.
  - rewrite !sumR_cons. congruence.
  - rewrite !sumR_cons. ring.
  - congruence.
Qed.

Theorem sum_flatten_buckets (K : nat) (labels : list nat) (val : nat -> R) :
  Forall (fun c => c < K) labels ->
  sumR (flatten (buckets K labels val)) = sumR (map val (seq 0 (length labels))).
Proof. intros HK. apply sumR_perm, buckets_permutation, HK. Qed.

(* the mean over the flattened per-cluster values is the mean over all points *)
Corollary mean_flatten_buckets (K : nat) (labels : list nat) (val : nat -> R) :
  Forall (fun c => c < K) labels ->
  meanR (flatten (buckets K labels val)) = meanR (map val (seq 0 (length labels))).
Proof.
  intros HK. unfold meanR, mean. fold sumR.
  rewrite (sum_flatten_buckets K labels val HK), (flatten_buckets_length K labels val HK).
  rewrite map_length, seq_length. reflexivity.
Qed.

(* ------------------------------------------------------------------ *)
(* A4: BIC                                                              *)
(* ------------------------------------------------------------------ *)
Lemma run_params_from_some (params : nat -> nat) (labels : list nat) : forall x,
  run_params_from (Some x) params labels + params x = list_sum (map params (runs (x :: labels))).
Proof.
  induction labels as [|l r IH]; intros x.
  - cbn. lia.
  - specialize (IH l). cbn [run_params_from].
    change (runs (x :: l :: r)) with (if Nat.eqb x l then runs (l :: r) else x :: runs (l :: r)).
    destruct (Nat.eqb_spec x l).
    + subst. lia.
    + unfold list_sum. cbn [map fold_right]. fold (list_sum (map params (runs (l :: r)))). lia.
Qed.

Theorem run_params_is_runs (params : nat -> nat) (labels : list nat) :
  run_params params labels = list_sum (map params (runs labels)).
Proof.
  destruct labels as [|l r]; [reflexivity|].
  unfold run_params. cbn [run_params_from]. rewrite <- run_params_from_some. lia.
Qed.

Lemma runs_cons (r : list nat) : forall l, exists t, runs (l :: r) = l :: t.
Proof.
  induction r as [|l' r IH]; intros l.
  - exists []. reflexivity.
  - change (runs (l :: l' :: r)) with (if Nat.eqb l l' then runs (l' :: r) else l :: runs (l' :: r)).
    destruct (Nat.eqb_spec l l').
    + subst. apply IH.
    + eexists. reflexivity.
Qed.

Theorem runs_spec (labels : list nat) :
  (forall i, S i < length (runs labels) -> nth i (runs labels) 0 <> nth (S i) (runs labels) 0) /\
  (labels <> [] -> runs labels <> [] /\ hd 0 (runs labels) = hd 0 labels).
Proof.
  split.
  - induction labels as [|l r IH]; [cbn; intros; lia|].
    destruct r as [|l' r]; [cbn; intros; lia|].
    change (runs (l :: l' :: r)) with (if Nat.eqb l l' then runs (l' :: r) else l :: runs (l' :: r)).
    destruct (Nat.eqb_spec l l'); [exact IH|].
    destruct (runs_cons r l') as [t Ht]. rewrite Ht in *.
    intros [|i] Hi.
    + cbn. exact n.
    + apply (IH i). cbn in Hi |- *. lia.
  - destruct labels as [|l r]; [congruence|]. intros _.
    destruct (runs_cons r l) as [t Ht]. rewrite Ht. split; [discriminate|reflexivity].
Qed.

(* runs only forgets repetitions: expanding is not needed for the count, but
   every run label is a label *)
Lemma runs_incl (labels : list nat) : incl (runs labels) labels.
Proof.
  induction labels as [|l r IH]; [intros x Hx; exact Hx|].
  destruct r as [|l' r]; [intros x Hx; exact Hx|].
  change (runs (l :: l' :: r)) with (if Nat.eqb l l' then runs (l' :: r) else l :: runs (l' :: r)).
  destruct (Nat.eqb l l').
  - apply incl_tl, IH.
  - apply incl_cons; [left; reflexivity|]. apply incl_tl, IH.
Qed.

Theorem bic_formula (P : nat) (lnT : R) (lds trs : list R) :
  length lds = length trs ->
  bicR P lnT lds trs = (INR P * lnT - 2 * fold_right Rplus 0 (map2 Rminus lds trs))%R.
Proof.
  intros _. unfold bicR, bic, mod_lle.
  change (fold_left Rplus (map2 Rminus lds trs) 0%R) with (sumR (map2 Rminus lds trs)).
  rewrite sumR_fold_right. reflexivity.
Qed.

(* ------------------------------------------------------------------ *)
(* A1: the formula is the log of the Gaussian density                   *)
(* ------------------------------------------------------------------ *)
Lemma ln_sqrt_half (x : R) : (0 < x)%R -> ln (sqrt x) = (ln x / 2)%R.
Proof.
  intros Hx. assert (Hs : (0 < sqrt x)%R) by (apply sqrt_lt_R0; exact Hx).
  assert (H : ln x = (ln (sqrt x) + ln (sqrt x))%R).
  { rewrite <- ln_mult by exact Hs. rewrite sqrt_def by lra. reflexivity. }
  lra.
Qed.

Theorem ll_is_log_density (D q : R) (n : nat) : (0 < D)%R ->
  ln (sqrt (D / (2 * PI) ^ n) * exp (- q / 2)) = llR (ln D) q (INR n * ln (2 * PI)).
Proof.
  intros HD.
  assert (Hpi : (0 < 2 * PI)%R) by (pose proof PI_RGT_0; lra).
  assert (Hpow : (0 < (2 * PI) ^ n)%R) by (apply pow_lt; exact Hpi).
  assert (Hdiv : (0 < D / (2 * PI) ^ n)%R) by (apply Rdiv_lt_0_compat; assumption).
  rewrite ln_mult; [|apply sqrt_lt_R0; exact Hdiv|apply exp_pos].
  rewrite ln_exp, ln_sqrt_half by exact Hdiv.
  unfold Rdiv at 2. rewrite ln_mult; [|exact HD|apply Rinv_0_lt_compat; exact Hpow].
  rewrite ln_Rinv by exact Hpow. rewrite ln_pow by exact Hpi.
  unfold llR, ll. lra.
Qed.

(* ------------------------------------------------------------------ *)
(* A7: a concrete instance where the implemented index differs          *)
(* ------------------------------------------------------------------ *)
Local Open Scope R_scope.

Definition ex_data : list (list R) := [[0; 10]; [2; 10]; [10; 10]; [12; 10]].
Definition ex_mems (k : nat) : list nat :=
  match k with O => [0; 1]%nat | S O => [2; 3]%nat | _ => [] end.
Definition ex_mu (k : nat) : list R :=
  match k with O => [1; 10] | S O => [11; 10] | _ => [] end.

Lemma ex_mu_is_member_mean (k : nat) : (k < 2)%nat -> ex_mu k = member_meanR ex_data (ex_mems k).
Proof.
  intros Hk. destruct k as [|[|k]]; [| |lia];
    unfold member_meanR, member_mean, sum, row, ex_data, ex_mems, ex_mu; cbn;
    repeat f_equal; field.
Qed.

Lemma ex_centroid : centroidR ex_data = [6; 10].
Proof.
  unfold centroidR, centroid, col_mean, sum, ex_data; cbn. repeat f_equal; field.
Qed.

Lemma ex_grand_scalar : grand_scalarR ex_data = 8.
Proof.
  unfold grand_scalarR, grand_scalar, sum, ex_data; cbn. field.
Qed.

Lemma ex_ch_def : ch_defR 2 ex_data ex_mems ex_mu = 50.
Proof.
  unfold ch_defR, ch_def. fold centroidR. rewrite ex_centroid.
  unfold ch_ratio, ch_between, ch_within, sum, sq, dot, vsub, row, ex_data, ex_mems, ex_mu; cbn.
  field.
Qed.

Lemma ex_ch_impl : ch_implR 2 ex_data ex_mems ex_mu = 66.
Proof.
  unfold ch_implR, ch_impl. fold grand_scalarR. rewrite ex_grand_scalar.
  unfold ch_ratio, ch_between, ch_within, sum, sq, dot, vsub, row, ex_data, ex_mems, ex_mu; cbn.
  field.
Qed.

Theorem ch_impl_differs_from_def : ch_implR 2 ex_data ex_mems ex_mu <> ch_defR 2 ex_data ex_mems ex_mu.
Proof. rewrite ex_ch_impl, ex_ch_def. lra. Qed.

(* ------------------------------------------------------------------ *)
(* A5: Calinski-Harabasz, implemented centre versus centroid            *)
(* ------------------------------------------------------------------ *)
Lemma sumR_map_add {B} (f g : B -> R) (l : list B) :
  sumR (map (fun x => f x + g x) l) = sumR (map f l) + sumR (map g l).
Proof.
  induction l as [|x l IH]; cbn [map]; [rewrite !sumR_nil; ring|].
  rewrite !sumR_cons, IH. ring.
Qed.

Lemma sumR_map_scale {B} (a : R) (f : B -> R) (l : list B) :
  sumR (map (fun x => a * f x) l) = a * sumR (map f l).
Proof.
  induction l as [|x l IH]; cbn [map]; [rewrite !sumR_nil; ring|].
  rewrite !sumR_cons, IH. ring.
Qed.

Lemma sumR_map_zero {B} (l : list B) : sumR (map (fun _ => 0) l) = 0.
Proof.
  induction l as [|x l IH]; cbn [map]; [reflexivity|]. rewrite sumR_cons, IH. ring.
Qed.

Lemma sumR_swap {B C} (F : B -> C -> R) (lb : list B) (lc : list C) :
  sumR (map (fun b => sumR (map (fun c => F b c) lc)) lb)
  = sumR (map (fun c => sumR (map (fun b => F b c) lb)) lc).
Proof.
  induction lb as [|b lb IH]; cbn [map].
  - rewrite sumR_nil. symmetry. apply sumR_map_zero.
  - rewrite sumR_cons, IH.
    rewrite <- (sumR_map_add (fun c => F b c) (fun c => sumR (map (fun b0 => F b0 c) lb))).
    f_equal. apply map_ext. intros c. rewrite sumR_cons. reflexivity.
Qed.

Lemma sumR_concat_map {B} (f : B -> list R) (l : list B) :
  sumR (concat (map f l)) = sumR (map (fun x => sumR (f x)) l).
Proof.
  induction l as [|x l IH]; cbn [map concat]; [reflexivity|].
  rewrite sumR_app, sumR_cons, IH. reflexivity.
Qed.

Lemma INR_length_concat_map {B C} (f : B -> list C) (l : list B) :
  INR (length (concat (map f l))) = sumR (map (fun x => INR (length (f x))) l).
Proof.
  induction l as [|x l IH]; cbn [map concat]; [reflexivity|].
  rewrite app_length, plus_INR, sumR_cons, IH. reflexivity.
Qed.

Lemma map2_nth0 (f : R -> R -> R) (u v : list R) : forall j,
  (j < length u)%nat -> (j < length v)%nat ->
  nth j (map2 f u v) 0 = f (nth j u 0) (nth j v 0).
Proof.
  revert v. induction u as [|x u IH]; intros [|y v] j Hu Hv; cbn in *; try lia.
  destruct j as [|j]; [reflexivity|]. apply IH; lia.
Qed.

Lemma map2_len {B C D} (f : B -> C -> D) (u : list B) (v : list C) :
  length (map2 f u v) = Nat.min (length u) (length v).
Proof.
  revert v. induction u as [|x u IH]; intros [|y v]; cbn; auto.
Qed.

Lemma nth_map_seq_gen {B} (g : nat -> B) (d j : nat) (dflt : B) :
  (j < d)%nat -> nth j (map g (seq 0 d)) dflt = g j.
Proof.
  intros Hj. rewrite (nth_indep _ dflt (g 0%nat)) by (rewrite map_length, seq_length; exact Hj).
  rewrite map_nth, seq_nth by exact Hj. reflexivity.
Qed.

Lemma nth_map_lt {B C} (f : B -> C) (l : list B) (p : nat) (db : B) (dc : C) :
  (p < length l)%nat -> nth p (map f l) dc = f (nth p l db).
Proof.
  intros Hp. rewrite (nth_indep _ dc (f db)) by (rewrite map_length; exact Hp). apply map_nth.
Qed.

Lemma nth_map_seq (g : nat -> R) (d j : nat) : (j < d)%nat -> nth j (map g (seq 0 d)) 0 = g j.
Proof. apply nth_map_seq_gen. Qed.

Lemma map_nth_seq (w : list R) : map (fun j => nth j w 0) (seq 0 (length w)) = w.
Proof.
  apply (nth_ext _ _ 0 0).
  - rewrite map_length, seq_length. reflexivity.
  - intros j Hj. rewrite map_length, seq_length in Hj.
    rewrite nth_map_seq by exact Hj. reflexivity.
Qed.

(* squared distance as a sum over coordinates *)
Lemma sq_vsub_coords (d : nat) (u v : list R) : length u = d -> length v = d ->
  sqR (vsubR u v) = sumR (map (fun j => (nth j u 0 - nth j v 0) * (nth j u 0 - nth j v 0)) (seq 0 d)).
Proof.
  intros Hu Hv.
  change (sqR (vsubR u v)) with (sumR (map2 Rmult (map2 Rminus u v) (map2 Rminus u v))).
  set (w := map2 Rmult (map2 Rminus u v) (map2 Rminus u v)).
  assert (Hw : length w = d) by (unfold w; rewrite !map2_len, Hu, Hv, !Nat.min_id; reflexivity).
  rewrite <- (map_nth_seq w) at 1. rewrite Hw. f_equal. apply map_ext_in. intros j Hj.
  apply in_seq in Hj. unfold w.
  rewrite map2_nth0 by (rewrite map2_len, Hu, Hv, Nat.min_id; lia).
  rewrite map2_nth0 by lia. reflexivity.
Qed.

(* the scalar identity behind the decomposition *)
Lemma weighted_sq_shift {B} (n m : B -> R) (c g Tt : R) (l : list B) :
  sumR (map n l) = Tt -> sumR (map (fun k => n k * m k) l) = Tt * c ->
  sumR (map (fun k => n k * ((m k - g) * (m k - g))) l)
  = sumR (map (fun k => n k * ((m k - c) * (m k - c))) l) + Tt * ((c - g) * (c - g)).
Proof.
  intros H1 H2.
  assert (H : sumR (map (fun k => n k * ((m k - g) * (m k - g))) l)
              = sumR (map (fun k => n k * ((m k - c) * (m k - c))) l)
                + 2 * (c - g) * (sumR (map (fun k => n k * m k) l) - c * sumR (map n l))
                + (c - g) * (c - g) * sumR (map n l)).
  { clear H1 H2. induction l as [|k l IH]; cbn [map]; [rewrite !sumR_nil; ring|].
    rewrite !sumR_cons, IH. ring. }
  rewrite H, H1, H2. ring.
Qed.

Lemma nth_repeat0 (g : R) (d j : nat) : (j < d)%nat -> nth j (repeat g d) 0 = g.
Proof.
  revert j. induction d as [|d IH]; intros j Hj; [lia|].
  destruct j as [|j]; cbn; [reflexivity|]. apply IH. lia.
Qed.

Lemma sumR_sq_nonneg {B} (f : B -> R) (l : list B) : 0 <= sumR (map (fun j => f j * f j) l).
Proof.
  induction l as [|x l IH]; cbn [map]; [rewrite sumR_nil; lra|].
  rewrite sumR_cons. pose proof (Rle_0_sqr (f x)) as Hs. unfold Rsqr in Hs. lra.
Qed.

Lemma sumR_sq_zero {B} (f : B -> R) (l : list B) :
  sumR (map (fun j => f j * f j) l) = 0 -> forall j, In j l -> f j = 0.
Proof.
  induction l as [|x l IH]; cbn [map]; intros H j Hj; [destruct Hj|].
  rewrite sumR_cons in H. pose proof (sumR_sq_nonneg f l).
  pose proof (Rle_0_sqr (f x)) as Hs. unfold Rsqr in Hs.
  destruct Hj as [<-|Hj]; [|apply IH; [lra|exact Hj]].
  assert (Hz : f x * f x = 0) by lra.
  apply Rmult_integral in Hz. destruct Hz; assumption.
Qed.

Section CH.
  Variables (K : nat) (data : list (list R)) (mems : nat -> list nat) (mu : nat -> list R).
  Let T := length data.
  Let d := length (hd [] data).
  Hypothesis HT : (1 <= T)%nat.
  Hypothesis Hpart : Permutation (concat (map mems (seq 0 K))) (seq 0 T).
  Hypothesis Hmu : forall k, (k < K)%nat -> mems k <> [] -> mu k = member_meanR data (mems k).

  Let nk (k : nat) : R := INR (length (mems k)).

  (* empty clusters are allowed: they have weight 0 in every sum below *)
  Lemma mems_dec k : mems k = [] \/ mems k <> [].
  Proof. destruct (mems k); [left; reflexivity|right; discriminate]. Qed.

  Lemma nk_zero k : mems k = [] -> nk k = 0.
  Proof. intros E. unfold nk. rewrite E. reflexivity. Qed.

  Lemma mu_length k : (k < K)%nat -> mems k <> [] -> length (mu k) = d.
  Proof.
    intros Hk Hne. rewrite (Hmu k Hk Hne). unfold member_meanR, member_mean.
    rewrite map_length, seq_length. reflexivity.
  Qed.

  Lemma centroid_length : length (centroidR data) = d.
  Proof. unfold centroidR, centroid. rewrite map_length, seq_length. reflexivity. Qed.

  Lemma centroid_nth j : (j < d)%nat -> nth j (centroidR data) 0 = col_meanR data j.
  Proof. intros Hj. unfold centroidR, centroid. apply nth_map_seq. exact Hj. Qed.

  Lemma sizes_sum : sumR (map nk (seq 0 K)) = INR T.
  Proof.
    unfold nk. rewrite <- INR_length_concat_map.
    rewrite (Permutation_length Hpart), seq_length. reflexivity.
  Qed.

  Lemma nk_pos k : mems k <> [] -> 0 < nk k.
  Proof.
    intros Hne. unfold nk. apply lt_0_INR.
    destruct (mems k); [congruence|cbn; lia].
  Qed.

  Lemma T_pos : 0 < INR T.
  Proof. apply lt_0_INR. lia. Qed.

  (* sum_k n_k mu_k = sum of all rows = T * centroid, per coordinate *)
  Lemma weighted_means_sum j : (j < d)%nat ->
    sumR (map (fun k => nk k * nth j (mu k) 0) (seq 0 K)) = INR T * col_meanR data j.
  Proof.
    intros Hj.
    assert (H1 : map (fun k => nk k * nth j (mu k) 0) (seq 0 K)
                 = map (fun k => sumR (map (fun p => nth j (row data p) 0) (mems k))) (seq 0 K)).
    { apply map_ext_in. intros k Hk. apply in_seq in Hk.
      destruct (mems_dec k) as [E|Hne].
      { rewrite (nk_zero k E), E. cbn [map]. rewrite sumR_nil. ring. }
      rewrite (Hmu k) by (auto; lia). unfold member_meanR, member_mean. fold d. fold sumR.
      rewrite (nth_map_seq (fun j0 => sumR (map (fun p => nth j0 (row data p) 0) (mems k))
                                      / INR (length (mems k))) d j Hj).
      fold (nk k). pose proof (nk_pos k Hne). field. lra. }
    rewrite H1.
    rewrite <- (sumR_concat_map (fun k => map (fun p => nth j (row data p) 0) (mems k))).
    rewrite <- (map_map mems (map (fun p => nth j (row data p) 0))), <- concat_map.
    rewrite (sumR_perm _ _ (Permutation_map (fun p => nth j (row data p) 0) Hpart)).
    unfold col_meanR, col_mean. fold sumR. fold T.
    assert (H2 : map (fun p => nth j (row data p) 0) (seq 0 T) = map (fun r => nth j r 0) data).
    { unfold row, T. clear. 
      apply (nth_ext _ _ 0 0).
      - rewrite !map_length, seq_length. reflexivity.
      - intros p Hp. rewrite map_length, seq_length in Hp.
        rewrite nth_map_seq by exact Hp.
        rewrite (nth_map_lt (fun r : list R => nth j r 0) data p [] 0 Hp). reflexivity. }
    rewrite H2. pose proof T_pos. field. lra.
  Qed.

  (* between-cluster dispersion about ANY centre of length d, per coordinate *)
  Lemma between_coords (g : list R) : length g = d ->
    ch_betweenR K mems mu g
    = sumR (map (fun j => sumR (map (fun k => nk k * ((nth j (mu k) 0 - nth j g 0) * (nth j (mu k) 0 - nth j g 0)))
                                    (seq 0 K))) (seq 0 d)).
  Proof.
    intros Hg. unfold ch_betweenR, ch_between. fold sumR. fold sqR. fold vsubR.
    rewrite <- (sumR_swap (fun k j => nk k * ((nth j (mu k) 0 - nth j g 0) * (nth j (mu k) 0 - nth j g 0)))).
    f_equal. apply map_ext_in. intros k Hk. apply in_seq in Hk.
    fold (nk k). destruct (mems_dec k) as [E|Hne].
    { rewrite sumR_map_scale, (nk_zero k E). ring. }
    rewrite (sq_vsub_coords d) by (try apply mu_length; auto; lia).
    rewrite sumR_map_scale. reflexivity.
  Qed.

  Theorem ch_between_gap (g0v : list R) : length g0v = d ->
    ch_betweenR K mems mu g0v
    = ch_betweenR K mems mu (centroidR data) + INR T * sqR (vsubR (centroidR data) g0v).
  Proof.
    intros Hg. rewrite (between_coords g0v Hg), (between_coords _ centroid_length).
    rewrite (sq_vsub_coords d) by (auto using centroid_length).
    rewrite <- sumR_map_scale, <- sumR_map_add.
    f_equal. apply map_ext_in. intros j Hj. apply in_seq in Hj.
    rewrite (centroid_nth j) by lia.
    apply (weighted_sq_shift nk (fun k => nth j (mu k) 0) (col_meanR data j) (nth j g0v 0) (INR T)).
    - apply sizes_sum.
    - apply weighted_means_sum. lia.
  Qed.

  Lemma centroid_centred_iff :
    (forall j, (j < d)%nat -> col_meanR data j = grand_scalarR data)
    <-> centroidR data = repeat (grand_scalarR data) d.
  Proof.
    split.
    - intros H. apply (nth_ext _ _ 0 0).
      + rewrite centroid_length, repeat_length. reflexivity.
      + intros j Hj. rewrite centroid_length in Hj.
        rewrite centroid_nth, nth_repeat0 by exact Hj. apply H, Hj.
    - intros H j Hj. rewrite <- centroid_nth, H by exact Hj. apply nth_repeat0, Hj.
  Qed.

  (* the implemented index = the defined index + an explicit non-negative excess *)
  Theorem ch_impl_gap :
    ch_implR K data mems mu
    = ch_defR K data mems mu
      + INR T * sqR (vsubR (centroidR data) (repeat (grand_scalarR data) d))
        / ch_withinR K data mems mu * (INR (T - K) / INR (K - 1)).
  Proof.
    unfold ch_implR, ch_impl, ch_defR, ch_def, ch_ratio.
    fold T. fold d. fold grand_scalarR. fold centroidR. fold ch_betweenR. fold ch_withinR.
    rewrite (ch_between_gap (repeat (grand_scalarR data) d)) by apply repeat_length.
    unfold Rdiv. ring.
  Qed.

  Theorem ch_impl_eq_def_if_centred :
    (forall j, (j < d)%nat -> col_meanR data j = grand_scalarR data) ->
    ch_implR K data mems mu = ch_defR K data mems mu.
  Proof.
    intros H. apply centroid_centred_iff in H.
    unfold ch_implR, ch_impl, ch_defR, ch_def.
    fold d. fold grand_scalarR. fold centroidR. rewrite H. reflexivity.
  Qed.

  Theorem ch_impl_eq_def_iff_centred :
    (2 <= K)%nat -> (K < T)%nat -> 0 < ch_withinR K data mems mu ->
    (ch_implR K data mems mu = ch_defR K data mems mu
     <-> forall j, (j < d)%nat -> col_meanR data j = grand_scalarR data).
  Proof.
    intros HK HKT HW. split; [|apply ch_impl_eq_def_if_centred].
    intros Heq. rewrite ch_impl_gap in Heq.
    set (X := sqR (vsubR (centroidR data) (repeat (grand_scalarR data) d))) in *.
    assert (H1 : 0 < INR (T - K)) by (apply lt_0_INR; lia).
    assert (H2 : 0 < INR (K - 1)) by (apply lt_0_INR; lia).
    pose proof T_pos as H3.
    assert (HX : X = 0).
    { assert (Hz : INR T * X / ch_withinR K data mems mu * (INR (T - K) / INR (K - 1)) = 0) by lra.
      assert (Hr : 0 < INR (T - K) / INR (K - 1)) by (apply Rdiv_lt_0_compat; assumption).
      apply Rmult_integral in Hz. destruct Hz as [Hz|Hz]; [|lra].
      unfold Rdiv in Hz. apply Rmult_integral in Hz. destruct Hz as [Hz|Hz].
      - apply Rmult_integral in Hz. destruct Hz; lra.
      - pose proof (Rinv_0_lt_compat _ HW). lra. }
    unfold X in HX. rewrite (sq_vsub_coords d) in HX by (auto using centroid_length, repeat_length).
    intros j Hj.
    pose proof (sumR_sq_zero (fun j => nth j (centroidR data) 0 - nth j (repeat (grand_scalarR data) d) 0)
                             (seq 0 d) HX j) as Hz.
    cbv beta in Hz. rewrite centroid_nth, nth_repeat0 in Hz by exact Hj.
    assert (In j (seq 0 d)) by (apply in_seq; lia). specialize (Hz H). lra.
  Qed.
End CH.

(* ------------------------------------------------------------------ *)
(* A6: the defined index is translation invariant                       *)
(* ------------------------------------------------------------------ *)
Lemma sumR_map_const {B} (c : R) (l : list B) : sumR (map (fun _ => c) l) = INR (length l) * c.
Proof.
  induction l as [|x l IH]; [cbn [map length INR]; rewrite sumR_nil; ring|].
  cbn [map]. rewrite sumR_cons, IH. cbn [length]. rewrite S_INR. ring.
Qed.

Lemma shift_cancel (u v t : list R) : (Nat.min (length u) (length v) <= length t)%nat ->
  map2 Rminus (map2 Rplus u t) (map2 Rplus v t) = map2 Rminus u v.
Proof.
  revert v t. induction u as [|x u IH]; intros v t H; [reflexivity|].
  destruct v as [|y v].
  - destruct t; reflexivity.
  - destruct t as [|z t]; [cbn in H; lia|].
    cbn. f_equal; [ring|]. apply IH. cbn in H. lia.
Qed.

Section Translation.
  Variables (K d : nat) (data : list (list R)) (mems : nat -> list nat) (mu : nat -> list R).
  Variable tv : list R.
  Hypothesis HT : data <> [].
  Hypothesis Hrows : Forall (fun r => length r = d) data.
  Hypothesis Htv : length tv = d.

  Let shift (r : list R) : list R := map2 Rplus r tv.
  Let data' := map shift data.
  Let mu' (k : nat) := shift (mu k).

  Lemma hd_len : length (hd [] data) = d.
  Proof. destruct data as [|r0 rest]; [congruence|]. inversion Hrows as [|? ? Hr0 Hrest]. exact Hr0. Qed.

  Lemma hd_len' : length (hd [] data') = d.
  Proof.
    unfold data'. destruct data as [|r0 rest]; [congruence|]. inversion Hrows as [|? ? Hr0 Hrest].
    cbn. unfold shift. rewrite map2_len, Htv, Hr0. lia.
  Qed.

  Lemma row_len p : (length (row data p) <= d)%nat.
  Proof.
    unfold row. destruct (Nat.lt_ge_cases p (length data)) as [Hp|Hp].
    - rewrite Forall_forall in Hrows. rewrite (Hrows (nth p data [])) by (apply nth_In; exact Hp). lia.
    - rewrite nth_overflow by exact Hp. cbn. lia.
  Qed.

  Lemma row_shift p : row data' p = shift (row data p).
  Proof.
    unfold row, data'. change (@nil R) with (shift []) at 1. apply map_nth.
  Qed.

  Lemma col_mean_shift j : (j < d)%nat -> col_meanR data' j = col_meanR data j + nth j tv 0.
  Proof.
    intros Hj. unfold col_meanR, col_mean. fold sumR. unfold data'. rewrite map_map, map_length.
    assert (H : map (fun r => nth j (shift r) 0) data = map (fun r => nth j r 0 + nth j tv 0) data).
    { apply map_ext_in. intros r Hr. rewrite Forall_forall in Hrows. specialize (Hrows r Hr).
      unfold shift. apply map2_nth0; lia. }
    rewrite H, (sumR_map_add (fun r => nth j r 0) (fun _ => nth j tv 0)), sumR_map_const.
    assert (0 < INR (length data)).
    { apply lt_0_INR. destruct data; [congruence|cbn; lia]. }
    field. lra.
  Qed.

  Lemma centroid_shift : centroidR data' = shift (centroidR data).
  Proof.
    unfold centroidR, centroid. rewrite hd_len, hd_len'. apply (nth_ext _ _ 0 0).
    - unfold shift. rewrite map2_len, !map_length, seq_length, Htv. lia.
    - intros j Hj. rewrite map_length, seq_length in Hj. unfold shift.
      rewrite map2_nth0 by (rewrite ?map_length, ?seq_length; lia).
      rewrite !nth_map_seq by exact Hj. apply col_mean_shift, Hj.
  Qed.

  Theorem ch_def_translation_invariant :
    ch_defR K data' mems mu' = ch_defR K data mems mu.
  Proof.
    unfold ch_defR, ch_def. fold centroidR. rewrite centroid_shift.
    replace (length data') with (length data) by (unfold data'; rewrite map_length; reflexivity).
    f_equal.
    - unfold ch_between. f_equal. apply map_ext. intros k. f_equal. f_equal.
      unfold mu', shift, vsub. apply shift_cancel.
      fold centroidR. unfold centroidR, centroid. rewrite map_length, seq_length, hd_len. lia.
    - unfold ch_within. f_equal. apply map_ext. intros k. f_equal. apply map_ext. intros p.
      f_equal. rewrite row_shift. unfold mu', shift, vsub. apply shift_cancel.
      pose proof (row_len p). lia.
  Qed.
End Translation.

(* sanity: the general gap theorem on the concrete instance: 132 = 100 + 4 * 8 *)
Lemma ex_partition : Permutation (concat (map ex_mems (seq 0 2))) (seq 0 (length ex_data)).
Proof. cbn. apply Permutation_refl. Qed.

(* the hypotheses of the gap theorem are satisfiable: they hold on the instance *)
Lemma ex_gap_instance :
  ch_betweenR 2 ex_mems ex_mu [8; 8]
  = ch_betweenR 2 ex_mems ex_mu (centroidR ex_data) + INR 4 * sqR (vsubR (centroidR ex_data) [8; 8]).
Proof.
  apply (ch_between_gap 2 ex_data ex_mems ex_mu).
  - cbn. lia.
  - exact ex_partition.
  - intros k Hk _. apply ex_mu_is_member_mean, Hk.
  - reflexivity.
Qed.

Check ll_is_log_density. Check @ll_table_cell. Check @buckets_permutation. Check @buckets_cluster.
Check sum_flatten_buckets. Check @flatten_buckets_length. Check mean_flatten_buckets. Check members_partition.
Check run_params_is_runs. Check runs_spec. Check bic_formula.
Check ch_between_gap. Check ch_impl_gap. Check ch_impl_eq_def_if_centred. Check ch_impl_eq_def_iff_centred.
Check ch_def_translation_invariant. Check ch_impl_differs_from_def. Check ex_ch_def. Check ex_ch_impl.

Print Assumptions buckets_permutation.
Print Assumptions ll_is_log_density.
Print Assumptions ch_between_gap.
Print Assumptions ch_impl_eq_def_iff_centred.
Print Assumptions ch_def_translation_invariant.
Print Assumptions ch_impl_differs_from_def.
Print Assumptions run_params_is_runs.
