(* The main loop instantiated with the labelling kernel over R: the returned
   labelling is a minimum-cost labelling for the returned model (C09). *)
From Coq Require Import List Arith NArith Reals Lra.
Import ListNotations.
From Ticc Require Import Model.Viterbi Model.InstR Model.MainLoop Proofs.ViterbiR Proofs.MainLoopP.

Lemma returned_labels_optimal (M : Type) (repopF : list nat -> option (list nat)) (fitF : list nat -> option M)
      (score : M -> list (list R)) (K : nat) (betas : list R) (limit : nat) (init : list nat)
      (t : list (@round_rec M R)) (e : bool) (p : pool_state) :
  (0 < K)%nat -> (N.of_nat K <= 65536)%N -> Forall (fun b => 0 <= b)%R betas ->
  (forall m, score m <> [] /\ wf_rows K (score m)) ->
  run repopF fitF (fun m => viterbi 0%R Rplus Rminus Rltb K (score m) betas) limit init = Some (Done t e p) ->
  exists l c m,
    result_of t = Some (l, c, m) /\
    (exists lf, fitF lf = Some m) /\
    c = pcost 0%R Rplus (score m) betas l /\
    forall path, length path = length (score m) -> wf_path K path ->
                 (c <= pcost 0%R Rplus (score m) betas path)%R.
Proof.
  intros HK HK16 Hb Hs Hrun.
  destruct (run_result _ _ _ _ _ _ _ _ Hrun) as [r [_ [Hres [Hfit Hlab]]]].
  exists (r_out r), (r_cost r), (r_model r). split; [exact Hres|]. split; [eexists; exact Hfit|].
  destruct (Hs (r_model r)) as [Hne Hwf].
  pose proof (viterbi_cost_is_path_cost K (score (r_model r)) betas HK HK16 Hne Hwf Hb) as Hc.
  cbv beta in Hlab. rewrite Hlab in Hc. cbn [fst snd] in Hc. split; [exact Hc|].
  intros path Hl Hp.
  pose proof (viterbi_optimal K (score (r_model r)) betas HK HK16 Hne Hwf Hb path Hl Hp) as Ho.
  rewrite Hlab in Ho. cbn [snd] in Ho. exact Ho.
Qed.
