(* Proofs about the scheduling / memoisation models (Model/Sched.v): the gather step of the
   pool is independent of the completion order (C14), the disjoint-write parallel loop is
   independent of iteration order (C15), and a functools.cache-style memo table returns f k
   whatever calls came before, as long as no cached value is edited in place (C14). *)
From Coq Require Import List Arith Bool Lia Permutation.
Import ListNotations.
From Ticc Require Import Model.Sched.

(* ---------- Pool ---------- *)

Lemma lookup_complete_in {Arg Res} (f : Arg -> Res) (args : list Arg) (sched : list nat) (d : Arg) (i : nat) :
  In i sched -> lookup (complete f args sched d) i = Some (f (nth i args d)).
Proof.
  unfold complete. induction sched as [|j sched IH]; simpl; intro Hin.
  - contradiction.
  - destruct (Nat.eqb_spec i j) as [Heq|Hne].
    + subst. reflexivity.
    + destruct Hin as [Hj|Hin].
      * exfalso. apply Hne. symmetry. exact Hj.
      * apply IH. exact Hin.
Qed.

Lemma map_nth_seq {A B} (F : A -> B) (l : list A) (d : A) :
  map (fun i => F (nth i l d)) (seq 0 (length l)) = map F l.
Proof.
  induction l as [|a l IH]; simpl.
  - reflexivity.
  - f_equal. rewrite <- seq_shift, map_map. simpl. exact IH.
Qed.

Theorem gather_schedule_independent {Arg Res} (f : Arg -> Res) (args : list Arg) (sched : list nat) (d : Arg) :
  Permutation sched (seq 0 (length args)) ->
  run_pool f args sched d = map (fun a => Some (f a)) args.
Proof.
  intro Hperm. unfold run_pool, gather.
  rewrite <- (map_nth_seq (fun a => Some (f a)) args d).
  apply map_ext_in. intros i Hi.
  apply lookup_complete_in.
  apply (Permutation_in i (Permutation_sym Hperm)). exact Hi.
Qed.

Corollary gather_any_two_schedules {Arg Res} (f : Arg -> Res) args s1 s2 d :
  Permutation s1 (seq 0 (length args)) -> Permutation s2 (seq 0 (length args)) ->
  run_pool f args s1 d = run_pool f args s2 d.
Proof.
  intros H1 H2.
  rewrite (gather_schedule_independent f args s1 d H1).
  rewrite (gather_schedule_independent f args s2 d H2).
  reflexivity.
Qed.

(* ---------- Prange ---------- *)

Lemma fold_write_row_at {Cell} (g : nat -> nat -> Cell) (K : nat) (iters : list nat) (t0 : table) (q : nat) :
  fold_left (write_row g K) iters t0 q =
  if existsb (Nat.eqb q) iters then Some (map (g q) (seq 0 K)) else t0 q.
Proof.
  revert t0. induction iters as [|p iters IH]; intro t0; simpl.
  - reflexivity.
  - rewrite IH. destruct (existsb (Nat.eqb q) iters) eqn:Hex.
    + rewrite orb_true_r. reflexivity.
    + rewrite orb_false_r. unfold write_row.
      destruct (Nat.eqb_spec q p) as [Heq|Hne].
      * subst. reflexivity.
      * reflexivity.
Qed.

Lemma run_iters_at {Cell} (g : nat -> nat -> Cell) (K : nat) (iters : list nat) (q : nat) :
  run_iters g K iters q =
  if existsb (Nat.eqb q) iters then Some (map (g q) (seq 0 K)) else None.
Proof. unfold run_iters. exact (fold_write_row_at g K iters (fun _ => None) q). Qed.

(* Slightly more general than needed: every index below T occurs (repeats allowed). *)
Lemma prange_covering {Cell} (g : nat -> nat -> Cell) (K T : nat) (iters : list nat) :
  (forall p, In p (seq 0 T) -> In p iters) ->
  read_table (run_iters g K iters) T = map (fun p => Some (map (g p) (seq 0 K))) (seq 0 T).
Proof.
  intro Hcov. unfold read_table. apply map_ext_in. intros q Hq.
  rewrite run_iters_at.
  assert (Hex : existsb (Nat.eqb q) iters = true).
  { apply existsb_exists. exists q. split.
    - apply Hcov. exact Hq.
    - apply Nat.eqb_refl. }
  rewrite Hex. reflexivity.
Qed.

Theorem prange_order_independent {Cell} (g : nat -> nat -> Cell) (K T : nat) (iters : list nat) :
  Permutation iters (seq 0 T) ->
  read_table (run_iters g K iters) T = map (fun p => Some (map (g p) (seq 0 K))) (seq 0 T).
Proof.
  intro Hperm. apply prange_covering. intros p Hp.
  apply (Permutation_in p (Permutation_sym Hperm)). exact Hp.
Qed.

Corollary prange_any_two_orders {Cell} (g : nat -> nat -> Cell) (K T : nat) (i1 i2 : list nat) :
  Permutation i1 (seq 0 T) -> Permutation i2 (seq 0 T) ->
  read_table (run_iters g K i1) T = read_table (run_iters g K i2) T.
Proof.
  intros H1 H2.
  rewrite (prange_order_independent g K T i1 H1).
  rewrite (prange_order_independent g K T i2 H2).
  reflexivity.
Qed.

(* ---------- Memo ---------- *)

Section MemoP.
  Context {Key Val : Type}.
  Variable key_eqb : Key -> Key -> bool.
  Variable f : Key -> Val.
  Hypothesis key_eqb_spec : forall a b, key_eqb a b = true <-> a = b.

  Lemma cache_lookup_some (c : list (Key * Val)) (k : Key) (v : Val) :
    cache_lookup key_eqb c k = Some v -> In (k, v) c.
  Proof.
    induction c as [|[k' v'] c IH]; simpl; intro Hl.
    - discriminate.
    - destruct (key_eqb k k') eqn:Heq.
      + apply key_eqb_spec in Heq. injection Hl as Hv. subst. left. reflexivity.
      + right. apply IH. exact Hl.
  Qed.

  Theorem memo_call_correct (c : list (Key * Val)) (k : Key) :
    cache_ok f c ->
    fst (memo_call key_eqb f c k) = f k /\ cache_ok f (snd (memo_call key_eqb f c k)).
  Proof.
    intro Hok. unfold memo_call.
    destruct (cache_lookup key_eqb c k) as [v|] eqn:Hl; simpl.
    - split.
      + apply (Hok k v). apply cache_lookup_some. exact Hl.
      + exact Hok.
    - split.
      + reflexivity.
      + intros k0 v0 Hin. destruct Hin as [Heq|Hin].
        * injection Heq as Hk Hv. subst. reflexivity.
        * apply (Hok k0 v0). exact Hin.
  Qed.

  Theorem memo_calls_correct (c : list (Key * Val)) (ks : list Key) :
    cache_ok f c ->
    fst (memo_calls key_eqb f c ks) = map f ks /\ cache_ok f (snd (memo_calls key_eqb f c ks)).
  Proof.
    revert c. induction ks as [|k ks IH]; intros c Hok; simpl.
    - split; [reflexivity | exact Hok].
    - destruct (memo_call_correct c k Hok) as [Hv Hok1].
      destruct (memo_call key_eqb f c k) as [v c1] eqn:Hmc. simpl in Hv, Hok1.
      destruct (IH c1 Hok1) as [Hvs Hok2].
      destruct (memo_calls key_eqb f c1 ks) as [vs c2] eqn:Hmcs. simpl in Hvs, Hok2.
      simpl. split.
      + rewrite Hv, Hvs. reflexivity.
      + exact Hok2.
  Qed.

  Lemma cache_ok_nil : cache_ok f [].
  Proof. intros k v Hin. destruct Hin. Qed.

  Corollary memo_history_independent (ks1 ks2 : list Key) (k : Key) :
    fst (memo_call key_eqb f (snd (memo_calls key_eqb f [] ks1)) k) =
    fst (memo_call key_eqb f (snd (memo_calls key_eqb f [] ks2)) k).
  Proof.
    destruct (memo_calls_correct [] ks1 cache_ok_nil) as [_ Hok1].
    destruct (memo_calls_correct [] ks2 cache_ok_nil) as [_ Hok2].
    destruct (memo_call_correct _ k Hok1) as [H1 _].
    destruct (memo_call_correct _ k Hok2) as [H2 _].
    rewrite H1, H2. reflexivity.
  Qed.
End MemoP.

Example memo_poison_example : let f := fun k : nat => k + 1 in
  fst (memo_call Nat.eqb f [(3, 99)] 3) <> f 3 /\ ~ cache_ok f [(3, 99)].
Proof.
  simpl. split.
  - discriminate.
  - intro Hok. specialize (Hok 3 99 (or_introl eq_refl)). discriminate Hok.
Qed.

Print Assumptions gather_schedule_independent.
Print Assumptions prange_order_independent.
Print Assumptions memo_calls_correct.
