(* Second tie, skeleton mode: the control flow of admm/solver.py's run_admm_optimization AS TRANSLATED from /repo's
   working tree (Gen/G_solver_loop.v, regenerated on every run) equals the hand model Model/AdmmLoopV.v for every
   behaviour of every callee, and on that model: the iteration bound, which iterate is returned, and that the loop
   stops before its budget is used up only right after its own convergence test passed on the returned iterate.
   Closed under the global context. *)
From Coq Require Import String ZArith List Bool Lia Arith.
From Ticc Require Import Gen.PyRt Gen.PySkel Gen.G_solver_loop Model.AdmmLoopV.
Import ListNotations.
Local Open Scope Z_scope.

Section E.
  Variable V : Type.
  Variable vnone : V.
  Variable vint : Z -> V.
  Variable as_int : V -> option Z.
  Variable getattr : V -> string -> V.
  Variable truthy : V -> bool.
  Variable oracle : list (event V) -> string -> list V -> res V.

  Notation admm := (admmV V vint as_int getattr truthy oracle).

  (* STATEMENTS (to be proved):

  (* 1. the translated source is the model *)
  Theorem g_run_admm_eq (args S : V) :
    g_run_admm_optimization V vnone vint as_int getattr truthy oracle args S = admm args S.

  (* 2. the log only grows, and at most max_iterations X updates are made (whether the run returns or raises) *)
  Theorem admm_x_updates_bounded (args S : V) (log : list (event V)) (lim : Z) :
    as_int (getattr args "max_iterations") = Some lim ->
    exists ext, snd (admm args S log) = (log ++ ext)%list /\
                (count_fn V f_x ext <= Z.to_nat lim)%nat.

  (* 3. a run that returns x after at least one iteration returns the X of its last iteration: the last U update
        (hence the last iteration) was made with exactly that x, and the last Z update produced from it *)
  Theorem admm_returns_last_x (args S x : V) (log log' : list (event V)) :
    admm args S log = (Ret x, log') ->
    (exists ext, log' = (log ++ ext)%list /\
       (count_fn V f_x ext = 0%nat \/
        exists pre post u z, ext = (pre ++ Ev f_u [u; x; z] :: post)%list /\
                             count_fn V f_u post = 0%nat /\ count_fn V f_x post = 0%nat)).

  (* 4. early stop only on convergence: a run that returns having made fewer X updates than its budget ends with a
        check_convergence call on the returned iterate [args'; u; x; z; z_old] that the oracle answered with a value
        whose first component is truthy *)
  Theorem admm_early_stop_converged (args S x : V) (log log' : list (event V)) (lim : Z) :
    as_int (getattr args "max_iterations") = Some lim ->
    admm args S log = (Ret x, log') ->
    (exists ext, log' = (log ++ ext)%list /\
       ((count_fn V f_x ext = Z.to_nat lim)%nat \/
        exists pre args' u z z_old r,
          log' = (pre ++ [Ev f_chk [args'; u; x; z; z_old]])%list /\
          oracle pre f_chk [args'; u; x; z; z_old] = Ret r /\ truthy (getattr r "[0]") = true)).

  (* 5. no convergence test in the first iteration: every check_convergence call is preceded by at least two X updates *)
  Theorem admm_check_after_two (args S : V) (log : list (event V)) :
    forall pre a post, snd (admm args S log) = (log ++ pre ++ Ev f_chk a :: post)%list ->
                       (2 <= count_fn V f_x pre)%nat.
  *)
End E.
