(* Second tie, skeleton mode: the control flow of admm/solver.py's run_admm_optimization AS TRANSLATED from /repo's
   working tree (Gen/G_solver_loop.v, regenerated on every run) equals the hand model Model/AdmmLoopV.v for every
   behaviour of every callee, and on that model: the iteration bound, which iterate is returned, and that the loop
   stops before its budget is used up only right after its own convergence test passed on the returned iterate.
   Closed under the global context. *)
From Coq Require Import String ZArith List Bool Lia Arith.
From Ticc Require Import Gen.PyRt Gen.PySkel Gen.G_solver_loop Model.AdmmLoopV.
Import ListNotations.
Local Open Scope Z_scope.

Section E.
  Variable V : Type.
  Variable vnone : V.
  Variable vint : Z -> V.
  Variable as_int : V -> option Z.
  Variable getattr : V -> string -> V.
  Variable truthy : V -> bool.
  Variable oracle : list (event V) -> string -> list V -> res V.

  Notation admm := (admmV V vint as_int getattr truthy oracle).

  Notation gadmm := (g_run_admm_optimization V vnone vint as_int getattr truthy oracle).
  Notation iters := (itersV V getattr truthy oracle).
  Notation iter := (iterV V oracle).
  Notation adapt := (adaptV V getattr truthy oracle).
  Notation cnt := (count_fn V).

  (* ---------------------------------------------------------------- monad laws, pointwise *)

  Lemma mbind_ext : forall (A B : Type) (m1 m2 : M V A) (f1 f2 : A -> M V B) log,
    m1 log = m2 log -> (forall a log', f1 a log' = f2 a log') ->
    mbind m1 f1 log = mbind m2 f2 log.
  Proof.
    intros A B m1 m2 f1 f2 log Hm Hf. unfold mbind. rewrite Hm.
    destruct (m2 log) as [[a|e] log']; [apply Hf|reflexivity].
  Qed.

  Lemma mbind_mret_r : forall (A : Type) (m : M V A) log, mbind m (fun a => mret a) log = m log.
  Proof. intros A m log. unfold mbind, mret. destruct (m log) as [[a|e] log']; reflexivity. Qed.

  Lemma mbind_assoc : forall (A B C : Type) (m : M V A) (f : A -> M V B) (g : B -> M V C) log,
    mbind (mbind m f) g log = mbind m (fun a => mbind (f a) g) log.
  Proof.
    intros A B C m f g log. unfold mbind.
    destruct (m log) as [[a|e] log']; reflexivity.
  Qed.

  Lemma mbind_mret_l : forall (A B : Type) (a : A) (f : A -> M V B) log, mbind (mret a) f log = f a log.
  Proof. reflexivity. Qed.

  (* ---------------------------------------------------------------- 1. generated = model *)

  Definition St : Type := (V * V * V * V * V)%type.   (* (z_old, x, z, u, args) *)
  Definition st_x (st : St) : V := let '(_, x, _, _, _) := st in x.

  (* one iteration of the loop, in the shape of the generated body *)
  Definition stepG (S : V) (i : Z) (args x z u : V) : M V (St * bool) :=
    xzu <<- iter S args u z ;;
    let '(x1, z1, u1) := xzu in
    if i >? 0 then
      chk <<- call oracle f_chk [args; u1; x1; z1; z] ;;
      if truthy (getattr chk "[0]") then mret ((z, x1, z1, u1, args), true)
      else au <<- adapt args u1 chk ;; mret ((z, x1, z1, snd au, fst au), false)
    else mret ((z, x1, z1, u1, args), false).

  Lemma loop_eq : forall (S : V) (body : St -> Z -> M V (St * bool)),
    (forall zo x z u args i log, body (zo, x, z, u, args) i log = stepG S i args x z u log) ->
    forall n k zo x z u args log,
      mbind (for_break body (map Z.of_nat (seq k n)) (zo, x, z, u, args)) (fun st => mret (st_x st)) log
      = iters S n (Z.of_nat k) args x z u log.
  Proof.
    intros S body Hbody n.
    induction n as [|n IHn]; intros k zo x z u args log.
    - reflexivity.
    - cbn [seq map for_break itersV].
      rewrite mbind_assoc.
      etransitivity.
      { apply mbind_ext; [apply Hbody | intros a log'; reflexivity]. }
      unfold stepG. rewrite mbind_assoc.
      apply mbind_ext; [reflexivity|]. intros [[x1 z1] u1] log1.
      destruct (Z.of_nat k >? 0).
      + rewrite mbind_assoc.
        apply mbind_ext; [reflexivity|]. intros chk log2.
        destruct (truthy (getattr chk "[0]")).
        * reflexivity.
        * rewrite mbind_assoc.
          apply mbind_ext; [reflexivity|]. intros [args' u'] log3.
          rewrite mbind_mret_l. cbn [snd fst].
          rewrite IHn. rewrite Nat2Z.inj_succ, <- Z.add_1_r. reflexivity.
      + rewrite mbind_mret_l. cbn [snd fst].
        rewrite IHn. rewrite Nat2Z.inj_succ, <- Z.add_1_r. reflexivity.
  Qed.

  (* ORIGINAL STATEMENT (an equality of functions  list (event V) -> res V * list (event V)):
       Theorem g_run_admm_eq (args S : V) :
         g_run_admm_optimization V vnone vint as_int getattr truthy oracle args S = admm args S.
     The two sides are not convertible (a for_break over a list on one side, a structural recursion on the other), so
     this needs functional extensionality, which the development does not assume.  It is stated pointwise, like
     g_fit_stacked_data_eq in GenEquivML.v: the same result and the same log from every initial log. *)
  Theorem g_run_admm_eq (args S : V) (log : list (event V)) :
    g_run_admm_optimization V vnone vint as_int getattr truthy oracle args S log = admm args S log.
  Proof.
    unfold g_run_admm_optimization, admmV.
    apply mbind_ext; [reflexivity|]. intros m log1.
    apply mbind_ext; [reflexivity|]. intros m1 log2.
    apply mbind_ext; [reflexivity|]. intros mm log3.
    apply mbind_ext; [reflexivity|]. intros h log4.
    apply mbind_ext; [reflexivity|]. intros size log5.
    apply mbind_ext; [reflexivity|]. intros x0 log6.
    apply mbind_ext; [reflexivity|]. intros z0 log7.
    apply mbind_ext; [reflexivity|]. intros u0 log8.
    apply mbind_ext; [reflexivity|]. intros lim log9.
    match goal with |- mbind (for_break ?b _ _) _ _ = _ => set (body := b) end.
    assert (Hbody : forall zo x z u args' i logb,
               body (zo, x, z, u, args') i logb = stepG S i args' x z u logb).
    { intros zo x z u args' i logb. unfold body, stepG, iterV.
      repeat rewrite mbind_assoc.
      apply mbind_ext; [reflexivity|]. intros x1 lg1. repeat rewrite mbind_assoc.
      apply mbind_ext; [reflexivity|]. intros z1 lg2. repeat rewrite mbind_assoc.
      apply mbind_ext; [reflexivity|]. intros u1 lg3.
      rewrite mbind_mret_l.
      destruct (i >? 0).
      - apply mbind_ext; [reflexivity|]. intros chk lg4.
        destruct (truthy (getattr chk "[0]")); [reflexivity|].
        unfold adaptV.
        destruct (truthy (getattr args' "rho_update")).
        + repeat rewrite mbind_assoc.
          apply mbind_ext; [reflexivity|]. intros nr lg5. repeat rewrite mbind_assoc.
          apply mbind_ext; [reflexivity|]. intros sc lg6. repeat rewrite mbind_assoc.
          apply mbind_ext; [reflexivity|]. intros a2 lg7. repeat rewrite mbind_assoc.
          apply mbind_ext; [reflexivity|]. intros u2 lg8.
          rewrite !mbind_mret_l.
          destruct (truthy (getattr a2 "verbose")); reflexivity.
        + rewrite !mbind_mret_l.
          destruct (truthy (getattr args' "verbose")); reflexivity.
      - destruct (truthy (getattr args' "verbose")); reflexivity. }
    clearbody body.
    etransitivity; [|apply (loop_eq S body Hbody (Z.to_nat lim) 0%nat vnone)].
    unfold zrange.
    apply mbind_ext; [reflexivity|].
    intros [[[[zo x] z] u] args'] logc. reflexivity.
  Qed.

  (* ---------------------------------------------------------------- observations on logs *)

  Lemma mbind_inv : forall (A B : Type) (m : M V A) (f : A -> M V B) log r log',
    mbind m f log = (r, log') ->
    (exists a log1, m log = (Ret a, log1) /\ f a log1 = (r, log')) \/
    (exists e, m log = (Raise e, log') /\ r = Raise e).
  Proof.
    intros A B m f log r log' H. unfold mbind in H.
    destruct (m log) as [[a|e] log1].
    - left. exists a, log1. split; [reflexivity|exact H].
    - right. exists e. inversion H; subst. split; reflexivity.
  Qed.

  Lemma call_inv : forall f a log x log1,
    call oracle f a log = (x, log1) -> oracle log f a = x /\ log1 = (log ++ [Ev f a])%list.
  Proof. intros f a log x log1 H. unfold call in H. inversion H; subst. split; reflexivity. Qed.

  (* H : mbind m f log = (r, log')  becomes either  Hc : m log = (Ret a, l1), H : f a l1 = (r, log')
     or  Hc : m log = (Raise e, log'), H : r = Raise e *)
  Ltac bind_inv H a l1 e Hc :=
    apply mbind_inv in H;
    destruct H as [(a & l1 & Hc & H) | (e & Hc & H)].

  (* Hc : call oracle f a log = (x, l1)  becomes  Hx : oracle log f a = x, and l1 is replaced by log ++ [Ev f a] *)
  Ltac call_inv_in Hc Hx :=
    apply call_inv in Hc;
    let Hl := fresh "Hl" in
    destruct Hc as [Hx Hl]; subst.

  Lemma count_fn_app : forall f (l1 l2 : list (event V)), cnt f (l1 ++ l2) = (cnt f l1 + cnt f l2)%nat.
  Proof. intros f l1 l2. unfold count_fn. rewrite filter_app, app_length. reflexivity. Qed.

  (* walking through a log with c = the number of X updates seen so far: every convergence test comes after two *)
  Fixpoint chk_ok (c : nat) (l : list (event V)) : bool :=
    match l with
    | [] => true
    | e :: r => (if is_fn V f_chk e then (2 <=? c)%nat else true)
                && chk_ok (if is_fn V f_x e then Datatypes.S c else c) r
    end.

  Lemma chk_ok_app : forall l1 l2 c,
    chk_ok c (l1 ++ l2) = chk_ok c l1 && chk_ok (c + cnt f_x l1) l2.
  Proof.
    induction l1 as [|e l1 IHl]; intros l2 c; cbn [app chk_ok].
    - unfold count_fn. cbn [filter length]. rewrite Nat.add_0_r. reflexivity.
    - rewrite IHl, <- andb_assoc. unfold count_fn. cbn [filter].
      destruct (is_fn V f_x e); cbn [length].
      + rewrite Nat.add_succ_r. reflexivity.
      + reflexivity.
  Qed.

  Lemma chk_ok_mono : forall l c c', (c <= c')%nat -> chk_ok c l = true -> chk_ok c' l = true.
  Proof.
    induction l as [|e l IHl]; intros c c' Hle H; cbn [chk_ok] in *; [reflexivity|].
    apply andb_true_iff in H. destruct H as [H1 H2].
    apply andb_true_iff. split.
    - destruct (is_fn V f_chk e); [|reflexivity].
      apply Nat.leb_le in H1. apply Nat.leb_le. lia.
    - apply IHl with (c := if is_fn V f_x e then Datatypes.S c else c); [|exact H2].
      destruct (is_fn V f_x e); lia.
  Qed.

  Lemma chk_ok_nochk : forall l, cnt f_chk l = 0%nat -> forall c, chk_ok c l = true.
  Proof.
    induction l as [|e l IHl]; intros H c; cbn [chk_ok]; [reflexivity|].
    unfold count_fn in H. cbn [filter] in H.
    destruct (is_fn V f_chk e); [discriminate H|].
    apply IHl. exact H.
  Qed.

  Lemma chk_ok_decomp : forall pre a post c,
    chk_ok c (pre ++ Ev f_chk a :: post) = true -> (2 <= c + cnt f_x pre)%nat.
  Proof.
    intros pre a post c H. rewrite chk_ok_app in H.
    apply andb_true_iff in H. destruct H as [_ H].
    cbn [chk_ok] in H.
    change (is_fn V f_chk (Ev f_chk a)) with true in H.
    apply andb_true_iff in H. destruct H as [H _].
    apply Nat.leb_le in H. exact H.
  Qed.

  (* no X update, no U update, no convergence test *)
  Definition quiet (l : list (event V)) : Prop :=
    cnt f_x l = 0%nat /\ cnt f_u l = 0%nat /\ cnt f_chk l = 0%nat.

  Lemma adapt_inv : forall args u chk log r log',
    adapt args u chk log = (r, log') -> exists q, log' = (log ++ q)%list /\ quiet q.
  Proof.
    intros args u chk log r log' H. unfold adaptV in H.
    destruct (truthy (getattr args "rho_update")).
    - bind_inv H nr l1 e1 Hc1; call_inv_in Hc1 Hx1;
        [|eexists; split; [reflexivity|repeat split]].
      bind_inv H sc l2 e2 Hc2; call_inv_in Hc2 Hx2;
        [|eexists; split; [rewrite <- !app_assoc; reflexivity|repeat split]].
      bind_inv H a2 l3 e3 Hc3; call_inv_in Hc3 Hx3;
        [|eexists; split; [rewrite <- !app_assoc; reflexivity|repeat split]].
      bind_inv H u2 l4 e4 Hc4; call_inv_in Hc4 Hx4;
        [|eexists; split; [rewrite <- !app_assoc; reflexivity|repeat split]].
      unfold mret in H. inversion H; subst.
      eexists; split; [rewrite <- !app_assoc; reflexivity|repeat split].
    - unfold mret in H. inversion H; subst.
      exists []. split; [symmetry; apply app_nil_r|repeat split].
  Qed.

  Lemma iter_inv : forall S args u z log r log1,
    iter S args u z log = (r, log1) ->
    (exists x1 z1 u1, r = Ret (x1, z1, u1) /\
       log1 = (log ++ [Ev f_x [args; u; z; S]; Ev f_z [args; u; x1]; Ev f_u [u; x1; z1]])%list) \/
    (exists e ext, r = Raise e /\ log1 = (log ++ ext)%list /\ cnt f_x ext = 1%nat /\ cnt f_chk ext = 0%nat).
  Proof.
    intros S args u z log r log1 H. unfold iterV in H.
    bind_inv H x1 l1 e1 Hc1; call_inv_in Hc1 Hx1;
      [|right; eexists; eexists; split; [reflexivity|]; split; [reflexivity|split; reflexivity]].
    bind_inv H z1 l2 e2 Hc2; call_inv_in Hc2 Hx2;
      [|right; eexists; eexists; split; [reflexivity|]; split; [rewrite <- !app_assoc; reflexivity|split; reflexivity]].
    bind_inv H u1 l3 e3 Hc3; call_inv_in Hc3 Hx3;
      [|right; eexists; eexists; split; [reflexivity|]; split; [rewrite <- !app_assoc; reflexivity|split; reflexivity]].
    unfold mret in H. inversion H; subst.
    left. exists x1, z1, u1. split; [reflexivity|]. rewrite <- !app_assoc. reflexivity.
  Qed.

  (* one iteration: what it appends (ext), and either the run stops there or it goes on from a new state *)
  Lemma step_inv : forall S n it args x z u log r log',
    iters S (Datatypes.S n) it args x z u log = (r, log') ->
    exists ext,
      (cnt f_x ext <= 1)%nat /\ chk_ok (if it >? 0 then 1 else 0)%nat ext = true /\
      ((log' = (log ++ ext)%list /\
        forall x', r = Ret x' ->
          (exists pre post u0 z0, ext = (pre ++ Ev f_u [u0; x'; z0] :: post)%list /\
                                  cnt f_u post = 0%nat /\ cnt f_x post = 0%nat) /\
          (exists pre args' u0 z0 zo c,
              log' = (pre ++ [Ev f_chk [args'; u0; x'; z0; zo]])%list /\
              oracle pre f_chk [args'; u0; x'; z0; zo] = Ret c /\ truthy (getattr c "[0]") = true))
       \/
       (exists args' x1 z1 u1,
          cnt f_x ext = 1%nat /\
          (exists pre post u0, ext = (pre ++ Ev f_u [u0; x1; z1] :: post)%list /\
                               cnt f_u post = 0%nat /\ cnt f_x post = 0%nat) /\
          iters S n (it + 1) args' x1 z1 u1 (log ++ ext)%list = (r, log'))).
  Proof.
    intros S n it args x z u log r log' H.
    cbn [itersV] in H.
    bind_inv H xzu log1 e0 Hc.
    - apply iter_inv in Hc.
      destruct Hc as [(x1 & z1 & u1 & Hr & Hl) | (e' & ext & Hr & _)]; [|discriminate Hr].
      inversion Hr; subst xzu log1. clear Hr.
      cbv beta iota in H.
      destruct (it >? 0).
      + bind_inv H chk log2 e2 Hc2; call_inv_in Hc2 Hx2.
        * destruct (truthy (getattr chk "[0]")) eqn:Ht.
          -- unfold mret in H. inversion H; subst r log'. clear H.
             exists [Ev f_x [args; u; z; S]; Ev f_z [args; u; x1]; Ev f_u [u; x1; z1];
                     Ev f_chk [args; u1; x1; z1; z]].
             split; [cbn; lia|]. split; [reflexivity|]. left.
             split; [rewrite <- !app_assoc; reflexivity|].
             intros x' Hx'. inversion Hx'; subst x'. split.
             ++ exists [Ev f_x [args; u; z; S]; Ev f_z [args; u; x1]], [Ev f_chk [args; u1; x1; z1; z]], u, z1.
                repeat split.
             ++ exists (log ++ [Ev f_x [args; u; z; S]; Ev f_z [args; u; x1]; Ev f_u [u; x1; z1]])%list,
                       args, u1, z1, z, chk.
                split; [reflexivity|]. split; [exact Hx2|exact Ht].
          -- bind_inv H au log3 e3 Hc3; apply adapt_inv in Hc3; destruct Hc3 as (q & Hl3 & Hq1 & Hq2 & Hq3).
             ++ exists ([Ev f_x [args; u; z; S]; Ev f_z [args; u; x1]; Ev f_u [u; x1; z1];
                         Ev f_chk [args; u1; x1; z1; z]] ++ q)%list.
                split; [rewrite count_fn_app, Hq1; cbn; lia|].
                split; [rewrite chk_ok_app, (chk_ok_nochk q Hq3); reflexivity|].
                right. exists (fst au), x1, z1, (snd au).
                split; [rewrite count_fn_app, Hq1; reflexivity|].
                split.
                ** exists [Ev f_x [args; u; z; S]; Ev f_z [args; u; x1]],
                          (Ev f_chk [args; u1; x1; z1; z] :: q), u.
                   split; [reflexivity|].
                   split.
                   --- change (Ev f_chk [args; u1; x1; z1; z] :: q)
                         with ([Ev f_chk [args; u1; x1; z1; z]] ++ q)%list.
                       rewrite count_fn_app, Hq2. reflexivity.
                   --- change (Ev f_chk [args; u1; x1; z1; z] :: q)
                         with ([Ev f_chk [args; u1; x1; z1; z]] ++ q)%list.
                       rewrite count_fn_app, Hq1. reflexivity.
                ** rewrite <- H. f_equal. subst log3. rewrite <- !app_assoc. reflexivity.
             ++ exists ([Ev f_x [args; u; z; S]; Ev f_z [args; u; x1]; Ev f_u [u; x1; z1];
                         Ev f_chk [args; u1; x1; z1; z]] ++ q)%list.
                split; [rewrite count_fn_app, Hq1; cbn; lia|].
                split; [rewrite chk_ok_app, (chk_ok_nochk q Hq3); reflexivity|].
                left. split; [subst log'; rewrite <- !app_assoc; reflexivity|].
                intros x' Hx'. subst r. discriminate Hx'.
        * exists [Ev f_x [args; u; z; S]; Ev f_z [args; u; x1]; Ev f_u [u; x1; z1];
                  Ev f_chk [args; u1; x1; z1; z]].
          split; [cbn; lia|]. split; [reflexivity|]. left.
          split; [rewrite <- !app_assoc; reflexivity|].
          intros x' Hx'. discriminate Hx'.
      + exists [Ev f_x [args; u; z; S]; Ev f_z [args; u; x1]; Ev f_u [u; x1; z1]].
        split; [cbn; lia|]. split; [reflexivity|].
        right. exists args, x1, z1, u1.
        split; [reflexivity|]. split; [|exact H].
        exists [Ev f_x [args; u; z; S]; Ev f_z [args; u; x1]], [], u. repeat split.
    - apply iter_inv in Hc.
      destruct Hc as [(x1 & z1 & u1 & Hr & _) | (e' & ext & Hr & Hl & Hcx & Hcc)]; [discriminate Hr|].
      exists ext. split; [lia|]. split; [apply chk_ok_nochk; exact Hcc|].
      left. split; [exact Hl|].
      intros x' Hx'. subst r. discriminate Hx'.
  Qed.

  (* ---------------------------------------------------------------- n iterations *)

  Lemma iters_bound : forall S n it args x z u log r log',
    iters S n it args x z u log = (r, log') ->
    exists ext, log' = (log ++ ext)%list /\ (cnt f_x ext <= n)%nat.
  Proof.
    intros S n. induction n as [|n IHn]; intros it args x z u log r log' H.
    - cbn [itersV] in H. unfold mret in H. inversion H; subst.
      exists []. split; [symmetry; apply app_nil_r|cbn; lia].
    - apply step_inv in H.
      destruct H as (ext & Hc & _ & [(Hl & _) | (args' & x1 & z1 & u1 & Hc1 & _ & Hrec)]).
      + exists ext. split; [exact Hl|lia].
      + apply IHn in Hrec. destruct Hrec as (ext2 & Hl2 & Hc2).
        exists (ext ++ ext2)%list. rewrite app_assoc. split; [exact Hl2|].
        rewrite count_fn_app. lia.
  Qed.

  Lemma iters_chk : forall S n it args x z u log r log',
    0 <= it ->
    iters S n it args x z u log = (r, log') ->
    exists ext, log' = (log ++ ext)%list /\ chk_ok (if it >? 0 then 1 else 0)%nat ext = true.
  Proof.
    intros S n. induction n as [|n IHn]; intros it args x z u log r log' Hit H.
    - cbn [itersV] in H. unfold mret in H. inversion H; subst.
      exists []. split; [symmetry; apply app_nil_r|reflexivity].
    - apply step_inv in H.
      destruct H as (ext & _ & Hk & [(Hl & _) | (args' & x1 & z1 & u1 & Hc1 & _ & Hrec)]).
      + exists ext. split; [exact Hl|exact Hk].
      + apply IHn in Hrec; [|lia]. destruct Hrec as (ext2 & Hl2 & Hk2).
        replace (it + 1 >? 0) with true in Hk2 by (symmetry; apply Z.gtb_lt; lia).
        exists (ext ++ ext2)%list. rewrite app_assoc. split; [exact Hl2|].
        rewrite chk_ok_app, Hk, Hc1. cbn [andb].
        apply chk_ok_mono with (c := 1%nat); [lia|exact Hk2].
  Qed.

  Lemma iters_last : forall S n it args x z u log x' log',
    iters S n it args x z u log = (Ret x', log') ->
    exists ext, log' = (log ++ ext)%list /\
      ((x' = x /\ ext = []) \/
       exists pre post u0 z0, ext = (pre ++ Ev f_u [u0; x'; z0] :: post)%list /\
                              cnt f_u post = 0%nat /\ cnt f_x post = 0%nat).
  Proof.
    intros S n. induction n as [|n IHn]; intros it args x z u log x' log' H.
    - cbn [itersV] in H. unfold mret in H. inversion H; subst.
      exists []. split; [symmetry; apply app_nil_r|]. left. split; reflexivity.
    - apply step_inv in H.
      destruct H as (ext & _ & _ & [(Hl & Hstop) | (args' & x1 & z1 & u1 & _ & Hu & Hrec)]).
      + exists ext. split; [exact Hl|]. right.
        destruct (Hstop x' eq_refl) as [Hlast _]. exact Hlast.
      + destruct Hu as (pre & post & u0 & Hext & Hp1 & Hp2).
        apply IHn in Hrec.
        destruct Hrec as (ext2 & Hl2 & [(Hxx & He2) | (pre2 & post2 & u2 & z2 & Hext2 & Hq1 & Hq2)]).
        * subst x' ext2. rewrite app_nil_r in Hl2.
          exists ext. split; [exact Hl2|]. right.
          exists pre, post, u0, z1. split; [exact Hext|]. split; [exact Hp1|exact Hp2].
        * exists (ext ++ ext2)%list. rewrite app_assoc. split; [exact Hl2|]. right.
          exists (ext ++ pre2)%list, post2, u2, z2.
          split; [rewrite Hext2, <- app_assoc; reflexivity|]. split; [exact Hq1|exact Hq2].
  Qed.

  Lemma iters_early : forall S n it args x z u log x' log',
    iters S n it args x z u log = (Ret x', log') ->
    exists ext, log' = (log ++ ext)%list /\
      (cnt f_x ext = n \/
       exists pre args' u0 z0 zo c,
         log' = (pre ++ [Ev f_chk [args'; u0; x'; z0; zo]])%list /\
         oracle pre f_chk [args'; u0; x'; z0; zo] = Ret c /\ truthy (getattr c "[0]") = true).
  Proof.
    intros S n. induction n as [|n IHn]; intros it args x z u log x' log' H.
    - cbn [itersV] in H. unfold mret in H. inversion H; subst.
      exists []. split; [symmetry; apply app_nil_r|]. left. reflexivity.
    - apply step_inv in H.
      destruct H as (ext & _ & _ & [(Hl & Hstop) | (args' & x1 & z1 & u1 & Hc1 & _ & Hrec)]).
      + exists ext. split; [exact Hl|]. right.
        destruct (Hstop x' eq_refl) as [_ Hconv]. exact Hconv.
      + apply IHn in Hrec.
        destruct Hrec as (ext2 & Hl2 & [Hc2 | Hconv]).
        * exists (ext ++ ext2)%list. rewrite app_assoc. split; [exact Hl2|]. left.
          rewrite count_fn_app. lia.
        * exists (ext ++ ext2)%list. rewrite app_assoc. split; [exact Hl2|]. right. exact Hconv.
  Qed.

  (* ---------------------------------------------------------------- the whole function *)

  (* the set-up (p) makes no X update and no convergence test; then either it raised or the loop runs *)
  Lemma admm_inv : forall args S log r log',
    admm args S log = (r, log') ->
    exists p,
      ((log' = (log ++ p)%list /\ exists e, r = Raise e) \/
       (exists lim x0 z0 u0, as_int (getattr args "max_iterations") = Some lim /\
                             iters S (Z.to_nat lim) 0 args x0 z0 u0 (log ++ p)%list = (r, log'))) /\
      cnt f_x p = 0%nat /\ cnt f_chk p = 0%nat.
  Proof.
    intros args S log r log' H. unfold admmV in H.
    Ltac raised :=
      eexists; split;
      [left; split; [rewrite <- ?app_assoc; cbn [app]; reflexivity|eexists; reflexivity]
      |split; reflexivity].
    bind_inv H m l1 e1 Hc1; call_inv_in Hc1 Hx1; [|raised].
    bind_inv H m1 l2 e2 Hc2; call_inv_in Hc2 Hx2; [|raised].
    bind_inv H mm l3 e3 Hc3; call_inv_in Hc3 Hx3; [|raised].
    bind_inv H h l4 e4 Hc4; call_inv_in Hc4 Hx4; [|raised].
    bind_inv H size l5 e5 Hc5; call_inv_in Hc5 Hx5; [|raised].
    bind_inv H x0 l6 e6 Hc6; call_inv_in Hc6 Hx6; [|raised].
    bind_inv H z0 l7 e7 Hc7; call_inv_in Hc7 Hx7; [|raised].
    bind_inv H u0 l8 e8 Hc8; call_inv_in Hc8 Hx8; [|raised].
    unfold need_int in H.
    destruct (as_int (getattr args "max_iterations")) as [lim|] eqn:Hlim.
    - rewrite mbind_mret_l in H.
      eexists. split; [|split].
      + right. exists lim, x0, z0, u0. split; [reflexivity|].
        rewrite <- H. f_equal. rewrite <- !app_assoc. cbn [app]. reflexivity.
      + reflexivity.
      + reflexivity.
    - unfold mbind, mraise in H. inversion H; subst. raised.
  Qed.

  (* 2. the log only grows, and at most max_iterations X updates are made (whether the run returns or raises) *)
  Theorem admm_x_updates_bounded (args S : V) (log : list (event V)) (lim : Z) :
    as_int (getattr args "max_iterations") = Some lim ->
    exists ext, snd (admm args S log) = (log ++ ext)%list /\
                (count_fn V f_x ext <= Z.to_nat lim)%nat.
  Proof.
    intros Hlim.
    destruct (admm args S log) as [r log'] eqn:H. cbn [snd].
    apply admm_inv in H.
    destruct H as (p & [(Hl & _) | (lim0 & x0 & z0 & u0 & Hlim0 & Hit)] & Hpx & _).
    - exists p. split; [exact Hl|lia].
    - rewrite Hlim in Hlim0. inversion Hlim0; subst lim0.
      apply iters_bound in Hit. destruct Hit as (ext2 & Hl2 & Hc2).
      exists (p ++ ext2)%list. rewrite app_assoc. split; [exact Hl2|].
      rewrite count_fn_app. lia.
  Qed.

  (* 3. a run that returns x after at least one iteration returns the X of its last iteration: the last U update
        (hence the last iteration) was made with exactly that x, and the last Z update produced from it *)
  Theorem admm_returns_last_x (args S x : V) (log log' : list (event V)) :
    admm args S log = (Ret x, log') ->
    (exists ext, log' = (log ++ ext)%list /\
       (count_fn V f_x ext = 0%nat \/
        exists pre post u z, ext = (pre ++ Ev f_u [u; x; z] :: post)%list /\
                             count_fn V f_u post = 0%nat /\ count_fn V f_x post = 0%nat)).
  Proof.
    intros H.
    apply admm_inv in H.
    destruct H as (p & [(_ & e & He) | (lim0 & x0 & z0 & u0 & _ & Hit)] & Hpx & _); [discriminate He|].
    apply iters_last in Hit.
    destruct Hit as (ext2 & Hl2 & [(Hxx & He2) | (pre2 & post2 & u2 & z2 & Hext2 & Hq1 & Hq2)]).
    - subst ext2. exists p. rewrite app_nil_r in Hl2. split; [exact Hl2|]. left. exact Hpx.
    - exists (p ++ ext2)%list. rewrite app_assoc. split; [exact Hl2|]. right.
      exists (p ++ pre2)%list, post2, u2, z2.
      split; [rewrite Hext2, <- app_assoc; reflexivity|]. split; [exact Hq1|exact Hq2].
  Qed.

  (* 4. early stop only on convergence: a run that returns having made fewer X updates than its budget ends with a
        check_convergence call on the returned iterate [args'; u; x; z; z_old] that the oracle answered with a value
        whose first component is truthy *)
  Theorem admm_early_stop_converged (args S x : V) (log log' : list (event V)) (lim : Z) :
    as_int (getattr args "max_iterations") = Some lim ->
    admm args S log = (Ret x, log') ->
    (exists ext, log' = (log ++ ext)%list /\
       ((count_fn V f_x ext = Z.to_nat lim)%nat \/
        exists pre args' u z z_old r,
          log' = (pre ++ [Ev f_chk [args'; u; x; z; z_old]])%list /\
          oracle pre f_chk [args'; u; x; z; z_old] = Ret r /\ truthy (getattr r "[0]") = true)).
  Proof.
    intros Hlim H.
    apply admm_inv in H.
    destruct H as (p & [(_ & e & He) | (lim0 & x0 & z0 & u0 & Hlim0 & Hit)] & Hpx & _); [discriminate He|].
    rewrite Hlim in Hlim0. inversion Hlim0; subst lim0.
    apply iters_early in Hit.
    destruct Hit as (ext2 & Hl2 & [Hc2 | Hconv]).
    - exists (p ++ ext2)%list. rewrite app_assoc. split; [exact Hl2|]. left.
      rewrite count_fn_app. lia.
    - exists (p ++ ext2)%list. rewrite app_assoc. split; [exact Hl2|]. right. exact Hconv.
  Qed.

  (* 5. no convergence test in the first iteration: every check_convergence call is preceded by at least two X updates *)
  Theorem admm_check_after_two (args S : V) (log : list (event V)) :
    forall pre a post, snd (admm args S log) = (log ++ pre ++ Ev f_chk a :: post)%list ->
                       (2 <= count_fn V f_x pre)%nat.
  Proof.
    intros pre a post Hsnd.
    destruct (admm args S log) as [r log'] eqn:H. cbn [snd] in Hsnd.
    apply admm_inv in H.
    destruct H as (p & [(Hl & _) | (lim0 & x0 & z0 & u0 & _ & Hit)] & Hpx & Hpc).
    - rewrite Hl in Hsnd. apply app_inv_head in Hsnd.
      assert (Hk : chk_ok 0 p = true) by (apply chk_ok_nochk; exact Hpc).
      rewrite Hsnd in Hk. apply chk_ok_decomp in Hk. lia.
    - apply iters_chk in Hit; [|lia]. destruct Hit as (ext2 & Hl2 & Hk2).
      change (0 >? 0) with false in Hk2. cbv iota in Hk2.
      rewrite Hl2, <- app_assoc in Hsnd. apply app_inv_head in Hsnd.
      assert (Hk : chk_ok 0 (p ++ ext2) = true).
      { rewrite chk_ok_app, (chk_ok_nochk p Hpc), Hpx. exact Hk2. }
      rewrite Hsnd in Hk. apply chk_ok_decomp in Hk. lia.
  Qed.
End E.

Print Assumptions g_run_admm_eq.
Print Assumptions admm_x_updates_bounded.
Print Assumptions admm_returns_last_x.
Print Assumptions admm_early_stop_converged.
Print Assumptions admm_check_after_two.
