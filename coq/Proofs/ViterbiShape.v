(* Shape facts about the labelling kernel that hold for EVERY carrier and every
   comparison function (hence also for binary64 with NaN, inf, -0). *)
From Coq Require Import List Arith NArith Lia.
Import ListNotations.
From Ticc Require Import Model.Viterbi.

Lemma wrap16_le n : wrap16 n <= n.
Proof.
  unfold wrap16. destruct n as [|n]; [reflexivity|].
  assert (H : (N.of_nat (S n) mod 65536 <= N.of_nat (S n))%N) by (apply N.mod_le; discriminate).
  lia.
Qed.

Lemma wrap16_id n : (N.of_nat n < 65536)%N -> wrap16 n = n.
Proof. intros H. unfold wrap16. rewrite N.mod_small by exact H. apply Nat2N.id. Qed.

Lemma map2_length {B C D} (f : B -> C -> D) l1 l2 :
  length l1 = length l2 -> length (map2 f l1 l2) = length l1.
Proof. revert l2; induction l1 as [|x r IH]; intros [|y r2] H; simpl in *; try lia. rewrite IH; lia. Qed.

Lemma split_map_fst {A B C} (f : A -> B * C) l : fst (split (map f l)) = map (fun x => fst (f x)) l.
Proof. induction l as [|x r IH]; simpl; [reflexivity|]. destruct (f x). destruct (split (map f r)). simpl in *. rewrite IH. reflexivity. Qed.
Lemma split_map_snd {A B C} (f : A -> B * C) l : snd (split (map f l)) = map (fun x => snd (f x)) l.
Proof. induction l as [|x r IH]; simpl; [reflexivity|]. destruct (f x). destruct (split (map f r)). simpl in *. rewrite IH. reflexivity. Qed.

Lemma nth_map_seq {B} (f : nat -> B) n k d : k < n -> nth k (map f (seq 0 n)) d = f k.
Proof. intros H. rewrite (nth_indep _ d (f 0)) by (rewrite map_length, seq_length; lia).
  rewrite map_nth. rewrite seq_nth by lia. reflexivity. Qed.

Section S.
  Context {A : Type} (zero : A) (add sub : A -> A -> A) (ltb : A -> A -> bool).
  Notation argmin_from := (argmin_from ltb).
  Notation argmin := (argmin ltb).
  Notation step := (step zero add sub ltb).
  Notation stepv := (stepv zero sub ltb).
  Notation bw := (bw zero add sub ltb).
  Notation viterbi := (viterbi zero add sub ltb).

  Lemma argmin_from_range l : forall best bi i, bi < i ->
    argmin_from best bi i l = bi \/ i <= argmin_from best bi i l < i + length l.
  Proof.
    induction l as [|x r IH]; intros best bi i Hlt; cbn [Viterbi.argmin_from length]; [left; reflexivity|].
    destruct (ltb x best).
    - destruct (IH x i (S i) ltac:(lia)) as [H|H]; right; lia.
    - destruct (IH best bi (S i) ltac:(lia)) as [H|H]; [left; exact H|right; lia].
  Qed.

  Lemma argmin_range l : l <> [] -> argmin l < length l.
  Proof.
    destruct l as [|x r]; [congruence|]. intros _. unfold Viterbi.argmin. simpl.
    destruct (argmin_from_range r x 0 1 ltac:(lia)) as [H|H]; lia.
  Qed.

  Lemma step_shape K beta fut cost f p : 0 < K -> length fut = K -> length cost = K ->
    step beta fut cost = (f, p) ->
    length f = K /\ length p = K /\ Forall (fun c => c < K) p.
  Proof.
    intros HK Hf Hc Hs. unfold Viterbi.step in Hs.
    set (total := map2 (fun f c => add (add f c) beta) fut cost) in *.
    assert (Hlen : length total = K) by (unfold total; rewrite map2_length; lia).
    assert (Hne : total <> []) by (destruct total; simpl in *; [lia|congruence]).
    pose proof (argmin_range total Hne) as Hg. rewrite Hlen in *.
    assert (Ef : f = map (fun c => fst (stepv beta total (argmin total) c)) (seq 0 K))
      by (rewrite <- split_map_fst, Hs; reflexivity).
    assert (Ep : p = map (fun c => snd (stepv beta total (argmin total) c)) (seq 0 K))
      by (rewrite <- split_map_snd, Hs; reflexivity).
    subst f p. rewrite !map_length, seq_length. repeat split.
    apply Forall_forall. intros x Hx. apply in_map_iff in Hx. destruct Hx as [c [<- Hc']].
    apply in_seq in Hc'. unfold Viterbi.stepv.
    destruct (ltb _ _); cbn [snd]; [pose proof (wrap16_le (argmin total))|pose proof (wrap16_le c)]; lia.
  Qed.

  Lemma bw_shape K : 0 < K -> forall rows betas f P, rows <> [] -> wf_rows K rows ->
    bw K rows betas = (f, P) ->
    length f = K /\ length P = length (tl rows) /\
    Forall (fun p => length p = K /\ Forall (fun c => c < K) p) P.
  Proof.
    intros HK. induction rows as [|r rest IH]; intros betas f P Hne Hwf Hbw; [congruence|].
    cbn [Viterbi.bw] in Hbw. destruct rest as [|r' rest'].
    - inversion Hbw; subst. split; [apply repeat_length|]. split; [reflexivity|constructor].
    - destruct (bw K (r' :: rest') (tl betas)) as [f' P'] eqn:E'.
      destruct (step (hd zero betas) f' r') as [f0 p0] eqn:Es. inversion Hbw; subst f0 P. clear Hbw.
      pose proof (Forall_inv_tail Hwf) as Hwf'. pose proof (Forall_inv Hwf') as Hr'. cbv beta in Hr'.
      destruct (IH (tl betas) f' P' ltac:(congruence) Hwf' E') as [Hlf' [HlP' HP']].
      destruct (step_shape K _ _ _ _ _ HK Hlf' Hr' Es) as [Hlf [Hlp Hp]].
      split; [exact Hlf|]. split; [cbn [tl length] in *; lia|]. constructor; [split; assumption|exact HP'].
  Qed.

  Lemma follow_shape K P : Forall (fun p => length p = K /\ Forall (fun c => c < K) p) P ->
    forall c, c < K -> length (follow c P) = length P /\ wf_path K (follow c P).
  Proof.
    induction 1 as [|p P [Hl Hp] _ IH]; intros c Hc; cbn [follow length]; [split; [reflexivity|constructor]|].
    assert (Hn : nth c p 0 < K) by (rewrite Forall_forall in Hp; apply Hp, nth_In; lia).
    destruct (IH _ Hn) as [H1 H2]. split; [lia|constructor; assumption].
  Qed.

  (* exactly one label per row, each in [0,K) *)
  Lemma viterbi_shape K rows betas : 0 < K -> rows <> [] -> wf_rows K rows ->
    length (fst (viterbi K rows betas)) = length rows /\ wf_path K (fst (viterbi K rows betas)).
  Proof.
    intros HK Hne Hwf. unfold Viterbi.viterbi.
    destruct (bw K rows (broadcast zero add betas)) as [f0 P] eqn:E.
    destruct (bw_shape K HK rows _ f0 P Hne Hwf E) as [Hlf [HlP HP]].
    cbn [fst].
    destruct rows as [|r0 rest]; [congruence|]. cbn [hd tl] in *.
    pose proof (Forall_inv Hwf) as Hr0. cbv beta in Hr0.
    set (v0 := map2 add f0 r0).
    assert (Hv : length v0 = K) by (unfold v0; rewrite map2_length; lia).
    assert (Hp0 : argmin v0 < K) by (rewrite <- Hv; apply argmin_range; destruct v0; simpl in *; [lia|congruence]).
    destruct (follow_shape K P HP _ Hp0) as [H1 H2].
    split; [cbn [length]; lia|constructor; assumption].
  Qed.
End S.
