(* The generated control skeleton of cluster_label_assignment.predict_cluster_labels (Gen/G_la_predict.v: the labelling
   step of TICC), with its uninterpreted callees INTERPRETED by the labelling kernel of the hand-written model
   (Model/Viterbi.v: viterbi, viterbi_scalar), returns a state that carries exactly the labels and the cost the model
   kernel computes on the NEGATED log-likelihood table of the state and of the data IT WAS GIVEN, with that state's own
   switching cost (a number, which goes through float(), or a vector, which does not).  The state returned differs from
   the state given in these two fields only; whatever labels and cost the given state carried play no part.
   Corollaries (Properties/C01.v): over the reals and over the integers the stored cost is the cost of the stored
   labels and is minimal among all well-formed label sequences.
   The section theorems and the Z corollaries are closed under the global context; the R corollaries depend on the
   axioms of the standard library's real numbers only. *)
From Coq Require Import String ZArith List Bool Lia Arith NArith Reals.
From Ticc Require Import Gen.PyRt Gen.PySkel Gen.G_la_predict Model.Viterbi Model.InstR.
From Ticc Require Properties.C01.
Import ListNotations.
Local Open Scope string_scope.

(* the callees whose labels are long *)
Definition f_table := "likelihood.all_points_all_clusters_log_likelihood".
Definition f_assign := "assign_point_cluster_labels(label_assignment_cost=,label_switching_cost=)".
Definition f_deep := "expr:[cluster.deep_copy() for cluster in new_model.clusters]".

Section Interp.
  (* the carrier of costs and its operations: those of Model/Viterbi.v, and unary minus *)
  Variable A : Type.
  Variable zero : A.
  Variables add sub : A -> A -> A.
  Variable ltb : A -> A -> bool.
  Variable neg : A -> A.
  (* what a model state holds besides its labels, its cost and its switching cost (clusters, other arguments ...);
     the data; the log-likelihood table of a state and data; the number of clusters *)
  Variables St Dat : Type.
  Variable table_of : St -> Dat -> list (list A).
  Variable K : nat.

  (* ---------------------------------------------------------------- the concrete universe of values *)

  Inductive val : Type :=
  | VNone
  | VBool (b : bool)
  | VScalar (a : A)                          (* a number: label_switching_cost given as one number *)
  | VVector (l : list A)                     (* a 1-D array: label_switching_cost given per point *)
  | VTable (rows : list (list A))            (* a 2-D array: T rows of K entries *)
  | VData (d : Dat)                          (* the data *)
  | VLabels (l : list nat)                   (* an array of labels *)
  | VCost (c : A)                            (* the total cost returned by the kernel *)
  | VPair (a b : val)                        (* a tuple of two *)
  | VArgs (beta : val)                       (* model.arguments, as far as this function is concerned *)
  | VModel (s : St) (beta : val) (lab : option (list nat)) (cost : option A)   (* a ModelState *)
  | VGlobal (name : string).                 (* a module-level name (numbers.Real) *)

  Definition getattr (v : val) (a : string) : val :=
    match v with
    | VModel _ beta _ _ => if String.eqb a "arguments" then VArgs beta else VNone
    | VArgs beta => if String.eqb a "label_switching_cost" then beta else VNone
    | VPair x y => if String.eqb a "[0]" then x else if String.eqb a "[1]" then y else VNone
    | _ => VNone
    end.

  Definition truthy (v : val) : bool := match v with VBool b => b | _ => false end.
  Definition vglobal (name : string) : val := VGlobal name.

  Definition unexpected : res val := Raise "unexpected".

  Definition labelling (r : list nat * A) : val := VPair (VLabels (fst r)) (VCost (snd r)).

  (* the callees, interpreted: the likelihood table by [table_of], unary minus entrywise by [neg], the labelling kernel
     by the model's [viterbi_scalar] / [viterbi]; a copy is the same state; a field assignment replaces that field.
     The oracle does not look at the log. *)
  Definition oracle_model (log : list (event val)) (f : string) (a : list val) : res val :=
    if String.eqb f f_table then
      match a with [VModel s _ _ _; VData d] => Ret (VTable (table_of s d)) | _ => unexpected end
    else if String.eqb f "op:neg" then
      match a with [VTable t] => Ret (VTable (map (map neg) t)) | _ => unexpected end
    else if String.eqb f "isinstance" then
      match a with
      | [VScalar _; VGlobal g] => if String.eqb g "numbers.Real" then Ret (VBool true) else unexpected
      | [VVector _; VGlobal g] => if String.eqb g "numbers.Real" then Ret (VBool false) else unexpected
      | _ => unexpected
      end
    else if String.eqb f "float" then
      match a with [VScalar x] => Ret (VScalar x) | _ => unexpected end
    else if String.eqb f f_assign then
      match a with
      | [VTable t; VScalar b] => Ret (labelling (viterbi_scalar zero add sub ltb K t b))
      | [VTable t; VVector bs] => Ret (labelling (viterbi zero add sub ltb K t bs))
      | _ => unexpected
      end
    else if String.eqb f "method:shallow_copy" then
      match a with [VModel s beta lab cost] => Ret (VModel s beta lab cost) | _ => unexpected end
    else if String.eqb f f_deep then
      match a with [VModel _ _ _ _] => Ret VNone | _ => unexpected end
    else if String.eqb f "setattr:clusters" then
      match a with [VModel s beta lab cost; _] => Ret (VModel s beta lab cost) | _ => unexpected end
    else if String.eqb f "setattr:point_labels" then
      match a with [VModel s beta _ cost; VLabels l] => Ret (VModel s beta (Some l) cost) | _ => unexpected end
    else if String.eqb f "setattr:label_assignment_cost" then
      match a with [VModel s beta lab _; VCost c] => Ret (VModel s beta lab (Some c)) | _ => unexpected end
    else unexpected.

  Local Notation O := oracle_model.

  (* ---------------------------------------------------------------- the pure readers *)

  Lemma getattr_arguments (s : St) (beta : val) (lab : option (list nat)) (cost : option A) :
    getattr (VModel s beta lab cost) "arguments" = VArgs beta.
  Proof. reflexivity. Qed.
  Lemma getattr_lsc (beta : val) : getattr (VArgs beta) "label_switching_cost" = beta.
  Proof. reflexivity. Qed.
  Lemma getattr_pair0 (a b : val) : getattr (VPair a b) "[0]" = a.
  Proof. reflexivity. Qed.
  Lemma getattr_pair1 (a b : val) : getattr (VPair a b) "[1]" = b.
  Proof. reflexivity. Qed.
  Lemma truthy_bool (b : bool) : truthy (VBool b) = b.
  Proof. reflexivity. Qed.

  (* ---------------------------------------------------------------- the oracle, one callee at a time *)

  Lemma oracle_table (log : list (event val)) (s : St) (beta : val) (lab : option (list nat)) (cost : option A) (d : Dat) :
    O log "likelihood.all_points_all_clusters_log_likelihood" [VModel s beta lab cost; VData d] = Ret (VTable (table_of s d)).
  Proof. reflexivity. Qed.
  Lemma oracle_neg (log : list (event val)) (t : list (list A)) :
    O log "op:neg" [VTable t] = Ret (VTable (map (map neg) t)).
  Proof. reflexivity. Qed.
  Lemma oracle_isinstance_scalar (log : list (event val)) (b : A) :
    O log "isinstance" [VScalar b; vglobal "numbers.Real"] = Ret (VBool true).
  Proof. reflexivity. Qed.
  Lemma oracle_isinstance_vector (log : list (event val)) (bs : list A) :
    O log "isinstance" [VVector bs; vglobal "numbers.Real"] = Ret (VBool false).
  Proof. reflexivity. Qed.
  Lemma oracle_float (log : list (event val)) (b : A) : O log "float" [VScalar b] = Ret (VScalar b).
  Proof. reflexivity. Qed.
  Lemma oracle_assign_scalar (log : list (event val)) (t : list (list A)) (b : A) :
    O log "assign_point_cluster_labels(label_assignment_cost=,label_switching_cost=)" [VTable t; VScalar b]
    = Ret (labelling (viterbi_scalar zero add sub ltb K t b)).
  Proof. reflexivity. Qed.
  Lemma oracle_assign_vector (log : list (event val)) (t : list (list A)) (bs : list A) :
    O log "assign_point_cluster_labels(label_assignment_cost=,label_switching_cost=)" [VTable t; VVector bs]
    = Ret (labelling (viterbi zero add sub ltb K t bs)).
  Proof. reflexivity. Qed.
  Lemma oracle_shallow (log : list (event val)) (s : St) (beta : val) (lab : option (list nat)) (cost : option A) :
    O log "method:shallow_copy" [VModel s beta lab cost] = Ret (VModel s beta lab cost).
  Proof. reflexivity. Qed.
  Lemma oracle_deep (log : list (event val)) (s : St) (beta : val) (lab : option (list nat)) (cost : option A) :
    O log "expr:[cluster.deep_copy() for cluster in new_model.clusters]" [VModel s beta lab cost] = Ret VNone.
  Proof. reflexivity. Qed.
  Lemma oracle_setclusters (log : list (event val)) (s : St) (beta : val) (lab : option (list nat)) (cost : option A)
        (c : val) :
    O log "setattr:clusters" [VModel s beta lab cost; c] = Ret (VModel s beta lab cost).
  Proof. reflexivity. Qed.
  Lemma oracle_setlabels (log : list (event val)) (s : St) (beta : val) (lab : option (list nat)) (cost : option A)
        (l : list nat) :
    O log "setattr:point_labels" [VModel s beta lab cost; VLabels l] = Ret (VModel s beta (Some l) cost).
  Proof. reflexivity. Qed.
  Lemma oracle_setcost (log : list (event val)) (s : St) (beta : val) (lab : option (list nat)) (cost : option A) (c : A) :
    O log "setattr:label_assignment_cost" [VModel s beta lab cost; VCost c] = Ret (VModel s beta lab (Some c)).
  Proof. reflexivity. Qed.

  (* ---------------------------------------------------------------- the monad, one step at a time *)

  Lemma bind_call (B : Type) (f : string) (a : list val) (k : val -> M val B) (log : list (event val)) :
    mbind (call O f a) k log
    = match O log f a with
      | Ret v => k v (log ++ [Ev f a])%list
      | Raise e => (Raise e, (log ++ [Ev f a])%list)
      end.
  Proof. unfold mbind, call. destruct (O log f a) as [v|e]; reflexivity. Qed.

  Lemma bind_ret (X B : Type) (a : X) (k : X -> M val B) (log : list (event val)) : mbind (mret a) k log = k a log.
  Proof. reflexivity. Qed.

  Lemma mbind_assoc (X B C : Type) (mm : M val X) (f : X -> M val B) (k : B -> M val C) (log : list (event val)) :
    mbind (mbind mm f) k log = mbind mm (fun a => mbind (f a) k) log.
  Proof. unfold mbind. destruct (mm log) as [[a|e] l1]; reflexivity. Qed.

  (* ---------------------------------------------------------------- the whole function *)

  Definition run (model data : val) : res val * list (event val) :=
    g_predict_cluster_labels val getattr truthy vglobal oracle_model model data [].

  (* the state the run returns: the one given, with the kernel's two answers in the two fields *)
  Definition relabelled (s : St) (beta : val) (r : list nat * A) : val := VModel s beta (Some (fst r)) (Some (snd r)).

  (* the run with its complete log, the switching cost being one number: ten calls; the table is computed from the
     state and data given, the kernel is run on its negation and on the number float() answered, the copy is made of
     the state given, and the labels and the cost stored are the two components of the kernel's answer *)
  Lemma run_scalar (s : St) (d : Dat) (lab0 : option (list nat)) (cost0 : option A) (b : A) :
    let m := VModel s (VScalar b) lab0 cost0 in
    let nt := map (map neg) (table_of s d) in
    let r := viterbi_scalar zero add sub ltb K nt b in
    run m (VData d)
    = (Ret (relabelled s (VScalar b) r),
       [Ev f_table [m; VData d];
        Ev "op:neg" [VTable (table_of s d)];
        Ev "isinstance" [VScalar b; VGlobal "numbers.Real"];
        Ev "float" [VScalar b];
        Ev f_assign [VTable nt; VScalar b];
        Ev "method:shallow_copy" [m];
        Ev f_deep [m];
        Ev "setattr:clusters" [m; VNone];
        Ev "setattr:point_labels" [m; VLabels (fst r)];
        Ev "setattr:label_assignment_cost" [VModel s (VScalar b) (Some (fst r)) cost0; VCost (snd r)]]).
  Proof.
    intros m nt r. unfold run, g_predict_cluster_labels. subst m.
    rewrite bind_call, oracle_table. cbv beta iota zeta.
    rewrite bind_call, oracle_neg. cbv beta iota zeta.
    rewrite getattr_arguments, getattr_lsc.
    rewrite bind_call, oracle_isinstance_scalar. cbv beta iota zeta.
    rewrite truthy_bool. cbv iota.
    rewrite mbind_assoc, bind_call, oracle_float. cbv beta iota zeta. rewrite bind_ret.
    rewrite bind_call, oracle_assign_scalar. cbv beta iota zeta.
    fold nt. fold r. unfold labelling. rewrite getattr_pair0, getattr_pair1.
    rewrite bind_call, oracle_shallow. cbv beta iota zeta.
    rewrite bind_call, oracle_deep. cbv beta iota zeta.
    rewrite bind_call, oracle_setclusters. cbv beta iota zeta.
    rewrite bind_call, oracle_setlabels. cbv beta iota zeta.
    rewrite bind_call, oracle_setcost. cbv beta iota zeta.
    reflexivity.
  Qed.

  (* the same, the switching cost being a vector: nine calls, float() is not called and the kernel gets the vector *)
  Lemma run_vector (s : St) (d : Dat) (lab0 : option (list nat)) (cost0 : option A) (bs : list A) :
    let m := VModel s (VVector bs) lab0 cost0 in
    let nt := map (map neg) (table_of s d) in
    let r := viterbi zero add sub ltb K nt bs in
    run m (VData d)
    = (Ret (relabelled s (VVector bs) r),
       [Ev f_table [m; VData d];
        Ev "op:neg" [VTable (table_of s d)];
        Ev "isinstance" [VVector bs; VGlobal "numbers.Real"];
        Ev f_assign [VTable nt; VVector bs];
        Ev "method:shallow_copy" [m];
        Ev f_deep [m];
        Ev "setattr:clusters" [m; VNone];
        Ev "setattr:point_labels" [m; VLabels (fst r)];
        Ev "setattr:label_assignment_cost" [VModel s (VVector bs) (Some (fst r)) cost0; VCost (snd r)]]).
  Proof.
    intros m nt r. unfold run, g_predict_cluster_labels. subst m.
    rewrite bind_call, oracle_table. cbv beta iota zeta.
    rewrite bind_call, oracle_neg. cbv beta iota zeta.
    rewrite getattr_arguments, getattr_lsc.
    rewrite bind_call, oracle_isinstance_vector. cbv beta iota zeta.
    rewrite truthy_bool. cbv iota.
    rewrite bind_ret.
    rewrite bind_call, oracle_assign_vector. cbv beta iota zeta.
    fold nt. fold r. unfold labelling. rewrite getattr_pair0, getattr_pair1.
    rewrite bind_call, oracle_shallow. cbv beta iota zeta.
    rewrite bind_call, oracle_deep. cbv beta iota zeta.
    rewrite bind_call, oracle_setclusters. cbv beta iota zeta.
    rewrite bind_call, oracle_setlabels. cbv beta iota zeta.
    rewrite bind_call, oracle_setcost. cbv beta iota zeta.
    reflexivity.
  Qed.

  (* ================================================================ the theorems *)

  (* No hypothesis.  For every state (whatever labels lab0 and cost cost0 it carried), every data and every number b:
     the run returns, and what it returns is the state given with, as labels and as cost, the two components of the
     model kernel's answer on the negated table of THAT state and THAT data and on b.  Nothing else of the state
     changes (s and the switching cost are those given), and lab0 / cost0 do not occur on the right. *)
  Theorem predict_skeleton_scalar :
    forall (s : St) (d : Dat) (lab0 : option (list nat)) (cost0 : option A) (b : A),
    exists log',
      g_predict_cluster_labels val getattr truthy vglobal oracle_model (VModel s (VScalar b) lab0 cost0) (VData d) []
      = (Ret (let r := viterbi_scalar zero add sub ltb K (map (map neg) (table_of s d)) b in
              VModel s (VScalar b) (Some (fst r)) (Some (snd r))), log').
  Proof.
    intros s d lab0 cost0 b. eexists. exact (run_scalar s d lab0 cost0 b).
  Qed.

  Theorem predict_skeleton_vector :
    forall (s : St) (d : Dat) (lab0 : option (list nat)) (cost0 : option A) (bs : list A),
    exists log',
      g_predict_cluster_labels val getattr truthy vglobal oracle_model (VModel s (VVector bs) lab0 cost0) (VData d) []
      = (Ret (let r := viterbi zero add sub ltb K (map (map neg) (table_of s d)) bs in
              VModel s (VVector bs) (Some (fst r)) (Some (snd r))), log').
  Proof.
    intros s d lab0 cost0 bs. eexists. exact (run_vector s d lab0 cost0 bs).
  Qed.

  (* the state given is not what is stored into: the value returned is another value than the argument as soon as the
     kernel's answer is not what the argument already carried, and it agrees with the argument on s and on the
     switching cost *)
  Corollary predict_skeleton_fields :
    forall (s : St) (d : Dat) (lab0 : option (list nat)) (cost0 : option A) (beta : val) (r : val) (log' : list (event val)),
    (exists b, beta = VScalar b) \/ (exists bs, beta = VVector bs) ->
    g_predict_cluster_labels val getattr truthy vglobal oracle_model (VModel s beta lab0 cost0) (VData d) [] = (Ret r, log') ->
    exists lab cost, r = VModel s beta (Some lab) (Some cost).
  Proof.
    intros s d lab0 cost0 beta r log' [[b Hb]|[bs Hb]] Hrun; subst beta.
    - pose proof (run_scalar s d lab0 cost0 b) as H. cbv zeta in H. unfold run in H. rewrite H in Hrun.
      injection Hrun as Hr _. subst r. unfold relabelled. eexists. eexists. reflexivity.
    - pose proof (run_vector s d lab0 cost0 bs) as H. cbv zeta in H. unfold run in H. rewrite H in Hrun.
      injection Hrun as Hr _. subst r. unfold relabelled. eexists. eexists. reflexivity.
  Qed.
End Interp.

Arguments VNone {A St Dat}.
Arguments VBool {A St Dat} b.
Arguments VScalar {A St Dat} a.
Arguments VVector {A St Dat} l.
Arguments VTable {A St Dat} rows.
Arguments VData {A St Dat} d.
Arguments VLabels {A St Dat} l.
Arguments VCost {A St Dat} c.
Arguments VPair {A St Dat} a b.
Arguments VArgs {A St Dat} beta.
Arguments VModel {A St Dat} s beta lab cost.
Arguments VGlobal {A St Dat} name.
Arguments getattr {A St Dat} v a.
Arguments truthy {A St Dat} v.
Arguments vglobal {A St Dat} name.

(* ================================================================ a minimum-cost labelling: the reals *)

(* Under the hypotheses of C01 on the NEGATED table of the state and data given (K clusters, 0 < K <= 65536, at least
   one row, every row of K entries) and non-negative switching costs: the run returns the state given with labels and a
   cost such that the labels are one per row and each below K, the cost is the cost of these labels, and no well-formed
   label sequence costs less. *)
Corollary predict_skeleton_optimal_R :
  forall (St Dat : Type) (table_of : St -> Dat -> list (list R)) (K : nat)
         (s : St) (d : Dat) (lab0 : option (list nat)) (cost0 : option R) (betas : list R),
  let rows := map (map Ropp) (table_of s d) in
  (0 < K)%nat -> (N.of_nat K <= 65536)%N -> rows <> [] -> wf_rows K rows -> Forall (fun b => 0 <= b)%R betas ->
  exists (log' : list (event (val R St Dat))) (labels : list nat) (cost : R),
    g_predict_cluster_labels (val R St Dat) getattr truthy vglobal
        (oracle_model R 0%R Rplus Rminus Rltb Ropp St Dat table_of K)
        (VModel s (VVector betas) lab0 cost0) (VData d) []
    = (Ret (VModel s (VVector betas) (Some labels) (Some cost)), log') /\
    length labels = length rows /\ wf_path K labels /\
    cost = pcost 0%R Rplus rows betas labels /\
    forall path : list nat, length path = length rows -> wf_path K path ->
      (cost <= pcost 0%R Rplus rows betas path)%R.
Proof.
  intros St Dat table_of K s d lab0 cost0 betas rows HK HK16 Hne Hwf Hb.
  destruct (predict_skeleton_vector R 0%R Rplus Rminus Rltb Ropp St Dat table_of K s d lab0 cost0 betas) as [log' Hrun].
  exists log', (fst (viterbi 0%R Rplus Rminus Rltb K rows betas)), (snd (viterbi 0%R Rplus Rminus Rltb K rows betas)).
  split; [exact Hrun|].
  destruct (C01.C01_shape R 0%R Rplus Rminus Rltb K rows betas HK Hne Hwf) as [Hlen Hpath].
  split; [exact Hlen|]. split; [exact Hpath|].
  split; [exact (C01.C01_cost_is_path_cost K rows betas HK HK16 Hne Hwf Hb)|].
  exact (C01.C01_optimal K rows betas HK HK16 Hne Hwf Hb).
Qed.

(* the switching cost given as one number: it prices every consecutive pair *)
Corollary predict_skeleton_optimal_R_scalar :
  forall (St Dat : Type) (table_of : St -> Dat -> list (list R)) (K : nat)
         (s : St) (d : Dat) (lab0 : option (list nat)) (cost0 : option R) (beta : R),
  let rows := map (map Ropp) (table_of s d) in
  (0 < K)%nat -> (N.of_nat K <= 65536)%N -> rows <> [] -> wf_rows K rows -> (0 <= beta)%R ->
  exists (log' : list (event (val R St Dat))) (labels : list nat) (cost : R),
    g_predict_cluster_labels (val R St Dat) getattr truthy vglobal
        (oracle_model R 0%R Rplus Rminus Rltb Ropp St Dat table_of K)
        (VModel s (VScalar beta) lab0 cost0) (VData d) []
    = (Ret (VModel s (VScalar beta) (Some labels) (Some cost)), log') /\
    forall path : list nat, length path = length rows -> wf_path K path ->
      (cost <= pcost 0%R Rplus rows (repeat beta (length rows)) path)%R.
Proof.
  intros St Dat table_of K s d lab0 cost0 beta rows HK HK16 Hne Hwf Hb.
  destruct (predict_skeleton_scalar R 0%R Rplus Rminus Rltb Ropp St Dat table_of K s d lab0 cost0 beta) as [log' Hrun].
  exists log', (fst (viterbi_scalar 0%R Rplus Rminus Rltb K rows beta)), (snd (viterbi_scalar 0%R Rplus Rminus Rltb K rows beta)).
  split; [exact Hrun|].
  exact (C01.C01_scalar K rows beta HK HK16 Hne Hwf Hb).
Qed.

(* ================================================================ a minimum-cost labelling: the integers *)

Corollary predict_skeleton_optimal_Z :
  forall (St Dat : Type) (table_of : St -> Dat -> list (list Z)) (K : nat)
         (s : St) (d : Dat) (lab0 : option (list nat)) (cost0 : option Z) (betas : list Z),
  let rows := map (map Z.opp) (table_of s d) in
  (0 < K)%nat -> (N.of_nat K <= 65536)%N -> rows <> [] -> wf_rows K rows -> Forall (fun b => 0 <= b)%Z betas ->
  exists (log' : list (event (val Z St Dat))) (labels : list nat) (cost : Z),
    g_predict_cluster_labels (val Z St Dat) getattr truthy vglobal
        (oracle_model Z 0%Z Z.add Z.sub Z.ltb Z.opp St Dat table_of K)
        (VModel s (VVector betas) lab0 cost0) (VData d) []
    = (Ret (VModel s (VVector betas) (Some labels) (Some cost)), log') /\
    length labels = length rows /\ wf_path K labels /\
    cost = pcost 0%Z Z.add rows betas labels /\
    forall path : list nat, length path = length rows -> wf_path K path ->
      (cost <= pcost 0%Z Z.add rows betas path)%Z.
Proof.
  intros St Dat table_of K s d lab0 cost0 betas rows HK HK16 Hne Hwf Hb.
  destruct (predict_skeleton_vector Z 0%Z Z.add Z.sub Z.ltb Z.opp St Dat table_of K s d lab0 cost0 betas) as [log' Hrun].
  exists log', (fst (viterbi 0%Z Z.add Z.sub Z.ltb K rows betas)), (snd (viterbi 0%Z Z.add Z.sub Z.ltb K rows betas)).
  split; [exact Hrun|].
  destruct (C01.C01_shape Z 0%Z Z.add Z.sub Z.ltb K rows betas HK Hne Hwf) as [Hlen Hpath].
  split; [exact Hlen|]. split; [exact Hpath|].
  exact (C01.C01_optimal_Z K rows betas HK HK16 Hne Hwf Hb).
Qed.

(* ================================================================ non-vacuity *)

(* a 3 x 2 log-likelihood table whose negation has a tie in its first row, beta = 1, a state that carried other labels
   and another cost: the run makes ten calls and returns the state with the labels [0; 0; 1] and the cost 2, which is
   what the model kernel gives on the negated table *)
Example predict_skeleton_example :
  let tbl := [[-1; -1]; [0; -2]; [-3; 0]]%Z in
  let run := g_predict_cluster_labels (val Z unit unit) getattr truthy vglobal
               (oracle_model Z 0%Z Z.add Z.sub Z.ltb Z.opp unit unit (fun _ _ => tbl) 2)
               (VModel tt (VScalar 1%Z) (Some [1; 1; 1]%nat) (Some 7%Z)) (VData tt) [] in
  fst run = Ret (VModel tt (VScalar 1%Z) (Some [0; 0; 1]%nat) (Some 2%Z))
  /\ viterbi_scalar 0%Z Z.add Z.sub Z.ltb 2 (map (map Z.opp) tbl) 1%Z = ([0; 0; 1]%nat, 2%Z)
  /\ length (snd run) = 10%nat.
Proof. vm_compute. repeat split. Qed.

(* the same with the switching costs as a vector: float() is not called *)
Example predict_skeleton_example_vector :
  let tbl := [[-1; -1]; [0; -2]; [-3; 0]]%Z in
  let run := g_predict_cluster_labels (val Z unit unit) getattr truthy vglobal
               (oracle_model Z 0%Z Z.add Z.sub Z.ltb Z.opp unit unit (fun _ _ => tbl) 2)
               (VModel tt (VVector [1; 1; 1]%Z) None None) (VData tt) [] in
  fst run = Ret (VModel tt (VVector [1; 1; 1]%Z) (Some [0; 0; 1]%nat) (Some 2%Z))
  /\ length (snd run) = 9%nat.
Proof. vm_compute. repeat split. Qed.

(* the hypotheses of the Z corollary are satisfiable: by this table *)
Example predict_skeleton_example_hyps :
  let rows := map (map Z.opp) [[-1; -1]; [0; -2]; [-3; 0]]%Z in
  (0 < 2)%nat /\ (N.of_nat 2 <= 65536)%N /\ rows <> [] /\ wf_rows 2 rows /\ Forall (fun b => 0 <= b)%Z [1; 1; 1]%Z.
Proof.
  cbv zeta. split; [auto|]. split; [vm_compute; discriminate|]. split; [discriminate|].
  split; [repeat constructor|repeat constructor; lia].
Qed.

Print Assumptions predict_skeleton_scalar.
Print Assumptions predict_skeleton_vector.
Print Assumptions predict_skeleton_optimal_R.
Print Assumptions predict_skeleton_optimal_Z.
Print Assumptions predict_skeleton_fields.
Print Assumptions predict_skeleton_optimal_R_scalar.
Print Assumptions predict_skeleton_example.
