(* Second tie, skeleton mode: the optimise phase of graphical_lasso.py AS TRANSLATED from /repo's working tree
   (Gen/G_gl_optimize.v, G_gl_setup.v, G_gl_retrieve.v, G_gl_update.v, regenerated on every run; every callee an uninterpreted
   oracle that may return anything or raise): the per-cluster optimisation tasks are set up in cluster order with that
   cluster's own covariance and the user's sparsity weight, and their results are fetched and stored strictly in the order of
   zip(model.clusters, tasks) - cluster k with task k - whatever order the tasks finish in.  Closed under the global context. *)
From Coq Require Import String ZArith List Bool Lia Arith.
From Ticc Require Import Gen.PyRt Gen.PySkel Gen.G_gl_optimize Gen.G_gl_setup Gen.G_gl_retrieve Gen.G_gl_update.
Import ListNotations.
Local Open Scope string_scope.

Section E.
  Variable V : Type.
  Variable vint : Z -> V.
  Variable as_int : V -> option Z.
  Variable getattr : V -> string -> V.
  Variable is_none : V -> bool.
  Variable as_list : V -> list V.
  Variable vglobal : string -> V.
  Variable oracle : list (event V) -> string -> list V -> res V.

  (* the three calls made for one (cluster, task) pair of the gather loop *)
  Definition item_events (model updated item got upd : V) : list (event V) :=
    [Ev "method:get" [getattr item "[1]"];
     Ev "_update_cluster_covariances" [model; getattr item "[0]"; getattr got "theta"];
     Ev "method:append" [updated; upd]].
  Fixpoint gather_events (model updated : V) (items gots upds : list V) : list (event V) :=
    match items, gots, upds with
    | item :: items', got :: gots', upd :: upds' => item_events model updated item got upd ++ gather_events model updated items' gots' upds'
    | _, _, _ => []
    end.

  (* the three calls made for cluster k of the scatter loop *)
  Definition setup_events (model N pool tasks_before : V) (k : nat) (c t : V) : list (event V) :=
    [Ev "getitem" [getattr model "clusters"; vint (Z.of_nat k)];
     Ev "_setup_optimization_task" [c; N; getattr (getattr model "arguments") "window_size";
                                    getattr (getattr model "arguments") "sparsity_weight"; pool];
     Ev "setitem" [tasks_before; vint (Z.of_nat k); t]].

  (* ---------------------------------------------------------------- the monad, one step at a time *)

  Lemma bind_call : forall (B : Type) (f : string) (a : list V) (k : V -> M V B) (log : list (event V)),
    mbind (call oracle f a) k log
    = match oracle log f a with
      | Ret v => k v (log ++ [Ev f a])%list
      | Raise e => (Raise e, (log ++ [Ev f a])%list)
      end.
  Proof.
    intros B f a k log. unfold mbind, call.
    destruct (oracle log f a) as [v|e]; reflexivity.
  Qed.

  Lemma bind_ret : forall (A B : Type) (a : A) (k : A -> M V B) (log : list (event V)),
    mbind (mret a) k log = k a log.
  Proof. intros A B a k log. reflexivity. Qed.

  Lemma snoc2 : forall (A : Type) (l : list A) (a : A) (t : list A), ((l ++ [a]) ++ t = l ++ a :: t)%list.
  Proof. intros A l a t. rewrite <- app_assoc. reflexivity. Qed.

  Lemma ret_inj : forall (A L : Type) (a b : A) (l1 l2 : L), (Ret a, l1) = (Ret b, l2) -> a = b /\ l1 = l2.
  Proof. intros A L a b l1 l2 H. inversion H. split; reflexivity. Qed.

  Lemma mbind_ret_inv : forall (A B : Type) (m : M V A) (k : A -> M V B) (log log' : list (event V)) (b : B),
    mbind m k log = (Ret b, log') -> exists a l1, m log = (Ret a, l1) /\ k a l1 = (Ret b, log').
  Proof.
    intros A B m k log log' b H. unfold mbind in H.
    destruct (m log) as [[a|e] l1] eqn:Hm.
    - exists a, l1. split; [reflexivity|exact H].
    - discriminate H.
  Qed.

  (* ---------------------------------------------------------------- the gather loop *)

  (* the body of the loop of _retrieve_optimization_results, as generated (the two lets unfolded) *)
  Definition gather_body (model updated : V) : unit -> V -> M V unit := fun _ t3_ =>
    if negb (is_none (getattr t3_ "[1]")) then
      t4_ <<- call oracle "method:get" [getattr t3_ "[1]"] ;;
      t5_ <<- call oracle "_update_cluster_covariances" [model; getattr t3_ "[0]"; getattr t4_ "theta"] ;;
      t6_ <<- call oracle "method:append" [updated; t5_] ;;
      mret tt
    else mraise "AssertionError".

  Lemma gather_body_inv (model updated item : V) (u0 u : unit) (log0 log1 : list (event V)) :
    gather_body model updated u0 item log0 = (Ret u, log1) ->
    is_none (getattr item "[1]") = false /\
    exists got upd, log1 = (log0 ++ item_events model updated item got upd)%list.
  Proof.
    unfold gather_body.
    destruct (is_none (getattr item "[1]")) eqn:Hn; cbn [negb]; intros H.
    - unfold mraise in H. discriminate H.
    - split; [reflexivity|].
      rewrite bind_call in H.
      match type of H with
      | match ?o with _ => _ end = _ => destruct o as [got|e1] eqn:Hget; [|discriminate H]
      end.
      rewrite bind_call in H.
      match type of H with
      | match ?o with _ => _ end = _ => destruct o as [upd|e2] eqn:Hupd; [|discriminate H]
      end.
      rewrite bind_call in H.
      match type of H with
      | match ?o with _ => _ end = _ => destruct o as [ap|e3] eqn:Happ; [|discriminate H]
      end.
      unfold mret in H. apply ret_inj in H. destruct H as [_ Hlog].
      exists got, upd. rewrite <- Hlog. unfold item_events. rewrite !snoc2. reflexivity.
  Qed.

  Lemma gather_loop (model updated : V) : forall (items : list V) (u0 u : unit) (log0 log1 : list (event V)),
    for_each (gather_body model updated) items u0 log0 = (Ret u, log1) ->
    exists gots upds,
      length gots = length items /\ length upds = length items /\
      log1 = (log0 ++ gather_events model updated items gots upds)%list /\
      Forall (fun item => is_none (getattr item "[1]") = false) items.
  Proof.
    induction items as [|item items IH]; intros u0 u log0 log1 H.
    - cbn [for_each] in H. unfold mret in H. apply ret_inj in H. destruct H as [_ Hlog].
      exists [], []. split; [reflexivity|]. split; [reflexivity|]. split.
      + cbn [gather_events]. rewrite app_nil_r. symmetry. exact Hlog.
      + constructor.
    - cbn [for_each] in H. apply mbind_ret_inv in H. destruct H as (u1 & l1 & Hbody & Hrest).
      apply gather_body_inv in Hbody. destruct Hbody as (Hnone & got & upd & Hl1).
      apply IH in Hrest. destruct Hrest as (gots & upds & Hlg & Hlu & Hlog & Hall).
      exists (got :: gots), (upd :: upds).
      split; [cbn [length]; rewrite Hlg; reflexivity|].
      split; [cbn [length]; rewrite Hlu; reflexivity|].
      split.
      + cbn [gather_events]. rewrite Hlog, Hl1. rewrite <- app_assoc. reflexivity.
      + constructor; assumption.
  Qed.

  (* 1. gather: a call of _retrieve_optimization_results that returns fetched the results and appended the updated clusters
        strictly in the order of  zip(model.clusters, optimization_tasks):  for the k-th pair, task.get() of ITS task, then
        _update_cluster_covariances(model, ITS cluster, that result's theta), then append - nothing else in between; the
        value returned is the shallow copy of the model with `clusters` set to the list the results were appended to *)
  Theorem retrieve_returns (model tasks r : V) (log log' : list (event V)) :
    g_retrieve_optimization_results V getattr is_none as_list oracle model tasks log = (Ret r, log') ->
    exists updated z gots upds m1,
      length gots = length (as_list z) /\ length upds = length (as_list z) /\
      log' = (log ++ [Ev "expr:[]" []; Ev "zip" [getattr model "clusters"; tasks]]
                  ++ gather_events model updated (as_list z) gots upds
                  ++ [Ev "method:shallow_copy" [model]; Ev "setattr:clusters" [m1; updated]])%list /\
      oracle (log ++ [Ev "expr:[]" []])%list "zip" [getattr model "clusters"; tasks] = Ret z /\
      Forall (fun item => is_none (getattr item "[1]") = false) (as_list z).
  Proof.
    intros Hrun.
    unfold g_retrieve_optimization_results in Hrun.
    rewrite bind_call in Hrun.
    destruct (oracle log "expr:[]" []) as [updated|e1] eqn:Hnew; [|discriminate Hrun].
    rewrite bind_call in Hrun.
    destruct (oracle (log ++ [Ev "expr:[]" []])%list "zip" [getattr model "clusters"; tasks]) as [z|e2] eqn:Hzip;
      [|discriminate Hrun].
    apply mbind_ret_inv in Hrun. destruct Hrun as (u & l1 & Hloop & Hrest).
    change (for_each (gather_body model updated) (as_list z) tt
              ((log ++ [Ev "expr:[]" []]) ++ [Ev "zip" [getattr model "clusters"; tasks]])%list = (Ret u, l1)) in Hloop.
    apply gather_loop in Hloop. destruct Hloop as (gots & upds & Hlg & Hlu & Hl1 & Hall).
    rewrite bind_call in Hrest.
    destruct (oracle l1 "method:shallow_copy" [model]) as [m1|e3] eqn:Hcopy; [|discriminate Hrest].
    rewrite bind_call in Hrest.
    match type of Hrest with
    | match ?o with _ => _ end = _ => destruct o as [m2|e4] eqn:Hset; [|discriminate Hrest]
    end.
    unfold mret in Hrest. apply ret_inj in Hrest. destruct Hrest as [_ Hlog].
    exists updated, z, gots, upds, m1.
    split; [exact Hlg|]. split; [exact Hlu|]. split; [|split; [reflexivity|exact Hall]].
    rewrite <- Hlog, Hl1. rewrite <- !app_assoc. reflexivity.
  Qed.

  (* 2. scatter: _setup_optimization_task hands the pool exactly  admm.admm_optimize_theta, the argument list built from
        (cluster.empirical_covariance, density_penalty, window_size, num_data_series) and the fixed keyword dictionary *)
  Theorem setup_returns (cluster N W lam pool r : V) (log log' : list (event V)) :
    g_setup_optimization_task V vglobal oracle cluster N W lam pool log = (Ret r, log') ->
    exists args kwargs,
      log' = (log ++ [Ev "expr:[cluster.empirical_covariance, density_penalty, window_size, num_data_series]" [cluster; lam; N; W];
                      Ev "expr:{'rho': 1, 'rho_update': None, 'max_iterations': 1000, 'relative_tolerance': 1e-06, 'absolute_tolerance': 1e-06, 'verbose': False}" [];
                      Ev "method:apply_async" [pool; vglobal "admm.admm_optimize_theta"; args; kwargs]])%list.
  Proof.
    intros Hrun.
    unfold g_setup_optimization_task in Hrun.
    rewrite bind_call in Hrun.
    match type of Hrun with
    | match ?o with _ => _ end = _ => destruct o as [args|e1] eqn:Hargs; [|discriminate Hrun]
    end.
    rewrite bind_call in Hrun.
    match type of Hrun with
    | match ?o with _ => _ end = _ => destruct o as [kwargs|e2] eqn:Hkw; [|discriminate Hrun]
    end.
    rewrite bind_call in Hrun.
    match type of Hrun with
    | match ?o with _ => _ end = _ => destruct o as [task|e3] eqn:Htask; [|discriminate Hrun]
    end.
    unfold mret in Hrun. apply ret_inj in Hrun. destruct Hrun as [_ Hlog].
    exists args, kwargs.
    rewrite <- Hlog. rewrite !snoc2. reflexivity.
  Qed.

  (* ---------------------------------------------------------------- the scatter loop *)

  (* the body of the loop of optimize_markov_random_fields, as generated *)
  Definition scatter_body (model N pool : V) : V -> Z -> M V (V * bool) := fun optimization_tasks cluster_id =>
    t6_ <<- call oracle "getitem" [getattr model "clusters"; vint cluster_id] ;;
    t7_ <<- call oracle "_setup_optimization_task" [t6_; N; getattr (getattr model "arguments") "window_size";
                                                    getattr (getattr model "arguments") "sparsity_weight"; pool] ;;
    optimization_tasks <<- call oracle "setitem" [optimization_tasks; vint cluster_id; t7_] ;;
    mret (optimization_tasks, false).

  Lemma scatter_body_inv (model N pool tasks : V) (k : nat) (sb : V * bool) (log0 log1 : list (event V)) :
    scatter_body model N pool tasks (Z.of_nat k) log0 = (Ret sb, log1) ->
    snd sb = false /\
    exists c t, log1 = (log0 ++ setup_events model N pool tasks k c t)%list.
  Proof.
    unfold scatter_body. intros H.
    rewrite bind_call in H.
    match type of H with
    | match ?o with _ => _ end = _ => destruct o as [c|e1] eqn:Hget; [|discriminate H]
    end.
    rewrite bind_call in H.
    match type of H with
    | match ?o with _ => _ end = _ => destruct o as [t|e2] eqn:Hsetup; [|discriminate H]
    end.
    rewrite bind_call in H.
    match type of H with
    | match ?o with _ => _ end = _ => destruct o as [tasks1|e3] eqn:Hset; [|discriminate H]
    end.
    unfold mret in H. apply ret_inj in H. destruct H as [Hsb Hlog].
    split; [rewrite <- Hsb; reflexivity|].
    exists c, t. rewrite <- Hlog. unfold setup_events. rewrite !snoc2. reflexivity.
  Qed.

  Lemma scatter_loop (model N pool : V) : forall (n k : nat) (tasks tasks' : V) (log0 log1 : list (event V)),
    for_break (scatter_body model N pool) (map Z.of_nat (seq k n)) tasks log0 = (Ret tasks', log1) ->
    exists ext,
      log1 = (log0 ++ ext)%list /\ length ext = (3 * n)%nat /\
      (forall j, (j < n)%nat ->
         exists c t tb, firstn 3 (skipn (3 * j) ext) = setup_events model N pool tb (k + j) c t).
  Proof.
    induction n as [|n IH]; intros k tasks tasks' log0 log1 H.
    - cbn [seq map for_break] in H. unfold mret in H. apply ret_inj in H. destruct H as [_ Hlog].
      exists []. split; [rewrite app_nil_r; symmetry; exact Hlog|]. split; [reflexivity|].
      intros j Hj. lia.
    - cbn [seq map for_break] in H. apply mbind_ret_inv in H. destruct H as (sb & l1 & Hbody & Hrest).
      apply scatter_body_inv in Hbody. destruct Hbody as (Hnb & c & t & Hl1).
      rewrite Hnb in Hrest.
      apply IH in Hrest. destruct Hrest as (ext' & Hlog & Hlen & Hext).
      exists (setup_events model N pool tasks k c t ++ ext')%list.
      split; [rewrite Hlog, Hl1; rewrite <- app_assoc; reflexivity|].
      split; [rewrite app_length, Hlen; unfold setup_events; cbn [length]; lia|].
      intros j Hj. destruct j as [|j].
      + exists c, t, tasks. replace (k + 0)%nat with k by lia.
        unfold setup_events. reflexivity.
      + assert (Hj' : (j < n)%nat) by lia.
        destruct (Hext j Hj') as (c' & t' & tb & Htriple).
        exists c', t', tb.
        replace (3 * S j)%nat with (S (S (S (3 * j)))) by lia.
        replace (k + S j)%nat with (S k + j)%nat by lia.
        rewrite <- Htriple. unfold setup_events. reflexivity.
  Qed.

  (* 3. the optimise phase sets the tasks up in cluster order 0 .. K-1 - each with the cluster fetched at that index, the number
        of series, the window size, the user's sparsity weight and the pool - and then gathers; it raises before any task is
        set up if num_clusters is not an integer *)
  Theorem optimize_returns (model data pool r : V) (log log' : list (event V)) (K : Z) :
    as_int (getattr (getattr model "arguments") "num_clusters") = Some K ->
    g_optimize_markov_random_fields V vint as_int getattr oracle model data pool log = (Ret r, log') ->
    exists q N none tasks0 ext tasks_final,
      log' = (log ++ [Ev "op:/" [getattr (getattr data "shape") "[1]"; getattr (getattr model "arguments") "window_size"];
                      Ev "int" [q]; Ev "expr:[None]" []; Ev "op:*" [none; getattr (getattr model "arguments") "num_clusters"]]
                  ++ ext ++ [Ev "_retrieve_optimization_results" [model; tasks_final]])%list /\
      oracle (log ++ [Ev "op:/" [getattr (getattr data "shape") "[1]"; getattr (getattr model "arguments") "window_size"]])%list "int" [q] = Ret N /\
      oracle (log ++ [Ev "op:/" [getattr (getattr data "shape") "[1]"; getattr (getattr model "arguments") "window_size"];
                      Ev "int" [q]; Ev "expr:[None]" []])%list "op:*" [none; getattr (getattr model "arguments") "num_clusters"] = Ret tasks0 /\
      length ext = (3 * Z.to_nat K)%nat /\
      (forall k, (k < Z.to_nat K)%nat ->
         exists c t tb, firstn 3 (skipn (3 * k) ext) = setup_events model N pool tb k c t).
  Proof.
    intros HK Hrun.
    unfold g_optimize_markov_random_fields in Hrun.
    rewrite bind_call in Hrun.
    match type of Hrun with
    | match ?o with _ => _ end = _ => destruct o as [q|e1] eqn:Hdiv; [|discriminate Hrun]
    end.
    rewrite bind_call in Hrun.
    match type of Hrun with
    | match ?o with _ => _ end = _ => destruct o as [N|e2] eqn:Hint; [|discriminate Hrun]
    end.
    rewrite bind_call in Hrun.
    match type of Hrun with
    | match ?o with _ => _ end = _ => destruct o as [none|e3] eqn:Hnone; [|discriminate Hrun]
    end.
    rewrite bind_call in Hrun.
    match type of Hrun with
    | match ?o with _ => _ end = _ => destruct o as [tasks0|e4] eqn:Hmul; [|discriminate Hrun]
    end.
    unfold need_int in Hrun. rewrite HK in Hrun. rewrite bind_ret in Hrun.
    apply mbind_ret_inv in Hrun. destruct Hrun as (tasks_final & l1 & Hloop & Hrest).
    unfold zrange in Hloop.
    match type of Hloop with
    | for_break _ _ _ ?l = _ =>
      change (for_break (scatter_body model N pool) (map Z.of_nat (seq 0 (Z.to_nat K))) tasks0 l = (Ret tasks_final, l1)) in Hloop
    end.
    apply scatter_loop in Hloop. destruct Hloop as (ext & Hl1 & Hlen & Hext).
    rewrite bind_call in Hrest.
    match type of Hrest with
    | match ?o with _ => _ end = _ => destruct o as [res|e5] eqn:Hretr; [|discriminate Hrest]
    end.
    unfold mret in Hrest. apply ret_inj in Hrest. destruct Hrest as [_ Hlog].
    exists q, N, none, tasks0, ext, tasks_final.
    split; [|split; [exact Hint|split; [|split; [exact Hlen|]]]].
    - rewrite <- Hlog, Hl1. rewrite <- !app_assoc. reflexivity.
    - rewrite !snoc2 in Hmul. exact Hmul.
    - intros k Hk. destruct (Hext k Hk) as (c & t & tb & Htriple).
      exists c, t, tb. exact Htriple.
  Qed.

End E.

Print Assumptions retrieve_returns.
Print Assumptions setup_returns.
Print Assumptions optimize_returns.
