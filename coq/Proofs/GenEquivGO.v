(* Second tie, skeleton mode: the optimise phase of graphical_lasso.py AS TRANSLATED from /repo's working tree
   (Gen/G_gl_optimize.v, G_gl_setup.v, G_gl_retrieve.v, G_gl_update.v, regenerated on every run; every callee an uninterpreted
   oracle that may return anything or raise): the per-cluster optimisation tasks are set up in cluster order with that
   cluster's own covariance and the user's sparsity weight, and their results are fetched and stored strictly in the order of
   zip(model.clusters, tasks) - cluster k with task k - whatever order the tasks finish in.  Closed under the global context. *)
From Coq Require Import String ZArith List Bool Lia Arith.
From Ticc Require Import Gen.PyRt Gen.PySkel Gen.G_gl_optimize Gen.G_gl_setup Gen.G_gl_retrieve Gen.G_gl_update.
Import ListNotations.
Local Open Scope string_scope.

Section E.
  Variable V : Type.
  Variable vint : Z -> V.
  Variable as_int : V -> option Z.
  Variable getattr : V -> string -> V.
  Variable is_none : V -> bool.
  Variable as_list : V -> list V.
  Variable vglobal : string -> V.
  Variable oracle : list (event V) -> string -> list V -> res V.

  (* the three calls made for one (cluster, task) pair of the gather loop *)
  Definition item_events (model updated item got upd : V) : list (event V) :=
    [Ev "method:get" [getattr item "[1]"];
     Ev "_update_cluster_covariances" [model; getattr item "[0]"; getattr got "theta"];
     Ev "method:append" [updated; upd]].
  Fixpoint gather_events (model updated : V) (items gots upds : list V) : list (event V) :=
    match items, gots, upds with
    | item :: items', got :: gots', upd :: upds' => item_events model updated item got upd ++ gather_events model updated items' gots' upds'
    | _, _, _ => []
    end.

  (* the three calls made for cluster k of the scatter loop *)
  Definition setup_events (model N pool tasks_before : V) (k : nat) (c t : V) : list (event V) :=
    [Ev "getitem" [getattr model "clusters"; vint (Z.of_nat k)];
     Ev "_setup_optimization_task" [c; N; getattr (getattr model "arguments") "window_size";
                                    getattr (getattr model "arguments") "sparsity_weight"; pool];
     Ev "setitem" [tasks_before; vint (Z.of_nat k); t]].

  (* STATEMENTS (to be proved):

  (* 1. gather: a call of _retrieve_optimization_results that returns fetched the results and appended the updated clusters
        strictly in the order of  zip(model.clusters, optimization_tasks):  for the k-th pair, task.get() of ITS task, then
        _update_cluster_covariances(model, ITS cluster, that result's theta), then append - nothing else in between; the
        value returned is the shallow copy of the model with `clusters` set to the list the results were appended to *)
  Theorem retrieve_returns (model tasks r : V) (log log' : list (event V)) :
    g_retrieve_optimization_results V getattr is_none as_list oracle model tasks log = (Ret r, log') ->
    exists updated z gots upds m1,
      length gots = length (as_list z) /\ length upds = length (as_list z) /\
      log' = (log ++ [Ev "expr:[]" []; Ev "zip" [getattr model "clusters"; tasks]]
                  ++ gather_events model updated (as_list z) gots upds
                  ++ [Ev "method:shallow_copy" [model]; Ev "setattr:clusters" [m1; updated]])%list /\
      oracle (log ++ [Ev "expr:[]" []])%list "zip" [getattr model "clusters"; tasks] = Ret z /\
      Forall (fun item => is_none (getattr item "[1]") = false) (as_list z).

  (* 2. scatter: _setup_optimization_task hands the pool exactly  admm.admm_optimize_theta, the argument list built from
        (cluster.empirical_covariance, density_penalty, window_size, num_data_series) and the fixed keyword dictionary *)
  Theorem setup_returns (cluster N W lam pool r : V) (log log' : list (event V)) :
    g_setup_optimization_task V vglobal oracle cluster N W lam pool log = (Ret r, log') ->
    exists args kwargs,
      log' = (log ++ [Ev "expr:[cluster.empirical_covariance, density_penalty, window_size, num_data_series]" [cluster; lam; N; W];
                      Ev "expr:{'rho': 1, 'rho_update': None, 'max_iterations': 1000, 'relative_tolerance': 1e-06, 'absolute_tolerance': 1e-06, 'verbose': False}" [];
                      Ev "method:apply_async" [pool; vglobal "admm.admm_optimize_theta"; args; kwargs]])%list.

  (* 3. the optimise phase sets the tasks up in cluster order 0 .. K-1 - each with the cluster fetched at that index, the number
        of series, the window size, the user's sparsity weight and the pool - and then gathers; it raises before any task is
        set up if num_clusters is not an integer *)
  Theorem optimize_returns (model data pool r : V) (log log' : list (event V)) (K : Z) :
    as_int (getattr (getattr model "arguments") "num_clusters") = Some K ->
    g_optimize_markov_random_fields V vint as_int getattr oracle model data pool log = (Ret r, log') ->
    exists q N none tasks0 ext tasks_final,
      log' = (log ++ [Ev "op:/" [getattr (getattr data "shape") "[1]"; getattr (getattr model "arguments") "window_size"];
                      Ev "int" [q]; Ev "expr:[None]" []; Ev "op:*" [none; getattr (getattr model "arguments") "num_clusters"]]
                  ++ ext ++ [Ev "_retrieve_optimization_results" [model; tasks_final]])%list /\
      oracle (log ++ [Ev "op:/" [getattr (getattr data "shape") "[1]"; getattr (getattr model "arguments") "window_size"]])%list "int" [q] = Ret N /\
      oracle (log ++ [Ev "op:/" [getattr (getattr data "shape") "[1]"; getattr (getattr model "arguments") "window_size"];
                      Ev "int" [q]; Ev "expr:[None]" []])%list "op:*" [none; getattr (getattr model "arguments") "num_clusters"] = Ret tasks0 /\
      length ext = (3 * Z.to_nat K)%nat /\
      (forall k, (k < Z.to_nat K)%nat ->
         exists c t tb, firstn 3 (skipn (3 * k) ext) = setup_events model N pool tb k c t).
  *)
End E.
