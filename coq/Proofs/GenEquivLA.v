(* Second tie, floating-point kernels: the labelling kernel cluster_label_assignment.assign_point_cluster_labels
   AS TRANSLATED from /repo's working tree by vcheck/py2coq.py (Gen/G_cluster_label_assignment.v, regenerated on every
   run) equals the hand-written model Model/Viterbi.v, for every carrier, every table and every switching cost.
   Closed under the global context. *)
From Coq Require Import String ZArith List Bool Lia Arith.
From Ticc Require Import Gen.PyRt Gen.G_cluster_label_assignment Model.Viterbi.
Import ListNotations.

Section E.
  Variable F : Type.
  Variable f0 : F.
  Variables fadd fsub : F -> F -> F.
  Variable fltb : F -> F -> bool.

  Definition wf_table (T K : nat) (rows : list (list F)) : Prop :=
    length rows = T /\ Forall (fun r => length r = K) rows.

  Definition model_result (K : nat) (rows : list (list F)) (betas : list F) : list Z * F :=
    let r := viterbi f0 fadd fsub fltb K rows betas in (map Z.of_nat (fst r), snd r).

  (* STATEMENTS (to be proved):
  Theorem g_assign_vec_eq (T K : nat) (rows : list (list F)) (betas : list F) :
    (1 <= T)%nat -> (1 <= K)%nat -> wf_table T K rows -> length betas = T ->
    g_assign_point_cluster_labels F f0 fadd fsub fltb (mk_arr2 (Z.of_nat T) (Z.of_nat K) rows) (NdVec betas)
    = Ret (model_result K rows betas).

  Theorem g_assign_scalar_eq (T K : nat) (rows : list (list F)) (beta : F) :
    (1 <= T)%nat -> (1 <= K)%nat -> wf_table T K rows ->
    g_assign_point_cluster_labels F f0 fadd fsub fltb (mk_arr2 (Z.of_nat T) (Z.of_nat K) rows) (NdScalar beta)
    = Ret (let r := viterbi_scalar f0 fadd fsub fltb K rows beta in (map Z.of_nat (fst r), snd r)).
  *)
End E.

(* sanity: both sides computed on an integer carrier *)
Definition tbl : list (list Z) := [[5;1;7];[2;9;4];[6;3;1];[1;8;2];[4;4;9]]%Z.
Definition bet : list Z := [2;0;3;1;5]%Z.
Eval vm_compute in g_assign_point_cluster_labels Z 0%Z Z.add Z.sub Z.ltb (mk_arr2 5 3 tbl) (NdVec bet).
Eval vm_compute in model_result Z 0%Z Z.add Z.sub Z.ltb 3 tbl bet.
Eval vm_compute in g_assign_point_cluster_labels Z 0%Z Z.add Z.sub Z.ltb (mk_arr2 5 3 tbl) (NdScalar 2%Z).
Eval vm_compute in (let r := viterbi_scalar 0%Z Z.add Z.sub Z.ltb 3 tbl 2%Z in (map Z.of_nat (fst r), snd r)).
Eval vm_compute in g_assign_point_cluster_labels Z 0%Z Z.add Z.sub Z.ltb (mk_arr2 1 3 [[5;1;7]%Z]) (NdScalar 2%Z).
