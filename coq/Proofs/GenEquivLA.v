(* Second tie, floating-point kernels: the labelling kernel cluster_label_assignment.assign_point_cluster_labels
   AS TRANSLATED from /repo's working tree by vcheck/py2coq.py (Gen/G_cluster_label_assignment.v, regenerated on every
   run) equals the hand-written model Model/Viterbi.v, for every carrier, every table and every switching cost.
   Closed under the global context. *)
From Coq Require Import String ZArith List Bool Lia Arith NArith.
From Ticc Require Import Gen.PyRt Gen.G_cluster_label_assignment Model.Viterbi.
From Ticc Require Import Proofs.ViterbiShape.
Import ListNotations.

(* ------------------------------------------------------------------ *)
(* generic list / run-time facts                                       *)
(* ------------------------------------------------------------------ *)

Lemma la_getitem_nat {A : Type} (l : list A) (k : nat) (d : A) : (k < length l)%nat ->
  py_getitem l (Z.of_nat k) = Ret (nth k l d).
Proof.
  intros Hk. unfold py_getitem, py_len.
  replace (Z.of_nat k <? 0)%Z with false by lia.
  replace ((Z.of_nat k <? 0)%Z || (Z.of_nat (length l) <=? Z.of_nat k)%Z) with false by lia.
  rewrite Nat2Z.id, (nth_error_nth' l d Hk). reflexivity.
Qed.

Lemma la_getitem_mid {A : Type} (pre post : list A) (x : A) :
  py_getitem (pre ++ x :: post) (Z.of_nat (length pre)) = Ret x.
Proof.
  rewrite (la_getitem_nat _ _ x) by (rewrite app_length; cbn [length]; lia).
  rewrite nth_middle. reflexivity.
Qed.

Lemma la_set_index_nat {A : Type} (l : list A) (k : nat) (v : A) : (k < length l)%nat ->
  py_set_index l (Z.of_nat k) v = Ret (set_nth k v l).
Proof.
  intros Hk. unfold py_set_index, py_len.
  replace (Z.of_nat k <? 0)%Z with false by lia.
  replace ((Z.of_nat k <? 0)%Z || (Z.of_nat (length l) <=? Z.of_nat k)%Z) with false by lia.
  rewrite Nat2Z.id. reflexivity.
Qed.

Lemma la_set_nth_length {A : Type} (k : nat) (v : A) (l : list A) : length (set_nth k v l) = length l.
Proof.
  revert k. induction l as [|x l IH]; intros k; [destruct k; reflexivity|].
  destruct k as [|k]; cbn [set_nth length]; [reflexivity|]. rewrite IH. reflexivity.
Qed.

Lemma la_nth_set_nth_same {A : Type} (k : nat) (v d : A) (l : list A) : (k < length l)%nat ->
  nth k (set_nth k v l) d = v.
Proof.
  revert k. induction l as [|x l IH]; intros k Hk; cbn [length] in Hk; [lia|].
  destruct k as [|k]; cbn [set_nth nth]; [reflexivity|]. apply IH. lia.
Qed.

Lemma la_set_nth_twice {A : Type} (k : nat) (v w : A) (l : list A) :
  set_nth k w (set_nth k v l) = set_nth k w l.
Proof.
  revert k. induction l as [|x l IH]; intros k; [destruct k; reflexivity|].
  destruct k as [|k]; cbn [set_nth]; [reflexivity|]. rewrite IH. reflexivity.
Qed.

Lemma la_set_nth_self {A : Type} (k : nat) (d : A) (l : list A) : set_nth k (nth k l d) l = l.
Proof.
  revert k. induction l as [|x l IH]; intros k; [destruct k; reflexivity|].
  destruct k as [|k]; cbn [set_nth nth]; [reflexivity|]. rewrite IH. reflexivity.
Qed.

Lemma la_set_nth_mid {A : Type} (pre post : list A) (x y : A) :
  set_nth (length pre) y (pre ++ x :: post) = pre ++ y :: post.
Proof. induction pre as [|p pre IH]; cbn [length app set_nth]; [reflexivity|]. rewrite IH. reflexivity. Qed.

Lemma la_skipn_cons {A : Type} (l : list A) : forall (n : nat) (d : A), (n < length l)%nat ->
  skipn n l = nth n l d :: skipn (S n) l.
Proof.
  induction l as [|x l IH]; intros n d Hn; cbn [length] in Hn; [lia|].
  destruct n as [|n]; [reflexivity|]. cbn [skipn nth]. rewrite (IH n d) by lia. reflexivity.
Qed.

Lemma la_set_nth_fill {A : Type} (n : nat) (v : A) (pre row : list A) :
  length pre = n -> (n < length row)%nat ->
  set_nth n v (pre ++ skipn n row) = (pre ++ [v]) ++ skipn (S n) row.
Proof.
  intros Hp Hn. rewrite (la_skipn_cons row n v Hn). subst n. rewrite la_set_nth_mid, <- app_assoc. reflexivity.
Qed.

Lemma la_set_nth_repeat {A : Type} (i : nat) (z v : A) (X : list A) :
  set_nth i v (repeat z (S i) ++ X) = repeat z i ++ v :: X.
Proof.
  cbn [repeat]. rewrite repeat_cons, <- app_assoc. cbn [app].
  rewrite <- (repeat_length z i) at 1. apply la_set_nth_mid.
Qed.

Lemma la_nth_repeat_mid {A : Type} (i : nat) (z x d : A) (X : list A) :
  nth i (repeat z i ++ x :: X) d = x.
Proof. rewrite <- (repeat_length z i) at 1. apply nth_middle. Qed.

Lemma la_map_repeat {A B : Type} (f : A -> B) (x : A) (n : nat) : map f (repeat x n) = repeat (f x) n.
Proof. induction n as [|n IH]; cbn [repeat map]; [reflexivity|]. rewrite IH. reflexivity. Qed.

Lemma la_Forall_nth_len {A : Type} (K : nat) (l : list (list A)) (i : nat) :
  Forall (fun r => length r = K) l -> (i < length l)%nat -> length (nth i l []) = K.
Proof. intros H Hi. rewrite Forall_forall in H. apply H, nth_In, Hi. Qed.

Lemma la_py_map2 {A B C : Type} (f : A -> B -> C) (l1 : list A) : forall l2, py_map2 f l1 l2 = map2 f l1 l2.
Proof. reflexivity. Qed.

Lemma la_total {A : Type} (f : A -> A -> A) (b : A) (l1 : list A) : forall l2,
  map (fun a => f a b) (py_map2 f l1 l2) = map2 (fun x y => f (f x y) b) l1 l2.
Proof. induction l1 as [|x l1 IH]; intros [|y l2]; cbn [py_map2 map2 map]; try reflexivity. now rewrite IH. Qed.

Lemma la_map2_repeat {A B : Type} (f : A -> A -> B) (z : A) (l : list A) :
  py_map2 f (repeat z (length l)) l = map (f z) l.
Proof. induction l as [|x l IH]; cbn [length repeat py_map2 map]; [reflexivity|]. rewrite IH. reflexivity. Qed.

Lemma la_bin_vv {A : Type} (f : A -> A -> A) (a b : list A) : length a = length b ->
  np_bin_vv f a b = Ret (map2 f a b).
Proof. intros H. unfold np_bin_vv. rewrite H, Nat.eqb_refl, la_py_map2. reflexivity. Qed.

Lemma la_argmin_from {A : Type} (ltb : A -> A -> bool) (l : list A) : forall best bi i,
  PyRt.argmin_from ltb best bi i l = Viterbi.argmin_from ltb best bi i l.
Proof.
  induction l as [|x l IH]; intros best bi i; cbn [PyRt.argmin_from Viterbi.argmin_from]; [reflexivity|].
  rewrite !IH. reflexivity.
Qed.

Lemma la_argmin {A : Type} (ltb : A -> A -> bool) (l : list A) : l <> [] ->
  np_argmin ltb l = Ret (Z.of_nat (argmin ltb l)).
Proof. destruct l as [|x l]; [congruence|]. intros _. cbn [np_argmin argmin]. rewrite la_argmin_from. reflexivity. Qed.

Lemma la_wrap (n : nat) : wrap_u16 (Z.of_nat n) = Z.of_nat (wrap16 n).
Proof.
  unfold wrap_u16, wrap16. rewrite N_nat_Z, N2Z.inj_mod, nat_N_Z. reflexivity.
Qed.

(* ---- 2-D arrays ---- *)
Lemma la_row_nat {A : Type} (r k : Z) (cells : list (list A)) (i : nat) : (i < length cells)%nat ->
  np_row (mk_arr2 r k cells) (Z.of_nat i) = Ret (nth i cells []).
Proof. intros Hi. unfold np_row. cbn [a_cells]. apply la_getitem_nat, Hi. Qed.

Lemma la_get2_nat {A : Type} (r k : Z) (cells : list (list A)) (i j : nat) (d : A) :
  (i < length cells)%nat -> (j < length (nth i cells []))%nat ->
  np_get2 (mk_arr2 r k cells) (Z.of_nat i) (Z.of_nat j) = Ret (nth j (nth i cells []) d).
Proof.
  intros Hi Hj. unfold np_get2. cbn [a_cells]. rewrite (la_getitem_nat _ _ [] Hi). cbn [bind].
  apply la_getitem_nat, Hj.
Qed.

Lemma la_set2_nat {A : Type} (r k : Z) (cells : list (list A)) (i j : nat) (v : A) :
  (i < length cells)%nat -> (j < length (nth i cells []))%nat ->
  np_set2 (mk_arr2 r k cells) (Z.of_nat i) (Z.of_nat j) v
  = Ret (mk_arr2 r k (set_nth i (set_nth j v (nth i cells [])) cells)).
Proof.
  intros Hi Hj. unfold np_set2. cbn [a_cells a_rows a_cols]. rewrite (la_getitem_nat _ _ [] Hi). cbn [bind].
  rewrite (la_set_index_nat _ _ _ Hj). cbn [bind].
  replace (Z.of_nat i <? 0)%Z with false by lia. rewrite Nat2Z.id. reflexivity.
Qed.

(* a loop that stores one computed value per column into row i of two arrays *)
Lemma la_fill_row {A B : Type} (body : arr2 A * arr2 B -> Z -> res (arr2 A * arr2 B))
      (ha : nat -> A) (hb : nat -> B) (i K : nat) (ra ka rb kb : Z) :
  (forall c ca cb, (c < K)%nat -> (i < length ca)%nat -> (i < length cb)%nat ->
      length (nth i ca []) = K -> length (nth i cb []) = K ->
      body (mk_arr2 ra ka ca, mk_arr2 rb kb cb) (Z.of_nat c)
      = Ret (mk_arr2 ra ka (set_nth i (set_nth c (ha c) (nth i ca [])) ca),
             mk_arr2 rb kb (set_nth i (set_nth c (hb c) (nth i cb [])) cb))) ->
  forall ca cb, (i < length ca)%nat -> (i < length cb)%nat ->
    length (nth i ca []) = K -> length (nth i cb []) = K ->
  forall n, (n <= K)%nat ->
    foldM body (map Z.of_nat (seq 0 n)) (mk_arr2 ra ka ca, mk_arr2 rb kb cb)
    = Ret (mk_arr2 ra ka (set_nth i (map ha (seq 0 n) ++ skipn n (nth i ca [])) ca),
           mk_arr2 rb kb (set_nth i (map hb (seq 0 n) ++ skipn n (nth i cb [])) cb)).
Proof.
  intros Hbody ca cb Hia Hib Hra Hrb. induction n as [|n IH]; intros Hn.
  - cbn [seq map foldM app skipn]. rewrite !la_set_nth_self. reflexivity.
  - rewrite seq_S, map_app, foldM_app, IH by lia. cbn [bind Nat.add map foldM].
    assert (Hla : length (map ha (seq 0 n) ++ skipn n (nth i ca [])) = K)
      by (rewrite app_length, map_length, seq_length, skipn_length; lia).
    assert (Hlb : length (map hb (seq 0 n) ++ skipn n (nth i cb [])) = K)
      by (rewrite app_length, map_length, seq_length, skipn_length; lia).
    rewrite Hbody; try (rewrite ?la_set_nth_length, ?la_nth_set_nth_same; solve [assumption | lia]).
    cbn [bind]. rewrite !la_nth_set_nth_same by assumption. rewrite !la_set_nth_twice.
    rewrite !la_set_nth_fill by (rewrite ?map_length, ?seq_length; lia).
    rewrite !map_app. reflexivity.
Qed.

Lemma la_getitem_mid' {A : Type} (pre post : list A) (x : A) (k : nat) : length pre = k ->
  py_getitem (pre ++ x :: post) (Z.of_nat k) = Ret x.
Proof. intros <-. apply la_getitem_mid. Qed.

Lemma la_set_index_mid' {A : Type} (pre post : list A) (x y : A) (k : nat) : length pre = k ->
  py_set_index (pre ++ x :: post) (Z.of_nat k) y = Ret (pre ++ y :: post).
Proof.
  intros <-. rewrite la_set_index_nat by (rewrite app_length; cbn [length]; lia).
  rewrite la_set_nth_mid. reflexivity.
Qed.

Lemma la_cons_app {A : Type} (pre : list A) (x : A) (l : list A) : pre ++ x :: l = (pre ++ [x]) ++ l.
Proof. rewrite <- app_assoc. reflexivity. Qed.

Lemma la_tl_skipn {A : Type} (l : list A) : forall i, tl (skipn i l) = skipn (S i) l.
Proof.
  induction l as [|x l IH]; intros [|i]; try reflexivity.
  cbn [skipn]. rewrite IH. reflexivity.
Qed.

Lemma la_hd_skipn {A : Type} (d : A) (l : list A) : forall i, hd d (skipn i l) = nth i l d.
Proof. induction l as [|x l IH]; intros [|i]; try reflexivity. cbn [skipn nth]. apply IH. Qed.

Lemma la_Forall_repeat {A : Type} (P : A -> Prop) (x : A) (n : nat) : P x -> Forall P (repeat x n).
Proof. intros H. induction n as [|n IH]; cbn [repeat]; constructor; assumption. Qed.

Section E.
  Variable F : Type.
  Variable f0 : F.
  Variables fadd fsub : F -> F -> F.
  Variable fltb : F -> F -> bool.

  Definition wf_table (T K : nat) (rows : list (list F)) : Prop :=
    length rows = T /\ Forall (fun r => length r = K) rows.

  Definition model_result (K : nat) (rows : list (list F)) (betas : list F) : list Z * F :=
    let r := viterbi f0 fadd fsub fltb K rows betas in (map Z.of_nat (fst r), snd r).

  (* ---- the three loop bodies of the generated text, named ---- *)
  Definition inner_body (label_switching_cost total_vals : list F) (arg_general_min i : Z)
    : arr2 Z * arr2 F -> Z -> res (arr2 Z * arr2 F) :=
    (fun '(path_matrix, future_cost_vals) cluster =>
    t10_ <- py_getitem total_vals arg_general_min ;;
    t11_ <- py_getitem total_vals cluster ;;
    t12_ <- py_getitem label_switching_cost i ;;
    '(path_matrix, future_cost_vals) <- (if (fltb t10_ (fsub t11_ t12_)) then
    path_matrix <- np_set2 path_matrix i cluster (wrap_u16 arg_general_min) ;;
    t13_ <- py_getitem total_vals arg_general_min ;;
    future_cost_vals <- np_set2 future_cost_vals i cluster t13_ ;;
    Ret (path_matrix, future_cost_vals)
    else
    path_matrix <- np_set2 path_matrix i cluster (wrap_u16 cluster) ;;
    t14_ <- py_getitem total_vals cluster ;;
    t15_ <- py_getitem label_switching_cost i ;;
    future_cost_vals <- np_set2 future_cost_vals i cluster (fsub t14_ t15_) ;;
    Ret (path_matrix, future_cost_vals)) ;;
    Ret (path_matrix, future_cost_vals)).

  Definition outer_body (label_assignment_cost : arr2 F) (label_switching_cost : list F)
    : arr2 Z * arr2 F -> Z -> res (arr2 Z * arr2 F) :=
    (fun '(path_matrix, future_cost_vals) i =>
    t5_ <- np_row future_cost_vals (i + (1)) ;;
    t6_ <- np_row label_assignment_cost (i + (1)) ;;
    t7_ <- np_bin_vv fadd t5_ t6_ ;;
    t8_ <- py_getitem label_switching_cost i ;;
    let total_vals := (map (fun a_ => fadd a_ t8_) t7_) in
    t9_ <- np_argmin fltb total_vals ;;
    let arg_general_min := t9_ in
    '(path_matrix, future_cost_vals) <-
       foldM (inner_body label_switching_cost total_vals arg_general_min i)
             (zrange (a_cols label_assignment_cost)) (path_matrix, future_cost_vals) ;;
    Ret (path_matrix, future_cost_vals))%Z.

  Definition read_body (path_matrix : arr2 Z) : list Z -> Z -> res (list Z) :=
    (fun path i =>
    t24_ <- py_getitem path i ;;
    t25_ <- np_get2 path_matrix i t24_ ;;
    path <- py_set_index path (i + (1)) t25_ ;;
    Ret path)%Z.

  Lemma g_unfold (label_assignment_cost : arr2 F) (nd_cost : nd F) :
    g_assign_point_cluster_labels F f0 fadd fsub fltb label_assignment_cost nd_cost =
    (let num_points := (a_rows label_assignment_cost) in
    let num_clusters := (a_cols label_assignment_cost) in
    t1_ <- np_zeros2 f0 (a_rows label_assignment_cost) (a_cols label_assignment_cost) ;;
    let future_cost_vals := t1_ in
    t2_ <- np_zeros2 0 (a_rows label_assignment_cost) (a_cols label_assignment_cost) ;;
    let path_matrix := t2_ in
    t3_ <- np_full1 f0 num_points ;;
    t4_ <- np_bin_vnd fadd t3_ nd_cost ;;
    let label_switching_cost := t4_ in
    '(path_matrix, future_cost_vals) <-
       foldM (outer_body label_assignment_cost label_switching_cost)
             (zrange_down (num_points - (2)) (- (1))) (path_matrix, future_cost_vals) ;;
    let path := (py_list_repeat (- (1)) num_points) in
    t16_ <- np_row future_cost_vals (0) ;;
    t17_ <- np_row label_assignment_cost (0) ;;
    t18_ <- np_bin_vv fadd t16_ t17_ ;;
    t19_ <- np_argmin fltb t18_ ;;
    let curr_location := t19_ in
    path <- py_set_index path (0) curr_location ;;
    t20_ <- py_getitem path (0) ;;
    t21_ <- np_get2 future_cost_vals (0) t20_ ;;
    t22_ <- py_getitem path (0) ;;
    t23_ <- np_get2 label_assignment_cost (0) t22_ ;;
    let true_cost := (fadd t21_ t23_) in
    path <- foldM (read_body path_matrix) (zrange (num_points - (1))) path ;;
    Ret (path, true_cost))%Z.
  Proof. reflexivity. Qed.

  Notation stepv := (Viterbi.stepv f0 fsub fltb).
  Notation step := (Viterbi.step f0 fadd fsub fltb).
  Notation bw := (Viterbi.bw f0 fadd fsub fltb).

  Lemma inner_step (lsc total : list F) (g i c : nat) (ra ka rb kb : Z) (cz : list (list Z)) (cf : list (list F)) :
    (i < length lsc)%nat -> (g < length total)%nat -> (c < length total)%nat ->
    (i < length cz)%nat -> (i < length cf)%nat ->
    (c < length (nth i cz []))%nat -> (c < length (nth i cf []))%nat ->
    inner_body lsc total (Z.of_nat g) (Z.of_nat i) (mk_arr2 ra ka cz, mk_arr2 rb kb cf) (Z.of_nat c)
    = Ret (mk_arr2 ra ka (set_nth i (set_nth c (Z.of_nat (snd (stepv (nth i lsc f0) total g c))) (nth i cz [])) cz),
           mk_arr2 rb kb (set_nth i (set_nth c (fst (stepv (nth i lsc f0) total g c)) (nth i cf [])) cf)).
  Proof.
    intros Hi Hg Hc Hiz Hif Hcz Hcf. unfold inner_body, Viterbi.stepv.
    rewrite (la_getitem_nat total g f0 Hg), (la_getitem_nat total c f0 Hc), (la_getitem_nat lsc i f0 Hi).
    cbn [bind].
    destruct (fltb (nth g total f0) (fsub (nth c total f0) (nth i lsc f0))); cbn [fst snd].
    - rewrite (la_set2_nat _ _ cz i c _ Hiz Hcz). cbn [bind].
      rewrite (la_set2_nat _ _ cf i c _ Hif Hcf). cbn [bind]. rewrite la_wrap. reflexivity.
    - rewrite (la_set2_nat _ _ cz i c _ Hiz Hcz). cbn [bind].
      rewrite (la_set2_nat _ _ cf i c _ Hif Hcf). cbn [bind]. rewrite la_wrap. reflexivity.
  Qed.

  Lemma outer_step (T K : nat) (rows : list (list F)) (bs : list F) (i : nat)
        (cz : list (list Z)) (cf : list (list F)) :
    (1 <= K)%nat -> wf_table T K rows -> length bs = T -> (S i < T)%nat ->
    length cz = T -> length cf = T ->
    Forall (fun r => length r = K) cz -> Forall (fun r => length r = K) cf ->
    outer_body (mk_arr2 (Z.of_nat T) (Z.of_nat K) rows) bs
      (mk_arr2 (Z.of_nat T) (Z.of_nat K) cz, mk_arr2 (Z.of_nat T) (Z.of_nat K) cf) (Z.of_nat i)
    = Ret (mk_arr2 (Z.of_nat T) (Z.of_nat K)
             (set_nth i (map Z.of_nat (snd (step (nth i bs f0) (nth (S i) cf []) (nth (S i) rows [])))) cz),
           mk_arr2 (Z.of_nat T) (Z.of_nat K)
             (set_nth i (fst (step (nth i bs f0) (nth (S i) cf []) (nth (S i) rows []))) cf)).
  Proof.
    intros HK [Hlr Hwr] Hlb Hi Hlz Hlf Hwz Hwf. unfold outer_body.
    replace (Z.of_nat i + 1)%Z with (Z.of_nat (S i)) by lia.
    rewrite (la_row_nat _ _ cf (S i)) by lia. cbn [bind].
    rewrite (la_row_nat _ _ rows (S i)) by lia. cbn [bind].
    assert (Hfr : length (nth (S i) cf []) = K) by (apply la_Forall_nth_len; [assumption|lia]).
    assert (Hcr : length (nth (S i) rows []) = K) by (apply la_Forall_nth_len; [assumption|lia]).
    unfold np_bin_vv. rewrite Hfr, Hcr, Nat.eqb_refl. cbn [bind].
    rewrite (la_getitem_nat bs i f0) by lia. cbn [bind].
    rewrite la_total. unfold Viterbi.step.
    set (total := map2 (fun x y => fadd (fadd x y) (nth i bs f0)) (nth (S i) cf []) (nth (S i) rows [])).
    assert (Hlt : length total = K) by (unfold total; rewrite map2_length; lia).
    assert (Hne : total <> []) by (intros E; rewrite E in Hlt; cbn in Hlt; lia).
    rewrite (la_argmin fltb total Hne). cbn [bind a_cols].
    pose proof (argmin_range fltb total Hne) as Hg. set (g := argmin fltb total) in *.
    rewrite zrange_of_nat.
    rewrite (la_fill_row (inner_body bs total (Z.of_nat g) (Z.of_nat i))
               (fun c => Z.of_nat (snd (stepv (nth i bs f0) total g c)))
               (fun c => fst (stepv (nth i bs f0) total g c)) i K).
    - cbn [bind].
      rewrite !skipn_all2 by (rewrite la_Forall_nth_len with (K := K); [lia|assumption|lia]).
      rewrite !app_nil_r, Hlt, split_map_fst, split_map_snd, map_map. reflexivity.
    - intros c ca cb Hc Hia Hib Hra Hrb. apply inner_step; lia.
    - lia.
    - lia.
    - apply la_Forall_nth_len; [assumption|lia].
    - apply la_Forall_nth_len; [assumption|lia].
    - lia.
  Qed.

  (* ---- the backward loop ---- *)
  Lemma bw_cons2 (K : nat) (r r' : list F) (rest : list (list F)) (bs : list F) :
    bw K (r :: r' :: rest) bs
    = (let '(f', P) := bw K (r' :: rest) (tl bs) in
       let '(f, p) := step (hd f0 bs) f' r' in (f, p :: P)).
  Proof. reflexivity. Qed.

  Lemma bw_skipn (K : nat) (rows : list (list F)) (bs : list F) (i : nat) : (S i < length rows)%nat ->
    bw K (skipn i rows) (skipn i bs)
    = (let '(f', P) := bw K (skipn (S i) rows) (skipn (S i) bs) in
       let '(f, p) := step (nth i bs f0) f' (nth (S i) rows []) in (f, p :: P)).
  Proof.
    intros Hi.
    rewrite (la_skipn_cons rows i [] ltac:(lia)), (la_skipn_cons rows (S i) [] Hi), bw_cons2.
    rewrite la_tl_skipn, la_hd_skipn. reflexivity.
  Qed.

  Definition shapeP (K : nat) (P : list (list nat)) : Prop :=
    Forall (fun p => length p = K /\ Forall (fun c => (c < K)%nat) p) P.

  Lemma shapeP_len (K : nat) (P : list (list nat)) : shapeP K P ->
    Forall (fun r => length r = K) (map (map Z.of_nat) P).
  Proof.
    induction 1 as [|p P [Hp _] _ IH]; cbn [map]; constructor; [rewrite map_length; exact Hp | exact IH].
  Qed.

  Lemma outer_loop (T K : nat) (rows : list (list F)) (bs : list F) :
    (1 <= T)%nat -> (1 <= K)%nat -> wf_table T K rows -> length bs = T ->
    forall j i0 : nat, (i0 + j = T - 1)%nat ->
    exists (f : list F) (P : list (list nat)) (FS : list (list F)),
      foldM (outer_body (mk_arr2 (Z.of_nat T) (Z.of_nat K) rows) bs)
            (map (fun k => (Z.of_nat T - 2 - Z.of_nat k)%Z) (seq 0 j))
            (mk_arr2 (Z.of_nat T) (Z.of_nat K) (repeat (repeat 0%Z K) T),
             mk_arr2 (Z.of_nat T) (Z.of_nat K) (repeat (repeat f0 K) T))
      = Ret (mk_arr2 (Z.of_nat T) (Z.of_nat K) (repeat (repeat 0%Z K) i0 ++ map (map Z.of_nat) P ++ [repeat 0%Z K]),
             mk_arr2 (Z.of_nat T) (Z.of_nat K) (repeat (repeat f0 K) i0 ++ f :: FS))
      /\ bw K (skipn i0 rows) (skipn i0 bs) = (f, P)
      /\ length f = K /\ length P = j /\ shapeP K P
      /\ length FS = j /\ Forall (fun r => length r = K) FS.
  Proof.
    intros HT HK Hwf Hlb. pose proof Hwf as [Hlr Hwr].
    induction j as [|j IH]; intros i0 Hij.
    - exists (repeat f0 K), [], []. cbn [seq map foldM app length].
      assert (HR : forall (A : Type) (z : A), repeat z T = repeat z i0 ++ [z])
        by (intros A z; replace T with (i0 + 1)%nat by lia; apply repeat_app).
      rewrite !HR.
      rewrite (la_skipn_cons rows i0 [] ltac:(lia)), (skipn_all2 (n := S i0)) by lia.
      cbn [Viterbi.bw]. rewrite repeat_length.
      repeat split; constructor.
    - destruct (IH (S i0) ltac:(lia)) as (f' & P' & FS & Heq & Hbw & Hlf' & HlP' & HP' & HlFS & HwFS).
      rewrite (bw_skipn K rows bs i0) by lia. rewrite Hbw.
      destruct (step (nth i0 bs f0) f' (nth (S i0) rows [])) as [f p] eqn:Es.
      assert (Hcr : length (nth (S i0) rows []) = K) by (apply la_Forall_nth_len; [assumption|lia]).
      destruct (step_shape f0 fadd fsub fltb K _ _ _ _ _ ltac:(lia) Hlf' Hcr Es) as [Hlf [Hlp Hp]].
      exists f, (p :: P'), (f' :: FS).
      split; [|repeat split; cbn [length]; try lia; constructor; try assumption; split; assumption].
      rewrite seq_S, map_app, foldM_app, Heq. cbn [bind Nat.add map foldM].
      replace (Z.of_nat T - 2 - Z.of_nat j)%Z with (Z.of_nat i0) by lia.
      pose proof (shapeP_len K P' HP') as HwP'.
      rewrite (outer_step T K rows bs i0); try assumption; try lia.
      + cbn [bind]. rewrite (la_nth_repeat_mid (S i0)), Es. cbn [fst snd].
        rewrite !la_set_nth_repeat. reflexivity.
      + rewrite !app_length, repeat_length, map_length. cbn [length]. lia.
      + rewrite app_length, repeat_length. cbn [length]. lia.
      + apply Forall_app; split; [apply la_Forall_repeat, repeat_length|].
        apply Forall_app; split; [exact HwP'|]. constructor; [apply repeat_length|constructor].
      + apply Forall_app; split; [apply la_Forall_repeat, repeat_length|]. constructor; assumption.
  Qed.

  (* ---- the read-out loop ---- *)
  Lemma read_loop (K : nat) (ra ka : Z) (tailZ : list (list Z)) :
    forall (P : list (list nat)) (n a : nat) (PRE : list (list Z)) (pre : list Z) (c : nat),
    length P = n -> length PRE = a -> length pre = a -> shapeP K P -> (c < K)%nat ->
    foldM (read_body (mk_arr2 ra ka (PRE ++ map (map Z.of_nat) P ++ tailZ)))
          (map Z.of_nat (seq a n)) (pre ++ Z.of_nat c :: repeat (-1)%Z n)
    = Ret (pre ++ map Z.of_nat (c :: follow c P)).
  Proof.
    induction P as [|p P IH]; intros n a PRE pre c Hn HPRE Hpre HP Hc; cbn [length] in Hn; subst n.
    - reflexivity.
    - pose proof (Forall_inv HP) as [Hlp Hpc]. pose proof (Forall_inv_tail HP) as HP'.
      assert (Hc' : (nth c p 0 < K)%nat) by (rewrite Forall_forall in Hpc; apply Hpc, nth_In; lia).
      cbn [seq map foldM repeat follow app]. unfold read_body at 1.
      rewrite (la_getitem_mid' pre _ _ a Hpre). cbn [bind].
      unfold np_get2. cbn [a_cells]. rewrite (la_getitem_mid' PRE _ _ a HPRE). cbn [bind].
      rewrite (la_getitem_nat _ c (Z.of_nat 0)) by (rewrite map_length; lia). cbn [bind].
      rewrite map_nth.
      replace (Z.of_nat a + 1)%Z with (Z.of_nat (S a)) by lia.
      rewrite (la_cons_app pre).
      rewrite (la_set_index_mid' (pre ++ [Z.of_nat c]) _ _ _ (S a)) by (rewrite app_length; cbn [length]; lia).
      cbn [bind].
      rewrite (la_cons_app PRE).
      rewrite (IH (length P) (S a) (PRE ++ [map Z.of_nat p]) (pre ++ [Z.of_nat c]) (nth c p 0));
        try assumption; try reflexivity; try (rewrite app_length; cbn [length]; lia).
      rewrite <- app_assoc. reflexivity.
  Qed.

  (* ---- the whole kernel, for any broadcast switching-cost vector ---- *)
  Lemma g_core (T K : nat) (rows : list (list F)) (ndc : nd F) (bs : list F) :
    (1 <= T)%nat -> (1 <= K)%nat -> wf_table T K rows -> length bs = T ->
    np_bin_vnd fadd (repeat f0 T) ndc = Ret bs ->
    g_assign_point_cluster_labels F f0 fadd fsub fltb (mk_arr2 (Z.of_nat T) (Z.of_nat K) rows) ndc
    = Ret (let '(f, P) := bw K rows bs in
           let row0 := hd [] rows in
           let p0 := argmin fltb (map2 fadd f row0) in
           (map Z.of_nat (p0 :: follow p0 P), fadd (nth p0 f f0) (nth p0 row0 f0))).
  Proof.
    intros HT HK Hwf Hlb Hnd. pose proof Hwf as [Hlr Hwr].
    rewrite g_unfold. cbn [a_rows a_cols].
    unfold np_zeros2. replace ((Z.of_nat T <? 0)%Z || (Z.of_nat K <? 0)%Z) with false by lia.
    cbn [bind]. unfold np_full1. replace (Z.of_nat T <? 0)%Z with false by lia.
    rewrite !Nat2Z.id. cbn [bind]. rewrite Hnd. cbn [bind].
    unfold zrange_down. replace (Z.to_nat (Z.of_nat T - 2 - - (1))) with (T - 1)%nat by lia.
    destruct (outer_loop T K rows bs HT HK Hwf Hlb (T - 1) 0 ltac:(lia))
      as (f & P & FS & Heq & Hbw & Hlf & HlP & HP & HlFS & HwFS).
    rewrite Heq. cbn [bind repeat app]. cbn [skipn] in Hbw. rewrite Hbw.
    destruct rows as [|r0 rest]; [cbn [length] in Hlr; lia|]. cbn [hd].
    pose proof (Forall_inv Hwr) as Hlr0. cbv beta in Hlr0.
    rewrite (la_row_nat _ _ (f :: FS) 0) by (cbn [length]; lia). cbn [bind nth].
    rewrite (la_row_nat _ _ (r0 :: rest) 0) by (cbn [length]; lia). cbn [bind nth].
    rewrite la_bin_vv by lia. cbn [bind].
    set (v0 := map2 fadd f r0).
    assert (Hlv : length v0 = K) by (unfold v0; rewrite map2_length; lia).
    assert (Hne : v0 <> []) by (intros E; rewrite E in Hlv; cbn in Hlv; lia).
    rewrite (la_argmin fltb v0 Hne). cbn [bind].
    pose proof (argmin_range fltb v0 Hne) as Hp0. set (p0 := argmin fltb v0) in *.
    unfold py_list_repeat. rewrite Nat2Z.id.
    destruct T as [|T']; [lia|]. cbn [repeat].
    rewrite (la_set_index_nat _ 0) by (cbn [length]; lia). cbn [bind set_nth].
    rewrite (la_getitem_nat _ 0 0%Z) by (cbn [length]; lia). cbn [bind nth].
    rewrite (la_get2_nat _ _ (f :: FS) 0 p0 f0) by (cbn [length nth]; lia). cbn [bind nth].
    rewrite (la_get2_nat _ _ (r0 :: rest) 0 p0 f0) by (cbn [length nth]; lia). cbn [bind nth].
    replace (Z.of_nat (S T') - 1)%Z with (Z.of_nat T') by lia. rewrite zrange_of_nat.
    pose proof (read_loop K (Z.of_nat (S T')) (Z.of_nat K) [repeat 0%Z K] P T' 0 [] [] p0
                  ltac:(lia) eq_refl eq_refl HP ltac:(lia)) as HR.
    cbn [app] in HR. change (- (1))%Z with (-1)%Z. rewrite HR. cbn [bind]. reflexivity.
  Qed.

  Theorem g_assign_vec_eq (T K : nat) (rows : list (list F)) (betas : list F) :
    (1 <= T)%nat -> (1 <= K)%nat -> wf_table T K rows -> length betas = T ->
    g_assign_point_cluster_labels F f0 fadd fsub fltb (mk_arr2 (Z.of_nat T) (Z.of_nat K) rows) (NdVec betas)
    = Ret (model_result K rows betas).
  Proof.
    intros HT HK Hwf Hlb.
    rewrite (g_core T K rows (NdVec betas) (map (fadd f0) betas) HT HK Hwf).
    - unfold model_result, viterbi, broadcast.
      destruct (Viterbi.bw f0 fadd fsub fltb K rows (map (fadd f0) betas)) as [f P]. reflexivity.
    - rewrite map_length. exact Hlb.
    - cbn [np_bin_vnd]. unfold np_bin_vv. rewrite repeat_length, Hlb, Nat.eqb_refl.
      rewrite <- Hlb, la_map2_repeat. reflexivity.
  Qed.

  Theorem g_assign_scalar_eq (T K : nat) (rows : list (list F)) (beta : F) :
    (1 <= T)%nat -> (1 <= K)%nat -> wf_table T K rows ->
    g_assign_point_cluster_labels F f0 fadd fsub fltb (mk_arr2 (Z.of_nat T) (Z.of_nat K) rows) (NdScalar beta)
    = Ret (let r := viterbi_scalar f0 fadd fsub fltb K rows beta in (map Z.of_nat (fst r), snd r)).
  Proof.
    intros HT HK Hwf. pose proof Hwf as [Hlr _].
    rewrite (g_core T K rows (NdScalar beta) (repeat (fadd f0 beta) T) HT HK Hwf).
    - unfold viterbi_scalar, viterbi, broadcast. rewrite la_map_repeat, Hlr.
      destruct (Viterbi.bw f0 fadd fsub fltb K rows (repeat (fadd f0 beta) T)) as [f P]. reflexivity.
    - apply repeat_length.
    - cbn [np_bin_vnd]. rewrite la_map_repeat. reflexivity.
  Qed.
End E.

Print Assumptions g_assign_vec_eq.
Print Assumptions g_assign_scalar_eq.

(* sanity: both sides computed on an integer carrier *)
Definition tbl : list (list Z) := [[5;1;7];[2;9;4];[6;3;1];[1;8;2];[4;4;9]]%Z.
Definition bet : list Z := [2;0;3;1;5]%Z.
Eval vm_compute in g_assign_point_cluster_labels Z 0%Z Z.add Z.sub Z.ltb (mk_arr2 5 3 tbl) (NdVec bet).
Eval vm_compute in model_result Z 0%Z Z.add Z.sub Z.ltb 3 tbl bet.
Eval vm_compute in g_assign_point_cluster_labels Z 0%Z Z.add Z.sub Z.ltb (mk_arr2 5 3 tbl) (NdScalar 2%Z).
Eval vm_compute in (let r := viterbi_scalar 0%Z Z.add Z.sub Z.ltb 3 tbl 2%Z in (map Z.of_nat (fst r), snd r)).
Eval vm_compute in g_assign_point_cluster_labels Z 0%Z Z.add Z.sub Z.ltb (mk_arr2 1 3 [[5;1;7]%Z]) (NdScalar 2%Z).
