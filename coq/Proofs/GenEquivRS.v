(* Second tie, skeleton mode: the RESULT ASSEMBLY of main_loop.fit_stacked_data (everything after the task pool is closed) AS
   TRANSLATED from /repo's working tree (Gen/G_main_loop_suffix.v, regenerated on every run; every callee an uninterpreted
   oracle): which values the result object is built from.  Closed under the global context. *)
From Coq Require Import String ZArith List Bool Lia Arith.
From Ticc Require Import Gen.PyRt Gen.PySkel Gen.G_main_loop_suffix.
Import ListNotations.
Local Open Scope string_scope.

Section E.
  Variable V : Type.
  Variable vint : Z -> V.
  Variable as_int : V -> option Z.
  Variable getattr : V -> string -> V.
  Variable oracle : list (event V) -> string -> list V -> res V.

  Definition f_result := "results.SingleDataSeriesResult(bayesian_information_criterion=,calinski_harabasz_index=,label_assignment_cost=,overall_log_likelihood=,overall_log_likelihood_mean=,overall_log_likelihood_median=,cluster_log_likelihood_mean=,cluster_log_likelihood_median=,all_log_likelihood=,markov_random_fields=,num_clusters=,point_labels=,window_size=)".
  Definition f_mrfs := "expr:[current_model_state.clusters[cluster_id].train_inverse for cluster_id in range(current_model_state.arguments.num_clusters)]".
  Definition f_cmean := "expr:np.array([np.mean(single_cluster_log_likelihood) if len(single_cluster_log_likelihood) > 0 else 0.0 for single_cluster_log_likelihood in cluster_log_likelihood])".
  Definition f_cmedian := "expr:np.array([np.median(single_cluster_log_likelihood) if len(single_cluster_log_likelihood) > 0 else 0.0 for single_cluster_log_likelihood in cluster_log_likelihood])".

  (* the two calls that copy label i of the final model state into the result's label list *)
  Definition copy_events (state labels_before : V) (i : nat) (v : V) : list (event V) :=
    [Ev "getitem" [getattr state "point_labels"; vint (Z.of_nat i)];
     Ev "setitem" [labels_before; vint (Z.of_nat i); v]].

  (* ---------------------------------------------------------------- the monad, one step at a time *)

  Lemma bind_call : forall (B : Type) (f : string) (a : list V) (k : V -> M V B) (log : list (event V)),
    mbind (call oracle f a) k log
    = match oracle log f a with
      | Ret v => k v (log ++ [Ev f a])%list
      | Raise e => (Raise e, (log ++ [Ev f a])%list)
      end.
  Proof.
    intros B f a k log. unfold mbind, call.
    destruct (oracle log f a) as [v|e]; reflexivity.
  Qed.

  Lemma bind_ret : forall (A B : Type) (a : A) (k : A -> M V B) (log : list (event V)),
    mbind (mret a) k log = k a log.
  Proof. intros A B a k log. reflexivity. Qed.

  Lemma snoc2 : forall (A : Type) (l : list A) (a : A) (t : list A), ((l ++ [a]) ++ t = l ++ a :: t)%list.
  Proof. intros A l a t. rewrite <- app_assoc. reflexivity. Qed.

  Lemma ret_inj : forall (A L : Type) (a b : A) (l1 l2 : L), (Ret a, l1) = (Ret b, l2) -> a = b /\ l1 = l2.
  Proof. intros A L a b l1 l2 H. inversion H. split; reflexivity. Qed.

  Lemma mbind_ret_inv : forall (A B : Type) (m : M V A) (k : A -> M V B) (log log' : list (event V)) (b : B),
    mbind m k log = (Ret b, log') -> exists a l1, m log = (Ret a, l1) /\ k a l1 = (Ret b, log').
  Proof.
    intros A B m k log log' b H. unfold mbind in H.
    destruct (m log) as [[a|e] l1] eqn:Hm.
    - exists a, l1. split; [reflexivity|exact H].
    - discriminate H.
  Qed.

  Ltac step H v e Heq :=
    rewrite bind_call in H;
    match type of H with
    | match ?o with _ => _ end = _ => destruct o as [v|e] eqn:Heq; [|discriminate H]
    end.

  (* ---------------------------------------------------------------- the copy loop *)

  (* the body of the loop, as generated *)
  Definition copy_body (state : V) : V -> Z -> M V (V * bool) := fun labels i =>
    t6_ <<- call oracle "getitem" [getattr state "point_labels"; vint i] ;;
    labels <<- call oracle "setitem" [labels; vint i; t6_] ;;
    mret (labels, false).

  Lemma copy_body_inv (state labels : V) (k : nat) (sb : V * bool) (log0 log1 : list (event V)) :
    copy_body state labels (Z.of_nat k) log0 = (Ret sb, log1) ->
    snd sb = false /\
    exists v, log1 = (log0 ++ copy_events state labels k v)%list.
  Proof.
    unfold copy_body. intros H.
    step H v e1 Hget.
    step H labels1 e2 Hset.
    unfold mret in H. apply ret_inj in H. destruct H as [Hsb Hlog].
    split; [rewrite <- Hsb; reflexivity|].
    exists v. rewrite <- Hlog. unfold copy_events. rewrite !snoc2. reflexivity.
  Qed.

  Lemma copy_loop (state : V) : forall (n k : nat) (labels labels' : V) (log0 log1 : list (event V)),
    for_break (copy_body state) (map Z.of_nat (seq k n)) labels log0 = (Ret labels', log1) ->
    exists ext,
      log1 = (log0 ++ ext)%list /\ length ext = (2 * n)%nat /\
      (forall j, (j < n)%nat ->
         exists lb v, firstn 2 (skipn (2 * j) ext) = copy_events state lb (k + j) v).
  Proof.
    induction n as [|n IH]; intros k labels labels' log0 log1 H.
    - cbn [seq map for_break] in H. unfold mret in H. apply ret_inj in H. destruct H as [_ Hlog].
      exists []. split; [rewrite app_nil_r; symmetry; exact Hlog|]. split; [reflexivity|].
      intros j Hj. lia.
    - cbn [seq map for_break] in H. apply mbind_ret_inv in H. destruct H as (sb & l1 & Hbody & Hrest).
      apply copy_body_inv in Hbody. destruct Hbody as (Hnb & v & Hl1).
      rewrite Hnb in Hrest.
      apply IH in Hrest. destruct Hrest as (ext' & Hlog & Hlen & Hext).
      exists (copy_events state labels k v ++ ext')%list.
      split; [rewrite Hlog, Hl1; rewrite <- app_assoc; reflexivity|].
      split; [rewrite app_length, Hlen; unfold copy_events; cbn [length]; lia|].
      intros j Hj. destruct j as [|j].
      + exists labels, v. replace (k + 0)%nat with k by lia.
        unfold copy_events. reflexivity.
      + assert (Hj' : (j < n)%nat) by lia.
        destruct (Hext j Hj') as (lb & v' & Hpair).
        exists lb, v'.
        replace (2 * S j)%nat with (S (S (2 * j))) by lia.
        replace (k + S j)%nat with (S k + j)%nat by lia.
        rewrite <- Hpair. unfold copy_events. reflexivity.
  Qed.

  (* a call that returns built the result object from, in this order: the BIC and the Calinski-Harabasz index OF THE FINAL MODEL
     STATE, that state's own label_assignment_cost, the sum / mean / median of ONE list - the chained by_cluster lists, with
     by_cluster = _compute_log_likelihood_by_cluster(data, final state) -, the per-cluster means / medians of that same
     by_cluster, that list itself, the MRF list comprehended over the final state, the state's num_clusters, the label list
     filled by copying point_labels[i] for i = 0 .. T-1 in order, and the state's window_size; and it made no other call *)
  Theorem result_assembly (state data npoints r : V) (log log' : list (event V)) (T : Z) :
    as_int (getattr (getattr data "shape") "[0]") = Some T ->
    g_fit_stacked_data_result V vint as_int getattr oracle state data npoints log = (Ret r, log') ->
    exists bic chi minus1 copies labelsT mrfs by_cluster chained all_ll total mean median cmean cmedian,
      log' = (log ++ [Ev "cluster_metrics.bayesian_information_criterion" [state];
                      Ev "cluster_metrics.calinski_harabasz_index" [data; state];
                      Ev "expr:[-1]" []; Ev "op:*" [minus1; npoints]]
                  ++ copies
                  ++ [Ev f_mrfs [state];
                      Ev "_compute_log_likelihood_by_cluster" [data; state];
                      Ev "expr:itertools.chain(*cluster_log_likelihood)" [by_cluster];
                      Ev "list" [chained];
                      Ev "np.sum" [all_ll]; Ev "np.mean" [all_ll]; Ev "np.median" [all_ll];
                      Ev f_cmean [by_cluster]; Ev f_cmedian [by_cluster];
                      Ev f_result [bic; chi; getattr state "label_assignment_cost"; total; mean; median; cmean; cmedian; all_ll; mrfs;
                                   getattr (getattr state "arguments") "num_clusters"; labelsT;
                                   getattr (getattr state "arguments") "window_size"]])%list /\
      length copies = (2 * Z.to_nat T)%nat /\
      (forall i, (i < Z.to_nat T)%nat -> exists lb v, firstn 2 (skipn (2 * i) copies) = copy_events state lb i v) /\
      oracle log "cluster_metrics.bayesian_information_criterion" [state] = Ret bic.
  Proof.
    intros HT Hrun.
    unfold g_fit_stacked_data_result in Hrun.
    step Hrun bic e1 Hbic.
    step Hrun chi e2 Hchi.
    step Hrun minus1 e3 Hm1.
    step Hrun labels0 e4 Hmul.
    unfold need_int in Hrun. rewrite HT in Hrun. rewrite bind_ret in Hrun.
    apply mbind_ret_inv in Hrun. destruct Hrun as (labelsT & l1 & Hloop & Hrest).
    unfold zrange in Hloop.
    match type of Hloop with
    | for_break _ _ _ ?l = _ =>
      change (for_break (copy_body state) (map Z.of_nat (seq 0 (Z.to_nat T))) labels0 l = (Ret labelsT, l1)) in Hloop
    end.
    apply copy_loop in Hloop. destruct Hloop as (copies & Hl1 & Hlen & Hext).
    step Hrest mrfs e5 Hmrfs.
    step Hrest by_cluster e6 Hbc.
    step Hrest chained e7 Hchain.
    step Hrest all_ll e8 Hall.
    step Hrest total e9 Hsum.
    step Hrest mean e10 Hmean.
    step Hrest median e11 Hmedian.
    step Hrest cmean e12 Hcmean.
    step Hrest cmedian e13 Hcmedian.
    step Hrest robj e14 Hres.
    unfold mret in Hrest. apply ret_inj in Hrest. destruct Hrest as [_ Hlog].
    exists bic, chi, minus1, copies, labelsT, mrfs, by_cluster, chained, all_ll, total, mean, median, cmean, cmedian.
    split; [|split; [exact Hlen|split; [|first [exact Hbic | reflexivity]]]].
    - rewrite <- Hlog, Hl1. unfold f_mrfs, f_cmean, f_cmedian, f_result.
      rewrite <- !app_assoc. reflexivity.
    - intros i Hi. destruct (Hext i Hi) as (lb & v & Hpair).
      exists lb, v. exact Hpair.
  Qed.

End E.

Print Assumptions result_assembly.
