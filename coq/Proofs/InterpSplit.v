(* The generated control skeleton of front_end._split_combined_result (Gen/G_front_split.v), with its uninterpreted
   callees INTERPRETED by the functions of the hand-written model (Model/Stacking.v: split_by, pad), computes exactly the
   hand model's [front_joint_labels]: the run returns the model's list of padded label lists when every padded list has
   the length of its data series (the code's assertion  len(padded_label_sets[-1]) == data_series[i].shape[0]), and raises
   AssertionError otherwise.  The contents of the Python list  padded_label_sets  are not held by the handle the skeleton
   passes around: the oracle recovers them from the LOG (the second arguments of the "method:append" events so far).
   Closed under the global context. *)
From Coq Require Import String ZArith List Bool Lia Arith.
From Ticc Require Import Gen.PyRt Gen.PySkel Gen.G_front_split Model.Stacking Proofs.StackingP.
Import ListNotations.
Local Open Scope string_scope.

(* ---------------------------------------------------------------- the concrete universe of values *)

Inductive val : Type :=
| VNone
| VInt (z : Z)                             (* an int: an index, a length, the window size *)
| VLabels (l : list Z)                     (* an array of labels *)
| VParts (p : list (list Z))               (* the list of label arrays returned by split_joint_labels *)
| VPair (a b : val)                        (* a tuple of two *)
| VMaster (W : nat) (labels : list Z)      (* a SingleDataSeriesResult, as far as this function is concerned *)
| VSeries (T : nat)                        (* one data series: its number of rows *)
| VSeriesList (Ts : list nat)              (* the list of data series *)
| VSizes (ns : list nat)                   (* stacked_data_sizes *)
| VShape (T : nat)                         (* series.shape *)
| VAcc                                     (* the handle of the list padded_label_sets; its contents are in the log *)
| VEnum (p : list (list Z))                (* enumerate(individual_label_sets) *)
| VResult (padded : list (list Z)).        (* a MultipleDataSeriesResult: its point_labels *)

Definition veq (a b : val) : bool :=
  match a, b with VInt x, VInt y => Z.eqb x y | _, _ => false end.

Definition getattr (v : val) (a : string) : val :=
  match v with
  | VMaster W l => if String.eqb a "point_labels" then VLabels l
                   else if String.eqb a "window_size" then VInt (Z.of_nat W) else VNone
  | VPair x y => if String.eqb a "[0]" then x else if String.eqb a "[1]" then y else VNone
  | VSeries T => if String.eqb a "shape" then VShape T else VNone
  | VShape T => if String.eqb a "[0]" then VInt (Z.of_nat T) else VNone
  | _ => VNone
  end.

Fixpoint enum_from (i : nat) (p : list (list Z)) : list val :=
  match p with
  | [] => []
  | x :: r => VPair (VInt (Z.of_nat i)) (VLabels x) :: enum_from (S i) r
  end.

Definition as_list (v : val) : list val :=
  match v with
  | VEnum p => enum_from 0 p
  | _ => []
  end.

(* the contents of the accumulator: what was appended so far, in order, according to the log *)
Definition append_arg (e : event val) : list val :=
  if String.eqb (ev_fn e) "method:append" then match ev_args e with [_; x] => [x] | _ => [] end else [].
Definition appended_vals (log : list (event val)) : list val := flat_map append_arg log.

Definition label_of (v : val) : list (list Z) := match v with VLabels l => [l] | _ => [] end.
Definition labels_of (vs : list val) : list (list Z) := flat_map label_of vs.

Definition f_split := "data_preparation.split_joint_labels".
Definition f_pad := "data_preparation.pad_missing_labels".
Definition f_multi := "results.MultipleDataSeriesResult(bayesian_information_criterion=,calinski_harabasz_index=,label_assignment_cost=,point_labels=,markov_random_fields=,num_clusters=,window_size=,all_log_likelihood=,overall_log_likelihood=,overall_log_likelihood_mean=,overall_log_likelihood_median=,cluster_log_likelihood_mean=,cluster_log_likelihood_median=)".

Definition unexpected : res val := Raise "unexpected".

(* the callees, interpreted by the model's functions.  Everything the oracle needs is carried by the values it is given
   (the window size by the master result, the series lengths by the series list) or by the log. *)
Definition oracle_model (log : list (event val)) (f : string) (a : list val) : res val :=
  if String.eqb f f_split then
    match a with [VLabels l; VSizes ns] => Ret (VParts (split_by ns l)) | _ => unexpected end
  else if String.eqb f "expr:[]" then
    match a with [] => Ret VAcc | _ => unexpected end
  else if String.eqb f "enumerate" then
    match a with [VParts p] => Ret (VEnum p) | _ => unexpected end
  else if String.eqb f f_pad then
    match a with [VLabels part; VInt w] => Ret (VLabels (pad (-1)%Z (Z.to_nat w) part)) | _ => unexpected end
  else if String.eqb f "method:append" then
    match a with [VAcc; _] => Ret VNone | _ => unexpected end
  else if String.eqb f "getitem" then
    match a with
    | [VAcc; VInt z] =>
      if Z.eqb z (-1) then
        match rev (appended_vals log) with x :: _ => Ret x | [] => Raise "IndexError" end
      else unexpected
    | [VSeriesList Ts; VInt i] =>
      if Z.ltb i 0 then unexpected
      else match nth_error Ts (Z.to_nat i) with Some T => Ret (VSeries T) | None => Raise "IndexError" end
    | _ => unexpected
    end
  else if String.eqb f "len" then
    match a with [VLabels l] => Ret (VInt (Z.of_nat (length l))) | _ => unexpected end
  else if String.eqb f f_multi then
    match a with
    | _ :: _ :: _ :: VAcc :: _ => Ret (VResult (labels_of (appended_vals log)))
    | _ => unexpected
    end
  else unexpected.

Local Notation O := oracle_model.

(* ---------------------------------------------------------------- small facts *)

Lemma appended_app (a b : list (event val)) : appended_vals (a ++ b) = (appended_vals a ++ appended_vals b)%list.
Proof. unfold appended_vals. apply flat_map_app. Qed.

Lemma appended_snoc_other (log : list (event val)) (f : string) (a : list val) :
  String.eqb f "method:append" = false -> appended_vals (log ++ [Ev f a]) = appended_vals log.
Proof.
  intros Hf. rewrite appended_app. unfold appended_vals at 2. cbn [flat_map]. unfold append_arg. cbn [ev_fn].
  rewrite Hf. rewrite !app_nil_r. reflexivity.
Qed.

Lemma appended_snoc_append (log : list (event val)) (h x : val) :
  appended_vals (log ++ [Ev "method:append" [h; x]]) = (appended_vals log ++ [x])%list.
Proof. rewrite appended_app. reflexivity. Qed.

Lemma labels_of_map (ls : list (list Z)) : labels_of (map VLabels ls) = ls.
Proof. induction ls as [|l ls IH]; [reflexivity|]. cbn [map]. unfold labels_of in *. cbn [flat_map label_of app]. rewrite IH. reflexivity. Qed.

Lemma veq_nat (a b : nat) : veq (VInt (Z.of_nat a)) (VInt (Z.of_nat b)) = Nat.eqb a b.
Proof.
  cbn [veq]. destruct (Nat.eqb_spec a b) as [H|H].
  - apply Z.eqb_eq. lia.
  - apply Z.eqb_neq. lia.
Qed.

Lemma getattr_pl (W : nat) (l : list Z) : getattr (VMaster W l) "point_labels" = VLabels l.
Proof. reflexivity. Qed.
Lemma getattr_ws (W : nat) (l : list Z) : getattr (VMaster W l) "window_size" = VInt (Z.of_nat W).
Proof. reflexivity. Qed.
Lemma getattr_pair0 (a b : val) : getattr (VPair a b) "[0]" = a.
Proof. reflexivity. Qed.
Lemma getattr_pair1 (a b : val) : getattr (VPair a b) "[1]" = b.
Proof. reflexivity. Qed.
Lemma getattr_shape (T : nat) : getattr (VSeries T) "shape" = VShape T.
Proof. reflexivity. Qed.
Lemma getattr_shape0 (T : nat) : getattr (VShape T) "[0]" = VInt (Z.of_nat T).
Proof. reflexivity. Qed.

(* ---------------------------------------------------------------- the oracle, one callee at a time *)

Lemma oracle_split (log : list (event val)) (l : list Z) (ns : list nat) :
  O log f_split [VLabels l; VSizes ns] = Ret (VParts (split_by ns l)).
Proof. reflexivity. Qed.
Lemma oracle_nil (log : list (event val)) : O log "expr:[]" [] = Ret VAcc.
Proof. reflexivity. Qed.
Lemma oracle_enumerate (log : list (event val)) (p : list (list Z)) : O log "enumerate" [VParts p] = Ret (VEnum p).
Proof. reflexivity. Qed.
Lemma oracle_pad (log : list (event val)) (part : list Z) (W : nat) :
  O log f_pad [VLabels part; VInt (Z.of_nat W)] = Ret (VLabels (pad (-1)%Z W part)).
Proof. change (O log f_pad [VLabels part; VInt (Z.of_nat W)]) with (Ret (VLabels (pad (-1)%Z (Z.to_nat (Z.of_nat W)) part))).
       rewrite Nat2Z.id. reflexivity. Qed.
Lemma oracle_append (log : list (event val)) (x : val) : O log "method:append" [VAcc; x] = Ret VNone.
Proof. reflexivity. Qed.
Lemma oracle_getlast (log : list (event val)) :
  O log "getitem" [VAcc; VInt (- (1))]
  = match rev (appended_vals log) with x :: _ => Ret x | [] => Raise "IndexError" end.
Proof. reflexivity. Qed.
Lemma oracle_series (log : list (event val)) (Ts : list nat) (i : nat) :
  O log "getitem" [VSeriesList Ts; VInt (Z.of_nat i)]
  = match nth_error Ts i with Some T => Ret (VSeries T) | None => Raise "IndexError" end.
Proof.
  change (O log "getitem" [VSeriesList Ts; VInt (Z.of_nat i)])
    with (if Z.ltb (Z.of_nat i) 0 then unexpected
          else match nth_error Ts (Z.to_nat (Z.of_nat i)) with Some T => Ret (VSeries T) | None => Raise "IndexError" end).
  rewrite Nat2Z.id. replace (Z.ltb (Z.of_nat i) 0) with false by (symmetry; apply Z.ltb_ge; lia). reflexivity.
Qed.
Lemma oracle_len (log : list (event val)) (l : list Z) : O log "len" [VLabels l] = Ret (VInt (Z.of_nat (length l))).
Proof. reflexivity. Qed.
Lemma oracle_multi (log : list (event val)) (a1 a2 a3 : val) (rest : list val) :
  O log f_multi (a1 :: a2 :: a3 :: VAcc :: rest) = Ret (VResult (labels_of (appended_vals log))).
Proof. reflexivity. Qed.

(* ---------------------------------------------------------------- the monad, one step at a time *)

Lemma bind_call (B : Type) (f : string) (a : list val) (k : val -> M val B) (log : list (event val)) :
  mbind (call O f a) k log
  = match O log f a with
    | Ret v => k v (log ++ [Ev f a])%list
    | Raise e => (Raise e, (log ++ [Ev f a])%list)
    end.
Proof. unfold mbind, call. destruct (O log f a) as [v|e]; reflexivity. Qed.

Lemma for_each_cons (S : Type) (body : S -> val -> M val S) (x : val) (r : list val) (s : S) (log : list (event val)) :
  for_each body (x :: r) s log
  = match body s x log with
    | (Ret s', log') => for_each body r s' log'
    | (Raise e, log') => (Raise e, log')
    end.
Proof. reflexivity. Qed.

Lemma fst_bind_call (B : Type) (f : string) (a : list val) (k : val -> M val B) (log : list (event val))
      (v : val) (R : res B) :
  O log f a = Ret v -> fst (k v (log ++ [Ev f a])%list) = R -> fst (mbind (call O f a) k log) = R.
Proof. intros Ho Hk. rewrite bind_call, Ho. exact Hk. Qed.

Lemma fst_bind_ret (A B : Type) (mm : M val A) (k : A -> M val B) (log log' : list (event val)) (a : A) (R : res B) :
  mm log = (Ret a, log') -> fst (k a log') = R -> fst (mbind mm k log) = R.
Proof. intros Hm Hk. unfold mbind. rewrite Hm. exact Hk. Qed.

Lemma fst_bind_raise (A B : Type) (mm : M val A) (k : A -> M val B) (log log' : list (event val)) (e : string) :
  mm log = (Raise e, log') -> fst (mbind mm k log) = Raise e.
Proof. intros Hm. unfold mbind. rewrite Hm. reflexivity. Qed.

(* ---------------------------------------------------------------- the length check, as a boolean *)

(* every part, once padded, has the length of the series at the same position (and there are as many parts as series) *)
Fixpoint lens_ok (W : nat) (parts : list (list Z)) (Ts : list nat) : bool :=
  match parts, Ts with
  | p :: ps, T :: Tr => Nat.eqb (length (pad (-1)%Z W p)) T && lens_ok W ps Tr
  | [], [] => true
  | _, _ => false
  end.

Lemma lens_ok_iff (W : nat) : forall (parts : list (list Z)) (Ts : list nat),
  lens_ok W parts Ts = true <-> map (@length Z) (map (pad (-1)%Z W) parts) = Ts.
Proof.
  induction parts as [|p ps IH]; intros Ts; destruct Ts as [|T Tr]; cbn [lens_ok map].
  - split; reflexivity.
  - split; discriminate.
  - split; discriminate.
  - rewrite andb_true_iff, Nat.eqb_eq, IH. split.
    + intros [H1 H2]. rewrite H1, H2. reflexivity.
    + intros H. injection H as H1 H2. split; assumption.
Qed.

(* ---------------------------------------------------------------- the loop *)

Section Loop.
  Variables (W : nat) (l0 : list Z).

  (* the body of the loop, as generated (the lets unfolded) *)
  Definition split_body (master acc series : val) : unit -> val -> M val unit := fun _ t4_ =>
    t5_ <<- call O "data_preparation.pad_missing_labels" [getattr t4_ "[1]"; getattr master "window_size"] ;;
    t6_ <<- call O "method:append" [acc; t5_] ;;
    t7_ <<- call O "getitem" [acc; VInt (- (1))] ;;
    t8_ <<- call O "len" [t7_] ;;
    t9_ <<- call O "getitem" [series; getattr t4_ "[0]"] ;;
    if veq t8_ (getattr (getattr t9_ "shape") "[0]") then mret tt else mraise "AssertionError".

  (* one iteration: the part is padded with the model's [pad], the padded array is appended, and the assertion compares
     its length with the length of the series whose index the enumeration gives *)
  Lemma split_body_run (part : list Z) (pre : list nat) (T : nat) (Tr : list nat) (log : list (event val)) :
    exists log',
      split_body (VMaster W l0) VAcc (VSeriesList (pre ++ T :: Tr)) tt
                 (VPair (VInt (Z.of_nat (length pre))) (VLabels part)) log
      = (if Nat.eqb (length (pad (-1)%Z W part)) T then Ret tt else Raise "AssertionError", log')
      /\ appended_vals log' = (appended_vals log ++ [VLabels (pad (-1)%Z W part)])%list.
  Proof.
    eexists. split.
    - unfold split_body.
      rewrite getattr_pair1, getattr_pair0, getattr_ws.
      rewrite bind_call. change "data_preparation.pad_missing_labels" with f_pad. rewrite oracle_pad. cbv beta iota.
      rewrite bind_call, oracle_append. cbv beta iota.
      rewrite bind_call, oracle_getlast.
      rewrite appended_snoc_append, appended_snoc_other by reflexivity. rewrite rev_unit. cbv beta iota.
      rewrite bind_call, oracle_len. cbv beta iota.
      rewrite bind_call, oracle_series.
      rewrite nth_error_app2 by lia. rewrite Nat.sub_diag. cbn [nth_error]. cbv beta iota.
      rewrite getattr_shape, getattr_shape0, veq_nat.
      destruct (Nat.eqb (length (pad (-1)%Z W part)) T); reflexivity.
    - rewrite appended_snoc_other by reflexivity.
      rewrite appended_snoc_other by reflexivity.
      rewrite appended_snoc_other by reflexivity.
      rewrite appended_snoc_append.
      rewrite appended_snoc_other by reflexivity.
      reflexivity.
  Qed.

  (* the whole loop: it returns iff every check passes, and then the accumulator has grown by the padded parts *)
  Lemma loop_run : forall (parts : list (list Z)) (Tsub pre : list nat) (log : list (event val)),
    length Tsub = length parts ->
    exists log',
      for_each (split_body (VMaster W l0) VAcc (VSeriesList (pre ++ Tsub))) (enum_from (length pre) parts) tt log
      = (if lens_ok W parts Tsub then Ret tt else Raise "AssertionError", log')
      /\ (lens_ok W parts Tsub = true ->
          appended_vals log' = (appended_vals log ++ map VLabels (map (pad (-1)%Z W) parts))%list).
  Proof.
    induction parts as [|p ps IH]; intros Tsub pre log Hlen; destruct Tsub as [|T Tr]; try discriminate Hlen.
    - exists log. split; [reflexivity|]. intros _. cbn [map]. rewrite app_nil_r. reflexivity.
    - cbn [enum_from lens_ok map]. rewrite for_each_cons.
      destruct (split_body_run p pre T Tr log) as (l1 & Hb & Ha). rewrite Hb.
      destruct (Nat.eqb (length (pad (-1)%Z W p)) T).
      + cbn [andb]. cbv beta iota.
        assert (Hlen' : length Tr = length ps) by (cbn [length] in Hlen; lia).
        destruct (IH Tr (pre ++ [T])%list l1 Hlen') as (l2 & Hr & Hc).
        rewrite <- app_assoc in Hr. cbn [app] in Hr.
        rewrite app_length in Hr. cbn [length] in Hr. rewrite Nat.add_1_r in Hr.
        exists l2. split; [exact Hr|].
        intros Hok. rewrite (Hc Hok), Ha, <- app_assoc. reflexivity.
      + cbn [andb]. exists l1. split; [reflexivity|]. discriminate.
  Qed.
End Loop.

(* ---------------------------------------------------------------- the whole function *)

(* the arguments in the order of the Python signature: master_result, stacked_data_sizes, data_series *)
Definition run (W : nat) (Ts : list nat) (labels : list Z) : res val * list (event val) :=
  g_split_combined_result val VInt veq getattr as_list oracle_model
                          (VMaster W labels) (VSizes (map (num_windows W) Ts)) (VSeriesList Ts) [].

(* no hypothesis: the run returns the model's labels when the model's padded lists have the lengths of the series and
   raises AssertionError otherwise *)
Lemma run_result (W : nat) (Ts : list nat) (labels : list Z) :
  fst (run W Ts labels)
  = if lens_ok W (split_by (map (num_windows W) Ts) labels) Ts
    then Ret (VResult (front_joint_labels W Ts labels))
    else Raise "AssertionError".
Proof.
  unfold run, g_split_combined_result.
  rewrite getattr_pl.
  eapply fst_bind_call; [apply oracle_split|]. cbv beta zeta.
  eapply fst_bind_call; [apply oracle_nil|]. cbv beta zeta.
  eapply fst_bind_call; [apply oracle_enumerate|]. cbv beta.
  set (parts := split_by (map (num_windows W) Ts) labels).
  assert (Hlen : length Ts = length parts).
  { unfold parts. rewrite split_by_length, map_length. reflexivity. }
  match goal with
  | |- fst (mbind _ _ ?L) = _ =>
    destruct (loop_run W labels parts Ts [] L Hlen) as (log' & Hrun & Happ);
    assert (HaN : appended_vals L = [])
  end.
  { repeat rewrite appended_snoc_other by reflexivity. reflexivity. }
  cbn [app length] in Hrun.
  destruct (lens_ok W parts Ts).
  - eapply fst_bind_ret; [exact Hrun|]. cbv beta.
    eapply fst_bind_call; [apply oracle_multi|]. cbv beta zeta.
    rewrite (Happ eq_refl), HaN. cbn [app]. rewrite labels_of_map. reflexivity.
  - eapply fst_bind_raise. exact Hrun.
Qed.

(* ================================================================ lengths in the model *)

Lemma split_by_lengths_le {A : Type} : forall (lens : list nat) (l : list A),
  list_sum lens <= length l -> map (@length A) (split_by lens l) = lens.
Proof.
  induction lens as [|n ns IH]; intros l H; simpl in *; [reflexivity|].
  rewrite firstn_length_le by lia. f_equal. apply IH. rewrite skipn_length. lia.
Qed.

(* weaker than StackingP.front_joint_lengths: a series may have W - 1 rows (no window at all), and labels beyond the
   total number of windows are ignored *)
Lemma front_joint_lengths_weak (W : nat) (Ts : list nat) (labels : list Z) :
  1 <= W -> Forall (fun T => W <= T + 1) Ts -> list_sum (map (num_windows W) Ts) <= length labels ->
  map (@length Z) (front_joint_labels W Ts labels) = Ts.
Proof.
  intros HW HTs HL. unfold front_joint_labels. rewrite map_pad_lengths.
  rewrite <- (map_map (@length Z) (fun n => n + (W - 1))).
  rewrite (split_by_lengths_le _ _ HL). rewrite map_map.
  rewrite <- (map_id Ts) at 2. apply map_ext_in. intros T HT.
  rewrite Forall_forall in HTs. specialize (HTs T HT). unfold num_windows. lia.
Qed.

(* ================================================================ the theorems *)

(* the exact condition: the run returns (the model's value) iff the model's padded lists have the series' lengths *)
Theorem split_skeleton_returns_iff : forall (W : nat) (Ts : list nat) (labels : list Z),
  map (@length Z) (front_joint_labels W Ts labels) = Ts <->
  exists log', g_split_combined_result val VInt veq getattr as_list oracle_model
                 (VMaster W labels) (VSizes (map (num_windows W) Ts)) (VSeriesList Ts) []
               = (Ret (VResult (front_joint_labels W Ts labels)), log').
Proof.
  intros W Ts labels.
  pose proof (run_result W Ts labels) as Hrun. unfold run in Hrun.
  pose proof (lens_ok_iff W (split_by (map (num_windows W) Ts) labels) Ts) as Hiff.
  fold (front_joint_labels W Ts labels) in Hiff.
  split.
  - intros Hl. apply Hiff in Hl. rewrite Hl in Hrun.
    eexists. rewrite <- Hrun. apply surjective_pairing.
  - intros (log' & Hr). rewrite Hr in Hrun. cbn [fst] in Hrun.
    destruct (lens_ok W (split_by (map (num_windows W) Ts) labels) Ts).
    + apply Hiff. reflexivity.
    + discriminate Hrun.
Qed.

(* the failure direction: when some padded list has not the length of its series, the assertion fails *)
Theorem split_skeleton_assertion : forall (W : nat) (Ts : list nat) (labels : list Z),
  map (@length Z) (front_joint_labels W Ts labels) <> Ts ->
  exists log', g_split_combined_result val VInt veq getattr as_list oracle_model
                 (VMaster W labels) (VSizes (map (num_windows W) Ts)) (VSeriesList Ts) []
               = (Raise "AssertionError", log').
Proof.
  intros W Ts labels Hne.
  pose proof (run_result W Ts labels) as Hrun. unfold run in Hrun.
  pose proof (lens_ok_iff W (split_by (map (num_windows W) Ts) labels) Ts) as Hiff.
  fold (front_joint_labels W Ts labels) in Hiff.
  destruct (lens_ok W (split_by (map (num_windows W) Ts) labels) Ts).
  - exfalso. apply Hne. apply Hiff. reflexivity.
  - eexists. rewrite <- Hrun. apply surjective_pairing.
Qed.

(* the weakest hypotheses of the three kinds under which the run returns: the window size is positive, every series has
   at least W - 1 rows, and there are at least as many labels as windows *)
Theorem split_skeleton_is_model_weak : forall (W : nat) (Ts : list nat) (labels : list Z),
  (1 <= W)%nat -> Forall (fun T => (W <= T + 1)%nat) Ts -> (list_sum (map (num_windows W) Ts) <= length labels)%nat ->
  exists log', g_split_combined_result val VInt veq getattr as_list oracle_model
                 (VMaster W labels) (VSizes (map (num_windows W) Ts)) (VSeriesList Ts) []
               = (Ret (VResult (front_joint_labels W Ts labels)), log').
Proof.
  intros W Ts labels HW HTs HL. apply split_skeleton_returns_iff.
  apply front_joint_lengths_weak; assumption.
Qed.

(* for every window size, every list of series lengths (each at least W) and every master labelling of the right total
   length, the code's split / pad / append / length-check loop returns exactly the model's list of padded label lists *)
Theorem split_skeleton_is_model : forall (W : nat) (Ts : list nat) (labels : list Z),
  (1 <= W)%nat -> Forall (fun T => (W <= T)%nat) Ts -> length labels = list_sum (map (num_windows W) Ts) ->
  exists log', g_split_combined_result val VInt veq getattr as_list oracle_model
                 (VMaster W labels) (VSizes (map (num_windows W) Ts)) (VSeriesList Ts) []
               = (Ret (VResult (front_joint_labels W Ts labels)), log').
Proof.
  intros W Ts labels HW HTs HL. apply split_skeleton_returns_iff.
  apply front_joint_lengths; assumption.
Qed.

(* ================================================================ non-vacuity *)

Example split_skeleton_example :
  let labels := [0; 1; 1; 1; 0]%Z in
  let out := [[-1; 0; 1; 1; -1]; [-1; 1; 0; -1]]%Z in
  fst (g_split_combined_result val VInt veq getattr as_list oracle_model
         (VMaster 3 labels) (VSizes (map (num_windows 3) [5; 4])) (VSeriesList [5; 4]) [])
  = Ret (VResult out)
  /\ front_joint_labels 3 [5; 4] labels = out
  /\ length (snd (g_split_combined_result val VInt veq getattr as_list oracle_model
                    (VMaster 3 labels) (VSizes (map (num_windows 3) [5; 4])) (VSeriesList [5; 4]) [])) = 14.
Proof. vm_compute. repeat split. Qed.

(* a series one row longer than the labels account for: the second assertion fails *)
Example split_skeleton_example_fails :
  fst (g_split_combined_result val VInt veq getattr as_list oracle_model
         (VMaster 3 [0; 1; 1; 1; 0]%Z) (VSizes [3; 2]) (VSeriesList [5; 5]) [])
  = Raise "AssertionError".
Proof. vm_compute. reflexivity. Qed.

Print Assumptions split_skeleton_is_model.
Print Assumptions split_skeleton_returns_iff.
Print Assumptions split_skeleton_assertion.
Print Assumptions split_skeleton_is_model_weak.
