(* Proofs about Model/Admm.v: soft threshold optimality, the eigenvalue map of the
   X-update, the small-element filter, the U update, the structure of the Z update
   (every compressed index written exactly once with the value of its Toeplitz class),
   the loop's stopping facts, and the agreement of the two sparsity-weight forms. *)
From Coq Require Import List Arith NArith Lia Reals Lra Psatz Bool Permutation.
Import ListNotations.
From Ticc Require Import Model.Viterbi Model.TriIndex Model.Admm Model.InstR
     Proofs.TriIndexP Proofs.ViterbiShape Proofs.ViterbiR.

(* ------------------------------------------------------------------ *)
(* Real-number instances                                               *)
(* ------------------------------------------------------------------ *)
Definition softR := soft_threshold 0%R 1%R Rplus Rminus Rmult Rdiv Rltb.
Definition thetaR := theta 0%R 1%R Rplus Rminus Rmult Rdiv sqrt Rltb 2%R 4%R.
Definition theta_legacyR := theta_legacy 1%R Rplus Rmult Rdiv sqrt 2%R 4%R.
Definition zero_smallR := zero_small 0%R Rminus Rltb.
Definition u_updateR := u_update Rplus Rminus.
Definition fsumR (l : list R) : R := fold_right Rplus 0%R l.

(* ================================================================== *)
(* Generic-carrier part (no laws on the operations)                    *)
(* ================================================================== *)

Local Open Scope nat_scope.

Section SetAll.
  Context {A : Type}.

  (* ---- set_at / set_all ---- *)
  Lemma set_at_length (l : list A) k v : length (set_at l k v) = length l.
  Proof.
    revert k. induction l as [|a l IH]; intros k; destruct k; cbn [set_at length]; auto.
  Qed.

  Lemma set_at_nth_eq (l : list A) k v d : k < length l -> nth k (set_at l k v) d = v.
  Proof.
    revert k. induction l as [|a l IH]; intros k Hk; cbn [length] in Hk.
    - lia.
    - destruct k; cbn [set_at nth]; [reflexivity | apply IH; lia].
  Qed.

  Lemma set_at_nth_neq (l : list A) k j v d : k <> j -> nth j (set_at l k v) d = nth j l d.
  Proof.
    revert k j. induction l as [|a l IH]; intros k j Hkj.
    - destruct k; reflexivity.
    - destruct k, j; cbn [set_at nth]; try reflexivity; try lia.
      apply IH. lia.
  Qed.

  Lemma set_all_length (idx : list nat) (l : list A) v : length (set_all l idx v) = length l.
  Proof.
    unfold set_all. revert l. induction idx as [|i idx IH]; intros l; cbn [fold_left].
    - reflexivity.
    - rewrite IH. apply set_at_length.
  Qed.

  Lemma set_all_nth_notin (idx : list nat) (l : list A) v k d :
    ~ In k idx -> nth k (set_all l idx v) d = nth k l d.
  Proof.
    unfold set_all. revert l. induction idx as [|i idx IH]; intros l Hnot; cbn [fold_left].
    - reflexivity.
    - rewrite IH by (intros H; apply Hnot; right; exact H).
      apply set_at_nth_neq. intros E. apply Hnot. left. exact E.
  Qed.

  Lemma set_all_nth_in (idx : list nat) (l : list A) v k d :
    In k idx -> k < length l -> nth k (set_all l idx v) d = v.
  Proof.
    unfold set_all. revert l. induction idx as [|i idx IH]; intros l Hin Hk; cbn [fold_left].
    - destruct Hin.
    - destruct (in_dec Nat.eq_dec k idx) as [Hin'|Hnot].
      + apply IH; [exact Hin' | rewrite set_at_length; exact Hk].
      + destruct Hin as [E|Hin]; [|contradiction]. subst i.
        fold (set_all (set_at l k v) idx v).
        rewrite set_all_nth_notin by exact Hnot.
        apply set_at_nth_eq. exact Hk.
  Qed.

  (* ---- a fold of set_all over "classes" with pairwise disjoint index lists ---- *)
  Section Fold.
    Context {C : Type}.
    Variables (zero : A) (f : C -> list nat) (g : C -> A).
    Let step := fun (z : list A) (c : C) => set_all z (f c) (g c).

    Lemma fold_set_all_length (cls : list C) (acc : list A) :
      length (fold_left step cls acc) = length acc.
    Proof.
      revert acc. induction cls as [|c cls IH]; intros acc; cbn [fold_left].
      - reflexivity.
      - rewrite IH. unfold step. apply set_all_length.
    Qed.

    Lemma fold_set_all_nth (cls : list C) (acc : list A) c0 k :
      (forall c1 c2 j, In c1 cls -> In c2 cls -> In j (f c1) -> In j (f c2) -> c1 = c2) ->
      In c0 cls -> In k (f c0) -> k < length acc ->
      nth k (fold_left step cls acc) zero = g c0.
    Proof.
      revert c0 k. induction cls as [|c cls IH] using rev_ind; intros c0 k Hdis Hin Hk Hlen.
      - destruct Hin.
      - rewrite fold_left_app. cbn [fold_left]. unfold step at 1.
        destruct (in_dec Nat.eq_dec k (f c)) as [Hkc|Hkc].
        + assert (E : c0 = c).
          { apply (Hdis c0 c k); [exact Hin | apply in_or_app; right; left; reflexivity | exact Hk | exact Hkc]. }
          subst c0. apply set_all_nth_in; [exact Hkc|].
          rewrite fold_set_all_length. exact Hlen.
        + rewrite set_all_nth_notin by exact Hkc.
          apply IH.
          * intros c1 c2 j H1 H2. apply Hdis; apply in_or_app; left; assumption.
          * apply in_app_or in Hin. destruct Hin as [Hin|[E|[]]]; [exact Hin|].
            subst c0. contradiction.
          * exact Hk.
          * exact Hlen.
    Qed.
  End Fold.
End SetAll.

(* ---- disjointness of the index lists of the Toeplitz classes (pure index facts) ---- *)
  Definition locs_of (N W : nat) (brc : nat * nat * nat) : list nat :=
    let '(b, r, c) := brc in locations_compressed b r c N W.

  Lemma locs_of_disjoint N W brc1 brc2 k :
    In brc1 (classes N W) -> In brc2 (classes N W) ->
    In k (locs_of N W brc1) -> In k (locs_of N W brc2) -> brc1 = brc2.
  Proof.
    destruct brc1 as [[b r] c], brc2 as [[b' r'] c']. intros H1 H2 Hk1 Hk2.
    apply classes_In in H1. apply classes_In in H2.
    destruct H1 as [Hb [Hr [Hc Hb0]]]. destruct H2 as [Hb' [Hr' [Hc' Hb0']]].
    cbn [locs_of] in Hk1, Hk2. unfold locations_compressed in Hk1, Hk2.
    apply in_map_iff in Hk1. apply in_map_iff in Hk2.
    destruct Hk1 as [[R1 C1] [E1 P1]]. destruct Hk2 as [[R2 C2] [E2 P2]].
    cbn [fst snd] in E1, E2.
    apply class_positions_In in P1. apply class_positions_In in P2.
    destruct P1 as [i [Hi [HR1 HC1]]]. destruct P2 as [i' [Hi' [HR2 HC2]]].
    assert (T1 := class_member_in_triu N W b r c i Hb Hr Hc Hb0 Hi).
    assert (T2 := class_member_in_triu N W b' r' c' i' Hb' Hr' Hc' Hb0' Hi').
    rewrite <- HR1, <- HC1 in T1. rewrite <- HR2, <- HC2 in T2.
    destruct (tri_index_inj (N * W) R1 C1 R2 C2 T1 T2 ltac:(congruence)) as [ER EC].
    destruct (class_of_position_unique N b r c i b' r' c' i' Hr Hc Hr' Hc') as [Q1 [Q2 [Q3 _]]];
      [lia | lia |]. subst. reflexivity.
  Qed.

  Lemma locs_of_in_range N W brc k :
    In brc (classes N W) -> In k (locs_of N W brc) -> k < (N * W) * (N * W + 1) / 2.
  Proof.
    destruct brc as [[b r] c]. intros H Hk. apply classes_In in H.
    destruct H as [Hb [Hr [Hc Hb0]]]. cbn [locs_of] in Hk.
    exact (locations_compressed_in_range b r c N W k Hb Hr Hc Hb0 Hk).
  Qed.

Section Generic.
  Context {A : Type}.
  Variables (zero one : A) (add sub mul div : A -> A -> A) (ltb : A -> A -> bool) (of_nat : nat -> A).

  Lemma z_update_fold rho lam_of N W (u x : list A) :
    z_update zero one add sub mul div ltb of_nat rho lam_of N W u x =
    fold_left (fun z brc => set_all z (locs_of N W brc)
                 (z_class_value zero one add sub mul div ltb of_nat rho (map2 add x u) lam_of N W brc))
              (classes N W) (repeat zero (length x)).
  Proof.
    unfold z_update. generalize (repeat zero (length x)).
    induction (classes N W) as [|[[b r] c] cls IH]; intros acc; cbn [fold_left].
    - reflexivity.
    - rewrite IH. reflexivity.
  Qed.

  Theorem z_update_length rho lam_of N W (u x : list A) :
    length (z_update zero one add sub mul div ltb of_nat rho lam_of N W u x) = length x.
  Proof.
    rewrite z_update_fold.
    rewrite (fold_set_all_length (locs_of N W)
               (z_class_value zero one add sub mul div ltb of_nat rho (map2 add x u) lam_of N W)).
    apply repeat_length.
  Qed.

  (* (S5) *)
  Theorem z_update_class_value rho lam_of N W (u x : list A) brc k :
    length x = (N * W) * (N * W + 1) / 2 -> length u = length x ->
    In brc (classes N W) -> In k (let '(b, r, c) := brc in locations_compressed b r c N W) ->
    length (z_update zero one add sub mul div ltb of_nat rho lam_of N W u x) = length x /\
    nth k (z_update zero one add sub mul div ltb of_nat rho lam_of N W u x) zero =
      z_class_value zero one add sub mul div ltb of_nat rho (map2 add x u) lam_of N W brc.
  Proof.
    intros Hx Hu Hcl Hk. split; [apply z_update_length|].
    rewrite z_update_fold.
    apply (fold_set_all_nth zero (locs_of N W)
             (z_class_value zero one add sub mul div ltb of_nat rho (map2 add x u) lam_of N W)).
    - intros c1 c2 j H1 H2 J1 J2. exact (locs_of_disjoint N W c1 c2 j H1 H2 J1 J2).
    - exact Hcl.
    - exact Hk.
    - rewrite repeat_length, Hx. exact (locs_of_in_range N W brc k Hcl Hk).
  Qed.

  Theorem z_update_toeplitz rho lam_of N W (u x : list A) R C R' C' :
    0 < N -> length x = (N * W) * (N * W + 1) / 2 -> length u = length x ->
    R <= C < N * W -> R' <= C' < N * W ->
    C / N - R / N = C' / N - R' / N -> R mod N = R' mod N -> C mod N = C' mod N ->
    nth (tri_index (N * W) R C) (z_update zero one add sub mul div ltb of_nat rho lam_of N W u x) zero =
    nth (tri_index (N * W) R' C') (z_update zero one add sub mul div ltb of_nat rho lam_of N W u x) zero.
  Proof.
    intros HN Hx Hu HRC HRC' Eb Er Ec.
    destruct (proj2 (class_toeplitz N W R C R' C' HN HRC HRC') (conj Eb (conj Er Ec)))
      as [[[b r] c] [Hcl [P1 P2]]].
    cbn [positions_of] in P1, P2.
    assert (K1 : In (tri_index (N * W) R C) (locations_compressed b r c N W)).
    { unfold locations_compressed.
      apply (in_map (fun RC => tri_index (N * W) (fst RC) (snd RC)) _ (R, C)). exact P1. }
    assert (K2 : In (tri_index (N * W) R' C') (locations_compressed b r c N W)).
    { unfold locations_compressed.
      apply (in_map (fun RC => tri_index (N * W) (fst RC) (snd RC)) _ (R', C')). exact P2. }
    destruct (z_update_class_value rho lam_of N W u x (b, r, c) _ Hx Hu Hcl K1) as [_ V1].
    destruct (z_update_class_value rho lam_of N W u x (b, r, c) _ Hx Hu Hcl K2) as [_ V2].
    rewrite V1, V2. reflexivity.
  Qed.

  (* (S3), any carrier *)
  Theorem zero_small_generic eps x :
    zero_small zero sub ltb eps x = zero \/ zero_small zero sub ltb eps x = x.
  Proof.
    unfold zero_small. destruct (ltb x eps && ltb (sub zero eps) x)%bool; [left|right]; reflexivity.
  Qed.

  (* ---- (S6) the loop ---- *)
End Generic.

Section LoopFacts.
  Context {A : Type}.
  Variables (zero one : A) (add sub mul div : A -> A -> A) (sqrtA : A -> A)
            (ltb leb : A -> A -> bool) (of_nat : nat -> A).
  Section Loop.
    Variable xprox : nat -> A -> list A -> list A -> list A.
    Variable norms : nat -> @admm_state A -> A * A * A * A * A.
    Variable rho_update : option (A -> A -> A -> A -> A -> A).
    Variables (abs_tol rel_tol c0001 : A).

    Local Notation loop :=
      (admm_loop zero one add sub mul div sqrtA ltb leb of_nat xprox norms rho_update abs_tol rel_tol c0001).

    Theorem admm_loop_stop fuel it lam_of N W s s' it' :
      loop fuel it lam_of N W s = (s', it', true) ->
      it < it' /\ it' <= it + fuel /\ 2 <= it' /\
      (let '(nx, nz, nru, rp, rd) := norms (it' - 1) s' in
       converged add mul sqrtA ltb leb of_nat (length (st_x s')) abs_tol rel_tol c0001 nx nz nru rp rd = true) /\
      exists rho0 u0, st_z s' = z_update zero one add sub mul div ltb of_nat rho0 lam_of N W u0 (st_x s').
    Proof.
      revert it s. induction fuel as [|fuel IH]; intros it s H; cbn [admm_loop] in H.
      - inversion H.
      - destruct (Nat.eqb it 0) eqn:E0.
        + apply IH in H. destruct H as [H1 [H2 [H3 [H4 H5]]]].
          repeat split; try lia; assumption.
        + apply Nat.eqb_neq in E0.
          match type of H with
          | context [norms it ?st] => set (s1 := st) in *
          end.
          destruct (norms it s1) as [[[[nx nz] nru] rp] rd] eqn:En.
          match type of H with
          | context [if ?c then _ else _] => destruct c eqn:Ec
          end.
          * inversion H; subst s' it'. clear H.
            split; [lia|]. split; [lia|]. split; [lia|]. split.
            -- replace (S it - 1) with it by lia. rewrite En. exact Ec.
            -- exists (st_rho s), (st_u s). reflexivity.
          * destruct rho_update as [fr|].
            -- match type of H with
               | context [let '(_, _) := ?t in _] => destruct t as [tp td]
               end.
               apply IH in H. destruct H as [H1 [H2 [H3 [H4 H5]]]].
               repeat split; try lia; assumption.
            -- apply IH in H. destruct H as [H1 [H2 [H3 [H4 H5]]]].
               repeat split; try lia; assumption.
    Qed.

    Theorem admm_loop_budget fuel it lam_of N W s s' it' :
      loop fuel it lam_of N W s = (s', it', false) -> it' = it + fuel.
    Proof.
      revert it s. induction fuel as [|fuel IH]; intros it s H; cbn [admm_loop] in H.
      - inversion H. lia.
      - destruct (Nat.eqb it 0) eqn:E0.
        + apply IH in H. lia.
        + match type of H with
          | context [norms it ?st] => set (s1 := st) in *
          end.
          destruct (norms it s1) as [[[[nx nz] nru] rp] rd] eqn:En.
          match type of H with
          | context [if ?c then _ else _] => destruct c eqn:Ec
          end.
          * inversion H.
          * destruct rho_update as [fr|].
            -- match type of H with
               | context [let '(_, _) := ?t in _] => destruct t as [tp td]
               end.
               apply IH in H. lia.
            -- apply IH in H. lia.
    Qed.
  End Loop.
End LoopFacts.

(* ================================================================== *)
(* Real-number part                                                    *)
(* ================================================================== *)
Local Open Scope R_scope.

(* ---- (S1) soft threshold ---- *)
Theorem soft_threshold_optimal s q rr z : 0 < rr -> 0 <= q ->
  q * Rabs (softR s q rr) + rr / 2 * (softR s q rr)^2 - s * softR s q rr
  <= q * Rabs z + rr / 2 * z^2 - s * z.
Proof.
  intros Hrr Hq. unfold softR, soft_threshold.
  assert (Habs : q * z <= q * Rabs z).
  { apply Rmult_le_compat_l; [exact Hq | apply Rle_abs]. }
  assert (Habs2 : - (q * z) <= q * Rabs z).
  { rewrite <- (Rabs_Ropp z). pose proof (Rle_abs (- z)) as H.
    replace (- (q * z)) with (q * - z) by ring.
    apply Rmult_le_compat_l; [exact Hq | exact H]. }
  remember (Rabs z) as a eqn:Ea.
  destruct (Rltb q s) eqn:E1.
  - apply Rltb_true in E1.
    assert (Hpos : 0 < (s - q) / rr) by (apply Rdiv_lt_0_compat; lra).
    unfold pmax0. destruct (Rltb ((s - q) / rr) 0) eqn:E2.
    { apply Rltb_true in E2. lra. }
    assert (Hc : s = q + rr * ((s - q) / rr)) by (field; lra).
    remember ((s - q) / rr) as c eqn:Ec. clear Ec E2.
    rewrite (Rabs_pos_eq c) by lra.
    assert (Hsq : 0 <= rr * ((z - c) * (z - c))).
    { apply Rmult_le_pos; [lra | apply Rle_0_sqr]. }
    subst s. nra.
  - apply Rltb_false in E1.
    destruct (Rltb s ((0 - 1) * q)) eqn:E2.
    + apply Rltb_true in E2.
      assert (Hneg : (s + q) / rr < 0).
      { unfold Rdiv. replace 0 with (0 * / rr) by ring.
        apply Rmult_lt_compat_r; [apply Rinv_0_lt_compat; exact Hrr | lra]. }
      unfold pmin0. destruct (Rltb 0 ((s + q) / rr)) eqn:E3.
      { apply Rltb_true in E3. lra. }
      assert (Hc : s = rr * ((s + q) / rr) - q) by (field; lra).
      remember ((s + q) / rr) as c eqn:Ec. clear Ec E3.
      rewrite (Rabs_left c) by lra.
      assert (Hsq : 0 <= rr * ((z - c) * (z - c))).
      { apply Rmult_le_pos; [lra | apply Rle_0_sqr]. }
      clear E1 E2. subst s. nra.
    + apply Rltb_false in E2. rewrite Rabs_R0.
      assert (Hsq : 0 <= rr * (z * z)).
      { apply Rmult_le_pos; [lra | apply Rle_0_sqr]. }
      assert (Hsz : s * z <= q * a).
      { subst a. unfold Rabs. destruct (Rcase_abs z); nra. }
      nra.
Qed.

Lemma fsumR_sq_expand (sl : list R) z :
  fsumR (map (fun s => (z - s)^2) sl) =
  INR (length sl) * z^2 - 2 * z * fsumR sl + fsumR (map (fun s => s^2) sl).
Proof.
  induction sl as [|a sl IH].
  - cbn. ring.
  - cbn [map fsumR fold_right length]. fold (fsumR (map (fun s => (z - s)^2) sl)).
    fold (fsumR sl). fold (fsumR (map (fun s => s^2) sl)).
    rewrite IH, S_INR. ring.
Qed.

Theorem soft_threshold_optimal_class (sl : list R) rho q z : 0 < rho -> sl <> [] -> 0 <= q ->
  let zs := softR (rho * fsumR sl) q (rho * INR (length sl)) in
  q * Rabs zs + rho / 2 * fsumR (map (fun s => (zs - s)^2) sl)
  <= q * Rabs z + rho / 2 * fsumR (map (fun s => (z - s)^2) sl).
Proof.
  intros Hrho Hne Hq zs.
  assert (Hn : 0 < INR (length sl)).
  { apply lt_0_INR. destruct sl; [contradiction | cbn [length]; lia]. }
  assert (Hrr : 0 < rho * INR (length sl)) by (apply Rmult_lt_0_compat; assumption).
  pose proof (soft_threshold_optimal (rho * fsumR sl) q (rho * INR (length sl)) z Hrr Hq) as H.
  fold zs in H. rewrite !fsumR_sq_expand.
  remember (fsumR (map (fun s => s^2) sl)) as Q.
  remember (fsumR sl) as S. remember (INR (length sl)) as n.
  remember (Rabs zs) as azs. remember (Rabs z) as az. clearbody zs.
  nra.
Qed.

(* ---- (S2) eigenvalue map ---- *)
Lemma theta_root_facts rho d : 0 < rho ->
  let r := sqrt (d * d + 4 * rho * 1) in
  r * r = d * d + 4 * rho /\ 0 < r - d /\ 0 < r + d.
Proof.
  intros Hrho r.
  assert (Hnn : 0 <= d * d) by (apply Rle_0_sqr).
  assert (Hrr : r * r = d * d + 4 * rho).
  { unfold r. rewrite sqrt_sqrt by lra. ring. }
  assert (Hr0 : 0 < r) by (unfold r; apply sqrt_lt_R0; lra).
  clearbody r. split; [exact Hrr|]. split.
  - destruct (Rlt_le_dec d r) as [H|H]; [lra|]. exfalso. nra.
  - destruct (Rlt_le_dec (- d) r) as [H|H]; [lra|]. exfalso. nra.
Qed.

Theorem theta_eq_legacy rho d : 0 < rho -> thetaR rho d = theta_legacyR rho d.
Proof.
  intros Hrho. unfold thetaR, theta_legacyR, theta, theta_legacy, theta_num, theta_num_legacy.
  destruct (theta_root_facts rho d Hrho) as [Hrr [Hm Hp]].
  remember (sqrt (d * d + 4 * rho * 1)) as r eqn:Er. clear Er.
  destruct (Rltb d 0) eqn:E; [|reflexivity].
  f_equal.
  replace (4 * rho) with ((d + r) * (r - d)) by (ring_simplify; lra).
  field. lra.
Qed.

Theorem theta_prox rho d : 0 < rho -> 0 < thetaR rho d /\ rho * thetaR rho d - / thetaR rho d = d.
Proof.
  intros Hrho. rewrite (theta_eq_legacy rho d Hrho).
  unfold theta_legacyR, theta_legacy, theta_num_legacy, rho_scale.
  destruct (theta_root_facts rho d Hrho) as [Hrr [Hm Hp]].
  remember (sqrt (d * d + 4 * rho * 1)) as r eqn:Er. clear Er.
  assert (Ht : 1 / (2 * rho) * (d + r) = (d + r) / (2 * rho)) by (field; lra).
  rewrite Ht.
  assert (Hpos : 0 < (d + r) / (2 * rho)) by (apply Rdiv_lt_0_compat; lra).
  split; [exact Hpos|].
  assert (Hinv : / ((d + r) / (2 * rho)) = (r - d) / 2).
  { replace (2 * rho) with ((d + r) * (r - d) / 2) by (field_simplify; lra).
    field. lra. }
  rewrite Hinv. field. lra.
Qed.

(* ---- (S3) small-element filter over R ---- *)
Theorem zero_small_R eps x : let y := zero_smallR eps x in
  (y = 0 \/ y = x) /\ (0 < eps -> ~ (0 < Rabs y < eps)) /\ (eps <= Rabs x -> y = x) /\ (eps <= 0 -> y = x).
Proof.
  unfold zero_smallR, zero_small.
  destruct (Rltb x eps) eqn:E1; destruct (Rltb (0 - eps) x) eqn:E2; cbn [andb];
    try apply Rltb_true in E1; try apply Rltb_false in E1;
    try apply Rltb_true in E2; try apply Rltb_false in E2.
  - repeat split.
    + left; reflexivity.
    + intros _. rewrite Rabs_R0. lra.
    + unfold Rabs. destruct (Rcase_abs x); lra.
    + lra.
  - repeat split; auto.
    intros He. rewrite Rabs_left1 by lra. lra.
  - repeat split; auto.
    intros He. unfold Rabs. destruct (Rcase_abs x); lra.
  - repeat split; auto.
    intros He. unfold Rabs. destruct (Rcase_abs x); lra.
Qed.

(* ---- (S4) U update ---- *)
Theorem u_update_nth (u x z : list R) k : length u = length x -> length x = length z -> (k < length u)%nat ->
  nth k (u_updateR u x z) 0 = nth k u 0 + nth k x 0 - nth k z 0.
Proof.
  intros Hux Hxz Hk. unfold u_updateR, u_update.
  rewrite map2_nth_R.
  - rewrite map2_nth_R by assumption. reflexivity.
  - rewrite map2_length by exact Hux. congruence.
  - rewrite map2_length by exact Hux. exact Hk.
Qed.

Lemma dual_identity g rho x zold znew uold unew :
  g + rho * (x - zold + uold) = 0 -> unew = uold + x - znew ->
  g + rho * unew = - rho * (znew - zold).
Proof. intros H1 H2. subst unew. nra. Qed.

(* ---- (S7) sparsity weights ---- *)
Lemma fsumR_const {B} (l : list B) lam : fsumR (map (fun _ => lam) l) = lam * INR (length l).
Proof.
  induction l as [|a l IH].
  - cbn. ring.
  - cbn [map fsumR fold_right length]. fold (fsumR (map (fun _ : B => lam) l)).
    rewrite IH, S_INR. ring.
Qed.

Theorem lambda_forms_agree_R lam b r c N W :
  lambda_sum_matrix fsumR (fun _ _ => lam) b r c N W = lambda_sum_scalar Rmult INR lam b W.
Proof.
  unfold lambda_sum_matrix, lambda_sum_scalar.
  rewrite fsumR_const, class_size. reflexivity.
Qed.

(* ---- (S8) ---- *)
Theorem sum_ln_is_ln_prod (ps : list R) : Forall (fun p => 0 < p) ps ->
  fold_right Rplus 0 (map ln ps) = ln (fold_right Rmult 1 ps).
Proof.
  intros H.
  assert (Hpos : 0 < fold_right Rmult 1 ps /\ fold_right Rplus 0 (map ln ps) = ln (fold_right Rmult 1 ps)).
  { induction H as [|p ps Hp Hps [IHp IHe]]; cbn [map fold_right].
    - split; [lra | symmetry; apply ln_1].
    - split; [apply Rmult_lt_0_compat; assumption|].
      rewrite ln_mult by assumption. rewrite IHe. reflexivity. }
  exact (proj2 Hpos).
Qed.

Print Assumptions soft_threshold_optimal_class.
Print Assumptions z_update_toeplitz.
Print Assumptions admm_loop_stop.
