(* Matrix-level statement of the ADMM X update (solver.py: x_update_prox), over any field /
   real field, with mathcomp matrices.

     A = rho (Z - U) - S = Q diag(d) Q^T      (eigh: Q orthogonal)
     X = Q diag(theta) Q^T,   theta_i the root of  rho t - 1/t = d_i  (Proofs/AdmmP: theta_prox)

   Then X is symmetric, invertible with inverse Q diag(1/theta) Q^T, satisfies the stationarity
   condition  rho X - X^-1 = A  of   -log det X + tr(S X) + rho/2 |X - Z + U|^2 ,  and, over an
   ordered field with theta > 0, is positive definite. *)
From mathcomp Require Import all_ssreflect all_algebra.
Set Implicit Arguments.
Unset Strict Implicit.
Unset Printing Implicit Defensive.
Import GRing.Theory Order.Theory Num.Theory.
Local Open Scope ring_scope.

Section XUpdateField.
Variables (F : fieldType) (n : nat).
Variables (Q : 'M[F]_n) (d th : 'rV[F]_n) (rho : F).
Hypothesis Qorth : Q *m Q^T = 1%:M.
Hypothesis th_unit : forall i, th 0 i != 0.
Hypothesis th_root : forall i, rho * th 0 i - (th 0 i)^-1 = d 0 i.

Definition mxA : 'M[F]_n := Q *m diag_mx d *m Q^T.
Definition mxX : 'M[F]_n := Q *m diag_mx th *m Q^T.
Definition mxY : 'M[F]_n := Q *m diag_mx (map_mx GRing.inv th) *m Q^T.

Lemma QtQ : Q^T *m Q = 1%:M.
Proof. exact: (mulmx1C Qorth). Qed.

Lemma diag_inv : diag_mx th *m diag_mx (map_mx GRing.inv th) = 1%:M.
Proof.
rewrite mulmx_diag; apply/matrixP => i j; rewrite !mxE.
by rewrite mulfV.
Qed.

Lemma mxX_sym : mxX^T = mxX.
Proof. by rewrite /mxX !trmx_mul trmxK tr_diag_mx mulmxA. Qed.

Lemma mxX_mxY : mxX *m mxY = 1%:M.
Proof.
rewrite /mxX /mxY.
rewrite -!mulmxA (mulmxA Q^T Q) QtQ mul1mx.
by rewrite (mulmxA (diag_mx th)) diag_inv mul1mx.
Qed.

Lemma mxY_mxX : mxY *m mxX = 1%:M.
Proof. exact: (mulmx1C mxX_mxY). Qed.

Lemma mxX_unit : mxX \in unitmx.
Proof. by case/mulmx1_unit: mxX_mxY. Qed.

Lemma mxX_inv : invmx mxX = mxY.
Proof.
by rewrite -[LHS]mulmx1 -mxX_mxY mulmxA (mulVmx mxX_unit) mul1mx.
Qed.

(* stationarity of the X sub-problem:  rho X - X^-1 = A *)
Lemma mxX_stationary : rho *: mxX - invmx mxX = mxA.
Proof.
rewrite mxX_inv /mxX /mxY /mxA.
rewrite scalemxAl scalemxAr -mulmxBl -mulmxBr; congr (_ *m _ *m _).
apply/matrixP => i j; rewrite !mxE.
case: (i == j) => /=; last by rewrite !mulr0n mulr0 subr0.
by rewrite !mulr1n th_root.
Qed.
End XUpdateField.

Section XUpdateOrdered.
Variables (F : realFieldType) (n : nat).
Variables (Q : 'M[F]_n) (th : 'rV[F]_n).
Hypothesis Qorth : Q *m Q^T = 1%:M.
Hypothesis th_pos : forall i, 0 < th 0 i.

(* v X v^T = sum_i theta_i ((v Q)_i)^2 *)
Lemma quad_form (v : 'rV[F]_n) :
  (v *m mxX Q th *m v^T) 0 0 = \sum_i th 0 i * ((v *m Q) 0 i) ^+ 2.
Proof.
rewrite /mxX !mulmxA -(mulmxA _ Q^T) -trmx_mul; set w := v *m Q.
rewrite mul_mx_diag mxE; apply: eq_bigr => i _.
by rewrite !mxE expr2 mulrAC mulrC.
Qed.

Lemma mxX_posdef (v : 'rV[F]_n) : v != 0 -> 0 < (v *m mxX Q th *m v^T) 0 0.
Proof.
move=> vn0; rewrite quad_form.
have wn0 : v *m Q != 0.
  apply: contra vn0 => /eqP w0.
  by rewrite -[v]mulmx1 -Qorth mulmxA w0 mul0mx.
case/rV0Pn: wn0 => i vi.
rewrite (bigD1 i) //=; apply: ltr_paddr.
  by apply: sumr_ge0 => j _; apply: mulr_ge0; [apply: ltW|apply: sqr_ge0].
by apply: mulr_gt0 => //; rewrite exprn_even_gt0.
Qed.
End XUpdateOrdered.
