(* Second tie, skeleton mode: the argument containers' copies and the ranking of donor clusters AS TRANSLATED from /repo's working tree
   (Gen/G_*.v, regenerated on every run; every callee an uninterpreted oracle asked after the call is logged): which calls a
   returning run made, in which order, on which values.  Closed under the global context. *)
From Coq Require Import String ZArith List Bool Lia Arith.
From Ticc Require Import Gen.PyRt Gen.PySkel Gen.G_ua_shallow Gen.G_ua_deep Gen.G_aa_shallow Gen.G_aa_deep Gen.G_cm_ranked .
Import ListNotations.
Local Open Scope string_scope.

Section E.
  Variable V : Type.
  Variable vnone : V.
  Variable vint : Z -> V.
  Variable as_int : V -> option Z.
  Variable veq : V -> V -> bool.
  Variable getattr : V -> string -> V.
  Variable truthy : V -> bool.
  Variable is_none : V -> bool.
  Variables vtrue vfalse : V.
  Variable as_list : V -> list V.
  Variable vglobal : string -> V.
  Variable oracle : list (event V) -> string -> list V -> res V.

  Definition f_ua_ctor := "UserArguments(sparsity_weight=,iteration_limit=,label_switching_cost=,min_cluster_size=,min_meaningful_covariance=,num_clusters=,num_processors=,biased_covariance=,window_size=)".
  Definition f_aa_ctor := "ADMMArguments(window_size=,num_data_series=,rho=,rho_update=,sparsity_weight=,absolute_tolerance=,relative_tolerance=,max_iterations=,verbose=)".
  Definition f_cands := "expr:[i for i in range(len(model.clusters)) if model.clusters[i].size >= 2 * model.arguments.min_cluster_size]".
  Definition f_spreads := "expr:[np.linalg.norm(cluster.computed_covariance) for cluster in model.clusters]".
  Definition f_keyfn := "def:def get_cluster_spread(i): return cluster_spread[i]".

  (* ---------------------------------------------------------------- the monad, one step at a time *)

  Lemma bind_call : forall (B : Type) (f : string) (a : list V) (k : V -> M V B) (log : list (event V)),
    mbind (call oracle f a) k log
    = match oracle log f a with
      | Ret v => k v (log ++ [Ev f a])%list
      | Raise e => (Raise e, (log ++ [Ev f a])%list)
      end.
  Proof.
    intros B f a k log. unfold mbind, call.
    destruct (oracle log f a) as [v|e]; reflexivity.
  Qed.

  Lemma snoc2 : forall (A : Type) (l : list A) (a : A) (t : list A), ((l ++ [a]) ++ t = l ++ a :: t)%list.
  Proof. intros A l a t. rewrite <- app_assoc. reflexivity. Qed.

  Lemma ret_inj : forall (A L : Type) (a b : A) (l1 l2 : L), (Ret a, l1) = (Ret b, l2) -> a = b /\ l1 = l2.
  Proof. intros A L a b l1 l2 H. inversion H. split; reflexivity. Qed.

  Ltac step H v e Heq :=
    rewrite bind_call in H;
    match type of H with
    | match ?o with _ => _ end = _ => destruct o as [v|e] eqn:Heq; [|discriminate H]
    end.

  (* ================================================================ A. UserArguments.shallow_copy *)

  (* the nine fields of the source, in the order of the constructor's keywords *)
  Definition ua_fields (self : V) : list V :=
    [getattr self "sparsity_weight"; getattr self "iteration_limit"; getattr self "label_switching_cost";
     getattr self "min_cluster_size"; getattr self "min_meaningful_covariance"; getattr self "num_clusters";
     getattr self "num_processors"; getattr self "biased_covariance"; getattr self "window_size"].

  (* a call that returns made exactly ONE call: the constructor, each keyword receiving the source's OWN field of that name, and
     returns the object the constructor answered *)
  Theorem ua_shallow_returns (self r : V) (log log' : list (event V)) :
    g_UserArguments_shallow_copy V getattr oracle self log = (Ret r, log') ->
    log' = (log ++ [Ev f_ua_ctor (ua_fields self)])%list /\
    oracle log f_ua_ctor (ua_fields self) = Ret r.
  Proof.
    intros Hrun. unfold g_UserArguments_shallow_copy in Hrun.
    step Hrun v e1 Hctor.
    unfold mret in Hrun. apply ret_inj in Hrun. destruct Hrun as [Hr Hlog].
    unfold f_ua_ctor, ua_fields.
    split; [symmetry; exact Hlog|]. rewrite <- Hr. first [exact Hctor|reflexivity].
  Qed.

  (* ================================================================ B. UserArguments.deep_copy *)

  (* the five calls: c0 the shallow copy, w / b the deep copies of the SOURCE's sparsity weight / label switching cost, c1 the copy
     after the first assignment *)
  Definition ua_deep_events (self c0 w c1 b : V) : list (event V) :=
    [Ev "method:shallow_copy" [self];
     Ev "copy.deepcopy" [getattr self "sparsity_weight"];
     Ev "setattr:sparsity_weight" [c0; w];
     Ev "copy.deepcopy" [getattr self "label_switching_cost"];
     Ev "setattr:label_switching_cost" [c1; b]].

  (* a call that returns took a shallow copy of the source, deep-copied the SOURCE's sparsity_weight and stored THAT on the copy,
     deep-copied the SOURCE's label_switching_cost and stored THAT on the (updated) copy, and returns the copy after the second
     assignment; no other call *)
  Theorem ua_deep_returns (self r : V) (log log' : list (event V)) :
    g_UserArguments_deep_copy V getattr oracle self log = (Ret r, log') ->
    exists c0 w c1 b,
      log' = (log ++ ua_deep_events self c0 w c1 b)%list /\
      oracle log "method:shallow_copy" [self] = Ret c0 /\
      oracle (log ++ firstn 1 (ua_deep_events self c0 w c1 b))%list "copy.deepcopy" [getattr self "sparsity_weight"] = Ret w /\
      oracle (log ++ firstn 2 (ua_deep_events self c0 w c1 b))%list "setattr:sparsity_weight" [c0; w] = Ret c1 /\
      oracle (log ++ firstn 3 (ua_deep_events self c0 w c1 b))%list "copy.deepcopy" [getattr self "label_switching_cost"] = Ret b /\
      oracle (log ++ firstn 4 (ua_deep_events self c0 w c1 b))%list "setattr:label_switching_cost" [c1; b] = Ret r.
  Proof.
    intros Hrun. unfold g_UserArguments_deep_copy in Hrun. cbv zeta in Hrun.
    step Hrun c0 e1 Hcopy.
    step Hrun w e2 Hw.
    step Hrun c1 e3 Hset1.
    step Hrun b e4 Hb.
    step Hrun c2 e5 Hset2.
    unfold mret in Hrun. apply ret_inj in Hrun. destruct Hrun as [Hr Hlog].
    exists c0, w, c1, b.
    unfold ua_deep_events. cbn [firstn].
    repeat rewrite snoc2 in Hset1. repeat rewrite snoc2 in Hb. repeat rewrite snoc2 in Hset2. repeat rewrite snoc2 in Hlog.
    split; [symmetry; exact Hlog|]. split; [first [exact Hcopy|reflexivity]|]. split; [exact Hw|]. split; [exact Hset1|]. split; [exact Hb|].
    rewrite <- Hr. exact Hset2.
  Qed.

  (* ================================================================ C. ADMMArguments.shallow_copy *)

  (* the nine fields of the source, in the order of the constructor's keywords *)
  Definition aa_fields (self : V) : list V :=
    [getattr self "window_size"; getattr self "num_data_series"; getattr self "rho"; getattr self "rho_update";
     getattr self "sparsity_weight"; getattr self "absolute_tolerance"; getattr self "relative_tolerance";
     getattr self "max_iterations"; getattr self "verbose"].

  (* a call that returns made exactly ONE call: the constructor, each keyword receiving the source's OWN field of that name, and
     returns the object the constructor answered *)
  Theorem aa_shallow_returns (self r : V) (log log' : list (event V)) :
    g_ADMMArguments_shallow_copy V getattr oracle self log = (Ret r, log') ->
    log' = (log ++ [Ev f_aa_ctor (aa_fields self)])%list /\
    oracle log f_aa_ctor (aa_fields self) = Ret r.
  Proof.
    intros Hrun. unfold g_ADMMArguments_shallow_copy in Hrun.
    step Hrun v e1 Hctor.
    unfold mret in Hrun. apply ret_inj in Hrun. destruct Hrun as [Hr Hlog].
    unfold f_aa_ctor, aa_fields.
    split; [symmetry; exact Hlog|]. rewrite <- Hr. first [exact Hctor|reflexivity].
  Qed.

  (* ================================================================ D. ADMMArguments.deep_copy *)

  (* a call that returns made exactly ONE call, the source's own shallow_copy method, and returns its answer: NO field is deep-copied
     (in particular not sparsity_weight, which UserArguments.deep_copy does deep-copy) *)
  Theorem aa_deep_returns (self r : V) (log log' : list (event V)) :
    g_ADMMArguments_deep_copy V oracle self log = (Ret r, log') ->
    log' = (log ++ [Ev "method:shallow_copy" [self]])%list /\
    oracle log "method:shallow_copy" [self] = Ret r.
  Proof.
    intros Hrun. unfold g_ADMMArguments_deep_copy in Hrun.
    step Hrun v e1 Hcopy.
    unfold mret in Hrun. apply ret_inj in Hrun. destruct Hrun as [Hr Hlog].
    split; [symmetry; exact Hlog|]. rewrite <- Hr. first [exact Hcopy|reflexivity].
  Qed.

  (* ================================================================ E. cluster_maintenance._find_ranked_donor_cluster_ids *)

  (* the four calls: cands the clusters holding at least twice the minimum size, spreads the per-cluster spreads, keyfn the nested
     function closed over the spreads *)
  Definition ranked_events (model cands spreads keyfn : V) : list (event V) :=
    [Ev f_cands [model];
     Ev f_spreads [model];
     Ev f_keyfn [spreads];
     Ev "sorted(key=,reverse=)" [cands; keyfn; vtrue]].

  (* a call that returns computed the candidates (size >= 2 * min_cluster_size) and the spreads on the SAME model, built the key
     function from THOSE spreads, and returns sorted(candidates, key = that function, reverse = True); no other call *)
  Theorem ranked_returns (model r : V) (log log' : list (event V)) :
    g_find_ranked_donor_cluster_ids V vtrue oracle model log = (Ret r, log') ->
    exists cands spreads keyfn,
      log' = (log ++ ranked_events model cands spreads keyfn)%list /\
      oracle log f_cands [model] = Ret cands /\
      oracle (log ++ firstn 1 (ranked_events model cands spreads keyfn))%list f_spreads [model] = Ret spreads /\
      oracle (log ++ firstn 2 (ranked_events model cands spreads keyfn))%list f_keyfn [spreads] = Ret keyfn /\
      oracle (log ++ firstn 3 (ranked_events model cands spreads keyfn))%list "sorted(key=,reverse=)" [cands; keyfn; vtrue] = Ret r.
  Proof.
    intros Hrun. unfold g_find_ranked_donor_cluster_ids in Hrun. cbv zeta in Hrun.
    step Hrun cands e1 Hcands.
    step Hrun spreads e2 Hspreads.
    step Hrun keyfn e3 Hkey.
    step Hrun v e4 Hsorted.
    unfold mret in Hrun. apply ret_inj in Hrun. destruct Hrun as [Hr Hlog].
    exists cands, spreads, keyfn.
    unfold ranked_events, f_cands, f_spreads, f_keyfn. cbn [firstn].
    repeat rewrite snoc2 in Hkey. repeat rewrite snoc2 in Hsorted. repeat rewrite snoc2 in Hlog.
    split; [symmetry; exact Hlog|]. split; [first [exact Hcands|reflexivity]|]. split; [exact Hspreads|]. split; [exact Hkey|].
    rewrite <- Hr. exact Hsorted.
  Qed.

End E.


(* ---------------------------------------------------------------- the statements are not vacuous: each function does return
   under a concrete instantiation (V := Z, every callee answers 0, every attribute reads as the given constant) *)
Local Open Scope Z_scope.

Example ua_shallow_returns_nonvacuous :
  exists r log', g_UserArguments_shallow_copy Z (fun _ _ => 5) (fun _ _ _ => Ret 0) 7 [] = (Ret r, log') /\ length log' = 1%nat.
Proof. eexists. eexists. vm_compute. split; reflexivity. Qed.

Example ua_deep_returns_nonvacuous :
  exists r log', g_UserArguments_deep_copy Z (fun _ _ => 5) (fun _ _ _ => Ret 0) 7 [] = (Ret r, log') /\ length log' = 5%nat.
Proof. eexists. eexists. vm_compute. split; reflexivity. Qed.

Example aa_shallow_returns_nonvacuous :
  exists r log', g_ADMMArguments_shallow_copy Z (fun _ _ => 5) (fun _ _ _ => Ret 0) 7 [] = (Ret r, log') /\ length log' = 1%nat.
Proof. eexists. eexists. vm_compute. split; reflexivity. Qed.

Example aa_deep_returns_nonvacuous :
  exists r log', g_ADMMArguments_deep_copy Z (fun _ _ _ => Ret 0) 7 [] = (Ret r, log') /\ length log' = 1%nat.
Proof. eexists. eexists. vm_compute. split; reflexivity. Qed.

Example ranked_returns_nonvacuous :
  exists r log', g_find_ranked_donor_cluster_ids Z 1 (fun _ _ _ => Ret 0) 7 [] = (Ret r, log') /\ length log' = 4%nat.
Proof. eexists. eexists. vm_compute. split; reflexivity. Qed.

Print Assumptions ua_shallow_returns.
Print Assumptions ua_deep_returns.
Print Assumptions aa_shallow_returns.
Print Assumptions aa_deep_returns.
Print Assumptions ranked_returns.
