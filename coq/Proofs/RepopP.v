(* Proofs about Model/Repop.v (repopulate_empty_clusters). *)
From Coq Require Import List Arith Lia Bool Permutation Sorted.
Import ListNotations.
From Ticc Require Import Model.Repop.

(* ------------------------------------------------------------------ *)
(* generic list helpers                                                *)
(* ------------------------------------------------------------------ *)

Lemma F2_refl {A} (R : A -> A -> Prop) (l : list A) :
  (forall x, R x x) -> Forall2 R l l.
Proof. intros H; induction l; constructor; auto. Qed.

Lemma F2_trans3 {A} (R S T : A -> A -> Prop) (l1 l2 l3 : list A) :
  (forall x y z, R x y -> S y z -> T x z) ->
  Forall2 R l1 l2 -> Forall2 S l2 l3 -> Forall2 T l1 l3.
Proof.
  intros H H1; revert l3; induction H1; intros l3 H2; inversion H2; subst;
    constructor; eauto.
Qed.

Lemma F2_nth {A} (R : A -> A -> Prop) (l1 l2 : list A) (a : A) :
  Forall2 R l1 l2 -> forall p, p < length l1 -> R (nth p l1 a) (nth p l2 a).
Proof.
  induction 1 as [|x y l l' Hxy HF IH]; intros p Hp; cbn in *; [lia|].
  destruct p; auto. apply IH; lia.
Qed.

Lemma F2_len {A} (R : A -> A -> Prop) (l1 l2 : list A) :
  Forall2 R l1 l2 -> length l2 = length l1.
Proof. induction 1; cbn; auto. Qed.

Lemma list_sum_perm (l l' : list nat) : Permutation l l' -> list_sum l = list_sum l'.
Proof. induction 1; cbn [list_sum fold_right] in *; unfold list_sum in *; cbn [fold_right]; lia. Qed.

Lemma sum_filter (f : nat -> bool) (g : nat -> nat) (l : list nat) :
  list_sum (map (fun k => if f k then g k else 0) l) = list_sum (map g (filter f l)).
Proof.
  unfold list_sum. induction l as [|a l IH]; cbn [map filter fold_right]; auto.
  destruct (f a); cbn [map fold_right]; lia.
Qed.

Lemma map_fst_combine {A B} (l : list A) (l' : list B) :
  length l = length l' -> map fst (combine l l') = l.
Proof.
  revert l'; induction l as [|a l IH]; destruct l' as [|b l']; cbn; intros H;
    try discriminate; auto. f_equal; auto.
Qed.

Lemma map_snd_combine {A B} (l : list A) (l' : list B) :
  length l = length l' -> map snd (combine l l') = l'.
Proof.
  revert l'; induction l as [|a l IH]; destruct l' as [|b l']; cbn; intros H;
    try discriminate; auto. f_equal; auto.
Qed.

Lemma fst_inj {A B} (ps : list (A * B)) (a b : A * B) :
  NoDup (map fst ps) -> In a ps -> In b ps -> fst a = fst b -> a = b.
Proof.
  induction ps as [|x ps IH]; cbn; intros Hnd Ha Hb Hab; [contradiction|].
  inversion Hnd as [|? ? Hnin Hnd']; subst.
  destruct Ha as [Ha|Ha], Hb as [Hb|Hb]; subst; auto.
  - exfalso; apply Hnin. rewrite Hab. apply in_map; auto.
  - exfalso; apply Hnin. rewrite <- Hab. apply in_map; auto.
Qed.

Lemma NoDup_map_fst_filter {A B} (f : A * B -> bool) (ps : list (A * B)) :
  NoDup (map fst ps) -> NoDup (map fst (filter f ps)).
Proof.
  induction ps as [|x ps IH]; cbn; intros Hnd; auto.
  inversion Hnd as [|? ? Hnin Hnd']; subst.
  destruct (f x); cbn; auto. constructor; auto.
  intros Hin. apply Hnin. apply in_map_iff in Hin. destruct Hin as [y [Hy Hin]].
  apply filter_In in Hin. rewrite <- Hy. apply in_map. tauto.
Qed.

Lemma NoDup_map_nth (mem idxs : list nat) :
  NoDup mem -> NoDup idxs -> Forall (fun i => i < length mem) idxs ->
  NoDup (map (fun i => nth i mem 0) idxs).
Proof.
  intros Hmem. induction idxs as [|i idxs IH]; cbn; intros Hnd Hlt; [constructor|].
  inversion Hnd as [|? ? Hnin Hnd']; subst. inversion Hlt as [|? ? Hi Hlt']; subst.
  constructor; auto.
  intros Hin. apply in_map_iff in Hin. destruct Hin as [j [Hj Hin]].
  rewrite Forall_forall in Hlt'.
  assert (j = i).
  { apply (proj1 (NoDup_nth mem 0) Hmem j i); auto. }
  subst; auto.
Qed.

(* ------------------------------------------------------------------ *)
(* relabelling a list of (position, label) pairs                       *)
(* ------------------------------------------------------------------ *)

Section Relab.
Variables (c : nat -> bool) (d e : nat).

Lemma relab_F2 (ps : list (nat * nat)) :
  Forall (fun ip => c (fst ip) = true -> snd ip = d) ps ->
  Forall2 (fun x y => y = x \/ (x = d /\ y = e)) (map snd ps)
          (map (fun ip => if c (fst ip) then e else snd ip) ps).
Proof.
  induction 1 as [|x ps Hx HF IH]; cbn; constructor; auto.
  destruct (c (fst x)); auto.
Qed.

Lemma relab_count (ps : list (nat * nat)) :
  d <> e -> Forall (fun ip => c (fst ip) = true -> snd ip = d) ps ->
  forall k,
    count_occ Nat.eq_dec (map (fun ip => if c (fst ip) then e else snd ip) ps) k
    + (if Nat.eq_dec d k then length (filter c (map fst ps)) else 0)
    = count_occ Nat.eq_dec (map snd ps) k
      + (if Nat.eq_dec e k then length (filter c (map fst ps)) else 0).
Proof.
  intros Hde HF k. induction HF as [|x ps Hx HF IH]; cbn [map filter count_occ length].
  - destruct (Nat.eq_dec d k), (Nat.eq_dec e k); reflexivity.
  - destruct (c (fst x)) eqn:Hc.
    + rewrite (Hx eq_refl). cbn [length].
      destruct (Nat.eq_dec d k), (Nat.eq_dec e k); subst; try contradiction; lia.
    + destruct (Nat.eq_dec (snd x) k), (Nat.eq_dec d k), (Nat.eq_dec e k); subst;
        try contradiction; lia.
Qed.
End Relab.

Lemma mem_len (ps : list (nat * nat)) (k : nat) :
  length (map fst (filter (fun ip => snd ip =? k) ps)) = count_occ Nat.eq_dec (map snd ps) k.
Proof.
  induction ps as [|a ps IH]; cbn; auto.
  destruct (Nat.eqb_spec (snd a) k), (Nat.eq_dec (snd a) k); cbn; try lia; contradiction.
Qed.

(* ------------------------------------------------------------------ *)
(* members / move                                                       *)
(* ------------------------------------------------------------------ *)

Lemma ps_fst (labels : list nat) :
  map fst (combine (seq 0 (length labels)) labels) = seq 0 (length labels).
Proof. apply map_fst_combine. apply seq_length. Qed.

Lemma ps_snd (labels : list nat) :
  map snd (combine (seq 0 (length labels)) labels) = labels.
Proof. apply map_snd_combine. apply seq_length. Qed.

Lemma members_length (labels : list nat) (k : nat) :
  length (members labels k) = size labels k.
Proof. unfold members, size. rewrite mem_len, ps_snd. reflexivity. Qed.

Lemma members_NoDup (labels : list nat) (k : nat) : NoDup (members labels k).
Proof.
  unfold members. apply NoDup_map_fst_filter. rewrite ps_fst. apply seq_NoDup.
Qed.

Lemma members_In (labels : list nat) (k p : nat) :
  In p (members labels k) -> In (p, k) (combine (seq 0 (length labels)) labels).
Proof.
  unfold members. intros H. apply in_map_iff in H. destruct H as [[p' k'] [Hp H]].
  apply filter_In in H. destruct H as [H Hk]. cbn in *. apply Nat.eqb_eq in Hk. subst. auto.
Qed.

Lemma in_combine_seq (l : list nat) (a p k : nat) :
  In (p, k) (combine (seq a (length l)) l) -> a <= p < a + length l /\ nth (p - a) l 0 = k.
Proof.
  revert a. induction l as [|x l IH]; cbn; intros a H; [contradiction|].
  destruct H as [H|H].
  - inversion H; subst. rewrite Nat.sub_diag. split; [lia|reflexivity].
  - apply IH in H. destruct H as [H1 H2].
    replace (p - a) with (S (p - S a)) by lia. split; [lia|auto].
Qed.

Lemma members_lt (labels : list nat) (k p : nat) :
  In p (members labels k) -> p < length labels /\ nth p labels 0 = k.
Proof.
  intros H. apply members_In in H. apply in_combine_seq in H.
  rewrite Nat.sub_0_r in H. split; [lia|tauto].
Qed.

Lemma move_spec (m : nat) (labels : list nat) (d e : nat) (idxs : list nat) :
  d <> e -> draw_ok m (size labels d) idxs ->
  Forall2 (fun x y => y = x \/ (x = d /\ y = e)) labels (move labels d e idxs) /\
  size (move labels d e idxs) d + m = size labels d /\
  size (move labels d e idxs) e = size labels e + m /\
  (forall k, k <> d -> k <> e -> size (move labels d e idxs) k = size labels k).
Proof.
  intros Hde (Hlen & Hnd & Hlt).
  unfold move.
  set (ps := combine (seq 0 (length labels)) labels).
  set (mem := members labels d).
  set (chosen := map (fun i => nth i mem 0) idxs).
  pose (c := fun p => existsb (Nat.eqb p) chosen).
  assert (Hc : forall p, c p = true <-> In p chosen).
  { intros p. unfold c. rewrite existsb_exists. split.
    - intros [x [Hx Hpx]]. apply Nat.eqb_eq in Hpx. subst; auto.
    - intros H. exists p. split; auto. apply Nat.eqb_refl. }
  assert (Hmemlen : length mem = size labels d) by apply members_length.
  assert (Hmemnd : NoDup mem) by apply members_NoDup.
  assert (Hchnd : NoDup chosen).
  { apply NoDup_map_nth; auto. rewrite Hmemlen; auto. }
  assert (Hchlen : length chosen = m).
  { unfold chosen. rewrite map_length. auto. }
  assert (Hchin : forall p, In p chosen -> In (p, d) ps).
  { intros p Hp. apply members_In. fold mem. unfold chosen in Hp.
    apply in_map_iff in Hp. destruct Hp as [i [Hi Hin]]. subst p.
    apply nth_In. rewrite Hmemlen. rewrite Forall_forall in Hlt. auto. }
  assert (HF : Forall (fun ip => c (fst ip) = true -> snd ip = d) ps).
  { apply Forall_forall. intros ip Hip Hcip. apply Hc in Hcip. apply Hchin in Hcip.
    assert (ip = (fst ip, d)).
    { apply (fst_inj ps); auto. unfold ps. rewrite ps_fst. apply seq_NoDup. }
    rewrite H. reflexivity. }
  assert (HL : length (filter c (map fst ps)) = m).
  { rewrite <- Hchlen. apply Permutation_length. apply NoDup_Permutation; auto.
    - apply NoDup_filter. unfold ps. rewrite ps_fst. apply seq_NoDup.
    - intros x. rewrite filter_In, Hc. split; [tauto|].
      intros Hx. split; auto. change x with (fst (x, d)). apply in_map. auto. }
  pose proof (relab_F2 c d e ps HF) as HF2.
  pose proof (relab_count c d e ps Hde HF) as HC.
  unfold ps in HF2 at 1. rewrite ps_snd in HF2.
  split; [exact HF2|].
  unfold size.
  assert (Hsnd : map snd ps = labels) by apply ps_snd.
  split; [|split].
  - specialize (HC d). rewrite Hsnd, HL in HC. unfold c in HC.
    destruct (Nat.eq_dec d d), (Nat.eq_dec e d); try congruence; lia.
  - specialize (HC e). rewrite Hsnd, HL in HC. unfold c in HC.
    destruct (Nat.eq_dec d e), (Nat.eq_dec e e); try congruence; lia.
  - intros k Hkd Hke. specialize (HC k). rewrite Hsnd in HC. unfold c in HC.
    destruct (Nat.eq_dec d k), (Nat.eq_dec e k); try congruence; lia.
Qed.

Lemma F2_move_Forall (P : nat -> Prop) (d e : nat) (l l' : list nat) :
  Forall2 (fun x y => y = x \/ (x = d /\ y = e)) l l' -> Forall P l -> P e -> Forall P l'.
Proof.
  intros H HP He. induction H as [|x y l l' Hxy HF IH]; constructor;
    inversion HP; subst; auto.
  destruct Hxy as [->|[_ ->]]; auto.
Qed.

(* ------------------------------------------------------------------ *)
(* the stable descending sort                                          *)
(* ------------------------------------------------------------------ *)

Lemma insert_desc_perm (spread : nat -> nat) (x : nat) (l : list nat) :
  Permutation (insert_desc spread x l) (x :: l).
Proof.
  induction l as [|y r IH]; cbn; auto.
  destruct (spread y <=? spread x); auto.
  rewrite IH. apply perm_swap.
Qed.

Lemma sort_desc_perm (spread : nat -> nat) (l : list nat) :
  Permutation (sort_desc spread l) l.
Proof.
  induction l as [|x l IH]; cbn; auto.
  rewrite insert_desc_perm. auto.
Qed.

Lemma insert_desc_sorted (spread : nat -> nat) (x : nat) (l : list nat) :
  StronglySorted (fun a b => spread b <= spread a) l ->
  StronglySorted (fun a b => spread b <= spread a) (insert_desc spread x l).
Proof.
  induction 1 as [|y r Hs IH Hy]; cbn.
  - constructor; constructor.
  - destruct (Nat.leb_spec (spread y) (spread x)) as [Hle|Hgt].
    + constructor; [constructor; auto|].
      constructor; auto. rewrite Forall_forall in *. intros z Hz.
      specialize (Hy z Hz). lia.
    + constructor; auto. rewrite Forall_forall in *. intros z Hz.
      apply (Permutation_in _ (insert_desc_perm spread x r)) in Hz.
      destruct Hz as [<-|Hz]; [lia|auto].
Qed.

Lemma sort_desc_sorted (spread : nat -> nat) (l : list nat) :
  StronglySorted (fun a b => spread b <= spread a) (sort_desc spread l).
Proof.
  induction l as [|x l IH]; cbn; [constructor|].
  apply insert_desc_sorted; auto.
Qed.

(* unfolding equations *)
Lemma refill_cons m lbl rem e ord dr :
  refill m lbl rem (e :: ord) dr =
  match find_donor (S (length rem)) m lbl rem with
  | None => None
  | Some (d, rem') => refill m (move lbl d e (hd [] dr)) rem' ord (tl dr)
  end.
Proof. reflexivity. Qed.

Lemma refill_simple_cons m lbl rem e ord dr :
  refill_simple m lbl rem (e :: ord) dr =
  match find_donor_simple m lbl rem with
  | None => None
  | Some (d, rem') => refill_simple m (move lbl d e (hd [] dr)) rem' ord (tl dr)
  end.
Proof. reflexivity. Qed.

Lemma draws_valid_cons m lbl rem e ord dr :
  draws_valid m lbl rem (e :: ord) dr =
  match find_donor (S (length rem)) m lbl rem with
  | None => True
  | Some (d, rem') =>
      draw_ok m (size lbl d) (hd [] dr) /\
      draws_valid m (move lbl d e (hd [] dr)) rem' ord (tl dr)
  end.
Proof. reflexivity. Qed.

Lemma refill_trace_cons m lbl rem e ord dr :
  refill_trace m lbl rem (e :: ord) dr =
  match find_donor (S (length rem)) m lbl rem with
  | None => []
  | Some (d, rem') =>
      (d, e, lbl, rem) :: refill_trace m (move lbl d e (hd [] dr)) rem' ord (tl dr)
  end.
Proof. reflexivity. Qed.

Lemma find_donor_hd n m lbl d rest :
  2 * m <= size lbl d ->
  find_donor (S n) m lbl (d :: rest) =
  Some (d, if size lbl d <? 3 * m then rest else d :: rest).
Proof.
  intros H. cbn [find_donor]. apply Nat.leb_le in H. rewrite H.
  destruct (size lbl d <? 3 * m); reflexivity.
Qed.

Lemma find_donor_simple_hd m lbl d rest :
  find_donor_simple m lbl (d :: rest) =
  Some (d, if size lbl d <? 3 * m then rest else d :: rest).
Proof. cbn [find_donor_simple]. destruct (size lbl d <? 3 * m); reflexivity. Qed.

Lemma repop_refill K m spread order draws labels :
  repopulate K m spread order draws labels =
  refill m labels (rank_donors K m spread labels) order draws.
Proof. destruct order; reflexivity. Qed.

Lemma div_sub_m (s m : nat) : 1 <= m -> m <= s -> s / m = (s - m) / m + 1.
Proof.
  intros Hm Hs. replace s with ((s - m) + 1 * m) at 1 by lia.
  apply Nat.div_add. lia.
Qed.

Lemma div_2 (s m : nat) : 1 <= m -> 2 * m <= s -> s < 3 * m -> s / m = 2.
Proof.
  intros Hm H2 H3.
  assert (2 <= s / m) by (apply Nat.div_le_lower_bound; lia).
  assert (s / m < 3) by (apply Nat.div_lt_upper_bound; lia).
  lia.
Qed.

Lemma div_ge (s m q : nat) : 1 <= m -> q * m <= s -> q <= s / m.
Proof. intros Hm H. apply Nat.div_le_lower_bound; lia. Qed.

(* ------------------------------------------------------------------ *)
(* the execution invariant                                              *)
(* ------------------------------------------------------------------ *)

Section Main.
Variables (K m : nat) (spread : nat -> nat) (labels order : list nat).
Hypothesis Hm : 1 <= m.
Hypothesis Hlt : Forall (fun c => c < K) labels.
Hypothesis Hnd : NoDup order.
Hypothesis Hord : forall k, In k order <-> In k (under K labels).

Local Notation donors0 := (rank_donors K m spread labels).

Lemma order_small k : In k order -> k < K /\ size labels k < 2.
Proof.
  intros H. apply Hord in H. unfold under in H. apply filter_In in H.
  destruct H as [H1 H2]. apply in_seq in H1. apply Nat.ltb_lt in H2. lia.
Qed.

Lemma donors_iff k : In k donors0 <-> k < K /\ 2 * m <= size labels k.
Proof.
  unfold rank_donors. split.
  - intros H. apply (Permutation_in _ (sort_desc_perm _ _)) in H.
    apply filter_In in H. destruct H as [H1 H2]. apply in_seq in H1.
    apply Nat.leb_le in H2. lia.
  - intros [H1 H2]. apply (Permutation_in _ (Permutation_sym (sort_desc_perm _ _))).
    apply filter_In. split; [apply in_seq; lia | apply Nat.leb_le; auto].
Qed.

Lemma order_not_donor k : In k order -> ~ In k donors0.
Proof.
  intros H1 H2. apply order_small in H1. apply donors_iff in H2. lia.
Qed.

Record Inv (lbl rem ord : list nat) : Prop := mkInv {
  i_pt : Forall2 (fun x y => y = x \/
                    (2 * m <= size labels x /\ size labels y < 2 /\ In y order)) labels lbl;
  i_lt : Forall (fun c => c < K) lbl;
  i_nd : NoDup rem;
  i_sorted : StronglySorted (fun a b => spread b <= spread a) rem;
  i_rem : forall k, In k rem -> In k donors0 /\ 2 * m <= size lbl k;
  i_out : forall k, In k donors0 -> ~ In k rem -> size lbl k < 2 * m;
  i_don : forall k, In k donors0 ->
            exists j, size labels k = size lbl k + j * m /\ (0 < j -> m <= size lbl k);
  i_ordnd : NoDup ord;
  i_ordin : incl ord order;
  i_todo : forall k, In k ord -> size lbl k = size labels k;
  i_done : forall k, In k order -> ~ In k ord -> size lbl k = size labels k + m;
  i_other : forall k, ~ In k donors0 -> ~ In k order -> size lbl k = size labels k
}.

Lemma inv_init : Inv labels donors0 order.
Proof.
  constructor.
  - apply F2_refl. auto.
  - exact Hlt.
  - unfold rank_donors.
    apply (Permutation_NoDup (Permutation_sym (sort_desc_perm _ _))).
    apply NoDup_filter. apply seq_NoDup.
  - unfold rank_donors. apply sort_desc_sorted.
  - intros k H. split; auto. apply donors_iff in H. tauto.
  - intros k H1 H2. contradiction.
  - intros k H. exists 0. split; [lia|]. intros; lia.
  - exact Hnd.
  - apply incl_refl.
  - auto.
  - intros k H1 H2. contradiction.
  - auto.
Qed.

Definition pot (lbl rem : list nat) : nat :=
  list_sum (map (fun k => size lbl k / m - 1) rem).

Lemma pot_init : pot labels donors0 = capacity K m labels.
Proof.
  unfold pot, capacity, rank_donors.
  rewrite (sum_filter (fun k => 2 * m <=? size labels k) (fun k => size labels k / m - 1)).
  apply list_sum_perm. apply Permutation_map. apply sort_desc_perm.
Qed.

Lemma inv_step lbl d rest e ord' dr :
  Inv lbl (d :: rest) (e :: ord') -> draw_ok m (size lbl d) dr ->
  Inv (move lbl d e dr) (if size lbl d <? 3 * m then rest else d :: rest) ord' /\
  pot (move lbl d e dr) (if size lbl d <? 3 * m then rest else d :: rest) + 1
  = pot lbl (d :: rest).
Proof.
  intros HI Hdr. destruct HI.
  destruct (i_rem0 d (in_eq _ _)) as [Hd1 Hd2].
  assert (He1 : In e order) by (apply i_ordin0; apply in_eq).
  destruct (order_small e He1) as [HeK He2].
  pose proof (order_not_donor e He1) as He3.
  assert (Hde : d <> e) by (intros ->; contradiction).
  destruct (move_spec m lbl d e dr Hde Hdr) as (F2 & Sd & Se & So).
  set (lbl' := move lbl d e dr) in *.
  inversion i_nd0 as [|? ? Hdnin Hrestnd]; subst.
  inversion i_ordnd0 as [|? ? Henin Hordnd']; subst.
  pose proof (StronglySorted_inv i_sorted0) as [Hsrest _].
  assert (Hrest : forall k, In k rest -> size lbl' k = size lbl k).
  { intros k Hk. apply So.
    - intros ->; contradiction.
    - intros ->. apply He3. apply (i_rem0 e). apply in_cons; auto. }
  apply donors_iff in Hd1 as Hd3.
  split.
  - constructor.
    + eapply F2_trans3; [|exact i_pt0|exact F2].
      cbn beta. intros x y z Hxy Hyz.
      destruct Hyz as [->|[-> ->]]; auto.
      destruct Hxy as [->|(H1 & H2 & H3)]; [|lia].
      right. tauto.
    + eapply F2_move_Forall; eauto.
    + destruct (size lbl d <? 3 * m); auto.
    + destruct (size lbl d <? 3 * m); auto.
    + intros k Hk. destruct (Nat.ltb_spec (size lbl d) (3 * m)) as [H3|H3].
      * destruct (i_rem0 k (in_cons _ _ _ Hk)) as [Hk1 Hk2]. split; auto.
        rewrite Hrest; auto.
      * destruct (i_rem0 k Hk) as [Hk1 Hk2]. split; auto.
        destruct Hk as [<-|Hk]; [lia|]. rewrite Hrest; auto.
    + intros k Hk1 Hk2. destruct (Nat.eq_dec k d) as [->|Hkd].
      * destruct (Nat.ltb_spec (size lbl d) (3 * m)) as [H3|H3]; [lia|].
        exfalso; apply Hk2; apply in_eq.
      * assert (Hk3 : ~ In k (d :: rest)).
        { intros [?|Hin]; [congruence|]. apply Hk2.
          destruct (size lbl d <? 3 * m); auto. apply in_cons; auto. }
        rewrite So; auto. intros ->; contradiction.
    + intros k Hk. destruct (i_don0 k Hk) as [j [Hj1 Hj2]].
      destruct (Nat.eq_dec k d) as [->|Hkd].
      * exists (S j). split; [|intros; lia].
        rewrite Hj1. cbn [Nat.mul]. lia.
      * exists j. rewrite So; auto. intros ->; contradiction.
    + auto.
    + intros k Hk. apply i_ordin0. apply in_cons; auto.
    + intros k Hk. rewrite <- (i_todo0 k (in_cons _ _ _ Hk)). apply So.
      * intros ->. apply (order_not_donor d); auto. apply i_ordin0. apply in_cons; auto.
      * intros ->. contradiction.
    + intros k Hk1 Hk2. destruct (Nat.eq_dec k e) as [->|Hke].
      * rewrite Se. rewrite (i_todo0 e (in_eq _ _)). reflexivity.
      * rewrite So; auto.
        -- apply i_done0; auto. intros [?|?]; [congruence|contradiction].
        -- intros ->. apply (order_not_donor d); auto.
    + intros k Hk1 Hk2. rewrite So; auto; intros ->; contradiction.
  - assert (Hpr : pot lbl' rest = pot lbl rest).
    { unfold pot. f_equal. apply map_ext_in. intros k Hk. rewrite Hrest; auto. }
    unfold pot in *. cbn [map list_sum fold_right] in *.
    destruct (Nat.ltb_spec (size lbl d) (3 * m)) as [H3|H3].
    + rewrite Hpr. rewrite (div_2 (size lbl d) m); auto. unfold list_sum. lia.
    + cbn [map]. unfold list_sum in *. cbn [fold_right]. rewrite Hpr.
      assert (H4 : size lbl' d = size lbl d - m) by lia. rewrite H4.
      pose proof (div_sub_m (size lbl d) m Hm ltac:(lia)) as H5.
      pose proof (div_ge (size lbl d - m) m 2 Hm ltac:(lia)) as H6.
      lia.
Qed.

Lemma refill_none ord : forall lbl rem dr,
  Inv lbl rem ord -> draws_valid m lbl rem ord dr ->
  (refill m lbl rem ord dr = None <-> pot lbl rem < length ord).
Proof.
  induction ord as [|e ord' IH]; intros lbl rem dr HI HD.
  - cbn. split; [discriminate|lia].
  - rewrite refill_cons. rewrite draws_valid_cons in HD.
    destruct rem as [|d rest].
    + cbn. split; auto. intros _. unfold pot; cbn; lia.
    + destruct (i_rem _ _ _ HI d (in_eq _ _)) as [Hd1 Hd2].
      rewrite (find_donor_hd _ _ _ _ _ Hd2) in HD.
      rewrite (find_donor_hd _ _ _ _ _ Hd2).
      destruct HD as [HD1 HD2].
      destruct (inv_step _ _ _ _ _ _ HI HD1) as [HI' Hpot].
      rewrite (IH _ _ _ HI' HD2). cbn [length]. lia.
Qed.

Lemma refill_some ord : forall lbl rem dr out,
  Inv lbl rem ord -> draws_valid m lbl rem ord dr ->
  refill m lbl rem ord dr = Some out -> exists rem', Inv out rem' [].
Proof.
  induction ord as [|e ord' IH]; intros lbl rem dr out HI HD HR.
  - cbn in HR. inversion HR; subst. exists rem; auto.
  - rewrite refill_cons in HR. rewrite draws_valid_cons in HD.
    destruct rem as [|d rest].
    + cbn in HR. discriminate.
    + destruct (i_rem _ _ _ HI d (in_eq _ _)) as [Hd1 Hd2].
      rewrite (find_donor_hd _ _ _ _ _ Hd2) in HD.
      rewrite (find_donor_hd _ _ _ _ _ Hd2) in HR.
      destruct HD as [HD1 HD2].
      destruct (inv_step _ _ _ _ _ _ HI HD1) as [HI' Hpot].
      apply (IH _ _ _ _ HI' HD2 HR).
Qed.

Lemma refill_eq_simple ord : forall lbl rem dr,
  Inv lbl rem ord -> draws_valid m lbl rem ord dr ->
  refill m lbl rem ord dr = refill_simple m lbl rem ord dr.
Proof.
  induction ord as [|e ord' IH]; intros lbl rem dr HI HD.
  - reflexivity.
  - rewrite refill_cons, refill_simple_cons. rewrite draws_valid_cons in HD.
    destruct rem as [|d rest].
    + reflexivity.
    + destruct (i_rem _ _ _ HI d (in_eq _ _)) as [Hd1 Hd2].
      rewrite (find_donor_hd _ _ _ _ _ Hd2) in HD.
      rewrite (find_donor_hd _ _ _ _ _ Hd2), find_donor_simple_hd.
      destruct HD as [HD1 HD2].
      destruct (inv_step _ _ _ _ _ _ HI HD1) as [HI' Hpot].
      apply (IH _ _ _ HI' HD2).
Qed.

Definition trace_prop (t : nat * nat * list nat * list nat) : Prop :=
  let '(d, e, lbl, rem) := t in
  (exists rest, rem = d :: rest /\ 2 * m <= size lbl d) /\
  In e order /\ size labels e < 2 /\
  forall k, k < K -> 2 * m <= size labels k -> 2 * m <= size lbl k -> spread k <= spread d.

Lemma trace_ok ord : forall lbl rem dr,
  Inv lbl rem ord -> draws_valid m lbl rem ord dr ->
  Forall trace_prop (refill_trace m lbl rem ord dr).
Proof.
  induction ord as [|e ord' IH]; intros lbl rem dr HI HD.
  - constructor.
  - rewrite refill_trace_cons. rewrite draws_valid_cons in HD.
    destruct rem as [|d rest].
    + cbn. constructor.
    + destruct (i_rem _ _ _ HI d (in_eq _ _)) as [Hd1 Hd2].
      rewrite (find_donor_hd _ _ _ _ _ Hd2) in HD.
      rewrite (find_donor_hd _ _ _ _ _ Hd2).
      destruct HD as [HD1 HD2].
      destruct (inv_step _ _ _ _ _ _ HI HD1) as [HI' Hpot].
      constructor; [|apply (IH _ _ _ HI' HD2)].
      unfold trace_prop.
      assert (He : In e order) by (apply (i_ordin _ _ _ HI); apply in_eq).
      split; [exists rest; auto|]. split; auto.
      split; [apply order_small; auto|].
      intros k Hk1 Hk2 Hk3.
      assert (Hkd : In k donors0) by (apply donors_iff; auto).
      destruct (in_dec Nat.eq_dec k (d :: rest)) as [Hin|Hnin].
      * destruct Hin as [->|Hin]; auto.
        pose proof (StronglySorted_inv (i_sorted _ _ _ HI)) as [_ HF].
        rewrite Forall_forall in HF. apply HF; auto.
      * pose proof (i_out _ _ _ HI k Hkd Hnin). lia.
Qed.

Lemma final_props out rem' :
  Inv out rem' [] ->
  length out = length labels /\ Forall (fun c => c < K) out /\
  (forall p, p < length labels -> nth p out 0 <> nth p labels 0 ->
      2 * m <= size labels (nth p labels 0) /\ size labels (nth p out 0) < 2 /\
      In (nth p out 0) order) /\
  (forall k, In k order -> size out k = size labels k + m) /\
  (forall k, k < K -> ~ In k order ->
      exists j, size labels k = size out k + j * m /\
                (0 < j -> 2 * m <= size labels k /\ m <= size out k)).
Proof.
  intros HI. split; [|split; [|split; [|split]]].
  - apply (F2_len _ _ _ (i_pt _ _ _ HI)).
  - apply (i_lt _ _ _ HI).
  - intros p Hp Hne.
    pose proof (F2_nth _ _ _ 0 (i_pt _ _ _ HI) p Hp) as H. cbn beta in H.
    destruct H as [H|H]; [congruence|exact H].
  - intros k Hk. apply (i_done _ _ _ HI); auto.
  - intros k Hk Hnin. destruct (le_lt_dec (2 * m) (size labels k)) as [H2|H2].
    + assert (Hkd : In k donors0) by (apply donors_iff; auto).
      destruct (i_don _ _ _ HI k Hkd) as [j [Hj1 Hj2]].
      exists j. split; auto.
    + exists 0. split; [|intros; lia].
      rewrite (i_other _ _ _ HI k); auto. intros Hkd. apply donors_iff in Hkd. lia.
Qed.

End Main.

(* ------------------------------------------------------------------ *)
(* the theorems                                                         *)
(* ------------------------------------------------------------------ *)

Definition Hyp (K m : nat) (spread : nat -> nat) (order : list nat) (draws : list (list nat))
           (labels : list nat) : Prop :=
  1 <= m /\ Forall (fun c => c < K) labels /\ NoDup order /\
  (forall k, In k order <-> In k (under K labels)) /\
  draws_valid m labels (rank_donors K m spread labels) order draws.

Theorem repop_empty_order K m spread draws labels :
  repopulate K m spread [] draws labels = Some labels.
Proof. reflexivity. Qed.

Theorem repop_error_iff K m spread order draws labels :
  Hyp K m spread order draws labels -> order <> [] ->
  (repopulate K m spread order draws labels = None <-> capacity K m labels < length order).
Proof.
  intros (Hm & Hlt & Hnd & Hord & HD) _.
  rewrite repop_refill.
  rewrite <- (pot_init K m spread labels).
  apply (refill_none K m spread labels order Hm Hord); auto.
  apply inv_init; auto.
Qed.

Theorem repop_ok K m spread order draws labels out :
  Hyp K m spread order draws labels -> repopulate K m spread order draws labels = Some out ->
  length out = length labels /\ Forall (fun c => c < K) out /\
  (forall p, p < length labels -> nth p out 0 <> nth p labels 0 ->
      2 * m <= size labels (nth p labels 0) /\ size labels (nth p out 0) < 2 /\ In (nth p out 0) order) /\
  (forall k, In k order -> size out k = size labels k + m) /\
  (forall k, k < K -> ~ In k order ->
      exists j, size labels k = size out k + j * m /\ (0 < j -> 2 * m <= size labels k /\ m <= size out k)).
Proof.
  intros (Hm & Hlt & Hnd & Hord & HD) HR.
  rewrite repop_refill in HR.
  destruct (refill_some K m spread labels order Hm Hord order labels _ draws out
              (inv_init K m spread labels order Hm Hlt Hnd) HD HR) as [rem' HI].
  apply (final_props K m spread labels order Hm out rem' HI).
Qed.

(* the removelast branch of find_donor is never taken *)
Theorem repop_dead_branch K m spread order draws labels :
  Hyp K m spread order draws labels ->
  refill m labels (rank_donors K m spread labels) order draws
  = refill_simple m labels (rank_donors K m spread labels) order draws /\
  Forall (fun t => let '(d, e, lbl, rem) := t in exists rest, rem = d :: rest /\ 2 * m <= size lbl d)
         (refill_trace m labels (rank_donors K m spread labels) order draws).
Proof.
  intros (Hm & Hlt & Hnd & Hord & HD).
  pose proof (inv_init K m spread labels order Hm Hlt Hnd) as HI.
  split.
  - apply (refill_eq_simple K m spread labels order Hm Hord order _ _ _ HI HD).
  - pose proof (trace_ok K m spread labels order Hm Hord order _ _ _ HI HD) as HT.
    eapply Forall_impl; [|exact HT].
    intros [[[d e] lbl] rem] H. unfold trace_prop in H. tauto.
Qed.

Theorem repop_donor_order K m spread order draws labels :
  Hyp K m spread order draws labels ->
  Forall (fun t => let '(d, e, lbl, rem) := t in
            2 * m <= size lbl d /\ In e order /\ size labels e < 2 /\
            forall k, k < K -> 2 * m <= size labels k -> 2 * m <= size lbl k -> spread k <= spread d)
         (refill_trace m labels (rank_donors K m spread labels) order draws).
Proof.
  intros (Hm & Hlt & Hnd & Hord & HD).
  pose proof (inv_init K m spread labels order Hm Hlt Hnd) as HI.
  pose proof (trace_ok K m spread labels order Hm Hord order _ _ _ HI HD) as HT.
  eapply Forall_impl; [|exact HT].
  intros [[[d e] lbl] rem] H. unfold trace_prop in H.
  destruct H as ([rest [_ H1]] & H2 & H3 & H4). auto.
Qed.

(* the guarantees compose over consecutive applications *)
Theorem repop_preserves_wf K m spread order draws labels out :
  Hyp K m spread order draws labels -> repopulate K m spread order draws labels = Some out ->
  length out = length labels /\ Forall (fun c => c < K) out.
Proof.
  intros H HR. destruct (repop_ok _ _ _ _ _ _ _ H HR) as (H1 & H2 & _). auto.
Qed.

Print Assumptions repop_error_iff.
Print Assumptions repop_ok.
Print Assumptions repop_dead_branch.
Print Assumptions repop_donor_order.
