(* Proofs about the effect-summary provenance analysis (Model/Effects.v, C19): a summary
   accepted by [safe] never changes the content of a caller-owned buffer, on normal and on
   exceptional exit; the check rejects in-place writes to parameters (directly or through a
   view), accepts writes to copies, and a rejected summary can really modify caller data. *)
From Coq Require Import List Arith Bool Lia.
Import ListNotations.
From Ticc Require Import Model.Effects.

(* fresh allocation at [next s] bound to x with abstract provenance PFresh keeps approx / wf *)
Lemma approx_alloc (a : aenv) (s : cstate) (x : var) (v : nat) :
  approx a s -> wf_c s ->
  approx (upd_aenv a x PFresh)
         (mk_c (upd_env (env s) x (next s)) (upd_owner (owner_caller s) (next s) false)
               (upd_content (content s) (next s) v) (S (next s))).
Proof.
  intros Hap Hwf y b Henv Hown. simpl in Henv, Hown.
  unfold upd_env in Henv. unfold upd_owner in Hown. unfold upd_aenv.
  destruct (Nat.eqb_spec y x) as [Hyx|Hyx].
  - injection Henv as Hb. subst b. rewrite Nat.eqb_refl in Hown. discriminate.
  - destruct (Nat.eqb_spec b (next s)) as [Hb|Hb].
    + discriminate.
    + apply (Hap y b Henv Hown).
Qed.

Lemma wf_alloc (s : cstate) (x : var) (v : nat) :
  wf_c s ->
  wf_c (mk_c (upd_env (env s) x (next s)) (upd_owner (owner_caller s) (next s) false)
             (upd_content (content s) (next s) v) (S (next s))).
Proof.
  intros Hwf y b Henv. simpl in *. unfold upd_env in Henv.
  destruct (Nat.eqb_spec y x) as [Hyx|Hyx].
  - injection Henv as Hb. lia.
  - specialize (Hwf y b Henv). lia.
Qed.

(* Generalised over a base bound n <= next s (n is [next] of the entry state). *)
Lemma safe_sound_gen (p : list effect) :
  forall (a : aenv) (s s' : cstate) (n : nat),
    safe a p = true -> approx a s -> wf_c s -> n <= next s -> exec s p = Some s' ->
    forall b, b < n -> owner_caller s b = true -> content s' b = content s b.
Proof.
  induction p as [|e p IH]; intros a s s' n Hsafe Hap Hwf Hn Hex b Hb Hown.
  - simpl in Hex. injection Hex as Hs. subst. reflexivity.
  - destruct e as [x | x y | x y | x v | ]; simpl in Hsafe, Hex.
    + (* EAlloc *)
      assert (Hbn : b <> next s) by lia.
      rewrite (IH _ _ _ n Hsafe (approx_alloc a s x 0 Hap Hwf) (wf_alloc s x 0 Hwf)
                  ltac:(simpl; lia) Hex b Hb).
      * simpl. unfold upd_content. destruct (Nat.eqb_spec b (next s)) as [He|He].
        -- contradiction.
        -- reflexivity.
      * simpl. unfold upd_owner. destruct (Nat.eqb_spec b (next s)) as [He|He].
        -- contradiction.
        -- exact Hown.
    + (* ECopy *)
      destruct (env s y) as [b0|] eqn:Hy; [|discriminate].
      assert (Hbn : b <> next s) by lia.
      rewrite (IH _ _ _ n Hsafe (approx_alloc a s x (content s b0) Hap Hwf)
                  (wf_alloc s x (content s b0) Hwf) ltac:(simpl; lia) Hex b Hb).
      * simpl. unfold upd_content. destruct (Nat.eqb_spec b (next s)) as [He|He].
        -- contradiction.
        -- reflexivity.
      * simpl. unfold upd_owner. destruct (Nat.eqb_spec b (next s)) as [He|He].
        -- contradiction.
        -- exact Hown.
    + (* EView *)
      destruct (env s y) as [b0|] eqn:Hy; [|discriminate].
      assert (Hap1 : approx (upd_aenv a x (a y))
                            (mk_c (upd_env (env s) x b0) (owner_caller s) (content s) (next s))).
      { intros z bz Henv Hownz. simpl in Henv, Hownz. unfold upd_env in Henv. unfold upd_aenv.
        destruct (Nat.eqb_spec z x) as [Hzx|Hzx].
        - injection Henv as Hbz. subst bz. apply (Hap y b0 Hy Hownz).
        - apply (Hap z bz Henv Hownz). }
      assert (Hwf1 : wf_c (mk_c (upd_env (env s) x b0) (owner_caller s) (content s) (next s))).
      { intros z bz Henv. simpl in *. unfold upd_env in Henv.
        destruct (Nat.eqb_spec z x) as [Hzx|Hzx].
        - injection Henv as Hbz. subst bz. apply (Hwf y b0 Hy).
        - apply (Hwf z bz Henv). }
      rewrite (IH _ _ _ n Hsafe Hap1 Hwf1 ltac:(simpl; lia) Hex b Hb).
      * reflexivity.
      * exact Hown.
    + (* EWrite *)
      destruct (a x) eqn:Hax; [discriminate|].
      destruct (env s x) as [b0|] eqn:Hx; [|discriminate].
      assert (Hb0 : owner_caller s b0 = false).
      { destruct (owner_caller s b0) eqn:Ho; [|reflexivity].
        specialize (Hap x b0 Hx Ho). rewrite Hax in Hap. discriminate. }
      assert (Hbb0 : b <> b0).
      { intro Heq. subst b0. rewrite Hown in Hb0. discriminate. }
      assert (Hap1 : approx a (mk_c (env s) (owner_caller s) (upd_content (content s) b0 v) (next s))).
      { intros z bz Henv Hownz. simpl in Henv, Hownz. apply (Hap z bz Henv Hownz). }
      assert (Hwf1 : wf_c (mk_c (env s) (owner_caller s) (upd_content (content s) b0 v) (next s))).
      { intros z bz Henv. simpl in *. apply (Hwf z bz Henv). }
      rewrite (IH _ _ _ n Hsafe Hap1 Hwf1 ltac:(simpl; lia) Hex b Hb).
      * simpl. unfold upd_content. destruct (Nat.eqb_spec b b0) as [He|He].
        -- contradiction.
        -- reflexivity.
      * exact Hown.
    + (* ERaise *)
      injection Hex as Hs. subst. reflexivity.
Qed.

Theorem safe_sound (p : list effect) (a : aenv) (s s' : cstate) :
  safe a p = true -> approx a s -> wf_c s -> exec s p = Some s' ->
  forall b, b < next s -> owner_caller s b = true -> content s' b = content s b.
Proof.
  intros Hsafe Hap Hwf Hex b Hb Hown.
  apply (safe_sound_gen p a s s' (next s) Hsafe Hap Hwf (le_n _) Hex b Hb Hown).
Qed.

Lemma approx_all_caller (s : cstate) : approx all_caller s.
Proof. intros x b _ _. reflexivity. Qed.

Corollary safe_sound_all_caller p s s' :
  safe all_caller p = true -> wf_c s -> exec s p = Some s' ->
  forall b, b < next s -> owner_caller s b = true -> content s' b = content s b.
Proof.
  intros Hsafe Hwf Hex. apply (safe_sound p all_caller s s' Hsafe (approx_all_caller s) Hwf Hex).
Qed.

Example safe_examples :
  safe all_caller [EWrite 0 5] = false /\ safe all_caller [EView 1 0; EWrite 1 5] = false /\
  safe all_caller [ECopy 1 0; EWrite 1 5] = true /\
  safe all_caller [EAlloc 2; EView 3 2; EWrite 3 1; ERaise; EWrite 0 1] = true.
Proof. repeat split; reflexivity. Qed.

Example unsafe_really_writes : exists s s', wf_c s /\ owner_caller s 0 = true /\ content s 0 = 7 /\
  exec s [EView 1 0; EWrite 1 5] = Some s' /\ content s' 0 = 5.
Proof.
  set (s := mk_c (fun x => if Nat.eqb x 0 then Some 0 else None) (fun _ => true) (fun _ => 7) 1).
  eexists s, _. split; [|split; [|split; [|split]]].
  - intros x b Henv. unfold s in *. simpl in *.
    destruct (Nat.eqb x 0); [|discriminate]. injection Henv as Hb. lia.
  - reflexivity.
  - reflexivity.
  - unfold s. simpl. reflexivity.
  - reflexivity.
Qed.

Print Assumptions safe_sound.
