(* LINK of the FOUR generated control skeletons of the optimise phase of graphical_lasso.py:
     optimize_markov_random_fields       (Gen/G_gl_optimize.v)   the scatter loop, then the gather
     _setup_optimization_task            (Gen/G_gl_setup.v)      one task handed to the worker pool
     _retrieve_optimization_results      (Gen/G_gl_retrieve.v)   the gather loop over zip(model.clusters, tasks)
     _update_cluster_covariances         (Gen/G_gl_update.v)     the three fitted fields of one cluster
   The callees "_setup_optimization_task", "_retrieve_optimization_results" and "_update_cluster_covariances" are answered by
   RUNNING the interpreted generated skeleton of that function, from the empty log, on the very arguments the caller passes
   (LINK 1, 2, 3).  The remaining callees are interpreted over abstract types: a covariance C, a matrix Mx, a log-determinant
   L, the ADMM solver  solve : C -> Mx,  _reconstruct_optimized_matrix  post,  np.linalg.inv  inv,  slogdet(.)[1]  logdet.

   The worker pool: apply_async(admm_optimize_theta, [cluster.empirical_covariance, ...]) answers the task handle
   VTask cov, and  handle.get()  answers the solver's result for THAT covariance - by the identity of the handle, whatever
   the history of calls (get_is_independent_of_history), i.e. whatever order the pool finishes its tasks in.

   Objects and mutation: VModel / VCluster are the objects the caller shares; shallow_copy() answers VFresh of the object,
   and every "setattr:<field>" is answered on a VFresh object only - on a shared object it raises
   "mutation of shared state" (shared_state_is_immutable).  So a run that returns has not written to the state it was
   given, and what it returns is a fresh object.

   END TO END (optimise_phase_end_to_end): for every list of clusters (any number, any fitted fields so far), the phase
   as translated returns a FRESH model whose cluster k is cluster k with
       train_inverse       := post (solve (cov k))
       computed_covariance := inv (post (solve (cov k)))
       log_determinant     := logdet (post (solve (cov k)))
   and the same covariance: every cluster, in order, gets the solver's answer to ITS OWN covariance; the arguments
   (num_clusters, window_size, sparsity_weight) are carried over unchanged.  No hypothesis.
   Closed under the global context. *)
From Coq Require Import String ZArith List Bool Lia Arith.
From Ticc Require Import Gen.PyRt Gen.PySkel Gen.G_gl_optimize Gen.G_gl_setup Gen.G_gl_retrieve Gen.G_gl_update.
Import ListNotations.
Local Open Scope string_scope.

(* ---------------------------------------------------------------- list facts *)

(* l[k] = x *)
Fixpoint replace_nth {A : Type} (k : nat) (x : A) (l : list A) : list A :=
  match l, k with
  | [], _ => []
  | _ :: r, 0 => x :: r
  | y :: r, S k' => y :: replace_nth k' x r
  end.

Lemma replace_nth_app {A : Type} (x y : A) (r : list A) : forall (p : list A) (k : nat),
  k = length p -> replace_nth k x (p ++ y :: r) = (p ++ x :: r)%list.
Proof.
  induction p as [|a p IH]; intros k Hk; subst k; cbn [length app replace_nth]; [reflexivity|].
  rewrite (IH (length p) eq_refl). reflexivity.
Qed.

(* [x] * k *)
Lemma concat_repeat_single {A : Type} (x : A) (k : nat) : concat (repeat [x] k) = repeat x k.
Proof. induction k as [|k IH]; [reflexivity|]. cbn [repeat concat app]. rewrite IH. reflexivity. Qed.

Section Interp.
  Variables (C Mx L : Type).
  Variable solve : C -> Mx.              (* admm.admm_optimize_theta(...).theta for an empirical covariance *)
  Variables post inv : Mx -> Mx.         (* _reconstruct_optimized_matrix, np.linalg.inv *)
  Variable logdet : Mx -> L.             (* np.linalg.slogdet(.)[1] *)

  (* a ClusterParameters: its empirical covariance and the three fields the phase fits *)
  Record cluster_data : Type :=
    Cluster { cov : C; mrf : option Mx; ccov : option Mx; ld : option L }.

  (* what _update_cluster_covariances makes of a cluster and a solver result theta *)
  Definition fit_with (c : cluster_data) (theta : Mx) : cluster_data :=
    Cluster (cov c) (Some (post theta)) (Some (inv (post theta))) (Some (logdet (post theta))).
  (* the cluster fitted with the solver's answer to its own covariance *)
  Definition fit (c : cluster_data) : cluster_data := fit_with c (solve (cov c)).

  (* ---------------------------------------------------------------- the concrete universe of values *)

  Inductive val : Type :=
  | VNone
  | VInt (z : Z)
  | VGlobal (name : string)                           (* a module-level function, by name *)
  | VMat (m : Mx)
  | VLd (l : L)
  | VPair (a b : val)
  | VCluster (c : cluster_data)                       (* a cluster object shared with the caller *)
  | VClusters (cs : list cluster_data)                (* model.clusters *)
  | VArgs (K W N : nat)                               (* model.arguments: num_clusters, window_size, sparsity_weight *)
  | VModel (cs : list cluster_data) (K W N : nat)     (* a ModelState shared with the caller *)
  | VFresh (o : val)                                  (* the object o, just copied: not shared, may be written to *)
  | VAdmmArgs (c : C)                                 (* [cluster.empirical_covariance, lambda, window, series] *)
  | VTask (c : C)                                     (* the AsyncResult of the ADMM task on covariance c *)
  | VTasks (ts : list (option C))                     (* the list optimization_tasks; None = empty slot *)
  | VResult (theta : Mx)                              (* what AsyncResult.get() returns *)
  | VAcc                                              (* the handle of updated_clusters; its contents are in the log *)
  | VZip (cs : list cluster_data) (ts : list (option C)).

  Definition as_int (v : val) : option Z := match v with VInt z => Some z | _ => None end.
  Definition is_none (v : val) : bool := match v with VNone => true | _ => false end.

  Fixpoint getattr (v : val) (a : string) {struct v} : val :=
    match v with
    | VModel cs K W N => if String.eqb a "clusters" then VClusters cs
                         else if String.eqb a "arguments" then VArgs K W N else VNone
    | VArgs K W N => if String.eqb a "num_clusters" then VInt (Z.of_nat K)
                     else if String.eqb a "window_size" then VInt (Z.of_nat W)
                     else if String.eqb a "sparsity_weight" then VInt (Z.of_nat N) else VNone
    | VPair x y => if String.eqb a "[0]" then x else if String.eqb a "[1]" then y else VNone
    | VResult t => if String.eqb a "theta" then VMat t else VNone
    | VFresh o => getattr o a
    | _ => VNone
    end.

  Definition task_val (t : option C) : val := match t with Some c => VTask c | None => VNone end.
  (* zip(model.clusters, optimization_tasks): pairs, as many as the shorter list *)
  Definition zip_items (cs : list cluster_data) (ts : list (option C)) : list val :=
    map (fun p => VPair (VCluster (fst p)) (task_val (snd p))) (combine cs ts).
  Definition as_list (v : val) : list val := match v with VZip cs ts => zip_items cs ts | _ => [] end.

  (* the contents of the accumulator: what was appended so far, in order, according to the log *)
  Definition append_arg (e : event val) : list val :=
    if String.eqb (ev_fn e) "method:append" then match ev_args e with [_; x] => [x] | _ => [] end else [].
  Definition appended_vals (log : list (event val)) : list val := flat_map append_arg log.
  Definition cluster_of (v : val) : list cluster_data :=
    match v with VFresh (VCluster c) => [c] | VCluster c => [c] | _ => [] end.
  Definition clusters_of (vs : list val) : list cluster_data := flat_map cluster_of vs.

  Definition l_admm_args := "expr:[cluster.empirical_covariance, density_penalty, window_size, num_data_series]".
  Definition l_admm_kwargs := "expr:{'rho': 1, 'rho_update': None, 'max_iterations': 1000, 'relative_tolerance': 1e-06, 'absolute_tolerance': 1e-06, 'verbose': False}".

  Definition unexpected : res val := Raise "unexpected".
  Definition shared : res val := Raise "mutation of shared state".

  (* obj.field = v: on a fresh object only *)
  Definition on_fresh (a : list val) (k : val -> val -> res val) : res val :=
    match a with [VFresh o; v] => k o v | [_; _] => shared | _ => unexpected end.

  Definition set_ccov (c : cluster_data) (m : Mx) : cluster_data := Cluster (cov c) (mrf c) (Some m) (ld c).
  Definition set_mrf (c : cluster_data) (m : Mx) : cluster_data := Cluster (cov c) (Some m) (ccov c) (ld c).
  Definition set_ld (c : cluster_data) (l : L) : cluster_data := Cluster (cov c) (mrf c) (ccov c) (Some l).

  (* LEVEL 0: the callees that are not functions of this phase.  Only "setattr:clusters" reads the log. *)
  Definition oracle_prim (log : list (event val)) (f : string) (a : list val) : res val :=
    (* optimize_markov_random_fields *)
    if String.eqb f "op:/" then
      match a with [_; _] => Ret (VInt 0) | _ => unexpected end
    else if String.eqb f "int" then
      match a with [_] => Ret (VInt 0) | _ => unexpected end
    else if String.eqb f "expr:[None]" then
      match a with [] => Ret (VTasks [None]) | _ => unexpected end
    else if String.eqb f "op:*" then
      match a with [VTasks ts; VInt k] => Ret (VTasks (concat (repeat ts (Z.to_nat k)))) | _ => unexpected end
    else if String.eqb f "getitem" then
      match a with
      | [VClusters cs; VInt k] =>
        if Z.ltb k 0 then unexpected
        else match nth_error cs (Z.to_nat k) with Some c => Ret (VCluster c) | None => Raise "IndexError" end
      | _ => unexpected
      end
    else if String.eqb f "setitem" then
      match a with
      | [VTasks ts; VInt k; VTask c] =>
        if Z.ltb k 0 then unexpected
        else if Nat.ltb (Z.to_nat k) (length ts) then Ret (VTasks (replace_nth (Z.to_nat k) (Some c) ts))
             else Raise "IndexError"
      | _ => unexpected
      end
    (* _setup_optimization_task *)
    else if String.eqb f l_admm_args then
      match a with [VCluster c; _; _; _] => Ret (VAdmmArgs (cov c)) | _ => unexpected end
    else if String.eqb f l_admm_kwargs then
      match a with [] => Ret VNone | _ => unexpected end
    else if String.eqb f "method:apply_async" then
      match a with
      | [_; VGlobal g; VAdmmArgs c; _] => if String.eqb g "admm.admm_optimize_theta" then Ret (VTask c) else unexpected
      | _ => unexpected
      end
    (* _retrieve_optimization_results *)
    else if String.eqb f "expr:[]" then
      match a with [] => Ret VAcc | _ => unexpected end
    else if String.eqb f "zip" then
      match a with [VClusters cs; VTasks ts] => Ret (VZip cs ts) | _ => unexpected end
    else if String.eqb f "method:get" then
      match a with [VTask c] => Ret (VResult (solve c)) | _ => unexpected end
    else if String.eqb f "method:append" then
      match a with [VAcc; _] => Ret VNone | _ => unexpected end
    else if String.eqb f "method:shallow_copy" then
      match a with
      | [VCluster c] => Ret (VFresh (VCluster c))
      | [VModel cs K W N] => Ret (VFresh (VModel cs K W N))
      | _ => unexpected
      end
    else if String.eqb f "setattr:clusters" then
      on_fresh a (fun o v => match o, v with
                             | VModel _ K W N, VAcc => Ret (VFresh (VModel (clusters_of (appended_vals log)) K W N))
                             | _, _ => unexpected
                             end)
    (* _update_cluster_covariances *)
    else if String.eqb f "_reconstruct_optimized_matrix" then
      match a with [_; VMat t] => Ret (VMat (post t)) | _ => unexpected end
    else if String.eqb f "np.linalg.inv" then
      match a with [VMat m] => Ret (VMat (inv m)) | _ => unexpected end
    else if String.eqb f "np.linalg.slogdet" then
      match a with [VMat m] => Ret (VPair VNone (VLd (logdet m))) | _ => unexpected end
    else if String.eqb f "setattr:computed_covariance" then
      on_fresh a (fun o v => match o, v with
                             | VCluster c, VMat m => Ret (VFresh (VCluster (set_ccov c m)))
                             | _, _ => unexpected
                             end)
    else if String.eqb f "setattr:train_inverse" then
      on_fresh a (fun o v => match o, v with
                             | VCluster c, VMat m => Ret (VFresh (VCluster (set_mrf c m)))
                             | _, _ => unexpected
                             end)
    else if String.eqb f "setattr:log_determinant" then
      on_fresh a (fun o v => match o, v with
                             | VCluster c, VLd l => Ret (VFresh (VCluster (set_ld c l)))
                             | _, _ => unexpected
                             end)
    else unexpected.

  (* LEVEL 1: + the two functions of the phase that call level 0 only, each answered by running its skeleton (LINK 1, 3) *)
  Definition oracle_mid (log : list (event val)) (f : string) (a : list val) : res val :=
    if String.eqb f "_setup_optimization_task" then
      match a with
      | [cluster; n; w; lam; pool] => fst (g_setup_optimization_task val VGlobal oracle_prim cluster n w lam pool [])
      | _ => unexpected
      end
    else if String.eqb f "_update_cluster_covariances" then
      match a with
      | [model; cluster; theta] => fst (g_update_cluster_covariances val getattr oracle_prim model cluster theta [])
      | _ => unexpected
      end
    else oracle_prim log f a.

  (* LEVEL 2: + the gather, answered by running its skeleton over level 1 (LINK 2) *)
  Definition oracle_opt (log : list (event val)) (f : string) (a : list val) : res val :=
    if String.eqb f "_retrieve_optimization_results" then
      match a with
      | [model; tasks] => fst (g_retrieve_optimization_results val getattr is_none as_list oracle_mid model tasks [])
      | _ => unexpected
      end
    else oracle_mid log f a.

  Local Notation O0 := oracle_prim.
  Local Notation O1 := oracle_mid.
  Local Notation O2 := oracle_opt.

  (* ---------------------------------------------------------------- the worker pool and the discipline of mutation *)

  (* the answer of a task handle is the solver's answer for the covariance the task was created with, whatever happened
     in between: in particular whichever other tasks were fetched before, and in whatever order the pool ran them *)
  Lemma get_is_independent_of_history (log1 log2 : list (event val)) (c : C) :
    O2 log1 "method:get" [VTask c] = Ret (VResult (solve c))
    /\ O2 log1 "method:get" [VTask c] = O2 log2 "method:get" [VTask c].
  Proof. split; reflexivity. Qed.

  (* the interpretation refuses every write to an object that is not a fresh copy *)
  Lemma shared_state_is_immutable (log : list (event val)) (c : cluster_data) (cs : list cluster_data) (K W N : nat) (v : val) :
    O2 log "setattr:computed_covariance" [VCluster c; v] = shared
    /\ O2 log "setattr:train_inverse" [VCluster c; v] = shared
    /\ O2 log "setattr:log_determinant" [VCluster c; v] = shared
    /\ O2 log "setattr:clusters" [VModel cs K W N; v] = shared.
  Proof. repeat split; reflexivity. Qed.

  (* ---------------------------------------------------------------- small facts *)

  Lemma appended_app (a b : list (event val)) : appended_vals (a ++ b) = (appended_vals a ++ appended_vals b)%list.
  Proof. unfold appended_vals. apply flat_map_app. Qed.

  Lemma appended_snoc_other (log : list (event val)) (f : string) (a : list val) :
    String.eqb f "method:append" = false -> appended_vals (log ++ [Ev f a]) = appended_vals log.
  Proof.
    intros Hf. rewrite appended_app. unfold appended_vals at 2. cbn [flat_map]. unfold append_arg. cbn [ev_fn].
    rewrite Hf. rewrite !app_nil_r. reflexivity.
  Qed.

  Lemma appended_snoc_append (log : list (event val)) (h x : val) :
    appended_vals (log ++ [Ev "method:append" [h; x]]) = (appended_vals log ++ [x])%list.
  Proof. rewrite appended_app. reflexivity. Qed.

  Lemma clusters_of_fresh (cs : list cluster_data) : clusters_of (map (fun c => VFresh (VCluster c)) cs) = cs.
  Proof.
    induction cs as [|c cs IH]; [reflexivity|].
    cbn [map]. unfold clusters_of in *. cbn [flat_map cluster_of app]. rewrite IH. reflexivity.
  Qed.

  Lemma zip_items_some (cs : list cluster_data) (tcs : list C) :
    zip_items cs (map Some tcs) = map (fun p => VPair (VCluster (fst p)) (VTask (snd p))) (combine cs tcs).
  Proof.
    unfold zip_items. revert tcs. induction cs as [|c cs IH]; intros tcs; [reflexivity|].
    destruct tcs as [|t tcs]; [reflexivity|]. cbn [map combine fst snd task_val]. rewrite IH. reflexivity.
  Qed.

  Lemma fit_own (cs : list cluster_data) :
    map (fun p => fit_with (fst p) (solve (snd p))) (combine cs (map cov cs)) = map fit cs.
  Proof. induction cs as [|c cs IH]; [reflexivity|]. cbn [map combine fst snd]. rewrite IH. reflexivity. Qed.

  Lemma getattr_clusters (cs : list cluster_data) (K W N : nat) : getattr (VModel cs K W N) "clusters" = VClusters cs.
  Proof. reflexivity. Qed.
  Lemma getattr_numc (cs : list cluster_data) (K W N : nat) :
    getattr (getattr (VModel cs K W N) "arguments") "num_clusters" = VInt (Z.of_nat K).
  Proof. reflexivity. Qed.
  Lemma getattr_pair0 (a b : val) : getattr (VPair a b) "[0]" = a.
  Proof. reflexivity. Qed.
  Lemma getattr_pair1 (a b : val) : getattr (VPair a b) "[1]" = b.
  Proof. reflexivity. Qed.
  Lemma getattr_theta (t : Mx) : getattr (VResult t) "theta" = VMat t.
  Proof. reflexivity. Qed.

  (* ---------------------------------------------------------------- the monad, one step at a time *)

  Section Steps.
    Variable O : list (event val) -> string -> list val -> res val.

    Lemma bind_call (B : Type) (f : string) (a : list val) (k : val -> M val B) (log : list (event val)) :
      mbind (call O f a) k log
      = match O log f a with
        | Ret v => k v (log ++ [Ev f a])%list
        | Raise e => (Raise e, (log ++ [Ev f a])%list)
        end.
    Proof. unfold mbind, call. destruct (O log f a) as [v|e]; reflexivity. Qed.

    Lemma fst_bind_call (B : Type) (f : string) (a : list val) (k : val -> M val B) (log : list (event val))
          (v : val) (R : res B) :
      O log f a = Ret v -> fst (k v (log ++ [Ev f a])%list) = R -> fst (mbind (call O f a) k log) = R.
    Proof. intros Ho Hk. rewrite bind_call, Ho. exact Hk. Qed.

    (* the last call, whose outcome (value or exception) is the outcome of the function *)
    Lemma fst_call_last (f : string) (a : list val) (log : list (event val)) :
      fst (mbind (call O f a) (fun t => mret t) log) = O log f a.
    Proof. unfold mbind, call, mret. destruct (O log f a) as [v|e]; reflexivity. Qed.
  End Steps.

  Lemma fst_bind_ret (A B : Type) (mm : M val A) (k : A -> M val B) (log log' : list (event val)) (a : A) (R : res B) :
    mm log = (Ret a, log') -> fst (k a log') = R -> fst (mbind mm k log) = R.
  Proof. intros Hm Hk. unfold mbind. rewrite Hm. exact Hk. Qed.

  Lemma for_each_cons (S : Type) (body : S -> val -> M val S) (x : val) (r : list val) (s : S) (log : list (event val)) :
    for_each body (x :: r) s log
    = match body s x log with
      | (Ret s', log') => for_each body r s' log'
      | (Raise e, log') => (Raise e, log')
      end.
  Proof. reflexivity. Qed.

  Lemma for_break_cons_continue (S : Type) (body : S -> Z -> M val (S * bool)) (x : Z) (r : list Z) (s s' : S)
        (log log' : list (event val)) :
    body s x log = (Ret (s', false), log') -> for_break body (x :: r) s log = for_break body r s' log'.
  Proof. intros Hb. cbn [for_break]. unfold mbind. rewrite Hb. reflexivity. Qed.

  (* ================================================================ LEVEL 0 skeletons, interpreted *)

  (* _update_cluster_covariances: the cluster given is copied, and the copy gets the three fields computed from theta *)
  Lemma update_run (model : val) (c : cluster_data) (theta : Mx) :
    fst (g_update_cluster_covariances val getattr O0 model (VCluster c) (VMat theta) [])
    = Ret (VFresh (VCluster (fit_with c theta))).
  Proof. reflexivity. Qed.

  (* _setup_optimization_task: the task handed to the pool is the ADMM solver on this cluster's covariance *)
  Lemma setup_run (c : cluster_data) (n w lam pool : val) :
    fst (g_setup_optimization_task val VGlobal O0 (VCluster c) n w lam pool []) = Ret (VTask (cov c)).
  Proof. reflexivity. Qed.

  (* ================================================================ LEVEL 1: the gather *)

  Lemma oracle_nil (log : list (event val)) : O1 log "expr:[]" [] = Ret VAcc.
  Proof. reflexivity. Qed.
  Lemma oracle_zip (log : list (event val)) (cs : list cluster_data) (ts : list (option C)) :
    O1 log "zip" [VClusters cs; VTasks ts] = Ret (VZip cs ts).
  Proof. reflexivity. Qed.
  Lemma oracle_get (log : list (event val)) (c : C) : O1 log "method:get" [VTask c] = Ret (VResult (solve c)).
  Proof. reflexivity. Qed.
  (* LINK 3 *)
  Lemma oracle_update_link (log : list (event val)) (model cluster theta : val) :
    O1 log "_update_cluster_covariances" [model; cluster; theta]
    = fst (g_update_cluster_covariances val getattr O0 model cluster theta []).
  Proof. reflexivity. Qed.
  Lemma oracle_append (log : list (event val)) (x : val) : O1 log "method:append" [VAcc; x] = Ret VNone.
  Proof. reflexivity. Qed.
  Lemma oracle_copy_model (log : list (event val)) (cs : list cluster_data) (K W N : nat) :
    O1 log "method:shallow_copy" [VModel cs K W N] = Ret (VFresh (VModel cs K W N)).
  Proof. reflexivity. Qed.
  Lemma oracle_set_clusters (log : list (event val)) (cs : list cluster_data) (K W N : nat) :
    O1 log "setattr:clusters" [VFresh (VModel cs K W N); VAcc]
    = Ret (VFresh (VModel (clusters_of (appended_vals log)) K W N)).
  Proof. reflexivity. Qed.

  (* the body of the gather loop, as generated (the two lets unfolded) *)
  Definition gather_body (model updated : val) : unit -> val -> M val unit := fun _ t3_ =>
    if negb (is_none (getattr t3_ "[1]")) then
      t4_ <<- call O1 "method:get" [getattr t3_ "[1]"] ;;
      t5_ <<- call O1 "_update_cluster_covariances" [model; getattr t3_ "[0]"; getattr t4_ "theta"] ;;
      t6_ <<- call O1 "method:append" [updated; t5_] ;;
      mret tt
    else mraise "AssertionError".

  (* one (cluster, task) pair: the cluster is fitted with the answer of THIS task and appended *)
  Lemma gather_body_run (model : val) (c : cluster_data) (t : C) (log : list (event val)) :
    exists log',
      gather_body model VAcc tt (VPair (VCluster c) (VTask t)) log = (Ret tt, log')
      /\ appended_vals log' = (appended_vals log ++ [VFresh (VCluster (fit_with c (solve t)))])%list.
  Proof.
    eexists. split.
    - unfold gather_body. rewrite getattr_pair1, getattr_pair0.
      change (negb (is_none (VTask t))) with true. cbv iota.
      rewrite bind_call, oracle_get. cbv beta iota. rewrite getattr_theta.
      rewrite bind_call, oracle_update_link, update_run. cbv beta iota.
      rewrite bind_call, oracle_append. cbv beta iota.
      reflexivity.
    - rewrite appended_snoc_append.
      rewrite appended_snoc_other by reflexivity.
      rewrite appended_snoc_other by reflexivity.
      reflexivity.
  Qed.

  Lemma gather_loop (model : val) : forall (pairs : list (cluster_data * C)) (log : list (event val)),
    exists log',
      for_each (gather_body model VAcc) (map (fun p => VPair (VCluster (fst p)) (VTask (snd p))) pairs) tt log
      = (Ret tt, log')
      /\ appended_vals log'
         = (appended_vals log ++ map (fun c => VFresh (VCluster c))
                                     (map (fun p => fit_with (fst p) (solve (snd p))) pairs))%list.
  Proof.
    induction pairs as [|[c t] pairs IH]; intros log.
    - exists log. split; [reflexivity|]. cbn [map]. rewrite app_nil_r. reflexivity.
    - cbn [map fst snd]. rewrite for_each_cons.
      destruct (gather_body_run model c t log) as (l1 & Hb & Ha). rewrite Hb.
      destruct (IH l1) as (l2 & Hr & Hc).
      exists l2. split; [exact Hr|].
      rewrite Hc, Ha, <- app_assoc. reflexivity.
  Qed.

  (* _retrieve_optimization_results, every slot of the task list filled: cluster k is fitted with the answer of task k,
     whatever covariance that task was created with; the model returned is a fresh copy *)
  Lemma retrieve_run_gen (cs : list cluster_data) (tcs : list C) (K W N : nat) :
    fst (g_retrieve_optimization_results val getattr is_none as_list O1 (VModel cs K W N) (VTasks (map Some tcs)) [])
    = Ret (VFresh (VModel (map (fun p => fit_with (fst p) (solve (snd p))) (combine cs tcs)) K W N)).
  Proof.
    unfold g_retrieve_optimization_results. cbv zeta. rewrite getattr_clusters.
    eapply fst_bind_call; [apply oracle_nil|]. cbv beta.
    eapply fst_bind_call; [apply oracle_zip|]. cbv beta.
    change (as_list (VZip cs (map Some tcs))) with (zip_items cs (map Some tcs)). rewrite zip_items_some.
    match goal with
    | |- fst (mbind _ _ ?L) = _ =>
      destruct (gather_loop (VModel cs K W N) (combine cs tcs) L) as (log' & Hrun & Happ);
      assert (HaN : appended_vals L = [])
    end.
    { repeat rewrite appended_snoc_other by reflexivity. reflexivity. }
    eapply fst_bind_ret; [exact Hrun|]. cbv beta.
    eapply fst_bind_call; [apply oracle_copy_model|]. cbv beta.
    rewrite fst_call_last, oracle_set_clusters.
    rewrite appended_snoc_other by reflexivity.
    rewrite Happ, HaN. cbn [app]. rewrite clusters_of_fresh. reflexivity.
  Qed.

  (* the task list the scatter loop builds: task k was created with cluster k's covariance *)
  Lemma retrieve_run (cs : list cluster_data) (K W N : nat) :
    fst (g_retrieve_optimization_results val getattr is_none as_list O1
           (VModel cs K W N) (VTasks (map (fun c => Some (cov c)) cs)) [])
    = Ret (VFresh (VModel (map fit cs) K W N)).
  Proof. rewrite <- (map_map cov Some), retrieve_run_gen, fit_own. reflexivity. Qed.

  (* ================================================================ LEVEL 2: the scatter loop, then the gather *)

  Lemma oracle_div (log : list (event val)) (x y : val) : O2 log "op:/" [x; y] = Ret (VInt 0).
  Proof. reflexivity. Qed.
  Lemma oracle_int (log : list (event val)) (x : val) : O2 log "int" [x] = Ret (VInt 0).
  Proof. reflexivity. Qed.
  Lemma oracle_none_list (log : list (event val)) : O2 log "expr:[None]" [] = Ret (VTasks [None]).
  Proof. reflexivity. Qed.
  Lemma oracle_mul (log : list (event val)) (x : option C) (k : nat) :
    O2 log "op:*" [VTasks [x]; VInt (Z.of_nat k)] = Ret (VTasks (repeat x k)).
  Proof.
    change (O2 log "op:*" [VTasks [x]; VInt (Z.of_nat k)])
      with (Ret (VTasks (concat (repeat [x] (Z.to_nat (Z.of_nat k)))))).
    rewrite Nat2Z.id, concat_repeat_single. reflexivity.
  Qed.
  Lemma oracle_getitem (log : list (event val)) (cs : list cluster_data) (k : nat) :
    O2 log "getitem" [VClusters cs; VInt (Z.of_nat k)]
    = match nth_error cs k with Some c => Ret (VCluster c) | None => Raise "IndexError" end.
  Proof.
    change (O2 log "getitem" [VClusters cs; VInt (Z.of_nat k)])
      with (if Z.ltb (Z.of_nat k) 0 then unexpected
            else match nth_error cs (Z.to_nat (Z.of_nat k)) with Some c => Ret (VCluster c) | None => Raise "IndexError" end).
    rewrite Nat2Z.id. replace (Z.ltb (Z.of_nat k) 0) with false by (symmetry; apply Z.ltb_ge; lia). reflexivity.
  Qed.
  Lemma oracle_setitem (log : list (event val)) (ts : list (option C)) (k : nat) (c : C) :
    k < length ts ->
    O2 log "setitem" [VTasks ts; VInt (Z.of_nat k); VTask c] = Ret (VTasks (replace_nth k (Some c) ts)).
  Proof.
    intros Hk.
    change (O2 log "setitem" [VTasks ts; VInt (Z.of_nat k); VTask c])
      with (if Z.ltb (Z.of_nat k) 0 then unexpected
            else if Nat.ltb (Z.to_nat (Z.of_nat k)) (length ts)
                 then Ret (VTasks (replace_nth (Z.to_nat (Z.of_nat k)) (Some c) ts))
                 else Raise "IndexError").
    rewrite Nat2Z.id. replace (Z.ltb (Z.of_nat k) 0) with false by (symmetry; apply Z.ltb_ge; lia).
    replace (Nat.ltb k (length ts)) with true by (symmetry; apply Nat.ltb_lt; exact Hk). reflexivity.
  Qed.
  (* LINK 1 *)
  Lemma oracle_setup_link (log : list (event val)) (cluster n w lam pool : val) :
    O2 log "_setup_optimization_task" [cluster; n; w; lam; pool]
    = fst (g_setup_optimization_task val VGlobal O0 cluster n w lam pool []).
  Proof. reflexivity. Qed.
  (* LINK 2 *)
  Lemma oracle_retrieve_link (log : list (event val)) (model tasks : val) :
    O2 log "_retrieve_optimization_results" [model; tasks]
    = fst (g_retrieve_optimization_results val getattr is_none as_list O1 model tasks []).
  Proof. reflexivity. Qed.

  (* the body of the scatter loop, as generated *)
  Definition scatter_body (model n pool : val) : val -> Z -> M val (val * bool) := fun optimization_tasks cluster_id =>
    t6_ <<- call O2 "getitem" [getattr model "clusters"; VInt cluster_id] ;;
    t7_ <<- call O2 "_setup_optimization_task"
              [t6_; n; getattr (getattr model "arguments") "window_size";
               getattr (getattr model "arguments") "sparsity_weight"; pool] ;;
    optimization_tasks <<- call O2 "setitem" [optimization_tasks; VInt cluster_id; t7_] ;;
    mret (optimization_tasks, false).

  Definition slot_of (c : cluster_data) : option C := Some (cov c).

  (* iteration k: slot k of the task list receives the task created with cluster k's covariance *)
  Lemma scatter_body_run (pre : list cluster_data) (c : cluster_data) (rest : list cluster_data) (K W N : nat)
        (n pool : val) (log : list (event val)) :
    exists log',
      scatter_body (VModel (pre ++ c :: rest) K W N) n pool
                   (VTasks (map slot_of pre ++ repeat None (S (length rest)))) (Z.of_nat (length pre)) log
      = (Ret (VTasks (map slot_of (pre ++ [c]) ++ repeat None (length rest)), false), log').
  Proof.
    eexists. unfold scatter_body. rewrite getattr_clusters.
    rewrite bind_call, oracle_getitem.
    rewrite nth_error_app2 by lia. rewrite Nat.sub_diag. cbn [nth_error]. cbv beta iota.
    rewrite bind_call, oracle_setup_link, setup_run. cbv beta iota.
    rewrite bind_call, oracle_setitem.
    2:{ rewrite app_length, map_length, repeat_length. lia. }
    cbv beta iota. cbn [repeat].
    rewrite replace_nth_app by (rewrite map_length; reflexivity).
    rewrite map_app, <- (app_assoc (map slot_of pre)). reflexivity.
  Qed.

  Lemma scatter_loop (K W N : nat) (n pool : val) :
    forall (rest pre : list cluster_data) (log : list (event val)),
    exists log',
      for_break (scatter_body (VModel (pre ++ rest) K W N) n pool)
                (map Z.of_nat (seq (length pre) (length rest)))
                (VTasks (map slot_of pre ++ repeat None (length rest))) log
      = (Ret (VTasks (map slot_of (pre ++ rest))), log').
  Proof.
    induction rest as [|c rest IH]; intros pre log.
    - exists log. cbn [length seq map repeat]. rewrite !app_nil_r. reflexivity.
    - cbn [length seq map].
      destruct (scatter_body_run pre c rest K W N n pool log) as (l1 & Hb).
      rewrite (for_break_cons_continue _ _ _ _ _ _ _ _ Hb).
      destruct (IH (pre ++ [c])%list l1) as (l2 & Hr).
      rewrite <- app_assoc in Hr. cbn [app] in Hr.
      rewrite app_length in Hr. cbn [length] in Hr. rewrite Nat.add_1_r in Hr.
      exists l2. exact Hr.
  Qed.

  (* optimize_markov_random_fields: the outcome of the whole phase *)
  Lemma optimise_run (cs : list cluster_data) (W N : nat) (data pool : val) :
    fst (g_optimize_markov_random_fields val VInt as_int getattr O2 (VModel cs (length cs) W N) data pool [])
    = Ret (VFresh (VModel (map fit cs) (length cs) W N)).
  Proof.
    unfold g_optimize_markov_random_fields. cbv zeta. rewrite !getattr_numc.
    eapply fst_bind_call; [apply oracle_div|]. cbv beta.
    eapply fst_bind_call; [apply oracle_int|]. cbv beta.
    eapply fst_bind_call; [apply oracle_none_list|]. cbv beta.
    eapply fst_bind_call; [apply oracle_mul|]. cbv beta.
    eapply fst_bind_ret; [reflexivity|]. cbv beta.
    unfold zrange. rewrite Nat2Z.id.
    match goal with
    | |- fst (mbind _ _ ?L) = _ =>
      destruct (scatter_loop (length cs) W N (VInt 0) pool cs [] L) as (log' & Hrun)
    end.
    cbn [app length map] in Hrun.
    eapply fst_bind_ret; [exact Hrun|]. cbv beta.
    rewrite fst_call_last, oracle_retrieve_link. apply retrieve_run.
  Qed.

  (* ================================================================ the theorems *)

  (* END TO END.  The model returned is a fresh object (VFresh: the answer of shallow_copy(), written to afterwards) whose
     clusters are the given ones, in order, each fitted with the solver's answer to its own covariance. *)
  Theorem optimise_phase_end_to_end : forall (cs : list cluster_data) (W N : nat) (data pool : val),
    exists log',
      g_optimize_markov_random_fields val VInt as_int getattr oracle_opt (VModel cs (length cs) W N) data pool []
      = (Ret (VFresh (VModel (map fit cs) (length cs) W N)), log').
  Proof.
    intros cs W N data pool. eexists. rewrite <- (optimise_run cs W N data pool). apply surjective_pairing.
  Qed.

  (* cluster k of the model returned: the solver's answer to cluster k's own covariance, which is unchanged *)
  Corollary optimise_phase_own_covariance : forall (cs : list cluster_data) (W N : nat) (data pool : val),
    exists (cs' : list cluster_data) (log' : list (event val)),
      g_optimize_markov_random_fields val VInt as_int getattr oracle_opt (VModel cs (length cs) W N) data pool []
      = (Ret (VFresh (VModel cs' (length cs) W N)), log')
      /\ length cs' = length cs
      /\ forall (k : nat) (c : cluster_data), nth_error cs k = Some c ->
           exists c', nth_error cs' k = Some c'
                      /\ cov c' = cov c
                      /\ mrf c' = Some (post (solve (cov c)))
                      /\ ccov c' = Some (inv (post (solve (cov c))))
                      /\ ld c' = Some (logdet (post (solve (cov c)))).
  Proof.
    intros cs W N data pool.
    destruct (optimise_phase_end_to_end cs W N data pool) as (log' & Hrun).
    exists (map fit cs), log'. split; [exact Hrun|]. split; [apply map_length|].
    intros k c Hk. exists (fit c). split; [apply map_nth_error; exact Hk|].
    repeat split; reflexivity.
  Qed.

  (* the same with positions: for every k < K and any default d *)
  Corollary optimise_phase_own_covariance_nth : forall (cs : list cluster_data) (W N : nat) (data pool : val) (d : cluster_data),
    exists (cs' : list cluster_data) (log' : list (event val)),
      g_optimize_markov_random_fields val VInt as_int getattr oracle_opt (VModel cs (length cs) W N) data pool []
      = (Ret (VFresh (VModel cs' (length cs) W N)), log')
      /\ forall k : nat, k < length cs ->
           cov (nth k cs' d) = cov (nth k cs d)
           /\ mrf (nth k cs' d) = Some (post (solve (cov (nth k cs d)))).
  Proof.
    intros cs W N data pool d.
    destruct (optimise_phase_end_to_end cs W N data pool) as (log' & Hrun).
    exists (map fit cs), log'. split; [exact Hrun|].
    intros k Hk. rewrite (nth_indep (map fit cs) d (fit d)) by (rewrite map_length; exact Hk).
    rewrite map_nth. split; reflexivity.
  Qed.

  (* the state given is not the one returned: the value returned is a fresh copy, the run has not raised, and every write
     to a shared object raises (shared_state_is_immutable) *)
  Corollary optimise_phase_returns_fresh_state : forall (cs : list cluster_data) (W N : nat) (data pool : val),
    exists (r : val) (log' : list (event val)),
      g_optimize_markov_random_fields val VInt as_int getattr oracle_opt (VModel cs (length cs) W N) data pool []
      = (Ret (VFresh r), log')
      /\ VFresh r <> VModel cs (length cs) W N
      /\ getattr (VFresh r) "arguments" = getattr (VModel cs (length cs) W N) "arguments".
  Proof.
    intros cs W N data pool.
    destruct (optimise_phase_end_to_end cs W N data pool) as (log' & Hrun).
    eexists. exists log'. split; [exact Hrun|]. split; [discriminate|reflexivity].
  Qed.
End Interp.

(* ================================================================ non-vacuity *)

Section Example.
  Let solve0 (c : nat) : nat := c + 100.
  Let post0 (m : nat) : nat := m * 2.
  Let cl (c : nat) : cluster_data nat nat nat := Cluster nat nat nat c None None None.
  Let run (cs : list (cluster_data nat nat nat)) :=
    g_optimize_markov_random_fields (val nat nat nat) (VInt nat nat nat) (as_int nat nat nat) (getattr nat nat nat)
      (oracle_opt nat nat nat solve0 post0 S pred)
      (VModel nat nat nat cs (length cs) 5 11) (VNone nat nat nat) (VNone nat nat nat) [].

  (* three clusters with covariances 3, 5, 8:  theta = (c + 100) * 2,  covariance = S theta,  log det = pred theta *)
  Example optimise_phase_example :
    fst (run [cl 3; cl 5; cl 8])
    = Ret (VFresh nat nat nat
             (VModel nat nat nat
                [Cluster nat nat nat 3 (Some 206) (Some 207) (Some 205);
                 Cluster nat nat nat 5 (Some 210) (Some 211) (Some 209);
                 Cluster nat nat nat 8 (Some 216) (Some 217) (Some 215)] 3 5 11))
    /\ map (@ev_fn _) (snd (run [cl 3; cl 5; cl 8]))
       = ["op:/"; "int"; "expr:[None]"; "op:*";
          "getitem"; "_setup_optimization_task"; "setitem";
          "getitem"; "_setup_optimization_task"; "setitem";
          "getitem"; "_setup_optimization_task"; "setitem";
          "_retrieve_optimization_results"].
  Proof. vm_compute. split; reflexivity. Qed.

  (* a task list with an empty slot: the gather's assertion fails *)
  Example retrieve_example_empty_slot :
    fst (g_retrieve_optimization_results (val nat nat nat) (getattr nat nat nat) (is_none nat nat nat) (as_list nat nat nat)
           (oracle_mid nat nat nat solve0 post0 S pred)
           (VModel nat nat nat [cl 3; cl 5] 2 5 11) (VTasks nat nat nat [Some 3; None]) [])
    = Raise "AssertionError".
  Proof. vm_compute. reflexivity. Qed.

  (* tasks created with the covariances in the other order: cluster k gets what task k was created with (so the result
     above is due to the scatter loop putting the task of cluster k in slot k) *)
  Example retrieve_example_swapped :
    fst (g_retrieve_optimization_results (val nat nat nat) (getattr nat nat nat) (is_none nat nat nat) (as_list nat nat nat)
           (oracle_mid nat nat nat solve0 post0 S pred)
           (VModel nat nat nat [cl 3; cl 5] 2 5 11) (VTasks nat nat nat [Some 5; Some 3]) [])
    = Ret (VFresh nat nat nat
             (VModel nat nat nat
                [Cluster nat nat nat 3 (Some 210) (Some 211) (Some 209);
                 Cluster nat nat nat 5 (Some 206) (Some 207) (Some 205)] 2 5 11)).
  Proof. vm_compute. reflexivity. Qed.

  (* a write to the caller's cluster raises *)
  Example mutation_example :
    oracle_opt nat nat nat solve0 post0 S pred [] "setattr:train_inverse" [VCluster nat nat nat (cl 3); VMat nat nat nat 7]
    = Raise "mutation of shared state".
  Proof. vm_compute. reflexivity. Qed.
End Example.

Print Assumptions optimise_phase_end_to_end.
Print Assumptions optimise_phase_own_covariance.
Print Assumptions optimise_phase_own_covariance_nth.
Print Assumptions optimise_phase_returns_fresh_state.
