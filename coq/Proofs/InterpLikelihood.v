(* The generated control skeletons of the two LIKELIHOOD WRAPPERS of likelihood.py
     all_points_all_clusters_log_likelihood (model, stacked_training_data)        (Gen/G_ll_table.v)
     point_log_likelihood (point, cluster, window_size, num_data_series)          (Gen/G_ll_point.v)
   with their uninterpreted callees INTERPRETED over a concrete universe of values.  The matrices Mx, vectors Vec, numbers
   Num, the data Dt and the table Tab are abstract, and so are  logdet  (np.linalg.slogdet(.)[1]), the table kernel
   table_fast  (all_points_all_clusters_log_likelihood_fast) and the point kernel  point_fast  (point_log_likelihood_fast).

   Objects and mutation: a model is the VALUE  VModel cs W  (its clusters, its window size; num_clusters reads as the number
   of clusters).  The two path stores of the refresh loop
       model.clusters[cluster].inverse_covariance = v         model.clusters[cluster].log_determinant = v
   are answered with the model whose cluster k has that ONE field replaced; the skeleton threads the answer through the
   loop (Gen/PySkel.v), so the model the three comprehensions read is the one the stores produced.  The comprehensions
   over  x.inverse_covariance / x.log_determinant  raise "missing field" when some cluster does not have the field.

   1. table_wrapper_end_to_end: for EVERY list of clusters (any number, any scoring cache - stale, or none at all), window
      size and data, the wrapper as translated returns
          table_fast W K [mean c | c] [train_inverse c | c] [logdet (train_inverse c) | c] data
      i.e. the kernel on the stored means, the FITTED Markov random fields and the log-determinants OF THOSE matrices, for
      the clusters in order.  What inverse_covariance / log_determinant held before plays no part.  No hypothesis.
   2. table_wrapper_stores: the complete log of the run; the calls that write ("store:", "setattr:", "setitem") are the two
      stores per cluster, in order, with the values  train_inverse c  and  logdet (train_inverse c);  the model they leave -
      the answer of the last of them, which is the model the kernel's arguments are read from - is the given model with
      every cluster refreshed:  inverse_covariance := train_inverse,  log_determinant := logdet train_inverse;  mean and
      train_inverse of every cluster are unchanged.
   3. point_wrapper_end_to_end: the point wrapper passes the cluster's OWN stored mean, inverse_covariance and
      log_determinant to the point kernel, with the two sizes given, and returns its answer; one call.
   Closed under the global context. *)
From Coq Require Import String ZArith List Bool Lia Arith.
From Ticc Require Import Gen.PyRt Gen.PySkel Gen.G_ll_table Gen.G_ll_point.
Import ListNotations.
Local Open Scope string_scope.

(* ---------------------------------------------------------------- list facts *)

(* l[k] = f (l[k]) *)
Fixpoint update_nth {X : Type} (k : nat) (f : X -> X) (l : list X) : list X :=
  match l, k with
  | [], _ => []
  | y :: r, 0 => f y :: r
  | y :: r, S k' => y :: update_nth k' f r
  end.

Lemma update_nth_app {X : Type} (f : X -> X) (y : X) (r : list X) : forall (p : list X) (k : nat),
  k = length p -> update_nth k f (p ++ y :: r) = (p ++ f y :: r)%list.
Proof.
  induction p as [|a p IH]; intros k Hk; subst k; cbn [length app update_nth]; [reflexivity|].
  rewrite (IH (length p) eq_refl). reflexivity.
Qed.

Lemma update_nth_length {X : Type} (f : X -> X) : forall (l : list X) (k : nat), length (update_nth k f l) = length l.
Proof.
  induction l as [|y l IH]; intros k; [destruct k; reflexivity|].
  destruct k as [|k]; cbn [update_nth length]; [reflexivity|]. rewrite IH. reflexivity.
Qed.

(* [x for ...] when every x is there *)
Fixpoint all_some {X : Type} (l : list (option X)) : option (list X) :=
  match l with
  | [] => Some []
  | Some x :: r => match all_some r with Some xs => Some (x :: xs) | None => None end
  | None :: _ => None
  end.

(* (k, l[k]) for every k, from position k0 *)
Fixpoint indexed_from {X : Type} (k0 : nat) (l : list X) : list (nat * X) :=
  match l with
  | [] => []
  | x :: r => (k0, x) :: indexed_from (S k0) r
  end.

Section Interp.
  Variables (Mx Vec Num Dt Tab : Type).
  Variable logdet : Mx -> Num.                                                   (* np.linalg.slogdet(.)[1] *)
  (* all_points_all_clusters_log_likelihood_fast(window_size, num_clusters, mus, thetas, log_det_thetas, data) *)
  Variable table_fast : nat -> nat -> list Vec -> list Mx -> list Num -> Dt -> Tab.
  (* point_log_likelihood_fast(point, mu_i, theta_i, log_det_theta, window_size, num_data_series) *)
  Variable point_fast : Vec -> Vec -> Mx -> Num -> nat -> nat -> Num.

  (* a cluster object of the model: the mean, the fitted MRF, and the scoring cache (which may be absent or stale) *)
  Record Cluster : Type := mkCluster {
    mean : Vec;                          (* stacked_data_mean *)
    train_inverse : Mx;                  (* the fitted Markov random field *)
    inverse_covariance : option Mx;      (* the scoring cache *)
    log_determinant : option Num }.

  Definition set_ic (c : Cluster) (m : Mx) : Cluster :=
    mkCluster (mean c) (train_inverse c) (Some m) (log_determinant c).
  Definition set_ld (c : Cluster) (l : Num) : Cluster :=
    mkCluster (mean c) (train_inverse c) (inverse_covariance c) (Some l).
  (* what the refresh loop makes of a cluster *)
  Definition refresh (c : Cluster) : Cluster :=
    mkCluster (mean c) (train_inverse c) (Some (train_inverse c)) (Some (logdet (train_inverse c))).

  Lemma refresh_is_two_stores (c : Cluster) :
    set_ld (set_ic c (train_inverse c)) (logdet (train_inverse c)) = refresh c.
  Proof. reflexivity. Qed.

  (* ---------------------------------------------------------------- the concrete universe of values *)

  Inductive val : Type :=
  | VNone
  | VInt (z : Z)
  | VMx (m : Mx)
  | VVec (v : Vec)
  | VNum (n : Num)
  | VPair (a b : val)
  | VCl (c : Cluster)                                  (* model.clusters[k] *)
  | VClusters (cs : list Cluster)                      (* model.clusters *)
  | VArgs (K W : nat)                                  (* model.arguments: num_clusters, window_size *)
  | VModel (cs : list Cluster) (W : nat)               (* a ModelState *)
  | VVecs (l : list Vec)                               (* np.asarray of vectors *)
  | VMxs (l : list Mx)                                 (* np.asarray of matrices *)
  | VNums (l : list Num)                               (* np.asarray of numbers *)
  | VData (d : Dt)                                     (* the stacked training data *)
  | VTab (t : Tab).                                    (* the table of log-likelihoods *)

  Definition as_int (v : val) : option Z := match v with VInt z => Some z | _ => None end.
  Definition opt_mx (o : option Mx) : val := match o with Some m => VMx m | None => VNone end.
  Definition opt_num (o : option Num) : val := match o with Some n => VNum n | None => VNone end.

  Definition getattr (v : val) (a : string) : val :=
    match v with
    | VModel cs W => if String.eqb a "clusters" then VClusters cs
                     else if String.eqb a "arguments" then VArgs (length cs) W else VNone
    | VArgs K W => if String.eqb a "num_clusters" then VInt (Z.of_nat K)
                   else if String.eqb a "window_size" then VInt (Z.of_nat W) else VNone
    | VCl c => if String.eqb a "stacked_data_mean" then VVec (mean c)
               else if String.eqb a "train_inverse" then VMx (train_inverse c)
               else if String.eqb a "inverse_covariance" then opt_mx (inverse_covariance c)
               else if String.eqb a "log_determinant" then opt_num (log_determinant c) else VNone
    | VPair x y => if String.eqb a "[0]" then x else if String.eqb a "[1]" then y else VNone
    | _ => VNone
    end.

  Definition l_store_ic := "store:model.clusters[cluster].inverse_covariance".
  Definition l_store_ld := "store:model.clusters[cluster].log_determinant".
  Definition l_mus := "expr:np.asarray([x.stacked_data_mean for x in model.clusters])".
  Definition l_thetas := "expr:np.asarray([x.inverse_covariance for x in model.clusters])".
  Definition l_logdets := "expr:np.asarray([x.log_determinant for x in model.clusters])".
  Definition l_table_fast := "all_points_all_clusters_log_likelihood_fast".
  Definition l_point_fast := "point_log_likelihood_fast".

  Definition unexpected : res val := Raise "unexpected".
  Definition missing : res val := Raise "missing field".

  (* model.clusters[k].<field> = v : the model with that one field of cluster k replaced *)
  Definition store_at (cs : list Cluster) (W : nat) (k : Z) (f : Cluster -> Cluster) : res val :=
    if Z.ltb k 0 then unexpected
    else if Nat.ltb (Z.to_nat k) (length cs) then Ret (VModel (update_nth (Z.to_nat k) f cs) W)
         else Raise "IndexError".

  (* the callees, interpreted.  No answer depends on the log. *)
  Definition oracle_model (log : list (event val)) (f : string) (a : list val) : res val :=
    if String.eqb f "getitem" then
      match a with
      | [VClusters cs; VInt k] =>
        if Z.ltb k 0 then unexpected
        else match nth_error cs (Z.to_nat k) with Some c => Ret (VCl c) | None => Raise "IndexError" end
      | _ => unexpected
      end
    else if String.eqb f l_store_ic then
      match a with [VModel cs W; VInt k; VMx m] => store_at cs W k (fun c => set_ic c m) | _ => unexpected end
    else if String.eqb f l_store_ld then
      match a with [VModel cs W; VInt k; VNum l] => store_at cs W k (fun c => set_ld c l) | _ => unexpected end
    else if String.eqb f "np.linalg.slogdet" then
      match a with [VMx m] => Ret (VPair VNone (VNum (logdet m))) | _ => unexpected end
    else if String.eqb f l_mus then
      match a with [VModel cs _] => Ret (VVecs (map mean cs)) | _ => unexpected end
    else if String.eqb f l_thetas then
      match a with
      | [VModel cs _] => match all_some (map inverse_covariance cs) with Some l => Ret (VMxs l) | None => missing end
      | _ => unexpected
      end
    else if String.eqb f l_logdets then
      match a with
      | [VModel cs _] => match all_some (map log_determinant cs) with Some l => Ret (VNums l) | None => missing end
      | _ => unexpected
      end
    else if String.eqb f l_table_fast then
      match a with
      | [VInt w; VInt k; VVecs mus; VMxs thetas; VNums lds; VData d] =>
        if Z.ltb w 0 || Z.ltb k 0 then unexpected
        else Ret (VTab (table_fast (Z.to_nat w) (Z.to_nat k) mus thetas lds d))
      | _ => unexpected
      end
    else if String.eqb f l_point_fast then
      match a with
      | [VVec p; VVec mu; VMx theta; VNum l; VInt w; VInt n] =>
        if Z.ltb w 0 || Z.ltb n 0 then unexpected
        else Ret (VNum (point_fast p mu theta l (Z.to_nat w) (Z.to_nat n)))
      | _ => unexpected
      end
    else unexpected.

  Local Notation O := oracle_model.

  Lemma oracle_ignores_history (log1 log2 : list (event val)) (f : string) (a : list val) : O log1 f a = O log2 f a.
  Proof. reflexivity. Qed.

  (* ---------------------------------------------------------------- the pure reads *)

  Lemma getattr_clusters (cs : list Cluster) (W : nat) : getattr (VModel cs W) "clusters" = VClusters cs.
  Proof. reflexivity. Qed.
  Lemma getattr_numc (cs : list Cluster) (W : nat) :
    getattr (getattr (VModel cs W) "arguments") "num_clusters" = VInt (Z.of_nat (length cs)).
  Proof. reflexivity. Qed.
  Lemma getattr_window (cs : list Cluster) (W : nat) :
    getattr (getattr (VModel cs W) "arguments") "window_size" = VInt (Z.of_nat W).
  Proof. reflexivity. Qed.
  Lemma getattr_train_inverse (c : Cluster) : getattr (VCl c) "train_inverse" = VMx (train_inverse c).
  Proof. reflexivity. Qed.
  Lemma getattr_mean (c : Cluster) : getattr (VCl c) "stacked_data_mean" = VVec (mean c).
  Proof. reflexivity. Qed.
  Lemma getattr_ic (c : Cluster) : getattr (VCl c) "inverse_covariance" = opt_mx (inverse_covariance c).
  Proof. reflexivity. Qed.
  Lemma getattr_ld (c : Cluster) : getattr (VCl c) "log_determinant" = opt_num (log_determinant c).
  Proof. reflexivity. Qed.
  Lemma getattr_pair1 (a b : val) : getattr (VPair a b) "[1]" = b.
  Proof. reflexivity. Qed.

  (* ---------------------------------------------------------------- the oracle, one callee at a time *)

  Lemma oracle_getitem (log : list (event val)) (cs : list Cluster) (k : nat) :
    O log "getitem" [VClusters cs; VInt (Z.of_nat k)]
    = match nth_error cs k with Some c => Ret (VCl c) | None => Raise "IndexError" end.
  Proof.
    change (O log "getitem" [VClusters cs; VInt (Z.of_nat k)])
      with (if Z.ltb (Z.of_nat k) 0 then unexpected
            else match nth_error cs (Z.to_nat (Z.of_nat k)) with Some c => Ret (VCl c) | None => Raise "IndexError" end).
    rewrite Nat2Z.id. replace (Z.ltb (Z.of_nat k) 0) with false by (symmetry; apply Z.ltb_ge; lia). reflexivity.
  Qed.

  Lemma store_at_in_range (cs : list Cluster) (W k : nat) (f : Cluster -> Cluster) :
    k < length cs -> store_at cs W (Z.of_nat k) f = Ret (VModel (update_nth k f cs) W).
  Proof.
    intros Hk. unfold store_at. rewrite Nat2Z.id.
    replace (Z.ltb (Z.of_nat k) 0) with false by (symmetry; apply Z.ltb_ge; lia).
    replace (Nat.ltb k (length cs)) with true by (symmetry; apply Nat.ltb_lt; exact Hk). reflexivity.
  Qed.

  Lemma oracle_store_ic (log : list (event val)) (cs : list Cluster) (W k : nat) (m : Mx) :
    k < length cs ->
    O log l_store_ic [VModel cs W; VInt (Z.of_nat k); VMx m] = Ret (VModel (update_nth k (fun c => set_ic c m) cs) W).
  Proof.
    intros Hk.
    change (O log l_store_ic [VModel cs W; VInt (Z.of_nat k); VMx m]) with (store_at cs W (Z.of_nat k) (fun c => set_ic c m)).
    apply store_at_in_range. exact Hk.
  Qed.

  Lemma oracle_store_ld (log : list (event val)) (cs : list Cluster) (W k : nat) (l : Num) :
    k < length cs ->
    O log l_store_ld [VModel cs W; VInt (Z.of_nat k); VNum l] = Ret (VModel (update_nth k (fun c => set_ld c l) cs) W).
  Proof.
    intros Hk.
    change (O log l_store_ld [VModel cs W; VInt (Z.of_nat k); VNum l]) with (store_at cs W (Z.of_nat k) (fun c => set_ld c l)).
    apply store_at_in_range. exact Hk.
  Qed.

  Lemma oracle_slogdet (log : list (event val)) (m : Mx) :
    O log "np.linalg.slogdet" [VMx m] = Ret (VPair VNone (VNum (logdet m))).
  Proof. reflexivity. Qed.

  Lemma oracle_mus (log : list (event val)) (cs : list Cluster) (W : nat) :
    O log l_mus [VModel cs W] = Ret (VVecs (map mean cs)).
  Proof. reflexivity. Qed.

  Lemma oracle_thetas (log : list (event val)) (cs : list Cluster) (W : nat) :
    O log l_thetas [VModel cs W]
    = match all_some (map inverse_covariance cs) with Some l => Ret (VMxs l) | None => missing end.
  Proof. reflexivity. Qed.

  Lemma oracle_logdets (log : list (event val)) (cs : list Cluster) (W : nat) :
    O log l_logdets [VModel cs W]
    = match all_some (map log_determinant cs) with Some l => Ret (VNums l) | None => missing end.
  Proof. reflexivity. Qed.

  Lemma oracle_table_fast (log : list (event val)) (W K : nat) (mus : list Vec) (thetas : list Mx) (lds : list Num) (d : Dt) :
    O log l_table_fast [VInt (Z.of_nat W); VInt (Z.of_nat K); VVecs mus; VMxs thetas; VNums lds; VData d]
    = Ret (VTab (table_fast W K mus thetas lds d)).
  Proof.
    change (O log l_table_fast [VInt (Z.of_nat W); VInt (Z.of_nat K); VVecs mus; VMxs thetas; VNums lds; VData d])
      with (if Z.ltb (Z.of_nat W) 0 || Z.ltb (Z.of_nat K) 0 then unexpected
            else Ret (VTab (table_fast (Z.to_nat (Z.of_nat W)) (Z.to_nat (Z.of_nat K)) mus thetas lds d))).
    rewrite !Nat2Z.id.
    replace (Z.ltb (Z.of_nat W) 0) with false by (symmetry; apply Z.ltb_ge; lia).
    replace (Z.ltb (Z.of_nat K) 0) with false by (symmetry; apply Z.ltb_ge; lia). reflexivity.
  Qed.

  Lemma oracle_point_fast (log : list (event val)) (p mu : Vec) (theta : Mx) (l : Num) (W N : nat) :
    O log l_point_fast [VVec p; VVec mu; VMx theta; VNum l; VInt (Z.of_nat W); VInt (Z.of_nat N)]
    = Ret (VNum (point_fast p mu theta l W N)).
  Proof.
    change (O log l_point_fast [VVec p; VVec mu; VMx theta; VNum l; VInt (Z.of_nat W); VInt (Z.of_nat N)])
      with (if Z.ltb (Z.of_nat W) 0 || Z.ltb (Z.of_nat N) 0 then unexpected
            else Ret (VNum (point_fast p mu theta l (Z.to_nat (Z.of_nat W)) (Z.to_nat (Z.of_nat N))))).
    rewrite !Nat2Z.id.
    replace (Z.ltb (Z.of_nat W) 0) with false by (symmetry; apply Z.ltb_ge; lia).
    replace (Z.ltb (Z.of_nat N) 0) with false by (symmetry; apply Z.ltb_ge; lia). reflexivity.
  Qed.

  (* the refreshed clusters have both cache fields, and they are the fitted ones *)
  Lemma all_some_ic_refreshed (cs : list Cluster) :
    all_some (map inverse_covariance (map refresh cs)) = Some (map train_inverse cs).
  Proof.
    induction cs as [|c cs IH]; [reflexivity|].
    cbn [map all_some refresh inverse_covariance]. rewrite IH. reflexivity.
  Qed.

  Lemma all_some_ld_refreshed (cs : list Cluster) :
    all_some (map log_determinant (map refresh cs)) = Some (map (fun c => logdet (train_inverse c)) cs).
  Proof.
    induction cs as [|c cs IH]; [reflexivity|].
    cbn [map all_some refresh log_determinant]. rewrite IH. reflexivity.
  Qed.

  Lemma mean_refreshed (cs : list Cluster) : map mean (map refresh cs) = map mean cs.
  Proof. rewrite map_map. reflexivity. Qed.

  Lemma train_inverse_refreshed (cs : list Cluster) : map train_inverse (map refresh cs) = map train_inverse cs.
  Proof. rewrite map_map. reflexivity. Qed.

  (* ---------------------------------------------------------------- the monad, one step at a time *)

  Lemma bind_call (B : Type) (f : string) (a : list val) (k : val -> M val B) (log : list (event val)) :
    mbind (call O f a) k log
    = match O log f a with
      | Ret v => k v (log ++ [Ev f a])%list
      | Raise e => (Raise e, (log ++ [Ev f a])%list)
      end.
  Proof. unfold mbind, call. destruct (O log f a) as [v|e]; reflexivity. Qed.

  Lemma bind_call_ret (B : Type) (f : string) (a : list val) (k : val -> M val B) (log : list (event val)) (v : val) :
    O log f a = Ret v -> mbind (call O f a) k log = k v (log ++ [Ev f a])%list.
  Proof. intros Ho. rewrite bind_call, Ho. reflexivity. Qed.

  (* the last call, whose answer is the answer of the function *)
  Lemma call_last_ret (f : string) (a : list val) (log : list (event val)) (v : val) :
    O log f a = Ret v -> mbind (call O f a) (fun t => mret t) log = (Ret v, (log ++ [Ev f a])%list).
  Proof. intros Ho. rewrite bind_call, Ho. reflexivity. Qed.

  Lemma bind_run (X B : Type) (mm : M val X) (k : X -> M val B) (log log' : list (event val)) (x : X) :
    mm log = (Ret x, log') -> mbind mm k log = k x log'.
  Proof. intros Hm. unfold mbind. rewrite Hm. reflexivity. Qed.

  Lemma for_break_cons_continue (S : Type) (body : S -> Z -> M val (S * bool)) (x : Z) (r : list Z) (s s' : S)
        (log log' : list (event val)) :
    body s x log = (Ret (s', false), log') -> for_break body (x :: r) s log = for_break body r s' log'.
  Proof. intros Hb. cbn [for_break]. unfold mbind. rewrite Hb. reflexivity. Qed.

  (* ================================================================ the refresh loop *)

  (* the body of the loop, as generated (the let unfolded) *)
  Definition table_body : val -> Z -> M val (val * bool) := fun model cluster =>
    t2_ <<- call O "getitem" [getattr model "clusters"; VInt cluster] ;;
    model <<- call O "store:model.clusters[cluster].inverse_covariance" [model; VInt cluster; getattr t2_ "train_inverse"] ;;
    t3_ <<- call O "np.linalg.slogdet" [getattr t2_ "train_inverse"] ;;
    model <<- call O "store:model.clusters[cluster].log_determinant" [model; VInt cluster; getattr t3_ "[1]"] ;;
    mret (model, false).

  (* the four calls of the iteration for cluster c, at position length pre, the clusters before it refreshed already *)
  Definition table_block (W : nat) (pre : list Cluster) (c : Cluster) (rest : list Cluster) : list (event val) :=
    [Ev "getitem" [VClusters (map refresh pre ++ c :: rest); VInt (Z.of_nat (length pre))];
     Ev l_store_ic [VModel (map refresh pre ++ c :: rest) W; VInt (Z.of_nat (length pre)); VMx (train_inverse c)];
     Ev "np.linalg.slogdet" [VMx (train_inverse c)];
     Ev l_store_ld [VModel (map refresh pre ++ set_ic c (train_inverse c) :: rest) W; VInt (Z.of_nat (length pre));
                    VNum (logdet (train_inverse c))]].

  (* the calls of the whole loop *)
  Fixpoint table_events (W : nat) (pre rest : list Cluster) : list (event val) :=
    match rest with
    | [] => []
    | c :: r => (table_block W pre c r ++ table_events W (pre ++ [c]) r)%list
    end.

  (* iteration k = length pre: cluster k gets  inverse_covariance := train_inverse,  log_determinant := logdet of THAT matrix;
     no other cluster and no other field changes *)
  Lemma table_body_run (W : nat) (pre : list Cluster) (c : Cluster) (rest : list Cluster) (log : list (event val)) :
    table_body (VModel (map refresh pre ++ c :: rest) W) (Z.of_nat (length pre)) log
    = (Ret (VModel (map refresh (pre ++ [c]) ++ rest) W, false), (log ++ table_block W pre c rest)%list).
  Proof.
    assert (Hlen : length pre = length (map refresh pre)) by (rewrite map_length; reflexivity).
    assert (Hk1 : length pre < length (map refresh pre ++ c :: rest)).
    { rewrite app_length, map_length. cbn [length]. lia. }
    assert (Hk2 : length pre < length (map refresh pre ++ set_ic c (train_inverse c) :: rest)).
    { rewrite app_length, map_length. cbn [length]. lia. }
    unfold table_body. rewrite getattr_clusters.
    rewrite bind_call, oracle_getitem.
    rewrite nth_error_app2 by lia. rewrite <- Hlen, Nat.sub_diag. cbn [nth_error]. cbv beta iota.
    rewrite getattr_train_inverse.
    rewrite (bind_call_ret _ _ _ _ _ _ (oracle_store_ic _ _ W _ (train_inverse c) Hk1)).
    rewrite (update_nth_app _ _ _ _ _ Hlen).
    rewrite (bind_call_ret _ _ _ _ _ _ (oracle_slogdet _ (train_inverse c))).
    rewrite getattr_pair1.
    rewrite (bind_call_ret _ _ _ _ _ _ (oracle_store_ld _ _ W _ (logdet (train_inverse c)) Hk2)).
    rewrite (update_nth_app _ _ _ _ _ Hlen).
    rewrite refresh_is_two_stores.
    unfold mret, table_block, l_store_ic, l_store_ld.
    rewrite map_app, <- (app_assoc (map refresh pre)). cbn [map app].
    rewrite <- !(app_assoc log). reflexivity.
  Qed.

  (* RUN STATE: the loop over the clusters not yet refreshed leaves every cluster refreshed, and its calls are table_events *)
  Lemma table_loop (W : nat) : forall (rest pre : list Cluster) (log : list (event val)),
    for_break table_body (map Z.of_nat (seq (length pre) (length rest))) (VModel (map refresh pre ++ rest) W) log
    = (Ret (VModel (map refresh (pre ++ rest)) W), (log ++ table_events W pre rest)%list).
  Proof.
    induction rest as [|c rest IH]; intros pre log.
    - cbn [length seq map for_break table_events]. rewrite !app_nil_r. reflexivity.
    - cbn [length seq map table_events].
      rewrite (for_break_cons_continue _ _ _ _ _ _ _ _ (table_body_run W pre c rest log)).
      specialize (IH (pre ++ [c])%list (log ++ table_block W pre c rest)%list).
      rewrite app_length in IH. cbn [length] in IH. rewrite Nat.add_1_r in IH.
      rewrite IH. rewrite <- !app_assoc. reflexivity.
  Qed.

  (* ================================================================ the table wrapper *)

  Definition run_table (cs : list Cluster) (W : nat) (d : Dt) : res val * list (event val) :=
    g_all_points_all_clusters_log_likelihood val VInt as_int getattr oracle_model (VModel cs W) (VData d) [].

  (* what the wrapper must return *)
  Definition table_of (cs : list Cluster) (W : nat) (d : Dt) : Tab :=
    table_fast W (length cs) (map mean cs) (map train_inverse cs) (map (fun c => logdet (train_inverse c)) cs) d.

  (* the four calls after the loop, on the refreshed model *)
  Definition tail_events (cs : list Cluster) (W : nat) (d : Dt) : list (event val) :=
    [Ev l_mus [VModel (map refresh cs) W];
     Ev l_thetas [VModel (map refresh cs) W];
     Ev l_logdets [VModel (map refresh cs) W];
     Ev l_table_fast [VInt (Z.of_nat W); VInt (Z.of_nat (length cs)); VVecs (map mean cs); VMxs (map train_inverse cs);
                      VNums (map (fun c => logdet (train_inverse c)) cs); VData d]].

  (* the whole run: result and complete log *)
  Lemma run_result (cs : list Cluster) (W : nat) (d : Dt) :
    run_table cs W d = (Ret (VTab (table_of cs W d)), (table_events W [] cs ++ tail_events cs W d)%list).
  Proof.
    unfold run_table, g_all_points_all_clusters_log_likelihood.
    rewrite getattr_numc.
    change (need_int as_int (VInt (Z.of_nat (length cs)))) with (@mret val Z (Z.of_nat (length cs))).
    unfold mbind at 1. unfold mret at 1.
    unfold zrange. rewrite Nat2Z.id.
    change (mbind (for_break table_body (map Z.of_nat (seq 0 (length cs))) (VModel cs W)) ?k [])
      with (mbind (for_break table_body (map Z.of_nat (seq (length (@nil Cluster)) (length cs)))
                             (VModel (map refresh [] ++ cs) W)) k []).
    rewrite (bind_run _ _ _ _ _ _ _ (table_loop W cs [] [])).
    cbn [app]. cbv zeta.
    rewrite getattr_window, getattr_numc, map_length.
    rewrite (bind_call_ret _ _ _ _ _ _ (oracle_mus _ (map refresh cs) W)).
    rewrite mean_refreshed.
    rewrite bind_call, oracle_thetas, all_some_ic_refreshed. cbv beta iota.
    rewrite bind_call, oracle_logdets, all_some_ld_refreshed. cbv beta iota.
    rewrite (call_last_ret _ _ _ _ (oracle_table_fast _ W (length cs) _ _ _ d)).
    unfold table_of, tail_events, l_mus, l_thetas, l_logdets, l_table_fast.
    rewrite <- !app_assoc. reflexivity.
  Qed.

  (* ---------------------------------------------------------------- the writes, read off the log *)

  (* the labels under which the translator renders an assignment into an object:  x.a... = e,  x.a = e,  x[i] = e *)
  Definition writes (f : string) : bool :=
    String.prefix "store:" f || String.prefix "setattr:" f || String.eqb f "setitem".

  (* the writing calls of a log, in order *)
  Definition write_calls (log : list (event val)) : list (event val) := filter (fun e => writes (ev_fn e)) log.

  (* the state a log leaves: the answer to its last writing call (the oracle ignores the history), or the state given *)
  Definition replay_step (m : res val) (e : event val) : res val :=
    if writes (ev_fn e) then oracle_model [] (ev_fn e) (ev_args e) else m.
  Definition model_after (m0 : val) (log : list (event val)) : res val := fold_left replay_step log (Ret m0).

  (* the two stores of cluster c at position k *)
  Definition stores_of (kc : nat * Cluster) : list (string * Z * val) :=
    [(l_store_ic, Z.of_nat (fst kc), VMx (train_inverse (snd kc)));
     (l_store_ld, Z.of_nat (fst kc), VNum (logdet (train_inverse (snd kc))))].
  (* a store call without the model it is made on: label, position, value *)
  Definition store_summary (e : event val) : string * Z * val :=
    match ev_args e with
    | [_; VInt k; v] => (ev_fn e, k, v)
    | _ => (ev_fn e, (-1)%Z, VNone)
    end.

  Lemma stores_count : forall (cs : list Cluster) (k0 : nat),
    length (flat_map stores_of (indexed_from k0 cs)) = 2 * length cs.
  Proof.
    induction cs as [|c cs IH]; intros k0; [reflexivity|].
    cbn [indexed_from flat_map stores_of app length]. rewrite (IH (S k0)). lia.
  Qed.

  Lemma write_calls_block (W : nat) (pre : list Cluster) (c : Cluster) (rest : list Cluster) :
    map store_summary (write_calls (table_block W pre c rest)) = stores_of (length pre, c).
  Proof. reflexivity. Qed.

  Lemma write_calls_events (W : nat) : forall (rest pre : list Cluster),
    map store_summary (write_calls (table_events W pre rest)) = flat_map stores_of (indexed_from (length pre) rest).
  Proof.
    induction rest as [|c rest IH]; intros pre; [reflexivity|].
    cbn [table_events indexed_from flat_map]. unfold write_calls. rewrite filter_app, map_app.
    fold (write_calls (table_block W pre c rest)). fold (write_calls (table_events W (pre ++ [c]) rest)).
    rewrite write_calls_block, IH. rewrite app_length. cbn [length]. rewrite Nat.add_1_r. reflexivity.
  Qed.

  Lemma write_calls_tail (cs : list Cluster) (W : nat) (d : Dt) : write_calls (tail_events cs W d) = [].
  Proof. reflexivity. Qed.

  Lemma replay_block (W : nat) (pre : list Cluster) (c : Cluster) (rest : list Cluster) (m : res val) :
    fold_left replay_step (table_block W pre c rest) m = Ret (VModel (map refresh (pre ++ [c]) ++ rest) W).
  Proof.
    assert (Hlen : length pre = length (map refresh pre)) by (rewrite map_length; reflexivity).
    assert (Hk2 : length pre < length (map refresh pre ++ set_ic c (train_inverse c) :: rest)).
    { rewrite app_length, map_length. cbn [length]. lia. }
    change (fold_left replay_step (table_block W pre c rest) m)
      with (O [] l_store_ld [VModel (map refresh pre ++ set_ic c (train_inverse c) :: rest) W; VInt (Z.of_nat (length pre));
                             VNum (logdet (train_inverse c))]).
    rewrite (oracle_store_ld _ _ W _ (logdet (train_inverse c)) Hk2).
    rewrite (update_nth_app _ _ _ _ _ Hlen). rewrite refresh_is_two_stores.
    rewrite map_app, <- (app_assoc (map refresh pre)). reflexivity.
  Qed.

  Lemma replay_events (W : nat) : forall (rest pre : list Cluster),
    fold_left replay_step (table_events W pre rest) (Ret (VModel (map refresh pre ++ rest) W))
    = Ret (VModel (map refresh (pre ++ rest)) W).
  Proof.
    induction rest as [|c rest IH]; intros pre.
    - cbn [table_events fold_left]. rewrite !app_nil_r. reflexivity.
    - cbn [table_events]. rewrite fold_left_app, replay_block, IH, <- app_assoc. reflexivity.
  Qed.

  Lemma replay_tail (cs : list Cluster) (W : nat) (d : Dt) (m : res val) : fold_left replay_step (tail_events cs W d) m = m.
  Proof. reflexivity. Qed.

  (* ================================================================ the point wrapper *)

  Definition run_point (p : Vec) (c : Cluster) (W N : nat) : res val * list (event val) :=
    g_point_log_likelihood val getattr oracle_model (VVec p) (VCl c) (VInt (Z.of_nat W)) (VInt (Z.of_nat N)) [].

  Lemma run_point_result (p : Vec) (c : Cluster) (W N : nat) (theta : Mx) (l : Num) :
    inverse_covariance c = Some theta -> log_determinant c = Some l ->
    run_point p c W N
    = (Ret (VNum (point_fast p (mean c) theta l W N)),
       [Ev l_point_fast [VVec p; VVec (mean c); VMx theta; VNum l; VInt (Z.of_nat W); VInt (Z.of_nat N)]]).
  Proof.
    intros Hic Hld. unfold run_point, g_point_log_likelihood. cbv zeta.
    rewrite getattr_mean, getattr_ic, getattr_ld, Hic, Hld. cbn [opt_mx opt_num].
    rewrite (call_last_ret _ _ _ _ (oracle_point_fast _ p (mean c) theta l W N)). reflexivity.
  Qed.

  (* ================================================================ the theorems *)

  (* 1. END TO END.  Any clusters, any cache contents: the kernel is applied to the means, the FITTED matrices and the
     log-determinants of those matrices, cluster by cluster in order, the model's window size and the data of the call. *)
  Theorem table_wrapper_end_to_end : forall (cs : list Cluster) (W : nat) (d : Dt),
    exists log',
      g_all_points_all_clusters_log_likelihood val VInt as_int getattr oracle_model (VModel cs W) (VData d) []
      = (Ret (VTab (table_fast W (length cs) (map mean cs) (map train_inverse cs)
                               (map (fun c => logdet (train_inverse c)) cs) d)), log').
  Proof. intros cs W d. eexists. apply (run_result cs W d). Qed.

  (* 2. THE STORES.  The complete log; its writing calls; the model they leave. *)
  Theorem table_wrapper_stores : forall (cs : list Cluster) (W : nat) (d : Dt),
    exists log',
      g_all_points_all_clusters_log_likelihood val VInt as_int getattr oracle_model (VModel cs W) (VData d) []
      = (Ret (VTab (table_of cs W d)), log')
      (* every call of the run: four per cluster, then the three comprehensions and the kernel - all four on the refreshed model *)
      /\ log' = (table_events W [] cs ++ tail_events cs W d)%list
      (* the writing calls: for cluster k = 0, 1, .. in order, inverse_covariance := train_inverse k and then
         log_determinant := logdet (train_inverse k); nothing else is written *)
      /\ map store_summary (write_calls log') = flat_map stores_of (indexed_from 0 cs)
      /\ length (write_calls log') = 2 * length cs
      (* the model after the run *)
      /\ model_after (VModel cs W) log' = Ret (VModel (map refresh cs) W)
      (* ... in which means and fitted matrices are the given ones, and the cache is the fitted matrix and its log-determinant *)
      /\ map mean (map refresh cs) = map mean cs
      /\ map train_inverse (map refresh cs) = map train_inverse cs
      /\ map inverse_covariance (map refresh cs) = map (fun c => Some (train_inverse c)) cs
      /\ map log_determinant (map refresh cs) = map (fun c => Some (logdet (train_inverse c))) cs.
  Proof.
    intros cs W d. eexists. split; [apply (run_result cs W d)|]. split; [reflexivity|].
    assert (Hw : map store_summary (write_calls (table_events W [] cs ++ tail_events cs W d))
                 = flat_map stores_of (indexed_from 0 cs)).
    { unfold write_calls. rewrite filter_app.
      fold (write_calls (table_events W [] cs)). fold (write_calls (tail_events cs W d)).
      rewrite write_calls_tail, app_nil_r. apply (write_calls_events W cs []). }
    split; [exact Hw|].
    split.
    { rewrite <- (map_length store_summary), Hw. apply stores_count. }
    split.
    { unfold model_after. rewrite fold_left_app, replay_tail. apply (replay_events W cs []). }
    split; [apply mean_refreshed|]. split; [apply train_inverse_refreshed|].
    split; rewrite map_map; reflexivity.
  Qed.

  (* the same per cluster: position k of the model after the run *)
  Corollary table_wrapper_stores_nth : forall (cs : list Cluster) (W : nat) (d : Dt),
    exists (cs' : list Cluster) (log' : list (event val)),
      g_all_points_all_clusters_log_likelihood val VInt as_int getattr oracle_model (VModel cs W) (VData d) []
      = (Ret (VTab (table_of cs W d)), log')
      /\ model_after (VModel cs W) log' = Ret (VModel cs' W)
      /\ length cs' = length cs
      /\ forall (k : nat) (c : Cluster), nth_error cs k = Some c ->
           exists c', nth_error cs' k = Some c'
                      /\ mean c' = mean c
                      /\ train_inverse c' = train_inverse c
                      /\ inverse_covariance c' = Some (train_inverse c)
                      /\ log_determinant c' = Some (logdet (train_inverse c)).
  Proof.
    intros cs W d.
    destruct (table_wrapper_stores cs W d) as (log' & Hrun & _ & _ & _ & Hafter & _).
    exists (map refresh cs), log'. split; [exact Hrun|]. split; [exact Hafter|]. split; [apply map_length|].
    intros k c Hk. exists (refresh c). split; [apply map_nth_error; exact Hk|].
    repeat split; reflexivity.
  Qed.

  (* 3. THE POINT WRAPPER: the cluster's own stored mean, inverse covariance and log-determinant, and the two sizes given *)
  Theorem point_wrapper_end_to_end : forall (p : Vec) (c : Cluster) (W N : nat) (theta : Mx) (l : Num),
    inverse_covariance c = Some theta -> log_determinant c = Some l ->
    exists log',
      g_point_log_likelihood val getattr oracle_model (VVec p) (VCl c) (VInt (Z.of_nat W)) (VInt (Z.of_nat N)) []
      = (Ret (VNum (point_fast p (mean c) theta l W N)), log')
      /\ log' = [Ev l_point_fast [VVec p; VVec (mean c); VMx theta; VNum l; VInt (Z.of_nat W); VInt (Z.of_nat N)]].
  Proof.
    intros p c W N theta l Hic Hld. eexists. split; [apply (run_point_result p c W N theta l Hic Hld)|reflexivity].
  Qed.

  (* on a cluster of the model the table wrapper leaves, the point wrapper scores with the fitted matrix *)
  Corollary point_wrapper_after_refresh : forall (p : Vec) (c : Cluster) (W N : nat),
    exists log',
      g_point_log_likelihood val getattr oracle_model (VVec p) (VCl (refresh c)) (VInt (Z.of_nat W)) (VInt (Z.of_nat N)) []
      = (Ret (VNum (point_fast p (mean c) (train_inverse c) (logdet (train_inverse c)) W N)), log').
  Proof.
    intros p c W N.
    destruct (point_wrapper_end_to_end p (refresh c) W N (train_inverse c) (logdet (train_inverse c)) eq_refl eq_refl)
      as (log' & Hrun & _).
    exists log'. exact Hrun.
  Qed.
End Interp.

(* ================================================================ non-vacuity *)

Section Example.
  (* matrices, vectors, numbers, data: nat.  logdet m = m + 7.  The table kernel packs its arguments so that they can be read off *)
  Let tab0 : Type := (nat * nat * list nat * list nat * list nat * nat)%type.
  Let logdet0 (m : nat) : nat := m + 7.
  Let table0 (W K : nat) (mus thetas lds : list nat) (d : nat) : tab0 := (W, K, mus, thetas, lds, d).
  Let point0 (p mu theta l W N : nat) : nat := 0.
  Let V0 : Type := val nat nat nat nat tab0.
  Let cl (mu ti : nat) (ic ld : option nat) : Cluster nat nat nat := mkCluster nat nat nat mu ti ic ld.
  Let O0 := oracle_model nat nat nat nat tab0 logdet0 table0 point0.
  Let run (cs : list (Cluster nat nat nat)) : res V0 * list (event V0) :=
    g_all_points_all_clusters_log_likelihood V0 (VInt nat nat nat nat tab0) (as_int nat nat nat nat tab0)
      (getattr nat nat nat nat tab0) O0 (VModel nat nat nat nat tab0 cs 5) (VData nat nat nat nat tab0 42) [].
  Let after (cs : list (Cluster nat nat nat)) : res V0 :=
    model_after nat nat nat nat tab0 logdet0 table0 point0 (VModel nat nat nat nat tab0 cs 5) (snd (run cs)).

  (* two clusters whose scoring caches are STALE (999, 888): the table is computed from the fitted matrices 30 and 40 and from
     THEIR log-determinants 37 and 47, with the means 1 and 2, W = 5, K = 2 and the data 42 *)
  Example table_wrapper_example_stale :
    fst (run [cl 1 30 (Some 999) (Some 888); cl 2 40 (Some 999) (Some 888)])
    = Ret (VTab nat nat nat nat tab0 (5, 2, [1; 2], [30; 40], [37; 47], 42))
    /\ map (@ev_fn _) (snd (run [cl 1 30 (Some 999) (Some 888); cl 2 40 (Some 999) (Some 888)]))
       = ["getitem"; "store:model.clusters[cluster].inverse_covariance"; "np.linalg.slogdet";
          "store:model.clusters[cluster].log_determinant";
          "getitem"; "store:model.clusters[cluster].inverse_covariance"; "np.linalg.slogdet";
          "store:model.clusters[cluster].log_determinant";
          "expr:np.asarray([x.stacked_data_mean for x in model.clusters])";
          "expr:np.asarray([x.inverse_covariance for x in model.clusters])";
          "expr:np.asarray([x.log_determinant for x in model.clusters])";
          "all_points_all_clusters_log_likelihood_fast"]
    /\ after [cl 1 30 (Some 999) (Some 888); cl 2 40 (Some 999) (Some 888)]
       = Ret (VModel nat nat nat nat tab0 [cl 1 30 (Some 30) (Some 37); cl 2 40 (Some 40) (Some 47)] 5).
  Proof. vm_compute. repeat split. Qed.

  (* no cache at all (the state right after the optimise phase): the same table *)
  Example table_wrapper_example_no_cache :
    fst (run [cl 1 30 None None; cl 2 40 None None])
    = Ret (VTab nat nat nat nat tab0 (5, 2, [1; 2], [30; 40], [37; 47], 42)).
  Proof. vm_compute. reflexivity. Qed.

  (* no cluster: no store, the kernel on empty stacks *)
  Example table_wrapper_example_empty :
    run [] = (Ret (VTab nat nat nat nat tab0 (5, 0, [], [], [], 42)),
              [Ev "expr:np.asarray([x.stacked_data_mean for x in model.clusters])" [VModel nat nat nat nat tab0 [] 5];
               Ev "expr:np.asarray([x.inverse_covariance for x in model.clusters])" [VModel nat nat nat nat tab0 [] 5];
               Ev "expr:np.asarray([x.log_determinant for x in model.clusters])" [VModel nat nat nat nat tab0 [] 5];
               Ev "all_points_all_clusters_log_likelihood_fast"
                  [VInt nat nat nat nat tab0 5; VInt nat nat nat nat tab0 0; VVecs nat nat nat nat tab0 [];
                   VMxs nat nat nat nat tab0 []; VNums nat nat nat nat tab0 []; VData nat nat nat nat tab0 42]]).
  Proof. vm_compute. reflexivity. Qed.

  (* the comprehensions do read the cache fields: WITHOUT the refresh loop a model with a missing cache cannot be stacked,
     and one with a stale cache is stacked as it is (so the result above is due to the loop) *)
  Example comprehension_example_missing :
    O0 [] "expr:np.asarray([x.inverse_covariance for x in model.clusters])"
       [VModel nat nat nat nat tab0 [cl 1 30 (Some 999) None; cl 2 40 None None] 5]
    = Raise "missing field".
  Proof. vm_compute. reflexivity. Qed.
  Example comprehension_example_stale :
    O0 [] "expr:np.asarray([x.inverse_covariance for x in model.clusters])"
       [VModel nat nat nat nat tab0 [cl 1 30 (Some 999) None; cl 2 40 (Some 999) None] 5]
    = Ret (VMxs nat nat nat nat tab0 [999; 999]).
  Proof. vm_compute. reflexivity. Qed.

End Example.

Section ExamplePoint.
  (* numbers: lists of nat, so that the point kernel can pack its arguments.  logdet m = [m + 7] *)
  Let logdet1 (m : nat) : list nat := [m + 7].
  Let table1 (W K : nat) (mus thetas : list nat) (lds : list (list nat)) (d : nat) : nat := 0.
  Let point1 (p mu theta : nat) (l : list nat) (W N : nat) : list nat := ([p; mu; theta] ++ l ++ [W; N])%list.
  Let V1 : Type := val nat nat (list nat) nat nat.
  Let cl1 (mu ti : nat) (ic : option nat) (ld : option (list nat)) : Cluster nat nat (list nat) :=
    mkCluster nat nat (list nat) mu ti ic ld.
  Let O1 := oracle_model nat nat (list nat) nat nat logdet1 table1 point1.
  Let runp (c : Cluster nat nat (list nat)) : res V1 * list (event V1) :=
    g_point_log_likelihood V1 (getattr nat nat (list nat) nat nat) O1
      (VVec nat nat (list nat) nat nat 3) (VCl nat nat (list nat) nat nat c)
      (VInt nat nat (list nat) nat nat 5) (VInt nat nat (list nat) nat nat 2) [].

  (* the point wrapper reads the cache: point 3, mean 1, cached matrix 30 and log-determinant [37], W = 5, N = 2 *)
  Example point_wrapper_example :
    runp (cl1 1 30 (Some 30) (Some [37]))
    = (Ret (VNum nat nat (list nat) nat nat [3; 1; 30; 37; 5; 2]),
       [Ev "point_log_likelihood_fast"
           [VVec nat nat (list nat) nat nat 3; VVec nat nat (list nat) nat nat 1; VMx nat nat (list nat) nat nat 30;
            VNum nat nat (list nat) nat nat [37]; VInt nat nat (list nat) nat nat 5; VInt nat nat (list nat) nat nat 2]]).
  Proof. vm_compute. reflexivity. Qed.

  (* ... whatever it holds: a stale cache (999) is what the kernel gets, not the fitted matrix 30 *)
  Example point_wrapper_example_stale :
    fst (runp (cl1 1 30 (Some 999) (Some [888]))) = Ret (VNum nat nat (list nat) nat nat [3; 1; 999; 888; 5; 2]).
  Proof. vm_compute. reflexivity. Qed.

  (* ... and a cluster without cache cannot be scored *)
  Example point_wrapper_example_no_cache :
    fst (runp (cl1 1 30 None None)) = Raise "unexpected".
  Proof. vm_compute. reflexivity. Qed.

  (* after the table wrapper's refresh of that cluster: the fitted matrix and its log-determinant *)
  Example point_wrapper_example_refreshed :
    fst (runp (refresh nat nat (list nat) logdet1 (cl1 1 30 (Some 999) (Some [888]))))
    = Ret (VNum nat nat (list nat) nat nat [3; 1; 30; 37; 5; 2]).
  Proof. vm_compute. reflexivity. Qed.
End ExamplePoint.


Print Assumptions table_wrapper_end_to_end.
Print Assumptions table_wrapper_stores.
Print Assumptions point_wrapper_end_to_end.
