(* compress (reinflate v) = v with POINTWISE laws: the three identities are needed only at the
   entries of v, so the statement can be instantiated at binary64, where they fail for -0 and for
   diagonal entries whose double overflows (Proofs/FloatRoundTrip.v). *)
From Coq Require Import List Arith Lia.
Import ListNotations.
From Ticc Require Import Model.TriIndex Proofs.TriIndexP.

Section PointwiseLaws.
  Context {A : Type} (zero : A) (add sub : A -> A -> A).

  Lemma compress_reinflate_pointwise n (v : list A) :
    length v = n * (n + 1) / 2 ->
    (forall x, In x v -> sub (add x zero) zero = x) ->
    (forall x, In x v -> sub (add x x) x = x) ->
    compress n (reinflate zero add sub v) = v.
  Proof.
    intros Hlen law_r law_d. unfold reinflate. rewrite Hlen, full_matrix_size_inverse.
    unfold compress.
    apply (nth_ext _ _ zero zero).
    - rewrite map_length, triu_length. symmetry. exact Hlen.
    - intros k Hk. rewrite map_length in Hk.
      rewrite (nth_map_lt _ _ _ _ (0, 0)) by exact Hk.
      rewrite triu_length in Hk.
      destruct (tri_index_surj n k Hk) as [r [c [Hrc Hti]]].
      destruct (tri_index_is_rank n r c ltac:(lia) ltac:(lia)) as [Hn _].
      rewrite Hti in Hn. rewrite Hn. cbn [fst snd].
      assert (Hin : In (nth k v zero) v) by (apply nth_In; rewrite Hlen; exact Hk).
      unfold upper_to_full.
      destruct (Nat.eqb r c) eqn:E.
      + apply Nat.eqb_eq in E. subst c.
        rewrite (upper_inside zero n v r r Hrc), Hti. apply law_d. exact Hin.
      + apply Nat.eqb_neq in E.
        rewrite (upper_inside zero n v r c Hrc), Hti.
        rewrite (upper_outside zero n v c r) by lia.
        apply law_r. exact Hin.
  Qed.
End PointwiseLaws.
