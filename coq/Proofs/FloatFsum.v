(* The exactly rounded sum of n copies of x is the correctly rounded product
   x * n, bit for bit (overflow included).  Uses Flocq for the real-number
   semantics of SpecFloat's binary_normalize and of the primitive product. *)
From Coq Require Import ZArith Reals List Lia Floats SpecFloat.
From Flocq Require Import Core.Core IEEE754.BinarySingleNaN.
From Flocq Require IEEE754.PrimFloat.
From Ticc Require Import Model.InstF.
Import ListNotations.

Module FP := Flocq.IEEE754.PrimFloat.

Local Open Scope Z_scope.

(* ---- 1. the list part: fsumF (repeat x n) rounds n * z * 2^e once ---- *)

Lemma map_repeat' : forall (A B : Type) (f : A -> B) (a : A) (n : nat),
  map f (repeat a n) = repeat (f a) n.
Proof. induction n; simpl; congruence. Qed.

Lemma filter_repeat_true : forall (A : Type) (f : A -> bool) (a : A) (n : nat),
  f a = true -> filter f (repeat a n) = repeat a n.
Proof. intros A f a n H. induction n; simpl; [reflexivity|]. rewrite H. congruence. Qed.

Lemma fold_min_repeat : forall (k : nat) (e : Z), fold_left Z.min (repeat e k) e = e.
Proof. induction k; intros e; simpl; [reflexivity|]. rewrite Z.min_id. apply IHk. Qed.

Lemma fold_add_repeat : forall (k : nat) (z a : Z),
  fold_left Z.add (repeat z k) a = a + Z.of_nat k * z.
Proof.
  induction k; intros z a.
  - simpl. lia.
  - cbn [repeat fold_left]. rewrite IHk. lia.
Qed.

Definition signedZ (s : bool) (m : positive) : Z := if s then Z.neg m else Z.pos m.

Lemma fsumF_repeat : forall (x : PrimFloat.float) (s : bool) (m : positive) (e : Z) (n : nat),
  Prim2SF x = S754_finite s m e -> (1 <= n)%nat ->
  fsumF (repeat x n) =
  SF2Prim (SpecFloat.binary_normalize prec emax (Z.of_nat n * signedZ s m) e false).
Proof.
  intros x s m e n Hx Hn.
  unfold fsumF.
  rewrite map_repeat'.
  assert (Hp : sf_parts x = (signedZ s m, e)) by (unfold sf_parts; now rewrite Hx).
  rewrite Hp.
  rewrite filter_repeat_true by (now destruct s).
  destruct n as [|k]; [lia|].
  cbn [repeat]. cbv zeta iota beta.
  change ((signedZ s m, e) :: repeat (signedZ s m, e) k) with (repeat (signedZ s m, e) (S k)).
  rewrite !map_repeat'.
  cbn [fst snd].
  rewrite fold_min_repeat.
  rewrite Z.sub_diag, Z.pow_0_r, Z.mul_1_r.
  rewrite fold_add_repeat.
  reflexivity.
Qed.

(* ---- 2. n as a binary64 number: exact, finite, positive ---- *)

Lemma of_natF_B : forall n : nat, (1 <= n)%nat -> Z.of_nat n < 2 ^ 53 ->
  B2R (FP.Prim2B (of_natF n)) = IZR (Z.of_nat n) /\
  is_finite (FP.Prim2B (of_natF n)) = true /\
  Bsign (FP.Prim2B (of_natF n)) = false.
Proof.
  intros n Hn Hlt. unfold of_natF.
  rewrite FP.of_int63_equiv.
  rewrite Uint63.of_Z_spec, Z.mod_small
    by (change Uint63.wB with (2 ^ 63); split; [lia|]; apply Z.lt_trans with (1 := Hlt); reflexivity).
  generalize (binary_normalize_correct prec emax FP.Hprec FP.Hmax mode_NE (Z.of_nat n) 0 false).
  cbv zeta.
  assert (HF : F2R (Float radix2 (Z.of_nat n) 0) = IZR (Z.of_nat n))
    by (unfold F2R; simpl; ring).
  assert (Hg : generic_format radix2 (fexp prec emax) (F2R (Float radix2 (Z.of_nat n) 0))).
  { apply (generic_format_FLT radix2 (emin prec emax) prec).
    exists (Float radix2 (Z.of_nat n) 0); [reflexivity| |discriminate].
    cbn [Fnum]. rewrite Z.abs_eq by lia. exact Hlt. }
  rewrite round_generic by (auto with typeclass_instances).
  rewrite HF.
  rewrite Rlt_bool_true.
  - intros (H1 & H2 & H3).
    rewrite Rcompare_Gt in H3 by (apply IZR_lt; lia). auto.
  - rewrite Rabs_pos_eq by (apply IZR_le; lia).
    rewrite <- IZR_Zpower by discriminate.
    apply IZR_lt. apply Z.lt_trans with (1 := Hlt). reflexivity.
Qed.

(* ---- 3. the theorem ---- *)

Lemma is_finite_not_nan : forall b : binary_float prec emax,
  is_finite b = true -> is_nan b = false.
Proof. now intros [ | | | ]. Qed.

Theorem fsum_copies_is_product : forall (x : PrimFloat.float) (n : nat),
  PrimFloat.is_finite x = true ->
  PrimFloat.is_zero x = false ->
  (1 <= n)%nat -> (Z.of_nat n < 2 ^ 53)%Z ->
  fsumF (repeat x n) = PrimFloat.mul x (of_natF n).
Proof.
  intros x n Hfin Hnz Hn Hlt.
  rewrite FP.is_finite_equiv in Hfin. rewrite FP.is_zero_equiv in Hnz.
  pose proof (FP.B2SF_Prim2B x) as HSF.
  destruct (FP.Prim2B x) as [sx|sx| |s m e Hb] eqn:HX; try discriminate.
  simpl in HSF. symmetry in HSF.
  rewrite (fsumF_repeat x s m e n HSF Hn).
  rewrite FP.binary_normalize_equiv.
  apply FP.Prim2B_inj.
  fold (FP.B2Prim (binary_normalize prec emax FP.Hprec FP.Hmax mode_NE
                     (Z.of_nat n * signedZ s m) e false)).
  rewrite FP.Prim2B_B2Prim, FP.mul_equiv, HX.
  destruct (of_natF_B n Hn Hlt) as (HNr & HNf & HNs).
  set (N := FP.Prim2B (of_natF n)) in *.
  set (X := B754_finite s m e Hb).
  assert (HNpos : (0 < B2R N)%R) by (rewrite HNr; apply IZR_lt; lia).
  assert (Hr : F2R (Float radix2 (Z.of_nat n * signedZ s m) e) = (B2R X * B2R N)%R).
  { rewrite HNr. unfold X, B2R, F2R. cbn [Fnum Fexp]. rewrite mult_IZR.
    replace (cond_Zopp s (Z.pos m)) with (signedZ s m) by now destruct s.
    ring. }
  assert (Hsign : Rlt_bool (B2R X * B2R N) 0 = s /\
                  match Rcompare (B2R X * B2R N) 0 with
                  | Eq => false | Lt => true | Gt => false end = s).
  { destruct s.
    - assert (B2R X < 0)%R by (apply F2R_lt_0; reflexivity).
      assert (B2R X * B2R N < 0)%R
        by (rewrite <- (Rmult_0_l (B2R N)); now apply Rmult_lt_compat_r).
      rewrite Rlt_bool_true, Rcompare_Lt by assumption. auto.
    - assert (0 < B2R X)%R by (apply F2R_gt_0; reflexivity).
      assert (0 < B2R X * B2R N)%R by now apply Rmult_lt_0_compat.
      rewrite Rlt_bool_false, Rcompare_Gt by (try apply Rlt_le; assumption). auto. }
  destruct Hsign as (Hs1 & Hs2).
  generalize (binary_normalize_correct prec emax FP.Hprec FP.Hmax mode_NE
                (Z.of_nat n * signedZ s m) e false).
  generalize (Bmult_correct prec emax FP.Hprec FP.Hmax mode_NE X N).
  cbv zeta.
  rewrite Hr, Hs1, Hs2.
  destruct (Rlt_bool (Rabs _) _).
  - intros (M1 & M2 & M3) (L1 & L2 & L3).
    assert (M2' : is_finite (Bmult mode_NE X N) = true) by (rewrite M2, HNf; reflexivity).
    apply B2R_Bsign_inj; auto.
    + congruence.
    + rewrite L3, (M3 (is_finite_not_nan _ M2')), HNs. now destruct s.
  - intros M L. apply B2SF_inj. rewrite M, L, HNs. now destruct s.
Qed.

Print Assumptions fsum_copies_is_product.
